/-
  Helper lemmas for C32 (Model/Finished.lean): what the read paths may touch (read bits only), that the liveness flag never
  changes, that no statement is produced by the loops.
-/
import PonyVerif.Model.Finished
namespace PonyVerif.Model.Finished

/-- an object with its read bits forgotten -/
def Obj.core (o : Obj) : Obj := { o with rbits := none }
/-- a world with every object's read bits forgotten -/
def World.core (w : World) : World := { w with objs := w.objs.map Obj.core }

theorem over_of_dead (w : World) (o : Obj) (h : w.alive = false) : over w o = true := by simp [over, h]

theorem bump_core (o : Obj) (b : Nat) : (bump o b).core = o.core := by
  unfold bump
  split
  · split <;> simp [Obj.core]
  · rfl

theorem set_same_map {α β : Type} (f : α → β) (l : List α) (j : Nat) (it x : α) (h : l[j]? = some it) (hx : f x = f it) :
    (l.set j x).map f = l.map f := by
  apply List.ext_getElem?
  intro k
  by_cases hk : j = k
  · subst hk
    simp [List.getElem?_set, h, hx]
    have : j < l.length := by
      rcases List.getElem?_eq_some_iff.mp h with ⟨hl, _⟩; exact hl
    simp [this]
  · simp [hk]

theorem setObj_core (w : World) (j : Nat) (it x : Obj) (h : w.objs[j]? = some it) (hx : x.core = it.core) :
    (w.setObj j x).core = w.core := by
  simp only [World.core, World.setObj]
  rw [set_same_map Obj.core w.objs j it x h hx]

theorem setObj_alive (w : World) (j : Nat) (x : Obj) : (w.setObj j x).alive = w.alive := rfl

theorem copyBump_core (a : Attr) (added : Option (List Nat)) (l : List Nat) (w : World) :
    (copyBump a added l w).1.core = w.core ∧ (copyBump a added l w).1.alive = w.alive := by
  induction l generalizing w with
  | nil => simp [copyBump]
  | cons j rest ih =>
    unfold copyBump
    by_cases hm : mem? added j = true
    · simp [hm]; exact ih w
    · simp [hm]
      cases hj : w.objs[j]? with
      | none => simp
      | some it =>
        cases hw : it.wbits with
        | none => simp [hw]
        | some wb =>
          simp only [hw]
          have := ih (w.setObj j (bump it a.revBit))
          rw [setObj_core w j it _ hj (bump_core it a.revBit), setObj_alive] at this
          exact this

theorem collCopy_core (w : World) (o : Obj) (a : Attr) :
    (collCopy w o a).world.core = w.core ∧ (collCopy w o a).world.alive = w.alive ∧ (collCopy w o a).stmts = [] := by
  unfold collCopy
  split
  · simp
  · split
    · simp
    · split
      · split
        · simp
        · split
          · split
            · next heq =>
              rename_i sd _ _ _ _ _
              have h := copyBump_core a sd.added sd.items w
              rw [heq] at h; simpa using h
            · next heq =>
              rename_i sd _ _ _ _ _
              have h := copyBump_core a sd.added sd.items w
              rw [heq] at h; simpa using h
          · simp
      · simp

theorem collCopy_notLive (w : World) (o : Obj) (a : Attr) (h : w.alive = false) : (collCopy w o a).out ≠ .live := by
  unfold collCopy
  split
  · simp
  · split
    · simp
    · split
      · split
        · simp [setLoadOut, over, h]
        · split
          · split <;> simp
          · simp
      · simp [setLoadOut, over, h]

theorem attrGet_notLive (w : World) (o : Obj) (a : Attr) (h : w.alive = false) : attrGet w o a ≠ .live := by
  unfold attrGet
  by_cases hg : (!a.isPk && o.status.isGone) = true
  · simp [hg]
  · simp only [hg]
    cases o.vals with
    | none => simp
    | some vs =>
      cases hl : lookup vs a.id with
      | none => simp [hl, attrLoadOut, over, h]
      | some s =>
        cases s with
        | none => simp [hl]
        | coll sd => simp [hl]
        | val v =>
          simp only [hl]
          repeat' split
          all_goals simp_all [over]

theorem attrGetDescr_facts (w : World) (i : Nat) (o : Obj) (a : Attr) (ho : w.objs[i]? = some o) :
    (attrGetDescr w i o a).world.core = w.core ∧ (attrGetDescr w i o a).world.alive = w.alive ∧ (attrGetDescr w i o a).stmts = [] := by
  unfold attrGetDescr
  by_cases hp : a.isPk = true
  · simp [hp]
  · simp only [hp]
    cases attrGet w o a <;> simp [setObj_alive, setObj_core w i o _ ho (bump_core o a.bit)]

theorem attrGetDescr_notLive (w : World) (i : Nat) (o : Obj) (a : Attr) (h : w.alive = false) : (attrGetDescr w i o a).out ≠ .live := by
  have := attrGet_notLive w o a h
  unfold attrGetDescr
  by_cases hp : a.isPk = true
  · simp [hp, this]
  · simp only [hp]
    cases hg : attrGet w o a <;> simp_all

theorem toDictStep_facts (w : World) (i : Nat) (a : Attr) :
    (toDictStep w i a).1.core = w.core ∧ (toDictStep w i a).1.alive = w.alive := by
  unfold toDictStep
  cases ho : w.objs[i]? with
  | none => simp
  | some o =>
    cases a.kind with
    | coll =>
      simp only
      have hc := collCopy_core w o a
      cases (collGet w o).out <;> simp
      cases (collCopy w o a).out <;> simp [hc.1, hc.2.1]
    | scalar =>
      simp only
      have hc := attrGetDescr_facts w i o a ho
      cases (attrGetDescr w i o a).out <;> simp [hc.1, hc.2.1]
    | ref =>
      simp only
      have hc := attrGetDescr_facts w i o a ho
      cases (attrGetDescr w i o a).out <;> simp [hc.1, hc.2.1]

theorem toDictStep_notLive (w : World) (i : Nat) (a : Attr) (h : w.alive = false) : (toDictStep w i a).2 ≠ .error .live := by
  unfold toDictStep
  cases ho : w.objs[i]? with
  | none => simp
  | some o =>
    cases a.kind with
    | coll =>
      simp only
      have hc := collCopy_notLive w o a h
      cases hg : (collGet w o).out <;> simp
      · cases hcc : (collCopy w o a).out <;> simp_all
      · simp [collGet] at hg
        by_cases hd : o.status.isDel = true <;> simp [hd] at hg
    | scalar =>
      simp only
      have hc := attrGetDescr_notLive w i o a h
      cases hcc : (attrGetDescr w i o a).out <;> simp_all
    | ref =>
      simp only
      have hc := attrGetDescr_notLive w i o a h
      cases hcc : (attrGetDescr w i o a).out <;> simp_all

theorem toDictLoop_facts (i : Nat) (attrs : List Attr) (w : World) (acc : List (Nat × Rv)) :
    (toDictLoop i attrs w acc).world.core = w.core ∧ (toDictLoop i attrs w acc).world.alive = w.alive ∧
    (toDictLoop i attrs w acc).stmts = [] := by
  induction attrs generalizing w acc with
  | nil => simp [toDictLoop]
  | cons a rest ih =>
    unfold toDictLoop
    have hs := toDictStep_facts w i a
    generalize toDictStep w i a = r at hs
    rcases r with ⟨w', e⟩
    cases e with
    | error out => simpa using hs
    | ok v =>
      simp only
      have := ih w' ((a.id, v) :: acc)
      simp only at hs
      rw [hs.1, hs.2] at this
      exact this

theorem toDictLoop_notLive (i : Nat) (attrs : List Attr) (w : World) (acc : List (Nat × Rv)) (h : w.alive = false) :
    (toDictLoop i attrs w acc).out ≠ .live := by
  induction attrs generalizing w acc with
  | nil => simp [toDictLoop]
  | cons a rest ih =>
    unfold toDictLoop
    have hs := toDictStep_facts w i a
    have hn := toDictStep_notLive w i a h
    generalize toDictStep w i a = r at hs hn
    rcases r with ⟨w', e⟩
    cases e with
    | error out => simp only at hn ⊢; intro hc; apply hn; rw [hc]
    | ok v =>
      simp only at hs ⊢
      exact ih w' _ (by rw [hs.2]; exact h)

theorem bump_wbits (o : Obj) (b : Nat) : (bump o b).wbits = o.wbits := by
  unfold bump
  split
  · split <;> simp_all
  · simp_all

/-- the assert in `Set.copy` holds when every item that is not in `added` has write bits (i.e. has been saved or loaded) -/
theorem copyBump_ok (a : Attr) (added : Option (List Nat)) (l : List Nat) (w : World)
    (h : ∀ j ∈ l, mem? added j = false → ∃ it, w.objs[j]? = some it ∧ it.wbits.isSome = true) :
    (copyBump a added l w).2 = true := by
  induction l generalizing w with
  | nil => simp [copyBump]
  | cons j rest ih =>
    unfold copyBump
    by_cases hm : mem? added j = true
    · simp only [hm, if_true]
      exact ih w (fun k hk hmk => h k (List.mem_cons_of_mem _ hk) hmk)
    · have hm' : mem? added j = false := by simpa using hm
      obtain ⟨it, hj, hw⟩ := h j (List.mem_cons_self ..) hm'
      simp only [hm', hj]
      cases hwb : it.wbits with
      | none => simp [hwb] at hw
      | some wb =>
        simp only [Bool.false_eq_true, if_false]
        apply ih
        intro k hk hmk
        obtain ⟨it2, hk2, hw2⟩ := h k (List.mem_cons_of_mem _ hk) hmk
        by_cases hkj : j = k
        · subst hkj
          have hlt : j < w.objs.length := (List.getElem?_eq_some_iff.mp hj).1
          refine ⟨bump it a.revBit, by simp [World.setObj, hlt], ?_⟩
          rw [bump_wbits]; exact hw
        · exact ⟨it2, by simp [World.setObj, hkj, hk2], hw2⟩

end PonyVerif.Model.Finished
