/-
  Lemmas/RelTyped.lean — typing invariant of the relationship model: every link an existing object holds is held under
  an attribute of that object's entity.  With `Agree` this also types the target of every link of a live object, which
  removes the typing side condition from the no-dangling theorems.
-/
import PonyVerif.Lemmas.RelLiveStep
namespace PonyVerif.Model.Rel

/-- every link of an existing object is held under an attribute declared on the object's entity -/
def Typed (sch : Schema) (s : Store) : Prop :=
  ∀ p b q, p < s.n → hasB sch s p b q = true → b ∈ sch.attrsOf (s.ent p)

/-- no live object references a deleted object — without side condition -/
def LiveAll (sch : Schema) (s : Store) : Prop :=
  ∀ p b q, p < s.n → s.alive p = true → hasB sch s p b q = true → s.alive q = true

section typed
variable {sch : Schema}

theorem mem_attrsOf {b : Attr} {d : Side} {e : EntId} (hb : sch.side b = some d) (he : d.ent = e) : b ∈ sch.attrsOf e := by
  unfold Schema.attrsOf
  rw [List.mem_filter]
  refine ⟨?_, by simp [hb, he]⟩
  unfold Schema.allAttrs
  rw [List.mem_flatMap]
  have hlt : b.rel < sch.length := by
    unfold Schema.side at hb
    cases h : sch[b.rel]? with
    | none => rw [h] at hb; cases hb
    | some r => exact (List.getElem?_eq_some_iff.mp h).1
  refine ⟨b.rel, List.mem_range.mpr hlt, ?_⟩
  cases b with
  | mk r sd => cases sd <;> simp

theorem attrsOf_mem {b : Attr} {e : EntId} (h : b ∈ sch.attrsOf e) : ∃ d, sch.side b = some d ∧ d.ent = e := by
  unfold Schema.attrsOf at h
  rw [List.mem_filter] at h
  cases hb : sch.side b with
  | none => rw [hb] at h; simp at h
  | some d => rw [hb] at h; exact ⟨d, rfl, by simpa using h.2⟩

theorem target_typed {a : Attr} {e : EntId} (h : sch.target a = some e) : sch.rev a ∈ sch.attrsOf e := by
  unfold Schema.target at h
  cases hr : sch.side (sch.rev a) with
  | none => rw [hr] at h; cases h
  | some rd =>
    rw [hr] at h
    exact mem_attrsOf hr (by simpa using h)

theorem valueOk_typed {s : Store} {a : Attr} {x : ObjId} (h : valueOk sch s a x = none) : sch.rev a ∈ sch.attrsOf (s.ent x) := by
  unfold valueOk at h
  split at h
  · split at h
    · rename_i ht; exact target_typed ht
    · cases h
  · cases h

theorem valuesOk_typed {s : Store} {a : Attr} : ∀ {items : List ObjId}, valuesOk sch s a items = none →
    ∀ x ∈ items, sch.rev a ∈ sch.attrsOf (s.ent x) := by
  intro items
  induction items with
  | nil => intro _ x hx; cases hx
  | cons y ys ih =>
    intro h x hx
    unfold valuesOk at h
    split at h
    · cases h
    · rename_i hy
      rcases List.mem_cons.mp hx with rfl | hx
      · exact valueOk_typed hy
      · exact ih h x hx

theorem attrOk_typed {s : Store} {o : ObjId} {a : Attr} {coll : Bool} (h : attrOk sch s o a coll = none) : a ∈ sch.attrsOf (s.ent o) := by
  unfold attrOk at h
  split at h
  · split at h
    · rename_i d hd
      split at h
      · rename_i hc; exact mem_attrsOf hd hc.1
      · cases h
    · cases h
  · cases h

/-- with `Agree`, the target of every link of a live object is typed too -/
theorem typed_target {s : Store} (hA : Agree sch s) (hR : Range s) (hT : Typed sch s) {p : ObjId} {b : Attr} {q : ObjId}
    (hp : p < s.n) (hal : s.alive p = true) (hh : hasB sch s p b q = true) : sch.rev b ∈ sch.attrsOf (s.ent q) :=
  hT q _ p (hasB_lt hR hp hh) (hA p b q hp hal hh)

theorem liveAll_of_live {s : Store} (hA : Agree sch s) (hR : Range s) (hT : Typed sch s) (hL : Live sch s) : LiveAll sch s :=
  fun p b q hp hal hh => hL p b q hp hal hh (typed_target hA hR hT hp hal hh)

theorem Typed.sub {s s' : Store} (hT : Typed sch s) (hs : Sub s s') : Typed sch s' := by
  intro p b q hp hh
  rw [hs.n] at hp
  rw [hs.ent]
  exact hT p b q hp (hs.has hh)

theorem Typed.newLinks {s s' : Store} {o : ObjId} {a : Attr} {V : ObjId → Prop} (hT : Typed sch s) (hn : s'.n = s.n)
    (hent : s'.ent = s.ent) (hnl : NewLinks sch s s' o a V) (ho : a ∈ sch.attrsOf (s.ent o))
    (hV : ∀ x, V x → sch.rev a ∈ sch.attrsOf (s.ent x)) : Typed sch s' := by
  intro p b q hp hh
  rw [hn] at hp
  rw [hent]
  rcases hnl p b q hh with g | ⟨rfl, rfl, _⟩ | ⟨_, rfl, g⟩
  · exact hT p b q hp g
  · exact ho
  · exact hV p g

theorem typed_of_eqBelow {s t : Store} (hT : Typed sch s) (h : EqBelow s.n t s) : Typed sch t := by
  obtain ⟨hn, hrows⟩ := h
  intro p b q hp hh
  rw [hn] at hp
  obtain ⟨_, h2, h3, h4⟩ := hrows p hp
  rw [h2]
  apply hT p b q hp
  unfold hasB at hh ⊢
  cases hb : sch.side b with
  | none => rw [hb] at hh; cases hh
  | some d => rw [hb] at hh; simpa only [h3, h4] using hh

/-- `Entity.__init__` keeps the typing invariant (the values were validated against the attributes) -/
theorem create_typed {fuel : Nat} {e : EntId} {vals : List (Attr × Val)} {st st' : St}
    (h : create sch fuel e vals st = .ok st') (hvals : valsOk sch st.store e vals = none)
    (hA : Agree sch st.store) (hR : Range st.store) (hT : Typed sch st.store) : Typed sch st'.store := by
  unfold create at h
  simp only at h
  split at h
  · cases h
  · rename_i hval
    have hdel := delete_spec (sch := sch) fuel
    -- what the validation loop of the constructor established: the values fit the attributes
    have hvalT : ∀ a ∈ sch.attrsOf e, (∀ x, lookupRef vals a = some x → sch.side a ≠ none → sch.isCollAttr a = false → sch.rev a ∈ sch.attrsOf (st.store.ent x)) ∧
        (∀ x ∈ lookupColl vals a, sch.isCollAttr a = true → sch.rev a ∈ sch.attrsOf (st.store.ent x)) := by
      intro a ha
      have := (List.findSome?_eq_none_iff.mp hval) a ha
      cases hd : sch.side a with
      | none => exact ⟨fun x _ hn => absurd rfl hn, fun x _ hc => by simp [Schema.isCollAttr, hd] at hc⟩
      | some d =>
        rw [hd] at this
        simp only at this
        refine ⟨?_, ?_⟩
        · intro x hx _ hc
          have hdc : d.isColl = false := by simpa [Schema.isCollAttr, hd] using hc
          rw [hdc, hx] at this
          simp only [Bool.false_eq_true, if_false] at this
          split at this
          · rename_i ht; exact target_typed (by simpa using ht)
          · cases this
        · intro x hx hc
          have hdc : d.isColl = true := by simpa [Schema.isCollAttr, hd] using hc
          rw [hdc] at this
          simp only [if_true] at this
          split at this
          · rename_i hall
            simp only [List.all_eq_true] at hall
            exact target_typed (by simpa using hall x hx)
          · cases this
    have hentA : ∀ x, x < st.store.n → (st.store.alloc e).ent x = st.store.ent x := by
      intro x hx
      show (if x = st.store.n then e else st.store.ent x) = st.store.ent x
      exact if_neg (Nat.ne_of_lt hx)
    have hTA : Typed sch (st.store.alloc e) := by
      intro p b q hp hh
      rw [hasB_alloc] at hh
      split at hh
      · cases hh
      · rename_i hpn
        have hp' : p < st.store.n := Nat.lt_of_le_of_ne (Nat.le_of_lt_succ hp) hpn
        rw [hentA p hp']; exact hT p b q hp' hh
    obtain ⟨hA1, hR1⟩ := agree_alloc (sch := sch) e hA hR
    -- loop over the attributes, generalised over the remaining list
    have key : ∀ (rest : List Attr) (s1 s2 : St), rest.Nodup → (∀ a ∈ rest, a ∈ sch.attrsOf e) →
        Agree sch s1.store → Range s1.store → s1.store.n = st.store.n + 1 →
        (∀ a ∈ rest, ∀ y, hasB sch s1.store st.store.n a y = false) →
        Typed sch s1.store → s1.store.ent = (st.store.alloc e).ent →
        iter (fun (a : Attr) (st1 : St) =>
          match sch.side a, sch.side (sch.rev a) with
          | some d, some rd =>
            if !d.isColl then
              updateReverse sch fuel d rd st.store.n a none (lookupRef vals a) (st1.setStore (st1.store.setRef st.store.n a (lookupRef vals a)))
            else setCollCore sch (fun x => delete sch fuel x) true st.store.n a (lookupColl vals a) st1
          | _, _ => .err .noSuchAttr st1) rest s1 = .ok s2 →
        Typed sch s2.store := by
      intro rest
      induction rest with
      | nil => intro s1 s2 _ _ _ _ _ _ hT' _ hi; simp at hi; cases hi; exact hT'
      | cons a rest ih =>
        intro s1 s2 hnd hsub hA' hR' hn hfresh hT' hent' hi
        obtain ⟨s1', hstep, hrest⟩ := iter_cons_ok hi
        have hnd' := (List.nodup_cons.mp hnd)
        have hid : st.store.n < s1.store.n := by rw [hn]; exact Nat.lt_succ_self _
        -- one attribute
        have hida : a ∈ sch.attrsOf (s1.store.ent st.store.n) := by
          rw [hent']; show a ∈ sch.attrsOf (if st.store.n = st.store.n then e else st.store.ent st.store.n)
          rw [if_pos rfl]; exact hsub a (by simp)
        have hentx : ∀ x, x < st.store.n → s1.store.ent x = st.store.ent x := by
          intro x hx; rw [hent']; exact hentA x hx
        have hone : Typed sch s1'.store ∧ Agree sch s1'.store ∧ Range s1'.store ∧ s1'.store.n = s1.store.n ∧ s1'.store.ent = s1.store.ent ∧
            (∀ p b q, hasB sch s1'.store p b q = true → hasB sch s1.store p b q = true ∨
              (p = st.store.n ∧ b = a ∧ q < st.store.n ∧ IsVal vals q) ∨ (q = st.store.n ∧ b = sch.rev a ∧ p < st.store.n ∧ IsVal vals p)) := by
          split at hstep
          · rename_i d rd hd hrd
            split at hstep
            · rename_i hcoll
              have hcoll' : d.isColl = false := by simpa using hcoll
              have hcell : s1.store.ref st.store.n a = none := by
                cases hc : s1.store.ref st.store.n a with
                | none => rfl
                | some y =>
                  have := hfresh a (by simp) y
                  rw [hasB_ref_eq hd hcoll', hc] at this
                  simp at this
              cases hv : lookupRef vals a with
              | none =>
                rw [hv] at hstep
                have hs : s1.setStore (s1.store.setRef st.store.n a none) = s1 := by
                  cases s1; simp only [St.setStore]; congr; exact Store.setRef_self hcell
                rw [hs] at hstep
                have : s1' = s1 := by
                  unfold updateReverse at hstep
                  split at hstep <;> simp [Res.bind] at hstep <;> exact hstep.symm
                rw [this]
                exact ⟨hT', hA', hR', rfl, rfl, fun p b q hh => Or.inl hh⟩
              | some x =>
                rw [hv] at hstep
                have hx := lookupRef_lt hvals a x hv
                obtain ⟨g1, g2, g3, ge, g4⟩ := updateReverse_ok (s0 := s1.store) hdel hstep hd hcoll' hrd rfl hcell.symm
                  (by rw [hcell]; simp) hid (fun hc => absurd hcell hc) (fun y hy => by cases hy; rw [hn]; exact Nat.lt_succ_of_lt hx) hA' hR'
                refine ⟨?_, g1, g2, g3, ge, ?_⟩
                · refine hT'.newLinks g3 ge g4 hida ?_
                  intro y hy
                  cases hy
                  rw [hentx x hx]
                  exact (hvalT a (hsub a (by simp))).1 x hv (by rw [hd]; simp) (by simp [Schema.isCollAttr, hd, hcoll'])
                intro p b q hh
                rcases g4 p b q hh with h' | ⟨h1, h2, h3⟩ | ⟨h1, h2, h3⟩
                · exact Or.inl h'
                · cases h3; exact Or.inr (Or.inl ⟨h1, h2, hx, a, Or.inl hv⟩)
                · cases h3; exact Or.inr (Or.inr ⟨h1, h2, hx, a, Or.inl hv⟩)
            · rename_i hcoll
              have hcoll' : d.isColl = true := by simpa using hcoll
              have hit := lookupColl_lt hvals a
              obtain ⟨g1, g2, g3, ge, g4⟩ := setCollCore_ok hdel hstep hd hcoll' hid (fun y hy => by rw [hn]; exact Nat.lt_succ_of_lt (hit y hy)) hA' hR'
              refine ⟨?_, g1, g2, g3, ge, ?_⟩
              · refine hT'.newLinks g3 ge g4 hida ?_
                intro y hy
                rw [hentx y (hit y hy)]
                exact (hvalT a (hsub a (by simp))).2 y hy (by simp [Schema.isCollAttr, hd, hcoll'])
              intro p b q hh
              rcases g4 p b q hh with h' | ⟨h1, h2, h3⟩ | ⟨h1, h2, h3⟩
              · exact Or.inl h'
              · exact Or.inr (Or.inl ⟨h1, h2, hit q h3, a, Or.inr h3⟩)
              · exact Or.inr (Or.inr ⟨h1, h2, hit p h3, a, Or.inr h3⟩)
          · cases hstep
        obtain ⟨gT, g1, g2, g3, ge, g4⟩ := hone
        have hfresh' : ∀ a' ∈ rest, ∀ y, hasB sch s1'.store st.store.n a' y = false := by
          intro a' ha' y
          cases hh : hasB sch s1'.store st.store.n a' y with
          | false => rfl
          | true =>
            rcases g4 _ _ _ hh with h' | ⟨_, h2, _⟩ | ⟨h1, _, h3, _⟩
            · rw [hfresh a' (by simp [ha']) y] at h'; cases h'
            · rw [h2] at ha'; exact absurd ha' hnd'.1
            · exact absurd h3 (Nat.lt_irrefl _)
        exact ih s1' s2 hnd'.2 (fun a' ha' => hsub a' (by simp [ha'])) g1 g2 (by rw [g3, hn]) hfresh' gT (ge.trans hent') hrest
    exact key _ _ st' (attrsOf_nodup sch e) (fun a ha => ha) hA1 hR1 (by simp [Store.alloc]) (by
      intro a _ y
      simp only [St.log_store, St.setStore_store]
      rw [hasB_alloc]; simp) hTA rfl h

/-- one user call keeps the typing invariant (successful or failing) -/
theorem typed_step (sch : Schema) (s : Store) (op : Op) (hI : Inv sch s) (hT : Typed sch s) : Typed sch (step sch s op) := by
  have hdel := fun fuel => delete_spec (sch := sch) fuel
  cases hr : run1 sch op { store := s } with
  | err e st =>
    have : step sch s op = undoAll st.trail st.store := by simp [step, stepO, hr]
    rw [this]
    exact typed_of_eqBelow hT (run1_err_restores hr)
  | ok st =>
    have hres : step sch s op = st.store := by simp [step, stepO, hr]
    rw [hres]
    unfold run1 at hr
    simp only at hr
    cases op with
    | setRef o a v =>
      simp only at hr
      split at hr
      · cases hr
      · rename_i hok'
        obtain ⟨ho, d, hd, hdc⟩ := attrOk_none hok'
        have hty := attrOk_typed hok'
        split at hr
        · cases hr
        · split at hr
          · obtain ⟨_, _, h3, h4, h5⟩ := attrSetTop_ok (hdel _) hr hd hdc ho (fun x hx => by cases hx) hI.agree hI.range
            exact hT.newLinks h3 h4 h5 hty (fun x hx => by cases hx)
          · split at hr
            · cases hr
            · rename_i x hv
              obtain ⟨_, _, h3, h4, h5⟩ := attrSetTop_ok (hdel _) hr hd hdc ho (fun y hy => by cases hy; exact valueOk_none hv) hI.agree hI.range
              exact hT.newLinks h3 h4 h5 hty (fun y hy => by cases hy; exact valueOk_typed hv)
    | setColl o c items =>
      simp only at hr
      split at hr
      · cases hr
      · rename_i hok'
        obtain ⟨ho, d, hd, hdc⟩ := attrOk_none hok'
        have hty := attrOk_typed hok'
        split at hr
        · cases hr
        · split at hr
          · cases hr
          · rename_i hv
            obtain ⟨_, _, h3, h4, h5⟩ := setCollCore_ok (hdel _) hr hd hdc ho (valuesOk_none hv) hI.agree hI.range
            exact hT.newLinks h3 h4 h5 hty (valuesOk_typed hv)
    | add o c items =>
      simp only at hr
      split at hr
      · cases hr
      · rename_i hok'
        obtain ⟨ho, d, hd, hdc⟩ := attrOk_none hok'
        have hty := attrOk_typed hok'
        split at hr
        · cases hr
        · split at hr
          · cases hr
          · rename_i hv
            obtain ⟨_, _, h3, _, h4, h5⟩ := collAdd_ok hr hd hdc ho hI.agree hI.range
            exact hT.newLinks h3 h4 h5 hty (valuesOk_typed hv)
    | remove o c items =>
      simp only at hr
      split at hr
      · cases hr
      · rename_i hok'
        obtain ⟨ho, d, hd, hdc⟩ := attrOk_none hok'
        split at hr
        · cases hr
        · split at hr
          · cases hr
          · exact hT.sub (collRemove_sub hr hd hdc hI.agree hI.range).1
    | clear o c =>
      simp only at hr
      split at hr
      · cases hr
      · rename_i hok'
        obtain ⟨ho, d, hd, hdc⟩ := attrOk_none hok'
        exact hT.sub (clear_sub hr hd hdc hI.agree hI.range).1
    | create e vals =>
      simp only at hr
      split at hr
      · cases hr
      · rename_i hv
        exact create_typed hr hv hI.agree hI.range hT
    | delete o =>
      simp only at hr
      split at hr
      · rename_i ho
        obtain ⟨_, h2, _, _⟩ := hdel _ o _ st (fun _ _ => False) (fun _ => False) hr ho hI.range (D_false_iff.mpr hI.agree)
        exact hT.sub h2
      · cases hr

end typed
end PonyVerif.Model.Rel
