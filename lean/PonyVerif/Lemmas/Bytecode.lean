/-
  Soundness of the C03 equivalence checker (`Model/Bytecode.lean`): every lemma holds for ALL interpretations, code and ASTs of any size.
-/
import PonyVerif.Model.Bytecode
namespace PonyVerif.Bytecode

/-! ### decision trees -/

theorem Tree.walk_bind (o : Q → Bool) (t : Tree α) (f : α → Tree β) : (t.bind f).walk o = (f (t.walk o)).walk o := by
  induction t with
  | leaf a => rfl
  | test q y n ihy ihn => simp only [Tree.bind, Tree.walk]; split <;> assumption

theorem Tree.run_bind (I : Interp) (t : Tree α) (f : α → Tree β) : (t.bind f).run I = (f (t.run I)).run I :=
  Tree.walk_bind _ t f

@[simp] theorem Tree.run_leaf (I : Interp) (a : α) : (Tree.leaf a).run I = a := rfl
@[simp] theorem Tree.run_test (I : Interp) (q : Q) (y n : Tree α) :
    (Tree.test q y n).run I = if q.eval I then y.run I else n.run I := rfl

/-! ### syntactic equality tests are sound -/

mutual
theorem Term.beq_eq : ∀ (a b : Term), Term.beq a b = true → a = b
  | .atom n, .atom m, h => by simp [Term.beq] at h; simp [h]
  | .bool a, .bool b, h => by simp [Term.beq] at h; simp [h]
  | .none, .none, _ => rfl
  | .lit n t, .lit m u, h => by simp [Term.beq] at h; simp [h.1, h.2]
  | .app f a, .app g b, h => by
      simp [Term.beq] at h
      have := Term.beqL_eq a b h.2
      simp [h.1, this]
  | .atom _, .bool _, h | .atom _, .none, h | .atom _, .lit _ _, h | .atom _, .app _ _, h => by simp [Term.beq] at h
  | .bool _, .atom _, h | .bool _, .none, h | .bool _, .lit _ _, h | .bool _, .app _ _, h => by simp [Term.beq] at h
  | .none, .atom _, h | .none, .bool _, h | .none, .lit _ _, h | .none, .app _ _, h => by simp [Term.beq] at h
  | .lit _ _, .atom _, h | .lit _ _, .bool _, h | .lit _ _, .none, h | .lit _ _, .app _ _, h => by simp [Term.beq] at h
  | .app _ _, .atom _, h | .app _ _, .bool _, h | .app _ _, .none, h | .app _ _, .lit _ _, h => by simp [Term.beq] at h
theorem Term.beqL_eq : ∀ (a b : List Term), Term.beqL a b = true → a = b
  | [], [], _ => rfl
  | x :: xs, y :: ys, h => by
      simp [Term.beqL] at h
      simp [Term.beq_eq x y h.1, Term.beqL_eq xs ys h.2]
  | [], _ :: _, h => by simp [Term.beqL] at h
  | _ :: _, [], h => by simp [Term.beqL] at h
end

theorem Q.beq_eq : ∀ (a b : Q), Q.beq a b = true → a = b
  | .truth a, .truth b, h => by simp [Q.beq] at h; simp [Term.beq_eq a b h]
  | .isq a b, .isq c d, h => by simp [Q.beq] at h; simp [Term.beq_eq a c h.1, Term.beq_eq b d h.2]
  | .truth _, .isq _ _, h | .isq _ _, .truth _, h => by simp [Q.beq] at h

theorem unzip_eq {α β : Type} : ∀ (l l' : List (α × β)), l.map (·.1) = l'.map (·.1) → l.map (·.2) = l'.map (·.2) → l = l'
  | [], [], _, _ => rfl
  | (a, b) :: l, (a', b') :: l', h1, h2 => by
      simp at h1 h2
      obtain ⟨ha, h1⟩ := h1
      obtain ⟨hb, h2⟩ := h2
      have ih := unzip_eq l l' (by simpa using h1) (by simpa using h2)
      simp [ha, hb, ih]
  | [], _ :: _, h, _ => by simp at h
  | _ :: _, [], h, _ => by simp at h

theorem Outcome.beq_eq : ∀ (a b : Outcome Term), Outcome.beq a b = true → a = b
  | .ret a, .ret b, h => by simp [Outcome.beq] at h; simp [Term.beq_eq a b h]
  | .stuck, .stuck, _ => rfl
  | .pass l y d, .pass l' y' d', h => by
      simp only [Outcome.beq, Bool.and_eq_true, beq_iff_eq] at h
      obtain ⟨⟨⟨h1, h2⟩, h3⟩, h4⟩ := h
      have hl := unzip_eq l l' (Term.beqL_eq _ _ h1) h2
      have hy : y = y' := by
        cases y <;> cases y' <;> simp at h3 ⊢
        exact Term.beq_eq _ _ h3
      simp [hl, hy, h4]
  | .ret _, .pass _ _ _, h | .ret _, .stuck, h | .pass _ _ _, .ret _, h | .pass _ _ _, .stuck, h
  | .stuck, .ret _, h | .stuck, .pass _ _ _, h => by simp [Outcome.beq] at h

theorem Tree.beq_eq : ∀ (a b : Tree (Outcome Term)), Tree.beq a b = true → a = b
  | .leaf a, .leaf b, h => by simp [Tree.beq] at h; simp [Outcome.beq_eq a b h]
  | .test q y n, .test q' y' n', h => by
      simp [Tree.beq] at h
      simp [Q.beq_eq q q' h.1.1, Tree.beq_eq y y' h.1.2, Tree.beq_eq n n' h.2]
  | .leaf _, .test _ _ _, h | .test _ _ _, .leaf _, h => by simp [Tree.beq] at h

/-! ### normalisation preserves the meaning of a tree on every interpretation that agrees with the recorded answers -/

theorem Q.static_sound (I : Interp) (q : Q) (b : Bool) (h : q.static = some b) : q.eval I = b := by
  unfold Q.static at h
  split at h <;> simp at h <;> subst h <;> simp [Q.eval, Term.eval, Interp.truth, Interp.isVal, Val.isNone]

def Consistent (I : Interp) (facts : List (Q × Bool)) : Prop := ∀ p ∈ facts, p.1.eval I = p.2

theorem lookup_sound (I : Interp) : ∀ (facts : List (Q × Bool)) (q : Q) (b : Bool),
    Consistent I facts → lookup facts q = some b → q.eval I = b
  | [], _, _, _, h => by simp [lookup] at h
  | (q', b') :: r, q, b, hc, h => by
      simp only [lookup] at h
      split at h
      · rename_i heq
        have := Q.beq_eq q' q heq
        subst this
        simp at h; subst h
        exact hc (q', b') (by simp)
      · exact lookup_sound I r q b (fun p hp => hc p (by simp [hp])) h

theorem ask_sound (I : Interp) (facts : List (Q × Bool)) (q : Q) (b : Bool)
    (hc : Consistent I facts) (h : ask facts q = some b) : q.eval I = b := by
  unfold ask at h
  split at h
  · rename_i b' hs
    simp at h; subst h
    exact Q.static_sound I q _ hs
  · exact lookup_sound I facts q b hc h

theorem norm_run (I : Interp) : ∀ (t : Tree α) (facts : List (Q × Bool)), Consistent I facts → (norm facts t).run I = t.run I
  | .leaf a, _, _ => rfl
  | .test q y n, facts, hc => by
      simp only [norm]
      split
      · rename_i h
        simp [ask_sound I facts q true hc h, norm_run I y facts hc]
      · rename_i h
        simp [ask_sound I facts q false hc h, norm_run I n facts hc]
      · simp only [Tree.run_test]
        split
        · rename_i hq
          exact norm_run I y _ (fun p hp => by
            simp at hp
            rcases hp with rfl | hp
            · exact hq
            · exact hc p hp)
        · rename_i hq
          exact norm_run I n _ (fun p hp => by
            simp at hp
            rcases hp with rfl | hp
            · simpa using hq
            · exact hc p hp)

theorem lookup_none : ∀ (facts : List (Q × Bool)) (q : Q), lookup facts q = none →
    ((facts.map (·.1)).any fun q' => Q.beq q' q) = false
  | [], _, _ => rfl
  | (q', b) :: r, q, h => by
      simp only [lookup] at h
      split at h
      · simp at h
      · rename_i hne
        simp [hne, lookup_none r q h]

/-- the normal form: in `norm facts t` no literal query is asked and no query is asked that the recorded answers or an earlier
    test on the same path already settle — "a term's truthiness is asked at most once per path" -/
theorem norm_noRepeat : ∀ (t : Tree α) (facts : List (Q × Bool)), noRepeat (facts.map (·.1)) (norm facts t) = true
  | .leaf a, _ => rfl
  | .test q y n, facts => by
      simp only [norm]
      split
      · exact norm_noRepeat y facts
      · exact norm_noRepeat n facts
      · rename_i hask
        unfold ask at hask
        split at hask
        · simp at hask
        · rename_i hstat
          have hl := lookup_none facts q hask
          have hy := norm_noRepeat y ((q, true) :: facts)
          have hn := norm_noRepeat n ((q, false) :: facts)
          simp only [List.map] at hy hn
          simp [noRepeat, hstat, hl, hy, hn]

theorem norm_nil_run (I : Interp) (t : Tree α) : (norm [] t).run I = t.run I :=
  norm_run I t [] (fun _ h => by simp at h)

/-! ### the symbolic machine refines the concrete one -/

/-- `f` maps the constants of one domain to those of the other -/
structure Hom (D : Dom α) (E : Dom β) (f : α → β) : Prop where
  atom : ∀ n, f (D.atom n) = E.atom n
  bool : ∀ b, f (D.bool b) = E.bool b
  none : f D.none = E.none
  lit : ∀ n t, f (D.lit n t) = E.lit n t
  app : ∀ g l, f (D.app g l) = E.app g (l.map f)

theorem evalHom (I : Interp) : Hom domT (domV I) (Term.eval I) :=
  ⟨fun _ => by simp [domT, domV, Term.eval], fun _ => by simp [domT, domV, Term.eval], by simp [domT, domV, Term.eval],
   fun _ _ => by simp [domT, domV, Term.eval], fun g l => by simp [domT, domV, Term.eval]⟩

theorem storeTarget_map (f : α → β) (loops : List (α × List Nat)) (a : Nat) :
    storeTarget (loops.map fun p => (f p.1, p.2)) a = (storeTarget loops a).map fun p => (f p.1, p.2) := by
  unfold storeTarget
  rw [← List.map_reverse]
  cases loops.reverse with
  | nil => rfl
  | cons p r => simp

/-- the instruction semantics is natural in the value domain -/
theorem act_map {D : Dom α} {E : Dom β} {f : α → β} (h : Hom D E f) (code : List Instr) (s : St α) :
    act E code (s.map f) = (act D code s).map f := by
  unfold act
  cases hc : code[s.pc]? with
  | none => simp [St.map, Act.map, Res.map, Outcome.map, hc]
  | some ins =>
    have hpc : (s.map f).pc = s.pc := rfl
    simp only [hpc, hc]
    cases ins with
    | load a => simp [St.map, Act.map, Res.map, h.atom]
    | loadBool b => simp [St.map, Act.map, Res.map, h.bool]
    | loadNone => simp [St.map, Act.map, Res.map, h.none]
    | loadLit n t => simp [St.map, Act.map, Res.map, h.lit]
    | copy n =>
      by_cases hn : n = 0
      · simp [hn, Act.map, Res.map, Outcome.map]
      · simp only [hn, if_false]
        have : (s.map f).stack[n - 1]? = (s.stack[n - 1]?).map f := by simp [St.map]
        rw [this]
        cases s.stack[n - 1]? <;> simp [St.map, Act.map, Res.map, Outcome.map]
    | swap n =>
      by_cases hn : n = 0
      · simp [hn, Act.map, Res.map, Outcome.map]
      · simp only [hn, if_false]
        have : (s.map f).stack[n - 1]? = (s.stack[n - 1]?).map f := by simp [St.map]
        rw [this]
        have hs : (s.map f).stack = s.stack.map f := rfl
        rw [hs]
        cases hst : s.stack with
        | nil => simp [Act.map, Res.map, Outcome.map]
        | cons top rest =>
          cases hx : (top :: rest)[n - 1]? with
          | none => simp [Act.map, Res.map, Outcome.map]
          | some x => simp [St.map, Act.map, Res.map, hst, List.map_set]
    | popTop =>
      have hs : (s.map f).stack = s.stack.map f := rfl
      rw [hs]
      cases hst : s.stack <;> simp [St.map, Act.map, Res.map, Outcome.map, hst]
    | unaryNot =>
      have hs : (s.map f).stack = s.stack.map f := rfl
      rw [hs]
      cases hst : s.stack <;> simp [St.map, Act.map, Res.map, Outcome.map, hst, h.bool]
    | op name argc =>
      have hs : (s.map f).stack = s.stack.map f := rfl
      rw [hs]
      by_cases hl : argc ≤ s.stack.length
      · simp [hl, St.map, Act.map, Res.map, h.app, List.map_take, List.map_drop, List.map_reverse]
      · simp [hl, Act.map, Res.map, Outcome.map]
    | cmp o =>
      have hs : (s.map f).stack = s.stack.map f := rfl
      rw [hs]
      cases hst : s.stack with
      | nil => simp [Act.map, Res.map, Outcome.map]
      | cons w r1 =>
        cases r1 with
        | nil => simp [Act.map, Res.map, Outcome.map]
        | cons v rest => cases o <;> simp [St.map, Act.map, Res.map, hst, h.app, h.bool]
    | jumpIf sense target =>
      have hs : (s.map f).stack = s.stack.map f := rfl
      rw [hs]
      cases hst : s.stack <;> simp [St.map, Act.map, Res.map, Outcome.map, hst]
    | jumpIfNone sense target =>
      have hs : (s.map f).stack = s.stack.map f := rfl
      rw [hs]
      cases hst : s.stack <;> simp [St.map, Act.map, Res.map, Outcome.map, hst, h.none]
    | jump target => simp [St.map, Act.map, Res.map]
    | jumpBack target => simp [St.map, Act.map, Res.map, Outcome.map]
    | nop => simp [St.map, Act.map, Res.map]
    | forIter =>
      have hs : (s.map f).stack = s.stack.map f := rfl
      rw [hs]
      cases hst : s.stack <;> simp [St.map, Act.map, Res.map, Outcome.map, hst, h.none]
    | unpack n =>
      have hs : (s.map f).stack = s.stack.map f := rfl
      rw [hs]
      cases hst : s.stack <;> simp [St.map, Act.map, Res.map, Outcome.map, hst, h.none, storeTarget_map]
    | store a =>
      have hs : (s.map f).stack = s.stack.map f := rfl
      rw [hs]
      cases hst : s.stack <;> simp [St.map, Act.map, Res.map, Outcome.map, hst, storeTarget_map]
    | yieldValue =>
      have hs : (s.map f).stack = s.stack.map f := rfl
      have hy : (s.map f).yielded = s.yielded.map f := rfl
      rw [hs, hy]
      cases hst : s.stack <;> cases hyd : s.yielded <;> simp [St.map, Act.map, Res.map, Outcome.map, hst, hyd, h.none]
    | returnValue =>
      have hs : (s.map f).stack = s.stack.map f := rfl
      have hl : (s.map f).loops = s.loops.map fun p => (f p.1, p.2) := rfl
      rw [hs, hl]
      cases hst : s.stack <;> cases hlp : s.loops <;> simp [Act.map, Res.map, Outcome.map]
    | unsupported => simp [Act.map, Res.map, Outcome.map]

theorem step_sound (I : Interp) (code : List Instr) (s : St Term) :
    ((stepT code s).run I).map (Term.eval I) = stepV I code (s.map (Term.eval I)) := by
  unfold stepT stepV
  rw [act_map (evalHom I) code s]
  cases act domT code s with
  | res r => simp [Act.map]
  | askTruth t k => cases hb : I.truth (t.eval I) <;> simp [Act.map, Q.eval, hb]
  | askIs t u k => cases hb : I.isVal (t.eval I) (u.eval I) <;> simp [Act.map, Q.eval, hb]

theorem sexec_sound (I : Interp) (code : List Instr) : ∀ (fuel : Nat) (s : St Term),
    ((sexec code fuel s).run I).map (Term.eval I) = exec I code fuel (s.map (Term.eval I))
  | 0, _ => rfl
  | n + 1, s => by
      simp only [sexec, exec, Tree.run_bind]
      rw [← step_sound I code s]
      cases (stepT code s).run I with
      | next s' => simpa [Res.map] using sexec_sound I code n s'
      | done o => simp [Res.map]

/-! ### the symbolic evaluator of the AST is sound -/

theorem cmpSym_sound (I : Interp) (o : CmpOp) (t u : Term) :
    ((cmpSym o t u).run I).eval I = I.cmpVal o (t.eval I) (u.eval I) := by
  cases o with
  | named f => simp [cmpSym, Interp.cmpVal, Term.eval]
  | isin neg => cases hb : I.truth (I.op "in" [t.eval I, u.eval I]) <;> simp [cmpSym, Interp.cmpVal, Q.eval, Term.eval, hb]
  | is neg => cases hb : I.isVal (t.eval I) (u.eval I) <;> simp [cmpSym, Interp.cmpVal, Q.eval, Term.eval, hb]

mutual
theorem Expr.sym_sound (I : Interp) : ∀ (e : Expr), (e.sym.run I).eval I = e.eval I
  | .atom n => by simp [Expr.sym, Expr.eval, Term.eval]
  | .bool b => by simp [Expr.sym, Expr.eval, Term.eval]
  | .none => by simp [Expr.sym, Expr.eval, Term.eval]
  | .lit n t => by simp [Expr.sym, Expr.eval, Term.eval]
  | .not e => by
      have ih := Expr.sym_sound I e
      cases hb : I.truth (e.eval I) <;> simp [Expr.sym, Expr.eval, Tree.run_bind, Q.eval, ih, hb, Term.eval]
  | .boolop isOr a r => by
      simp only [Expr.sym, Expr.eval, Tree.run_bind]
      rw [Args.symBool_sound I isOr r, Expr.sym_sound I a]
  | .ife c t f => by
      have ih := Expr.sym_sound I c
      have iht := Expr.sym_sound I t
      have ihf := Expr.sym_sound I f
      cases hb : I.truth (c.eval I) <;> simp [Expr.sym, Expr.eval, Tree.run_bind, Q.eval, ih, iht, ihf, hb]
  | .cmp a r => by
      simp only [Expr.sym, Expr.eval, Tree.run_bind]
      rw [CmpRest.symChain_sound I r, Expr.sym_sound I a]
  | .app f args => by
      simp only [Expr.sym, Expr.eval, Tree.run_bind, Tree.run_leaf, Term.eval]
      rw [Args.symList_sound I args]
theorem Args.symList_sound (I : Interp) : ∀ (r : Args), (r.symList.run I).map (Term.eval I) = r.evalList I
  | .nil => by simp [Args.symList, Args.evalList]
  | .cons e r => by
      simp only [Args.symList, Args.evalList, Tree.run_bind, Tree.run_leaf, List.map]
      rw [Expr.sym_sound I e, Args.symList_sound I r]
theorem Args.symBool_sound (I : Interp) (isOr : Bool) : ∀ (r : Args) (t : Term),
    ((Args.symBool isOr t r).run I).eval I = Args.evalBool I isOr (t.eval I) r
  | .nil, _ => by simp [Args.symBool, Args.evalBool]
  | .cons e r, t => by
      have ihe := Expr.sym_sound I e
      have ihr := Args.symBool_sound I isOr r (e.sym.run I)
      simp only [Args.symBool]
      split
      · rename_i b hs
        have hb : I.truth (t.eval I) = b := by simpa [Q.eval] using Q.static_sound I (Q.truth t) b hs
        cases isOr <;> cases b <;> simp [Args.evalBool, Tree.run_bind, hb, ihe, ihr] <;> simp [← ihe, ihr]
      · cases isOr <;> cases htr : I.truth (t.eval I) <;>
          simp [Args.evalBool, Tree.run_bind, Q.eval, htr, ihe, ihr] <;> simp [← ihe, ihr]
theorem CmpRest.symChain_sound (I : Interp) : ∀ (r : CmpRest) (t : Term),
    ((CmpRest.symChain t r).run I).eval I = CmpRest.evalChain I (t.eval I) r
  | .last o e, t => by
      simp only [CmpRest.symChain, CmpRest.evalChain, Tree.run_bind]
      rw [cmpSym_sound, Expr.sym_sound I e]
  | .more o e r, t => by
      have ihe := Expr.sym_sound I e
      have ihr := CmpRest.symChain_sound I r (e.sym.run I)
      have hc := cmpSym_sound I o t (e.sym.run I)
      rw [ihe] at hc ihr
      cases hb : I.truth (I.cmpVal o (t.eval I) (e.eval I)) <;>
        simp [CmpRest.symChain, CmpRest.evalChain, Tree.run_bind, Q.eval, hc, hb, ihr]
end

theorem symIfs_sound (I : Interp) : ∀ (cs : List Expr), (symIfs cs).run I = evalIfs I cs
  | [] => rfl
  | c :: cs => by
      have ih := Expr.sym_sound I c
      have ihs := symIfs_sound I cs
      cases hb : I.truth (c.eval I) <;> simp [symIfs, evalIfs, Tree.run_bind, Q.eval, ih, ihs, hb]

theorem symClauses_sound (I : Interp) (elt : Expr) : ∀ (cl : List Clause) (loops : List (Term × List Nat)),
    ((symClauses elt loops cl).run I).map (Term.eval I) = evalClauses I elt (loops.map fun p => (p.1.eval I, p.2)) cl
  | [], loops => by
      simp only [symClauses, evalClauses, Tree.run_bind, Tree.run_leaf, Outcome.map, Option.map, List.length_map]
      rw [Expr.sym_sound I elt]
  | c :: cs, loops => by
      simp only [symClauses, evalClauses, Tree.run_bind]
      rw [symIfs_sound I c.ifs]
      split
      · rw [symClauses_sound I elt cs]
        simp [Expr.sym_sound I c.iter]
      · simp [Outcome.map, Expr.sym_sound I c.iter]

theorem Top.sym_sound (I : Interp) (a : Top) : (a.sym.run I).map (Term.eval I) = a.eval I := by
  cases a with
  | lam b => simp [Top.sym, Top.eval, Tree.run_bind, Outcome.map, Expr.sym_sound I b]
  | gen elt cl => simpa [Top.sym, Top.eval] using symClauses_sound I elt cl []

theorem evalClauses_not_stuck (I : Interp) (elt : Expr) : ∀ (cl : List Clause) (loops : List (Val × List Nat)),
    evalClauses I elt loops cl ≠ .stuck
  | [], _ => by simp [evalClauses]
  | c :: cs, loops => by
      simp only [evalClauses]
      split
      · exact evalClauses_not_stuck I elt cs _
      · simp

end PonyVerif.Bytecode
