/-
  Lemmas/CascadeRel.lean — bridge between the session store of C12 (Model/Rel.lean: every user call — constructor, assignment of
  a reference or a collection, add, remove, clear, delete) and the store of the deletion model (Model/Cascade.lean).
  `ofStore` reads a Rel store as a Cascade store (rows of existing objects only: a failed constructor leaves a garbage row behind
  the counter in Rel); `ofSchema` reads the declarations (every reference attribute is taken to hold a column: the strongest
  foreign-key obligation).  `hasB_of`: both models see the same links.
-/
import PonyVerif.Lemmas.RelTyped
import PonyVerif.Lemmas.Cascade
namespace PonyVerif.Model.Cascade.Bridge
open PonyVerif.Model

def ofAttr (a : Rel.Attr) : Attr := ⟨a.rel, a.side⟩
def toAttr (a : Attr) : Rel.Attr := ⟨a.rel, a.side⟩

@[simp] theorem of_to (a : Attr) : ofAttr (toAttr a) = a := rfl
@[simp] theorem to_of (a : Rel.Attr) : toAttr (ofAttr a) = a := rfl

def ofSide (d : Rel.Side) : Side := ⟨d.ent, d.isColl, d.required, d.cascade, !d.isColl⟩

def ofSchema (sch : Rel.Schema) : Schema := sch.map fun r => ⟨ofSide r.a, ofSide r.b, r.sym⟩

def ofStore (s : Rel.Store) : Store where
  n := s.n
  ent := s.ent
  alive := fun o => decide (o < s.n) && s.alive o
  ref := fun o a => if o < s.n then s.ref o (toAttr a) else none
  mem := fun o a x => decide (o < s.n) && s.mem o (toAttr a) x

theorem side_of (sch : Rel.Schema) (a : Attr) : (ofSchema sch).side a = (Rel.Schema.side sch (toAttr a)).map ofSide := by
  unfold Schema.side Rel.Schema.side ofSchema toAttr
  simp only [List.getElem?_map]
  cases h : sch[a.rel]? with
  | none => rfl
  | some r =>
    simp only [Option.map]
    by_cases hs : r.sym = true
    · by_cases ha : a.side = true <;> simp [hs, ha]
    · by_cases ha : a.side = true <;> simp [hs, ha]

theorem rev_of (sch : Rel.Schema) (a : Attr) : toAttr ((ofSchema sch).rev a) = Rel.Schema.rev sch (toAttr a) := by
  unfold Schema.rev Rel.Schema.rev ofSchema toAttr
  simp only [List.getElem?_map]
  cases h : sch[a.rel]? with
  | none => rfl
  | some r =>
    simp only [Option.map]
    by_cases hs : r.sym = true <;> simp [hs]

/-- both models see the same links (of existing objects) -/
theorem hasB_of (sch : Rel.Schema) (s : Rel.Store) (p : ObjId) (a : Attr) (q : ObjId) :
    hasB (ofSchema sch) (ofStore s) p a q = (decide (p < s.n) && Rel.hasB sch s p (toAttr a) q) := by
  unfold hasB Rel.hasB
  rw [side_of]
  cases h : Rel.Schema.side sch (toAttr a) with
  | none => simp
  | some d =>
    simp only [Option.map, ofSide, ofStore]
    by_cases hc : d.isColl = true
    · simp [hc]
    · by_cases hp : p < s.n <;> simp [hc, hp]

theorem mem_attrsOf_of (sch : Rel.Schema) (a : Attr) (e : EntId) (h : toAttr a ∈ Rel.Schema.attrsOf sch e) : a ∈ (ofSchema sch).attrsOf e := by
  obtain ⟨d, hd, he⟩ := Rel.attrsOf_mem h
  have hs : (ofSchema sch).side a = some (ofSide d) := by rw [side_of, hd]; rfl
  have := Schema.mem_attrsOf hs
  simp only [ofSide] at this
  rw [he] at this
  exact this

end PonyVerif.Model.Cascade.Bridge
