/-
  Lemmas about the DISTINCT inference model (Model/Distinct.lean).
-/
import PonyVerif.Model.Distinct
namespace PonyVerif.Model.Q

theorem mem_dedup {α} [DecidableEq α] (x : α) : ∀ l : List α, x ∈ dedup l ↔ x ∈ l
  | [] => by simp [dedup]
  | y :: ys => by
    have ih := mem_dedup x ys
    simp only [dedup]
    split
    · rename_i h
      constructor
      · intro hx; exact List.mem_cons_of_mem _ (ih.1 hx)
      · intro hx
        rcases List.mem_cons.1 hx with rfl | hx
        · exact h
        · exact ih.2 hx
    · simp [ih]

theorem nodup_dedup {α} [DecidableEq α] : ∀ l : List α, (dedup l).Nodup
  | [] => by simp [dedup]
  | y :: ys => by
    have ih := nodup_dedup ys
    simp only [dedup]
    split
    · exact ih
    · rename_i h; exact List.nodup_cons.2 ⟨h, ih⟩

/-- if `f` separates whatever `g` separates on `l`, a duplicate-free `map g` gives a duplicate-free `map f` -/
theorem nodup_map_of_sep {α β γ} (f : α → β) (g : α → γ) : ∀ l : List α,
    (∀ a ∈ l, ∀ b ∈ l, f a = f b → g a = g b) → (l.map g).Nodup → (l.map f).Nodup
  | [], _, _ => by simp
  | x :: xs, h, hg => by
    simp only [List.map_cons, List.nodup_cons] at hg ⊢
    refine ⟨?_, nodup_map_of_sep f g xs (fun a ha b hb => h a (List.mem_cons_of_mem _ ha) b (List.mem_cons_of_mem _ hb)) hg.2⟩
    intro hx
    obtain ⟨y, hy, hfy⟩ := List.mem_map.1 hx
    have := h x (List.mem_cons_self ..) y (List.mem_cons_of_mem _ hy) hfy.symm
    exact hg.1 (List.mem_map.2 ⟨y, hy, this.symm⟩)

theorem map_eq_at {α β} (f g : α → β) : ∀ (l : List α), l.map f = l.map g → ∀ x ∈ l, f x = g x
  | [], _, x, hx => by cases hx
  | y :: ys, h, x, hx => by
    simp only [List.map_cons, List.cons.injEq] at h
    rcases List.mem_cons.1 hx with rfl | hx
    · exact h.1
    · exact map_eq_at f g ys h.2 x hx

/-- without DISTINCT the projection still identifies the object -/
theorem project_separates (pk : List String) (items : List Item) (h : needsDistinct pk items = false) (r1 r2 : DRow)
    (hp : project pk items r1 = project pk items r2) : keyOf pk r1 = keyOf pk r2 := by
  have hat := map_eq_at (itemVal pk r1) (itemVal pk r2) items hp
  simp only [needsDistinct, Bool.and_eq_false_iff, Bool.not_eq_false'] at h
  rcases h with h | h
  · have := hat .entity (by simpa using h)
    simpa [itemVal] using this
  · simp only [keyOf]
    apply List.map_congr_left
    intro k hk
    have hk' : items.contains (Item.attr k) = true := by
      cases hc : items.contains (Item.attr k) with
      | true => rfl
      | false =>
        have : (pk.any fun k => !items.contains (Item.attr k)) = true := List.any_eq_true.2 ⟨k, hk, by rw [hc]; rfl⟩
        rw [this] at h; cases h
    have := hat (.attr k) (by simpa using hk')
    simpa [itemVal] using this

end PonyVerif.Model.Q
