/-
  Helper lemmas for C28 (core Lean only).
-/
import PonyVerif.Model.Tracked
namespace PonyVerif.Model.Tracked

/-! ### induction over values -/

mutual
theorem T.ind {P : T → Prop} (ha : ∀ a, P (.atom a)) (hn : ∀ k w xs, (∀ p ∈ xs, P p.2) → P (.node k w xs)) : ∀ t, P t
  | .atom a => ha a
  | .node k w xs => hn k w xs (T.indL ha hn xs)
theorem T.indL {P : T → Prop} (ha : ∀ a, P (.atom a)) (hn : ∀ k w xs, (∀ p ∈ xs, P p.2) → P (.node k w xs)) :
    ∀ xs : Items, ∀ p ∈ xs, P p.2
  | [], _, h => by cases h
  | (_, v) :: xs, p, h => by
      cases h with
      | head => exact T.ind ha hn v
      | tail _ h => exact T.indL ha hn xs p h
end

theorem allWL_iff (xs : Items) : allWL xs = true ↔ ∀ p ∈ xs, allW p.2 = true := by
  induction xs with
  | nil => simp [allWL]
  | cons x xs ih => obtain ⟨k, v⟩ := x; simp [allWL, ih]

theorem tupFreeL_iff (xs : Items) : tupFreeL xs = true ↔ ∀ p ∈ xs, tupFree p.2 = true := by
  induction xs with
  | nil => simp [tupFreeL]
  | cons x xs ih => obtain ⟨k, v⟩ := x; simp [tupFreeL, ih]

theorem makeL_eq_map (cfg : Cfg) (xs : Items) : makeL cfg xs = xs.map (fun p => (p.1, make cfg p.2)) := by
  induction xs with
  | nil => simp [makeL]
  | cons x xs ih => obtain ⟨k, v⟩ := x; simp [makeL, ih]

theorem serL_eq_map (xs : Items) : serL xs = xs.map (fun p => (p.1, ser p.2)) := by
  induction xs with
  | nil => simp [serL]
  | cons x xs ih => obtain ⟨k, v⟩ := x; simp [serL, ih]

theorem allW_node_of {k : Kind} {w : Bool} {xs : Items} (h : allW (.node k w xs) = true) : allWL xs = true := by
  cases k <;> simp_all [allW]

theorem allW_node_w {k : Kind} {w : Bool} {xs : Items} (h : allW (.node k w xs) = true) (hk : k ≠ .tup) : w = true := by
  cases k <;> simp_all [allW]

theorem allW_node_mk {k : Kind} {w : Bool} {xs : Items} (hw : k ≠ .tup → w = true) (h : allWL xs = true)
    (hf : k ≠ .flist ∧ k ≠ .fdict := by decide) : allW (.node k w xs) = true := by
  cases k <;> simp_all [allW]

/-! ### `make` -/

/-- with a `make` that wraps tuples, whatever is handed in comes out fully wrapped -/
theorem make_allW (cfg : Cfg) (h : cfg.makeTuple = true) (hr : cfg.rebinds = true) (t : T) : allW (make cfg t) = true := by
  induction t using T.ind with
  | ha a => simp [make, allW]
  | hn k w xs ih =>
      have hl : allWL (makeL cfg xs) = true := by
        rw [allWL_iff, makeL_eq_map]; intro p hp
        simp only [List.mem_map] at hp
        obtain ⟨q, hq, rfl⟩ := hp
        exact ih q hq
      cases k with
      | tup =>
          have h' : cfg.tupleMode ≠ .leave := by simpa [Cfg.makeTuple] using h
          cases hm : cfg.tupleMode <;> simp_all [make, allW]
      | _ => simp [make, allW, hl, hr]

/-- a value without tuples (ordinary JSON: dict / list / scalars) comes out fully wrapped, whatever `make` does to tuples -/
theorem make_allW_of_tupFree (cfg : Cfg) (t : T) (ht : tupFree t = true) : allW (make cfg t) = true := by
  induction t using T.ind with
  | ha a => simp [make, allW]
  | hn k w xs ih =>
      cases k with
      | tup => simp [tupFree] at ht
      | flist => simp [tupFree] at ht
      | fdict => simp [tupFree] at ht
      | _ =>
        all_goals
          have hx : tupFreeL xs = true := by simpa [tupFree] using ht
          have hl : allWL (makeL cfg xs) = true := by
            rw [allWL_iff, makeL_eq_map]; intro p hp
            simp only [List.mem_map] at hp
            obtain ⟨q, hq, rfl⟩ := hp
            exact ih q hq ((tupFreeL_iff xs).1 hx q hq)
          simp [make, allW, hl]

/-- `ser` forgets the flags: loading what was written gives the same JSON -/
theorem ser_tupFree (t : T) : tupFree (ser t) = true := by
  induction t using T.ind with
  | ha a => simp [ser, tupFree]
  | hn k w xs ih =>
      have hl : tupFreeL (serL xs) = true := by
        rw [tupFreeL_iff, serL_eq_map]; intro p hp
        simp only [List.mem_map] at hp
        obtain ⟨q, hq, rfl⟩ := hp
        exact ih q hq
      cases k <;> simp [ser, Kind.ser, tupFree, hl]

/-! ### the built-in mutators only move old items around and store their arguments -/

theorem setAll_mem (ps : List (Nat × T)) : ∀ (xs : Items) (p : String × T), p ∈ setAll ps xs → p ∈ xs ∨ p.2 ∈ ps.map (·.2) := by
  induction ps with
  | nil => intro xs p hp; exact .inl (by simpa [setAll] using hp)
  | cons q ps ih =>
      intro xs p hp
      have hp' : p ∈ setAll ps (xs.set q.1 (li q.2)) := by simpa [setAll] using hp
      rcases ih _ p hp' with h | h
      · rcases List.mem_or_eq_of_mem_set h with h | h
        · exact .inl h
        · right; simp [h, li]
      · right; simp only [List.map_cons, List.mem_cons]; exact .inr h

theorem lEffect_mem {m : LMut} {xs xs' : Items} (h : lEffect m xs = .ok xs') :
    ∀ p ∈ xs', p ∈ xs ∨ p.2 ∈ m.args := by
  intro p hp
  cases m with
  | setitem i v =>
      simp only [lEffect] at h
      split at h
      · injection h with h; subst h
        rcases List.mem_or_eq_of_mem_set hp with h | h
        · exact .inl h
        · right; simp [h, li, LMut.args]
      · cases h
  | setslice a b k vs =>
      simp only [lEffect] at h
      injection h with h; subst h
      simp only [List.mem_append, List.mem_map] at hp
      rcases hp with (hp | ⟨v, hv, rfl⟩) | hp
      · exact .inl (List.mem_of_mem_take hp)
      · right; simpa [li, LMut.args] using hv
      · exact .inl (List.mem_of_mem_drop hp)
  | setsliceStep a b st k vs =>
      simp only [lEffect] at h
      split at h
      · cases h
      · split at h
        · cases h
        · injection h with h; subst h
          rcases setAll_mem _ _ p hp with h | h
          · exact .inl h
          · right
            simp only [List.mem_map] at h
            obtain ⟨q, hq, hqe⟩ := h
            rw [← hqe]
            simpa [LMut.args] using (List.of_mem_zip (a := q.1) (b := q.2) hq).2
  | delitem i =>
      simp only [lEffect] at h
      split at h
      · injection h with h; subst h; exact .inl (List.mem_of_mem_eraseIdx hp)
      · cases h
  | delsliceStep a b st =>
      simp only [lEffect] at h
      split at h
      · cases h
      · injection h with h; subst h
        simp only [List.mem_filterMap] at hp
        obtain ⟨i, _, hi⟩ := hp
        split at hi
        · cases hi
        · exact .inl (List.mem_of_getElem? hi)
  | delslice a b =>
      simp only [lEffect] at h
      injection h with h; subst h
      simp only [List.mem_append] at hp
      rcases hp with hp | hp
      · exact .inl (List.mem_of_mem_take hp)
      · exact .inl (List.mem_of_mem_drop hp)
  | append v =>
      simp only [lEffect] at h
      injection h with h; subst h
      simp only [List.mem_append, List.mem_singleton] at hp
      rcases hp with hp | rfl
      · exact .inl hp
      · right; simp [li, LMut.args]
  | extend k vs =>
      simp only [lEffect] at h
      injection h with h; subst h
      simp only [List.mem_append, List.mem_map] at hp
      rcases hp with hp | ⟨v, hv, rfl⟩
      · exact .inl hp
      · right; simpa [li, LMut.args] using hv
  | insert i v =>
      simp only [lEffect] at h
      injection h with h; subst h
      simp only [List.mem_append, List.mem_cons] at hp
      rcases hp with hp | rfl | hp
      · exact .inl (List.mem_of_mem_take hp)
      · right; simp [li, LMut.args]
      · exact .inl (List.mem_of_mem_drop hp)
  | pop i =>
      cases i with
      | none =>
          simp only [lEffect] at h
          split at h
          · cases h
          · injection h with h; subst h; exact .inl (List.dropLast_subset _ hp)
      | some i =>
          simp only [lEffect] at h
          split at h
          · injection h with h; subst h; exact .inl (List.mem_of_mem_eraseIdx hp)
          · cases h
  | remove v =>
      simp only [lEffect] at h
      split at h
      · injection h with h; subst h; exact .inl (List.mem_of_mem_eraseIdx hp)
      · cases h
  | reverse =>
      simp only [lEffect] at h
      injection h with h; subst h
      exact .inl (List.mem_reverse.1 hp)
  | sort perm =>
      simp only [lEffect] at h
      injection h with h; subst h
      simp only [List.mem_filterMap] at hp
      obtain ⟨i, _, hi⟩ := hp
      exact .inl (List.mem_of_getElem? hi)
  | sortFail => simp [lEffect] at h
  | sortRaise perm =>
      simp only [lEffect] at h
      injection h with h; subst h
      simp only [List.mem_filterMap] at hp
      obtain ⟨i, _, hi⟩ := hp
      exact .inl (List.mem_of_getElem? hi)
  | clear =>
      simp only [lEffect] at h
      injection h with h; subst h
      cases hp
  | iadd k vs =>
      simp only [lEffect] at h
      injection h with h; subst h
      simp only [List.mem_append, List.mem_map] at hp
      rcases hp with hp | ⟨v, hv, rfl⟩
      · exact .inl hp
      · right; simpa [li, LMut.args] using hv
  | imul n =>
      simp only [lEffect] at h
      injection h with h; subst h
      simp only [List.mem_flatten, List.mem_replicate] at hp
      obtain ⟨l, ⟨_, rfl⟩, hl⟩ := hp
      exact .inl hl

theorem dSet_mem {k : String} {v : T} {xs : Items} : ∀ p ∈ dSet k v xs, p ∈ xs ∨ p.2 = v := by
  intro p hp
  unfold dSet at hp
  split at hp
  · rcases List.mem_or_eq_of_mem_set hp with h | h
    · exact .inl h
    · right; simp [h]
  · simp only [List.mem_append, List.mem_singleton] at hp
    rcases hp with hp | rfl
    · exact .inl hp
    · right; rfl

theorem dSetAll_mem (ps : Items) : ∀ (xs : Items), ∀ p ∈ dSetAll ps xs, p ∈ xs ∨ p.2 ∈ ps.map (·.2) := by
  induction ps with
  | nil => intro xs p hp; exact .inl (by simpa [dSetAll] using hp)
  | cons q ps ih =>
      intro xs p hp
      have hp' : p ∈ dSetAll ps (dSet q.1 q.2 xs) := by simpa [dSetAll] using hp
      rcases ih _ p hp' with h | h
      · rcases dSet_mem p h with h | h
        · exact .inl h
        · right; simp [h]
      · right; simp only [List.map_cons, List.mem_cons]; exact .inr h

theorem dEffect_mem {m : DMut} {xs xs' : Items} (h : dEffect m xs = .ok xs') :
    ∀ p ∈ xs', p ∈ xs ∨ p.2 ∈ m.args := by
  intro p hp
  cases m with
  | setitem k v =>
      simp only [dEffect] at h
      injection h with h; subst h
      rcases dSet_mem p hp with h | h
      · exact .inl h
      · right; simp [h, DMut.args]
  | delitem k =>
      simp only [dEffect] at h
      split at h
      · injection h with h; subst h; exact .inl (List.mem_of_mem_eraseIdx hp)
      · cases h
  | update k ps kw =>
      simp only [dEffect] at h
      injection h with h; subst h
      rcases dSetAll_mem _ _ p hp with h | h
      · exact .inl h
      · right; simpa [DMut.args] using h
  | setdefault k v =>
      simp only [dEffect] at h
      split at h
      · injection h with h; subst h; exact .inl hp
      · injection h with h; subst h
        simp only [List.mem_append, List.mem_singleton] at hp
        rcases hp with hp | rfl
        · exact .inl hp
        · right; simp [DMut.args]
  | pop k d =>
      simp only [dEffect] at h
      split at h
      · injection h with h; subst h; exact .inl (List.mem_of_mem_eraseIdx hp)
      · split at h
        · injection h with h; subst h; exact .inl hp
        · cases h
  | popitem =>
      simp only [dEffect] at h
      split at h
      · cases h
      · injection h with h; subst h; exact .inl (List.dropLast_subset _ hp)
  | clear =>
      simp only [dEffect] at h
      injection h with h; subst h
      cases hp
  | ior k ps =>
      simp only [dEffect] at h
      injection h with h; subst h
      rcases dSetAll_mem _ _ p hp with h | h
      · exact .inl h
      · right; simpa [DMut.args] using h

theorem allWL_of_lEffect {m : LMut} {xs xs' : Items} (h : lEffect m xs = .ok xs') (hx : allWL xs = true)
    (ha : m.args.all allW = true) : allWL xs' = true := by
  rw [allWL_iff] at hx ⊢
  intro p hp
  rcases lEffect_mem h p hp with h1 | h1
  · exact hx p h1
  · exact (List.all_eq_true.1 ha) _ h1

theorem allWL_of_dEffect {m : DMut} {xs xs' : Items} (h : dEffect m xs = .ok xs') (hx : allWL xs = true)
    (ha : m.args.all allW = true) : allWL xs' = true := by
  rw [allWL_iff] at hx ⊢
  intro p hp
  rcases dEffect_mem h p hp with h1 | h1
  · exact hx p h1
  · exact (List.all_eq_true.1 ha) _ h1

/-! ### coverage -/

theorem LM.mem_all (m : LM) : m ∈ LM.all := by cases m <;> decide
theorem DM.mem_all (m : DM) : m ∈ DM.all := by cases m <;> decide

theorem Cfg.covers_list {cfg : Cfg} (h : cfg.covers = true) (m : LM) : cfg.listOv.contains m = true := by
  simp only [Cfg.covers, Bool.and_eq_true, List.all_eq_true] at h
  exact h.1.1 m (LM.mem_all m)
theorem Cfg.covers_dict {cfg : Cfg} (h : cfg.covers = true) (m : DM) : cfg.dictOv.contains m = true := by
  simp only [Cfg.covers, Bool.and_eq_true, List.all_eq_true] at h
  exact h.1.2 m (DM.mem_all m)
theorem Cfg.covers_arr {cfg : Cfg} (h : cfg.covers = true) (m : LM) : cfg.arrOv.contains m = true := by
  simp only [Cfg.covers, Bool.and_eq_true, List.all_eq_true] at h
  exact h.2 m (LM.mem_all m)

/-- arguments that pass TrackedArray's validation are scalars -/
theorem atomOk_allW {k : Kind} {v : T} (h : atomOk k v = true) : allW v = true := by
  cases v with
  | atom a => simp [allW]
  | node k' w xs => cases k <;> simp [atomOk] at h

theorem valid_args_allW {k : Kind} {m : LMut} (h : m.valid k = true) : m.args.all allW = true := by
  cases m <;> simp_all [LMut.valid, LMut.args] <;> first | exact atomOk_allW h | skip
  all_goals (intro v hv; exact atomOk_allW (h v hv))

/-! ### one mutator applied to one node -/

theorem applyL_sound {cfg : Cfg} (hc : cfg.covers = true) {m : LMut} {t t' : T} {n : Bool}
    (ht : allW t = true) (ha : (m.prep cfg).args.all allW = true) (hr : notifies cfg m = true) (h : applyL cfg m t = .ok (t', n)) :
    allW t' = true ∧ n = true := by
  cases t with
  | atom a => simp [applyL] at h
  | node k w xs =>
    have hxs := allW_node_of ht
    cases k with
    | list =>
        have hw : w = true := allW_node_w ht (by decide)
        subst hw
        simp only [applyL, Bool.true_and, Cfg.covers_list hc, if_true, hr] at h
        split at h
        · rename_i xs' he
          injection h with h; injection h with h1 h2
          subst h1; subst h2
          exact ⟨allW_node_mk (fun _ => rfl) (allWL_of_lEffect he hxs ha), rfl⟩
        · cases h
    | iarr =>
        have hw : w = true := allW_node_w ht (by decide)
        subst hw
        simp only [applyL, Bool.true_and, Cfg.covers_arr hc, hr] at h
        split at h
        · cases h
        · rename_i hv
          have hv' : m.valid .iarr = true := by simpa using hv
          split at h
          · rename_i xs' he
            injection h with h; injection h with h1 h2
            subst h1; subst h2
            exact ⟨allW_node_mk (fun _ => rfl) (allWL_of_lEffect he hxs (valid_args_allW hv')), rfl⟩
          · cases h
    | sarr =>
        have hw : w = true := allW_node_w ht (by decide)
        subst hw
        simp only [applyL, Bool.true_and, Cfg.covers_arr hc, hr] at h
        split at h
        · cases h
        · rename_i hv
          have hv' : m.valid .sarr = true := by simpa using hv
          split at h
          · rename_i xs' he
            injection h with h; injection h with h1 h2
            subst h1; subst h2
            exact ⟨allW_node_mk (fun _ => rfl) (allWL_of_lEffect he hxs (valid_args_allW hv')), rfl⟩
          · cases h
    | dict => simp [applyL] at h
    | tup => simp [applyL] at h
    | flist => simp [allW] at ht
    | fdict => simp [allW] at ht

theorem applyD_sound {cfg : Cfg} (hc : cfg.covers = true) {m : DMut} {t t' : T} {n : Bool}
    (ht : allW t = true) (ha : (m.prep cfg).args.all allW = true) (h : applyD cfg m t = .ok (t', n)) :
    allW t' = true ∧ n = true := by
  cases t with
  | atom a => simp [applyD] at h
  | node k w xs =>
    have hxs := allW_node_of ht
    cases k with
    | dict =>
        have hw : w = true := allW_node_w ht (by decide)
        subst hw
        simp only [applyD, Bool.true_and, Cfg.covers_dict hc, if_true] at h
        split at h
        · rename_i xs' he
          injection h with h; injection h with h1 h2
          subst h1; subst h2
          exact ⟨allW_node_mk (fun _ => rfl) (allWL_of_dEffect he hxs ha), rfl⟩
        · cases h
    | list => simp [applyD] at h
    | iarr => simp [applyD] at h
    | sarr => simp [applyD] at h
    | tup => simp [applyD] at h
    | flist => simp [allW] at ht
    | fdict => simp [allW] at ht

/-! ### navigation -/

theorem allWL_set {xs : Items} {i : Nat} {key : String} {c : T} (hx : allWL xs = true) (hc : allW c = true) :
    allWL (xs.set i (key, c)) = true := by
  rw [allWL_iff] at hx ⊢
  intro p hp
  rcases List.mem_or_eq_of_mem_set hp with h | h
  · exact hx p h
  · simp [h, hc]

/-- a function that keeps nodes wrapped and notifies does so at any depth -/
theorem modAt_sound {f : T → Except (Err × Bool) (T × Bool)}
    (hf : ∀ t t' n, allW t = true → f t = .ok (t', n) → allW t' = true ∧ n = true) :
    ∀ (p : List Step) (t t' : T) (n : Bool), allW t = true → modAt f p t = .ok (t', n) → allW t' = true ∧ n = true := by
  intro p
  induction p with
  | nil => intro t t' n ht h; exact hf t t' n ht (by simpa [modAt] using h)
  | cons s p ih =>
      intro t t' n ht h
      cases t with
      | atom a => simp [modAt] at h
      | node k w xs =>
          simp only [modAt] at h
          split at h
          · cases h
          · rename_i i hi
            split at h
            · cases h
            · rename_i key c hc
              split at h
              · rename_i c' n' hm
                injection h with h; injection h with h1 h2
                subst h1; subst h2
                have hxs := allW_node_of ht
                have hcw : allW c = true := (allWL_iff xs).1 hxs _ (List.mem_of_getElem? hc)
                obtain ⟨h1, h2⟩ := ih c c' n' hcw hm
                refine ⟨?_, h2⟩
                cases k <;> simp_all [allW, allWL_set]
              · cases h

/-- an exception leaves the value as it was; a read does not exist as a transition at all -/
theorem getAt_allW : ∀ (p : List Step) (t c : T), allW t = true → getAt p t = some c → allW c = true := by
  intro p
  induction p with
  | nil => intro t c ht h; simp [getAt] at h; subst h; exact ht
  | cons s p ih =>
      intro t c ht h
      cases t with
      | atom a => simp [getAt] at h
      | node k w xs =>
          simp only [getAt] at h
          split at h
          · cases h
          · split at h
            · cases h
            · rename_i key c0 hc
              exact ih c0 c ((allWL_iff xs).1 (allW_node_of ht) _ (List.mem_of_getElem? hc)) h

end PonyVerif.Model.Tracked

namespace PonyVerif.Model.Tracked

/-! ### plain values (what `json.loads` gives: no wrapper flags, no tuples) -/

theorem isPlainL_iff (xs : Items) : isPlainL xs = true ↔ ∀ p ∈ xs, isPlain p.2 = true := by
  induction xs with
  | nil => simp [isPlainL]
  | cons x xs ih => obtain ⟨k, v⟩ := x; simp [isPlainL, ih]

theorem isPlain_ser (t : T) : isPlain (ser t) = true := by
  induction t using T.ind with
  | ha a => simp [ser, isPlain]
  | hn k w xs ih =>
      have hl : isPlainL (serL xs) = true := by
        rw [isPlainL_iff, serL_eq_map]; intro p hp
        simp only [List.mem_map] at hp
        obtain ⟨q, hq, rfl⟩ := hp
        exact ih q hq
      cases k <;> simp [ser, Kind.ser, isPlain, hl]

theorem isPlain_tupFree (t : T) (h : isPlain t = true) : tupFree t = true := by
  induction t using T.ind with
  | ha a => simp [tupFree]
  | hn k w xs ih =>
      cases k with
      | tup => simp [isPlain] at h
      | flist => simp [isPlain] at h
      | fdict => simp [isPlain] at h
      | _ =>
        all_goals
          have hx : isPlainL xs = true := by
            have := h; simp only [isPlain, Bool.and_eq_true] at this; exact this.2
          have hl : tupFreeL xs = true := by
            rw [tupFreeL_iff]; intro p hp
            exact ih p hp ((isPlainL_iff xs).1 hx p hp)
          simp [tupFree, hl]

/-- writing a freshly loaded value gives back what was loaded -/
theorem ser_make (cfg : Cfg) (t : T) (h : isPlain t = true) : ser (make cfg t) = t := by
  induction t using T.ind with
  | ha a => simp [make, ser]
  | hn k w xs ih =>
      cases k with
      | tup => simp [isPlain] at h
      | flist => simp [isPlain] at h
      | fdict => simp [isPlain] at h
      | _ =>
        all_goals
          have h' := h
          simp only [isPlain, Bool.and_eq_true, Bool.not_eq_true'] at h'
          obtain ⟨hw, hx⟩ := h'
          subst hw
          have hl : serL (makeL cfg xs) = xs := by
            rw [serL_eq_map, makeL_eq_map, List.map_map]
            calc List.map _ xs = List.map id xs := by
                  apply List.map_congr_left
                  intro p hp
                  have := ih p hp ((isPlainL_iff xs).1 hx p hp)
                  simp [Function.comp, this]
              _ = xs := List.map_id xs
          simp [make, ser, Kind.ser, hl]

theorem run_append (cfg : Cfg) (a b : List Op) (s : St) : run cfg (a ++ b) s = run cfg b (run cfg a s) := by
  induction a generalizing s with
  | nil => rfl
  | cons op a ih => simp [run, ih]

/-! ### notification does not depend on what is stored -/

theorem applyL_notifies {cfg : Cfg} (hc : cfg.covers = true) {m : LMut} {t t' : T} {n : Bool}
    (ht : allW t = true) (hr : notifies cfg m = true) (h : applyL cfg m t = .ok (t', n)) : n = true := by
  cases t with
  | atom a => simp [applyL] at h
  | node k w xs =>
    cases k with
    | list =>
        have hw : w = true := allW_node_w ht (by decide)
        subst hw
        simp only [applyL, Bool.true_and, Cfg.covers_list hc, if_true, hr] at h
        split at h
        · injection h with h; injection h with h1 h2; exact h2.symm
        · cases h
    | iarr =>
        have hw : w = true := allW_node_w ht (by decide)
        subst hw
        simp only [applyL, Bool.true_and, Cfg.covers_arr hc, hr] at h
        split at h
        · cases h
        · split at h
          · injection h with h; injection h with h1 h2; exact h2.symm
          · cases h
    | sarr =>
        have hw : w = true := allW_node_w ht (by decide)
        subst hw
        simp only [applyL, Bool.true_and, Cfg.covers_arr hc, hr] at h
        split at h
        · cases h
        · split at h
          · injection h with h; injection h with h1 h2; exact h2.symm
          · cases h
    | dict => simp [applyL] at h
    | tup => simp [applyL] at h
    | flist => simp [allW] at ht
    | fdict => simp [allW] at ht

theorem applyD_notifies {cfg : Cfg} (hc : cfg.covers = true) {m : DMut} {t t' : T} {n : Bool}
    (ht : allW t = true) (h : applyD cfg m t = .ok (t', n)) : n = true := by
  cases t with
  | atom a => simp [applyD] at h
  | node k w xs =>
    cases k with
    | dict =>
        have hw : w = true := allW_node_w ht (by decide)
        subst hw
        simp only [applyD, Bool.true_and, Cfg.covers_dict hc, if_true] at h
        split at h
        · injection h with h; injection h with h1 h2; exact h2.symm
        · cases h
    | list => simp [applyD] at h
    | iarr => simp [applyD] at h
    | sarr => simp [applyD] at h
    | tup => simp [applyD] at h
    | flist => simp [allW] at ht
    | fdict => simp [allW] at ht

theorem modAt_notifies {f : T → Except (Err × Bool) (T × Bool)}
    (hf : ∀ t t' n, allW t = true → f t = .ok (t', n) → n = true) :
    ∀ (p : List Step) (t t' : T) (n : Bool), allW t = true → modAt f p t = .ok (t', n) → n = true := by
  intro p
  induction p with
  | nil => intro t t' n ht h; exact hf t t' n ht (by simpa [modAt] using h)
  | cons s p ih =>
      intro t t' n ht h
      cases t with
      | atom a => simp [modAt] at h
      | node k w xs =>
          simp only [modAt] at h
          split at h
          · cases h
          · split at h
            · cases h
            · rename_i key c hc
              split at h
              · rename_i c' n' hm
                injection h with h; injection h with h1 h2
                subst h2
                exact ih c c' n' ((allWL_iff xs).1 (allW_node_of ht) _ (List.mem_of_getElem? hc)) hm
              · cases h

end PonyVerif.Model.Tracked
