/-
  C23 — lemmas about `Model/Loading.lean`: the coherence invariant (everything the session holds is what the database
  holds), its preservation by every loading primitive and every read, and: a coherent session answers every read with
  the database's answer.
-/
import PonyVerif.Model.Loading
namespace PonyVerif.Model.Loading

theorem mem_canon (db : Db) (l : List Oid) (i : Oid) : i ∈ canon db l ↔ i ∈ db.objs ∧ i ∈ l := by
  simp [canon, List.mem_filter]

theorem mem_union (db : Db) (a b : List Oid) (i : Oid) : i ∈ union db a b ↔ i ∈ db.objs ∧ (i ∈ a ∨ i ∈ b) := by
  simp [union, List.mem_filter]

/-- a `SetData` agrees with the database -/
structure CohSet (db : Db) (o : Oid) (c : Attr) (sd : SetData) : Prop where
  sub : ∀ i ∈ sd.items, i ∈ db.coll o c ∧ i ∈ db.objs
  full : sd.full = true → ∀ i ∈ db.coll o c, i ∈ db.objs → i ∈ sd.items
  cnt : ∀ n, sd.count = some n → n = (canon db (db.coll o c)).length
  abs : ∀ i ∈ sd.absent, i ∉ db.coll o c

/-- everything loaded into the session is the database's -/
def Coherent (db : Db) (s : Sess) : Prop :=
  (∀ o a v, s.vals o a = some v → v = db.val o a) ∧ (∀ o c sd, s.sets o c = some sd → CohSet db o c sd)

theorem coh_init (db : Db) : Coherent db Sess.init :=
  ⟨fun _ _ _ h => by simp [Sess.init] at h, fun _ _ _ h => by simp [Sess.init] at h⟩

theorem cohset_empty (db : Db) (o : Oid) (c : Attr) : CohSet db o c SetData.empty :=
  ⟨fun i h => by simp [SetData.empty] at h, fun h => by simp [SetData.empty] at h, fun n h => by simp [SetData.empty] at h,
   fun i h => by simp [SetData.empty] at h⟩

theorem coh_getSet {db : Db} {s : Sess} (h : Coherent db s) (o : Oid) (c : Attr) : CohSet db o c (getSet s o c) := by
  unfold getSet
  cases hs : s.sets o c with
  | none => exact cohset_empty db o c
  | some sd => exact h.2 o c sd hs

theorem coh_setVal {db : Db} {s : Sess} (h : Coherent db s) (o : Oid) (a : Attr) : Coherent db (setVal s o a (db.val o a)) := by
  refine ⟨?_, h.2⟩
  intro o' a' v hv
  simp only [setVal] at hv
  split at hv
  · rename_i hc
    obtain ⟨rfl, rfl⟩ := hc
    simpa using hv.symm
  · exact h.1 o' a' v hv

theorem coh_setSet {db : Db} {s : Sess} (h : Coherent db s) (o : Oid) (c : Attr) (sd : SetData) (hsd : CohSet db o c sd) :
    Coherent db (setSet s o c sd) := by
  refine ⟨h.1, ?_⟩
  intro o' c' sd' hs
  simp only [setSet] at hs
  split at hs
  · rename_i hc
    obtain ⟨rfl, rfl⟩ := hc
    simp only [Option.some.injEq] at hs
    subst hs; exact hsd
  · exact h.2 o' c' sd' hs

theorem coh_loadVal {db : Db} {s : Sess} (h : Coherent db s) (o : Oid) (a : Attr) : Coherent db (loadVal db s o a) := by
  unfold loadVal
  split
  · exact h
  · exact coh_setVal h o a

theorem coh_loadVals {db : Db} (t : List (Oid × Attr)) : ∀ {s : Sess}, Coherent db s → Coherent db (loadVals db s t) := by
  induction t with
  | nil => intro s h; exact h
  | cons x rest ih =>
    intro s h
    obtain ⟨o, a⟩ := x
    exact ih (coh_loadVal h o a)

theorem coh_addItems {db : Db} {s : Sess} (h : Coherent db s) (o : Oid) (c : Attr) (is : List Oid) :
    Coherent db (addItems db s o c is) := by
  have hsd := coh_getSet h o c
  unfold addItems
  apply coh_setSet h
  refine ⟨?_, ?_, hsd.cnt, hsd.abs⟩
  · intro i hi
    simp only [mem_union, List.mem_filter, decide_eq_true_eq] at hi
    obtain ⟨ho, h1 | h2⟩ := hi
    · exact ⟨(hsd.sub i h1).1, ho⟩
    · exact ⟨h2.2, ho⟩
  · intro hf i hi ho
    simp only [mem_union]
    exact ⟨ho, Or.inl (hsd.full hf i hi ho)⟩

theorem union_coll_eq {db : Db} {o : Oid} {c : Attr} {sd : SetData} (hsd : CohSet db o c sd) :
    union db sd.items (db.coll o c) = canon db (db.coll o c) := by
  unfold union canon
  apply List.filter_congr
  intro i _
  by_cases hc : i ∈ db.coll o c
  · simp [hc]
  · have : i ∉ sd.items := fun hi => hc (hsd.sub i hi).1
    simp [hc, this]

theorem coh_loadColl {db : Db} {s : Sess} (h : Coherent db s) (o : Oid) (c : Attr) : Coherent db (loadColl db s o c) := by
  have hsd := coh_getSet h o c
  unfold loadColl
  apply coh_setSet h
  rw [union_coll_eq hsd]
  refine ⟨?_, ?_, ?_, ?_⟩
  · intro i hi
    have := (mem_canon db _ i).mp hi
    exact ⟨this.2, this.1⟩
  · intro _ i hi ho
    exact (mem_canon db _ i).mpr ⟨ho, hi⟩
  · intro n hn
    simpa using hn.symm
  · intro i hi; cases hi

theorem coh_setCount {db : Db} {s : Sess} (h : Coherent db s) (o : Oid) (c : Attr) : Coherent db (setCount db s o c) := by
  have hsd := coh_getSet h o c
  unfold setCount
  apply coh_setSet h
  exact ⟨hsd.sub, hsd.full, fun n hn => by simpa using hn.symm, hsd.abs⟩

theorem coh_addAbsent {db : Db} {s : Sess} (h : Coherent db s) (o : Oid) (c : Attr) (i : Oid) : Coherent db (addAbsent db s o c i) := by
  have hsd := coh_getSet h o c
  unfold addAbsent
  split
  · exact h
  · rename_i hni
    apply coh_setSet h
    refine ⟨hsd.sub, hsd.full, hsd.cnt, ?_⟩
    intro j hj
    rcases List.mem_cons.mp hj with rfl | hj'
    · exact hni
    · exact hsd.abs j hj'

theorem coh_applyLoad {db : Db} {s : Sess} (h : Coherent db s) (l : Load) : Coherent db (applyLoad db s l) := by
  cases l with
  | vals t => exact coh_loadVals t h
  | items o c is => exact coh_addItems h o c is
  | coll o c => exact coh_loadColl h o c
  | count o c => exact coh_setCount h o c
  | absent o c i => exact coh_addAbsent h o c i

theorem canon_items_full {db : Db} {o : Oid} {c : Attr} {sd : SetData} (hsd : CohSet db o c sd) (hf : sd.full = true) :
    canon db sd.items = canon db (db.coll o c) := by
  unfold canon
  apply List.filter_congr
  intro i hi
  by_cases hc : i ∈ db.coll o c
  · simp [hc, hsd.full hf i hc hi]
  · have : i ∉ sd.items := fun h => hc (hsd.sub i h).1
    simp [hc, this]

theorem canon_canon (db : Db) (l : List Oid) : canon db (canon db l) = canon db l := by
  unfold canon
  apply List.filter_congr
  intro i hi
  simp [List.mem_filter, hi]

/-- the empty-collection probe of `is_empty`: everything known afterwards -/
theorem cohset_probe_empty {db : Db} {o : Oid} {c : Attr} (sd : SetData) (_hsd : CohSet db o c sd) (hitems : sd.items = [])
    (he : canon db (db.coll o c) = []) : CohSet db o c { sd with full := true, count := some 0, absent := [] } := by
  refine ⟨?_, ?_, ?_, ?_⟩
  · intro i hi; simp [hitems] at hi
  · intro _ i hi ho
    have : i ∈ canon db (db.coll o c) := (mem_canon db _ i).mpr ⟨ho, hi⟩
    rw [he] at this; cases this
  · intro n hn
    simp only [Option.some.injEq] at hn
    rw [he]; simpa using hn.symm
  · intro i hi; cases hi

/-- a read of a coherent session: the database's answer, and the session stays coherent -/
theorem read_correct {db : Db} {s : Sess} (h : Coherent db s) (r : Read) :
    (read db s r).2.1 = dbAnswer db r ∧ Coherent db (read db s r).1 := by
  cases r with
  | attr o a =>
    simp only [read]
    cases hv : s.vals o a with
    | some v => exact ⟨by simp [dbAnswer, h.1 o a v hv], h⟩
    | none => exact ⟨rfl, coh_loadVal h o a⟩
  | isEmpty o c =>
    simp only [read]
    cases hs : s.sets o c with
    | none =>
      simp only
      cases hc : canon db (db.coll o c) with
      | nil =>
        refine ⟨by simp [dbAnswer, hc], coh_setSet h o c _ ?_⟩
        exact cohset_probe_empty SetData.empty (cohset_empty db o c) rfl hc
      | cons i rest => exact ⟨by simp [dbAnswer, hc], coh_addItems h o c [i]⟩
    | some sd =>
      have hsd := h.2 o c sd hs
      simp only
      by_cases hf : sd.full = true
      · simp only [hf, if_true]
        refine ⟨?_, h⟩
        simp only [dbAnswer, ← canon_items_full hsd hf]
        congr 1
        cases hi : sd.items with
        | nil => simp [canon]
        | cons x xs =>
          have hx := hsd.sub x (by simp [hi])
          have : x ∈ canon db (x :: xs) := (mem_canon db _ x).mpr ⟨hx.2, by simp⟩
          cases hcan : canon db (x :: xs) with
          | nil => rw [hcan] at this; cases this
          | cons _ _ => rfl
      · simp only [hf, Bool.false_eq_true, if_false]
        cases hi : sd.items with
        | cons x xs =>
          simp only [List.isEmpty_cons, Bool.not_false, if_true]
          refine ⟨?_, h⟩
          have hx := hsd.sub x (by simp [hi])
          have : x ∈ canon db (db.coll o c) := (mem_canon db _ x).mpr ⟨hx.2, hx.1⟩
          simp only [dbAnswer]
          cases hcan : canon db (db.coll o c) with
          | nil => rw [hcan] at this; cases this
          | cons _ _ => rfl
        | nil =>
          simp only [List.isEmpty_nil, Bool.not_true, Bool.false_eq_true, if_false]
          cases hn : sd.count with
          | some n =>
            refine ⟨?_, h⟩
            have := hsd.cnt n hn
            simp only [dbAnswer, this]
            cases canon db (db.coll o c) <;> simp
          | none =>
            simp only
            cases hc : canon db (db.coll o c) with
            | nil =>
              refine ⟨by simp [dbAnswer, hc], coh_setSet h o c _ ?_⟩
              have := cohset_probe_empty sd hsd hi hc
              rw [hi] at this
              exact this
            | cons i rest => exact ⟨by simp [dbAnswer, hc], coh_addItems h o c [i]⟩
  | count o c =>
    simp only [read]
    cases hb : (s.sets o c).bind (·.count) with
    | some n =>
      refine ⟨?_, h⟩
      cases hs : s.sets o c with
      | none => simp [hs] at hb
      | some sd =>
        simp only [hs, Option.bind_some] at hb
        simp [dbAnswer, (h.2 o c sd hs).cnt n hb]
    | none => exact ⟨rfl, coh_setCount h o c⟩
  | contains o c i =>
    have hsd := coh_getSet h o c
    simp only [read]
    by_cases h1 : i ∈ (getSet s o c).items
    · simp only [h1, if_true]
      have := hsd.sub i h1
      exact ⟨by simp [dbAnswer, mem_canon, this.1, this.2], h⟩
    · simp only [h1, if_false]
      by_cases h2 : (getSet s o c).full = true
      · simp only [h2, if_true]
        refine ⟨?_, h⟩
        have : ¬ (i ∈ db.objs ∧ i ∈ db.coll o c) := fun hh => h1 (hsd.full h2 i hh.2 hh.1)
        simp [dbAnswer, mem_canon, this]
      · simp only [h2, Bool.false_eq_true, if_false]
        by_cases h3 : i ∈ (getSet s o c).absent
        · simp only [h3, if_true]
          refine ⟨?_, h⟩
          have := hsd.abs i h3
          simp [dbAnswer, mem_canon, this]
        · simp only [h3, if_false]
          by_cases h4 : i ∈ db.coll o c ∧ i ∈ db.objs
          · simp only [h4, and_self, if_true]
            exact ⟨by simp [dbAnswer, mem_canon, h4.1, h4.2], coh_addItems h o c [i]⟩
          · simp only [h4, if_false]
            refine ⟨?_, coh_addAbsent (coh_setSet h o c _ hsd) o c i⟩
            have : ¬ (i ∈ db.objs ∧ i ∈ db.coll o c) := fun hh => h4 ⟨hh.2, hh.1⟩
            simp [dbAnswer, mem_canon, this]
  | items o c =>
    simp only [read]
    cases hs : s.sets o c with
    | none =>
      simp only
      refine ⟨?_, coh_loadColl h o c⟩
      simp only [dbAnswer]
      have e := union_coll_eq (cohset_empty db o c)
      simp only [SetData.empty] at e
      rw [e, canon_canon]
    | some sd =>
      have hsd := h.2 o c sd hs
      simp only
      by_cases hf : sd.full = true
      · simp only [hf, if_true]
        exact ⟨by simp [dbAnswer, canon_items_full hsd hf], h⟩
      · simp only [hf, Bool.false_eq_true, if_false]
        refine ⟨?_, coh_loadColl h o c⟩
        simp only [dbAnswer]
        rw [union_coll_eq hsd, canon_canon]
  | len o c =>
    simp only [read]
    cases hs : s.sets o c with
    | none =>
      simp only
      refine ⟨?_, coh_loadColl h o c⟩
      simp only [dbAnswer]
      have e := union_coll_eq (cohset_empty db o c)
      simp only [SetData.empty] at e
      rw [e, canon_canon]
    | some sd =>
      have hsd := h.2 o c sd hs
      simp only
      by_cases hf : sd.full = true
      · simp only [hf, if_true]
        exact ⟨by simp [dbAnswer, canon_items_full hsd hf], h⟩
      · simp only [hf, Bool.false_eq_true, if_false]
        refine ⟨?_, coh_loadColl h o c⟩
        simp only [dbAnswer]
        rw [union_coll_eq hsd, canon_canon]

/-! ### concrete loaders -/

theorem coh_foldl {db : Db} (ls : List Load) : ∀ {s : Sess}, Coherent db s → Coherent db (ls.foldl (applyLoad db) s) := by
  induction ls with
  | nil => intro s h; exact h
  | cons l rest ih => intro s h; exact ih (coh_applyLoad h l)

theorem coh_applyLoader {db : Db} (sch : Schema) {s : Sess} (h : Coherent db s) (l : Loader) : Coherent db (applyLoader db sch s l) :=
  coh_foldl _ h

/-- a column value, once loaded, stays loaded -/
theorem loadVal_mono (db : Db) (s : Sess) (o' : Oid) (a' : Attr) (o : Oid) (a : Attr) (h : s.vals o a ≠ none) :
    (loadVal db s o' a').vals o a ≠ none := by
  unfold loadVal
  split
  · exact h
  · simp only [setVal]
    split
    · simp
    · exact h

theorem loadVals_mono (db : Db) (t : List (Oid × Attr)) : ∀ (s : Sess) (o : Oid) (a : Attr), s.vals o a ≠ none → (loadVals db s t).vals o a ≠ none := by
  induction t with
  | nil => intro s o a h; exact h
  | cons x rest ih =>
    intro s o a h
    obtain ⟨o', a'⟩ := x
    exact ih _ o a (loadVal_mono db s o' a' o a h)

theorem loadVals_sets (db : Db) (t : List (Oid × Attr)) : ∀ (s : Sess) (o : Oid) (a : Attr), (o, a) ∈ t → (loadVals db s t).vals o a ≠ none := by
  induction t with
  | nil => intro s o a h; cases h
  | cons x rest ih =>
    intro s o a h
    obtain ⟨o', a'⟩ := x
    rcases List.mem_cons.mp h with heq | h'
    · simp only [Prod.mk.injEq] at heq
      obtain ⟨rfl, rfl⟩ := heq
      simp only [loadVals]
      apply loadVals_mono
      unfold loadVal
      cases hv : s.vals o a with
      | some v => simp [hv]
      | none => simp [setVal]
    · exact ih _ o a h'

theorem vals_mono_load (db : Db) (s : Sess) (l : Load) (o : Oid) (a : Attr) (h : s.vals o a ≠ none) : (applyLoad db s l).vals o a ≠ none := by
  cases l with
  | vals t => exact loadVals_mono db t s o a h
  | items o' c is => simpa [applyLoad, addItems, setSet] using h
  | coll o' c => simpa [applyLoad, loadColl, setSet] using h
  | count o' c => simpa [applyLoad, setCount, setSet] using h
  | absent o' c i =>
    simp only [applyLoad, addAbsent]
    split
    · exact h
    · simpa [setSet] using h

theorem vals_mono_foldl (db : Db) (ls : List Load) : ∀ (s : Sess) (o : Oid) (a : Attr), s.vals o a ≠ none → (ls.foldl (applyLoad db) s).vals o a ≠ none := by
  induction ls with
  | nil => intro s o a h; exact h
  | cons l rest ih => intro s o a h; exact ih _ o a (vals_mono_load db s l o a h)

theorem vals_set_foldl (db : Db) (ls : List Load) (t : List (Oid × Attr)) (o : Oid) (a : Attr) (hm : Load.vals t ∈ ls) (hin : (o, a) ∈ t) :
    ∀ s : Sess, (ls.foldl (applyLoad db) s).vals o a ≠ none := by
  induction ls with
  | nil => cases hm
  | cons l rest ih =>
    intro s
    rcases List.mem_cons.mp hm with heq | h'
    · subst heq
      exact vals_mono_foldl db rest _ o a (loadVals_sets db t s o a hin)
    · exact ih h' _

/-- a collection is fully loaded and its count is known -/
def FullLoaded (s : Sess) (w : Oid) (c : Attr) : Prop := ∃ sd, s.sets w c = some sd ∧ sd.full = true ∧ sd.count ≠ none

theorem full_of_setSet_other (s : Sess) (o' : Oid) (c' : Attr) (sd' : SetData) (w : Oid) (c : Attr) (hne : ¬ (w = o' ∧ c = c'))
    (h : FullLoaded s w c) : FullLoaded (setSet s o' c' sd') w c := by
  obtain ⟨sd, h1, h2, h3⟩ := h
  exact ⟨sd, by simp [setSet, hne, h1], h2, h3⟩

theorem full_of_setSet_self (s : Sess) (w : Oid) (c : Attr) (sd' : SetData) (hf : sd'.full = true) (hc : sd'.count ≠ none) :
    FullLoaded (setSet s w c sd') w c := ⟨sd', by simp [setSet], hf, hc⟩

theorem full_mono_load (db : Db) (s : Sess) (l : Load) (w : Oid) (c : Attr) (h : FullLoaded s w c) : FullLoaded (applyLoad db s l) w c := by
  obtain ⟨sd, h1, h2, h3⟩ := h
  cases l with
  | vals t =>
    have : ∀ (t : List (Oid × Attr)) (s : Sess), (loadVals db s t).sets = s.sets := by
      intro t
      induction t with
      | nil => intro s; rfl
      | cons x rest ih =>
        intro s
        obtain ⟨o', a'⟩ := x
        simp only [loadVals]
        rw [ih]
        unfold loadVal
        split <;> rfl
    exact ⟨sd, by simp [applyLoad, this, h1], h2, h3⟩
  | items o' c' is =>
    by_cases he : w = o' ∧ c = c'
    · obtain ⟨rfl, rfl⟩ := he
      exact full_of_setSet_self _ _ _ _ (by simp [getSet, h1, h2]) (by simp [getSet, h1, h3])
    · exact full_of_setSet_other s o' c' _ w c he ⟨sd, h1, h2, h3⟩
  | coll o' c' =>
    by_cases he : w = o' ∧ c = c'
    · obtain ⟨rfl, rfl⟩ := he
      exact full_of_setSet_self _ _ _ _ rfl (by simp)
    · exact full_of_setSet_other s o' c' _ w c he ⟨sd, h1, h2, h3⟩
  | count o' c' =>
    by_cases he : w = o' ∧ c = c'
    · obtain ⟨rfl, rfl⟩ := he
      exact full_of_setSet_self _ _ _ _ (by simp [getSet, h1, h2]) (by simp)
    · exact full_of_setSet_other s o' c' _ w c he ⟨sd, h1, h2, h3⟩
  | absent o' c' i =>
    simp only [applyLoad, addAbsent]
    split
    · exact ⟨sd, h1, h2, h3⟩
    · by_cases he : w = o' ∧ c = c'
      · obtain ⟨rfl, rfl⟩ := he
        exact full_of_setSet_self _ _ _ _ (by simp [getSet, h1, h2]) (by simp [getSet, h1, h3])
      · exact full_of_setSet_other s o' c' _ w c he ⟨sd, h1, h2, h3⟩

theorem full_mono_foldl (db : Db) (ls : List Load) : ∀ (s : Sess) (w : Oid) (c : Attr), FullLoaded s w c → FullLoaded (ls.foldl (applyLoad db) s) w c := by
  induction ls with
  | nil => intro s w c h; exact h
  | cons l rest ih => intro s w c h; exact ih _ w c (full_mono_load db s l w c h)

theorem full_set_foldl (db : Db) (ls : List Load) (w : Oid) (c : Attr) (hm : Load.coll w c ∈ ls) : ∀ s : Sess, FullLoaded (ls.foldl (applyLoad db) s) w c := by
  induction ls with
  | nil => cases hm
  | cons l rest ih =>
    intro s
    rcases List.mem_cons.mp hm with heq | h'
    · subst heq
      exact full_mono_foldl db rest _ w c (full_of_setSet_self _ _ _ _ rfl (by simp))
    · exact ih h' _

end PonyVerif.Model.Loading
