/-
  Structural equality of SQL ASTs with its soundness proof, and the CHECKER of engine Q: the AST the real translator emitted is
  accepted iff it is the AST the verified model produces for an expression of the fragment (core Lean only: linked into the driver).
-/
import PonyVerif.Model.Translate
namespace PonyVerif.Model.Q
mutual
def Sql.beq : Sql → Sql → Bool
  | .column a, .column b => a == b
  | .value a, .value b => a == b
  | .param a, .param b => a == b
  | .cmp o a b, .cmp o' a' b' => o == o' && Sql.beq a a' && Sql.beq b b'
  | .ar o a b, .ar o' a' b' => o == o' && Sql.beq a a' && Sql.beq b b'
  | .neg a, .neg b => Sql.beq a b
  | .abs a, .abs b => Sql.beq a b
  | .length a, .length b => Sql.beq a b
  | .toInt a, .toInt b => Sql.beq a b
  | .concat a b, .concat a' b' => Sql.beq a a' && Sql.beq b b'
  | .isNull a, .isNull b => Sql.beq a b
  | .isNotNull a, .isNotNull b => Sql.beq a b
  | .coalesce a b, .coalesce a' b' => Sql.beq a a' && Sql.beq b b'
  | .not a, .not b => Sql.beq a b
  | .and a, .and b => SqlList.beq a b
  | .or a, .or b => SqlList.beq a b
  | .inList n a l, .inList n' a' l' => n == n' && Sql.beq a a' && SqlList.beq l l'
  | .like n a p e, .like n' a' p' e' => n == n' && Sql.beq a a' && p == p' && e == e'
  | .case c t e, .case c' t' e' => Sql.beq c c' && Sql.beq t t' && Sql.beq e e'
  | _, _ => false
def SqlList.beq : SqlList → SqlList → Bool
  | .nil, .nil => true
  | .cons h t, .cons h' t' => Sql.beq h h' && SqlList.beq t t'
  | _, _ => false
end

mutual
theorem Sql.beq_eq : ∀ (a b : Sql), Sql.beq a b = true → a = b
  | .column a, b => by cases b <;> simp_all [Sql.beq]
  | .value a, b => by cases b <;> simp_all [Sql.beq]
  | .param a, b => by cases b <;> simp_all [Sql.beq]
  | .cmp o x y, b => by
      cases b <;> simp_all [Sql.beq]
      rename_i o' x' y'; intro _ h2 h3; exact ⟨Sql.beq_eq x x' h2, Sql.beq_eq y y' h3⟩
  | .ar o x y, b => by
      cases b <;> simp_all [Sql.beq]
      rename_i o' x' y'; intro _ h2 h3; exact ⟨Sql.beq_eq x x' h2, Sql.beq_eq y y' h3⟩
  | .neg x, b => by cases b <;> simp_all [Sql.beq]; exact Sql.beq_eq x _
  | .abs x, b => by cases b <;> simp_all [Sql.beq]; exact Sql.beq_eq x _
  | .length x, b => by cases b <;> simp_all [Sql.beq]; exact Sql.beq_eq x _
  | .toInt x, b => by cases b <;> simp_all [Sql.beq]; exact Sql.beq_eq x _
  | .concat x y, b => by
      cases b <;> simp_all [Sql.beq]
      rename_i x' y'; intro h2 h3; exact ⟨Sql.beq_eq x x' h2, Sql.beq_eq y y' h3⟩
  | .isNull x, b => by cases b <;> simp_all [Sql.beq]; exact Sql.beq_eq x _
  | .isNotNull x, b => by cases b <;> simp_all [Sql.beq]; exact Sql.beq_eq x _
  | .coalesce x y, b => by
      cases b <;> simp_all [Sql.beq]
      rename_i x' y'; intro h2 h3; exact ⟨Sql.beq_eq x x' h2, Sql.beq_eq y y' h3⟩
  | .not x, b => by cases b <;> simp_all [Sql.beq]; exact Sql.beq_eq x _
  | .and l, b => by cases b <;> simp_all [Sql.beq]; exact SqlList.beq_eq l _
  | .or l, b => by cases b <;> simp_all [Sql.beq]; exact SqlList.beq_eq l _
  | .inList n x l, b => by
      cases b <;> simp_all [Sql.beq]
      rename_i n' x' l'; intro _ h2 h3; exact ⟨Sql.beq_eq x x' h2, SqlList.beq_eq l l' h3⟩
  | .like n x p e, b => by
      cases b <;> simp_all [Sql.beq]
      rename_i n' x' p' e'; intro _ h2 _ _; exact Sql.beq_eq x x' h2
  | .case c t e, b => by
      cases b <;> simp_all [Sql.beq]
      rename_i c' t' e'; intro h1 h2 h3; exact ⟨Sql.beq_eq c c' h1, Sql.beq_eq t t' h2, Sql.beq_eq e e' h3⟩
theorem SqlList.beq_eq : ∀ (a b : SqlList), SqlList.beq a b = true → a = b
  | .nil, b => by cases b <;> simp_all [SqlList.beq]
  | .cons h t, b => by
      cases b <;> simp_all [SqlList.beq]
      rename_i h' t'; intro h1 h2; exact ⟨Sql.beq_eq h h' h1, SqlList.beq_eq t t' h2⟩
end

/-- CHECKER: `real` — the WHERE conditions `query._translator.conditions` of the real translator, decoded from JSON — is accepted for the
    expression `e` when `e` is in the fragment and the verified model emits exactly these conditions -/
def checkConditions (sch : Schema) (d : Dialect) (e : Expr) (real : SqlList) : Bool :=
  frag sch d e && (match conditions sch d e with
    | .ok cs => SqlList.beq cs real
    | .error _ => false)

/-- CHECKER for the column of a projection -/
def checkProjection (sch : Schema) (d : Dialect) (e : Expr) (real : Sql) : Bool :=
  frag sch d e && valueSorted e && (match projection sch d e with
    | .ok s => Sql.beq s real
    | .error _ => false)

end PonyVerif.Model.Q
