/-
  C05 — lemmas about the memo protocol (`Model/Memo.lean`): table operations, the invariant "every entry is the cold
  value of some input stored under that input's store key", and the result-cache simulation.
-/
import PonyVerif.Model.Memo
namespace PonyVerif.Model.Memo

variable {I K V : Type} [DecidableEq K]

theorem tget_mem {k : K} {v : V} {t : Table K V} (h : tget k t = some v) : (k, v) ∈ t := by
  induction t with
  | nil => simp [tget] at h
  | cons kv rest ih =>
    obtain ⟨k', v'⟩ := kv
    by_cases hk : k' = k
    · simp only [tget, hk, if_true, Option.some.injEq] at h
      subst h; subst hk; exact List.mem_cons_self
    · simp only [tget, hk, if_false] at h
      exact List.mem_cons_of_mem _ (ih h)

theorem tdel_subset {k : K} {t : Table K V} {kv : K × V} (h : kv ∈ tdel k t) : kv ∈ t := by
  induction t with
  | nil => simp [tdel] at h
  | cons a rest ih =>
    obtain ⟨k', v'⟩ := a
    by_cases hk : k' = k
    · simp only [tdel, hk, if_true] at h
      exact List.mem_cons_of_mem _ (ih h)
    · simp only [tdel, hk, if_false] at h
      rcases List.mem_cons.mp h with rfl | h'
      · exact List.mem_cons_self
      · exact List.mem_cons_of_mem _ (ih h')

theorem tget_tdel_self (k : K) (t : Table K V) : tget k (tdel k t) = none := by
  induction t with
  | nil => rfl
  | cons a rest ih =>
    obtain ⟨k', v'⟩ := a
    by_cases hk : k' = k
    · simp [tdel, hk, ih]
    · simp [tdel, tget, hk, ih]

theorem tget_tset_self (k : K) (v : V) (t : Table K V) : tget k (tset k v t) = some v := by
  simp [tset, tget]

/-- every entry is the cold value of an (admissible) input whose store key it sits under -/
def InvOn (P : I → Prop) (m : Memo I K V) (t : Table K V) : Prop :=
  ∀ kv ∈ t, ∃ j, P j ∧ m.skey j = kv.1 ∧ m.cacheable j = true ∧ kv.2 = m.compute j

/-- transparency of a memo on the inputs satisfying `P`: a stored entry that a lookup finds and accepts is the value the
    lookup's own input computes -/
def TransparentOn (P : I → Prop) (m : Memo I K V) : Prop :=
  ∀ i j, P i → P j → m.key i = m.skey j → m.cacheable j = true → m.accept i (m.compute j) = true → m.compute j = m.compute i

/-- transparency for all inputs -/
def Transparent (m : Memo I K V) : Prop := TransparentOn (fun _ => True) m

/-- all calls of a history are made with admissible inputs -/
def CallsOn (P : I → Prop) (ops : List (Op I K)) : Prop :=
  ∀ op ∈ ops, match op with | .call i => P i | _ => True

omit [DecidableEq K] in
theorem inv_nil (P : I → Prop) (m : Memo I K V) : InvOn P m [] := by intro kv h; cases h

theorem inv_tdel (P : I → Prop) (m : Memo I K V) (k : K) (t : Table K V) (h : InvOn P m t) : InvOn P m (tdel k t) :=
  fun kv hkv => h kv (tdel_subset hkv)

theorem inv_store (P : I → Prop) (m : Memo I K V) (t : Table K V) (i : I) (hi : P i) (h : InvOn P m t) :
    InvOn P m (store m t i (m.compute i)) := by
  unfold store
  cases hc : m.cacheable i with
  | false => simpa using h
  | true =>
    simp only [if_true]
    intro kv hkv
    rcases List.mem_cons.mp hkv with rfl | h'
    · exact ⟨i, hi, rfl, hc, rfl⟩
    · exact h kv (tdel_subset h')

theorem call_correct (P : I → Prop) (m : Memo I K V) (ht : TransparentOn P m) (t : Table K V) (h : InvOn P m t) (i : I) (hi : P i) :
    (call m t i).2.1 = m.compute i ∧ InvOn P m (call m t i).1 := by
  unfold call
  cases hg : tget (m.key i) t with
  | none => exact ⟨rfl, inv_store P m t i hi h⟩
  | some v =>
    simp only
    cases ha : m.accept i v with
    | true =>
      simp only [if_true]
      obtain ⟨j, hPj, hj1, hj2, hj3⟩ := h _ (tget_mem hg)
      simp only at hj1 hj3
      subst hj3
      exact ⟨ht i j hi hPj hj1.symm hj2 ha, h⟩
    | false =>
      simp only [Bool.false_eq_true, if_false]
      refine ⟨trivial, inv_store P m _ i hi ?_⟩
      split
      · exact inv_tdel P m _ t h
      · exact h

theorem run_correct (P : I → Prop) (m : Memo I K V) (ht : TransparentOn P m) (ops : List (Op I K)) :
    ∀ t, InvOn P m t → CallsOn P ops → run m t ops = ops.map (cold m) := by
  induction ops with
  | nil => intro t _ _; rfl
  | cons op rest ih =>
    intro t h hc
    have hrest : CallsOn P rest := fun o ho => hc o (List.mem_cons_of_mem _ ho)
    cases op with
    | call i =>
      have hi : P i := hc (.call i) List.mem_cons_self
      obtain ⟨h1, h2⟩ := call_correct P m ht t h i hi
      simp only [run, step, List.map_cons, cold, h1]
      rw [ih _ h2 hrest]
    | clear =>
      simp only [run, step, List.map_cons, cold]
      rw [ih _ (inv_nil P m) hrest]
    | pop k =>
      simp only [run, step, List.map_cons, cold]
      rw [ih _ (inv_tdel P m k t h) hrest]

/-- field keys: agreeing on the key fields means agreeing on every field the key contains -/
theorem keyOf_eq_of_subset (fs ds : List Field) (hsub : ∀ d ∈ ds, d ∈ fs) (e e' : Env)
    (h : keyOf fs e = keyOf fs e') : keyOf ds e = keyOf ds e' := by
  have hf : ∀ f ∈ fs, e f = e' f := by
    intro f hf
    unfold keyOf at h
    exact List.map_inj_left.mp h f hf
  unfold keyOf
  exact List.map_inj_left.mpr (fun d hd => hf d (hsub d hd))

/-! ### the result cache: warm and cold runs stay in lock-step -/
namespace ResultCache

/-- everything of a session except the result cache -/
def core (s : Sess) : DbState × DbState × List Change × Bool × Nat := (s.db, s.committed, s.pending, s.modified, s.noflush)

/-- every cached result is the result of its query on the CURRENT database state of the transaction -/
def RInv (s : Sess) : Prop := ∀ kv ∈ s.results, kv.2 = eval kv.1 s.db

theorem core_eq {s s' : Sess} (h : core s = core s') :
    s.db = s'.db ∧ s.committed = s'.committed ∧ s.pending = s'.pending ∧ s.modified = s'.modified ∧ s.noflush = s'.noflush := by
  simpa [core] using h

theorem flush_core {s s' : Sess} (h : core s = core s') : core (flush s) = core (flush s') := by
  obtain ⟨h1, h2, h3, h4, h5⟩ := core_eq h
  unfold flush
  by_cases hn : s.noflush = 0
  · have hn' : s'.noflush = 0 := h5 ▸ hn
    cases hm : s.modified with
    | false => have hm' : s'.modified = false := h4 ▸ hm; simp [hn, hn', hm', h]
    | true => have hm' : s'.modified = true := h4 ▸ hm; simp [hn, hn', hm', core, h1, h2, h3]
  · have hn' : s'.noflush ≠ 0 := h5 ▸ hn
    simp [hn, hn', h]

theorem flush_rinv {s : Sess} (h : RInv s) : RInv (flush s) := by
  unfold flush
  split
  · exact h
  · split
    · exact h
    · intro kv hkv; cases hkv

/-- one step: the warm and the cold session agree on everything but the result cache, the warm cache stays valid, and the
    two answers coincide — provided `Entity.flush` clears the cache or the step is not an `obj.flush()` -/
theorem step_sim (cfg : Cfg) (sw sc : Sess) (op : Op) (hc : core sw = core sc) (hi : RInv sw)
    (hop : cfg.objFlushClears = true ∨ op.isObjFlush = false) :
    core (step cfg true sw op).1 = core (step cfg false sc op).1 ∧ RInv (step cfg true sw op).1 ∧
      (step cfg true sw op).2.result = (step cfg false sc op).2.result := by
  obtain ⟨h1, h2, h3, h4, h5⟩ := core_eq hc
  cases op with
  | modify c => exact ⟨by simp [step, core, h1, h2, h3, h5], hi, rfl⟩
  | query k cacheable =>
    have hf := flush_core hc
    have hfi := flush_rinv hi
    obtain ⟨g1, g2, g3, g4, g5⟩ := core_eq hf
    simp only [step, if_true, Bool.false_eq_true, if_false]
    cases hg : tget k (flush sw).results with
    | some r =>
      have hr := hfi _ (tget_mem hg)
      simp only at hr
      refine ⟨?_, hfi, ?_⟩
      · simp [core, g1, g2, g3, g4, g5]
      · simp [Out.result, hr, g1]
    | none =>
      refine ⟨?_, ?_, ?_⟩
      · simp [core, g1, g2, g3, g4, g5]
      · intro kv hkv
        simp only at hkv
        split at hkv
        · rcases List.mem_cons.mp hkv with rfl | h'
          · rfl
          · exact hfi kv (tdel_subset h')
        · exact hfi kv hkv
      · simp [Out.result, g1]
  | flush => exact ⟨flush_core hc, flush_rinv hi, rfl⟩
  | commit =>
    have hf := flush_core hc
    obtain ⟨g1, g2, g3, g4, g5⟩ := core_eq hf
    refine ⟨by simp [step, core, g1, g3, g4, g5], ?_, rfl⟩
    intro kv hkv; simp [step] at hkv
  | rollback =>
    refine ⟨by simp [step, core, h2, Sess.init], ?_, rfl⟩
    intro kv hkv; simp [step, Sess.init] at hkv
  | bulkDelete c =>
    have hf := flush_core hc
    obtain ⟨g1, g2, g3, g4, g5⟩ := core_eq hf
    refine ⟨by simp [step, core, g1, g2, g3, g4, g5], ?_, rfl⟩
    intro kv hkv; simp [step] at hkv
  | objFlush c =>
    have hcl : cfg.objFlushClears = true := by
      rcases hop with h | h
      · exact h
      · simp [Op.isObjFlush] at h
    simp only [step, h3]
    by_cases hm : c ∈ sc.pending
    · simp only [hm, if_true, hcl]
      refine ⟨by simp [core, h1, h2, h4, h5], ?_, trivial⟩
      intro kv hkv; cases hkv
    · simp only [hm, if_false]
      exact ⟨hc, hi, trivial⟩
  | enterHook => exact ⟨by simp [step, core, h1, h2, h3, h4, h5], hi, rfl⟩
  | exitHook => exact ⟨by simp [step, core, h1, h2, h3, h4, h5], hi, rfl⟩

theorem run_sim (cfg : Cfg) (hist : List Op) (hops : cfg.objFlushClears = true ∨ ∀ op ∈ hist, op.isObjFlush = false) :
    ∀ sw sc, core sw = core sc → RInv sw →
      (run cfg true sw hist).map Out.result = (run cfg false sc hist).map Out.result := by
  induction hist with
  | nil => intro _ _ _ _; rfl
  | cons op rest ih =>
    intro sw sc hc hi
    have hop : cfg.objFlushClears = true ∨ op.isObjFlush = false := by
      rcases hops with h | h
      · exact Or.inl h
      · exact Or.inr (h op List.mem_cons_self)
    have hrest : cfg.objFlushClears = true ∨ ∀ o ∈ rest, o.isObjFlush = false := by
      rcases hops with h | h
      · exact Or.inl h
      · exact Or.inr (fun o ho => h o (List.mem_cons_of_mem _ ho))
    obtain ⟨s1, s2, s3⟩ := step_sim cfg sw sc op hc hi hop
    simp only [run, List.map_cons, s3]
    rw [ih hrest _ _ s1 s2]

end ResultCache

end PonyVerif.Model.Memo
