/-
  C05 — lemmas about the memo protocol (`Model/Memo.lean`): table operations, the invariant "every entry is the cold
  value of some input stored under that input's store key", and the result-cache simulation.
-/
import PonyVerif.Model.Memo
namespace PonyVerif.Model.Memo

variable {I K V : Type} [DecidableEq K]

theorem tget_mem {k : K} {v : V} {t : Table K V} (h : tget k t = some v) : (k, v) ∈ t := by
  induction t with
  | nil => simp [tget] at h
  | cons kv rest ih =>
    obtain ⟨k', v'⟩ := kv
    by_cases hk : k' = k
    · simp only [tget, hk, if_true, Option.some.injEq] at h
      subst h; subst hk; exact List.mem_cons_self
    · simp only [tget, hk, if_false] at h
      exact List.mem_cons_of_mem _ (ih h)

theorem tdel_subset {k : K} {t : Table K V} {kv : K × V} (h : kv ∈ tdel k t) : kv ∈ t := by
  induction t with
  | nil => simp [tdel] at h
  | cons a rest ih =>
    obtain ⟨k', v'⟩ := a
    by_cases hk : k' = k
    · simp only [tdel, hk, if_true] at h
      exact List.mem_cons_of_mem _ (ih h)
    · simp only [tdel, hk, if_false] at h
      rcases List.mem_cons.mp h with rfl | h'
      · exact List.mem_cons_self
      · exact List.mem_cons_of_mem _ (ih h')

theorem tget_tdel_self (k : K) (t : Table K V) : tget k (tdel k t) = none := by
  induction t with
  | nil => rfl
  | cons a rest ih =>
    obtain ⟨k', v'⟩ := a
    by_cases hk : k' = k
    · simp [tdel, hk, ih]
    · simp [tdel, tget, hk, ih]

theorem tget_tset_self (k : K) (v : V) (t : Table K V) : tget k (tset k v t) = some v := by
  simp [tset, tget]

/-- every entry is the cold value of an input whose store key it sits under -/
def Inv (m : Memo I K V) (t : Table K V) : Prop :=
  ∀ kv ∈ t, ∃ j, m.skey j = kv.1 ∧ m.cacheable j = true ∧ kv.2 = m.compute j

/-- transparency of a memo: a stored entry that a lookup finds and accepts is the value the lookup's own input computes -/
def Transparent (m : Memo I K V) : Prop :=
  ∀ i j, m.key i = m.skey j → m.cacheable j = true → m.accept i (m.compute j) = true → m.compute j = m.compute i

omit [DecidableEq K] in
theorem inv_nil (m : Memo I K V) : Inv m [] := by intro kv h; cases h

theorem inv_tdel (m : Memo I K V) (k : K) (t : Table K V) (h : Inv m t) : Inv m (tdel k t) :=
  fun kv hkv => h kv (tdel_subset hkv)

theorem inv_store (m : Memo I K V) (t : Table K V) (i : I) (h : Inv m t) : Inv m (store m t i (m.compute i)) := by
  unfold store
  cases hc : m.cacheable i with
  | false => simpa using h
  | true =>
    simp only [if_true]
    intro kv hkv
    rcases List.mem_cons.mp hkv with rfl | h'
    · exact ⟨i, rfl, hc, rfl⟩
    · exact h kv (tdel_subset h')

theorem call_correct (m : Memo I K V) (ht : Transparent m) (t : Table K V) (h : Inv m t) (i : I) :
    (call m t i).2.1 = m.compute i ∧ Inv m (call m t i).1 := by
  unfold call
  cases hg : tget (m.key i) t with
  | none => exact ⟨rfl, inv_store m t i h⟩
  | some v =>
    simp only
    cases ha : m.accept i v with
    | true =>
      simp only [if_true]
      obtain ⟨j, hj1, hj2, hj3⟩ := h _ (tget_mem hg)
      simp only at hj1 hj3
      subst hj3
      exact ⟨ht i j hj1.symm hj2 ha, h⟩
    | false =>
      simp only [Bool.false_eq_true, if_false]
      refine ⟨trivial, inv_store m _ i ?_⟩
      split
      · exact inv_tdel m _ t h
      · exact h

theorem run_correct (m : Memo I K V) (ht : Transparent m) (ops : List (Op I K)) :
    ∀ t, Inv m t → run m t ops = ops.map (cold m) := by
  induction ops with
  | nil => intro t _; rfl
  | cons op rest ih =>
    intro t h
    cases op with
    | call i =>
      obtain ⟨h1, h2⟩ := call_correct m ht t h i
      simp only [run, step, List.map_cons, cold, h1]
      rw [ih _ h2]
    | clear =>
      simp only [run, step, List.map_cons, cold]
      rw [ih _ (inv_nil m)]
    | pop k =>
      simp only [run, step, List.map_cons, cold]
      rw [ih _ (inv_tdel m k t h)]

/-- field keys: agreeing on the key fields means agreeing on every field the key contains -/
theorem keyOf_eq_of_subset (fs ds : List Field) (hsub : ∀ d ∈ ds, d ∈ fs) (e e' : Env)
    (h : keyOf fs e = keyOf fs e') : keyOf ds e = keyOf ds e' := by
  have hf : ∀ f ∈ fs, e f = e' f := by
    intro f hf
    unfold keyOf at h
    exact List.map_inj_left.mp h f hf
  unfold keyOf
  exact List.map_inj_left.mpr (fun d hd => hf d (hsub d hd))

end PonyVerif.Model.Memo
