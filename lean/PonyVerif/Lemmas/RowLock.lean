import PonyVerif.Model.RowLock
/-
  C35 helper lemmas: the invariant of Model/RowLock.lean and its preservation by every step of every session.
-/
namespace PonyVerif.Lemmas.RowLock
open PonyVerif.Model.RowLock

/-- what holds of one session relative to the committed rows -/
structure SessOk (db : Obj → Val) (ss : Sess) : Prop where
  /-- outside a transaction nothing is pending, locked or held stable -/
  clean : ss.inTxn = false → ∀ o, ss.pend o = none ∧ ss.stable o = none ∧ ss.forUpd o = false ∧ ss.basis o = none
  act : ss.inTxn = true → ss.status = .active
  /-- a value read under the lock is still the committed value -/
  stab : ∀ o v, ss.stable o = some v → db o = v
  /-- what an immediate session knows of an object, and what any session knows of an object it locked, was read under
      the lock (unless it is the session's own write) -/
  link : ∀ o r, ((ss.immediate = true ∧ ss.renewed = false) ∨ ss.forUpd o = true) → ss.status = .active →
    ss.seen o = some r → ss.pend o = none → ss.stable o = some r
  /-- a pending write is based on the value that is still the committed one - for sessions whose UPDATEs carry the
      optimistic check, and for the others as long as they have not committed in their middle -/
  bas : (ss.checks = true ∨ ss.renewed = false) → ∀ o r, ss.pend o ≠ none → ss.basis o = some r → db o = r
  /-- `optimistic=False` makes the session immediate (DBSessionContextManager.__init__) -/
  wf : ss.checks = false → ss.immediate = true
  /-- only loaded objects are saved -/
  pseen : ∀ o, ss.pend o ≠ none → ss.seen o ≠ none

structure Inv (n : Nat) (σ : St) : Prop where
  sok : ∀ s, SessOk σ.db (σ.sess s)
  bound : ∀ s, (σ.sess s).inTxn = true → s < n
  mutex : ∀ s t, (σ.sess s).inTxn = true → (σ.sess t).inTxn = true → s = t
  held : ∀ s, (σ.sess s).inTxn = true → σ.lock (σ.dom s) = some s
  holder : ∀ d s, σ.lock d = some s → (σ.sess s).inTxn = true ∧ σ.dom s = d
  lost : σ.unguarded = false → σ.lost = false
  broken : σ.broken = false
  ung : ∀ s, (σ.sess s).checks = false → (σ.sess s).renewed = true → σ.unguarded = true

theorem writerOther_false {n : Nat} {σ : St} {s : Sid} (h : writerOther σ s n = false) :
    ∀ t, t < n → t ≠ s → (σ.sess t).inTxn = false := by
  intro t ht hts
  simp only [writerOther, List.any_eq_false, List.mem_range] at h
  have := h t ht
  simpa [hts] using this

/-- (A) a change of the session's bookkeeping that keeps `inTxn` -/
theorem inv_setSess {n : Nat} {σ : St} {s : Sid} {ss' : Sess} (hI : Inv n σ)
    (hin : ss'.inTxn = (σ.sess s).inTxn) (hcr : ss'.checks = (σ.sess s).checks ∧ ss'.renewed = (σ.sess s).renewed)
    (hok : SessOk σ.db ss') : Inv n (setSess σ s ss') := by
  have key : ∀ t, ((setSess σ s ss').sess t).inTxn = (σ.sess t).inTxn := by
    intro t; by_cases h : t = s <;> simp [setSess, upd, h, hin]
  have hung : ∀ t, ((setSess σ s ss').sess t).checks = false → ((setSess σ s ss').sess t).renewed = true →
      (setSess σ s ss').unguarded = true := by
    intro t h1 h2
    by_cases h : t = s
    · subst h; simp only [setSess, upd_same] at h1 h2; rw [hcr.1] at h1; rw [hcr.2] at h2; exact hI.ung t h1 h2
    · simp only [setSess, upd, h, if_false] at h1 h2; exact hI.ung t h1 h2
  refine ⟨?_, ?_, ?_, ?_, ?_, hI.lost, hI.broken, hung⟩
  · intro t
    by_cases h : t = s
    · subst h; simpa [setSess] using hok
    · simpa [setSess, upd, h] using hI.sok t
  · intro t ht; rw [key] at ht; exact hI.bound t ht
  · intro t u ht hu; rw [key] at ht hu; exact hI.mutex t u ht hu
  · intro t ht; rw [key] at ht; simpa [setSess] using hI.held t ht
  · intro d t hl
    have := hI.holder d t (by simpa [setSess] using hl)
    rw [key]; simpa [setSess] using this

/-- (B) the pre-lock is not part of the invariant -/
theorem inv_pre {n : Nat} {σ : St} (p : Nat → Option Sid) (hI : Inv n σ) : Inv n { σ with pre := p } :=
  ⟨hI.sok, hI.bound, hI.mutex, hI.held, hI.holder, hI.lost, hI.broken, hI.ung⟩

/-- (C) BEGIN IMMEDIATE under the lock -/
theorem inv_begin {n : Nat} {σ : St} {s : Sid} (hI : Inv n σ) (hs : s < n)
    (hnot : (σ.sess s).inTxn = false) (hact : (σ.sess s).status = .active)
    (hw : writerOther σ s n = false) (hl : σ.lock (σ.dom s) = none) :
    Inv n (setSess { σ with lock := upd σ.lock (σ.dom s) (some s) } s { σ.sess s with inTxn := true }) := by
  have hothers := writerOther_false hw
  have hso := hI.sok s
  have hcl := hso.clean hnot
  have hung : ∀ t, ((setSess { σ with lock := upd σ.lock (σ.dom s) (some s) } s { σ.sess s with inTxn := true }).sess t).checks = false →
      ((setSess { σ with lock := upd σ.lock (σ.dom s) (some s) } s { σ.sess s with inTxn := true }).sess t).renewed = true →
      σ.unguarded = true := by
    intro t h1 h2
    by_cases h : t = s
    · subst h; simp only [setSess, upd_same] at h1 h2; exact hI.ung t h1 h2
    · simp only [setSess, upd, h, if_false] at h1 h2; exact hI.ung t h1 h2
  refine ⟨?_, ?_, ?_, ?_, ?_, hI.lost, hI.broken, hung⟩
  · intro t
    by_cases h : t = s
    · subst h
      simp only [setSess, upd_same]
      refine ⟨by simp, by simpa using hact, ?_, ?_, ?_, hso.wf, hso.pseen⟩
      · intro o v hv; simp [(hcl o).2.1] at hv
      · intro o r himm hst hseen hp
        simp only at himm hst hseen hp
        have := hso.link o r himm hact hseen hp
        simp [(hcl o).2.1] at this
      · intro _ o r hp; simp [(hcl o).1] at hp
    · simpa [setSess, upd, h] using hI.sok t
  · intro t ht
    by_cases h : t = s
    · subst h; exact hs
    · exact hI.bound t (by simpa [setSess, upd, h] using ht)
  · intro t u ht hu
    by_cases h1 : t = s <;> by_cases h2 : u = s
    · rw [h1, h2]
    · exfalso
      have hu' : (σ.sess u).inTxn = true := by simpa [setSess, upd, h2] using hu
      have := hothers u (hI.bound u hu') h2; simp [this] at hu'
    · exfalso
      have ht' : (σ.sess t).inTxn = true := by simpa [setSess, upd, h1] using ht
      have := hothers t (hI.bound t ht') h1; simp [this] at ht'
    · exact hI.mutex t u (by simpa [setSess, upd, h1] using ht) (by simpa [setSess, upd, h2] using hu)
  · intro t ht
    by_cases h : t = s
    · subst h; simp [setSess]
    · have ht' : (σ.sess t).inTxn = true := by simpa [setSess, upd, h] using ht
      have hh := hI.held t ht'
      have hd : σ.dom t ≠ σ.dom s := by intro he; rw [he, hl] at hh; cases hh
      simpa [setSess, upd, hd] using hh
  · intro d t hlk
    by_cases hd : d = σ.dom s
    · subst hd
      have : t = s := by simpa [setSess, upd] using hlk.symm
      subst this; simp [setSess]
    · have hlk' : σ.lock d = some t := by simpa [setSess, upd, hd] using hlk
      have := hI.holder d t hlk'
      by_cases h : t = s
      · subst h; simp [hnot] at this
      · simpa [setSess, upd, h] using this

/-- (D) the session ends by rollback / error -/
theorem inv_fail {n : Nat} {σ : St} (s : Sid) (hI : Inv n σ) : Inv n (failSess σ s) := by
  have key : ∀ t, t ≠ s → (failSess σ s).sess t = σ.sess t := by intro t h; simp [failSess, upd, h]
  have hs : ((failSess σ s).sess s).inTxn = false := by simp [failSess]
  have hung : ∀ t, ((failSess σ s).sess t).checks = false → ((failSess σ s).sess t).renewed = true →
      (failSess σ s).unguarded = true := by
    intro t h1 h2
    by_cases h : t = s
    · subst h; simp only [failSess, upd_same] at h1 h2; simpa [failSess] using hI.ung t h1 h2
    · rw [key t h] at h1 h2; simpa [failSess] using hI.ung t h1 h2
  refine ⟨?_, ?_, ?_, ?_, ?_, by simpa [failSess] using hI.lost, by simpa [failSess] using hI.broken, hung⟩
  · intro t
    by_cases h : t = s
    · subst h
      refine ⟨fun _ o => by simp [failSess], fun h => by simp [failSess] at h, fun o v h => by simp [failSess] at h,
              fun o r _ hst => by simp [failSess] at hst, fun _ o r hp => by simp [failSess] at hp, ?_,
              fun o hp => by simp [failSess] at hp⟩
      simpa [failSess] using (hI.sok t).wf
    · rw [key t h]; simpa [failSess] using hI.sok t
  · intro t ht
    by_cases h : t = s
    · subst h; simp [hs] at ht
    · rw [key t h] at ht; exact hI.bound t ht
  · intro t u ht hu
    by_cases h1 : t = s
    · subst h1; simp [hs] at ht
    · by_cases h2 : u = s
      · subst h2; simp [hs] at hu
      · rw [key t h1] at ht; rw [key u h2] at hu; exact hI.mutex t u ht hu
  · intro t ht
    by_cases h : t = s
    · subst h; simp [hs] at ht
    · rw [key t h] at ht
      have hh := hI.held t ht
      by_cases hin : (σ.sess s).inTxn = true
      · exact absurd (hI.mutex t s ht hin) h
      · simpa [failSess, hin] using hh
  · intro d t hlk
    by_cases hin : (σ.sess s).inTxn = true
    · have hheld := hI.held s hin
      by_cases hd : d = σ.dom s
      · subst hd; simp [failSess, hin, upd] at hlk
      · have hlk' : σ.lock d = some t := by simpa [failSess, hin, upd, hd] using hlk
        have := hI.holder d t hlk'
        have hts : t ≠ s := by intro he; subst he; exact hd this.2.symm
        rw [key t hts]; simpa [failSess] using this
    · have hlk' : σ.lock d = some t := by simpa [failSess, hin] using hlk
      have := hI.holder d t hlk'
      have hts : t ≠ s := by intro he; subst he; exact hin this.1
      rw [key t hts]; simpa [failSess] using this

/-- what `ensureTxn` guarantees, by outcome -/
def BeginSpec (n : Nat) (σ : St) (s : Sid) : Begin → Prop
  | .ok σ' => Inv n σ' ∧ σ'.db = σ.db ∧ σ'.sess s = { σ.sess s with inTxn := true } ∧ σ'.dom = σ.dom
  | .blocked σ' => Inv n σ' ∧ σ'.db = σ.db ∧ σ'.sess = σ.sess
  | .busy σ' => Inv n σ' ∧ σ'.db = σ.db

theorem ensureTxn_spec {n : Nat} {σ : St} {s : Sid} (hI : Inv n σ) (hs : s < n) (hact : (σ.sess s).status = .active) :
    BeginSpec n σ s (ensureTxn n σ s) := by
  unfold ensureTxn
  by_cases hin : (σ.sess s).inTxn = true
  · rw [if_pos hin]
    refine ⟨hI, rfl, ?_, rfl⟩
    cases hss : σ.sess s; simp [hss] at hin; simp [hin]
  · have hin' : (σ.sess s).inTxn = false := by simpa using hin
    rw [if_neg hin]
    cases hp : σ.pre (σ.dom s) with
    | some t =>
      show BeginSpec n σ s (if t = s then _ else _)
      by_cases hts : t = s
      · rw [if_pos hts]
        cases hl : σ.lock (σ.dom s) with
        | some u => exact ⟨hI, rfl, rfl⟩
        | none =>
          show BeginSpec n σ s (if _ then _ else _)
          by_cases hw : writerOther σ s n = true
          · rw [if_pos (by simpa [writerOther] using hw)]
            exact ⟨inv_fail s (inv_pre _ hI), by simp [failSess]⟩
          · have hw' : writerOther σ s n = false := by simpa using hw
            have hw'' : writerOther { σ with pre := upd σ.pre (σ.dom s) none } s n = false := by simpa [writerOther] using hw'
            rw [if_neg (by simpa [writerOther] using hw)]
            have := inv_begin (σ := { σ with pre := upd σ.pre (σ.dom s) none }) (inv_pre _ hI) hs hin' hact hw'' hl
            exact ⟨this, by simp [setSess], by simp [setSess], by simp [setSess]⟩
      · rw [if_neg hts]; exact ⟨hI, rfl, rfl⟩
    | none =>
      cases hl : σ.lock (σ.dom s) with
      | some u => exact ⟨inv_pre _ hI, rfl, rfl⟩
      | none =>
        show BeginSpec n σ s (if _ then _ else _)
        by_cases hw : writerOther σ s n = true
        · rw [if_pos hw]
          exact ⟨inv_fail s hI, by simp [failSess]⟩
        · have hw' : writerOther σ s n = false := by simpa using hw
          rw [if_neg hw]
          exact ⟨inv_begin hI hs hin' hact hw' hl, by simp [setSess], by simp [setSess], by simp [setSess]⟩

/-! ### the session-local changes of `step` -/

theorem sessOk_load {db : Obj → Val} {ss : Sess} (o : Obj) (h : SessOk db ss) (hseen : ss.seen o = none)
    (himm : ss.immediate = true → ss.inTxn = true) :
    SessOk db { ss with seen := upd ss.seen o (some (db o)),
                        stable := if ss.inTxn then upd ss.stable o (some (db o)) else ss.stable } := by
  refine ⟨?_, h.act, ?_, ?_, h.bas, h.wf, ?_⟩
  · intro hin o'; simp only at hin; simp only [hin]; exact h.clean hin o'
  · intro o' v hv
    simp only at hv
    split at hv
    · by_cases ho : o' = o
      · subst ho; simp at hv; exact hv
      · rw [upd_other _ _ _ _ ho] at hv; exact h.stab o' v hv
    · exact h.stab o' v hv
  · intro o' r hor hst hs hp
    simp only at hor hst hs hp ⊢
    by_cases ho : o' = o
    · subst ho
      simp at hs
      have hin : ss.inTxn = true := by
        rcases hor with hi | hf
        · exact himm hi.1
        · cases hin : ss.inTxn with
          | true => rfl
          | false => have := (h.clean hin o').2.2.1; simp [this] at hf
      simp [hin, hs]
    · rw [upd_other _ _ _ _ ho] at hs
      have := h.link o' r hor hst hs hp
      split
      · rw [upd_other _ _ _ _ ho]; exact this
      · exact this
  · intro o' hp
    simp only at hp ⊢
    by_cases ho : o' = o
    · subst ho; simp
    · rw [upd_other _ _ _ _ ho]; exact h.pseen o' hp

theorem ownView_eq_db {σ : St} {s : Sid} {o : Obj} (h : SessOk σ.db (σ.sess s)) (hseen : (σ.sess s).seen o = none) :
    ownView σ s o = σ.db o := by
  have : (σ.sess s).pend o = none := by
    by_cases hp : (σ.sess s).pend o = none
    · exact hp
    · exact absurd hseen (h.pseen o hp)
  simp [ownView, this]

theorem sessOk_lockNew {db : Obj → Val} {ss : Sess} (o : Obj) (h : SessOk db ss) (hin : ss.inTxn = true)
    (hseen : ss.seen o = none) :
    SessOk db { ss with seen := upd ss.seen o (some (db o)), forUpd := upd ss.forUpd o true,
                        stable := upd ss.stable o (some (db o)) } := by
  refine ⟨fun hf => by simp [hin] at hf, h.act, ?_, ?_, h.bas, h.wf, ?_⟩
  · intro o' v hv
    simp only at hv
    by_cases ho : o' = o
    · subst ho; simp at hv; exact hv
    · rw [upd_other _ _ _ _ ho] at hv; exact h.stab o' v hv
  · intro o' r hor hst hs hp
    simp only at hor hst hs hp ⊢
    by_cases ho : o' = o
    · subst ho; simp at hs; simp [hs]
    · rw [upd_other _ _ _ _ ho] at hs hor ⊢
      exact h.link o' r hor hst hs hp
  · intro o' hp
    simp only at hp ⊢
    by_cases ho : o' = o
    · subst ho; simp
    · rw [upd_other _ _ _ _ ho]; exact h.pseen o' hp

theorem sessOk_lockSeen {db : Obj → Val} {ss : Sess} (o : Obj) (r : Val) (h : SessOk db ss) (hin : ss.inTxn = true)
    (hseen : ss.seen o = some r) (hsame : ss.pend o = none → r = db o) :
    SessOk db { ss with forUpd := upd ss.forUpd o true,
                        stable := if (ss.pend o).isNone then upd ss.stable o (some ((ss.pend o).getD (db o))) else ss.stable } := by
  refine ⟨fun hf => by simp [hin] at hf, h.act, ?_, ?_, h.bas, h.wf, h.pseen⟩
  · intro o' v hv
    simp only at hv
    split at hv
    · rename_i hpn
      by_cases ho : o' = o
      · subst ho
        have hp : ss.pend o' = none := by simpa using hpn
        simp [hp] at hv; exact hv
      · rw [upd_other _ _ _ _ ho] at hv; exact h.stab o' v hv
    · exact h.stab o' v hv
  · intro o' r' hor hst hs hp
    simp only at hor hst hs hp ⊢
    by_cases ho : o' = o
    · subst ho
      have hrr : r' = r := by rw [hseen] at hs; exact (Option.some.inj hs).symm
      subst hrr
      simp [hp, hsame hp]
    · rw [upd_other _ _ _ _ ho] at hor
      have := h.link o' r' hor hst hs hp
      split
      · rw [upd_other _ _ _ _ ho]; exact this
      · exact this

theorem sessOk_update {db : Obj → Val} {ss : Sess} (o : Obj) (r v : Val) (h : SessOk db ss) (hin : ss.inTxn = true)
    (hseen : ss.seen o = some r)
    (hcheck : (ss.checks && !ss.forUpd o && decide ((ss.pend o).getD (db o) ≠ r)) = false) :
    SessOk db { ss with pend := upd ss.pend o (some v), seen := upd ss.seen o (some v),
                        basis := if (ss.pend o).isNone then upd ss.basis o (some r) else ss.basis } := by
  have hact := h.act hin
  refine ⟨fun hf => by simp [hin] at hf, h.act, h.stab, ?_, ?_, h.wf, ?_⟩
  · intro o' r' hor hst hs hp
    simp only at hor hst hs hp ⊢
    by_cases ho : o' = o
    · subst ho; simp at hp
    · rw [upd_other _ _ _ _ ho] at hs hp
      exact h.link o' r' hor hst hs hp
  · intro hg o' r' hp hb
    simp only at hg hp hb
    by_cases ho : o' = o
    · subst ho
      cases hpo : ss.pend o' with
      | some w =>
        simp [hpo] at hb
        exact h.bas hg o' r' (by simp [hpo]) hb
      | none =>
        simp [hpo] at hb hcheck
        subst hb
        -- first UPDATE of the object: why is `r` still the committed value?
        by_cases hfu : ss.forUpd o' = true
        · exact h.stab o' r (h.link o' r (Or.inr hfu) hact hseen hpo)
        · by_cases hch : ss.checks = true
          · have := hcheck hch (by simpa using hfu)
            exact this
          · have himm := h.wf (by simpa using hch)
            have hren : ss.renewed = false := by
              rcases hg with hc | hr
              · exact absurd hc hch
              · exact hr
            exact h.stab o' r (h.link o' r (Or.inl ⟨himm, hren⟩) hact hseen hpo)
    · rw [upd_other _ _ _ _ ho] at hp
      split at hb
      · rw [upd_other _ _ _ _ ho] at hb; exact h.bas hg o' r' hp hb
      · exact h.bas hg o' r' hp hb
  · intro o' hp
    simp only at hp ⊢
    by_cases ho : o' = o
    · subst ho; simp
    · rw [upd_other _ _ _ _ ho] at hp ⊢; exact h.pseen o' hp

/-! ### commit (at the end of the session or in its middle) -/

/-- the session's bookkeeping after a COMMIT -/
def endTxnSess (ss : Sess) (final : Bool) : Sess :=
  { ss with status := if final then .committed else .active, inTxn := false, immediate := ss.immediate || !final,
            pend := fun _ => none, forUpd := fun _ => false, stable := fun _ => none, basis := fun _ => none,
            renewed := ss.renewed || !final }

/-- the state after a `commit()` with nothing open -/
def flagSt (σ : St) (s : Sid) (final : Bool) : St :=
  { σ with unguarded := σ.unguarded || (!final && !(σ.sess s).checks),
           sess := upd σ.sess s { σ.sess s with status := if final then .committed else .active,
                                                immediate := (σ.sess s).immediate || !final, stable := fun _ => none,
                                                renewed := (σ.sess s).renewed || !final } }

/-- ... after a `commit()` with nothing open -/
def flagSess (ss : Sess) (final : Bool) : Sess :=
  { ss with status := if final then .committed else .active, immediate := ss.immediate || !final, stable := fun _ => none,
            renewed := ss.renewed || !final }

theorem inv_commitSess {n : Nat} {σ : St} {s : Sid} (final : Bool) (hI : Inv n σ) : Inv n (commitSess n σ s final) := by
  have hso := hI.sok s
  -- `unguarded` only grows, and it is set when a session without checks commits in its middle
  have hungmono : (commitSess n σ s final).unguarded = (σ.unguarded || (!final && !(σ.sess s).checks)) := by
    unfold commitSess; dsimp only; split <;> rfl
  have hung : ∀ t, ((commitSess n σ s final).sess t).checks = false → ((commitSess n σ s final).sess t).renewed = true →
      (commitSess n σ s final).unguarded = true := by
    intro t h1 h2
    rw [hungmono]
    by_cases h : t = s
    · subst h
      have hc : (σ.sess t).checks = false := by
        unfold commitSess at h1; dsimp only at h1; split at h1 <;> simpa using h1
      have hr : ((σ.sess t).renewed || !final) = true := by
        unfold commitSess at h2; dsimp only at h2; split at h2 <;> simpa using h2
      cases hf : final with
      | false => simp [hc]
      | true =>
        have : (σ.sess t).renewed = true := by simpa [hf] using hr
        simp [hI.ung t hc this]
    · have e : (commitSess n σ s final).sess t = σ.sess t := by
        unfold commitSess; dsimp only; split <;> simp [upd, h]
      rw [e] at h1 h2
      simp [hI.ung t h1 h2]
  by_cases hin : (σ.sess s).inTxn = true
  · -- a transaction is open: COMMIT
    have hother : ∀ t, t ≠ s → (σ.sess t).inTxn = false := by
      intro t ht
      cases h : (σ.sess t).inTxn with
      | false => rfl
      | true => exact absurd (hI.mutex t s h hin) ht
    have key : ∀ t, t ≠ s → (commitSess n σ s final).sess t = σ.sess t := by
      intro t h; unfold commitSess; dsimp only; rw [if_pos hin]; simp [upd, h]
    have hs : ((commitSess n σ s final).sess s).inTxn = false := by
      unfold commitSess; dsimp only; rw [if_pos hin]; simp
    have hdb : ∀ o, (commitSess n σ s final).db o = ((σ.sess s).pend o).getD (σ.db o) := by
      intro o; unfold commitSess; dsimp only; rw [if_pos hin]
    have hlockeq : (commitSess n σ s final).lock = upd σ.lock (σ.dom s) none := by
      unfold commitSess; dsimp only; rw [if_pos hin]
    have hdom : (commitSess n σ s final).dom = σ.dom := by
      unfold commitSess; dsimp only; rw [if_pos hin]
    have hlost : σ.unguarded = false → (List.range n).any (fun o => ((σ.sess s).pend o).isSome && ((σ.sess s).basis o).isSome &&
        (σ.sess s).basis o != some (σ.db o)) = false := by
      intro hu
      have hg : (σ.sess s).checks = true ∨ (σ.sess s).renewed = false := by
        cases hc : (σ.sess s).checks with
        | true => exact Or.inl rfl
        | false =>
          cases hr : (σ.sess s).renewed with
          | false => exact Or.inr rfl
          | true => have := hI.ung s hc hr; rw [hu] at this; cases this
      rw [List.any_eq_false]
      intro o _
      cases hp : (σ.sess s).pend o with
      | none => simp
      | some w =>
        cases hb : (σ.sess s).basis o with
        | none => simp
        | some r =>
          have := hso.bas hg o r (by simp [hp]) hb
          simp [this]
    have hbroken : (List.range n).any (fun t => t != s && (σ.sess t).status == .active &&
        (List.range n).any (fun o => ((σ.sess t).stable o).isSome &&
          (σ.sess t).stable o != some (((σ.sess s).pend o).getD (σ.db o)))) = false := by
      rw [List.any_eq_false]
      intro t _
      by_cases hts : t = s
      · simp [hts]
      · have hcl := (hI.sok t).clean (hother t hts)
        have : (List.range n).any (fun o => ((σ.sess t).stable o).isSome &&
            (σ.sess t).stable o != some (((σ.sess s).pend o).getD (σ.db o))) = false := by
          rw [List.any_eq_false]; intro o _; simp [(hcl o).2.1]
        simp [this]
    refine ⟨?_, ?_, ?_, ?_, ?_, ?_, ?_, hung⟩
    · intro t
      by_cases h : t = s
      · subst h
        have e : (commitSess n σ t final).sess t = endTxnSess (σ.sess t) final := by
          unfold commitSess endTxnSess; dsimp only; rw [if_pos hin]; simp
        rw [e]; unfold endTxnSess
        refine ⟨fun _ o => by simp, fun h => by simp at h, fun o v h => by simp at h, ?_, fun _ o r hp => by simp at hp, ?_,
                fun o hp => by simp at hp⟩
        · intro o r hor hst _ _
          simp only at hor hst
          cases hf : final with
          | true => simp [hf] at hst
          | false => simp [hf] at hor
        · intro hc; simp only at hc ⊢; simp [hso.wf hc]
      · rw [key t h]
        have hso' := hI.sok t
        have hcl := hso'.clean (hother t h)
        refine ⟨hso'.clean, hso'.act, ?_, hso'.link, ?_, hso'.wf, hso'.pseen⟩
        · intro o v hv; simp [(hcl o).2.1] at hv
        · intro _ o r hp; simp [(hcl o).1] at hp
    · intro t ht
      by_cases h : t = s
      · subst h; simp [hs] at ht
      · rw [key t h] at ht; exact hI.bound t ht
    · intro t u ht hu
      by_cases h1 : t = s
      · subst h1; simp [hs] at ht
      · rw [key t h1, hother t h1] at ht; cases ht
    · intro t ht
      by_cases h : t = s
      · subst h; simp [hs] at ht
      · rw [key t h, hother t h] at ht; cases ht
    · intro d t hlk
      rw [hlockeq] at hlk
      by_cases hd : d = σ.dom s
      · subst hd; simp [upd] at hlk
      · have hlk' : σ.lock d = some t := by simpa [upd, hd] using hlk
        have := hI.holder d t hlk'
        have hts : t ≠ s := by intro he; subst he; exact hd this.2.symm
        rw [hother t hts] at this; cases this.1
    · intro hu
      rw [hungmono] at hu
      have hu0 : σ.unguarded = false := by
        cases h : σ.unguarded with
        | false => rfl
        | true => simp [h] at hu
      have : (commitSess n σ s final).lost = (σ.lost || (List.range n).any (fun o => ((σ.sess s).pend o).isSome &&
          ((σ.sess s).basis o).isSome && (σ.sess s).basis o != some (σ.db o))) := by
        unfold commitSess; dsimp only; rw [if_pos hin]
      rw [this, hI.lost hu0, hlost hu0]; rfl
    · have : (commitSess n σ s final).broken = (σ.broken || (List.range n).any (fun t => t != s && (σ.sess t).status == .active &&
          (List.range n).any (fun o => ((σ.sess t).stable o).isSome &&
            (σ.sess t).stable o != some (((σ.sess s).pend o).getD (σ.db o))))) := by
        unfold commitSess; dsimp only; rw [if_pos hin]
      rw [this, hI.broken, hbroken]; rfl
  · -- nothing is open: only the session's flags change
    have hin' : (σ.sess s).inTxn = false := by simpa using hin
    have e : commitSess n σ s final = flagSt σ s final := by
      unfold commitSess flagSt; dsimp only; rw [if_neg hin]
    have key : ∀ t, t ≠ s → (commitSess n σ s final).sess t = σ.sess t := by intro t h; rw [e]; simp [flagSt, upd, h]
    have hkeep : ∀ t, ((commitSess n σ s final).sess t).inTxn = (σ.sess t).inTxn := by
      intro t; by_cases h : t = s
      · subst h; rw [e]; simp [flagSt]
      · rw [key t h]
    have hcl := hso.clean hin'
    refine ⟨?_, ?_, ?_, ?_, ?_, ?_, by rw [e]; exact hI.broken, hung⟩
    · intro t
      by_cases h : t = s
      · subst h
        rw [e]; simp only [flagSt, upd_same]
        refine ⟨fun _ o => by simp [(hcl o).1, (hcl o).2.2.1, (hcl o).2.2.2], fun h => by simp [hin'] at h,
                fun o v h => by simp at h, ?_, fun _ o r hp => by simp [(hcl o).1] at hp, ?_, hso.pseen⟩
        · intro o r hor hst hseen _
          simp only at hor hst hseen
          cases hf : final with
          | true => simp [hf] at hst
          | false =>
            rcases hor with ⟨_, hr⟩ | hfu
            · simp [hf] at hr
            · simp [(hcl o).2.2.1] at hfu
        · intro hc; simp only at hc ⊢; simp [hso.wf hc]
      · rw [key t h]; rw [e]; exact hI.sok t
    · intro t ht; rw [hkeep] at ht; exact hI.bound t ht
    · intro t u ht hu; rw [hkeep] at ht hu; exact hI.mutex t u ht hu
    · intro t ht; rw [hkeep] at ht; rw [e]; exact hI.held t ht
    · intro d t hlk
      rw [hkeep]
      rw [e] at hlk ⊢
      exact hI.holder d t hlk
    · intro hu
      rw [hungmono] at hu
      have hu0 : σ.unguarded = false := by
        cases h : σ.unguarded with
        | false => rfl
        | true => simp [h] at hu
      rw [e]; exact hI.lost hu0

/-- the invariant is preserved by every operation of every session -/
theorem step_inv {n : Nat} {σ : St} {s : Sid} (a : Act) (hI : Inv n σ) (hs : s < n) : Inv n (step n σ s a).1 := by
  unfold step
  dsimp only
  by_cases hact : (σ.sess s).status = .active
  case neg => rw [if_pos hact]; exact hI
  rw [if_neg (by simpa using hact)]
  have hb := ensureTxn_spec hI hs hact
  cases a with
  | read o =>
    dsimp only
    cases hseen : (σ.sess s).seen o with
    | some v => exact hI
    | none =>
      dsimp only
      by_cases himm : (σ.sess s).immediate = true
      · rw [if_pos himm]
        cases hE : ensureTxn n σ s with
        | blocked σ' => rw [hE] at hb; exact hb.1
        | busy σ' => rw [hE] at hb; exact hb.1
        | ok σ' =>
          rw [hE] at hb
          obtain ⟨hI', hdb, hss, _⟩ := hb
          dsimp only
          have hseen' : (σ'.sess s).seen o = none := by rw [hss]; exact hseen
          have hin' : (σ'.sess s).inTxn = true := by rw [hss]
          have hov := ownView_eq_db (hI'.sok s) hseen'
          have := sessOk_load o (hI'.sok s) hseen' (fun _ => hin')
          rw [if_pos hin'] at this
          rw [hov]
          exact inv_setSess hI' rfl ⟨rfl, rfl⟩ this
      · rw [if_neg himm]
        have hov := ownView_eq_db (hI.sok s) hseen
        have := sessOk_load o (hI.sok s) hseen (fun h => absurd h himm)
        dsimp only
        rw [hov]
        exact inv_setSess hI rfl ⟨rfl, rfl⟩ this
  | lockRead o =>
    dsimp only
    cases hE : ensureTxn n σ s with
    | blocked σ' => rw [hE] at hb; exact hb.1
    | busy σ' => rw [hE] at hb; exact hb.1
    | ok σ' =>
      rw [hE] at hb
      obtain ⟨hI', hdb, hss, _⟩ := hb
      dsimp only
      have hin' : (σ'.sess s).inTxn = true := by rw [hss]
      cases hseen : (σ'.sess s).seen o with
      | none =>
        dsimp only
        have hov := ownView_eq_db (hI'.sok s) hseen
        rw [hov]
        exact inv_setSess hI' rfl ⟨rfl, rfl⟩ (sessOk_lockNew o (hI'.sok s) hin' hseen)
      | some r =>
        dsimp only
        split
        · exact inv_fail s hI'
        · rename_i hc
          have hsame : (σ'.sess s).pend o = none → r = σ'.db o := by
            intro hp
            simp only [hp, Option.isNone_none, Bool.true_and, ownView, Option.getD_none, ne_eq, decide_not,
              Bool.not_eq_eq_eq_not, Bool.not_true, decide_eq_false_iff_not] at hc
            exact Classical.not_not.mp hc
          exact inv_setSess hI' rfl ⟨rfl, rfl⟩ (sessOk_lockSeen o r (hI'.sok s) hin' hseen hsame)
  | update o v =>
    dsimp only
    cases hseen : (σ.sess s).seen o with
    | none => exact hI
    | some r =>
      dsimp only
      cases hE : ensureTxn n σ s with
      | blocked σ' => rw [hE] at hb; exact hb.1
      | busy σ' => rw [hE] at hb; exact hb.1
      | ok σ' =>
        rw [hE] at hb
        obtain ⟨hI', hdb, hss, _⟩ := hb
        dsimp only
        have hin' : (σ'.sess s).inTxn = true := by rw [hss]
        have hseen' : (σ'.sess s).seen o = some r := by rw [hss]; exact hseen
        split
        · exact inv_fail s hI'
        · rename_i hc
          exact inv_setSess hI' rfl ⟨rfl, rfl⟩ (sessOk_update o r v (hI'.sok s) hin' hseen' (Bool.eq_false_iff.mpr hc))
  | commit => exact inv_commitSess true hI
  | commitMid => exact inv_commitSess false hI
  | rollback => exact inv_fail s hI
  | refused => exact hI
  | begin =>
    dsimp only
    cases hE : ensureTxn n σ s with
    | blocked σ' => rw [hE] at hb; exact hb.1
    | busy σ' => rw [hE] at hb; exact hb.1
    | ok σ' => rw [hE] at hb; exact hb.1

/-- frame: a step of session `t` (not inside a transaction) leaves the bookkeeping of every other session alone -/
theorem step_frame {n : Nat} {σ : St} {s t : Sid} (a : Act) (hts : t ≠ s) (htin : (σ.sess t).inTxn = false) :
    (step n σ t a).1.sess s = σ.sess s := by
  have hset : ∀ (τ : St) (x : Sess), (setSess τ t x).sess s = τ.sess s := by
    intro τ x; simp [setSess, upd, hts.symm]
  have hfail : ∀ (τ : St), (failSess τ t).sess s = τ.sess s := by
    intro τ; simp [failSess, upd, hts.symm]
  have hite : ∀ (c : Prop) [Decidable c] (x y : St × Res), x.1.sess s = σ.sess s → y.1.sess s = σ.sess s →
      (if c then x else y).1.sess s = σ.sess s := by
    intro c _ x y hx hy; split <;> assumption
  have hens : ∀ r, ensureTxn n σ t = r →
      match r with | .ok τ => τ.sess s = σ.sess s | .blocked τ => τ.sess s = σ.sess s | .busy τ => τ.sess s = σ.sess s := by
    intro r hr
    unfold ensureTxn at hr
    rw [if_neg (by simp [htin])] at hr
    split at hr
    · split at hr
      · split at hr
        · subst hr; rfl
        · split at hr
          · subst hr; simp [failSess, upd, hts.symm]
          · subst hr; simp [setSess, upd, hts.symm]
      · subst hr; rfl
    · split at hr
      · subst hr; rfl
      · split at hr
        · subst hr; simp [failSess, upd, hts.symm]
        · subst hr; simp [setSess, upd, hts.symm]
  have hE3 := hens _ rfl
  unfold step
  dsimp only
  apply hite
  · rfl
  · cases a with
    | read o' =>
      dsimp only
      cases hseen : (σ.sess t).seen o' with
      | some v => rfl
      | none =>
        dsimp only
        apply hite
        · cases hE : ensureTxn n σ t with
          | ok τ => rw [hE] at hE3; dsimp only; rw [hset]; exact hE3
          | blocked τ => rw [hE] at hE3; exact hE3
          | busy τ => rw [hE] at hE3; exact hE3
        · dsimp only; rw [hset]
    | lockRead o' =>
      dsimp only
      cases hE : ensureTxn n σ t with
      | blocked τ => rw [hE] at hE3; exact hE3
      | busy τ => rw [hE] at hE3; exact hE3
      | ok τ =>
        rw [hE] at hE3
        dsimp only
        cases hseen : (τ.sess t).seen o' with
        | none => dsimp only; rw [hset]; exact hE3
        | some r =>
          dsimp only
          apply hite
          · dsimp only; rw [hfail]; exact hE3
          · dsimp only; rw [hset]; exact hE3
    | update o' v' =>
      dsimp only
      cases hseen : (σ.sess t).seen o' with
      | none => rfl
      | some r =>
        dsimp only
        cases hE : ensureTxn n σ t with
        | blocked τ => rw [hE] at hE3; exact hE3
        | busy τ => rw [hE] at hE3; exact hE3
        | ok τ =>
          rw [hE] at hE3
          dsimp only
          apply hite
          · dsimp only; rw [hfail]; exact hE3
          · dsimp only; rw [hset]; exact hE3
    | commit => dsimp only; unfold commitSess; dsimp only; rw [if_neg (by simp [htin])]; simp [upd, hts.symm]
    | commitMid => dsimp only; unfold commitSess; dsimp only; rw [if_neg (by simp [htin])]; simp [upd, hts.symm]
    | rollback => dsimp only; rw [hfail]
    | refused => rfl
    | begin =>
      dsimp only
      cases hE : ensureTxn n σ t with
      | blocked τ => rw [hE] at hE3; exact hE3
      | busy τ => rw [hE] at hE3; exact hE3
      | ok τ => rw [hE] at hE3; exact hE3

/-- `unguarded` is raised by exactly one kind of step: `commit()` in the middle of a session without optimistic checks -/
theorem step_unguarded {n : Nat} {σ : St} {t : Sid} (a : Act) :
    (step n σ t a).1.unguarded = (σ.unguarded || (decide (a = .commitMid) && (σ.sess t).status == .active && !(σ.sess t).checks)) := by
  have hset : ∀ (τ : St) (x : Sess), (setSess τ t x).unguarded = τ.unguarded := fun _ _ => rfl
  have hfail : ∀ (τ : St), (failSess τ t).unguarded = τ.unguarded := fun _ => rfl
  have hite : ∀ (c : Prop) [Decidable c] (x y : St × Res), x.1.unguarded = σ.unguarded → y.1.unguarded = σ.unguarded →
      (if c then x else y).1.unguarded = σ.unguarded := by
    intro c _ x y hx hy; split <;> assumption
  have hens : ∀ r, ensureTxn n σ t = r →
      match r with | .ok τ => τ.unguarded = σ.unguarded | .blocked τ => τ.unguarded = σ.unguarded | .busy τ => τ.unguarded = σ.unguarded := by
    intro r hr
    unfold ensureTxn at hr
    dsimp only at hr
    split at hr
    · subst hr; rfl
    · split at hr
      · split at hr
        · split at hr
          · subst hr; rfl
          · split at hr
            · subst hr; rfl
            · subst hr; rfl
        · subst hr; rfl
      · split at hr
        · subst hr; rfl
        · split at hr
          · subst hr; rfl
          · subst hr; rfl
  have hE3 := hens _ rfl
  unfold step
  dsimp only
  by_cases hact : (σ.sess t).status = .active
  case neg =>
    rw [if_pos hact]
    have : ((σ.sess t).status == Status.active) = false := by
      cases h : (σ.sess t).status <;> simp_all
    simp [this]
  rw [if_neg (by simpa using hact)]
  have hact' : ((σ.sess t).status == Status.active) = true := by simp [hact]
  cases a with
  | read o' =>
    simp only [reduceCtorEq, decide_false, Bool.false_and, Bool.or_false]
    cases hseen : (σ.sess t).seen o' with
    | some v => rfl
    | none =>
      dsimp only
      apply hite
      · cases hE : ensureTxn n σ t with
        | ok τ => rw [hE] at hE3; dsimp only; rw [hset]; exact hE3
        | blocked τ => rw [hE] at hE3; exact hE3
        | busy τ => rw [hE] at hE3; exact hE3
      · rfl
  | lockRead o' =>
    simp only [reduceCtorEq, decide_false, Bool.false_and, Bool.or_false]
    cases hE : ensureTxn n σ t with
    | blocked τ => rw [hE] at hE3; exact hE3
    | busy τ => rw [hE] at hE3; exact hE3
    | ok τ =>
      rw [hE] at hE3
      dsimp only
      cases hseen : (τ.sess t).seen o' with
      | none => dsimp only; rw [hset]; exact hE3
      | some r =>
        dsimp only
        split
        · dsimp only; rw [hfail]; exact hE3
        · dsimp only; rw [hset]; exact hE3
  | update o' v' =>
    simp only [reduceCtorEq, decide_false, Bool.false_and, Bool.or_false]
    cases hseen : (σ.sess t).seen o' with
    | none => rfl
    | some r =>
      dsimp only
      cases hE : ensureTxn n σ t with
      | blocked τ => rw [hE] at hE3; exact hE3
      | busy τ => rw [hE] at hE3; exact hE3
      | ok τ =>
        rw [hE] at hE3
        dsimp only
        split
        · dsimp only; rw [hfail]; exact hE3
        · dsimp only; rw [hset]; exact hE3
  | commit =>
    simp only [reduceCtorEq, decide_false, Bool.false_and, Bool.or_false]
    unfold commitSess; dsimp only; split <;> simp
  | commitMid =>
    simp only [decide_true, Bool.true_and, hact']
    unfold commitSess; dsimp only; split <;> simp
  | rollback =>
    simp only [reduceCtorEq, decide_false, Bool.false_and, Bool.or_false]
    rfl
  | refused =>
    simp only [reduceCtorEq, decide_false, Bool.false_and, Bool.or_false]
  | begin =>
    simp only [reduceCtorEq, decide_false, Bool.false_and, Bool.or_false]
    cases hE : ensureTxn n σ t with
    | blocked τ => rw [hE] at hE3; exact hE3
    | busy τ => rw [hE] at hE3; exact hE3
    | ok τ => rw [hE] at hE3; exact hE3

theorem run_inv {n : Nat} (sched : List (Sid × Act)) : ∀ (σ : St), Inv n σ → (∀ p ∈ sched, p.1 < n) → Inv n (run n σ sched) := by
  induction sched with
  | nil => intro σ h _; exact h
  | cons p t ih =>
    intro σ h hb
    obtain ⟨s, a⟩ := p
    exact ih _ (step_inv a h (hb (s, a) (by simp))) (fun q hq => hb q (by simp [hq]))

theorem inv_init (n : Nat) (db : Obj → Val) (cfg : Sid → Bool × Bool) (dom : Sid → Nat)
    (hwf : ∀ s, (cfg s).2 = false → (cfg s).1 = true) : Inv n (St.init db cfg dom) := by
  refine ⟨?_, ?_, ?_, ?_, ?_, fun _ => rfl, rfl, fun s _ h => by simp [St.init, Sess.fresh] at h⟩
  · intro s
    refine ⟨fun _ o => by simp [St.init, Sess.fresh], fun h => by simp [St.init, Sess.fresh] at h,
            fun o v h => by simp [St.init, Sess.fresh] at h, fun o r _ _ h => by simp [St.init, Sess.fresh] at h,
            fun _ o r h => by simp [St.init, Sess.fresh] at h, ?_, fun o h => by simp [St.init, Sess.fresh] at h⟩
    simpa [St.init, Sess.fresh] using hwf s
  · intro s h; simp [St.init, Sess.fresh] at h
  · intro s t h; simp [St.init, Sess.fresh] at h
  · intro s h; simp [St.init, Sess.fresh] at h
  · intro d s h; simp [St.init] at h

end PonyVerif.Lemmas.RowLock
