/- helper lemmas for C31: the attribute-selection cache only ever holds what `compute` returns -/
import PonyVerif.Model.AttrSel
namespace PonyVerif.Model.AttrSel

theorem lookup_mem {α β} [BEq α] [LawfulBEq α] : ∀ (l : List (α × β)) (k : α) (v : β), l.lookup k = some v → (k, v) ∈ l
  | [], _, _, h => by simp [List.lookup] at h
  | (a, b) :: l, k, v, h => by
    by_cases hk : k == a
    · have : k = a := by simpa using hk
      subst this
      simp [List.lookup] at h
      subst h; simp
    · simp only [List.lookup, hk] at h
      exact List.mem_cons_of_mem _ (lookup_mem l k v h)

/-- every cache entry is the result of the uncached computation for its key -/
def CacheInv (split : String → List String) (attrs : List Attr) (c : Cache) : Prop :=
  ∀ q r, (q, r) ∈ c → compute split attrs q = .ok r

theorem cached_spec (split : String → List String) (attrs : List Attr) (c : Cache) (q : Query) (h : CacheInv split attrs c) :
    (cached split attrs c q).1 = compute split attrs q ∧ CacheInv split attrs (cached split attrs c q).2 := by
  unfold cached
  split
  · rename_i x xs hl
    exact ⟨(h q (x :: xs) (lookup_mem c q _ hl)).symm, h⟩
  · cases hc : compute split attrs q with
    | error n => exact ⟨rfl, h⟩
    | ok r =>
      refine ⟨rfl, ?_⟩
      intro q' r' hm
      rcases List.mem_cons.mp hm with heq | hm'
      · cases heq; exact hc
      · exact h q' r' hm'

theorem runHist_spec (split : String → List String) (attrs : List Attr) (qs : List Query) :
    ∀ (c : Cache), CacheInv split attrs c → runHist split attrs c qs = qs.map (compute split attrs) := by
  induction qs with
  | nil => intro c _; rfl
  | cons q qs ih =>
    intro c h
    have := cached_spec split attrs c q h
    simp only [runHist, List.map_cons, this.1, ih _ this.2]

end PonyVerif.Model.AttrSel
