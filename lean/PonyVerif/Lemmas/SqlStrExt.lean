/- C25 helper lemmas, second file (kept apart so that both files build in parallel and each stays small):
   exact MySQL / Oracle characterisation, NULL-valued bounds, decoder round trip, pinned parameters and the cache -/
import PonyVerif.Lemmas.SqlStr
namespace PonyVerif.Model.SqlStr
open PonyVerif.Py

/-! ### exact characterisation of MySQL / Oracle -/

theorem length_sliceNat (s : List Char) (lo len : Nat) : (sliceNat s lo len).length = min len (s.length - lo) := by
  simp [sliceNat, List.length_take, List.length_drop]

theorem length_win (s : List Char) (x y : Int) :
    (win s x y).length = min (y.toNat - x.toNat) (s.length - x.toNat) := by
  unfold win; exact length_sliceNat _ _ _

/-- MySQL three-argument substr on what STRING_SLICE hands it, in closed form — for ALL bounds -/
theorem mysql_substr3_closed (s : List Char) (raw : Bool) (a b : Int) :
    substr3V .mysql s (indexVal .mysql s.length a) (lenVal .mysql s.length raw a b) =
      .ok (.str (if a < -(s.length : Int) then [] else if a < 0 ∧ 0 ≤ b then pySlice s (some a) none else pySlice s (some a) (some b))) := by
  by_cases h1 : a < -(s.length : Int)
  · rw [if_pos h1]
    obtain ⟨p, hp⟩ : ∃ p, p = indexVal .mysql s.length a := ⟨_, rfl⟩
    rw [← hp]
    simp only [indexVal_other .mysql (by decide)] at hp
    simp only [substr3V]
    split
    · rfl
    · rw [if_neg (by omega), if_pos (by omega)]
  · rw [if_neg h1]
    by_cases h2 : a < 0 ∧ 0 ≤ b
    · rw [if_pos h2]
      obtain ⟨p, hp⟩ : ∃ p, p = indexVal .mysql s.length a := ⟨_, rfl⟩
      obtain ⟨l, hl⟩ : ∃ l, l = lenVal .mysql s.length raw a b := ⟨_, rfl⟩
      rw [← hp, ← hl]
      simp only [lenVal, indexVal_other .mysql (by decide)] at hp hl
      simp only [substr3V]
      have hl1 : ¬ (p = 0 ∨ l < 1) := by cases raw <;> simp at hl <;> omega
      rw [if_neg hl1, if_neg (by omega), if_neg (by omega)]
      congr 2
      rw [sliceNat_eq_win _ _ _ (by omega) (by omega)]
      apply win_eq_pySlice_none; intro k hk0 hkn; unfold inPyFrom
      cases raw <;> simp at hl <;> omega
    · rw [if_neg h2]
      exact mysql_substr3 s raw a b (by omega) (by intro ha hb; exact absurd ⟨ha, hb⟩ h2)

theorem mysql_substr2_closed (s : List Char) (a : Int) :
    substr2V .mysql s (indexVal .mysql s.length a) =
      .ok (.str (if a < -(s.length : Int) then [] else pySlice s (some a) none)) := by
  by_cases h1 : a < -(s.length : Int)
  · rw [if_pos h1]
    obtain ⟨p, hp⟩ : ∃ p, p = indexVal .mysql s.length a := ⟨_, rfl⟩
    rw [← hp]
    simp only [indexVal_other .mysql (by decide)] at hp
    simp only [substr2V]
    rw [if_neg (by omega), if_neg (by omega), if_pos (by omega)]
  · rw [if_neg h1]; exact mysql_substr2 s a (by omega)

/-- `s[a:]` and `s[a:b]` differ when the start is inside the string and the stop cuts something off -/
theorem pySlice_none_ne (s : List Char) (a b : Int) (h1 : -(s.length : Int) ≤ a) (h2 : a < 0) (h3 : 0 ≤ b) :
    pySlice s (some a) none = pySlice s (some a) (some b) ↔ (s.length : Int) ≤ b := by
  constructor
  · intro h
    have := congrArg List.length h
    rw [pySlice_eq_win_none, pySlice_eq_win, length_win, length_win] at this
    unfold adjIdx at this
    omega
  · intro h
    rw [pySlice_eq_win_none, pySlice_eq_win]
    apply win_congr; intro k hk0 hkn
    unfold adjIdx; omega

theorem pySlice_getD (s : List Char) (i j : Option Int) : pySlice s i j = pySlice s (some (i.getD 0)) j := by
  cases i with
  | none => exact pySlice_none_start s j
  | some a => rfl

/-- what MySQL's substr returns for the AST STRING_SLICE builds (character-counting LENGTH), for ALL bounds -/
def mysqlResult (s : List Char) (i j : Option Int) : List Char :=
  let a := i.getD 0
  if a < -(s.length : Int) then []
  else match j with
    | none => pySlice s (some a) none
    | some b => if a < 0 ∧ 0 ≤ b then pySlice s (some a) none else pySlice s (some a) (some b)

/-- the exact set of inputs on which MySQL / Oracle agree with Python -/
def myExact (s : List Char) (i j : Option Int) : Prop :=
  (i.getD 0 < -(s.length : Int) → pySlice s i j = []) ∧
  ¬ (-(s.length : Int) ≤ i.getD 0 ∧ i.getD 0 < 0 ∧ ∃ b, j = some b ∧ 0 ≤ b ∧ b < (s.length : Int))

theorem sliceSem_mysql (s : List Char) (raw : Bool) (i j : Option Int) :
    sliceSem .mysql s raw i j = .ok (.str (mysqlResult s i j)) := by
  cases j with
  | none =>
    simp only [sliceSem, mysqlResult, mysql_substr2_closed]
  | some b =>
    simp only [sliceSem, mysqlResult, mysql_substr3_closed]

theorem sliceSem_oracle (s : List Char) (raw : Bool) (i j : Option Int) :
    sliceSem .oracle s raw i j = .ok (strVal .oracle (mysqlResult s i j)) := by
  have e1 : ∀ a, indexVal .oracle s.length a = indexVal .mysql s.length a := by
    intro a; rw [indexVal_other _ (by decide), indexVal_other _ (by decide)]
  have e2 : ∀ a b, lenVal .oracle s.length raw a b = lenVal .mysql s.length raw a b := by
    intro a b; unfold lenVal; rw [e1]
  have hm := sliceSem_mysql s raw i j
  cases j with
  | none =>
    simp only [sliceSem] at hm ⊢
    rw [e1]
    exact oracle_of_mysql2 _ _ (indexVal_ne_zero _ (by decide) _ _) _ hm
  | some b =>
    simp only [sliceSem] at hm ⊢
    rw [e1, e2]
    exact oracle_of_mysql3 _ _ _ (indexVal_ne_zero _ (by decide) _ _) _ hm

theorem mysqlResult_eq_iff (s : List Char) (i j : Option Int) :
    mysqlResult s i j = pySlice s i j ↔ myExact s i j := by
  rw [pySlice_getD s i j]
  unfold mysqlResult myExact
  rw [pySlice_getD s i j]
  generalize i.getD 0 = a
  simp only []
  by_cases h1 : a < -(s.length : Int)
  · rw [if_pos h1]
    constructor
    · intro h; exact ⟨fun _ => h.symm, by omega⟩
    · intro h; exact (h.1 h1).symm
  · rw [if_neg h1]
    cases j with
    | none => simp [h1]
    | some b =>
      simp only []
      by_cases h2 : a < 0 ∧ 0 ≤ b
      · rw [if_pos h2, pySlice_none_ne s a b (by omega) h2.1 h2.2]
        constructor
        · intro h; refine ⟨fun h' => absurd h' h1, ?_⟩
          rintro ⟨_, _, b', hb', _, hlt⟩; cases hb'; omega
        · intro h
          have := h.2
          apply Classical.byContradiction; intro hn
          exact this ⟨by omega, h2.1, b, rfl, h2.2, by omega⟩
      · rw [if_neg h2]
        constructor
        · intro _; refine ⟨fun h' => absurd h' h1, ?_⟩
          rintro ⟨_, h3, b', hb', h4, _⟩; cases hb'; exact h2 ⟨h3, h4⟩
        · intro _; rfl

theorem strVal_oracle_inj (r1 r2 : List Char) : strVal .oracle r1 = strVal .oracle r2 ↔ r1 = r2 := by
  constructor
  · intro h
    unfold strVal at h
    cases r1 <;> cases r2 <;> simp_all
  · intro h; rw [h]

/-! ### NULL-valued bound expressions -/

section nullLemmas
variable {d : Dialect} {env : Env} {e : Sql} {s : List Char}

theorem eval_indexSql_expr_null (he : eval d env e = .ok (.str s)) {x : Sql} (hx : eval d env x = .ok .null) :
    eval d env (indexSql d e (.expr x)) = .ok .null := by
  by_cases hd : d = .pg
  · subst hd
    simp [indexSql, eval, he, hx, lengthV, arithV, cmpV, condV, bind, Except.bind]
  · simp [indexSql, eval, hx, cmpV, condV, bind, Except.bind, hd]

/-- a NULL stop expression is read as -1 (`COALESCE(stop, -1)`) -/
theorem eval_lenSql_ce_null (he : eval d env e = .ok (.str s)) (a : Int) {y : Sql} (hy : eval d env y = .ok .null) {idx : Sql} :
    ∃ l, lenSql e (.const a) idx (.expr y) = some l ∧ eval d env l = .ok (.int (lenVal d (lengthOf d s) false a (-1))) := by
  rcases sign_dich a with ⟨h0, h0'⟩ | ⟨h0, h0'⟩ <;>
    simp [lenSql, lenVal, maxz, eval, he, hy, lengthV, arithV, cmpV, condV, greatestV, bind, Except.bind, h0, h0'] <;> omega

theorem eval_lenSql_ee_null_stop (he : eval d env e = .ok (.str s)) {x : Sql} {a : Int} (hx : eval d env x = .ok (.int a))
    {y : Sql} (hy : eval d env y = .ok .null) {idx : Sql} :
    ∃ l, lenSql e (.expr x) idx (.expr y) = some l ∧ eval d env l = .ok (.int (lenVal d (lengthOf d s) false a (-1))) := by
  rcases sign_dich a with ⟨h0, h0'⟩ | ⟨h0, h0'⟩ <;>
    simp [lenSql, lenVal, maxz, eval, he, hx, hy, lengthV, arithV, cmpV, condV, andV, greatestV, bind, Except.bind, h0, h0'] <;> omega

/-- a NULL start expression: the length still evaluates (as for start 0), the position does not -/
theorem eval_lenSql_ec_null_start (he : eval d env e = .ok (.str s)) {x : Sql} (hx : eval d env x = .ok .null) (b : Int) {idx : Sql} :
    ∃ l, lenSql e (.expr x) idx (.const b) = some l ∧ eval d env l = .ok (.int (lenVal d (lengthOf d s) false 0 b)) := by
  rcases sign_dich b with ⟨h1, h1'⟩ | ⟨h1, h1'⟩ <;>
    simp [lenSql, lenVal, maxz, eval, he, hx, lengthV, arithV, cmpV, condV, greatestV, bind, Except.bind, h1, h1'] <;> omega

theorem eval_lenSql_ee_null_start (he : eval d env e = .ok (.str s)) {x : Sql} (hx : eval d env x = .ok .null)
    {y : Sql} {b : Int} (hy : eval d env y = .ok (.int b)) {idx : Sql} :
    ∃ l, lenSql e (.expr x) idx (.expr y) = some l ∧ eval d env l = .ok (.int (lenVal d (lengthOf d s) false 0 b)) := by
  rcases sign_dich b with ⟨h1, h1'⟩ | ⟨h1, h1'⟩ <;>
    simp [lenSql, lenVal, maxz, eval, he, hx, hy, lengthV, arithV, cmpV, condV, andV, greatestV, bind, Except.bind, h1, h1'] <;> omega

theorem eval_lenSql_ee_null_both (he : eval d env e = .ok (.str s)) {x : Sql} (hx : eval d env x = .ok .null)
    {y : Sql} (hy : eval d env y = .ok .null) {idx : Sql} :
    ∃ l, lenSql e (.expr x) idx (.expr y) = some l ∧ eval d env l = .ok (.int (lenVal d (lengthOf d s) false 0 (-1))) := by
  simp [lenSql, lenVal, maxz, eval, he, hx, hy, lengthV, arithV, cmpV, condV, andV, greatestV, bind, Except.bind] <;> omega

end nullLemmas
/-! ### the decoder used by the driver is the inverse of `enc` -/

theorem enc_is_list (t : Sql) : ∃ xs, t.enc = .list xs := by cases t <;> exact ⟨_, rfl⟩

theorem dec_sound (v : PyVal) : ∀ t, dec v = some t → t.enc = v := by
  fun_induction dec v <;> intro t h <;> simp [Option.bind_eq_some_iff] at h
  all_goals first
    | (subst h; rfl)
    | (obtain ⟨a1, h1, rfl⟩ := h; simp [Sql.enc, *])
    | (obtain ⟨a1, h1, a2, h2, rfl⟩ := h; simp [Sql.enc, *])
    | (obtain ⟨a1, h1, a2, h2, a3, h3, rfl⟩ := h; simp [Sql.enc, *])
    | (obtain ⟨a1, h1, a2, h2, a3, h3, a4, h4, a5, h5, a6, h6, a7, h7, a8, h8, rfl⟩ := h; simp [Sql.enc, *])

/-- and the decoder loses nothing: every typed AST is recovered from its encoding -/
theorem dec_enc (t : Sql) : dec t.enc = some t := by
  induction t with
  | substr3 e p l ihe ihp ihl =>
      obtain ⟨xs, hxs⟩ := enc_is_list l
      simp only [Sql.enc]
      rw [hxs]
      simp only [dec]
      rw [← hxs]; simp [ihe, ihp, ihl]
  | _ => simp_all [Sql.enc, dec]

/-! ### pinned parameters and the translator cache -/

theorem getitemSlice_snd (recv : Recv) (start stop : GArg) (f : Fixed) :
    (getitemSlice recv start stop f).2 = (paramToConst (paramToConst f true start).2 false stop).2 := by
  unfold getitemSlice
  simp only []
  split
  · rfl
  · split <;> rfl

theorem paramToConst_rebind (f : Fixed) (isStart : Bool) (g : GArg) (vars : String → Option Int)
    (h : ∀ k iv, (paramToConst f isStart g).2.lookup k = some iv → vars k = some iv) :
    paramToConst f isStart (GArg.rebind vars g) = paramToConst f isStart g := by
  rcases g with _ | a | ⟨k, v⟩ | x <;> simp only [GArg.rebind]
  cases hl : f.lookup k with
  | some iv => simp [paramToConst, hl]
  | none =>
    have := h k (v.getD (if isStart then 0 else -1)) (by simp [paramToConst, hl])
    simp [paramToConst, hl, this]

theorem lookup_mono (f : Fixed) (isStart : Bool) (g : GArg) (k : String) (iv : Int)
    (h : f.lookup k = some iv) : (paramToConst f isStart g).2.lookup k = some iv := by
  rcases g with _ | a | ⟨k', v⟩ | x <;> simp only [paramToConst] <;> try exact h
  cases hl : f.lookup k' with
  | some iv' => simpa using h
  | none =>
    have hne : (k == k') = false := by
      cases hk : (k == k') with
      | false => rfl
      | true => have := eq_of_beq hk; subst this; rw [h] at hl; cases hl
    simp [List.lookup, hne, h]

theorem lookup_mem (f : Fixed) (k : String) (iv : Int) (h : f.lookup k = some iv) : (k, iv) ∈ f := by
  induction f with
  | nil => simp [List.lookup] at h
  | cons p rest ih =>
    obtain ⟨k', v'⟩ := p
    simp only [List.lookup] at h
    cases hk : (k == k') with
    | true =>
      rw [hk] at h
      have := eq_of_beq hk; subst this
      simp at h; subst h; exact List.mem_cons_self
    | false =>
      rw [hk] at h
      exact List.mem_cons_of_mem _ (ih h)

end PonyVerif.Model.SqlStr
