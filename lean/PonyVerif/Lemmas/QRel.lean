/-
  Lemmas for the relationship-level model (Model/QRel.lean).
-/
import PonyVerif.Model.QRel
import PonyVerif.Lemmas.Translate
namespace PonyVerif.Model.Q

theorem eqK_some_tt (pk : Int) (fk : Option Int) : (eqK (some pk) fk = .tt) ↔ fk = some pk := by
  cases fk with
  | none => simp [eqK]
  | some x => simp [eqK]; exact eq_comm

/-- the inner conditions select a child exactly when the Python reading of the inner expression is true on it -/
def InnerOK (L : LikeFn) (d : Dialect) (conds : SqlList) (e : Expr) (c : Child) : Prop :=
  ∃ k, evalCond L d (senv d c.env) (.and conds) = some k ∧ (k = .tt ↔ pySelected c.env e = true)

theorem subRows_eq (L : LikeFn) (d : Dialect) (pk : Int) (conds : SqlList) (e : Expr) : ∀ (children : List Child),
    (∀ c ∈ children, InnerOK L d conds e c) →
    subRows L d pk conds children = some (children.filter (fun c => c.fk == some pk && pySelected c.env e))
  | [], _ => by simp [subRows]
  | c :: cs, h => by
    have ih := subRows_eq L d pk conds e cs (fun x hx => h x (List.mem_cons_of_mem _ hx))
    obtain ⟨k, hk, hiff⟩ := h c (List.mem_cons_self ..)
    simp only [subRows, subWhere, hk, Option.map_some, ih, List.filter_cons]
    have hcond : ((eqK (some pk) c.fk).and k == K.tt) = (c.fk == some pk && pySelected c.env e) := by
      rw [Bool.eq_iff_iff]
      simp only [beq_iff_eq, Bool.and_eq_true]
      constructor
      · intro hh
        have h1 : eqK (some pk) c.fk = .tt := by cases h1 : eqK (some pk) c.fk <;> cases k <;> simp_all [K.and]
        have h2 : k = .tt := by cases k <;> simp_all [K.and]
        exact ⟨(eqK_some_tt pk c.fk).1 h1, hiff.1 h2⟩
      · rintro ⟨h1, h2⟩
        rw [(eqK_some_tt pk c.fk).2 h1, hiff.2 h2]; rfl
    rw [hcond]

theorem filter_members (pk : Int) (children : List Child) (e : Expr) :
    children.filter (fun c => c.fk == some pk && pySelected c.env e) = (members pk children).filter (fun c => pySelected c.env e) := by
  simp [members, List.filter_filter, Bool.and_comm]


theorem sqlJoin_eq (L : LikeFn) (d : Dialect) (conds : SqlList) (e : Expr) : ∀ (rows : List JRow),
    (∀ r ∈ rows, ∀ p, r.parent = some p → ∃ k, evalCond L d (senv d (mergeEnv r.child p)) (.and conds) = some k ∧
        (k = .tt ↔ pySelected (mergeEnv r.child p) e = true)) →
    sqlJoin L d conds rows = some (rows.filter (fun r => r.parent.isSome && pySelected (pyRow r) e))
  | [], _ => by simp [sqlJoin]
  | r :: rs, h => by
    have ih := sqlJoin_eq L d conds e rs (fun x hx => h x (List.mem_cons_of_mem _ hx))
    cases hp : r.parent with
    | none => simp [sqlJoin, hp, ih, List.filter_cons]
    | some p =>
      obtain ⟨k, hk, hiff⟩ := h r (List.mem_cons_self ..) p hp
      have hsel : (k == K.tt) = pySelected (mergeEnv r.child p) e := by
        rw [Bool.eq_iff_iff]; simpa using hiff
      simp [sqlJoin, hp, hk, ih, List.filter_cons, pyRow, hsel]


theorem pyExists_joinedM (pk : Int) (links : List Link) (children : List MChild) (e : Expr) :
    pyExists pk (joinedM links children) e = pyExistsM pk links children e := by
  rw [Bool.eq_iff_iff]
  simp only [pyExists, pyExistsM, members, membersM, joinedM, List.any_eq_true, List.mem_filter, List.mem_flatMap, List.mem_map,
    Bool.and_eq_true, beq_iff_eq]
  constructor
  · rintro ⟨c, ⟨⟨l, hl, m, ⟨hm, hid⟩, rfl⟩, hfk⟩, hsel⟩
    simp only [Option.some.injEq] at hfk
    exact ⟨m, ⟨hm, l, hl, hfk, hid.symm⟩, hsel⟩
  · rintro ⟨m, ⟨hm, l, hl, hp, hc⟩, hsel⟩
    exact ⟨⟨some l.parent, m.env⟩, ⟨⟨l, hl, m, ⟨hm, hc.symm⟩, rfl⟩, by simp [hp]⟩, hsel⟩

end PonyVerif.Model.Q
