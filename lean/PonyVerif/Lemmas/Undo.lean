/-
  Lemmas/Undo.lean — the do/undo structure of Model/Undo.lean: every registered undo entry is the inverse of the
  mutation it was registered for, undo lists compose, every failing path runs the whole list.
-/
import PonyVerif.Model.Undo
namespace PonyVerif.Model.Undo

/-! ### small function-update algebra -/

theorem set1_self {β : Type} (f : Nat → β) (a : Nat) : set1 f a (f a) = f := by
  funext x; simp only [set1]; split <;> simp_all
theorem set1_set1 {β : Type} (f : Nat → β) (a : Nat) (b c : β) : set1 (set1 f a b) a c = set1 f a c := by
  funext x; simp only [set1]; split <;> simp_all
theorem set1_same {β : Type} (f : Nat → β) (a : Nat) (b : β) : set1 f a b a = b := by simp [set1]
theorem set2_same {β : Type} (f : Nat → Nat → β) (a x : Nat) (b : β) : set2 f a x b a x = b := by simp [set2]
theorem set2_self {β : Type} (f : Nat → Nat → β) (a x : Nat) : set2 f a x (f a x) = f := by
  funext a' x'; simp only [set2]; split
  · rename_i h; rw [h.1, h.2]
  · rfl
theorem set2_set2 {β : Type} (f : Nat → Nat → β) (a x : Nat) (b c : β) : set2 (set2 f a x b) a x c = set2 f a x c := by
  funext a' x'; simp only [set2]; split <;> simp_all
theorem set2_undo {β : Type} (f : Nat → Nat → β) (a x : Nat) (b c : β) (h : f a x = c) : set2 (set2 f a x b) a x c = f := by
  rw [set2_set2, ← h, set2_self]
theorem setK_set {β : Type} (f : Nat → List Nat → β) (k : Nat) (vs : List Nat) (b c : β) : setK (setK f k vs b) k vs c = setK f k vs c := by
  funext a' x'; simp only [setK]; split <;> simp_all
theorem setK_self {β : Type} (f : Nat → List Nat → β) (k : Nat) (vs : List Nat) : setK f k vs (f k vs) = f := by
  funext a' x'; simp only [setK]; split
  · rename_i h; rw [h.1, h.2]
  · rfl
theorem setK_undo {β : Type} (f : Nat → List Nat → β) (k : Nat) (vs : List Nat) (b c : β) (h : f k vs = c) : setK (setK f k vs b) k vs c = f := by
  rw [setK_set, ← h, setK_self]

/-! ### the relation "equal as far as the session that existed before the call is concerned" -/

/-- `s` and `t` have the same objects, the same session-level tables, the same statuses, and the same rows below `k`
    (`cache.modified`, the key set of `modified_collections` and the ghost list `seen` are not compared) -/
structure Eqv (k : Nat) (s t : Store) : Prop where
  n : s.n = t.n
  toSave : s.toSave = t.toSave
  pkIdx : s.pkIdx = t.pkIdx
  idx : s.idx = t.idx
  cidx : s.cidx = t.cidx
  modColl : s.modColl = t.modColl
  status : ∀ o, o < s.n → (s.row o).status = (t.row o).status
  row : ∀ o, o < k → s.row o = t.row o

theorem Eqv.refl (k : Nat) (s : Store) : Eqv k s s := ⟨rfl, rfl, rfl, rfl, rfl, rfl, fun _ _ => rfl, fun _ _ => rfl⟩
theorem Eqv.symm {k : Nat} {s t : Store} (h : Eqv k s t) : Eqv k t s :=
  ⟨h.n.symm, h.toSave.symm, h.pkIdx.symm, h.idx.symm, h.cidx.symm, h.modColl.symm,
   fun o ho => (h.status o (h.n ▸ ho)).symm, fun o ho => (h.row o ho).symm⟩
theorem Eqv.trans {k : Nat} {s t u : Store} (h1 : Eqv k s t) (h2 : Eqv k t u) : Eqv k s u :=
  ⟨h1.n.trans h2.n, h1.toSave.trans h2.toSave, h1.pkIdx.trans h2.pkIdx, h1.idx.trans h2.idx, h1.cidx.trans h2.cidx,
   h1.modColl.trans h2.modColl, fun o ho => (h1.status o ho).trans (h2.status o (h1.n ▸ ho)),
   fun o ho => (h1.row o ho).trans (h2.row o ho)⟩

/-- the save queue and the `_save_pos_` fields agree -/
def SaveOk (s : Store) : Prop :=
  ∀ o, (∀ p, (s.row o).savePos = some p → s.toSave[p]? = some (some o)) ∧
       ((s.row o).status = .inserted ∨ (s.row o).status = .updated → (s.row o).savePos = none)

/-- running the trail from (a store equivalent to) the current store restores the store the call started from -/
def Restores (s0 : Store) (st : St) : Prop :=
  ∀ t, Eqv s0.n st.store t → Eqv s0.n (undoAll st.trail t) s0

structure Good (s0 : Store) (st : St) : Prop where
  save : SaveOk st.store
  mono : s0.n ≤ st.store.n
  restores : Restores s0 st

/-- the relation between the state before and after a piece of a call -/
def Step (s0 : Store) (st st' : St) : Prop := Good s0 st → Good s0 st'

theorem Step.refl (s0 : Store) (st : St) : Step s0 st st := id
theorem Step.trans {s0 : Store} {st st1 st2 : St} (h1 : Step s0 st st1) (h2 : Step s0 st1 st2) : Step s0 st st2 :=
  fun h => h2 (h1 h)

/-- a logged step: moving to store `s1` and pushing `e` -/
theorem Step.push {s0 : Store} {st : St} {s1 : Store} {e : Undo}
    (hsave : Good s0 st → SaveOk s1) (hn : st.store.n ≤ s1.n)
    (h : Good s0 st → ∀ t, Eqv s0.n s1 t → Eqv s0.n st.store (undo1 t e)) :
    Step s0 st ((st.setStore s1).log e) := by
  intro g
  refine ⟨hsave g, Nat.le_trans g.mono hn, ?_⟩
  intro t ht
  exact g.restores _ (h g t ht)

/-- an unlogged step that the comparison does not see -/
theorem Step.unlogged {s0 : Store} {st : St} {s1 : Store}
    (hsave : Good s0 st → SaveOk s1) (hn : st.store.n ≤ s1.n)
    (h : Good s0 st → ∀ t, Eqv s0.n s1 t → Eqv s0.n st.store t) :
    Step s0 st (st.setStore s1) := by
  intro g
  refine ⟨hsave g, Nat.le_trans g.mono hn, ?_⟩
  intro t ht
  exact g.restores _ (h g t ht)

/-! ### result-monad plumbing -/

theorem step_bind {s0 : Store} {st : St} {r : Res} {g : St → Res} (h1 : Step s0 st r.st)
    (h2 : ∀ st1, r = .ok st1 → Step s0 st1 (g st1).st) : Step s0 st (r.bind g).st := by
  cases r with
  | ok st1 => exact h1.trans (h2 st1 rfl)
  | err e st1 => exact h1

theorem step_iter {s0 : Store} {α : Type} {f : α → St → Res} (hf : ∀ x st, Step s0 st (f x st).st) :
    ∀ (xs : List α) (st : St), Step s0 st (iter f xs st).st := by
  intro xs
  induction xs with
  | nil => intro st; exact Step.refl _ _
  | cons x xs ih => intro st; exact step_bind (hf x st) (fun st1 _ => ih st1)

/-! ### rows -/

theorem upd_row_same (s : Store) (o : ObjId) (f : Row → Row) : (s.upd o f).row o = f (s.row o) := by simp [Store.upd]
theorem upd_row_other (s : Store) (o p : ObjId) (f : Row → Row) (h : p ≠ o) : (s.upd o f).row p = s.row p := by simp [Store.upd, h]

/-- SaveOk only looks at status, savePos and the queue -/
theorem SaveOk.of_eq {s s1 : Store} (h : SaveOk s) (hq : s1.toSave = s.toSave)
    (hr : ∀ o, (s1.row o).savePos = (s.row o).savePos ∧ (s1.row o).status = (s.row o).status) : SaveOk s1 := by
  intro o
  obtain ⟨h1, h2⟩ := h o
  obtain ⟨e1, e2⟩ := hr o
  refine ⟨fun p hp => ?_, fun hs => ?_⟩
  · rw [hq]; exact h1 p (e1 ▸ hp)
  · rw [e1]; exact h2 (e2 ▸ hs)

/-! ### inverse laws on one row -/

theorem unRevAdd_revAdd (r : Row) (c : AttrId) (item : ObjId) (h1 : r.items c item = false) (h2 : r.added c item = false) :
    (r.revAdd c item (r.removed c item)).unRevAdd c item (r.removed c item) = r := by
  cases r with | mk ent status pk savePos wbits val items added removed count =>
  simp only [Row.revAdd, Row.unRevAdd] at *
  congr 1
  · exact set2_undo _ _ _ _ _ h1
  · cases hr : removed c item <;> simp [set2_undo, h2]
  · cases hr : removed c item <;> simp [set2_undo, hr]
  · funext a; simp only [set1]; split <;> simp_all <;> omega

theorem unRevRemove_revRemove (r : Row) (c : AttrId) (item : ObjId) (h1 : r.items c item = true) (h2 : r.removed c item = false) :
    (r.revRemove c item (r.added c item)).unRevRemove c item (r.added c item) = r := by
  cases r with | mk ent status pk savePos wbits val items added removed count =>
  simp only [Row.revRemove, Row.unRevRemove] at *
  congr 1
  · exact set2_undo _ _ _ _ _ h1
  · cases hr : added c item <;> simp [set2_undo, hr]
  · cases hr : added c item <;> simp [set2_undo, h2]
  · funext a; simp only [set1]; split <;> simp_all <;> omega

theorem putColl_putColl (r : Row) (c : AttrId) (i a rm : ObjId → Bool) (n : Int) :
    (r.putColl c i a rm n).putColl c (r.items c) (r.added c) (r.removed c) (r.count c) = r := by
  cases r with | mk ent status pk savePos wbits val items added removed count =>
  simp only [Row.putColl, set1_set1, set1_self]

theorem Row.ext' {r1 r2 : Row} (h1 : r1.ent = r2.ent) (h2 : r1.status = r2.status) (h3 : r1.pk = r2.pk) (h4 : r1.savePos = r2.savePos)
    (h5 : r1.wbits = r2.wbits) (h6 : r1.val = r2.val) (h7 : r1.items = r2.items) (h8 : r1.added = r2.added)
    (h9 : r1.removed = r2.removed) (h10 : r1.count = r2.count) : r1 = r2 := by
  cases r1; cases r2; simp_all

/-- `r2` is `r` except for status, write bits, save position and values -/
def SameBut (r r2 : Row) : Prop :=
  r2.ent = r.ent ∧ r2.pk = r.pk ∧ r2.items = r.items ∧ r2.added = r.added ∧ r2.removed = r.removed ∧ r2.count = r.count

/-- undoing index moves touches the two key indexes only -/
theorem undoMoves_fields (o : ObjId) (moves : List IdxMove) : ∀ (T : Store),
    (moves.foldl (undoMove o) T).n = T.n ∧ (moves.foldl (undoMove o) T).row = T.row ∧ (moves.foldl (undoMove o) T).toSave = T.toSave ∧
    (moves.foldl (undoMove o) T).pkIdx = T.pkIdx ∧ (moves.foldl (undoMove o) T).modColl = T.modColl := by
  induction moves with
  | nil => intro T; exact ⟨rfl, rfl, rfl, rfl, rfl⟩
  | cons m ms ih =>
    intro T
    simp only [List.foldl_cons]
    obtain ⟨a, b, c, d, e⟩ := ih (undoMove o T m)
    rw [a, b, c, d, e]
    cases m <;> exact ⟨rfl, rfl, rfl, rfl, rfl⟩

/-- the value restore of the closure: Attribute.__set__ writes the old value back, Entity.set does not touch values -/
def fixVal (oa : Option (AttrId × Option Nat)) (v : AttrId → Option Nat) : AttrId → Option Nat :=
  match oa with
  | none => v
  | some (a, old) => set1 v a old

theorem upd_id (s : Store) (o : ObjId) : s.upd o (fun r => r) = s := by
  cases s; simp only [Store.upd]; congr 1; funext p; split <;> rfl

/-- the undo closure of Attribute.__set__ / Entity.set against the store `s2` the call produced from `s` -/
theorem markUndo_eqv {k : Nat} {s s2 : Store} {o : ObjId} {pop : Bool} {moves : List IdxMove} (oa : Option (AttrId × Option Nat))
    (hn : s2.n = s.n) (hpk : s2.pkIdx = s.pkIdx) (hmc : s2.modColl = s.modColl)
    (hother : ∀ p, p ≠ o → s2.row p = s.row p)
    (hsame : SameBut (s.row o) (s2.row o))
    (hval : fixVal oa (s2.row o).val = (s.row o).val)
    (hq : if pop then s2.toSave = s.toSave ++ [some o] ∧ (s.row o).savePos = none
          else s2.toSave = s.toSave ∧ (s2.row o).savePos = (s.row o).savePos)
    (hidx : ∀ T : Store, T.idx = s2.idx → T.cidx = s2.cidx →
      (moves.foldl (undoMove o) T).idx = s.idx ∧ (moves.foldl (undoMove o) T).cidx = s.cidx)
    (t : Store) (ht : Eqv k s2 t) :
    Eqv k s (moves.foldl (undoMove o)
      (((if pop then popSave o (t.upd o fun r => { r with status := (s.row o).status, wbits := (s.row o).wbits })
         else (t.upd o fun r => { r with status := (s.row o).status, wbits := (s.row o).wbits })).upd o
            fun r => { r with val := fixVal oa r.val }))) := by
  generalize hT : ((if pop then popSave o (t.upd o fun r => { r with status := (s.row o).status, wbits := (s.row o).wbits })
         else (t.upd o fun r => { r with status := (s.row o).status, wbits := (s.row o).wbits })).upd o
            fun r => { r with val := fixVal oa r.val }) = T
  obtain ⟨f1, f2, f3, f4, f5⟩ := undoMoves_fields o moves T
  have hTn : T.n = t.n := by subst hT; cases pop <;> rfl
  have hTpk : T.pkIdx = t.pkIdx := by subst hT; cases pop <;> rfl
  have hTmc : T.modColl = t.modColl := by subst hT; cases pop <;> rfl
  have hTidx : T.idx = t.idx := by subst hT; cases pop <;> rfl
  have hTcidx : T.cidx = t.cidx := by subst hT; cases pop <;> rfl
  have hTq : T.toSave = if pop then t.toSave.dropLast else t.toSave := by subst hT; cases pop <;> rfl
  have hTother : ∀ p, p ≠ o → T.row p = t.row p := by
    intro p hp; subst hT; cases pop <;> simp [popSave, Store.upd, hp]
  have hTo : T.row o = { (t.row o) with status := (s.row o).status, wbits := (s.row o).wbits,
                                        savePos := if pop then none else (t.row o).savePos, val := fixVal oa (t.row o).val } := by
    subst hT; cases pop <;> simp [popSave, Store.upd]
  obtain ⟨i1, i2⟩ := hidx T (hTidx.trans ht.idx.symm) (hTcidx.trans ht.cidx.symm)
  refine ⟨?_, ?_, ?_, i1.symm, i2.symm, ?_, ?_, ?_⟩
  · rw [f1, hTn, ← ht.n, hn]
  · rw [f3, hTq, ← ht.toSave]
    cases pop
    · simp only [Bool.false_eq_true, if_false] at hq ⊢; exact hq.1.symm
    · simp only [if_true] at hq ⊢; rw [hq.1, List.dropLast_concat]
  · rw [f4, hTpk, ← ht.pkIdx, hpk]
  · rw [f5, hTmc, ← ht.modColl, hmc]
  · intro p hp
    rw [f2]
    by_cases hpo : p = o
    · rw [hpo, hTo]
    · rw [hTother p hpo, ← ht.status p (hn ▸ hp), hother p hpo]
  · intro p hp
    rw [f2]
    by_cases hpo : p = o
    · rw [hpo] at hp ⊢
      rw [hTo]
      have e := ht.row o hp
      obtain ⟨b1, b2, b3, b4, b5, b6⟩ := hsame
      apply Row.ext'
      · show _ = (t.row o).ent; rw [← e, b1]
      · rfl
      · show _ = (t.row o).pk; rw [← e, b2]
      · show _ = (if pop then none else (t.row o).savePos)
        cases pop
        · simp only [Bool.false_eq_true, if_false] at hq ⊢; rw [← e, hq.2]
        · simp only [if_true] at hq ⊢; exact hq.2
      · rfl
      · show _ = fixVal oa (t.row o).val; rw [← e, hval]
      · show _ = (t.row o).items; rw [← e, b3]
      · show _ = (t.row o).added; rw [← e, b4]
      · show _ = (t.row o).removed; rw [← e, b5]
      · show _ = (t.row o).count; rw [← e, b6]
    · rw [hTother p hpo, ← ht.row p hp, hother p hpo]

/-- what the start of Attribute.__set__ / Entity.set (and a following value write to the same row) does to the store -/
structure MarkSpec (s : Store) (o : ObjId) (s1 : Store) (pop : Bool) : Prop where
  n : s1.n = s.n
  pkIdx : s1.pkIdx = s.pkIdx
  idx : s1.idx = s.idx
  cidx : s1.cidx = s.cidx
  modColl : s1.modColl = s.modColl
  other : ∀ p, p ≠ o → s1.row p = s.row p
  same : SameBut (s.row o) (s1.row o)
  q : if pop then s1.toSave = s.toSave ++ [some o] ∧ ((s.row o).status = .inserted ∨ (s.row o).status = .updated) ∧
                  (s1.row o).savePos = some s.toSave.length ∧ (s1.row o).status = .modified
      else s1.toSave = s.toSave ∧ (s1.row o).savePos = (s.row o).savePos ∧ (s1.row o).status = (s.row o).status

theorem mark_spec (o : ObjId) (bits : List AttrId) (force : Bool) (s : Store) :
    MarkSpec s o (mark o bits force s).1 (mark o bits force s).2 ∧ ((mark o bits force s).1.row o).val = (s.row o).val := by
  unfold mark
  dsimp only
  have hrefl : MarkSpec s o s false := ⟨rfl, rfl, rfl, rfl, rfl, fun _ _ => rfl, ⟨rfl, rfl, rfl, rfl, rfl, rfl⟩, ⟨rfl, rfl, rfl⟩⟩
  split
  · exact ⟨hrefl, rfl⟩
  · split
    · exact ⟨hrefl, rfl⟩
    · split
      · rename_i hs
        refine ⟨⟨rfl, rfl, rfl, rfl, rfl, ?_, ?_, ?_⟩, ?_⟩
        · intro p hp; simp [Store.upd, hp]
        · simp [SameBut, Store.upd]
        · simp only [if_true]
          refine ⟨rfl, by simpa using hs, ?_, ?_⟩ <;> simp [Store.upd]
        · simp [Store.upd]
      · refine ⟨⟨rfl, rfl, rfl, rfl, rfl, ?_, ?_, ?_⟩, ?_⟩
        · intro p hp; simp [Store.upd, hp]
        · simp [SameBut, Store.upd]
        · simp [Store.upd]
        · simp [Store.upd]

/-- a value write to the marked row keeps the specification -/
theorem MarkSpec.setVal {s s1 : Store} {o : ObjId} {pop : Bool} (h : MarkSpec s o s1 pop) (v : AttrId → Option Nat) :
    MarkSpec s o (s1.upd o fun r => { r with val := v }) pop := by
  obtain ⟨a1, a2, a3, a4, a5, a6, a7, a8⟩ := h
  refine ⟨a1, a2, a3, a4, a5, ?_, ?_, ?_⟩
  · intro p hp; rw [upd_row_other _ _ _ _ hp]; exact a6 p hp
  · rw [upd_row_same]; exact a7
  · rw [upd_row_same]; exact a8

theorem MarkSpec.saveOk {s s1 : Store} {o : ObjId} {pop : Bool} (h : MarkSpec s o s1 pop) (hs : SaveOk s) : SaveOk s1 := by
  intro p
  obtain ⟨h1, h2⟩ := hs p
  cases pop
  · have hq := h.q; simp only [Bool.false_eq_true, if_false] at hq
    by_cases hp : p = o
    · rw [hp] at h1 h2 ⊢; rw [hq.1, hq.2.1, hq.2.2]; exact ⟨h1, h2⟩
    · rw [h.other p hp, hq.1]; exact ⟨h1, h2⟩
  · have hq := h.q; simp only [if_true] at hq
    by_cases hp : p = o
    · rw [hp]
      refine ⟨fun q hq' => ?_, fun hst => ?_⟩
      · rw [hq.2.2.1] at hq'
        cases hq'
        rw [hq.1]; simp
      · rw [hq.2.2.2] at hst; rcases hst with hst | hst <;> cases hst
    · rw [h.other p hp, hq.1]
      refine ⟨fun q hq' => ?_, h2⟩
      have := h1 q hq'
      rw [List.getElem?_append_left]
      · exact this
      · by_cases hlt : q < s.toSave.length
        · exact hlt
        · rw [List.getElem?_eq_none (Nat.le_of_not_lt hlt)] at this; cases this

/-- pushing the closure of Attribute.__set__ (`oa = some (a, old value)`) / Entity.set (`oa = none`) after the marking, value write and index moves -/
theorem step_markEntry {s0 : Store} {st : St} {s2 : Store} {o : ObjId} {pop : Bool} {moves : List IdxMove} (e : Undo) (oa : Option (AttrId × Option Nat))
    (hspec : MarkSpec st.store o s2 pop) (hval : fixVal oa (s2.row o).val = (st.store.row o).val)
    (hundo : ∀ t, undo1 t e = moves.foldl (undoMove o)
      (((if pop then popSave o (t.upd o fun r => { r with status := (st.store.row o).status, wbits := (st.store.row o).wbits })
         else (t.upd o fun r => { r with status := (st.store.row o).status, wbits := (st.store.row o).wbits })).upd o
            fun r => { r with val := fixVal oa r.val })))
    (hidx : Good s0 st → ∀ T : Store, T.idx = s2.idx → T.cidx = s2.cidx →
      (moves.foldl (undoMove o) T).idx = st.store.idx ∧ (moves.foldl (undoMove o) T).cidx = st.store.cidx) :
    Step s0 st ((st.setStore s2).log e) := by
  apply Step.push
  · intro g; exact hspec.saveOk g.save
  · exact Nat.le_of_eq hspec.n.symm
  · intro g t ht
    rw [hundo t]
    refine markUndo_eqv oa hspec.n hspec.pkIdx hspec.modColl hspec.other hspec.same hval ?_ (hidx g) t ht
    have hq := hspec.q
    cases pop
    · simp only [Bool.false_eq_true, if_false] at hq ⊢; exact ⟨hq.1, hq.2.1⟩
    · simp only [if_true] at hq ⊢; exact ⟨hq.1, (g.save o).2 hq.2.1⟩

/-! ### the primitive steps -/

section prims
variable {s0 : Store}

theorem step_touchKey (c : AttrId) (st : St) : Step s0 st (touchKey c st) := by
  unfold touchKey
  apply Step.unlogged
  · intro g; exact g.save.of_eq rfl (fun o => ⟨rfl, rfl⟩)
  · exact Nat.le_refl _
  · intro g t ht; exact ⟨ht.n, ht.toSave, ht.pkIdx, ht.idx, ht.cidx, ht.modColl, ht.status, ht.row⟩

/-- a logged step that rewrites one row with `f`, sets `modColl c obj`, and whose undo rewrites the row with `g` and
    restores `modColl c obj` -/
theorem step_rowMod (st : St) (c : AttrId) (obj : ObjId) (f g : Row → Row) (e : Undo)
    (hundo : ∀ t, undo1 t e = (if st.store.modColl c obj then t.upd obj g else { (t.upd obj g) with modColl := set2 (t.upd obj g).modColl c obj false }))
    (hinv : g (f (st.store.row obj)) = st.store.row obj)
    (hf : ∀ r, (f r).status = r.status ∧ (f r).savePos = r.savePos)
    (hg : ∀ r, (g r).status = r.status) :
    Step s0 st ((st.setStore { (st.store.upd obj f) with modColl := set2 (st.store.upd obj f).modColl c obj true }).log e) := by
  apply Step.push
  · intro gd
    refine SaveOk.of_eq (s := st.store) gd.save rfl ?_
    intro o
    show ((st.store.upd obj f).row o).savePos = _ ∧ ((st.store.upd obj f).row o).status = _
    by_cases ho : o = obj
    · subst ho; simp only [upd_row_same]; exact ⟨(hf _).2, (hf _).1⟩
    · rw [upd_row_other _ _ _ _ ho]; exact ⟨rfl, rfl⟩
  · exact Nat.le_refl _
  · intro gd t ht
    rw [hundo t]
    have hmc : t.modColl = set2 st.store.modColl c obj true := ht.modColl.symm
    have hrows : ∀ p, p < s0.n → (t.upd obj g).row p = st.store.row p := by
      intro p hp
      have := ht.row p hp
      by_cases hpo : p = obj
      · subst hpo
        simp only [upd_row_same] at this ⊢
        rw [← this, hinv]
      · simp only [upd_row_other _ _ _ _ hpo] at this ⊢
        exact this.symm
    have hstat : ∀ p, p < st.store.n → (st.store.row p).status = ((t.upd obj g).row p).status := by
      intro p hp
      have := ht.status p hp
      by_cases hpo : p = obj
      · subst hpo
        simp only [upd_row_same] at this ⊢
        rw [hg, ← this, (hf _).1]
      · simp only [upd_row_other _ _ _ _ hpo] at this ⊢
        exact this
    cases hm : st.store.modColl c obj
    · simp only [Bool.false_eq_true, if_false]
      refine ⟨ht.n, ht.toSave, ht.pkIdx, ht.idx, ht.cidx, ?_, hstat, fun p hp => (hrows p hp).symm⟩
      show st.store.modColl = set2 t.modColl c obj false
      rw [hmc]; exact (set2_undo _ _ _ _ _ hm).symm
    · simp only [if_true]
      refine ⟨ht.n, ht.toSave, ht.pkIdx, ht.idx, ht.cidx, ?_, hstat, fun p hp => (hrows p hp).symm⟩
      show st.store.modColl = t.modColl
      rw [hmc, ← hm, set2_self]

theorem step_reverseAdd1 (c : AttrId) (item obj : ObjId) (st : St) : Step s0 st (reverseAdd1 c item obj st).st := by
  unfold reverseAdd1
  dsimp only
  split
  · exact Step.refl _ _
  · rename_i hchk
    simp only [Bool.or_eq_true, not_or, Bool.not_eq_true] at hchk
    exact step_rowMod st c obj (fun r => r.revAdd c item ((st.store.row obj).removed c item))
      (fun r => r.unRevAdd c item ((st.store.row obj).removed c item))
      (Undo.revAdd c obj item ((st.store.row obj).removed c item) (st.store.modColl c obj)) (fun t => rfl)
      (unRevAdd_revAdd _ c item hchk.1 hchk.2) (fun r => ⟨rfl, rfl⟩) (fun r => rfl)

theorem step_reverseRemove1 (c : AttrId) (item obj : ObjId) (st : St) : Step s0 st (reverseRemove1 c item obj st).st := by
  unfold reverseRemove1
  dsimp only
  split
  · exact Step.refl _ _
  · rename_i hchk
    simp only [Bool.or_eq_true, not_or, Bool.not_eq_true, Bool.not_eq_eq_eq_not, Bool.not_true, Bool.not_false] at hchk
    exact step_rowMod st c obj (fun r => r.revRemove c item ((st.store.row obj).added c item))
      (fun r => r.unRevRemove c item ((st.store.row obj).added c item))
      (Undo.revRemove c obj item ((st.store.row obj).added c item) (st.store.modColl c obj)) (fun t => rfl)
      (unRevRemove_revRemove _ c item (by simpa using hchk.1) hchk.2) (fun r => ⟨rfl, rfl⟩) (fun r => rfl)

theorem step_reverseAdd (c : AttrId) (objs : List ObjId) (item : ObjId) (st : St) : Step s0 st (reverseAdd c objs item st).st :=
  (step_touchKey c st).trans (step_iter (fun obj st => step_reverseAdd1 c item obj st) objs _)

theorem step_reverseRemove (c : AttrId) (objs : List ObjId) (item : ObjId) (st : St) : Step s0 st (reverseRemove c objs item st).st :=
  (step_touchKey c st).trans (step_iter (fun obj st => step_reverseRemove1 c item obj st) objs _)

end prims

end PonyVerif.Model.Undo
