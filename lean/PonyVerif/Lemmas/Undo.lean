/-
  Lemmas/Undo.lean — the do/undo structure of Model/Undo.lean: every registered undo entry is the inverse of the
  mutation it was registered for, undo lists compose, every failing path runs the whole list.
-/
import PonyVerif.Model.Undo
namespace PonyVerif.Model.Undo

/-! ### small function-update algebra -/

theorem set1_self {β : Type} (f : Nat → β) (a : Nat) : set1 f a (f a) = f := by
  funext x; simp only [set1]; split <;> simp_all
theorem set1_set1 {β : Type} (f : Nat → β) (a : Nat) (b c : β) : set1 (set1 f a b) a c = set1 f a c := by
  funext x; simp only [set1]; split <;> simp_all
theorem set1_same {β : Type} (f : Nat → β) (a : Nat) (b : β) : set1 f a b a = b := by simp [set1]
theorem set2_same {β : Type} (f : Nat → Nat → β) (a x : Nat) (b : β) : set2 f a x b a x = b := by simp [set2]
theorem set2_self {β : Type} (f : Nat → Nat → β) (a x : Nat) : set2 f a x (f a x) = f := by
  funext a' x'; simp only [set2]; split
  · rename_i h; rw [h.1, h.2]
  · rfl
theorem set2_set2 {β : Type} (f : Nat → Nat → β) (a x : Nat) (b c : β) : set2 (set2 f a x b) a x c = set2 f a x c := by
  funext a' x'; simp only [set2]; split <;> simp_all
theorem set2_undo {β : Type} (f : Nat → Nat → β) (a x : Nat) (b c : β) (h : f a x = c) : set2 (set2 f a x b) a x c = f := by
  rw [set2_set2, ← h, set2_self]
theorem setK_set {β : Type} (f : Nat → List Nat → β) (k : Nat) (vs : List Nat) (b c : β) : setK (setK f k vs b) k vs c = setK f k vs c := by
  funext a' x'; simp only [setK]; split <;> simp_all
theorem setK_self {β : Type} (f : Nat → List Nat → β) (k : Nat) (vs : List Nat) : setK f k vs (f k vs) = f := by
  funext a' x'; simp only [setK]; split
  · rename_i h; rw [h.1, h.2]
  · rfl
theorem setK_undo {β : Type} (f : Nat → List Nat → β) (k : Nat) (vs : List Nat) (b c : β) (h : f k vs = c) : setK (setK f k vs b) k vs c = f := by
  rw [setK_set, ← h, setK_self]

/-! ### the relation "equal as far as the session that existed before the call is concerned" -/

/-- `s` and `t` have the same objects, the same session-level tables, the same statuses, and the same rows below `k`
    (`cache.modified`, the key set of `modified_collections` and the ghost list `seen` are not compared) -/
structure Eqv (k : Nat) (s t : Store) : Prop where
  n : s.n = t.n
  toSave : s.toSave = t.toSave
  pkIdx : s.pkIdx = t.pkIdx
  idx : s.idx = t.idx
  cidx : s.cidx = t.cidx
  modColl : s.modColl = t.modColl
  status : ∀ o, o < s.n → (s.row o).status = (t.row o).status
  row : ∀ o, o < k → s.row o = t.row o

theorem Eqv.refl (k : Nat) (s : Store) : Eqv k s s := ⟨rfl, rfl, rfl, rfl, rfl, rfl, fun _ _ => rfl, fun _ _ => rfl⟩
theorem Eqv.symm {k : Nat} {s t : Store} (h : Eqv k s t) : Eqv k t s :=
  ⟨h.n.symm, h.toSave.symm, h.pkIdx.symm, h.idx.symm, h.cidx.symm, h.modColl.symm,
   fun o ho => (h.status o (h.n ▸ ho)).symm, fun o ho => (h.row o ho).symm⟩
theorem Eqv.trans {k : Nat} {s t u : Store} (h1 : Eqv k s t) (h2 : Eqv k t u) : Eqv k s u :=
  ⟨h1.n.trans h2.n, h1.toSave.trans h2.toSave, h1.pkIdx.trans h2.pkIdx, h1.idx.trans h2.idx, h1.cidx.trans h2.cidx,
   h1.modColl.trans h2.modColl, fun o ho => (h1.status o ho).trans (h2.status o (h1.n ▸ ho)),
   fun o ho => (h1.row o ho).trans (h2.row o ho)⟩

/-- the save queue and the `_save_pos_` fields agree -/
def SaveOk (s : Store) : Prop :=
  ∀ o, (∀ p, (s.row o).savePos = some p → s.toSave[p]? = some (some o)) ∧
       ((s.row o).status = .inserted ∨ (s.row o).status = .updated → (s.row o).savePos = none)

/-- running the trail from (a store equivalent to) the current store restores the store the call started from -/
def Restores (s0 : Store) (st : St) : Prop :=
  ∀ t, Eqv s0.n st.store t → Eqv s0.n (undoAll st.trail t) s0

structure Good (s0 : Store) (st : St) : Prop where
  save : SaveOk st.store
  mono : s0.n ≤ st.store.n
  restores : Restores s0 st

/-- the relation between the state before and after a piece of a call -/
def Step (s0 : Store) (st st' : St) : Prop := Good s0 st → Good s0 st'

theorem Step.refl (s0 : Store) (st : St) : Step s0 st st := id
theorem Step.trans {s0 : Store} {st st1 st2 : St} (h1 : Step s0 st st1) (h2 : Step s0 st1 st2) : Step s0 st st2 :=
  fun h => h2 (h1 h)

/-- a logged step: moving to store `s1` and pushing `e` -/
theorem Step.push {s0 : Store} {st : St} {s1 : Store} {e : Undo}
    (hsave : Good s0 st → SaveOk s1) (hn : st.store.n ≤ s1.n)
    (h : Good s0 st → ∀ t, Eqv s0.n s1 t → Eqv s0.n st.store (undo1 t e)) :
    Step s0 st ((st.setStore s1).log e) := by
  intro g
  refine ⟨hsave g, Nat.le_trans g.mono hn, ?_⟩
  intro t ht
  exact g.restores _ (h g t ht)

/-- an unlogged step that the comparison does not see -/
theorem Step.unlogged {s0 : Store} {st : St} {s1 : Store}
    (hsave : Good s0 st → SaveOk s1) (hn : st.store.n ≤ s1.n)
    (h : Good s0 st → ∀ t, Eqv s0.n s1 t → Eqv s0.n st.store t) :
    Step s0 st (st.setStore s1) := by
  intro g
  refine ⟨hsave g, Nat.le_trans g.mono hn, ?_⟩
  intro t ht
  exact g.restores _ (h g t ht)

/-! ### result-monad plumbing -/

theorem step_bind {s0 : Store} {st : St} {r : Res} {g : St → Res} (h1 : Step s0 st r.st)
    (h2 : ∀ st1, r = .ok st1 → Step s0 st1 (g st1).st) : Step s0 st (r.bind g).st := by
  cases r with
  | ok st1 => exact h1.trans (h2 st1 rfl)
  | err e st1 => exact h1

theorem step_iter {s0 : Store} {α : Type} {f : α → St → Res} (hf : ∀ x st, Step s0 st (f x st).st) :
    ∀ (xs : List α) (st : St), Step s0 st (iter f xs st).st := by
  intro xs
  induction xs with
  | nil => intro st; exact Step.refl _ _
  | cons x xs ih => intro st; exact step_bind (hf x st) (fun st1 _ => ih st1)

/-! ### rows -/

theorem upd_row_same (s : Store) (o : ObjId) (f : Row → Row) : (s.upd o f).row o = f (s.row o) := by simp [Store.upd]
theorem upd_row_other (s : Store) (o p : ObjId) (f : Row → Row) (h : p ≠ o) : (s.upd o f).row p = s.row p := by simp [Store.upd, h]

/-- SaveOk only looks at status, savePos and the queue -/
theorem SaveOk.of_eq {s s1 : Store} (h : SaveOk s) (hq : s1.toSave = s.toSave)
    (hr : ∀ o, (s1.row o).savePos = (s.row o).savePos ∧ (s1.row o).status = (s.row o).status) : SaveOk s1 := by
  intro o
  obtain ⟨h1, h2⟩ := h o
  obtain ⟨e1, e2⟩ := hr o
  refine ⟨fun p hp => ?_, fun hs => ?_⟩
  · rw [hq]; exact h1 p (e1 ▸ hp)
  · rw [e1]; exact h2 (e2 ▸ hs)

/-! ### inverse laws on one row -/

theorem unRevAdd_revAdd (r : Row) (c : AttrId) (item : ObjId) (h1 : r.items c item = false) (h2 : r.added c item = false) :
    (r.revAdd c item (r.removed c item)).unRevAdd c item (r.removed c item) = r := by
  cases r with | mk ent status pk savePos wbits val items added removed count =>
  simp only [Row.revAdd, Row.unRevAdd] at *
  congr 1
  · exact set2_undo _ _ _ _ _ h1
  · cases hr : removed c item <;> simp [set2_undo, h2]
  · cases hr : removed c item <;> simp [set2_undo, hr]
  · funext a; simp only [set1]; split <;> simp_all <;> omega

theorem unRevRemove_revRemove (r : Row) (c : AttrId) (item : ObjId) (h1 : r.items c item = true) (h2 : r.removed c item = false) :
    (r.revRemove c item (r.added c item)).unRevRemove c item (r.added c item) = r := by
  cases r with | mk ent status pk savePos wbits val items added removed count =>
  simp only [Row.revRemove, Row.unRevRemove] at *
  congr 1
  · exact set2_undo _ _ _ _ _ h1
  · cases hr : added c item <;> simp [set2_undo, hr]
  · cases hr : added c item <;> simp [set2_undo, h2]
  · funext a; simp only [set1]; split <;> simp_all <;> omega

theorem putColl_putColl (r : Row) (c : AttrId) (i a rm : ObjId → Bool) (n : Int) :
    (r.putColl c i a rm n).putColl c (r.items c) (r.added c) (r.removed c) (r.count c) = r := by
  cases r with | mk ent status pk savePos wbits val items added removed count =>
  simp only [Row.putColl, set1_set1, set1_self]

end PonyVerif.Model.Undo
