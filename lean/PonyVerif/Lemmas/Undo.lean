/-
  Lemmas/Undo.lean — the do/undo structure of Model/Undo.lean: every registered undo entry is the inverse of the
  mutation it was registered for, undo lists compose, every failing path runs the whole list.
-/
import PonyVerif.Model.Undo
set_option linter.unusedSimpArgs false
namespace PonyVerif.Model.Undo

/-! ### small function-update algebra -/

theorem set1_self {β : Type} (f : Nat → β) (a : Nat) : set1 f a (f a) = f := by
  funext x; simp only [set1]; split <;> simp_all
theorem set1_set1 {β : Type} (f : Nat → β) (a : Nat) (b c : β) : set1 (set1 f a b) a c = set1 f a c := by
  funext x; simp only [set1]; split <;> simp_all
theorem set1_same {β : Type} (f : Nat → β) (a : Nat) (b : β) : set1 f a b a = b := by simp [set1]
theorem set2_same {β : Type} (f : Nat → Nat → β) (a x : Nat) (b : β) : set2 f a x b a x = b := by simp [set2]
theorem set2_self {β : Type} (f : Nat → Nat → β) (a x : Nat) : set2 f a x (f a x) = f := by
  funext a' x'; simp only [set2]; split
  · rename_i h; rw [h.1, h.2]
  · rfl
theorem set2_set2 {β : Type} (f : Nat → Nat → β) (a x : Nat) (b c : β) : set2 (set2 f a x b) a x c = set2 f a x c := by
  funext a' x'; simp only [set2]; split <;> simp_all
theorem set2_undo {β : Type} (f : Nat → Nat → β) (a x : Nat) (b c : β) (h : f a x = c) : set2 (set2 f a x b) a x c = f := by
  rw [set2_set2, ← h, set2_self]
theorem setK_set {β : Type} (f : Nat → List Nat → β) (k : Nat) (vs : List Nat) (b c : β) : setK (setK f k vs b) k vs c = setK f k vs c := by
  funext a' x'; simp only [setK]; split <;> simp_all
theorem setK_self {β : Type} (f : Nat → List Nat → β) (k : Nat) (vs : List Nat) : setK f k vs (f k vs) = f := by
  funext a' x'; simp only [setK]; split
  · rename_i h; rw [h.1, h.2]
  · rfl
theorem setK_undo {β : Type} (f : Nat → List Nat → β) (k : Nat) (vs : List Nat) (b c : β) (h : f k vs = c) : setK (setK f k vs b) k vs c = f := by
  rw [setK_set, ← h, setK_self]

/-! ### the relation "equal as far as the session that existed before the call is concerned" -/

/-- `s` and `t` have the same objects, the same session-level tables, the same statuses, and the same rows below `k`
    (`cache.modified`, the key set of `modified_collections` and the ghost list `seen` are not compared) -/
structure Eqv (k : Nat) (s t : Store) : Prop where
  n : s.n = t.n
  toSave : s.toSave = t.toSave
  pkIdx : s.pkIdx = t.pkIdx
  idx : s.idx = t.idx
  cidx : s.cidx = t.cidx
  modColl : s.modColl = t.modColl
  status : ∀ o, o < s.n → (s.row o).status = (t.row o).status
  row : ∀ o, o < k → s.row o = t.row o

theorem Eqv.refl (k : Nat) (s : Store) : Eqv k s s := ⟨rfl, rfl, rfl, rfl, rfl, rfl, fun _ _ => rfl, fun _ _ => rfl⟩
theorem Eqv.symm {k : Nat} {s t : Store} (h : Eqv k s t) : Eqv k t s :=
  ⟨h.n.symm, h.toSave.symm, h.pkIdx.symm, h.idx.symm, h.cidx.symm, h.modColl.symm,
   fun o ho => (h.status o (h.n ▸ ho)).symm, fun o ho => (h.row o ho).symm⟩
theorem Eqv.trans {k : Nat} {s t u : Store} (h1 : Eqv k s t) (h2 : Eqv k t u) : Eqv k s u :=
  ⟨h1.n.trans h2.n, h1.toSave.trans h2.toSave, h1.pkIdx.trans h2.pkIdx, h1.idx.trans h2.idx, h1.cidx.trans h2.cidx,
   h1.modColl.trans h2.modColl, fun o ho => (h1.status o ho).trans (h2.status o (h1.n ▸ ho)),
   fun o ho => (h1.row o ho).trans (h2.row o ho)⟩

/-- the save queue and the `_save_pos_` fields agree -/
def SaveOk (s : Store) : Prop :=
  ∀ o, o < s.n → (∀ p, (s.row o).savePos = some p → s.toSave[p]? = some (some o)) ∧
       ((s.row o).status.queued = false → (s.row o).savePos = none)

/-- running the trail from (a store equivalent to) the current store restores the store the call started from -/
def Restores (s0 : Store) (st : St) : Prop :=
  ∀ t, Eqv s0.n st.store t → Eqv s0.n (undoAll st.trail t) s0

structure Good (s0 : Store) (st : St) : Prop where
  save : SaveOk st.store
  mono : s0.n ≤ st.store.n
  restores : Restores s0 st

/-- the relation between the state before and after a piece of a call -/
structure Step (s0 : Store) (st st' : St) : Prop where
  good : Good s0 st → Good s0 st'
  mono : st.store.n ≤ st'.store.n

theorem Step.refl (s0 : Store) (st : St) : Step s0 st st := ⟨id, Nat.le_refl _⟩
theorem Step.trans {s0 : Store} {st st1 st2 : St} (h1 : Step s0 st st1) (h2 : Step s0 st1 st2) : Step s0 st st2 :=
  ⟨fun h => h2.good (h1.good h), Nat.le_trans h1.mono h2.mono⟩

/-- a logged step: moving to store `s1` and pushing `e` -/
theorem Step.push {s0 : Store} {st : St} {s1 : Store} {e : Undo}
    (hsave : Good s0 st → SaveOk s1) (hn : st.store.n ≤ s1.n)
    (h : Good s0 st → ∀ t, Eqv s0.n s1 t → Eqv s0.n st.store (undo1 t e)) :
    Step s0 st ((st.setStore s1).log e) := by
  refine ⟨fun g => ⟨hsave g, Nat.le_trans g.mono hn, ?_⟩, hn⟩
  intro t ht
  exact g.restores _ (h g t ht)

/-- an unlogged step that the comparison does not see -/
theorem Step.unlogged {s0 : Store} {st : St} {s1 : Store}
    (hsave : Good s0 st → SaveOk s1) (hn : st.store.n ≤ s1.n)
    (h : Good s0 st → ∀ t, Eqv s0.n s1 t → Eqv s0.n st.store t) :
    Step s0 st (st.setStore s1) := by
  refine ⟨fun g => ⟨hsave g, Nat.le_trans g.mono hn, ?_⟩, hn⟩
  intro t ht
  exact g.restores _ (h g t ht)

/-! ### result-monad plumbing -/

theorem step_bind {s0 : Store} {st : St} {r : Res} {g : St → Res} (h1 : Step s0 st r.st)
    (h2 : ∀ st1, r = .ok st1 → Step s0 st1 (g st1).st) : Step s0 st (r.bind g).st := by
  cases r with
  | ok st1 => exact h1.trans (h2 st1 rfl)
  | err e st1 => exact h1

theorem step_iter {s0 : Store} {α : Type} {f : α → St → Res} (hf : ∀ x st, Step s0 st (f x st).st) :
    ∀ (xs : List α) (st : St), Step s0 st (iter f xs st).st := by
  intro xs
  induction xs with
  | nil => intro st; exact Step.refl _ _
  | cons x xs ih => intro st; exact step_bind (hf x st) (fun st1 _ => ih st1)

/-! ### rows -/

theorem upd_row_same (s : Store) (o : ObjId) (f : Row → Row) : (s.upd o f).row o = f (s.row o) := by simp [Store.upd]
theorem upd_row_other (s : Store) (o p : ObjId) (f : Row → Row) (h : p ≠ o) : (s.upd o f).row p = s.row p := by simp [Store.upd, h]

/-- SaveOk only looks at status, savePos and the queue -/
theorem SaveOk.of_eq {s s1 : Store} (h : SaveOk s) (hq : s1.toSave = s.toSave) (hn : s1.n = s.n)
    (hr : ∀ o, (s1.row o).savePos = (s.row o).savePos ∧ (s1.row o).status = (s.row o).status) : SaveOk s1 := by
  intro o ho
  obtain ⟨h1, h2⟩ := h o (hn ▸ ho)
  obtain ⟨e1, e2⟩ := hr o
  refine ⟨fun p hp => ?_, fun hs => ?_⟩
  · rw [hq]; exact h1 p (e1 ▸ hp)
  · rw [e1]; exact h2 (e2 ▸ hs)

/-! ### inverse laws on one row -/

theorem unRevAdd_revAdd (r : Row) (c : AttrId) (item : ObjId) (h1 : r.items c item = false) (h2 : r.added c item = false) :
    (r.revAdd c item (r.removed c item)).unRevAdd c item (r.removed c item) = r := by
  cases r with | mk ent status pk savePos wbits val items added removed count =>
  simp only [Row.revAdd, Row.unRevAdd] at *
  congr 1
  · exact set2_undo _ _ _ _ _ h1
  · cases hr : removed c item <;> simp [set2_undo, h2]
  · cases hr : removed c item <;> simp [set2_undo, hr]
  · funext a; simp only [set1]; split <;> simp_all <;> omega

theorem unRevRemove_revRemove (r : Row) (c : AttrId) (item : ObjId) (h1 : r.items c item = true) (h2 : r.removed c item = false) :
    (r.revRemove c item (r.added c item)).unRevRemove c item (r.added c item) = r := by
  cases r with | mk ent status pk savePos wbits val items added removed count =>
  simp only [Row.revRemove, Row.unRevRemove] at *
  congr 1
  · exact set2_undo _ _ _ _ _ h1
  · cases hr : added c item <;> simp [set2_undo, hr]
  · cases hr : added c item <;> simp [set2_undo, h2]
  · funext a; simp only [set1]; split <;> simp_all <;> omega

theorem putColl_putColl (r : Row) (c : AttrId) (i a rm : ObjId → Bool) (n : Int) :
    (r.putColl c i a rm n).putColl c (r.items c) (r.added c) (r.removed c) (r.count c) = r := by
  cases r with | mk ent status pk savePos wbits val items added removed count =>
  simp only [Row.putColl, set1_set1, set1_self]

theorem Row.ext' {r1 r2 : Row} (h1 : r1.ent = r2.ent) (h2 : r1.status = r2.status) (h3 : r1.pk = r2.pk) (h4 : r1.savePos = r2.savePos)
    (h5 : r1.wbits = r2.wbits) (h6 : r1.val = r2.val) (h7 : r1.items = r2.items) (h8 : r1.added = r2.added)
    (h9 : r1.removed = r2.removed) (h10 : r1.count = r2.count) : r1 = r2 := by
  cases r1; cases r2; simp_all

/-- `r2` is `r` except for status, write bits, save position and values -/
def SameBut (r r2 : Row) : Prop :=
  r2.ent = r.ent ∧ r2.pk = r.pk ∧ r2.items = r.items ∧ r2.added = r.added ∧ r2.removed = r.removed ∧ r2.count = r.count

/-- undoing index moves touches the two key indexes only -/
theorem undoMoves_fields (o : ObjId) (moves : List IdxMove) : ∀ (T : Store),
    (moves.foldl (undoMove o) T).n = T.n ∧ (moves.foldl (undoMove o) T).row = T.row ∧ (moves.foldl (undoMove o) T).toSave = T.toSave ∧
    (moves.foldl (undoMove o) T).pkIdx = T.pkIdx ∧ (moves.foldl (undoMove o) T).modColl = T.modColl := by
  induction moves with
  | nil => intro T; exact ⟨rfl, rfl, rfl, rfl, rfl⟩
  | cons m ms ih =>
    intro T
    simp only [List.foldl_cons]
    obtain ⟨a, b, c, d, e⟩ := ih (undoMove o T m)
    rw [a, b, c, d, e]
    cases m <;> exact ⟨rfl, rfl, rfl, rfl, rfl⟩

/-- the value restore of the closure: Attribute.__set__ writes the old value back, Entity.set does not touch values -/
def fixVal (oa : Option (AttrId × Option Nat)) (v : AttrId → Option Nat) : AttrId → Option Nat :=
  match oa with
  | none => v
  | some (a, old) => set1 v a old

theorem upd_id (s : Store) (o : ObjId) : s.upd o (fun r => r) = s := by
  cases s; simp only [Store.upd]; congr 1; funext p; split <;> rfl

/-- the undo closure of Attribute.__set__ / Entity.set against the store `s2` the call produced from `s` -/
theorem markUndo_eqv {k : Nat} {s s2 : Store} {o : ObjId} {pop : Bool} {moves : List IdxMove} (oa : Option (AttrId × Option Nat))
    (hn : s2.n = s.n) (hpk : s2.pkIdx = s.pkIdx) (hmc : s2.modColl = s.modColl)
    (hother : ∀ p, p ≠ o → s2.row p = s.row p)
    (hsame : SameBut (s.row o) (s2.row o))
    (hval : fixVal oa (s2.row o).val = (s.row o).val)
    (hq : if pop then s2.toSave = s.toSave ++ [some o] ∧ (s.row o).savePos = none
          else s2.toSave = s.toSave ∧ (s2.row o).savePos = (s.row o).savePos)
    (hidx : ∀ T : Store, T.idx = s2.idx → T.cidx = s2.cidx →
      (moves.foldl (undoMove o) T).idx = s.idx ∧ (moves.foldl (undoMove o) T).cidx = s.cidx)
    (t : Store) (ht : Eqv k s2 t) :
    Eqv k s (moves.foldl (undoMove o)
      (((if pop then popSave o (t.upd o fun r => { r with status := (s.row o).status, wbits := (s.row o).wbits })
         else (t.upd o fun r => { r with status := (s.row o).status, wbits := (s.row o).wbits })).upd o
            fun r => { r with val := fixVal oa r.val }))) := by
  generalize hT : ((if pop then popSave o (t.upd o fun r => { r with status := (s.row o).status, wbits := (s.row o).wbits })
         else (t.upd o fun r => { r with status := (s.row o).status, wbits := (s.row o).wbits })).upd o
            fun r => { r with val := fixVal oa r.val }) = T
  obtain ⟨f1, f2, f3, f4, f5⟩ := undoMoves_fields o moves T
  have hTn : T.n = t.n := by subst hT; cases pop <;> rfl
  have hTpk : T.pkIdx = t.pkIdx := by subst hT; cases pop <;> rfl
  have hTmc : T.modColl = t.modColl := by subst hT; cases pop <;> rfl
  have hTidx : T.idx = t.idx := by subst hT; cases pop <;> rfl
  have hTcidx : T.cidx = t.cidx := by subst hT; cases pop <;> rfl
  have hTq : T.toSave = if pop then t.toSave.dropLast else t.toSave := by subst hT; cases pop <;> rfl
  have hTother : ∀ p, p ≠ o → T.row p = t.row p := by
    intro p hp; subst hT; cases pop <;> simp [popSave, Store.upd, hp]
  have hTo : T.row o = { (t.row o) with status := (s.row o).status, wbits := (s.row o).wbits,
                                        savePos := if pop then none else (t.row o).savePos, val := fixVal oa (t.row o).val } := by
    subst hT; cases pop <;> simp [popSave, Store.upd]
  obtain ⟨i1, i2⟩ := hidx T (hTidx.trans ht.idx.symm) (hTcidx.trans ht.cidx.symm)
  refine ⟨?_, ?_, ?_, i1.symm, i2.symm, ?_, ?_, ?_⟩
  · rw [f1, hTn, ← ht.n, hn]
  · rw [f3, hTq, ← ht.toSave]
    cases pop
    · simp only [Bool.false_eq_true, if_false] at hq ⊢; exact hq.1.symm
    · simp only [if_true] at hq ⊢; rw [hq.1, List.dropLast_concat]
  · rw [f4, hTpk, ← ht.pkIdx, hpk]
  · rw [f5, hTmc, ← ht.modColl, hmc]
  · intro p hp
    rw [f2]
    by_cases hpo : p = o
    · rw [hpo, hTo]
    · rw [hTother p hpo, ← ht.status p (hn ▸ hp), hother p hpo]
  · intro p hp
    rw [f2]
    by_cases hpo : p = o
    · rw [hpo] at hp ⊢
      rw [hTo]
      have e := ht.row o hp
      obtain ⟨b1, b2, b3, b4, b5, b6⟩ := hsame
      apply Row.ext'
      · show _ = (t.row o).ent; rw [← e, b1]
      · rfl
      · show _ = (t.row o).pk; rw [← e, b2]
      · show _ = (if pop then none else (t.row o).savePos)
        cases pop
        · simp only [Bool.false_eq_true, if_false] at hq ⊢; rw [← e, hq.2]
        · simp only [if_true] at hq ⊢; exact hq.2
      · rfl
      · show _ = fixVal oa (t.row o).val; rw [← e, hval]
      · show _ = (t.row o).items; rw [← e, b3]
      · show _ = (t.row o).added; rw [← e, b4]
      · show _ = (t.row o).removed; rw [← e, b5]
      · show _ = (t.row o).count; rw [← e, b6]
    · rw [hTother p hpo, ← ht.row p hp, hother p hpo]

/-- what the start of Attribute.__set__ / Entity.set (and a following value write to the same row) does to the store -/
structure MarkSpec (s : Store) (o : ObjId) (s1 : Store) (pop : Bool) : Prop where
  n : s1.n = s.n
  pkIdx : s1.pkIdx = s.pkIdx
  modColl : s1.modColl = s.modColl
  other : ∀ p, p ≠ o → s1.row p = s.row p
  same : SameBut (s.row o) (s1.row o)
  q : if pop then s1.toSave = s.toSave ++ [some o] ∧ ((s.row o).status = .inserted ∨ (s.row o).status = .updated) ∧
                  (s1.row o).savePos = some s.toSave.length ∧ (s1.row o).status = .modified
      else s1.toSave = s.toSave ∧ (s1.row o).savePos = (s.row o).savePos ∧ (s1.row o).status = (s.row o).status

theorem mark_spec (o : ObjId) (bits : List AttrId) (force : Bool) (s : Store) :
    MarkSpec s o (mark o bits force s).1 (mark o bits force s).2 ∧ ((mark o bits force s).1.row o).val = (s.row o).val ∧
    (mark o bits force s).1.idx = s.idx ∧ (mark o bits force s).1.cidx = s.cidx := by
  unfold mark
  dsimp only
  have hrefl : MarkSpec s o s false := ⟨rfl, rfl, rfl, fun _ _ => rfl, ⟨rfl, rfl, rfl, rfl, rfl, rfl⟩, ⟨rfl, rfl, rfl⟩⟩
  split
  · exact ⟨hrefl, rfl, rfl, rfl⟩
  · split
    · exact ⟨hrefl, rfl, rfl, rfl⟩
    · split
      · rename_i hs
        refine ⟨⟨rfl, rfl, rfl, ?_, ?_, ?_⟩, ?_, rfl, rfl⟩
        · intro p hp; simp [Store.upd, hp]
        · simp [SameBut, Store.upd]
        · simp only [if_true]
          refine ⟨rfl, by simpa using hs, ?_, ?_⟩ <;> simp [Store.upd]
        · simp [Store.upd]
      · refine ⟨⟨rfl, rfl, rfl, ?_, ?_, ?_⟩, ?_, rfl, rfl⟩
        · intro p hp; simp [Store.upd, hp]
        · simp [SameBut, Store.upd]
        · simp [Store.upd]
        · simp [Store.upd]

/-- a value write to the marked row keeps the specification -/
theorem MarkSpec.setVal {s s1 : Store} {o : ObjId} {pop : Bool} (h : MarkSpec s o s1 pop) (v : Row → AttrId → Option Nat) :
    MarkSpec s o (s1.upd o fun r => { r with val := v r }) pop := by
  obtain ⟨a1, a2, a5, a6, a7, a8⟩ := h
  refine ⟨a1, a2, a5, ?_, ?_, ?_⟩
  · intro p hp; rw [upd_row_other _ _ _ _ hp]; exact a6 p hp
  · rw [upd_row_same]; exact a7
  · rw [upd_row_same]; exact a8

/-- index moves keep the specification (they touch the two key indexes only) -/
theorem MarkSpec.frame {s s1 s2 : Store} {o : ObjId} {pop : Bool} (h : MarkSpec s o s1 pop)
    (e1 : s2.n = s1.n) (e2 : s2.row = s1.row) (e3 : s2.toSave = s1.toSave) (e4 : s2.pkIdx = s1.pkIdx) (e5 : s2.modColl = s1.modColl) :
    MarkSpec s o s2 pop := by
  obtain ⟨a1, a2, a5, a6, a7, a8⟩ := h
  refine ⟨e1.trans a1, e4.trans a2, e5.trans a5, ?_, ?_, ?_⟩
  · intro p hp; rw [e2]; exact a6 p hp
  · rw [e2]; exact a7
  · rw [e2, e3]; exact a8

theorem MarkSpec.saveOk {s s1 : Store} {o : ObjId} {pop : Bool} (h : MarkSpec s o s1 pop) (hs : SaveOk s) : SaveOk s1 := by
  intro p hp0
  obtain ⟨h1, h2⟩ := hs p (h.n ▸ hp0)
  cases pop
  · have hq := h.q; simp only [Bool.false_eq_true, if_false] at hq
    by_cases hp : p = o
    · rw [hp] at h1 h2 ⊢; rw [hq.1, hq.2.1, hq.2.2]; exact ⟨h1, h2⟩
    · rw [h.other p hp, hq.1]; exact ⟨h1, h2⟩
  · have hq := h.q; simp only [if_true] at hq
    by_cases hp : p = o
    · rw [hp]
      refine ⟨fun q hq' => ?_, fun hst => ?_⟩
      · rw [hq.2.2.1] at hq'
        cases hq'
        rw [hq.1]; simp
      · rw [hq.2.2.2] at hst; cases hst
    · rw [h.other p hp, hq.1]
      refine ⟨fun q hq' => ?_, h2⟩
      have := h1 q hq'
      rw [List.getElem?_append_left]
      · exact this
      · by_cases hlt : q < s.toSave.length
        · exact hlt
        · rw [List.getElem?_eq_none (Nat.le_of_not_lt hlt)] at this; cases this

/-- pushing the closure of Attribute.__set__ (`oa = some (a, old value)`) / Entity.set (`oa = none`) after the marking, value write and index moves -/
theorem step_markEntry {s0 : Store} {st : St} {s2 : Store} {o : ObjId} {pop : Bool} {moves : List IdxMove} (e : Undo) (oa : Option (AttrId × Option Nat))
    (ho : o < st.store.n) (hspec : MarkSpec st.store o s2 pop) (hval : fixVal oa (s2.row o).val = (st.store.row o).val)
    (hundo : ∀ t, undo1 t e = moves.foldl (undoMove o)
      (((if pop then popSave o (t.upd o fun r => { r with status := (st.store.row o).status, wbits := (st.store.row o).wbits })
         else (t.upd o fun r => { r with status := (st.store.row o).status, wbits := (st.store.row o).wbits })).upd o
            fun r => { r with val := fixVal oa r.val })))
    (hidx : Good s0 st → ∀ T : Store, T.idx = s2.idx → T.cidx = s2.cidx →
      (moves.foldl (undoMove o) T).idx = st.store.idx ∧ (moves.foldl (undoMove o) T).cidx = st.store.cidx) :
    Step s0 st ((st.setStore s2).log e) := by
  apply Step.push
  · intro g; exact hspec.saveOk g.save
  · exact Nat.le_of_eq hspec.n.symm
  · intro g t ht
    rw [hundo t]
    refine markUndo_eqv oa hspec.n hspec.pkIdx hspec.modColl hspec.other hspec.same hval ?_ (hidx g) t ht
    have hq := hspec.q
    cases pop
    · simp only [Bool.false_eq_true, if_false] at hq ⊢; exact ⟨hq.1, hq.2.1⟩
    · simp only [if_true] at hq ⊢; exact ⟨hq.1, (g.save o ho).2 (by rcases hq.2.1 with e | e <;> rw [e] <;> rfl)⟩

/-! ### key entries popped by `_delete_` and restored by its closure -/

/-- restoring keys: pointwise -/
theorem restoreKeys_spec (o : ObjId) (ks : List IdxKey) : ∀ (T : Store),
    let R := ks.foldl (restoreKey o) T
    R.n = T.n ∧ R.row = T.row ∧ R.toSave = T.toSave ∧ R.modColl = T.modColl ∧
    (∀ a v, R.idx a v = if ks.contains (.simple a v) then some o else T.idx a v) ∧
    (∀ k vs, R.cidx k vs = if ks.contains (.comp k vs) then some o else T.cidx k vs) ∧
    (∀ e p, R.pkIdx e p = if ks.contains (.pk e p) then some o else T.pkIdx e p) := by
  induction ks with
  | nil => intro T; simp
  | cons k ks ih =>
    intro T
    simp only [List.foldl_cons]
    obtain ⟨h1, h2, h3, h4, h5, h6, h7⟩ := ih (restoreKey o T k)
    cases k with
    | pk e p =>
      refine ⟨h1, h2, h3, h4, ?_, ?_, ?_⟩
      · intro a v; rw [h5]; simp [restoreKey]
      · intro k vs; rw [h6]; simp [restoreKey]
      · intro e' p'; rw [h7]
        simp only [restoreKey, set2, List.contains_cons, Bool.or_eq_true, beq_iff_eq, IdxKey.pk.injEq]
        by_cases hc : ks.contains (IdxKey.pk e' p') = true <;> by_cases he : (e' = e ∧ p' = p) <;> simp [hc, he]
    | simple a v =>
      refine ⟨h1, h2, h3, h4, ?_, ?_, ?_⟩
      · intro a' v'; rw [h5]
        simp only [restoreKey, set2, List.contains_cons, Bool.or_eq_true, beq_iff_eq, IdxKey.simple.injEq]
        by_cases hc : ks.contains (IdxKey.simple a' v') = true <;> by_cases he : (a' = a ∧ v' = v) <;> simp [hc, he]
      · intro k vs; rw [h6]; simp [restoreKey]
      · intro e p; rw [h7]; simp [restoreKey]
    | comp k vs =>
      refine ⟨h1, h2, h3, h4, ?_, ?_, ?_⟩
      · intro a v; rw [h5]; simp [restoreKey]
      · intro k' vs'; rw [h6]
        simp only [restoreKey, setK, List.contains_cons, Bool.or_eq_true, beq_iff_eq, IdxKey.comp.injEq]
        by_cases hc : ks.contains (IdxKey.comp k' vs') = true <;> by_cases he : (k' = k ∧ vs' = vs) <;> simp [hc, he]
      · intro e p; rw [h7]; simp [restoreKey]

/-- what the popped keys `ks` did to the store -/
structure Popped (o : ObjId) (s s1 : Store) (ks : List IdxKey) : Prop where
  n : s1.n = s.n
  row : s1.row = s.row
  toSave : s1.toSave = s.toSave
  modColl : s1.modColl = s.modColl
  pkIdx : s1.pkIdx = s.pkIdx
  idx : ∀ a v, s1.idx a v = if ks.contains (.simple a v) then none else s.idx a v
  cidx : ∀ k vs, s1.cidx k vs = if ks.contains (.comp k vs) then none else s.cidx k vs
  idxWas : ∀ a v, ks.contains (.simple a v) = true → s.idx a v = some o
  cidxWas : ∀ k vs, ks.contains (.comp k vs) = true → s.cidx k vs = some o
  noPk : ∀ e p, ks.contains (.pk e p) = false

theorem Popped.nil (o : ObjId) (s : Store) : Popped o s s [] :=
  ⟨rfl, rfl, rfl, rfl, rfl, fun _ _ => by simp, fun _ _ => by simp, fun _ _ h => by simp at h, fun _ _ h => by simp at h, fun _ _ => by simp⟩

theorem popC_spec (sch : Schema) (o : ObjId) (val : AttrId → Option Nat) (s0' : Store) : ∀ (ks : List KeyId) (s : Store) (acc : List IdxKey),
    Popped o s0' s acc → Popped o s0' (popC sch o val ks s acc).1 (popC sch o val ks s acc).2.1 := by
  intro ks
  induction ks with
  | nil => intro s acc h; exact h
  | cons k ks ih =>
    intro s acc h
    simp only [popC]
    split
    · exact ih s acc h
    · rename_i vs _
      split
      · rename_i hhit
        apply ih
        have hnot : acc.contains (IdxKey.comp k vs) = false := by
          cases hc : acc.contains (IdxKey.comp k vs)
          · rfl
          · have := h.cidx k vs; rw [hc] at this; simp only [if_true] at this; rw [this] at hhit; cases hhit
        have hwas : s0'.cidx k vs = some o := by
          have := h.cidx k vs; rw [hnot] at this; simp only [Bool.false_eq_true, if_false] at this; rw [← this]; exact hhit
        refine ⟨h.n, h.row, h.toSave, h.modColl, h.pkIdx, ?_, ?_, ?_, ?_, ?_⟩
        · intro a v; simp only [List.contains_append, List.contains_cons, List.contains_nil, Bool.or_false]
          have := h.idx a v; simp at this ⊢; exact this
        · intro k' vs'
          simp only [setK, List.contains_append, List.contains_cons, List.contains_nil, Bool.or_false]
          by_cases hk : k' = k ∧ vs' = vs
          · simp [hk.1, hk.2]
          · have := h.cidx k' vs'
            have hne : (IdxKey.comp k' vs' == IdxKey.comp k vs) = false := by
              simp only [beq_eq_false_iff_ne, ne_eq, IdxKey.comp.injEq]; exact hk
            simp only [hk, if_false, hne, Bool.or_false]; exact this
        · intro a v hc; apply h.idxWas; simpa using hc
        · intro k' vs' hc
          simp only [List.contains_append, List.contains_cons, List.contains_nil, Bool.or_false, Bool.or_eq_true] at hc
          rcases hc with hc | hc
          · exact h.cidxWas k' vs' hc
          · simp only [beq_iff_eq, IdxKey.comp.injEq] at hc; rw [hc.1, hc.2]; exact hwas
        · intro e p; simp only [List.contains_append, List.contains_cons, List.contains_nil, Bool.or_false, Bool.or_eq_false_iff]
          exact ⟨h.noPk e p, by simp⟩
      · exact h

theorem popS_spec (sch : Schema) (o : ObjId) (comps : List KeyId) (val : AttrId → Option Nat) (s0' : Store) : ∀ (as : List AttrId) (s : Store) (acc : List IdxKey),
    Popped o s0' s acc → Popped o s0' (popS sch o comps val as s acc).1 (popS sch o comps val as s acc).2.1 := by
  intro as
  induction as with
  | nil => intro s acc h; exact popC_spec sch o val s0' comps s acc h
  | cons a as ih =>
    intro s acc h
    simp only [popS]
    split
    · exact ih s acc h
    · rename_i v _
      split
      · rename_i hhit
        apply ih
        have hnot : acc.contains (IdxKey.simple a v) = false := by
          cases hc : acc.contains (IdxKey.simple a v)
          · rfl
          · have := h.idx a v; rw [hc] at this; simp only [if_true] at this; rw [this] at hhit; cases hhit
        have hwas : s0'.idx a v = some o := by
          have := h.idx a v; rw [hnot] at this; simp only [Bool.false_eq_true, if_false] at this; rw [← this]; exact hhit
        refine ⟨h.n, h.row, h.toSave, h.modColl, h.pkIdx, ?_, ?_, ?_, ?_, ?_⟩
        · intro a' v'
          simp only [set2, List.contains_append, List.contains_cons, List.contains_nil, Bool.or_false]
          by_cases hk : a' = a ∧ v' = v
          · simp [hk.1, hk.2]
          · have := h.idx a' v'
            have hne : (IdxKey.simple a' v' == IdxKey.simple a v) = false := by
              simp only [beq_eq_false_iff_ne, ne_eq, IdxKey.simple.injEq]; exact hk
            simp only [hk, if_false, hne, Bool.or_false]; exact this
        · intro k vs; simp only [List.contains_append, List.contains_cons, List.contains_nil, Bool.or_false]
          have := h.cidx k vs; simp at this ⊢; exact this
        · intro a' v' hc
          simp only [List.contains_append, List.contains_cons, List.contains_nil, Bool.or_false, Bool.or_eq_true] at hc
          rcases hc with hc | hc
          · exact h.idxWas a' v' hc
          · simp only [beq_iff_eq, IdxKey.simple.injEq] at hc; rw [hc.1, hc.2]; exact hwas
        · intro k vs hc; apply h.cidxWas; simpa using hc
        · intro e p; simp only [List.contains_append, List.contains_cons, List.contains_nil, Bool.or_false, Bool.or_eq_false_iff]
          exact ⟨h.noPk e p, by simp⟩
      · exact h

theorem popKeys_spec (sch : Schema) (o : ObjId) (s : Store) : Popped o s (popKeys sch o s).1 (popKeys sch o s).2.1 := by
  unfold popKeys
  exact popS_spec sch o _ _ s _ s [] (Popped.nil o s)

/-- the undo closure of `_delete_` against the store `S` the end of the call produced from `s` -/
theorem delUndo_eqv {k : Nat} {s S : Store} {o : ObjId} {ks : List IdxKey}
    (ho : o < s.n) (hn : S.n = s.n) (hmc : S.modColl = s.modColl)
    (hother : ∀ p, p ≠ o → S.row p = s.row p)
    (hrow : S.row o = { (s.row o) with status := (S.row o).status, savePos := (S.row o).savePos })
    (hidx : ∀ T : Store, T.idx = S.idx → T.cidx = S.cidx → T.pkIdx = S.pkIdx →
      (ks.foldl (restoreKey o) T).idx = s.idx ∧ (ks.foldl (restoreKey o) T).cidx = s.cidx ∧ (ks.foldl (restoreKey o) T).pkIdx = s.pkIdx)
    (hq : ((S.row o).status = .marked ∧ ∃ l, S.toSave = l ++ [some o] ∧
            (match (s.row o).savePos with | some p => l.set p (some o) | none => l) = s.toSave)
        ∨ ((S.row o).status = .cancelled ∧ ∃ p, (s.row o).savePos = some p ∧ (S.toSave).set p (some o) = s.toSave)
        ∨ ((S.row o).status = (s.row o).status ∧ (s.row o).status ≠ .marked ∧ (s.row o).status ≠ .cancelled ∧
            S.toSave = s.toSave ∧ (S.row o).savePos = (s.row o).savePos))
    (t : Store) (ht : Eqv k S t) : Eqv k s (undo1 t (.del o (s.row o).status (s.row o).savePos ks)) := by
  have hst : (t.row o).status = (S.row o).status := (ht.status o (hn ▸ ho)).symm
  -- the store the key restore starts from
  have key : ∀ (T : Store), T.n = t.n → T.modColl = t.modColl → T.idx = t.idx → T.cidx = t.cidx → T.pkIdx = t.pkIdx →
      T.toSave = s.toSave → (∀ p, p ≠ o → T.row p = t.row p) → (T.row o).status = (s.row o).status →
      (o < k → T.row o = { (t.row o) with status := (s.row o).status, savePos := (s.row o).savePos }) →
      Eqv k s (ks.foldl (restoreKey o) T) := by
    intro T e1 e2 e3 e4 e5 e6 e7 e8a e8
    obtain ⟨r1, r2, r3, r4, _, _, _⟩ := restoreKeys_spec o ks T
    obtain ⟨i1, i2, i3⟩ := hidx T (e3.trans ht.idx.symm) (e4.trans ht.cidx.symm) (e5.trans ht.pkIdx.symm)
    refine ⟨?_, ?_, i3.symm, i1.symm, i2.symm, ?_, ?_, ?_⟩
    · rw [r1, e1, ← ht.n, hn]
    · rw [r3, e6]
    · rw [r4, e2, ← ht.modColl, hmc]
    · intro p hp
      rw [r2]
      by_cases hpo : p = o
      · rw [hpo, e8a]
      · rw [e7 p hpo, ← ht.status p (hn ▸ hp), hother p hpo]
    · intro p hp
      rw [r2]
      by_cases hpo : p = o
      · rw [hpo] at hp ⊢
        rw [e8 hp, ← ht.row o hp, hrow]
      · rw [e7 p hpo, ← ht.row p hp, hother p hpo]
  simp only [undo1]
  rw [hst]
  rcases hq with ⟨hm, l, hl, hls⟩ | ⟨hc, p, hp, hps⟩ | ⟨hsame, hnm, hnc, hqq, hsp⟩
  · rw [hm]; simp only [if_true]
    apply key
    · cases (s.row o).savePos <;> rfl
    · cases (s.row o).savePos <;> rfl
    · cases (s.row o).savePos <;> rfl
    · cases (s.row o).savePos <;> rfl
    · cases (s.row o).savePos <;> rfl
    · rw [← hls, ← ht.toSave, hl]
      cases (s.row o).savePos <;> simp [Store.upd, List.dropLast_concat]
    · intro q hq; cases (s.row o).savePos <;> simp [Store.upd, hq]
    · cases (s.row o).savePos <;> simp [Store.upd]
    · intro _; cases (s.row o).savePos <;> simp [Store.upd]
  · rw [hc]; simp only [reduceCtorEq, if_false, if_true]
    apply key
    · rw [hp]; rfl
    · rw [hp]; rfl
    · rw [hp]; rfl
    · rw [hp]; rfl
    · rw [hp]; rfl
    · rw [hp, ← hps, ← ht.toSave]; simp [Store.upd]
    · intro q hq; rw [hp]; simp [Store.upd, hq]
    · rw [hp]; simp [Store.upd]
    · intro _; rw [hp]; simp [Store.upd]
  · rw [hsame]
    simp only [hnm, hnc, if_false]
    apply key
    · rfl
    · rfl
    · rfl
    · rfl
    · rfl
    · show t.toSave = _; rw [← ht.toSave, hqq]
    · intro q hq; simp [Store.upd, hq]
    · simp [Store.upd]
    · intro hk
      have := ht.row o hk
      simp only [Store.upd, if_true]
      rw [← this, hrow, hsp]

/-- restoring the popped keys gives the indexes back -/
theorem popped_restore {o : ObjId} {s s1 : Store} {ks : List IdxKey} (h : Popped o s s1 ks) (T : Store)
    (e1 : T.idx = s1.idx) (e2 : T.cidx = s1.cidx) :
    (ks.foldl (restoreKey o) T).idx = s.idx ∧ (ks.foldl (restoreKey o) T).cidx = s.cidx ∧ (ks.foldl (restoreKey o) T).pkIdx = T.pkIdx := by
  obtain ⟨_, _, _, _, r5, r6, r7⟩ := restoreKeys_spec o ks T
  refine ⟨?_, ?_, ?_⟩
  · funext a v
    rw [r5, e1, h.idx]
    by_cases hc : ks.contains (IdxKey.simple a v) = true
    · simp only [hc, if_true]; exact (h.idxWas a v hc).symm
    · simp only [hc, if_false]; simp
  · funext k vs
    rw [r6, e2, h.cidx]
    by_cases hc : ks.contains (IdxKey.comp k vs) = true
    · simp only [hc, if_true]; exact (h.cidxWas k vs hc).symm
    · simp only [hc, if_false]; simp
  · funext e p
    rw [r7, h.noPk]; simp

/-- the same with the primary-key entry popped last -/
theorem popped_restore_pk {o : ObjId} {s s1 : Store} {ks : List IdxKey} (h : Popped o s s1 ks) (e : EntId) (p : Nat) (hpk : s.pkIdx e p = some o) (T : Store)
    (e1 : T.idx = s1.idx) (e2 : T.cidx = s1.cidx) (e3 : T.pkIdx = set2 s.pkIdx e p none) :
    ((ks ++ [IdxKey.pk e p]).foldl (restoreKey o) T).idx = s.idx ∧ ((ks ++ [IdxKey.pk e p]).foldl (restoreKey o) T).cidx = s.cidx ∧
    ((ks ++ [IdxKey.pk e p]).foldl (restoreKey o) T).pkIdx = s.pkIdx := by
  rw [List.foldl_append]
  obtain ⟨a1, a2, a3⟩ := popped_restore h T e1 e2
  simp only [List.foldl_cons, List.foldl_nil, restoreKey]
  refine ⟨a1, a2, ?_⟩
  show set2 (ks.foldl (restoreKey o) T).pkIdx e p (some o) = s.pkIdx
  rw [a3, e3]
  exact set2_undo _ _ _ _ _ hpk

theorem SaveOk.punch {s : Store} (h : SaveOk s) (o : ObjId) (ho : o < s.n) (p : Nat) (hp : (s.row o).savePos = some p) (st' : Status)
    (hst : st' ≠ .inserted ∧ st' ≠ .updated) :
    SaveOk { (s.upd o fun r => { r with savePos := none, status := st' }) with toSave := s.toSave.set p none } := by
  intro q hqn
  by_cases hq : q = o
  · rw [hq]; simp [Store.upd]
  · obtain ⟨h1, h2⟩ := h q hqn
    simp only [Store.upd, hq, if_false]
    refine ⟨fun p' hp' => ?_, h2⟩
    have e1 := h1 p' hp'
    have e2 := (h o ho).1 p hp
    by_cases hpp : p = p'
    · rw [hpp] at e2; rw [e1] at e2; cases e2; exact absurd rfl hq
    · rw [List.getElem?_set_ne hpp]; exact e1

theorem SaveOk.append {s : Store} (h : SaveOk s) (o : ObjId) (hp : (s.row o).savePos = none) (st' : Status)
    (hst : st'.queued = true) (m : Bool) :
    SaveOk { (s.upd o fun r => { r with savePos := some s.toSave.length, status := st' }) with toSave := s.toSave ++ [some o], modified := m } := by
  intro q hqn
  by_cases hq : q = o
  · rw [hq]; simp only [Store.upd, if_true]
    refine ⟨fun p' hp' => ?_, fun hs => ?_⟩
    · cases hp'; simp
    · rw [hst] at hs; cases hs
  · obtain ⟨h1, h2⟩ := h q hqn
    simp only [Store.upd, hq, if_false]
    refine ⟨fun p' hp' => ?_, h2⟩
    have e1 := h1 p' hp'
    rw [List.getElem?_append_left]
    · exact e1
    · by_cases hlt : p' < s.toSave.length
      · exact hlt
      · rw [List.getElem?_eq_none (Nat.le_of_not_lt hlt)] at e1; cases e1

/-! ### index moves of Attribute.__set__ / Entity.set and their undo -/

/-- the key-index entries of object `o` are exactly its current key values -/
structure KeyOk (sch : Schema) (s : Store) (o : ObjId) : Prop where
  idxVal : ∀ a v, s.idx a v = some o → (s.row o).val a = some v
  valIdx : ∀ a u, (s.row o).val a = some u → (match sch.decl a with | some d => d.unique | none => false) = true → s.idx a u = some o
  cidxVal : ∀ k vs, s.cidx k vs = some o → tuple ((sch.keyAttrs k).map (s.row o).val) = some vs
  valCidx : ∀ k us, tuple ((sch.keyAttrs k).map (s.row o).val) = some us → k < sch.ckeys.length → s.cidx k us = some o

/-- effect of undoing the moves `m` of one simple index `a` -/
theorem moveSimple_spec (o : ObjId) (a : AttrId) (old new : Option Nat) (sc : Store)
    (h1 : ∀ v, new = some v → sc.idx a v = some o → old = new)
    (h2 : ∀ u, old = some u → sc.idx a u = some o) :
    (moveSimple o a old new sc = none ∨
     ∃ sc' m, moveSimple o a old new sc = some (sc', m, false) ∧
       sc'.n = sc.n ∧ sc'.row = sc.row ∧ sc'.toSave = sc.toSave ∧ sc'.pkIdx = sc.pkIdx ∧ sc'.cidx = sc.cidx ∧ sc'.modColl = sc.modColl ∧
       (∀ a', a' ≠ a → sc'.idx a' = sc.idx a') ∧
       (∀ X : Store, X.idx a = sc'.idx a →
          (m.foldl (undoMove o) X).idx a = sc.idx a ∧ (∀ a', a' ≠ a → (m.foldl (undoMove o) X).idx a' = X.idx a') ∧
          (m.foldl (undoMove o) X).cidx = X.cidx)) := by
  by_cases heq : old = new
  · right; refine ⟨sc, [], by simp [moveSimple, heq], rfl, rfl, rfl, rfl, rfl, rfl, fun _ _ => rfl, fun X hX => ⟨hX, fun _ _ => rfl, rfl⟩⟩
  · cases new with
    | none =>
      cases old with
      | none => exact absurd rfl heq
      | some u =>
        right
        have hu := h2 u rfl
        refine ⟨{ sc with idx := set2 sc.idx a u none }, [.simple a (some u) none], by simp [moveSimple, hu], ?_⟩
        refine ⟨rfl, rfl, rfl, rfl, rfl, rfl, ?_, ?_⟩
        · intro a' ha'; funext x; simp [set2, ha']
        · intro X hX
          simp only [List.foldl_cons, List.foldl_nil, undoMove]
          refine ⟨?_, ?_, by first | rfl | trivial⟩
          · funext x
            have := congrFun hX x
            simp only [set2] at this ⊢
            by_cases hx : x = u
            · simp [hx, hu]
            · simp [hx] at this ⊢; exact this
          · intro a' ha'; funext x; simp [set2, ha']
    | some v =>
      cases hv : sc.idx a v with
      | some o2 =>
        by_cases ho2 : o2 = o
        · exact absurd (h1 v rfl (ho2 ▸ hv)) heq
        · left; simp [moveSimple, heq, hv, ho2]
      | none =>
        right
        cases old with
        | none =>
          refine ⟨{ sc with idx := set2 sc.idx a v (some o), seen := .simple a v :: sc.seen }, [.simple a none (some v)], by simp [moveSimple, hv], ?_⟩
          refine ⟨rfl, rfl, rfl, rfl, rfl, rfl, ?_, ?_⟩
          · intro a' ha'; funext x; simp [set2, ha']
          · intro X hX
            simp only [List.foldl_cons, List.foldl_nil, undoMove]
            refine ⟨?_, ?_, by first | rfl | trivial⟩
            · funext x
              have := congrFun hX x
              simp only [set2] at this ⊢
              by_cases hx : x = v
              · simp [hx, hv]
              · simp [hx] at this ⊢; exact this
            · intro a' ha'; funext x; simp [set2, ha']
        | some u =>
          have hu := h2 u rfl
          have huv : u ≠ v := fun h => heq (by rw [h])
          have hu' : set2 sc.idx a v (some o) a u = some o := by simp [set2, huv, hu]
          refine ⟨{ sc with idx := set2 (set2 sc.idx a v (some o)) a u none, seen := .simple a v :: sc.seen }, [.simple a (some u) (some v)],
            by simp [moveSimple, heq, hv, hu'], ?_⟩
          refine ⟨rfl, rfl, rfl, rfl, rfl, rfl, ?_, ?_⟩
          · intro a' ha'; funext x; simp [set2, ha']
          · intro X hX
            simp only [List.foldl_cons, List.foldl_nil, undoMove]
            refine ⟨?_, ?_, by first | rfl | trivial⟩
            · funext x
              have := congrFun hX x
              simp only [set2] at this ⊢
              by_cases hx : x = u
              · simp [hx, hu]
              · by_cases hx2 : x = v
                · simp [hx2, hv, huv.symm]
                · simp [hx, hx2] at this ⊢; exact this
            · intro a' ha'; funext x; simp [set2, ha']

/-- effect of undoing the moves `m` of one composite index `a` -/
theorem moveComp_spec (o : ObjId) (a : KeyId) (old new : Option (List Nat)) (sc : Store)
    (h1 : ∀ v, new = some v → sc.cidx a v = some o → old = new)
    (h2 : ∀ u, old = some u → sc.cidx a u = some o) :
    (moveComp o a old new sc = none ∨
     ∃ sc' m, moveComp o a old new sc = some (sc', m, false) ∧
       sc'.n = sc.n ∧ sc'.row = sc.row ∧ sc'.toSave = sc.toSave ∧ sc'.pkIdx = sc.pkIdx ∧ sc'.idx = sc.idx ∧ sc'.modColl = sc.modColl ∧
       (∀ a', a' ≠ a → sc'.cidx a' = sc.cidx a') ∧
       (∀ X : Store, X.cidx a = sc'.cidx a →
          (m.foldl (undoMove o) X).cidx a = sc.cidx a ∧ (∀ a', a' ≠ a → (m.foldl (undoMove o) X).cidx a' = X.cidx a') ∧
          (m.foldl (undoMove o) X).idx = X.idx)) := by
  by_cases heq : old = new
  · right; refine ⟨sc, [], by simp [moveComp, heq], rfl, rfl, rfl, rfl, rfl, rfl, fun _ _ => rfl, fun X hX => ⟨hX, fun _ _ => rfl, rfl⟩⟩
  · cases new with
    | none =>
      cases old with
      | none => exact absurd rfl heq
      | some u =>
        right
        have hu := h2 u rfl
        refine ⟨{ sc with cidx := setK sc.cidx a u none }, [.comp a (some u) none], by simp [moveComp, hu], ?_⟩
        refine ⟨rfl, rfl, rfl, rfl, rfl, rfl, ?_, ?_⟩
        · intro a' ha'; funext x; simp [setK, ha']
        · intro X hX
          simp only [List.foldl_cons, List.foldl_nil, undoMove]
          refine ⟨?_, ?_, by first | rfl | trivial⟩
          · funext x
            have := congrFun hX x
            simp only [setK] at this ⊢
            by_cases hx : x = u
            · simp [hx, hu]
            · simp [hx] at this ⊢; exact this
          · intro a' ha'; funext x; simp [setK, ha']
    | some v =>
      cases hv : sc.cidx a v with
      | some o2 =>
        by_cases ho2 : o2 = o
        · exact absurd (h1 v rfl (ho2 ▸ hv)) heq
        · left; simp [moveComp, heq, hv, ho2]
      | none =>
        right
        cases old with
        | none =>
          refine ⟨{ sc with cidx := setK sc.cidx a v (some o), seen := .comp a v :: sc.seen }, [.comp a none (some v)], by simp [moveComp, hv], ?_⟩
          refine ⟨rfl, rfl, rfl, rfl, rfl, rfl, ?_, ?_⟩
          · intro a' ha'; funext x; simp [setK, ha']
          · intro X hX
            simp only [List.foldl_cons, List.foldl_nil, undoMove]
            refine ⟨?_, ?_, by first | rfl | trivial⟩
            · funext x
              have := congrFun hX x
              simp only [setK] at this ⊢
              by_cases hx : x = v
              · simp [hx, hv]
              · simp [hx] at this ⊢; exact this
            · intro a' ha'; funext x; simp [setK, ha']
        | some u =>
          have hu := h2 u rfl
          have huv : u ≠ v := fun h => heq (by rw [h])
          have hu' : setK sc.cidx a v (some o) a u = some o := by simp [setK, huv, hu]
          refine ⟨{ sc with cidx := setK (setK sc.cidx a v (some o)) a u none, seen := .comp a v :: sc.seen }, [.comp a (some u) (some v)],
            by simp [moveComp, heq, hv, hu'], ?_⟩
          refine ⟨rfl, rfl, rfl, rfl, rfl, rfl, ?_, ?_⟩
          · intro a' ha'; funext x; simp [setK, ha']
          · intro X hX
            simp only [List.foldl_cons, List.foldl_nil, undoMove]
            refine ⟨?_, ?_, by first | rfl | trivial⟩
            · funext x
              have := congrFun hX x
              simp only [setK] at this ⊢
              by_cases hx : x = u
              · simp [hx, hu]
              · by_cases hx2 : x = v
                · simp [hx2, hv, huv.symm]
                · simp [hx, hx2] at this ⊢; exact this
            · intro a' ha'; funext x; simp [setK, ha']

/-- the invariant of the index-move loops: `A` / `K` are the simple / composite indexes processed so far -/
structure MovesInv (o : ObjId) (s sc : Store) (acc : List IdxMove) (A : List AttrId) (K : List KeyId) : Prop where
  n : sc.n = s.n
  row : sc.row = s.row
  toSave : sc.toSave = s.toSave
  pkIdx : sc.pkIdx = s.pkIdx
  modColl : sc.modColl = s.modColl
  idxRest : ∀ a, a ∉ A → sc.idx a = s.idx a
  cidxRest : ∀ k, k ∉ K → sc.cidx k = s.cidx k
  undo : ∀ T : Store, (∀ a, a ∈ A → T.idx a = sc.idx a) → (∀ k, k ∈ K → T.cidx k = sc.cidx k) →
    (∀ a, a ∈ A → (acc.foldl (undoMove o) T).idx a = s.idx a) ∧ (∀ a, a ∉ A → (acc.foldl (undoMove o) T).idx a = T.idx a) ∧
    (∀ k, k ∈ K → (acc.foldl (undoMove o) T).cidx k = s.cidx k) ∧ (∀ k, k ∉ K → (acc.foldl (undoMove o) T).cidx k = T.cidx k)

/-- what a finished (or conflicting) run of index moves guarantees -/
def MovesOk (o : ObjId) (s s2 : Store) (m : List IdxMove) : Prop :=
  s2.n = s.n ∧ s2.row = s.row ∧ s2.toSave = s.toSave ∧ s2.pkIdx = s.pkIdx ∧ s2.modColl = s.modColl ∧
  ∀ T : Store, T.idx = s2.idx → T.cidx = s2.cidx → (m.foldl (undoMove o) T).idx = s.idx ∧ (m.foldl (undoMove o) T).cidx = s.cidx

theorem MovesInv.ok {o : ObjId} {s sc : Store} {acc : List IdxMove} {A : List AttrId} {K : List KeyId} (h : MovesInv o s sc acc A K) :
    MovesOk o s sc acc := by
  refine ⟨h.n, h.row, h.toSave, h.pkIdx, h.modColl, fun T e1 e2 => ?_⟩
  obtain ⟨u1, u2, u3, u4⟩ := h.undo T (fun a _ => by rw [e1]) (fun k _ => by rw [e2])
  constructor
  · funext a
    by_cases ha : a ∈ A
    · exact u1 a ha
    · rw [u2 a ha, e1, h.idxRest a ha]
  · funext k
    by_cases hk : k ∈ K
    · exact u3 k hk
    · rw [u4 k hk, e2, h.cidxRest k hk]

def movesGood (o : ObjId) (s : Store) : Moves → Prop
  | .done s2 m => MovesOk o s s2 m
  | .conflict s2 m => MovesOk o s s2 m
  | .missing _ _ => False

theorem movesC_spec (sch : Schema) (o : ObjId) (s : Store) (newVal : AttrId → Option Nat) (hk : KeyOk sch s o) (A : List AttrId) :
    ∀ (ks : List KeyId) (sc : Store) (acc : List IdxMove) (K : List KeyId), ks.Nodup → (∀ k, k ∈ ks → k ∉ K) → (∀ k, k ∈ ks → k < sch.ckeys.length) →
      MovesInv o s sc acc A K → movesGood o s (movesC sch o (s.row o).val newVal ks sc acc) := by
  intro ks
  induction ks with
  | nil => intro sc acc K _ _ _ h; exact h.ok
  | cons k ks ih =>
    intro sc acc K hnd hdisj hlen h
    simp only [movesC]
    have hkK : k ∉ K := hdisj k (List.mem_cons_self)
    have hsck : sc.cidx k = s.cidx k := h.cidxRest k hkK
    rcases moveComp_spec o k (tuple ((sch.keyAttrs k).map (s.row o).val)) (tuple ((sch.keyAttrs k).map newVal)) sc
        (fun vs hvs hhit => by rw [hsck] at hhit; rw [hk.cidxVal k vs hhit]; exact hvs.symm)
        (fun us hus => by rw [hsck]; exact hk.valCidx k us hus (hlen k List.mem_cons_self)) with hnone | ⟨sc', m, hsome, f1, f2, f3, f4, f5, f6, f7, f8⟩
    · rw [hnone]; exact h.ok
    · rw [hsome]
      simp only
      apply ih sc' (acc ++ m) (k :: K) (List.nodup_cons.mp hnd).2
      · intro k' hk' hmem
        rcases List.mem_cons.mp hmem with rfl | hmem
        · exact (List.nodup_cons.mp hnd).1 hk'
        · exact hdisj k' (List.mem_cons_of_mem _ hk') hmem
      · intro k' hk'; exact hlen k' (List.mem_cons_of_mem _ hk')
      · refine ⟨f1.trans h.n, f2.trans h.row, f3.trans h.toSave, f4.trans h.pkIdx, f6.trans h.modColl, ?_, ?_, ?_⟩
        · intro a ha; rw [f5]; exact h.idxRest a ha
        · intro k' hk'
          have hne : k' ≠ k := fun e => hk' (e ▸ List.mem_cons_self)
          rw [f7 k' hne]; exact h.cidxRest k' (fun hm => hk' (List.mem_cons_of_mem _ hm))
        · intro T eA eK
          rw [List.foldl_append]
          obtain ⟨u1, u2, u3, u4⟩ := h.undo T (fun a ha => by rw [eA a ha, f5])
            (fun k' hk' => by
              have hne : k' ≠ k := fun e => hkK (e ▸ hk')
              rw [eK k' (List.mem_cons_of_mem _ hk'), f7 k' hne])
          obtain ⟨g1, g2, g3⟩ := f8 (acc.foldl (undoMove o) T) (by rw [u4 k hkK, eK k List.mem_cons_self])
          refine ⟨?_, ?_, ?_, ?_⟩
          · intro a ha; rw [g3]; exact u1 a ha
          · intro a ha; rw [g3]; exact u2 a ha
          · intro k' hk'
            rcases List.mem_cons.mp hk' with rfl | hk'
            · rw [g1, hsck]
            · have hne : k' ≠ k := fun e => hkK (e ▸ hk')
              rw [g2 k' hne]; exact u3 k' hk'
          · intro k' hk'
            have hne : k' ≠ k := fun e => hk' (e ▸ List.mem_cons_self)
            rw [g2 k' hne]; exact u4 k' (fun hm => hk' (List.mem_cons_of_mem _ hm))

theorem movesS_spec (sch : Schema) (o : ObjId) (s : Store) (comps : List KeyId) (newVal : AttrId → Option Nat) (hk : KeyOk sch s o)
    (hcn : comps.Nodup) (hcl : ∀ k, k ∈ comps → k < sch.ckeys.length) :
    ∀ (as : List AttrId) (sc : Store) (acc : List IdxMove) (A : List AttrId), as.Nodup → (∀ a, a ∈ as → a ∉ A) →
      (∀ a, a ∈ as → (match sch.decl a with | some d => d.unique | none => false) = true) →
      MovesInv o s sc acc A [] → movesGood o s (movesS sch o comps (s.row o).val newVal as sc acc) := by
  intro as
  induction as with
  | nil =>
    intro sc acc A _ _ _ h
    simp only [movesS]
    exact movesC_spec sch o s newVal hk A comps sc acc [] hcn (fun _ _ h => by cases h) hcl h
  | cons a as ih =>
    intro sc acc A hnd hdisj huniq h
    simp only [movesS]
    have haA : a ∉ A := hdisj a List.mem_cons_self
    have hsca : sc.idx a = s.idx a := h.idxRest a haA
    rcases moveSimple_spec o a ((s.row o).val a) (newVal a) sc
        (fun v hv hhit => by rw [hsca] at hhit; rw [hk.idxVal a v hhit]; exact hv.symm)
        (fun u hu => by rw [hsca]; exact hk.valIdx a u hu (huniq a List.mem_cons_self)) with hnone | ⟨sc', m, hsome, f1, f2, f3, f4, f5, f6, f7, f8⟩
    · rw [hnone]; exact h.ok
    · rw [hsome]
      simp only
      apply ih sc' (acc ++ m) (a :: A) (List.nodup_cons.mp hnd).2
      · intro a' ha' hmem
        rcases List.mem_cons.mp hmem with rfl | hmem
        · exact (List.nodup_cons.mp hnd).1 ha'
        · exact hdisj a' (List.mem_cons_of_mem _ ha') hmem
      · intro a' ha'; exact huniq a' (List.mem_cons_of_mem _ ha')
      · refine ⟨f1.trans h.n, f2.trans h.row, f3.trans h.toSave, f4.trans h.pkIdx, f6.trans h.modColl, ?_, ?_, ?_⟩
        · intro a' ha'
          have hne : a' ≠ a := fun e => ha' (e ▸ List.mem_cons_self)
          rw [f7 a' hne]; exact h.idxRest a' (fun hm => ha' (List.mem_cons_of_mem _ hm))
        · intro k hk'; rw [f5]; exact h.cidxRest k hk'
        · intro T eA eK
          rw [List.foldl_append]
          obtain ⟨u1, u2, u3, u4⟩ := h.undo T
            (fun a' ha' => by
              have hne : a' ≠ a := fun e => haA (e ▸ ha')
              rw [eA a' (List.mem_cons_of_mem _ ha'), f7 a' hne])
            (fun k hk' => by cases hk')
          obtain ⟨g1, g2, g3⟩ := f8 (acc.foldl (undoMove o) T) (by rw [u2 a haA, eA a List.mem_cons_self])
          refine ⟨?_, ?_, ?_, ?_⟩
          · intro a' ha'
            rcases List.mem_cons.mp ha' with rfl | ha'
            · rw [g1, hsca]
            · have hne : a' ≠ a := fun e => haA (e ▸ ha')
              rw [g2 a' hne]; exact u1 a' ha'
          · intro a' ha'
            have hne : a' ≠ a := fun e => ha' (e ▸ List.mem_cons_self)
            rw [g2 a' hne]; exact u2 a' (fun hm => ha' (List.mem_cons_of_mem _ hm))
          · intro k hk'; cases hk'
          · intro k hk'; rw [g3]; exact u4 k hk'

theorem runMoves_spec (sch : Schema) (o : ObjId) (simple : List AttrId) (comps : List KeyId) (newVal : AttrId → Option Nat) (s : Store)
    (hk : KeyOk sch s o) (hsn : simple.Nodup) (hcn : comps.Nodup) (hcl : ∀ k, k ∈ comps → k < sch.ckeys.length)
    (huniq : ∀ a, a ∈ simple → (match sch.decl a with | some d => d.unique | none => false) = true) :
    movesGood o s (runMoves sch o simple comps newVal s) := by
  unfold runMoves
  apply movesS_spec sch o s comps newVal hk hcn hcl simple s [] [] hsn (fun _ _ h => by cases h) huniq
  exact ⟨rfl, rfl, rfl, rfl, rfl, fun _ _ => rfl, fun _ _ => rfl,
    fun T _ _ => ⟨fun _ h => (by cases h), fun _ _ => rfl, fun _ h => (by cases h), fun _ _ => rfl⟩⟩

/-! ### the primitive steps -/

section prims
variable {s0 : Store}

theorem step_touchKey (c : AttrId) (st : St) : Step s0 st (touchKey c st) := by
  unfold touchKey
  apply Step.unlogged
  · intro g; exact g.save.of_eq rfl rfl (fun o => ⟨rfl, rfl⟩)
  · exact Nat.le_refl _
  · intro g t ht; exact ⟨ht.n, ht.toSave, ht.pkIdx, ht.idx, ht.cidx, ht.modColl, ht.status, ht.row⟩

/-- a logged step that rewrites one row with `f`, sets `modColl c obj`, and whose undo rewrites the row with `g` and
    restores `modColl c obj` -/
theorem step_rowMod (st : St) (s1 : Store) (c : AttrId) (obj : ObjId) (f g : Row → Row) (e : Undo)
    (e_n : s1.n = st.store.n) (e_q : s1.toSave = st.store.toSave) (e_pk : s1.pkIdx = st.store.pkIdx) (e_idx : s1.idx = st.store.idx)
    (e_cidx : s1.cidx = st.store.cidx) (e_mc : s1.modColl = set2 st.store.modColl c obj true) (e_row : s1.row = (st.store.upd obj f).row)
    (hundo : ∀ t, undo1 t e = (if st.store.modColl c obj then t.upd obj g else { (t.upd obj g) with modColl := set2 (t.upd obj g).modColl c obj false }))
    (hinv : g (f (st.store.row obj)) = st.store.row obj)
    (hf : ∀ r, (f r).status = r.status ∧ (f r).savePos = r.savePos)
    (hg : ∀ r, (g r).status = r.status) :
    Step s0 st ((st.setStore s1).log e) := by
  apply Step.push
  · intro gd
    refine SaveOk.of_eq (s := st.store) gd.save e_q e_n ?_
    intro o
    rw [e_row]
    by_cases ho : o = obj
    · subst ho; simp only [upd_row_same]; exact ⟨(hf _).2, (hf _).1⟩
    · rw [upd_row_other _ _ _ _ ho]; exact ⟨rfl, rfl⟩
  · exact Nat.le_of_eq e_n.symm
  · intro gd t ht
    rw [hundo t]
    have hmc : t.modColl = set2 st.store.modColl c obj true := ht.modColl.symm.trans e_mc
    have hrows : ∀ p, p < s0.n → (t.upd obj g).row p = st.store.row p := by
      intro p hp
      have := ht.row p hp
      rw [e_row] at this
      by_cases hpo : p = obj
      · subst hpo
        simp only [upd_row_same] at this ⊢
        rw [← this, hinv]
      · simp only [upd_row_other _ _ _ _ hpo] at this ⊢
        exact this.symm
    have hstat : ∀ p, p < st.store.n → (st.store.row p).status = ((t.upd obj g).row p).status := by
      intro p hp
      have := ht.status p (e_n ▸ hp)
      rw [e_row] at this
      by_cases hpo : p = obj
      · subst hpo
        simp only [upd_row_same] at this ⊢
        rw [hg, ← this, (hf _).1]
      · simp only [upd_row_other _ _ _ _ hpo] at this ⊢
        exact this
    have hn : st.store.n = t.n := e_n.symm.trans ht.n
    cases hm : st.store.modColl c obj
    · simp only [Bool.false_eq_true, if_false]
      refine ⟨hn, e_q.symm.trans ht.toSave, e_pk.symm.trans ht.pkIdx, e_idx.symm.trans ht.idx, e_cidx.symm.trans ht.cidx, ?_, hstat, fun p hp => (hrows p hp).symm⟩
      show st.store.modColl = set2 t.modColl c obj false
      rw [hmc]; exact (set2_undo _ _ _ _ _ hm).symm
    · simp only [if_true]
      refine ⟨hn, e_q.symm.trans ht.toSave, e_pk.symm.trans ht.pkIdx, e_idx.symm.trans ht.idx, e_cidx.symm.trans ht.cidx, ?_, hstat, fun p hp => (hrows p hp).symm⟩
      show st.store.modColl = t.modColl
      rw [hmc, ← hm, set2_self]

theorem step_reverseAdd1 (c : AttrId) (item obj : ObjId) (st : St) : Step s0 st (reverseAdd1 c item obj st).st := by
  unfold reverseAdd1
  dsimp only
  split
  · exact Step.refl _ _
  · rename_i hchk
    simp only [Bool.or_eq_true, not_or, Bool.not_eq_true] at hchk
    exact step_rowMod st _ c obj (fun r => r.revAdd c item ((st.store.row obj).removed c item))
      (fun r => r.unRevAdd c item ((st.store.row obj).removed c item))
      (Undo.revAdd c obj item ((st.store.row obj).removed c item) (st.store.modColl c obj)) rfl rfl rfl rfl rfl rfl rfl (fun t => rfl)
      (unRevAdd_revAdd _ c item hchk.1 hchk.2) (fun r => ⟨rfl, rfl⟩) (fun r => rfl)

theorem step_reverseRemove1 (c : AttrId) (item obj : ObjId) (st : St) : Step s0 st (reverseRemove1 c item obj st).st := by
  unfold reverseRemove1
  dsimp only
  split
  · exact Step.refl _ _
  · rename_i hchk
    simp only [Bool.or_eq_true, not_or, Bool.not_eq_true, Bool.not_eq_eq_eq_not, Bool.not_true, Bool.not_false] at hchk
    exact step_rowMod st _ c obj (fun r => r.revRemove c item ((st.store.row obj).added c item))
      (fun r => r.unRevRemove c item ((st.store.row obj).added c item))
      (Undo.revRemove c obj item ((st.store.row obj).added c item) (st.store.modColl c obj)) rfl rfl rfl rfl rfl rfl rfl (fun t => rfl)
      (unRevRemove_revRemove _ c item (by simpa using hchk.1) hchk.2) (fun r => ⟨rfl, rfl⟩) (fun r => rfl)

theorem step_reverseAdd (c : AttrId) (objs : List ObjId) (item : ObjId) (st : St) : Step s0 st (reverseAdd c objs item st).st :=
  (step_touchKey c st).trans (step_iter (fun obj st => step_reverseAdd1 c item obj st) objs _)

theorem step_reverseRemove (c : AttrId) (objs : List ObjId) (item : ObjId) (st : St) : Step s0 st (reverseRemove c objs item st).st :=
  (step_touchKey c st).trans (step_iter (fun obj st => step_reverseRemove1 c item obj st) objs _)

theorem step_refWrite (bit : Bool) (o : ObjId) (a : AttrId) (v : Option Nat) (st : St) (ho : o < st.store.n) : Step s0 st (refWrite bit o a v st) := by
  unfold refWrite
  dsimp only
  obtain ⟨hspec, hv, hidx0, hcidx0⟩ := mark_spec o (if bit then [a] else []) false st.store
  have hnil : ∀ {s2 : Store}, s2.idx = st.store.idx → s2.cidx = st.store.cidx → Good s0 st → ∀ T : Store, T.idx = s2.idx → T.cidx = s2.cidx →
      (([] : List IdxMove).foldl (undoMove o) T).idx = st.store.idx ∧ (([] : List IdxMove).foldl (undoMove o) T).cidx = st.store.cidx :=
    fun h1 h2 _ T e1 e2 => ⟨e1.trans h1, e2.trans h2⟩
  split
  · exact step_markEntry _ (some (a, (st.store.row o).val a)) ho hspec (by simp only [fixVal]; rw [hv, set1_self]) (fun t => rfl)
      (hnil hidx0 hcidx0)
  · exact step_markEntry _ (some (a, (st.store.row o).val a)) ho (hspec.setVal (fun r => set1 r.val a v))
      (by simp only [fixVal, upd_row_same]; rw [hv, set1_set1, set1_self]) (fun t => rfl) (hnil hidx0 hcidx0)

theorem step_attrClearRev (sch : Schema) (o : ObjId) (a : AttrId) (st : St) : Step s0 st (attrClearRev sch o a st).st := by
  unfold attrClearRev
  split
  · exact Step.refl _ _
  · rename_i hlt
    have ho : o < st.store.n := by simpa using hlt
    split
    · exact Step.refl _ _
    · split
      · exact Step.refl _ _
      · split
        · dsimp only
          split
          · exact Step.refl _ _
          · split
            · exact step_refWrite _ _ _ _ _ ho
            · split
              · exact (step_refWrite _ _ _ _ _ ho).trans (step_reverseRemove _ _ _ _)
              · exact step_refWrite _ _ _ _ _ ho
        · exact Step.refl _ _

theorem step_attrSetRev (sch : Schema) (o : ObjId) (a : AttrId) (x : ObjId) (st : St) : Step s0 st (attrSetRev sch o a x st).st := by
  unfold attrSetRev
  split
  · exact Step.refl _ _
  · rename_i hlt
    have ho : o < st.store.n := by simpa using hlt
    split
    · exact Step.refl _ _
    · split
      · exact Step.refl _ _
      · split
        · dsimp only
          split
          · exact step_refWrite _ _ _ _ _ ho
          · split
            · exact step_refWrite _ _ _ _ _ ho
            · split
              · exact (step_refWrite _ _ _ _ _ ho).trans (step_reverseRemove _ _ _ _)
              · split
                · exact step_refWrite _ _ _ _ _ ho
                · split
                  · exact step_refWrite _ _ _ _ _ ho
                  · exact (step_refWrite _ _ _ _ _ ho).trans (step_attrClearRev _ _ _ _)
        · exact Step.refl _ _

theorem rewriteSet_shape (s : Store) (o : ObjId) (c : AttrId) (new toAdd toRemove : ObjId → Bool) :
    ∃ (A R : ObjId → Bool) (N : Int), rewriteSet s o c new toAdd toRemove =
      { (s.upd o fun r => r.putColl c new A R N) with modColl := set2 s.modColl c o true, modKey := set1 s.modKey c true, modified := true } := by
  unfold rewriteSet
  exact ⟨_, _, _, rfl⟩

/-- the SetData rewrite of `Set.__set__` called with an undo list -/
theorem step_rewrite (o : ObjId) (c : AttrId) (new toAdd toRemove : ObjId → Bool) (st : St) :
    Step s0 st ((st.log (.rewrite o c ((st.store.row o).items c) ((st.store.row o).added c) ((st.store.row o).removed c)
      ((st.store.row o).count c) (st.store.modColl c o))).setStore (rewriteSet st.store o c new toAdd toRemove)) := by
  obtain ⟨A, R, N, h⟩ := rewriteSet_shape st.store o c new toAdd toRemove
  rw [h]
  exact step_rowMod st _ c o (fun r => r.putColl c new A R N)
    (fun r => r.putColl c ((st.store.row o).items c) ((st.store.row o).added c) ((st.store.row o).removed c) ((st.store.row o).count c))
    (.rewrite o c ((st.store.row o).items c) ((st.store.row o).added c) ((st.store.row o).removed c) ((st.store.row o).count c) (st.store.modColl c o))
    rfl rfl rfl rfl rfl rfl rfl (fun t => rfl) (putColl_putColl _ _ _ _ _ _) (fun r => ⟨rfl, rfl⟩) (fun r => rfl)

theorem step_delEntry {st : St} {S : Store} {o : ObjId} {KS : List IdxKey} (ho : o < st.store.n)
    (hsave : Good s0 st → SaveOk S) (hn : S.n = st.store.n) (hmc : S.modColl = st.store.modColl)
    (hother : ∀ p, p ≠ o → S.row p = st.store.row p)
    (hrow : S.row o = { (st.store.row o) with status := (S.row o).status, savePos := (S.row o).savePos })
    (hidx : ∀ T : Store, T.idx = S.idx → T.cidx = S.cidx → T.pkIdx = S.pkIdx →
      (KS.foldl (restoreKey o) T).idx = st.store.idx ∧ (KS.foldl (restoreKey o) T).cidx = st.store.cidx ∧ (KS.foldl (restoreKey o) T).pkIdx = st.store.pkIdx)
    (hq : Good s0 st → (((S.row o).status = .marked ∧ ∃ l, S.toSave = l ++ [some o] ∧
            (match (st.store.row o).savePos with | some p => l.set p (some o) | none => l) = st.store.toSave)
        ∨ ((S.row o).status = .cancelled ∧ ∃ p, (st.store.row o).savePos = some p ∧ (S.toSave).set p (some o) = st.store.toSave)
        ∨ ((S.row o).status = (st.store.row o).status ∧ (st.store.row o).status ≠ .marked ∧ (st.store.row o).status ≠ .cancelled ∧
            S.toSave = st.store.toSave ∧ (S.row o).savePos = (st.store.row o).savePos))) :
    Step s0 st ((st.setStore S).log (.del o (st.store.row o).status (st.store.row o).savePos KS)) := by
  apply Step.push hsave (Nat.le_of_eq hn.symm)
  intro g t ht
  exact delUndo_eqv ho hn hmc hother hrow hidx (hq g) t ht

theorem list_set_set_self {α : Type} (l : List α) (p : Nat) (x y : α) (h : l[p]? = some x) : (l.set p y).set p x = l := by
  rw [List.set_set]
  apply List.ext_getElem?
  intro i
  by_cases hi : p = i
  · subst hi
    have hlt : p < l.length := by
      by_cases hlt : p < l.length
      · exact hlt
      · rw [List.getElem?_eq_none (Nat.le_of_not_lt hlt)] at h; cases h
    rw [List.getElem?_set_self hlt, h]
  · rw [List.getElem?_set_ne hi]

/-- the end of `_delete_` -/
theorem step_finishDelete (sch : Schema) (o : ObjId) (st : St) (ho : o < st.store.n) : Step s0 st (finishDelete sch o st).st := by
  unfold finishDelete
  dsimp only
  split
  · exact Step.refl _ _
  · rename_i hnd
    have hpop := popKeys_spec sch o st.store
    generalize popKeys sch o st.store = pk at hpop
    obtain ⟨s1, keys, missing⟩ := pk
    simp only at hpop ⊢
    have hnm : (st.store.row o).status ≠ .marked := by intro h; rw [h] at hnd; exact hnd rfl
    have hnc : (st.store.row o).status ≠ .cancelled := by intro h; rw [h] at hnd; exact hnd rfl
    -- the error exits that changed the key indexes only
    have hA : Step s0 st ((st.setStore s1).log (.del o (st.store.row o).status (st.store.row o).savePos keys)) := by
      apply step_delEntry ho
      · intro g; exact g.save.of_eq hpop.toSave hpop.n (fun p => by rw [hpop.row]; exact ⟨rfl, rfl⟩)
      · exact hpop.n
      · exact hpop.modColl
      · intro p _; rw [hpop.row]
      · rw [hpop.row]
      · intro T e1 e2 e3
        obtain ⟨a1, a2, a3⟩ := popped_restore hpop T e1 e2
        exact ⟨a1, a2, a3.trans (e3.trans hpop.pkIdx)⟩
      · intro _; right; right
        rw [hpop.row]; exact ⟨rfl, hnm, hnc, hpop.toSave, rfl⟩
    split
    · exact hA
    · split
      · -- created
        split
        · exact hA
        · rename_i hcr p hp
          -- the store after `cancelled`
          have hB : ∀ (KS : List IdxKey) (P : EntId → Nat → Option ObjId),
              (∀ T : Store, T.idx = s1.idx → T.cidx = s1.cidx → T.pkIdx = P →
                (KS.foldl (restoreKey o) T).idx = st.store.idx ∧ (KS.foldl (restoreKey o) T).cidx = st.store.cidx ∧ (KS.foldl (restoreKey o) T).pkIdx = st.store.pkIdx) →
              Step s0 st ((st.setStore { ({ (s1.upd o fun r => { r with savePos := none, status := .cancelled }) with toSave := s1.toSave.set p none } : Store) with pkIdx := P }).log
                (.del o (st.store.row o).status (st.store.row o).savePos KS)) := by
            intro KS P hidx
            apply step_delEntry ho
            · intro g
              have h1 : SaveOk s1 := g.save.of_eq hpop.toSave hpop.n (fun q => by rw [hpop.row]; exact ⟨rfl, rfl⟩)
              have := h1.punch o (hpop.n ▸ ho) p (by rw [hpop.row]; exact hp) .cancelled ⟨by simp, by simp⟩
              exact this.of_eq rfl rfl (fun q => ⟨rfl, rfl⟩)
            · exact hpop.n
            · exact hpop.modColl
            · intro q hq; simp [Store.upd, hq, hpop.row]
            · simp [Store.upd, hpop.row]
            · exact hidx
            · intro g; right; left
              refine ⟨by simp [Store.upd], p, hp, ?_⟩
              show (s1.toSave.set p none).set p (some o) = _
              rw [hpop.toSave]
              exact list_set_set_self _ _ _ _ ((g.save o ho).1 p hp)
          split
          · exact hB keys s1.pkIdx (fun T e1 e2 e3 => by
              obtain ⟨a1, a2, a3⟩ := popped_restore hpop T e1 e2
              exact ⟨a1, a2, a3.trans (e3.trans hpop.pkIdx)⟩)
          · rename_i pkv hpkv
            split
            · rename_i hhit
              have hhit' : st.store.pkIdx (st.store.row o).ent pkv = some o := by
                have : s1.pkIdx (st.store.row o).ent pkv = some o := hhit
                rw [hpop.pkIdx] at this; exact this
              refine hB (keys ++ [.pk (st.store.row o).ent pkv]) _ (fun T e1 e2 e3 => ?_)
              exact popped_restore_pk hpop _ _ hhit' T e1 e2 (by rw [e3]; show set2 s1.pkIdx _ _ none = _; rw [hpop.pkIdx])
            · exact hB keys s1.pkIdx (fun T e1 e2 e3 => by
                obtain ⟨a1, a2, a3⟩ := popped_restore hpop T e1 e2
                exact ⟨a1, a2, a3.trans (e3.trans hpop.pkIdx)⟩)
      · -- marked_to_delete
        rename_i hncr
        split
        · exact hA
        · rename_i s2 hs2
          -- s2 is s1 with a hole punched at the old position (status modified) or s1 itself
          have hD : ∀ (l : List (Option ObjId)), s2 = { s1 with toSave := l } →
              (Good s0 st → (match (st.store.row o).savePos with | some p => l.set p (some o) | none => l) = st.store.toSave) →
              (Good s0 st → SaveOk ({ (s2.upd o fun r => { r with savePos := some s2.toSave.length, status := .marked }) with
                                      toSave := s2.toSave ++ [some o], modified := true } : Store)) →
              Step s0 st ((st.setStore ({ (s2.upd o fun r => { r with savePos := some s2.toSave.length, status := .marked }) with
                                      toSave := s2.toSave ++ [some o], modified := true } : Store)).log
                (.del o (st.store.row o).status (st.store.row o).savePos keys)) := by
            intro l hl hq hs
            subst hl
            apply step_delEntry ho hs
            · exact hpop.n
            · exact hpop.modColl
            · intro q hq'; simp [Store.upd, hq', hpop.row]
            · simp [Store.upd, hpop.row]
            · intro T e1 e2 e3
              obtain ⟨a1, a2, a3⟩ := popped_restore hpop T e1 e2
              exact ⟨a1, a2, a3.trans (e3.trans hpop.pkIdx)⟩
            · intro g; left
              exact ⟨by simp [Store.upd], l, rfl, hq g⟩
          split at hs2
          · rename_i hmod
            split at hs2
            · cases hs2
            · rename_i p hp
              cases hs2
              apply hD _ rfl
              · intro g; rw [hp]; simp only; rw [hpop.toSave]; exact list_set_set_self _ _ _ _ ((g.save o ho).1 p hp)
              · intro g
                have h1 : SaveOk s1 := g.save.of_eq hpop.toSave hpop.n (fun q => by rw [hpop.row]; exact ⟨rfl, rfl⟩)
                have h2 := h1.punch o (hpop.n ▸ ho) p (by rw [hpop.row]; exact hp) .modified ⟨by simp, by simp⟩
                have h3 := h2.append o (by simp [Store.upd]) .marked rfl true
                refine h3.of_eq rfl rfl (fun q => ?_)
                by_cases hq : q = o
                · rw [hq]; simp [Store.upd]
                · simp [Store.upd, hq]
          · split at hs2
            · cases hs2
            · rename_i hsp
              cases hs2
              have hnone : (st.store.row o).savePos = none := by
                cases h : (st.store.row o).savePos
                · rfl
                · rw [h] at hsp; simp at hsp
              apply hD s1.toSave rfl
              · intro g; rw [hnone]; exact hpop.toSave
              · intro g
                have h1 : SaveOk s1 := g.save.of_eq hpop.toSave hpop.n (fun q => by rw [hpop.row]; exact ⟨rfl, rfl⟩)
                exact h1.append o (by rw [hpop.row]; exact hnone) .marked rfl true

end prims

/-! ### the procedures -/

section procs
variable {sch : Schema} {s0 : Store}

/-- `Set.__set__`: restorable whenever it was called with an undo list, or failed -/
theorem step_setColl {del : ObjId → St → Res} (hdel : ∀ x st, Step s0 st (del x st).st) (isRev : Bool) (o : ObjId) (c : AttrId)
    (items : List ObjId) (st : St) (res : Res) (hres : setColl sch del isRev o c items st = res)
    (hcond : isRev = true ∨ ∃ e st', res = .err e st') : Step s0 st res.st := by
  unfold setColl at hres
  split at hres
  · rw [← hres]; exact Step.refl _ _
  · split at hres
    · rename_i d rd _ _
      dsimp only at hres
      split at hres
      · rw [← hres]; exact Step.refl _ _
      · generalize hr : (if (rd.kind != Kind.coll) = true then _ else _ : Res) = r at hres
        have hstep : Step s0 st r.st := by
          rw [← hr]
          split
          · apply step_bind
            · split
              · exact step_iter hdel _ _
              · exact step_iter (fun item st => step_attrClearRev sch item _ st) _ _
            · intro st1 _; exact step_iter (fun item st => step_attrSetRev sch item _ o st) _ _
          · apply step_bind (step_reverseRemove _ _ _ _)
            intro st1 _; exact step_reverseAdd _ _ _ _
        cases r with
        | err e st1 => rw [← hres]; exact hstep
        | ok st1 =>
          simp only [Res.bind] at hres
          rw [← hres]
          rcases hcond with rfl | ⟨e, st', habs⟩
          · exact hstep.trans (step_rewrite _ _ _ _ _ _)
          · rw [← hres] at habs; cases habs
    · rw [← hres]; exact Step.refl _ _

/-- the two relationship loops of `_delete_` -/
theorem step_deleteLoops (fuel : Nat) (ih : ∀ (o : ObjId) (st : St), Step s0 st (delete sch fuel o st).st) (o : ObjId) (st : St) :
    Step s0 st ((iter (fun (c : AttrId) (st : St) =>
        match sch.decl c, sch.decl ((sch.decl c).map (·.rev) |>.getD c) with
        | some d, some rd =>
          if d.kind != .coll then .ok st
          else if (st.store.row o).status.isDel then .err .objectDeleted st
          else
            let members := st.store.elems ((st.store.row o).items c)
            if members.isEmpty then .ok st
            else if d.cascade then iter (fun x => delete sch fuel x) members st
            else if !rd.required then setColl sch (fun x => delete sch fuel x) true o c [] st
            else .err .constraintError st
        | _, _ => .ok st) (sch.attrsOf (st.store.row o).ent) st).bind (iter (fun (a : AttrId) (st : St) =>
        match sch.decl a, sch.decl ((sch.decl a).map (·.rev) |>.getD a) with
        | some d, some rd =>
          if d.kind != .ref then .ok st else
          match (st.store.row o).val a with
          | none => .ok st
          | some x =>
            if rd.kind != .coll then
              if d.cascade then delete sch fuel x st
              else if !rd.required then
                if (st.store.row x).val d.rev = some o then attrClearRev sch x d.rev st
                else .ok st
              else .err .constraintError st
            else reverseRemove d.rev [x] o st
        | _, _ => .ok st) (sch.attrsOf (st.store.row o).ent))).st := by
  apply step_bind
  · apply step_iter
    intro c s
    split
    · split
      · exact Step.refl _ _
      · split
        · exact Step.refl _ _
        · dsimp only
          split
          · exact Step.refl _ _
          · split
            · exact step_iter (fun x st => ih x st) _ _
            · split
              · exact step_setColl (fun x st => ih x st) true o c [] s _ rfl (Or.inl rfl)
              · exact Step.refl _ _
    · exact Step.refl _ _
  · intro st1 _
    apply step_iter
    intro a s
    split
    · split
      · exact Step.refl _ _
      · split
        · exact Step.refl _ _
        · split
          · split
            · exact ih _ _
            · split
              · split
                · exact step_attrClearRev _ _ _ _
                · exact Step.refl _ _
              · exact Step.refl _ _
          · exact step_reverseRemove _ _ _ _
    · exact Step.refl _ _

/-- `Entity._delete_` -/
theorem step_delete : ∀ (fuel : Nat) (o : ObjId) (st : St), Step s0 st (delete sch fuel o st).st := by
  intro fuel
  induction fuel with
  | zero => intro o st; simp only [delete]; exact Step.refl _ _
  | succ fuel ih =>
    intro o st
    simp only [delete]
    split
    · exact Step.refl _ _
    · rename_i hlt
      split
      · exact Step.refl _ _
      · have hstepL := step_deleteLoops (sch := sch) (s0 := s0) fuel ih o st
        generalize hL : Res.bind _ _ = rL at hstepL ⊢
        exact step_bind hstepL (fun stB hB => step_finishDelete sch o stB
          (Nat.lt_of_lt_of_le (by simpa using hlt) (by rw [hB] at hstepL; exact hstepL.mono)))

theorem step_updateReverse (fuel : Nat) (d rd : AttrDecl) (o : ObjId) (a : AttrId) (old v : Option ObjId) (st : St) :
    Step s0 st (updateReverse sch fuel d rd o a old v st).st := by
  unfold updateReverse
  split
  · apply step_bind
    · split
      · exact Step.refl _ _
      · split
        · exact Step.refl _ _
        · split
          · exact step_delete _ _ _
          · split
            · exact Step.refl _ _
            · exact step_attrClearRev _ _ _ _
    · intro st1 _
      split
      · exact Step.refl _ _
      · exact step_attrSetRev _ _ _ _ _
  · apply step_bind
    · split
      · exact Step.refl _ _
      · exact step_reverseRemove _ _ _ _
    · intro st1 _
      split
      · exact Step.refl _ _
      · exact step_reverseAdd _ _ _ _

end procs

/-! ### the user calls: whenever one fails, running its undo list restores the store -/

section top
variable {sch : Schema} {s0 : Store}

/-- if the call fails, the failing state is still restorable -/
def ErrGood (s0 : Store) (st : St) (r : Res) : Prop := ∀ e st', r = .err e st' → Good s0 st → Good s0 st'

theorem ErrGood.of_step {st : St} {r : Res} (h : Step s0 st r.st) : ErrGood s0 st r := by
  intro e st' hr g; rw [hr] at h; exact h.good g

theorem ErrGood.ok (st st' : St) : ErrGood s0 st (.ok st') := by
  intro e st'' hr; cases hr

theorem ErrGood.bind_ok {st : St} {r : Res} {g : St → Res} (h : Step s0 st r.st) (hg : ∀ st1, ∃ st2, g st1 = .ok st2) :
    ErrGood s0 st (r.bind g) := by
  cases r with
  | ok st1 => obtain ⟨st2, h2⟩ := hg st1; simp only [Res.bind, h2]; exact ErrGood.ok _ _
  | err e st1 => exact ErrGood.of_step h

theorem KeyOk.of_eq {s s1 : Store} {o : ObjId} (h : KeyOk sch s o) (e1 : s1.idx = s.idx) (e2 : s1.cidx = s.cidx)
    (e3 : (s1.row o).val = (s.row o).val) : KeyOk sch s1 o := by
  refine ⟨?_, ?_, ?_, ?_⟩
  · intro a v; rw [e1, e3]; exact h.idxVal a v
  · intro a u; rw [e1, e3]; exact h.valIdx a u
  · intro k vs; rw [e2, e3]; exact h.cidxVal k vs
  · intro k us; rw [e2, e3]; exact h.valCidx k us

theorem ckeysWith_nodup (sch : Schema) (a : AttrId) : (sch.ckeysWith a).Nodup := List.Pairwise.filter _ List.nodup_range
theorem ckeysWith_lt (sch : Schema) (a : AttrId) : ∀ k, k ∈ sch.ckeysWith a → k < sch.ckeys.length := by
  intro k hk; exact List.mem_range.mp (List.mem_filter.mp hk).1
theorem ckeysOf_nodup (sch : Schema) (e : EntId) : (sch.ckeysOf e).Nodup := List.Pairwise.filter _ List.nodup_range
theorem ckeysOf_lt (sch : Schema) (e : EntId) : ∀ k, k ∈ sch.ckeysOf e → k < sch.ckeys.length := by
  intro k hk; exact List.mem_range.mp (List.mem_filter.mp hk).1

/-- `Attribute.__set__` called by the user -/
theorem errGood_attrSetTop (fuel : Nat) (o : ObjId) (a : AttrId) (v : Option Nat) (st : St) (ho : o < st.store.n) (hk : KeyOk sch st.store o) :
    ErrGood s0 st (attrSetTop sch fuel o a v st) := by
  unfold attrSetTop
  dsimp only
  split
  · exact ErrGood.of_step (Step.refl _ _)
  · split
    · exact ErrGood.of_step (Step.refl _ _)
    · rename_i d hd
      obtain ⟨hspec, hv, hidx0, hcidx0⟩ := mark_spec o (if d.bit then [a] else []) false st.store
      generalize hmk : mark o (if d.bit then [a] else []) false st.store = mk at hspec hv hidx0 hcidx0
      obtain ⟨s1, pop⟩ := mk
      simp only at hspec hv hidx0 hcidx0 ⊢
      split
      · exact ErrGood.ok _ _
      · split
        · refine ErrGood.of_step (step_markEntry _ (some (a, (st.store.row o).val a)) ho hspec (by simp only [fixVal]; rw [hv, set1_self]) (fun t => rfl) ?_)
          intro _ T e1 e2; exact ⟨e1.trans hidx0, e2.trans hcidx0⟩
        · have hm := runMoves_spec sch o (if d.unique then [a] else []) (sch.ckeysWith a) (set1 (st.store.row o).val a v) s1
            (hk.of_eq hidx0 hcidx0 hv) (by split <;> simp) (ckeysWith_nodup sch a) (ckeysWith_lt sch a)
            (by intro a' ha'; split at ha'
                · rename_i hu; simp only [List.mem_singleton] at ha'; rw [ha', hd]; exact hu
                · cases ha')
          generalize runMoves sch o (if d.unique then [a] else []) (sch.ckeysWith a) (set1 (st.store.row o).val a v) s1 = mv at hm ⊢
          cases mv with
          | missing s2 m => exact absurd hm id
          | conflict s2 m =>
            obtain ⟨f1, f2, f3, f4, f5, f6⟩ := hm
            refine ErrGood.of_step (step_markEntry _ (some (a, (st.store.row o).val a)) ho (hspec.frame f1 f2 f3 f4 f5)
              (by simp only [fixVal]; rw [f2, hv, set1_self]) (fun t => rfl) ?_)
            intro _ T e1 e2
            obtain ⟨g1, g2⟩ := f6 T e1 e2
            exact ⟨g1.trans hidx0, g2.trans hcidx0⟩
          | done s2 m =>
            obtain ⟨f1, f2, f3, f4, f5, f6⟩ := hm
            have hstep : Step s0 st ((st.setStore (s2.upd o fun r => { r with val := set1 (st.store.row o).val a v })).log
                (.attrSet o a (st.store.row o).status (st.store.row o).wbits pop ((st.store.row o).val a) m)) := by
              refine step_markEntry _ (some (a, (st.store.row o).val a)) ho ((hspec.frame f1 f2 f3 f4 f5).setVal (fun _ => set1 (st.store.row o).val a v))
                (by simp only [fixVal, upd_row_same]; rw [set1_set1, set1_self]) (fun t => rfl) ?_
              intro _ T e1 e2
              obtain ⟨g1, g2⟩ := f6 T e1 e2
              exact ⟨g1.trans hidx0, g2.trans hcidx0⟩
            simp only
            split
            · split
              · exact ErrGood.of_step (hstep.trans (step_updateReverse _ _ _ _ _ _ _ _))
              · exact ErrGood.of_step hstep
            · exact ErrGood.ok _ _

theorem upd_fixNone (X : Store) (o : ObjId) : (X.upd o fun r => { r with val := fixVal none r.val }) = X := upd_id X o

theorem attrsOf_nodup (sch : Schema) (e : EntId) : (sch.attrsOf e).Nodup := List.Pairwise.filter _ List.nodup_range

/-- `Entity.set` -/
theorem errGood_setMany (fuel : Nat) (o : ObjId) (kw : List (AttrId × Arg)) (st : St) (ho : o < st.store.n) (hk : KeyOk sch st.store o) :
    ErrGood s0 st (setMany sch fuel o kw st) := by
  unfold setMany
  dsimp only
  generalize hav : (List.map (fun p => (p.1, argVal p.2)) (List.filter (fun p => !match sch.decl p.1 with | some d => decide (d.kind = Kind.coll) | none => false) kw)) = avdict
  generalize hcv : (List.map (fun p => (p.1, argItems p.2)) (List.filter (fun p => match sch.decl p.1 with | some d => decide (d.kind = Kind.coll) | none => false) kw)) = collAv
  -- the marking
  have hmkspec : ∀ mk : Store × Bool, (mk = (if avdict.isEmpty = true then (st.store, false)
        else mark o (List.filter (fun a => match sch.decl a with | some d => d.bit | none => false) (List.map (fun x => x.1) avdict)) true st.store)) →
      MarkSpec st.store o mk.1 mk.2 ∧ (mk.1.row o).val = (st.store.row o).val ∧ mk.1.idx = st.store.idx ∧ mk.1.cidx = st.store.cidx := by
    intro mk hmk
    split at hmk
    · rw [hmk]; exact ⟨⟨rfl, rfl, rfl, fun _ _ => rfl, ⟨rfl, rfl, rfl, rfl, rfl, rfl⟩, ⟨rfl, rfl, rfl⟩⟩, rfl, rfl, rfl⟩
    · rw [hmk]; exact mark_spec _ _ _ _
  generalize hmk : (if avdict.isEmpty = true then (st.store, false)
        else mark o (List.filter (fun a => match sch.decl a with | some d => d.bit | none => false) (List.map (fun x => x.1) avdict)) true st.store) = mk
  obtain ⟨hspec, hv, hidx0, hcidx0⟩ := hmkspec mk hmk.symm
  obtain ⟨s1, pop⟩ := mk
  simp only at hspec hv hidx0 hcidx0 ⊢
  split
  · exact ErrGood.ok _ _
  · generalize hav2 : List.filter (fun p => (st.store.row o).val p.1 != p.2) avdict = av2
    generalize hnv : (fun a => match List.find? (fun p => p.1 == a) av2 with | some p => p.2 | none => (st.store.row o).val a) = newVal
    generalize hsimple : List.filter (fun a => (match sch.decl a with | some d => d.unique | none => false) && av2.any fun p => p.1 == a)
      (sch.attrsOf (st.store.row o).ent) = simple
    generalize hcomps : List.filter (fun k => (sch.keyAttrs k).any fun a => av2.any fun p => p.1 == a) (sch.ckeysOf (st.store.row o).ent) = comps
    have hm := runMoves_spec sch o simple comps newVal s1 (hk.of_eq hidx0 hcidx0 hv)
      (by rw [← hsimple]; exact List.Pairwise.filter _ (attrsOf_nodup sch _))
      (by rw [← hcomps]; exact List.Pairwise.filter _ (ckeysOf_nodup sch _))
      (by intro k hk'; rw [← hcomps] at hk'; exact ckeysOf_lt sch _ k (List.mem_filter.mp hk').1)
      (by intro a ha; rw [← hsimple] at ha
          have := (List.mem_filter.mp ha).2
          simp only [Bool.and_eq_true] at this
          exact this.1)
    generalize runMoves sch o simple comps newVal s1 = mv at hm ⊢
    have hentry : ∀ (s2 : Store) (m : List IdxMove), MovesOk o s1 s2 m →
        Step s0 st ((st.setStore s2).log (.setMany o (st.store.row o).status (st.store.row o).wbits pop m)) := by
      intro s2 m hm
      obtain ⟨f1, f2, f3, f4, f5, f6⟩ := hm
      refine step_markEntry _ none ho (hspec.frame f1 f2 f3 f4 f5) (by simp only [fixVal]; rw [f2, hv])
        (fun t => by simp only [undo1]; rw [upd_fixNone]) ?_
      intro _ T e1 e2
      obtain ⟨g1, g2⟩ := f6 T e1 e2
      exact ⟨g1.trans hidx0, g2.trans hcidx0⟩
    cases mv with
    | missing s2 m => exact absurd hm id
    | conflict s2 m => exact ErrGood.of_step (hentry s2 m hm)
    | done s2 m =>
      simp only
      apply ErrGood.bind_ok
      · refine (hentry s2 m hm).trans ?_
        apply step_bind
        · apply step_iter
          intro p s
          split
          · split
            · split
              · exact step_updateReverse _ _ _ _ _ _ _ _
              · exact Step.refl _ _
            · exact Step.refl _ _
          · exact Step.refl _ _
        · intro st1 _
          apply step_iter
          intro p s
          exact step_setColl (fun x st => step_delete _ x st) true o p.1 p.2 s _ rfl (Or.inl rfl)
      · intro st1; exact ⟨_, rfl⟩

/-- `SetInstance.add` -/
theorem errGood_collAdd (o : ObjId) (c : AttrId) (items : List ObjId) (st : St) : ErrGood s0 st (collAdd sch o c items st) := by
  unfold collAdd
  split
  · exact ErrGood.of_step (Step.refl _ _)
  · split
    · dsimp only
      split
      · exact ErrGood.ok _ _
      · apply ErrGood.bind_ok
        · split
          · exact step_iter (fun item st => step_attrSetRev sch item _ o st) _ _
          · exact step_reverseAdd _ _ _ _
        · intro st1; exact ⟨_, rfl⟩
    · exact ErrGood.of_step (Step.refl _ _)

/-- `SetInstance.remove` -/
theorem errGood_collRemove (fuel : Nat) (o : ObjId) (c : AttrId) (items : List ObjId) (st : St) : ErrGood s0 st (collRemove sch fuel o c items st) := by
  unfold collRemove
  split
  · exact ErrGood.of_step (Step.refl _ _)
  · split
    · dsimp only
      split
      · exact ErrGood.ok _ _
      · apply ErrGood.bind_ok
        · split
          · split
            · exact step_iter (fun x st => step_delete _ x st) _ _
            · exact step_iter (fun item st => step_attrClearRev sch item _ st) _ _
          · exact step_reverseRemove _ _ _ _
        · intro st1; exact ⟨_, rfl⟩
    · exact ErrGood.of_step (Step.refl _ _)

/-- the allocation of the object under construction and its undo (`cache.objects.discard(obj)`, primary-key entry) -/
theorem step_alloc (e : EntId) (pk : Option Nat) (st : St) (hn : st.store.n = s0.n)
    (hfree : ∀ p, pk = some p → st.store.pkIdx e p = none) :
    Step s0 st ((st.setStore (st.store.alloc e pk)).log (.created st.store.n e pk)) := by
  unfold Store.alloc
  apply Step.push
  · intro g q hqn
    cases pk <;>
    · simp only at hqn ⊢
      by_cases hq : q = st.store.n
      · simp [hq]
      · obtain ⟨h1, h2⟩ := g.save q (by omega)
        simp only [hq, if_false]; exact ⟨h1, h2⟩
  · cases pk <;> exact Nat.le_succ _
  · intro g t ht
    have hlt : ∀ q, q < s0.n → q ≠ st.store.n := fun q hq => by rw [hn]; exact Nat.ne_of_lt hq
    cases pk with
    | none =>
      simp only [undo1]
      refine ⟨rfl, ht.toSave, ht.pkIdx, ht.idx, ht.cidx, ht.modColl, ?_, ?_⟩
      · intro q hq
        have := ht.status q (Nat.lt_succ_of_lt hq)
        simp only [Nat.ne_of_lt hq, if_false] at this; exact this
      · intro q hq
        have := ht.row q hq
        simp only [hlt q hq, if_false] at this; exact this
    | some p =>
      have hpk : t.pkIdx = set2 st.store.pkIdx e p (some st.store.n) := ht.pkIdx.symm
      simp only [undo1]
      have hhit : t.pkIdx e p = some st.store.n := by rw [hpk]; simp [set2]
      simp only [hhit, if_true]
      refine ⟨rfl, ht.toSave, ?_, ht.idx, ht.cidx, ht.modColl, ?_, ?_⟩
      · show st.store.pkIdx = set2 t.pkIdx e p none
        rw [hpk]; exact (set2_undo _ _ _ _ _ (hfree p rfl)).symm
      · intro q hq
        have := ht.status q (Nat.lt_succ_of_lt hq)
        simp only [Nat.ne_of_lt hq, if_false] at this; exact this
      · intro q hq
        have := ht.row q hq
        simp only [hlt q hq, if_false] at this; exact this

/-- `obj._vals_[attr] = val` on the object under construction: no undo is registered, none is needed (the object is discarded) -/
theorem step_freshVal (id : ObjId) (f : Row → Row) (st : St) (hid : s0.n ≤ id)
    (hf : ∀ r, (f r).status = r.status ∧ (f r).savePos = r.savePos) : Step s0 st (st.setStore (st.store.upd id f)) := by
  apply Step.unlogged
  · intro g
    refine SaveOk.of_eq (s := st.store) g.save rfl rfl ?_
    intro q
    by_cases hq : q = id
    · rw [hq, upd_row_same]; exact ⟨(hf _).2, (hf _).1⟩
    · rw [upd_row_other _ _ _ _ hq]; exact ⟨rfl, rfl⟩
  · exact Nat.le_refl _
  · intro g t ht
    refine ⟨ht.n, ht.toSave, ht.pkIdx, ht.idx, ht.cidx, ht.modColl, ?_, ?_⟩
    · intro q hq
      have := ht.status q hq
      by_cases hqi : q = id
      · rw [hqi] at this ⊢; rw [upd_row_same, (hf _).1] at this; exact this
      · rw [upd_row_other _ _ _ _ hqi] at this; exact this
    · intro q hq
      have := ht.row q hq
      have hqi : q ≠ id := fun e => by rw [e] at hq; exact absurd hq (Nat.not_lt.mpr hid)
      rw [upd_row_other _ _ _ _ hqi] at this; exact this

/-- one attribute of the constructor's loop -/
theorem step_createStep (fuel : Nat) (id : ObjId) (v : AttrId → Option Nat) (items : AttrId → List ObjId) (a : AttrId) (st : St) (hid : s0.n ≤ id) :
    Step s0 st (createStep sch fuel id v items a st).st := by
  unfold createStep
  split
  · split
    · exact step_setColl (fun x st => step_delete _ x st) true _ a _ st _ rfl (Or.inl rfl)
    · have h1 := step_freshVal (s0 := s0) id (fun r => { r with val := set1 r.val a (v a) }) st hid (fun r => ⟨rfl, rfl⟩)
      dsimp only
      split
      · split
        · exact h1.trans (step_updateReverse _ _ _ _ _ _ _ _)
        · exact h1
      · exact h1
  · exact Step.refl _ _

/-- `Entity.__init__` -/
theorem errGood_create (fuel : Nat) (e : EntId) (pk : Option Nat) (vals : List (AttrId × Arg)) (st : St) (hn : st.store.n = s0.n) :
    ErrGood s0 st (create sch fuel e pk vals st) := by
  unfold create
  dsimp only
  split
  · exact ErrGood.of_step (Step.refl _ _)
  · split
    · exact ErrGood.of_step (Step.refl _ _)
    · split
      · exact ErrGood.of_step (Step.refl _ _)
      · split
        · exact ErrGood.of_step (Step.refl _ _)
        · rename_i hfree
          apply ErrGood.bind_ok
          · refine (step_alloc e pk st hn ?_).trans ?_
            · intro p hp
              rw [hp] at hfree
              simp only [pkTaken, Bool.not_eq_true, Option.isSome_eq_false_iff, Option.isNone_iff_eq_none] at hfree
              exact hfree
            · exact step_iter (fun a s => step_createStep _ _ _ _ a s (Nat.le_of_eq hn.symm)) _ _
          · intro st1; exact ⟨_, rfl⟩

/-- the key indexes hold exactly the current key values of every live object -/
def IdxOk (sch : Schema) (s : Store) : Prop := ∀ o, o < s.n → (s.row o).status.isDel = false → KeyOk sch s o

/-- every user call: if it fails, the state it fails in is restorable -/
theorem errGood_run1 (op : Op) (s : Store) (hk : IdxOk sch s) : ErrGood s { store := s } (run1 sch op { store := s }) := by
  unfold run1
  dsimp only
  cases op with
  | flush ids => exact ErrGood.ok _ _
  | create e pk vals =>
    simp only
    split
    · exact errGood_create _ _ _ _ _ rfl
    · exact ErrGood.of_step (Step.refl _ _)
  | set o a v =>
    simp only
    split
    · exact ErrGood.of_step (Step.refl _ _)
    · rename_i hok
      split
      · exact ErrGood.of_step (Step.refl _ _)
      · rename_i hnd
        split
        · exact ErrGood.of_step (Step.refl _ _)
        · split
          · intro e st' hr g
            exact (step_setColl (fun x st => step_delete _ x st) false o a _ _ _ hr (Or.inr ⟨e, st', rfl⟩)).good g
          · have holt : o < s.n := by
              unfold attrOk at hok
              split at hok
              · assumption
              · cases hok
            exact errGood_attrSetTop _ _ _ _ _ holt (hk o holt (by simpa using hnd))
  | setMany o kw =>
    simp only
    split
    · rename_i hlt
      split
      · exact ErrGood.of_step (Step.refl _ _)
      · rename_i hnd
        split
        · exact ErrGood.of_step (Step.refl _ _)
        · exact errGood_setMany _ _ _ _ hlt (hk o hlt (by simpa using hnd))
    · exact ErrGood.of_step (Step.refl _ _)
  | add o c items =>
    simp only
    split
    · exact ErrGood.of_step (Step.refl _ _)
    · split
      · exact ErrGood.of_step (Step.refl _ _)
      · split
        · exact ErrGood.of_step (Step.refl _ _)
        · exact errGood_collAdd _ _ _ _
  | remove o c items =>
    simp only
    split
    · exact ErrGood.of_step (Step.refl _ _)
    · split
      · exact ErrGood.of_step (Step.refl _ _)
      · split
        · exact ErrGood.of_step (Step.refl _ _)
        · exact errGood_collRemove _ _ _ _ _
  | clear o c =>
    simp only
    split
    · exact ErrGood.of_step (Step.refl _ _)
    · split
      · intro e st' hr g
        exact (step_setColl (fun x st => step_delete _ x st) false o c _ _ _ hr (Or.inr ⟨e, st', rfl⟩)).good g
      · exact ErrGood.of_step (Step.refl _ _)
  | delete o =>
    simp only
    split
    · exact ErrGood.of_step (step_delete _ _ _)
    · exact ErrGood.of_step (Step.refl _ _)

/-- a call that raises: running its undo list gives back the store the call started from -/
theorem failing_call_restores (op : Op) (s : Store) (e : Err) (st' : St) (hs : SaveOk s) (hk : IdxOk sch s)
    (h : run1 sch op { store := s } = .err e st') : Eqv s.n (undoAll st'.trail st'.store) s := by
  have g0 : Good s ({ store := s } : St) := ⟨hs, Nat.le_refl _, fun t ht => ht.symm⟩
  have g := errGood_run1 (sch := sch) op s hk e st' h g0
  exact g.restores st'.store (Eqv.refl _ _)

/-- the well-formedness facts about a store depend only on what `Eqv` compares -/
theorem SaveOk.of_eqv {s R : Store} (h : SaveOk s) (he : Eqv s.n R s) : SaveOk R := by
  intro o ho
  have ho' : o < s.n := he.n ▸ ho
  obtain ⟨h1, h2⟩ := h o ho'
  rw [he.row o ho', he.toSave]
  exact ⟨h1, h2⟩

theorem IdxOk.of_eqv {s R : Store} (h : IdxOk sch s) (he : Eqv s.n R s) : IdxOk sch R := by
  intro o ho hl
  have ho' : o < s.n := he.n ▸ ho
  rw [he.row o ho'] at hl
  have hk := h o ho' hl
  exact hk.of_eq he.idx he.cidx (by rw [he.row o ho'])

end top

end PonyVerif.Model.Undo
