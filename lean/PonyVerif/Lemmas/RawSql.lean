/-
  C30 — helper lemmas about `Model/RawSql.lean`.
-/
import PonyVerif.Model.RawSql
namespace PonyVerif.Model.RawSql

/-! ### declarative pieces -/

/-- expression texts, in order -/
def exprsOf : List Tok → List (List Char)
  | [] => []
  | .expr e _ :: r => e :: exprsOf r
  | .text _ :: r => exprsOf r
  | .dollar :: r => exprsOf r

/-- the placeholder of the k-th parameter (k counts from 1) -/
def placeholder : Style → Nat → List Char
  | .qmark, _ => ['?']
  | .format, _ => ['%', 's']
  | .numeric, k => ':' :: natDigits k
  | .named, k => ':' :: keyText k
  | .pyformat, k => '%' :: '(' :: keyText k ++ [')', 's']

/-- the chunks of the adapted statement, `k` parameters having been seen so far -/
def pieces (style : Style) : Nat → List Tok → List (List Char)
  | _, [] => []
  | k, .text t :: r => pre style t :: pieces style k r
  | k, .dollar :: r => ['$'] :: pieces style k r
  | k, .expr _ _ :: r => placeholder style (k + 1) :: pieces style (k + 1) r

def Style.keyed : Style → Bool
  | .named | .pyformat => true
  | _ => false

/-- `[(k+1, a₀), (k+2, a₁), …]` -/
def enumK {α : Type} : Nat → List α → List (Nat × α)
  | _, [] => []
  | k, a :: r => (k + 1, a) :: enumK (k + 1) r

theorem enumK_append {α : Type} (k : Nat) (l : List α) (v : α) :
    enumK k (l ++ [v]) = enumK k l ++ [(k + l.length + 1, v)] := by
  induction l generalizing k with
  | nil => simp [enumK]
  | cons a r ih => simp [enumK, ih]; omega

theorem enumK_length {α : Type} (k : Nat) (l : List α) : (enumK k l).length = l.length := by
  induction l generalizing k with
  | nil => rfl
  | cons a r ih => simp [enumK, ih]

theorem enumK_keys {α : Type} (k : Nat) (l : List α) : ∀ kv ∈ enumK k l, k < kv.1 ∧ kv.1 ≤ k + l.length := by
  induction l generalizing k with
  | nil => intro kv h; cases h
  | cons a r ih =>
    intro kv h
    simp only [enumK, List.mem_cons] at h
    rcases h with rfl | h
    · simp
    · have := ih (k + 1) kv h
      simp only [List.length_cons]; omega

theorem dictSet_fresh (l : List (List Char)) (v : List Char) :
    dictSet (enumK 0 l) (l.length + 1) v = enumK 0 (l ++ [v]) := by
  unfold dictSet
  have hno : (enumK 0 l).any (fun kv => kv.1 == l.length + 1) = false := by
    rw [List.any_eq_false]
    intro kv hkv
    have := enumK_keys 0 l kv hkv
    simp; omega
  rw [hno]
  simp [enumK_append]

/-! ### the loop invariant -/

/-- the accumulators after some expressions `es` have been seen -/
def StOk (style : Style) (st : St) (es : List (List Char)) : Prop :=
  if style.keyed then st.args = [] ∧ st.kwargs = enumK 0 es else st.kwargs = [] ∧ st.args = es

theorem step_ok (style : Style) (st : St) (es : List (List Char)) (h : StOk style st es) (t : Tok) :
    (step style st t).result = st.result ++ pieces style es.length [t] ∧
    StOk style (step style st t) (es ++ exprsOf [t]) := by
  cases t with
  | text t => exact ⟨by simp [step, pieces], by simpa [step, exprsOf, StOk] using h⟩
  | dollar => exact ⟨by simp [step, pieces], by simpa [step, exprsOf, StOk] using h⟩
  | expr e semi =>
    cases style <;> simp only [StOk, Style.keyed, Bool.false_eq_true, if_false, if_true] at h <;>
      obtain ⟨h1, h2⟩ := h <;>
      simp [step, pieces, exprsOf, placeholder, StOk, Style.keyed, h1, h2, dictSet_fresh, enumK_length]

theorem pieces_append (style : Style) (k : Nat) (a b : List Tok) :
    pieces style k (a ++ b) = pieces style k a ++ pieces style (k + (exprsOf a).length) b := by
  induction a generalizing k with
  | nil => simp [pieces, exprsOf]
  | cons t r ih =>
    cases t with
    | text t => simp [pieces, exprsOf, ih]
    | dollar => simp [pieces, exprsOf, ih]
    | expr e semi =>
      simp only [List.cons_append, pieces, exprsOf, ih, List.length_cons]
      have : k + 1 + (exprsOf r).length = k + ((exprsOf r).length + 1) := by omega
      rw [this]

theorem exprsOf_append (a b : List Tok) : exprsOf (a ++ b) = exprsOf a ++ exprsOf b := by
  induction a with
  | nil => rfl
  | cons t r ih => cases t <;> simp [exprsOf, ih]

theorem fold_ok (style : Style) (toks : List Tok) :
    ∀ (st : St) (es : List (List Char)), StOk style st es →
      (toks.foldl (step style) st).result = st.result ++ pieces style es.length toks ∧
      StOk style (toks.foldl (step style) st) (es ++ exprsOf toks) := by
  induction toks with
  | nil => intro st es h; simpa [pieces, exprsOf] using h
  | cons t r ih =>
    intro st es h
    obtain ⟨h1, h2⟩ := step_ok style st es h t
    obtain ⟨h3, h4⟩ := ih (step style st t) (es ++ exprsOf [t]) h2
    simp only [List.foldl_cons]
    refine ⟨?_, ?_⟩
    · rw [h3, h1]
      have : pieces style es.length (t :: r) = pieces style es.length [t] ++ pieces style (es ++ exprsOf [t]).length r := by
        have := pieces_append style es.length [t] r
        simpa [List.length_append] using this
      rw [this, List.append_assoc]
    · have : es ++ exprsOf (t :: r) = es ++ exprsOf [t] ++ exprsOf r := by
        have := exprsOf_append [t] r
        simp only [List.singleton_append] at this
        rw [this, List.append_assoc]
      rw [this]; exact h4

/-! ### digits -/

theorem digit_val (d : Nat) (h : d < 10) : (digit d).toNat - 48 = d := by
  have : ∀ x : Fin 10, (digit x.val).toNat - 48 = x.val := by decide
  exact this ⟨d, h⟩

theorem digit_ne_paren (d : Nat) : digit d ≠ ')' := by
  unfold digit; split <;> decide

theorem parseNat_snoc (l : List Char) (c : Char) : parseNat (l ++ [c]) = parseNat l * 10 + (c.toNat - 48) := by
  simp [parseNat, List.foldl_append]

theorem parseNat_natDigits (n : Nat) : parseNat (natDigits n) = n := by
  induction n using natDigits.induct with
  | case1 n h => rw [natDigits, if_pos h]; simp [parseNat, digit_val n h]
  | case2 n h ih =>
    rw [natDigits, if_neg h, parseNat_snoc, ih, digit_val (n % 10) (Nat.mod_lt _ (by omega))]
    omega

theorem natDigits_no_paren (n : Nat) : ∀ c ∈ natDigits n, c ≠ ')' := by
  induction n using natDigits.induct with
  | case1 n h => rw [natDigits, if_pos h]; intro c hc; rw [List.mem_singleton.mp hc]; exact digit_ne_paren n
  | case2 n h ih =>
    rw [natDigits, if_neg h]
    intro c hc
    rcases List.mem_append.mp hc with h' | h'
    · exact ih c h'
    · rw [List.mem_singleton.mp h']; exact digit_ne_paren _

/-! ### the cache -/

theorem lookup_mem {α β : Type} [BEq α] [LawfulBEq α] (k : α) (v : β) (l : List (α × β)) (h : l.lookup k = some v) :
    (k, v) ∈ l := by
  induction l with
  | nil => simp [List.lookup] at h
  | cons p r ih =>
    obtain ⟨a, b⟩ := p
    simp only [List.lookup] at h
    cases hab : (k == a)
    · simp only [hab] at h; exact List.mem_cons_of_mem _ (ih h)
    · simp only [hab, Option.some.injEq] at h
      have : k = a := eq_of_beq hab
      subst this; subst h; exact List.mem_cons_self

end PonyVerif.Model.RawSql
