import PonyVerif.Model.TxnEmit
/-
  C17 helper lemmas: every piece of Model/TxnEmit.lean emits a word of L and keeps the bookkeeping consistent with the
  phase of the connection - provided the entry points ask for a transaction (`opens`, `flushImm`).
-/
namespace PonyVerif.Lemmas.TxnEmit
open PonyVerif.Model.TxnProtocol PonyVerif.Model.TxnEmit

/-- `cache.connection` is the pooled connection; `in_transaction` needs a connection -/
def Inv (a : A) : Prop := (a.conn = true → a.pool = true) ∧ (a.inTx = true → a.conn = true)

/-- a piece started in the phase of `a` ends in the phase of its final state, inside L -/
def Good (a : A) (r : R) : Prop := runL (phaseOf a) r.evs = some (phaseOf r.a) ∧ Inv r.a

theorem runL_append (x y : List Ev) : ∀ (p : Phase), runL p (x ++ y) = (runL p x).bind (fun q => runL q y) := by
  induction x with
  | nil => intro p; simp [runL]
  | cons e x ih =>
    intro p
    simp only [List.cons_append, runL]
    cases next p e with
    | none => simp
    | some p' => simpa using ih p'

/-- one statement: a write needs `cache.immediate` (its own `start_transaction`, or the session's / flush's flag) -/
theorem stmt_good (a : A) (setImm : Bool) (sv : Stmt) (f : Nat → Bool) (hI : Inv a)
    (hw : (∃ ws, sv = .write ws) → (a.imm || setImm) = true) (hs : sv = .read ∨ ∃ ws, sv = .write ws) :
    Good a (stmt a setImm sv f) := by
  obtain ⟨pool, conn, inTx, imm⟩ := a
  obtain ⟨h1, h2⟩ := hI
  simp only at h1 h2
  rcases hs with rfl | ⟨ws, rfl⟩
  · cases pool <;> cases conn <;> cases inTx <;> cases imm <;> cases setImm <;> simp at h1 h2 <;>
      cases h0 : f 0 <;> cases hf1 : f 1 <;> cases hf2 : f 2 <;>
      simp [Good, Inv, stmt, execStmt, phaseOf, runL, next, h0, hf1, hf2]
  · have hw' := hw ⟨ws, rfl⟩
    cases pool <;> cases conn <;> cases inTx <;> cases imm <;> cases setImm <;> simp at h1 h2 hw' <;>
      cases h0 : f 0 <;> cases hf1 : f 1 <;> cases hf2 : f 2 <;>
      simp [Good, Inv, stmt, execStmt, phaseOf, runL, next, h0, hf1, hf2]

/-- after a statement that went through with `cache.immediate` set, the session is inside its transaction -/
theorem stmt_inTx (a : A) (setImm : Bool) (sv : Stmt) (f : Nat → Bool) (hI : Inv a)
    (hok : (stmt a setImm sv f).ok = true) (himm : (a.imm || setImm) = true) :
    (stmt a setImm sv f).a.inTx = true ∧ (stmt a setImm sv f).a.imm = true := by
  obtain ⟨pool, conn, inTx, imm⟩ := a
  obtain ⟨h1, h2⟩ := hI
  simp only at h1 h2
  revert hok
  cases pool <;> cases conn <;> cases inTx <;> cases imm <;> cases setImm <;> simp at h1 h2 himm <;>
    cases h0 : f 0 <;> cases hf1 : f 1 <;> cases hf2 : f 2 <;>
    simp [stmt, execStmt, h0, hf1, hf2]

/-- `imm` never goes down inside a statement -/
theorem stmt_imm_mono (a : A) (setImm : Bool) (sv : Stmt) (f : Nat → Bool) (h : a.imm = true) :
    (stmt a setImm sv f).a.imm = true := by
  obtain ⟨pool, conn, inTx, imm⟩ := a
  simp only at h; subst h
  cases pool <;> cases conn <;> cases inTx <;> cases setImm <;>
    cases h0 : f 0 <;> cases hf1 : f 1 <;> cases hf2 : f 2 <;>
    simp [stmt, execStmt, h0, hf1, hf2]

/-- `close(rollback=True)` from any phase in which the connection can be: ends outside a transaction -/
theorem closeRb_good (a : A) (si ddl : Bool) (f : Nat → Bool) (ph : Phase) (h1 : a.conn = true → a.pool = true)
    (hph : (a.conn = true → ph = .auto ∨ ph = .txn) ∧ (a.conn = false → ph = phaseOf { a with inTx := false })) :
    runL ph (closeRb a si ddl f).evs = some (phaseOf (closeRb a si ddl f).a) ∧ Inv (closeRb a si ddl f).a ∧
    (closeRb a si ddl f).a.inTx = false ∧ (closeRb a si ddl f).a.conn = false := by
  obtain ⟨pool, conn, inTx, imm⟩ := a
  simp only at h1 hph
  cases conn
  · have := hph.2 rfl; subst this
    cases pool <;> simp [closeRb, runL, phaseOf, Inv]
  · have hp := h1 rfl; subst hp
    rcases hph.1 rfl with rfl | rfl <;> cases ddl <;> cases h0 : f 0 <;> cases hf1 : f 1 <;>
      simp [closeRb, runL, next, phaseOf, Inv, h0, hf1]

theorem release_good (a : A) (si ddl : Bool) (f : Nat → Bool) (hI : Inv a) (hin : a.inTx = false) :
    Good a (release a si ddl f) := by
  obtain ⟨pool, conn, inTx, imm⟩ := a
  obtain ⟨h1, h2⟩ := hI
  simp only at h1 h2 hin; subst hin
  cases pool <;> cases conn <;> simp at h1 <;> cases ddl <;> cases h0 : f 0 <;>
    simp [Good, Inv, release, runL, next, phaseOf, h0]

theorem good_seq {a : A} {r r2 : R} (h1 : Good a r) (h2 : Good r.a r2) :
    runL (phaseOf a) (r.evs ++ r2.evs) = some (phaseOf r2.a) ∧ Inv r2.a := by
  refine ⟨?_, h2.2⟩
  rw [runL_append, h1.1]; simpa using h2.1

theorem closeRb_inv (a : A) (si ddl : Bool) (f : Nat → Bool) (hI : Inv a) :
    Good a (closeRb a si ddl f) ∧ (closeRb a si ddl f).a.inTx = false ∧ (closeRb a si ddl f).a.conn = false := by
  have := closeRb_good a si ddl f (phaseOf a) hI.1 ⟨?_, ?_⟩
  · exact ⟨⟨this.1, this.2.1⟩, this.2.2⟩
  · intro hc
    have hp := hI.1 hc
    cases hin : a.inTx <;> simp [phaseOf, hp, hin]
  · intro hc
    have : a.inTx = false := by
      cases hin : a.inTx with
      | false => rfl
      | true => have := hI.2 hin; rw [hc] at this; cases this
    cases a; simp_all [phaseOf]

/-- the save loop: `cache.immediate` is set (by `SessionCache.flush`), so every statement finds or opens the transaction -/
theorem flushLoop_good (opens : Entry → Bool) (ws : List (Entry × List RowWrite)) : ∀ (a : A) (f : Nat → Bool), Inv a →
    a.imm = true → Good a (flushLoop opens a ws f) ∧ (flushLoop opens a ws f).a.imm = true := by
  induction ws with
  | nil => intro a f hI him; exact ⟨⟨by simp [flushLoop, runL], hI⟩, him⟩
  | cons p rest ih =>
    intro a f hI him
    obtain ⟨e, w⟩ := p
    have hg := stmt_good a (opens e) (.write w) f hI (fun _ => by simp [him]) (Or.inr ⟨w, rfl⟩)
    have hm := stmt_imm_mono a (opens e) (.write w) f him
    unfold flushLoop
    dsimp only
    by_cases hok : (stmt a (opens e) (.write w) f).ok = true
    · rw [if_neg (by simp [hok])]
      have h2 := ih (stmt a (opens e) (.write w) f).a (fun k => f (k + (stmt a (opens e) (.write w) f).used)) hg.2 hm
      exact ⟨good_seq hg h2.1, h2.2⟩
    · rw [if_pos (by simpa using hok)]
      exact ⟨hg, hm⟩

theorem phaseOf_imm (a : A) (x : Bool) : phaseOf { a with imm := x } = phaseOf a := rfl
theorem inv_imm (a : A) (x : Bool) : Inv { a with imm := x } ↔ Inv a := Iff.rfl

theorem cacheFlush_good (opens : Entry → Bool) (a : A) (ws : List (Entry × List RowWrite)) (f : Nat → Bool) (hI : Inv a) :
    Good a (cacheFlush opens true a ws f) := by
  unfold cacheFlush
  by_cases he : ws.isEmpty = true
  · rw [if_pos he]; exact ⟨by simp [runL], hI⟩
  · rw [if_neg he]
    have := (flushLoop_good opens ws { a with imm := a.imm || true } f hI (by simp)).1
    exact ⟨this.1, this.2⟩

theorem cacheCommit_good (a : A) (si ddl : Bool) (f : Nat → Bool) (hI : Inv a) :
    Good a (cacheCommit a si ddl f) ∧ (cacheCommit a si ddl f).a.inTx = false := by
  unfold cacheCommit
  by_cases hin : a.inTx = true
  · rw [if_pos hin]
    have hc := hI.2 hin
    have hp := hI.1 hc
    have hph : phaseOf a = .txn := by simp [phaseOf, hp, hin]
    by_cases h0 : f 0 = true
    · rw [if_pos h0]
      have := closeRb_good { a with inTx := false } si ddl (fun k => f (k + 1)) .txn (fun _ => hp)
        ⟨fun _ => Or.inr rfl, fun h => by simp [hc] at h⟩
      refine ⟨⟨?_, this.2.1⟩, this.2.2.1⟩
      simp only [runL, hph, next]
      exact this.1
    · rw [if_neg h0]
      refine ⟨⟨?_, ?_⟩, rfl⟩
      · rw [hph]; simp [runL, next, phaseOf, hp]
      · exact ⟨fun h => hp, fun h => by simp at h⟩
  · rw [if_neg hin]
    exact ⟨⟨by simp [runL, phaseOf], hI⟩, by simpa using hin⟩

theorem coreCommit_good (opens : Entry → Bool) (a : A) (si ddl : Bool) (ws : List (Entry × List RowWrite)) (f : Nat → Bool)
    (hI : Inv a) : Good a (coreCommit opens true a si ddl ws f) ∧ (coreCommit opens true a si ddl ws f).a.inTx = false := by
  have h1 := cacheFlush_good opens a ws f hI
  unfold coreCommit
  dsimp only
  by_cases hok : (cacheFlush opens true a ws f).ok = true
  · rw [if_neg (by simp [hok])]
    have h2 := cacheCommit_good (cacheFlush opens true a ws f).a si ddl (fun k => f (k + (cacheFlush opens true a ws f).used)) h1.2
    exact ⟨good_seq h1 h2.1, h2.2⟩
  · rw [if_pos (by simpa using hok)]
    have h2 := closeRb_inv (cacheFlush opens true a ws f).a si ddl (fun k => f (k + (cacheFlush opens true a ws f).used)) h1.2
    exact ⟨good_seq h1 h2.1, h2.2.1⟩

/-! ### a statement with an auto-flush in front of it -/

theorem prep_good (a : A) (f : Nat → Bool) (hI : Inv a) :
    Good a (prep a f) ∧ ((prep a f).ok = true → (prep a f).a.conn = true ∧ ((prep a f).a.imm = true → (prep a f).a.inTx = true)) := by
  obtain ⟨pool, conn, inTx, imm⟩ := a
  obtain ⟨h1, h2⟩ := hI
  simp only at h1 h2
  cases pool <;> cases conn <;> cases inTx <;> cases imm <;> simp at h1 h2 <;>
    cases h0 : f 0 <;> cases hf1 : f 1 <;>
    simp [Good, Inv, prep, phaseOf, runL, next, h0, hf1]

/-- with the connection present, a statement keeps it and never leaves an open transaction -/
theorem stmt_keeps (a : A) (setImm : Bool) (sv : Stmt) (f : Nat → Bool) (hc : a.conn = true) (hp : a.pool = true) :
    (stmt a setImm sv f).a.conn = true ∧ (a.inTx = true → (stmt a setImm sv f).a.inTx = true) := by
  obtain ⟨pool, conn, inTx, imm⟩ := a
  simp only at hc hp; subst hc; subst hp
  cases inTx <;> cases imm <;> cases setImm <;> cases h0 : f 0 <;> cases hf1 : f 1 <;>
    simp [stmt, execStmt, h0, hf1]

theorem flushLoop_keeps (opens : Entry → Bool) (ws : List (Entry × List RowWrite)) : ∀ (a : A) (f : Nat → Bool), Inv a →
    a.conn = true → a.imm = true →
    (flushLoop opens a ws f).a.conn = true ∧ (a.inTx = true → (flushLoop opens a ws f).a.inTx = true) := by
  induction ws with
  | nil => intro a f _ hc _; exact ⟨hc, fun h => h⟩
  | cons p rest ih =>
    intro a f hI hc him
    obtain ⟨e, w⟩ := p
    have hk := stmt_keeps a (opens e) (.write w) f hc (hI.1 hc)
    have hg := stmt_good a (opens e) (.write w) f hI (fun _ => by simp [him]) (Or.inr ⟨w, rfl⟩)
    have hm := stmt_imm_mono a (opens e) (.write w) f him
    unfold flushLoop
    dsimp only
    split
    · exact hk
    · have h2 := ih (stmt a (opens e) (.write w) f).a (fun k => f (k + (stmt a (opens e) (.write w) f).used)) hg.2 hk.1 hm
      exact ⟨h2.1, fun h => h2.2 (hk.2 h)⟩

theorem cacheFlush_keeps (opens : Entry → Bool) (a : A) (ws : List (Entry × List RowWrite)) (f : Nat → Bool) (hI : Inv a)
    (hc : a.conn = true) (himp : a.imm = true → a.inTx = true) :
    (cacheFlush opens true a ws f).a.conn = true ∧ (a.inTx = true → (cacheFlush opens true a ws f).a.inTx = true) ∧
    ((cacheFlush opens true a ws f).a.imm = true → (cacheFlush opens true a ws f).a.inTx = true) := by
  unfold cacheFlush
  split
  · exact ⟨hc, fun h => h, himp⟩
  · have := flushLoop_keeps opens ws { a with imm := a.imm || true } f hI hc (by simp)
    refine ⟨this.1, this.2, ?_⟩
    dsimp only
    intro hi
    cases hin : (flushLoop opens { a with imm := a.imm || true } ws f).a.inTx with
    | true => rfl
    | false =>
      rw [hin] at hi
      simp only [Bool.false_eq_true, if_false] at hi
      have := this.2 (himp hi)
      rw [hin] at this; exact this

theorem exec_good (a : A) (sv : Stmt) (b : Bool) (hI : Inv a) (hc : a.conn = true) (himp : a.imm = true → a.inTx = true)
    (hs : sv = .read ∨ ((∃ ws, sv = .write ws) ∧ a.inTx = true)) : Good a (execStmt [] a sv b 0) := by
  obtain ⟨pool, conn, inTx, imm⟩ := a
  obtain ⟨h1, h2⟩ := hI
  simp only at h1 h2 hc himp; subst hc
  have hp : pool = true := h1 rfl
  subst hp
  rcases hs with rfl | ⟨⟨ws, rfl⟩, hin⟩
  · cases inTx <;> cases imm <;> cases b <;> simp at himp <;> simp [Good, Inv, execStmt, phaseOf, runL, next]
  · simp only at hin; subst hin
    cases imm <;> cases b <;> simp [Good, Inv, execStmt, phaseOf, runL, next]

theorem autoFlush_good (opens : Entry → Bool) (a : A) (setImm : Bool) (ws : List (Entry × List RowWrite)) (sv : Stmt)
    (f : Nat → Bool) (hI : Inv a) (hs : sv = .read ∨ ((∃ w, sv = .write w) ∧ setImm = true)) :
    Good a (autoFlushStmt opens true a setImm ws sv f) := by
  have h1 := prep_good { a with imm := a.imm || setImm } f hI
  have hph : phaseOf { a with imm := a.imm || setImm } = phaseOf a := rfl
  unfold autoFlushStmt
  dsimp only
  by_cases hok : (prep { a with imm := a.imm || setImm } f).ok = true
  · rw [if_neg (by simp [hok])]
    obtain ⟨hc, himp⟩ := h1.2 hok
    have h2 := cacheFlush_good opens (prep { a with imm := a.imm || setImm } f).a ws
      (fun k => f (k + (prep { a with imm := a.imm || setImm } f).used)) h1.1.2
    have hk := cacheFlush_keeps opens (prep { a with imm := a.imm || setImm } f).a ws
      (fun k => f (k + (prep { a with imm := a.imm || setImm } f).used)) h1.1.2 hc himp
    have h12 := good_seq (a := a) ⟨by rw [← hph]; exact h1.1.1, h1.1.2⟩ h2
    split
    · exact h12
    · have h3 : Good (cacheFlush opens true (prep { a with imm := a.imm || setImm } f).a ws
          (fun k => f (k + (prep { a with imm := a.imm || setImm } f).used))).a
          (execStmt [] (cacheFlush opens true (prep { a with imm := a.imm || setImm } f).a ws
          (fun k => f (k + (prep { a with imm := a.imm || setImm } f).used))).a sv
          (f ((prep { a with imm := a.imm || setImm } f).used + (cacheFlush opens true (prep { a with imm := a.imm || setImm } f).a ws
          (fun k => f (k + (prep { a with imm := a.imm || setImm } f).used))).used)) 0) := by
        apply exec_good _ _ _ h2.2 hk.1 hk.2.2
        rcases hs with h | ⟨hw, hsi⟩
        · exact Or.inl h
        · subst hsi
          have himm : (prep { a with imm := a.imm || true } f).a.imm = true := by
            obtain ⟨pool, conn, inTx, imm⟩ := a
            revert hok
            cases pool <;> cases conn <;> cases inTx <;> cases imm <;> cases h0 : f 0 <;> cases hf1 : f 1 <;>
              simp [prep, h0, hf1]
          exact Or.inr ⟨hw, hk.2.1 (himp himm)⟩
      refine ⟨?_, h3.2⟩
      rw [runL_append, h12.1]; simpa using h3.1
  · rw [if_pos (by simpa using hok)]
    exact ⟨by rw [← hph]; exact h1.1.1, h1.1.2⟩

theorem runOp_good (opens : Entry → Bool) (hO : ∀ e, e.direct = true → opens e = true) (si ddl : Bool) (a : A) (op : Op)
    (f : Nat → Bool) (hI : Inv a) (hwf : op.wf = true) : Good a (runOp opens true si ddl a op f) := by
  cases op with
  | query => exact stmt_good a false .read f hI (fun ⟨ws, h⟩ => by cases h) (Or.inl rfl)
  | lockQuery => exact stmt_good a true .read f hI (fun ⟨ws, h⟩ => by cases h) (Or.inl rfl)
  | direct e ws =>
    have := hO e hwf
    exact stmt_good a (opens e) (.write ws) f hI (fun _ => by simp [this]) (Or.inr ⟨ws, rfl⟩)
  | flush ws => exact cacheFlush_good opens a ws f hI
  | commit ws => exact (coreCommit_good opens a si ddl ws f hI).1
  | rollback => exact (closeRb_inv a si ddl f hI).1
  | flushQuery ws lock => exact autoFlush_good opens a lock ws .read f hI (Or.inl rfl)
  | flushDirect ws e w =>
    have := hO e hwf
    exact autoFlush_good opens a (opens e) ws (.write w) f hI (Or.inr ⟨⟨w, rfl⟩, this⟩)

theorem runBody_good (opens : Entry → Bool) (hO : ∀ e, e.direct = true → opens e = true) (si ddl : Bool)
    (prog : List (Op × Bool)) : ∀ (a : A) (f : Nat → Bool), Inv a → (∀ p ∈ prog, p.1.wf = true) →
    Good a (runBody opens true si ddl a prog f) := by
  induction prog with
  | nil => intro a f hI _; exact ⟨by simp [runBody, runL], hI⟩
  | cons p rest ih =>
    intro a f hI hwf
    obtain ⟨op, caught⟩ := p
    have h1 := runOp_good opens hO si ddl a op f hI (hwf (op, caught) (by simp))
    unfold runBody
    dsimp only
    split
    · exact h1
    · exact good_seq h1 (ih _ _ h1.2 (fun q hq => hwf q (by simp [hq])))

/-- a whole `db_session`: a word of L that ends with no transaction open -/
theorem session_good (opens : Entry → Bool) (hO : ∀ e, e.direct = true → opens e = true) (si ddl : Bool) (a : A)
    (prog : List (Op × Bool)) (br : Bool) (f : Nat → Bool) (hI : Inv a) (hwf : ∀ p ∈ prog, p.1.wf = true) :
    Good a (session opens true si ddl a prog br f) ∧ (session opens true si ddl a prog br f).a.inTx = false := by
  have h1 := runBody_good opens hO si ddl prog a f hI hwf
  unfold session
  dsimp only
  split
  · have h2 := closeRb_inv (runBody opens true si ddl a prog f).a si ddl (fun k => f (k + (runBody opens true si ddl a prog f).used)) h1.2
    exact ⟨good_seq h1 h2.1, h2.2.1⟩
  · have h2 := coreCommit_good opens (runBody opens true si ddl a prog f).a si ddl [] (fun k => f (k + (runBody opens true si ddl a prog f).used)) h1.2
    have h12 := good_seq h1 h2.1
    split
    · exact ⟨h12, h2.2⟩
    · have h3 := release_good _ si ddl (fun k => f (k + (runBody opens true si ddl a prog f).used +
        (coreCommit opens true (runBody opens true si ddl a prog f).a si ddl [] (fun k => f (k + (runBody opens true si ddl a prog f).used))).used)) h2.1.2 h2.2
      refine ⟨⟨?_, h3.2⟩, ?_⟩
      · rw [runL_append, h12.1]; simpa using h3.1
      · unfold release; dsimp only; split <;> (try split) <;> (try split) <;> rfl

end PonyVerif.Lemmas.TxnEmit
