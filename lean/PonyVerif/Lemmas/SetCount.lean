/-
  Lemmas/SetCount.lean — the invariant of the SetData bookkeeping (Model/SetCount.lean) and its preservation by every
  operation whose caller guarantees hold (`OpValid`) and which avoids / has repaired the two defective places (`OpSafe`).
-/
import PonyVerif.Model.SetCount
namespace PonyVerif.Model.SetCount

/-! ### lists as sets -/

theorem mem_ins {x y : Item} {l : List Item} : y ∈ ins x l ↔ y ∈ l ∨ y = x := by
  unfold ins; split
  · constructor
    · exact Or.inl
    · rintro (h | rfl) <;> assumption
  · simp

theorem ins_of_not_mem {x : Item} {l : List Item} (h : x ∉ l) : ins x l = l ++ [x] := by simp [ins, h]
theorem ins_of_mem {x : Item} {l : List Item} (h : x ∈ l) : ins x l = l := by simp [ins, h]

theorem nodup_snoc {x : Item} {l : List Item} (h : l.Nodup) (hx : x ∉ l) : (l ++ [x]).Nodup := by
  rw [List.nodup_append]
  refine ⟨h, by simp, ?_⟩
  intro a ha b hb; simp at hb; subst hb; rintro rfl; exact hx ha

theorem nodup_ins {x : Item} {l : List Item} (h : l.Nodup) : (ins x l).Nodup := by
  unfold ins; split
  · exact h
  · exact nodup_snoc h ‹_›

theorem length_eq_of_same_members {l₁ l₂ : List Item} (h₁ : l₁.Nodup) (h₂ : l₂.Nodup) (h : ∀ a, a ∈ l₁ ↔ a ∈ l₂) :
    l₁.length = l₂.length :=
  ((List.perm_ext_iff_of_nodup h₁ h₂).mpr h).length_eq

theorem isEmpty_eq_of_length_eq {l₁ l₂ : List Item} (h : l₁.length = l₂.length) : l₁.isEmpty = l₂.isEmpty := by
  cases l₁ <;> cases l₂ <;> simp at h ⊢

theorem nodup_filter {l : List Item} (p : Item → Bool) (h : l.Nodup) : (l.filter p).Nodup :=
  List.Nodup.sublist List.filter_sublist h

/-- `|db − removed| + |removed| = |db|` for a duplicate-free `removed ⊆ db` -/
theorem length_filter_not_mem {db removed : List Item} (hd : db.Nodup) (hr : removed.Nodup) (hsub : ∀ x, x ∈ removed → x ∈ db) :
    (db.filter fun y => decide (y ∉ removed)).length + removed.length = db.length := by
  have key : (db.filter (fun x => !decide (x ∉ removed))).length = removed.length := by
    apply length_eq_of_same_members (nodup_filter _ hd) hr
    intro a
    simp only [List.mem_filter, decide_not, Bool.not_not, decide_eq_true_eq]
    exact ⟨fun h => h.2, fun h => ⟨hsub a h, h⟩⟩
  have h1 : ((db.filter fun y => decide (y ∉ removed)) ++ db.filter (fun x => !decide (x ∉ removed))).length = db.length :=
    (List.filter_append_perm (fun y => decide (y ∉ removed)) db).length_eq
  rw [List.length_append, key] at h1
  exact h1

theorem length_erase_int {x : Item} {l : List Item} (h : x ∈ l) : ((l.erase x).length : Int) = l.length - 1 := by
  have := List.length_erase_of_mem h
  have hpos : 0 < l.length := List.length_pos_of_mem h
  omega

/-! ### the invariant -/

structure J (c : Coll) (l : List Item) : Prop where
  lnd : l.Nodup
  dbnd : c.db.Nodup
  ind : c.sd.items.Nodup
  and_ : c.sd.added.Nodup
  rnd : c.sd.removed.Nodup
  mem : ∀ x, x ∈ l ↔ (x ∈ c.db ∧ x ∉ c.sd.removed) ∨ x ∈ c.sd.added
  addedFresh : ∀ x, x ∈ c.sd.added → x ∉ c.db
  removedIn : ∀ x, x ∈ c.sd.removed → x ∈ c.db
  itemsSub : ∀ x, x ∈ c.sd.items → x ∈ l
  addedItems : ∀ x, x ∈ c.sd.added → x ∈ c.sd.items
  full : c.sd.fully = true → ∀ x, x ∈ l → x ∈ c.sd.items
  card : (l.length : Int) = c.db.length + c.sd.added.length - c.sd.removed.length
  cnt : ∀ n, c.sd.count = some n → n = l.length
  absentOk : ∀ x, x ∈ c.sd.absent → x ∈ l → x ∈ c.sd.items      -- the negative cache never hides an item the program has

theorem J.not_removed {c : Coll} {l : List Item} (h : J c l) {x : Item} (hx : x ∈ l) : x ∉ c.sd.removed := by
  intro hr
  rcases (h.mem x).mp hx with ⟨_, h2⟩ | h2
  · exact h2 hr
  · exact h.addedFresh x h2 (h.removedIn x hr)

theorem J.removed_not_mem {c : Coll} {l : List Item} (h : J c l) {x : Item} (hr : x ∈ c.sd.removed) : x ∉ l :=
  fun hx => h.not_removed hx hr

/-- the registration in `modified_collections` is not part of the invariant -/
theorem J_dirty {c : Coll} {l : List Item} (h : J c l) (b : Bool) : J { c with sd := { c.sd with dirty := b } } l :=
  ⟨h.lnd, h.dbnd, h.ind, h.and_, h.rnd, h.mem, h.addedFresh, h.removedIn, h.itemsSub, h.addedItems, h.full, h.card, h.cnt, h.absentOk⟩

/-- the start: nothing loaded, the program has what the database holds -/
theorem J_init (db : List Item) (h : db.Nodup) : J ⟨SetData.new, db⟩ db := by
  refine ⟨h, h, ?_, ?_, ?_, ?_, ?_, ?_, ?_, ?_, ?_, ?_, ?_, ?_⟩ <;> simp [SetData.new]

/-! ### reverse_add / reverse_remove -/

theorem revAdd_spec {c : Coll} {l : List Item} (h : J c l) {x : Item} (hx : x ∉ l) :
    ∃ sd, revAdd c.sd x = .ok sd ∧ J { c with sd := sd } (ins x l) := by
  have hxi : x ∉ c.sd.items := fun hi => hx (h.itemsSub x hi)
  have hxa : x ∉ c.sd.added := fun ha => hxi (h.addedItems x ha)
  have hl : ins x l = l ++ [x] := ins_of_not_mem hx
  by_cases hr : x ∈ c.sd.removed
  · have e : revAdd c.sd x = .ok { c.sd with items := c.sd.items ++ [x], count := bump c.sd.count 1, removed := c.sd.removed.erase x, dirty := true } := by
      simp [revAdd, hxi, hxa, hr]
    refine ⟨_, e, ?_⟩
    rw [hl]
    have hdb := h.removedIn x hr
    refine ⟨nodup_snoc h.lnd hx, h.dbnd, nodup_snoc h.ind hxi, h.and_, List.Nodup.erase x h.rnd, ?_, h.addedFresh,
      fun y hy => h.removedIn y ((List.Nodup.mem_erase_iff h.rnd).mp hy).2, ?_, ?_, ?_, ?_, ?_, ?_⟩
    · intro y
      simp only [List.mem_append, List.mem_singleton, List.Nodup.mem_erase_iff h.rnd]
      by_cases hy : y = x
      · subst hy; simp [hdb]
      · simp [hy, h.mem y]
    · intro y hy
      simp only [List.mem_append, List.mem_singleton] at hy ⊢
      rcases hy with hy | hy
      · exact Or.inl (h.itemsSub y hy)
      · exact Or.inr hy
    · intro y hy; simp only [List.mem_append]; exact Or.inl (h.addedItems y hy)
    · intro hf y hy
      simp only [List.mem_append, List.mem_singleton] at hy ⊢
      rcases hy with hy | hy
      · exact Or.inl (h.full hf y hy)
      · exact Or.inr hy
    · have := h.card; have := length_erase_int hr
      simp only [List.length_append, List.length_singleton, Int.natCast_add] at *; omega
    · intro n hn
      cases hc : c.sd.count with
      | none => simp [bump, hc] at hn
      | some m =>
        simp [bump, hc] at hn
        have := h.cnt m hc
        simp only [List.length_append, List.length_singleton, Int.natCast_add]; omega
    · intro y hy hyl
      simp only [List.mem_append, List.mem_singleton] at hyl ⊢
      rcases hyl with hyl | hyl
      · exact Or.inl (h.absentOk y hy hyl)
      · exact Or.inr hyl
  · have e : revAdd c.sd x = .ok { c.sd with items := c.sd.items ++ [x], count := bump c.sd.count 1, added := c.sd.added ++ [x], dirty := true } := by
      simp [revAdd, hxi, hxa, hr]
    refine ⟨_, e, ?_⟩
    rw [hl]
    have hdb : x ∉ c.db := by
      intro hd; exact hx ((h.mem x).mpr (Or.inl ⟨hd, hr⟩))
    refine ⟨nodup_snoc h.lnd hx, h.dbnd, nodup_snoc h.ind hxi, nodup_snoc h.and_ hxa, h.rnd, ?_, ?_, h.removedIn, ?_, ?_, ?_, ?_, ?_, ?_⟩
    · intro y
      simp only [List.mem_append, List.mem_singleton]
      by_cases hy : y = x
      · subst hy; simp
      · simp [hy, h.mem y]
    · intro y hy
      simp only [List.mem_append, List.mem_singleton] at hy
      rcases hy with hy | rfl
      · exact h.addedFresh y hy
      · exact hdb
    · intro y hy
      simp only [List.mem_append, List.mem_singleton] at hy ⊢
      rcases hy with hy | hy
      · exact Or.inl (h.itemsSub y hy)
      · exact Or.inr hy
    · intro y hy
      simp only [List.mem_append, List.mem_singleton] at hy ⊢
      rcases hy with hy | hy
      · exact Or.inl (h.addedItems y hy)
      · exact Or.inr hy
    · intro hf y hy
      simp only [List.mem_append, List.mem_singleton] at hy ⊢
      rcases hy with hy | hy
      · exact Or.inl (h.full hf y hy)
      · exact Or.inr hy
    · have := h.card
      simp only [List.length_append, List.length_singleton, Int.natCast_add] at *; omega
    · intro n hn
      cases hc : c.sd.count with
      | none => simp [bump, hc] at hn
      | some m =>
        simp [bump, hc] at hn
        have := h.cnt m hc
        simp only [List.length_append, List.length_singleton, Int.natCast_add]; omega
    · intro y hy hyl
      simp only [List.mem_append, List.mem_singleton] at hyl ⊢
      rcases hyl with hyl | hyl
      · exact Or.inl (h.absentOk y hy hyl)
      · exact Or.inr hyl

theorem revRemove_spec {c : Coll} {l : List Item} (h : J c l) {x : Item} (hx : x ∈ l) (hxi : x ∈ c.sd.items) :
    ∃ sd, revRemove c.sd x = .ok sd ∧ J { c with sd := sd } (l.erase x) := by
  have hr : x ∉ c.sd.removed := h.not_removed hx
  have hmemL : ∀ y, y ∈ l.erase x ↔ y ≠ x ∧ y ∈ l := fun y => List.Nodup.mem_erase_iff h.lnd
  have hmemI : ∀ y, y ∈ c.sd.items.erase x ↔ y ≠ x ∧ y ∈ c.sd.items := fun y => List.Nodup.mem_erase_iff h.ind
  by_cases ha : x ∈ c.sd.added
  · have e : revRemove c.sd x = .ok { c.sd with items := c.sd.items.erase x, count := bump c.sd.count (-1), added := c.sd.added.erase x, dirty := true } := by
      simp [revRemove, hxi, hr, ha]
    refine ⟨_, e, ?_⟩
    have hdb : x ∉ c.db := h.addedFresh x ha
    have hmemA : ∀ y, y ∈ c.sd.added.erase x ↔ y ≠ x ∧ y ∈ c.sd.added := fun y => List.Nodup.mem_erase_iff h.and_
    refine ⟨List.Nodup.erase x h.lnd, h.dbnd, List.Nodup.erase x h.ind, List.Nodup.erase x h.and_, h.rnd, ?_,
      fun y hy => h.addedFresh y ((hmemA y).mp hy).2, h.removedIn, ?_, ?_, ?_, ?_, ?_, ?_⟩
    · intro y
      rw [hmemL, hmemA]
      by_cases hy : y = x
      · subst hy; simp [hdb]
      · simp [hy, h.mem y]
    · intro y hy
      rw [hmemI] at hy; rw [hmemL]; exact ⟨hy.1, h.itemsSub y hy.2⟩
    · intro y hy
      rw [hmemA] at hy; rw [hmemI]; exact ⟨hy.1, h.addedItems y hy.2⟩
    · intro hf y hy
      rw [hmemL] at hy; rw [hmemI]; exact ⟨hy.1, h.full hf y hy.2⟩
    · have := h.card; have := length_erase_int hx; have := length_erase_int ha
      simp only at *; omega
    · intro n hn
      cases hc : c.sd.count with
      | none => simp [bump, hc] at hn
      | some m =>
        simp [bump, hc] at hn
        have := h.cnt m hc; have := length_erase_int hx
        omega
    · intro y hy hyl
      rw [hmemL] at hyl; rw [hmemI]; exact ⟨hyl.1, h.absentOk y hy hyl.2⟩
  · have e : revRemove c.sd x = .ok { c.sd with items := c.sd.items.erase x, count := bump c.sd.count (-1), removed := c.sd.removed ++ [x], dirty := true } := by
      simp [revRemove, hxi, hr, ha]
    refine ⟨_, e, ?_⟩
    have hdb : x ∈ c.db := by
      rcases (h.mem x).mp hx with ⟨h1, _⟩ | h1
      · exact h1
      · exact absurd h1 ha
    refine ⟨List.Nodup.erase x h.lnd, h.dbnd, List.Nodup.erase x h.ind, h.and_, nodup_snoc h.rnd hr, ?_, h.addedFresh, ?_, ?_, ?_, ?_, ?_, ?_, ?_⟩
    · intro y
      rw [hmemL]
      simp only [List.mem_append, List.mem_singleton, not_or]
      by_cases hy : y = x
      · subst hy; simp [ha]
      · simp [hy, h.mem y]
    · intro y hy
      simp only [List.mem_append, List.mem_singleton] at hy
      rcases hy with hy | rfl
      · exact h.removedIn y hy
      · exact hdb
    · intro y hy
      rw [hmemI] at hy; rw [hmemL]; exact ⟨hy.1, h.itemsSub y hy.2⟩
    · intro y hy
      rw [hmemI]; exact ⟨fun e => ha (e ▸ hy), h.addedItems y hy⟩
    · intro hf y hy
      rw [hmemL] at hy; rw [hmemI]; exact ⟨hy.1, h.full hf y hy.2⟩
    · have := h.card; have := length_erase_int hx
      simp only [List.length_append, List.length_singleton, Int.natCast_add] at *; omega
    · intro n hn
      cases hc : c.sd.count with
      | none => simp [bump, hc] at hn
      | some m =>
        simp [bump, hc] at hn
        have := h.cnt m hc; have := length_erase_int hx
        omega
    · intro y hy hyl
      rw [hmemL] at hyl; rw [hmemI]; exact ⟨hyl.1, h.absentOk y hy hyl.2⟩

/-- for an item that is not in the SetData, the tail of `SetInstance.add` does what `reverse_add` does -/
theorem addTail_eq_revAdd {sd : SetData} {x : Item} (hi : x ∉ sd.items) (ha : x ∉ sd.added) :
    revAdd sd x = .ok (addTail sd x) := by
  unfold revAdd addTail
  by_cases hr : x ∈ sd.removed
  · simp [hi, ha, hr, ins_of_not_mem hi]
  · simp [hi, ha, hr, ins_of_not_mem hi, ins_of_not_mem ha]

/-- for an item of the SetData that is not marked removed, the tail of `SetInstance.remove` does what `reverse_remove` does -/
theorem removeTail_eq_revRemove {sd : SetData} {x : Item} (hi : x ∈ sd.items) (hr : x ∉ sd.removed) :
    revRemove sd x = .ok (removeTail sd x) := by
  unfold revRemove removeTail
  by_cases ha : x ∈ sd.added
  · simp [hi, ha, hr]
  · simp [hi, ha, hr, ins_of_not_mem hr]

/-- `Set.load(obj)`: afterwards the SetData holds exactly what the program has -/
theorem loadAll_spec {c : Coll} {l : List Item} (h : J c l) :
    J { c with sd := loadAll c } l ∧ ((loadAll c).items.length : Int) = l.length ∧ (loadAll c).fully = true := by
  by_cases hf : c.sd.fully = true
  · have hload : loadAll c = c.sd := by simp [loadAll, hf]
    have hlen : c.sd.items.length = l.length :=
      length_eq_of_same_members h.ind h.lnd (fun a => ⟨h.itemsSub a, h.full hf a⟩)
    rw [hload]; exact ⟨h, by simp [hlen], hf⟩
  · have hf' : c.sd.fully = false := by simpa using hf
    have hnewmem : ∀ y, y ∈ (c.db.filter fun y => decide (y ∉ c.sd.items) && decide (y ∉ c.sd.removed)) ↔
        y ∈ c.db ∧ y ∉ c.sd.items ∧ y ∉ c.sd.removed := by
      intro y; simp [List.mem_filter]
    have hnd : (c.sd.items ++ c.db.filter fun y => decide (y ∉ c.sd.items) && decide (y ∉ c.sd.removed)).Nodup := by
      rw [List.nodup_append]
      refine ⟨h.ind, nodup_filter _ h.dbnd, ?_⟩
      intro a ha b hb; rintro rfl
      exact ((hnewmem a).mp hb).2.1 ha
    have hsame : ∀ a, a ∈ (c.sd.items ++ c.db.filter fun y => decide (y ∉ c.sd.items) && decide (y ∉ c.sd.removed)) ↔ a ∈ l := by
      intro a
      rw [List.mem_append, hnewmem]
      constructor
      · rintro (ha | ⟨h1, _, h3⟩)
        · exact h.itemsSub a ha
        · exact (h.mem a).mpr (Or.inl ⟨h1, h3⟩)
      · intro ha
        by_cases hai : a ∈ c.sd.items
        · exact Or.inl hai
        · rcases (h.mem a).mp ha with ⟨h1, h2⟩ | h1
          · exact Or.inr ⟨h1, hai, h2⟩
          · exact absurd (h.addedItems a h1) hai
    have hlen := length_eq_of_same_members hnd h.lnd hsame
    simp only [loadAll, hf', Bool.false_eq_true, if_false]
    refine ⟨⟨h.lnd, h.dbnd, hnd, h.and_, h.rnd, h.mem, h.addedFresh, h.removedIn, fun y hy => (hsame y).mp hy, ?_, ?_, h.card, ?_, by simp⟩, by rw [hlen], trivial⟩
    · intro y hy; exact List.mem_append.mpr (Or.inl (h.addedItems y hy))
    · intro _ y hy; exact (hsame y).mpr hy
    · intro n hn
      injection hn with hn
      rw [← hn, hlen]

/-- the flush: the pending changes reach the database, the logical contents stay, the database then holds exactly them -/
theorem flushColl_spec (cfg : Cfg) {c : Coll} {l : List Item} (h : J c l)
    (hs : cfg.m2m = false ∨ cfg.owning = true ∨ cfg.fixFlush = true) :
    J (flushColl cfg c) l ∧ ((flushColl cfg c).db.length : Int) = l.length := by
  have hreset : (!cfg.m2m || cfg.owning || cfg.fixFlush) = true := by
    rcases hs with h1 | h1 | h1 <;> simp [h1]
  have hmemdb : ∀ y, y ∈ ((c.db.filter fun y => decide (y ∉ c.sd.removed)) ++ c.sd.added) ↔ y ∈ l := by
    intro y; rw [List.mem_append, h.mem y]; simp [List.mem_filter]
  have hlen : (((c.db.filter fun y => decide (y ∉ c.sd.removed)) ++ c.sd.added).length : Int) = l.length := by
    have h1 := length_filter_not_mem h.dbnd h.rnd h.removedIn
    have h2 := h.card
    simp only [List.length_append, Int.natCast_add] at *
    omega
  simp only [flushColl, hreset, if_true]
  refine ⟨⟨h.lnd, ?_, h.ind, by simp, by simp, ?_, by simp, by simp, h.itemsSub, by simp, h.full, ?_, h.cnt, ?_⟩, hlen⟩
  · rw [List.nodup_append]
    refine ⟨nodup_filter _ h.dbnd, h.and_, ?_⟩
    intro a ha b hb; rintro rfl
    exact h.addedFresh a hb (List.mem_filter.mp ha).1
  · intro y; simp [← hmemdb y]
  · simp only [List.length_nil]; rw [← hlen]; simp
  · intro y hy hyl
    apply h.absentOk y _ hyl
    simp only at hy; split at hy
    · simp at hy
    · exact hy

/-! ### every operation -/

theorem step_spec (cfg : Cfg) {c : Coll} {l : List Item} (h : J c l) (op : Op) (hv : OpValid c l op) (hs : OpSafe cfg op) :
    ∃ c' r, step cfg c op = .ok (c', r) ∧ J c' (specStep l op) ∧ ∀ v, r = some v → v = specRead (specStep l op) op := by
  cases op with
  | seen x =>
    have hx : x ∈ l := hv
    have hne : ¬ (c.sd.fully = true ∧ x ∉ c.sd.items) := fun ⟨hf, hn⟩ => hn (h.full hf x hx)
    refine ⟨{ c with sd := { c.sd with items := ins x c.sd.items } }, none, by simp [step, hne], ?_, by simp⟩
    refine ⟨h.lnd, h.dbnd, nodup_ins h.ind, h.and_, h.rnd, h.mem, h.addedFresh, h.removedIn, ?_, ?_, ?_, h.card, h.cnt,
      fun y hy hyl => mem_ins.mpr (Or.inl (h.absentOk y hy hyl))⟩
    · intro y hy; rcases mem_ins.mp hy with hy | rfl
      · exact h.itemsSub y hy
      · exact hx
    · intro y hy; exact mem_ins.mpr (Or.inl (h.addedItems y hy))
    · intro hf y hy; exact mem_ins.mpr (Or.inl (h.full hf y hy))
  | revAdd x =>
    obtain ⟨sd, e, hj⟩ := revAdd_spec h (show x ∉ l from hv)
    exact ⟨{ c with sd := sd }, none, by simp [step, e], hj, by simp⟩
  | revRemove x =>
    obtain ⟨sd, e, hj⟩ := revRemove_spec h hv.1 hv.2
    exact ⟨{ c with sd := sd }, none, by simp [step, e], hj, by simp⟩
  | add x =>
    by_cases hi : x ∈ c.sd.items
    · refine ⟨{ c with sd := { c.sd with dirty := true } }, none, by simp [step, hi], ?_, by simp⟩
      show J _ (ins x l)
      rw [ins_of_mem (h.itemsSub x hi)]; exact J_dirty h true
    · have hx : x ∉ l := fun hl => hi (hv hl)
      have ha : x ∉ c.sd.added := fun ha => hi (h.addedItems x ha)
      obtain ⟨sd, e, hj⟩ := revAdd_spec h hx
      rw [addTail_eq_revAdd hi ha] at e
      cases e
      exact ⟨{ c with sd := addTail c.sd x }, none, by simp [step, hi], hj, by simp⟩
  | remove x =>
    by_cases hr : x ∈ c.sd.removed
    · refine ⟨c, none, by simp [step, hr], ?_, by simp⟩
      show J c (l.erase x)
      rw [List.erase_of_not_mem (h.removed_not_mem hr)]; exact h
    · by_cases hi : x ∈ c.sd.items
      · have hx : x ∈ l := h.itemsSub x hi
        obtain ⟨sd, e, hj⟩ := revRemove_spec h hx hi
        by_cases hm : cfg.m2m = true
        · rw [removeTail_eq_revRemove hi hr] at e
          cases e
          exact ⟨{ c with sd := removeTail c.sd x }, none, by simp [step, hr, hi, hm], hj, by simp⟩
        · have hfix : cfg.fixRemove = true := by
            rcases hs with h1 | h1
            · exact absurd h1 hm
            · exact h1
          exact ⟨{ c with sd := sd }, none, by simp [step, hr, hi, hm, e, hfix], hj, by simp⟩
      · have hx : x ∉ l := fun hl => hi (hv hl)
        refine ⟨{ c with sd := { c.sd with dirty := true } }, none, by simp [step, hr, hi], ?_, by simp⟩
        show J _ (l.erase x)
        rw [List.erase_of_not_mem hx]; exact J_dirty h true
  | loadAll =>
    obtain ⟨hj, hlen, _⟩ := loadAll_spec h
    refine ⟨{ c with sd := loadAll c }, some (loadAll c).items.length, rfl, hj, ?_⟩
    intro v hv'; simp only [Option.some.injEq] at hv'; rw [← hv', hlen]; rfl
  | count =>
    cases hc : c.sd.count with
    | some n =>
      refine ⟨c, some n, by simp [step, hc], h, ?_⟩
      intro v hv'; simp at hv'; subst hv'; exact h.cnt n hc
    | none =>
      refine ⟨{ c with sd := { c.sd with count := some ((c.db.length : Int) + c.sd.added.length - c.sd.removed.length) } },
        some ((c.db.length : Int) + c.sd.added.length - c.sd.removed.length), by simp [step, hc], ?_, ?_⟩
      · exact ⟨h.lnd, h.dbnd, h.ind, h.and_, h.rnd, h.mem, h.addedFresh, h.removedIn, h.itemsSub, h.addedItems, h.full, h.card,
          fun n hn => by simp at hn; subst hn; simp [specStep, h.card], h.absentOk⟩
      · intro v hv'; simp at hv'; subst hv'; simp [specStep, specRead, h.card]
  | flush =>
    obtain ⟨hj, _⟩ := flushColl_spec cfg h hs
    exact ⟨flushColl cfg c, none, rfl, hj, by simp⟩
  | select =>
    obtain ⟨hj, hlen⟩ := flushColl_spec cfg h hs
    refine ⟨flushColl cfg c, some (flushColl cfg c).db.length, rfl, hj, ?_⟩
    intro v hv'; simp only [Option.some.injEq] at hv'; rw [← hv', hlen]; rfl
  | nonzero =>
    by_cases he : c.sd.items.isEmpty = true
    · obtain ⟨hj, hlen, _⟩ := loadAll_spec h
      refine ⟨{ c with sd := loadAll c }, some (b2i (!(loadAll c).items.isEmpty)), by simp [step, he], hj, ?_⟩
      intro v hv'; simp only [Option.some.injEq] at hv'; rw [← hv']
      simp only [specStep, specRead]
      congr 2
      exact isEmpty_eq_of_length_eq (by exact_mod_cast hlen)
    · have hne : c.sd.items ≠ [] := fun hh => he (by simp [hh])
      obtain ⟨y, hy⟩ := List.exists_mem_of_ne_nil _ hne
      have hl : l ≠ [] := List.ne_nil_of_mem (h.itemsSub y hy)
      refine ⟨c, some 1, by simp [step, he], h, ?_⟩
      intro v hv'; simp only [Option.some.injEq] at hv'; rw [← hv']
      simp [specStep, specRead, b2i, hl]
  | isEmpty probe =>
    simp only [specStep, specRead]
    by_cases hf : c.sd.fully = true
    · have hlen : c.sd.items.length = l.length :=
        length_eq_of_same_members h.ind h.lnd (fun a => ⟨h.itemsSub a, h.full hf a⟩)
      refine ⟨c, some (b2i c.sd.items.isEmpty), by simp [step, hf], h, ?_⟩
      intro v hv'; simp only [Option.some.injEq] at hv'; rw [← hv']
      congr 1
      exact isEmpty_eq_of_length_eq hlen
    · have hf' : c.sd.fully = false := by simpa using hf
      by_cases he : c.sd.items.isEmpty = true
      · have hnil : c.sd.items = [] := List.isEmpty_iff.mp he
        cases hc : c.sd.count with
        | some n =>
          have hn := h.cnt n hc
          refine ⟨c, some (b2i (n == 0)), by simp [step, hf', he, hc], h, ?_⟩
          intro v hv'; simp only [Option.some.injEq] at hv'; rw [← hv']
          congr 1
          rw [Bool.eq_iff_iff, List.isEmpty_iff_length_eq_zero]
          simp only [beq_iff_eq]; omega
        | none =>
          have hask : askEmpty c.sd = true := by simp [askEmpty, hf', he, hc]
          obtain ⟨hrm, hp⟩ := hv hask
          have hadd : c.sd.added = [] := by
            apply List.eq_nil_iff_forall_not_mem.mpr
            intro y hy; have := h.addedItems y hy; simp [hnil] at this
          have hmem : ∀ y, y ∈ l ↔ y ∈ c.db := by intro y; rw [h.mem y]; simp [hrm, hadd]
          cases probe with
          | some x =>
            have hxl : x ∈ l := (hmem x).mpr hp
            refine ⟨{ c with sd := { c.sd with items := ins x c.sd.items } }, some 0, by simp [step, hf', he, hc], ?_, ?_⟩
            · refine ⟨h.lnd, h.dbnd, nodup_ins h.ind, h.and_, h.rnd, h.mem, h.addedFresh, h.removedIn, ?_, ?_, ?_, h.card, h.cnt, ?_⟩
              · intro y hy; rcases mem_ins.mp hy with hy | rfl
                · exact h.itemsSub y hy
                · exact hxl
              · intro y hy; exact mem_ins.mpr (Or.inl (h.addedItems y hy))
              · intro hff; simp [hf'] at hff
              · intro y hy hyl; exact mem_ins.mpr (Or.inl (h.absentOk y hy hyl))
            · intro v hv'; simp only [Option.some.injEq] at hv'; rw [← hv']
              have : l ≠ [] := List.ne_nil_of_mem hxl
              simp [b2i, this]
          | none =>
            have hdb : c.db = [] := hp
            have hl : l = [] := by
              apply List.eq_nil_iff_forall_not_mem.mpr
              intro y hy; have := (hmem y).mp hy; simp [hdb] at this
            refine ⟨{ c with sd := { c.sd with fully := true, absent := [], count := some 0 } }, some 1, by simp [step, hf', he, hc], ?_, ?_⟩
            · refine ⟨h.lnd, h.dbnd, h.ind, h.and_, h.rnd, h.mem, h.addedFresh, h.removedIn, h.itemsSub, h.addedItems, ?_, h.card, ?_, by simp⟩
              · intro _ y hy; simp [hl] at hy
              · intro n hn; simp at hn; subst hn; simp [hl]
            · intro v hv'; simp only [Option.some.injEq] at hv'; rw [← hv']; simp [b2i, hl]
      · have hne : c.sd.items ≠ [] := fun hh => he (by simp [hh])
        obtain ⟨y, hy⟩ := List.exists_mem_of_ne_nil _ hne
        have hl : l ≠ [] := List.ne_nil_of_mem (h.itemsSub y hy)
        refine ⟨c, some 0, by simp [step, hf', he], h, ?_⟩
        intro v hv'; simp only [Option.some.injEq] at hv'; rw [← hv']
        simp [b2i, hl]
  | containsRev x =>
    refine ⟨c, _, rfl, h, ?_⟩
    intro v hv'; simp only [Option.some.injEq] at hv'; subst hv'
    simp only [specStep, specRead]
    congr 1
    rw [Bool.eq_iff_iff]
    simp [h.mem x]
  | contains x =>
    refine ⟨{ c with sd := (containsSd c x).1 }, some (b2i (containsSd c x).2), rfl, ?_⟩
    simp only [specStep, specRead]
    -- the answer is membership in what the program has, and the invariant survives the recording
    have key : J { c with sd := (containsSd c x).1 } l ∧ (containsSd c x).2 = decide (x ∈ l) := by
      unfold containsSd
      by_cases hi : x ∈ c.sd.items
      · simp only [hi, if_true]; exact ⟨h, by simp [h.itemsSub x hi]⟩
      · simp only [hi, if_false]
        by_cases hf : c.sd.fully = true
        · simp only [hf, if_true]
          have : x ∉ l := fun hl => hi (h.full hf x hl)
          exact ⟨h, by simp [this]⟩
        · have hf' : c.sd.fully = false := by simpa using hf
          simp only [hf', Bool.false_eq_true, if_false]
          by_cases ha : x ∈ c.sd.absent
          · simp only [ha, if_true]
            have : x ∉ l := fun hl => hi (h.absentOk x ha hl)
            exact ⟨h, by simp [this]⟩
          · simp only [ha, if_false]
            by_cases hr : x ∈ c.sd.removed
            · -- nothing is asked for an item the session removed
              have hxl : x ∉ l := h.removed_not_mem hr
              simp only [hr, if_true, hi, if_false]
              refine ⟨⟨h.lnd, h.dbnd, h.ind, h.and_, h.rnd, h.mem, h.addedFresh, h.removedIn, h.itemsSub, h.addedItems, h.full, h.card, h.cnt, ?_⟩, by simp [hxl]⟩
              intro y hy hyl
              rcases mem_ins.mp hy with hy | rfl
              · exact h.absentOk y hy hyl
              · exact absurd hyl hxl
            · simp only [hr, if_false]
              by_cases he : c.sd.items.isEmpty = true
              · have hnil : c.sd.items = [] := List.isEmpty_iff.mp he
                simp only [he, if_true]
                by_cases hd : x ∈ c.db
                · -- the single-item query finds the link row
                  have hxl : x ∈ l := (h.mem x).mpr (Or.inl ⟨hd, hr⟩)
                  simp only [hd, if_true, List.mem_singleton, if_true]
                  refine ⟨⟨h.lnd, h.dbnd, by simp, h.and_, h.rnd, h.mem, h.addedFresh, h.removedIn, ?_, ?_, ?_, h.card, h.cnt, ?_⟩, by simp [hxl]⟩
                  · intro y hy; simp at hy; subst hy; exact hxl
                  · intro y hy; have := h.addedItems y hy; simp [hnil] at this
                  · intro hff; simp [hf'] at hff
                  · intro y hy hyl; have := h.absentOk y hy hyl; simp [hnil] at this
                · have hxl : x ∉ l := by
                    intro hl
                    rcases (h.mem x).mp hl with ⟨h1, _⟩ | h1
                    · exact hd h1
                    · have := h.addedItems x h1; simp [hnil] at this
                  simp only [hd, if_false, hi, if_false]
                  refine ⟨⟨h.lnd, h.dbnd, h.ind, h.and_, h.rnd, h.mem, h.addedFresh, h.removedIn, h.itemsSub, h.addedItems, h.full, h.card, h.cnt, ?_⟩, by simp [hxl]⟩
                  intro y hy hyl
                  rcases mem_ins.mp hy with hy | rfl
                  · exact h.absentOk y hy hyl
                  · exact absurd hyl hxl
              · -- the SetData is not empty: the whole collection is loaded
                simp only [he, Bool.false_eq_true, if_false]
                obtain ⟨hj1, _, hfull⟩ := loadAll_spec h
                by_cases hin : x ∈ (loadAll c).items
                · simp only [hin, if_true]
                  exact ⟨hj1, by simp [hj1.itemsSub x hin]⟩
                · have hxl : x ∉ l := fun hl => hin (hj1.full hfull x hl)
                  simp only [hin, if_false]
                  refine ⟨⟨hj1.lnd, hj1.dbnd, hj1.ind, hj1.and_, hj1.rnd, hj1.mem, hj1.addedFresh, hj1.removedIn, hj1.itemsSub, hj1.addedItems, hj1.full, hj1.card, hj1.cnt, ?_⟩, by simp [hxl]⟩
                  intro y hy hyl
                  rcases mem_ins.mp hy with hy | rfl
                  · exact hj1.absentOk y hy hyl
                  · exact absurd hyl hxl
    refine ⟨key.1, ?_⟩
    intro v hv'; simp only [Option.some.injEq] at hv'; subst hv'; rw [key.2]; rfl

/-- all histories: every read returns the number of items the program has -/
theorem run_spec (cfg : Cfg) : ∀ (ops : List Op) (c : Coll) (l : List Item), J c l → ValidFrom cfg c l ops →
    ∃ c' l' rs, run cfg c l ops = .ok (c', l', rs) ∧ J c' l' ∧ ∀ p, p ∈ rs → p.1 = p.2
  | [], c, l, h, _ => ⟨c, l, [], rfl, h, by simp⟩
  | op :: ops, c, l, h, hv => by
    obtain ⟨hv1, hv2, hv3⟩ := hv
    obtain ⟨c1, r, e, hj, hr⟩ := step_spec cfg h op hv1 hv2
    rw [e] at hv3
    obtain ⟨c2, l2, rs, e2, hj2, hrs⟩ := run_spec cfg ops c1 (specStep l op) hj hv3
    cases r with
    | none =>
      refine ⟨c2, l2, rs, by simp [run, e, e2], hj2, hrs⟩
    | some v =>
      refine ⟨c2, l2, (v, specRead (specStep l op) op) :: rs, by simp [run, e, e2], hj2, ?_⟩
      intro p hp
      rcases List.mem_cons.mp hp with rfl | hp
      · exact hr v rfl
      · exact hrs p hp

end PonyVerif.Model.SetCount
