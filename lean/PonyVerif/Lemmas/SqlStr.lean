/- helper lemmas for C25: windows of a list, closed forms of the index / length expressions STRING_SLICE builds -/
import PonyVerif.Model.SqlStr
namespace PonyVerif.Model.SqlStr

theorem sliceNat_getElem? (s : List Char) (a l k : Nat) :
    (sliceNat s a l)[k]? = if k < l then s[a + k]? else none := by
  simp [sliceNat, List.getElem?_take, List.getElem?_drop]

theorem sliceNat_nil (s : List Char) (a l : Nat) (h : s.length ≤ a ∨ l = 0) : sliceNat s a l = [] := by
  rcases h with h | h
  · simp [sliceNat, List.drop_eq_nil_of_le h]
  · simp [sliceNat, h]

/-- two windows are the same list when their clipped extents agree (or both are empty) -/
theorem sliceNat_congr (s : List Char) (a l a' l' : Nat)
    (h : (a = a' ∧ min (a + l) s.length = min (a' + l') s.length) ∨
         ((s.length ≤ a ∨ l = 0) ∧ (s.length ≤ a' ∨ l' = 0))) :
    sliceNat s a l = sliceNat s a' l' := by
  rcases h with ⟨rfl, h⟩ | ⟨h1, h2⟩
  · apply List.ext_getElem?; intro k
    simp only [sliceNat_getElem?]
    by_cases hk : a + k < s.length
    · have : (k < l) ↔ (k < l') := by omega
      by_cases hk2 : k < l
      · have : k < l' := by omega
        simp [*]
      · have : ¬ k < l' := by omega
        simp [*]
    · have := List.getElem?_eq_none (l := s) (i := a + k) (by omega)
      split <;> split <;> simp_all
  · rw [sliceNat_nil s a l h1, sliceNat_nil s a' l' h2]

theorem sliceNat_whole (s : List Char) (l : Nat) (h : s.length ≤ l) : sliceNat s 0 l = s := by
  simp [sliceNat, List.take_of_length_le h]


/-- the characters at 0-based positions `k` with `x ≤ k < y` -/
def win (s : List Char) (x y : Int) : List Char := sliceNat s x.toNat (y.toNat - x.toNat)

/-- pointwise criterion: two windows that contain the same in-range positions are the same list -/
theorem win_congr (s : List Char) (x y x' y' : Int)
    (h : ∀ k : Int, 0 ≤ k → k < s.length → ((x ≤ k ∧ k < y) ↔ (x' ≤ k ∧ k < y'))) :
    win s x y = win s x' y' := by
  unfold win
  by_cases c : x.toNat < y.toNat ∧ x.toNat < s.length
  · have h1 := h x.toNat
    have h2 := h (x.toNat - 1)
    have e : x'.toNat = x.toNat := by omega
    rw [e]
    apply List.ext_getElem?; intro i
    simp only [sliceNat_getElem?]
    by_cases hi : x.toNat + i < s.length
    · have h5 := h (x.toNat + i : Nat)
      have : (i < y.toNat - x.toNat) ↔ (i < y'.toNat - x.toNat) := by omega
      by_cases hk2 : i < y.toNat - x.toNat
      · have : i < y'.toNat - x.toNat := by omega
        simp [*]
      · have : ¬ i < y'.toNat - x.toNat := by omega
        simp [*]
    · have := List.getElem?_eq_none (l := s) (i := x.toNat + i) (by omega)
      split <;> split <;> simp_all
  · have h3 := h x'.toNat
    rw [sliceNat_nil s _ _ (by omega), sliceNat_nil s _ _ (by omega)]

theorem sliceNat_eq_win (s : List Char) (X L : Int) (hX : 0 ≤ X) (hL : 0 ≤ L) :
    sliceNat s X.toNat L.toNat = win s X (X + L) := by
  unfold win; congr 1; omega

theorem pySlice_eq_win (s : List Char) (a b : Int) :
    pySlice s (some a) (some b) = win s (adjIdx s.length a) (adjIdx s.length b) := by
  unfold pySlice win; simp only []; congr 1
  unfold adjIdx; omega

theorem pySlice_eq_win_none (s : List Char) (a : Int) :
    pySlice s (some a) none = win s (adjIdx s.length a) s.length := by
  unfold pySlice win; simp only []; congr 1
  unfold adjIdx; omega

/-- position `k` (in range) belongs to Python's `s[a:b]` -/
theorem adjIdx_le (n a k : Int) (hn : 0 ≤ n) (hk0 : 0 ≤ k) (hkn : k < n) :
    (adjIdx n a ≤ k) ↔ ((a < 0 ∧ a + n ≤ k) ∨ (0 ≤ a ∧ a ≤ k)) := by
  unfold adjIdx; split <;> split <;> omega

theorem lt_adjIdx (n b k : Int) (hn : 0 ≤ n) (hk0 : 0 ≤ k) (hkn : k < n) :
    (k < adjIdx n b) ↔ ((b < 0 ∧ k < b + n) ∨ (0 ≤ b ∧ k < b)) := by
  unfold adjIdx; split <;> split <;> omega

/-! ### closed forms of what STRING_SLICE computes -/

/-- value of `index_sql`: the 1-based position handed to substr (`n` = what `length(expr)` returns) -/
def indexVal (d : Dialect) (n a : Int) : Int :=
  if d = .pg ∧ a < 0 then n + a + 1 else if a ≥ 0 then a + 1 else a

/-- value of `len_sql`; `raw` = both bounds are constants (no `MAX(…, 0)` around the same-sign difference) -/
def lenVal (d : Dialect) (n : Int) (raw : Bool) (a b : Int) : Int :=
  if (a ≥ 0 ∧ b ≥ 0) ∨ (a < 0 ∧ b < 0) then (if raw then b - a else max (b - a) 0)
  else if a ≥ 0 then max (n - (a - b)) 0
  else max (b + 1 - indexVal d n a) 0

theorem pySlice_none_start (s : List Char) (j : Option Int) : pySlice s none j = pySlice s (some 0) j := by
  simp [pySlice, adjIdx]
  split <;> simp_all <;> omega

theorem indexVal_pg (n a : Int) : indexVal .pg n a = if a < 0 then n + a + 1 else a + 1 := by
  unfold indexVal; simp; omega

theorem indexVal_other (d : Dialect) (h : d ≠ .pg) (n a : Int) : indexVal d n a = if a ≥ 0 then a + 1 else a := by
  unfold indexVal; simp [h]

-- sign split used by the arithmetic lemmas: every `if` on the signs of `a`, `b` and on `raw` is decided
set_option hygiene false in
macro "sign_cases" a:ident b:ident raw:ident : tactic => `(tactic|
  (by_cases ha : $a < 0 <;> by_cases hb : $b < 0 <;> cases $raw:ident))

/-- PostgreSQL, three-argument form -/
theorem pg_substr3 (s : List Char) (raw : Bool) (a b : Int)
    (hg : ¬ (raw = true ∧ ((a ≥ 0 ∧ b ≥ 0) ∨ (a < 0 ∧ b < 0)) ∧ b < a)) :
    substr3V .pg s (indexVal .pg s.length a) (lenVal .pg s.length raw a b) = .ok (.str (pySlice s (some a) (some b))) := by
  have hl : ¬ lenVal .pg s.length raw a b < 0 := by
    simp only [lenVal, indexVal_pg]
    cases raw <;> simp at hg ⊢ <;> omega
  simp only [substr3V, hl, if_false]
  rw [pySlice_eq_win]
  congr 2
  show win s _ _ = _
  apply win_congr; intro k hk0 hkn
  rw [adjIdx_le _ _ _ (by omega) hk0 hkn, lt_adjIdx _ _ _ (by omega) hk0 hkn]
  simp only [lenVal, indexVal_pg]
  cases raw <;> simp at hg ⊢ <;> omega

/-- membership of an in-range position in Python's `s[a:b]`, as a linear-arithmetic statement -/
def inPy (n a b k : Int) : Prop :=
  ((a < 0 ∧ a + n ≤ k) ∨ (0 ≤ a ∧ a ≤ k)) ∧ ((b < 0 ∧ k < b + n) ∨ (0 ≤ b ∧ k < b))

theorem win_eq_pySlice (s : List Char) (a b x y : Int)
    (h : ∀ k : Int, 0 ≤ k → k < s.length → ((x ≤ k ∧ k < y) ↔ inPy s.length a b k)) :
    win s x y = pySlice s (some a) (some b) := by
  rw [pySlice_eq_win]
  apply win_congr; intro k hk0 hkn
  rw [adjIdx_le _ _ _ (by omega) hk0 hkn, lt_adjIdx _ _ _ (by omega) hk0 hkn]
  exact h k hk0 hkn

theorem win_zero (s : List Char) : win s 0 0 = [] := by simp [win, sliceNat]

theorem nil_eq_pySlice (s : List Char) (a b : Int)
    (h : ∀ k : Int, 0 ≤ k → k < s.length → ¬ inPy s.length a b k) :
    [] = pySlice s (some a) (some b) := by
  rw [← win_zero s]
  apply win_eq_pySlice; intro k hk0 hkn
  have := h k hk0 hkn
  constructor
  · intro h'; omega
  · intro h'; exact absurd h' this

/-- membership in `s[a:]` -/
def inPyFrom (n a k : Int) : Prop := (a < 0 ∧ a + n ≤ k) ∨ (0 ≤ a ∧ a ≤ k)

theorem win_eq_pySlice_none (s : List Char) (a x y : Int)
    (h : ∀ k : Int, 0 ≤ k → k < s.length → ((x ≤ k ∧ k < y) ↔ inPyFrom s.length a k)) :
    win s x y = pySlice s (some a) none := by
  rw [pySlice_eq_win_none]
  apply win_congr; intro k hk0 hkn
  rw [adjIdx_le _ _ _ (by omega) hk0 hkn]
  have := h k hk0 hkn
  unfold inPyFrom at this
  omega

theorem nil_eq_pySlice_none (s : List Char) (a : Int)
    (h : ∀ k : Int, 0 ≤ k → k < s.length → ¬ inPyFrom s.length a k) :
    [] = pySlice s (some a) none := by
  rw [← win_zero s]
  apply win_eq_pySlice_none; intro k hk0 hkn
  have := h k hk0 hkn
  constructor
  · intro h'; omega
  · intro h'; exact absurd h' this

/-- PostgreSQL, two-argument form -/
theorem pg_substr2 (s : List Char) (a : Int) :
    substr2V .pg s (indexVal .pg s.length a) = .ok (.str (pySlice s (some a) none)) := by
  simp only [substr2V]
  congr 2
  have e : sliceNat s (indexVal .pg s.length a - 1).toNat s.length
         = win s (indexVal .pg s.length a - 1) ((indexVal .pg s.length a - 1).toNat + s.length) := by
    unfold win; congr 1; omega
  rw [e]
  apply win_eq_pySlice_none; intro k hk0 hkn
  simp only [indexVal_pg, inPyFrom]
  omega

/-- MySQL, three-argument form (`n` = character count; the byte-counting `LENGTH()` is dealt with by the caller) -/
theorem mysql_substr3 (s : List Char) (raw : Bool) (a b : Int) (hg : -(s.length : Int) ≤ a)
    (hmix : a < 0 → 0 ≤ b → (s.length : Int) ≤ b) :
    substr3V .mysql s (indexVal .mysql s.length a) (lenVal .mysql s.length raw a b) = .ok (.str (pySlice s (some a) (some b))) := by
  obtain ⟨p, hp⟩ : ∃ p, p = indexVal .mysql s.length a := ⟨_, rfl⟩
  obtain ⟨l, hl⟩ : ∃ l, l = lenVal .mysql s.length raw a b := ⟨_, rfl⟩
  rw [← hp, ← hl]
  simp only [lenVal, indexVal_other .mysql (by decide)] at hp hl
  simp only [substr3V]
  by_cases h1 : p = 0 ∨ l < 1
  · rw [if_pos h1]; congr 2
    apply nil_eq_pySlice; intro k hk0 hkn; unfold inPy
    cases raw <;> simp at hl <;> omega
  · rw [if_neg h1]
    by_cases h2 : p > 0
    · rw [if_pos h2]; congr 2
      rw [sliceNat_eq_win _ _ _ (by omega) (by omega)]
      apply win_eq_pySlice; intro k hk0 hkn; unfold inPy
      cases raw <;> simp at hl <;> omega
    · rw [if_neg h2]
      by_cases h3 : -p > (s.length : Int)
      · omega
      · rw [if_neg h3]; congr 2
        rw [sliceNat_eq_win _ _ _ (by omega) (by omega)]
        apply win_eq_pySlice; intro k hk0 hkn; unfold inPy
        cases raw <;> simp at hl <;> omega

theorem mysql_substr2 (s : List Char) (a : Int) (hg : -(s.length : Int) ≤ a) :
    substr2V .mysql s (indexVal .mysql s.length a) = .ok (.str (pySlice s (some a) none)) := by
  obtain ⟨p, hp⟩ : ∃ p, p = indexVal .mysql s.length a := ⟨_, rfl⟩
  rw [← hp]
  simp only [indexVal_other .mysql (by decide)] at hp
  simp only [substr2V]
  have hs : ((s.length : Nat) : Int).toNat = s.length := by omega
  by_cases h1 : p = 0
  · omega
  · rw [if_neg h1]
    by_cases h2 : p > 0
    · rw [if_pos h2]; congr 2
      rw [← hs, sliceNat_eq_win _ _ _ (by omega) (by omega)]
      apply win_eq_pySlice_none; intro k hk0 hkn; unfold inPyFrom
      omega
    · rw [if_neg h2]
      by_cases h3 : -p > (s.length : Int)
      · omega
      · rw [if_neg h3]; congr 2
        rw [← hs, sliceNat_eq_win _ _ _ (by omega) (by omega)]
        apply win_eq_pySlice_none; intro k hk0 hkn; unfold inPyFrom
        omega

theorem strVal_oracle_nil : strVal .oracle [] = .null := by simp [strVal]
theorem strVal_pg (s : List Char) : strVal .pg s = .str s := by simp [strVal]
theorem strVal_mysql (s : List Char) : strVal .mysql s = .str s := by simp [strVal]
theorem strVal_sqlite (s : List Char) : strVal .sqlite s = .str s := by simp [strVal]

/-- Oracle's substr is MySQL's with `''` read as NULL, as long as the position is not 0 -/
theorem oracle_of_mysql3 (s : List Char) (p l : Int) (hp : p ≠ 0) (r : List Char)
    (h : substr3V .mysql s p l = .ok (.str r)) : substr3V .oracle s p l = .ok (strVal .oracle r) := by
  simp only [substr3V, hp, false_or, if_false] at h ⊢
  by_cases h1 : l < 1
  · simp only [if_pos h1] at h ⊢; cases h; simp [strVal]
  · simp only [if_neg h1] at h ⊢
    by_cases h2 : p > 0
    · simp only [if_pos h2] at h ⊢; cases h; rfl
    · simp only [if_neg h2] at h ⊢
      by_cases h3 : -p > (s.length : Int)
      · simp only [if_pos h3] at h ⊢; cases h; simp [strVal]
      · simp only [if_neg h3] at h ⊢; cases h; rfl

theorem oracle_of_mysql2 (s : List Char) (p : Int) (hp : p ≠ 0) (r : List Char)
    (h : substr2V .mysql s p = .ok (.str r)) : substr2V .oracle s p = .ok (strVal .oracle r) := by
  simp only [substr2V, hp, if_false] at h ⊢
  by_cases h2 : p > 0
  · simp only [if_pos h2] at h ⊢; cases h; rfl
  · simp only [if_neg h2] at h ⊢
    by_cases h3 : -p > (s.length : Int)
    · simp only [if_pos h3] at h ⊢; cases h; simp [strVal]
    · simp only [if_neg h3] at h ⊢; cases h; rfl

theorem indexVal_ne_zero (d : Dialect) (h : d ≠ .pg) (n a : Int) : indexVal d n a ≠ 0 := by
  rw [indexVal_other d h]; omega

theorem oracle_substr3 (s : List Char) (raw : Bool) (a b : Int) (hg : -(s.length : Int) ≤ a)
    (hmix : a < 0 → 0 ≤ b → (s.length : Int) ≤ b) :
    substr3V .oracle s (indexVal .oracle s.length a) (lenVal .oracle s.length raw a b)
      = .ok (strVal .oracle (pySlice s (some a) (some b))) := by
  apply oracle_of_mysql3 _ _ _ (indexVal_ne_zero _ (by decide) _ _)
  have e1 : indexVal .oracle s.length a = indexVal .mysql s.length a := by
    rw [indexVal_other _ (by decide), indexVal_other _ (by decide)]
  have e2 : lenVal .oracle s.length raw a b = lenVal .mysql s.length raw a b := by
    unfold lenVal; rw [e1]
  rw [e1, e2]
  exact mysql_substr3 s raw a b hg hmix

theorem oracle_substr2 (s : List Char) (a : Int) (hg : -(s.length : Int) ≤ a) :
    substr2V .oracle s (indexVal .oracle s.length a) = .ok (strVal .oracle (pySlice s (some a) none)) := by
  apply oracle_of_mysql2 _ _ (indexVal_ne_zero _ (by decide) _ _)
  have e1 : indexVal .oracle s.length a = indexVal .mysql s.length a := by
    rw [indexVal_other _ (by decide), indexVal_other _ (by decide)]
  rw [e1]
  exact mysql_substr2 s a hg

/-! ### symbolic evaluation of the expressions `STRING_SLICE` builds -/

section evalLemmas
variable {d : Dialect} {env : Env} {e : Sql} {s : List Char}

theorem sign_dich (a : Int) : (a < 0 ∧ ¬ 0 ≤ a) ∨ (¬ a < 0 ∧ 0 ≤ a) := by omega

theorem eval_indexSql_const (he : eval d env e = .ok (.str s)) (a : Int) :
    eval d env (indexSql d e (.const a)) = .ok (.int (indexVal d (lengthOf d s) a)) := by
  by_cases hd : d = .pg
  · subst hd
    by_cases h0 : a < 0 <;> by_cases h1 : a < -1 <;>
      simp [indexSql, indexVal, eval, he, lengthV, arithV, bind, Except.bind, h0, h1] <;> omega
  · by_cases h0 : a < 0 <;>
      simp [indexSql, indexVal, eval, hd, h0] <;> omega

theorem eval_indexSql_expr (he : eval d env e = .ok (.str s)) {x : Sql} {a : Int} (hx : eval d env x = .ok (.int a)) :
    eval d env (indexSql d e (.expr x)) = .ok (.int (indexVal d (lengthOf d s) a)) := by
  by_cases hd : d = .pg
  · subst hd
    rcases sign_dich a with ⟨h0, h0'⟩ | ⟨h0, h0'⟩ <;>
      simp [indexSql, indexVal, eval, he, hx, lengthV, arithV, cmpV, condV, bind, Except.bind, h0, h0'] <;> omega
  · rcases sign_dich a with ⟨h0, h0'⟩ | ⟨h0, h0'⟩ <;>
      simp [indexSql, indexVal, eval, hx, arithV, cmpV, condV, bind, Except.bind, hd, h0, h0']

theorem eval_lenSql_cc (he : eval d env e = .ok (.str s)) (a b : Int) {idx : Sql}
    (hidx : eval d env idx = .ok (.int (indexVal d (lengthOf d s) a))) :
    ∃ l, lenSql e (.const a) idx (.const b) = some l ∧ eval d env l = .ok (.int (lenVal d (lengthOf d s) true a b)) := by
  rcases sign_dich a with ⟨h0, h0'⟩ | ⟨h0, h0'⟩ <;> rcases sign_dich b with ⟨h1, h1'⟩ | ⟨h1, h1'⟩ <;>
    simp [lenSql, lenVal, maxz, eval, he, hidx, lengthV, arithV, greatestV, bind, Except.bind, h0, h0', h1, h1'] <;> omega

theorem eval_lenSql_ec (he : eval d env e = .ok (.str s)) {x : Sql} {a : Int} (hx : eval d env x = .ok (.int a)) (b : Int) {idx : Sql}
    (hidx : eval d env idx = .ok (.int (indexVal d (lengthOf d s) a))) :
    ∃ l, lenSql e (.expr x) idx (.const b) = some l ∧ eval d env l = .ok (.int (lenVal d (lengthOf d s) false a b)) := by
  rcases sign_dich a with ⟨h0, h0'⟩ | ⟨h0, h0'⟩ <;> rcases sign_dich b with ⟨h1, h1'⟩ | ⟨h1, h1'⟩ <;>
    simp [lenSql, lenVal, maxz, eval, he, hx, hidx, lengthV, arithV, cmpV, condV, greatestV, bind, Except.bind, h0, h0', h1, h1'] <;> omega

theorem eval_lenSql_ce (he : eval d env e = .ok (.str s)) (a : Int) {y : Sql} {b : Int} (hy : eval d env y = .ok (.int b)) {idx : Sql}
    (hidx : eval d env idx = .ok (.int (indexVal d (lengthOf d s) a))) :
    ∃ l, lenSql e (.const a) idx (.expr y) = some l ∧ eval d env l = .ok (.int (lenVal d (lengthOf d s) false a b)) := by
  rcases sign_dich a with ⟨h0, h0'⟩ | ⟨h0, h0'⟩ <;> rcases sign_dich b with ⟨h1, h1'⟩ | ⟨h1, h1'⟩ <;>
    simp [lenSql, lenVal, maxz, eval, he, hy, hidx, lengthV, arithV, cmpV, condV, greatestV, bind, Except.bind, h0, h0', h1, h1'] <;> omega

theorem eval_lenSql_ee (he : eval d env e = .ok (.str s)) {x : Sql} {a : Int} (hx : eval d env x = .ok (.int a))
    {y : Sql} {b : Int} (hy : eval d env y = .ok (.int b)) {idx : Sql}
    (hidx : eval d env idx = .ok (.int (indexVal d (lengthOf d s) a))) :
    ∃ l, lenSql e (.expr x) idx (.expr y) = some l ∧ eval d env l = .ok (.int (lenVal d (lengthOf d s) false a b)) := by
  rcases sign_dich a with ⟨h0, h0'⟩ | ⟨h0, h0'⟩ <;> rcases sign_dich b with ⟨h1, h1'⟩ | ⟨h1, h1'⟩ <;>
    simp [lenSql, lenVal, maxz, eval, he, hx, hy, hidx, lengthV, arithV, cmpV, condV, andV, greatestV, bind, Except.bind, h0, h0', h1, h1'] <;> omega

end evalLemmas
end PonyVerif.Model.SqlStr
