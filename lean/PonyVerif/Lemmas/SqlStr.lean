/- helper lemmas for C25: windows of a list, closed forms of the index / length expressions STRING_SLICE builds -/
import PonyVerif.Model.SqlStr
namespace PonyVerif.Model.SqlStr
open PonyVerif.Py

theorem sliceNat_getElem? (s : List Char) (a l k : Nat) :
    (sliceNat s a l)[k]? = if k < l then s[a + k]? else none := by
  simp [sliceNat, List.getElem?_take, List.getElem?_drop]

theorem sliceNat_nil (s : List Char) (a l : Nat) (h : s.length ≤ a ∨ l = 0) : sliceNat s a l = [] := by
  rcases h with h | h
  · simp [sliceNat, List.drop_eq_nil_of_le h]
  · simp [sliceNat, h]

/-- two windows are the same list when their clipped extents agree (or both are empty) -/
theorem sliceNat_congr (s : List Char) (a l a' l' : Nat)
    (h : (a = a' ∧ min (a + l) s.length = min (a' + l') s.length) ∨
         ((s.length ≤ a ∨ l = 0) ∧ (s.length ≤ a' ∨ l' = 0))) :
    sliceNat s a l = sliceNat s a' l' := by
  rcases h with ⟨rfl, h⟩ | ⟨h1, h2⟩
  · apply List.ext_getElem?; intro k
    simp only [sliceNat_getElem?]
    by_cases hk : a + k < s.length
    · have : (k < l) ↔ (k < l') := by omega
      by_cases hk2 : k < l
      · have : k < l' := by omega
        simp [*]
      · have : ¬ k < l' := by omega
        simp [*]
    · have := List.getElem?_eq_none (l := s) (i := a + k) (by omega)
      split <;> split <;> simp_all
  · rw [sliceNat_nil s a l h1, sliceNat_nil s a' l' h2]

theorem sliceNat_whole (s : List Char) (l : Nat) (h : s.length ≤ l) : sliceNat s 0 l = s := by
  simp [sliceNat, List.take_of_length_le h]


/-- the characters at 0-based positions `k` with `x ≤ k < y` -/
def win (s : List Char) (x y : Int) : List Char := sliceNat s x.toNat (y.toNat - x.toNat)

/-- pointwise criterion: two windows that contain the same in-range positions are the same list -/
theorem win_congr (s : List Char) (x y x' y' : Int)
    (h : ∀ k : Int, 0 ≤ k → k < s.length → ((x ≤ k ∧ k < y) ↔ (x' ≤ k ∧ k < y'))) :
    win s x y = win s x' y' := by
  unfold win
  by_cases c : x.toNat < y.toNat ∧ x.toNat < s.length
  · have h1 := h x.toNat
    have h2 := h (x.toNat - 1)
    have e : x'.toNat = x.toNat := by omega
    rw [e]
    apply List.ext_getElem?; intro i
    simp only [sliceNat_getElem?]
    by_cases hi : x.toNat + i < s.length
    · have h5 := h (x.toNat + i : Nat)
      have : (i < y.toNat - x.toNat) ↔ (i < y'.toNat - x.toNat) := by omega
      by_cases hk2 : i < y.toNat - x.toNat
      · have : i < y'.toNat - x.toNat := by omega
        simp [*]
      · have : ¬ i < y'.toNat - x.toNat := by omega
        simp [*]
    · have := List.getElem?_eq_none (l := s) (i := x.toNat + i) (by omega)
      split <;> split <;> simp_all
  · have h3 := h x'.toNat
    rw [sliceNat_nil s _ _ (by omega), sliceNat_nil s _ _ (by omega)]

theorem sliceNat_eq_win (s : List Char) (X L : Int) (hX : 0 ≤ X) (hL : 0 ≤ L) :
    sliceNat s X.toNat L.toNat = win s X (X + L) := by
  unfold win; congr 1; omega

theorem pySlice_eq_win (s : List Char) (a b : Int) :
    pySlice s (some a) (some b) = win s (adjIdx s.length a) (adjIdx s.length b) := by
  unfold pySlice win; simp only []; congr 1
  unfold adjIdx; omega

theorem pySlice_eq_win_none (s : List Char) (a : Int) :
    pySlice s (some a) none = win s (adjIdx s.length a) s.length := by
  unfold pySlice win; simp only []; congr 1
  unfold adjIdx; omega

/-- position `k` (in range) belongs to Python's `s[a:b]` -/
theorem adjIdx_le (n a k : Int) (_hn : 0 ≤ n) (hk0 : 0 ≤ k) (hkn : k < n) :
    (adjIdx n a ≤ k) ↔ ((a < 0 ∧ a + n ≤ k) ∨ (0 ≤ a ∧ a ≤ k)) := by
  unfold adjIdx; split <;> split <;> omega

theorem lt_adjIdx (n b k : Int) (_hn : 0 ≤ n) (hk0 : 0 ≤ k) (hkn : k < n) :
    (k < adjIdx n b) ↔ ((b < 0 ∧ k < b + n) ∨ (0 ≤ b ∧ k < b)) := by
  unfold adjIdx; split <;> split <;> omega

/-! ### closed forms of what STRING_SLICE computes -/

/-- value of `index_sql`: the 1-based position handed to substr (`n` = what `length(expr)` returns) -/
def indexVal (d : Dialect) (n a : Int) : Int :=
  if d = .pg ∧ a < 0 then n + a + 1 else if a ≥ 0 then a + 1 else a

/-- value of `len_sql`; `raw` = both bounds are constants (no `MAX(…, 0)` around the same-sign difference) -/
def lenVal (d : Dialect) (n : Int) (raw : Bool) (a b : Int) : Int :=
  if (a ≥ 0 ∧ b ≥ 0) ∨ (a < 0 ∧ b < 0) then (if raw then b - a else max (b - a) 0)
  else if a ≥ 0 then max (n - (a - b)) 0
  else max (b + 1 - indexVal d n a) 0

theorem pySlice_none_start (s : List Char) (j : Option Int) : pySlice s none j = pySlice s (some 0) j := by
  simp [pySlice, adjIdx]
  split <;> simp_all <;> omega

theorem indexVal_pg (n a : Int) : indexVal .pg n a = if a < 0 then n + a + 1 else a + 1 := by
  unfold indexVal; simp; omega

theorem indexVal_other (d : Dialect) (h : d ≠ .pg) (n a : Int) : indexVal d n a = if a ≥ 0 then a + 1 else a := by
  unfold indexVal; simp [h]

-- sign split used by the arithmetic lemmas: every `if` on the signs of `a`, `b` and on `raw` is decided
set_option hygiene false in
macro "sign_cases" a:ident b:ident raw:ident : tactic => `(tactic|
  (by_cases ha : $a < 0 <;> by_cases hb : $b < 0 <;> cases $raw:ident))

/-- PostgreSQL, three-argument form -/
theorem pg_substr3 (s : List Char) (raw : Bool) (a b : Int)
    (hg : ¬ (raw = true ∧ ((a ≥ 0 ∧ b ≥ 0) ∨ (a < 0 ∧ b < 0)) ∧ b < a)) :
    substr3V .pg s (indexVal .pg s.length a) (lenVal .pg s.length raw a b) = .ok (.str (pySlice s (some a) (some b))) := by
  have hl : ¬ lenVal .pg s.length raw a b < 0 := by
    simp only [lenVal, indexVal_pg]
    cases raw <;> simp at hg ⊢ <;> omega
  simp only [substr3V, hl, if_false]
  rw [pySlice_eq_win]
  congr 2
  show win s _ _ = _
  apply win_congr; intro k hk0 hkn
  rw [adjIdx_le _ _ _ (by omega) hk0 hkn, lt_adjIdx _ _ _ (by omega) hk0 hkn]
  simp only [lenVal, indexVal_pg]
  cases raw <;> simp at hg ⊢ <;> omega

/-- membership of an in-range position in Python's `s[a:b]`, as a linear-arithmetic statement -/
def inPy (n a b k : Int) : Prop :=
  ((a < 0 ∧ a + n ≤ k) ∨ (0 ≤ a ∧ a ≤ k)) ∧ ((b < 0 ∧ k < b + n) ∨ (0 ≤ b ∧ k < b))

theorem win_eq_pySlice (s : List Char) (a b x y : Int)
    (h : ∀ k : Int, 0 ≤ k → k < s.length → ((x ≤ k ∧ k < y) ↔ inPy s.length a b k)) :
    win s x y = pySlice s (some a) (some b) := by
  rw [pySlice_eq_win]
  apply win_congr; intro k hk0 hkn
  rw [adjIdx_le _ _ _ (by omega) hk0 hkn, lt_adjIdx _ _ _ (by omega) hk0 hkn]
  exact h k hk0 hkn

theorem win_zero (s : List Char) : win s 0 0 = [] := by simp [win, sliceNat]

theorem nil_eq_pySlice (s : List Char) (a b : Int)
    (h : ∀ k : Int, 0 ≤ k → k < s.length → ¬ inPy s.length a b k) :
    [] = pySlice s (some a) (some b) := by
  rw [← win_zero s]
  apply win_eq_pySlice; intro k hk0 hkn
  have := h k hk0 hkn
  constructor
  · intro h'; omega
  · intro h'; exact absurd h' this

/-- membership in `s[a:]` -/
def inPyFrom (n a k : Int) : Prop := (a < 0 ∧ a + n ≤ k) ∨ (0 ≤ a ∧ a ≤ k)

theorem win_eq_pySlice_none (s : List Char) (a x y : Int)
    (h : ∀ k : Int, 0 ≤ k → k < s.length → ((x ≤ k ∧ k < y) ↔ inPyFrom s.length a k)) :
    win s x y = pySlice s (some a) none := by
  rw [pySlice_eq_win_none]
  apply win_congr; intro k hk0 hkn
  rw [adjIdx_le _ _ _ (by omega) hk0 hkn]
  have := h k hk0 hkn
  unfold inPyFrom at this
  omega

theorem nil_eq_pySlice_none (s : List Char) (a : Int)
    (h : ∀ k : Int, 0 ≤ k → k < s.length → ¬ inPyFrom s.length a k) :
    [] = pySlice s (some a) none := by
  rw [← win_zero s]
  apply win_eq_pySlice_none; intro k hk0 hkn
  have := h k hk0 hkn
  constructor
  · intro h'; omega
  · intro h'; exact absurd h' this

/-- PostgreSQL, two-argument form -/
theorem pg_substr2 (s : List Char) (a : Int) :
    substr2V .pg s (indexVal .pg s.length a) = .ok (.str (pySlice s (some a) none)) := by
  simp only [substr2V]
  congr 2
  have e : sliceNat s (indexVal .pg s.length a - 1).toNat s.length
         = win s (indexVal .pg s.length a - 1) ((indexVal .pg s.length a - 1).toNat + s.length) := by
    unfold win; congr 1; omega
  rw [e]
  apply win_eq_pySlice_none; intro k hk0 hkn
  simp only [indexVal_pg, inPyFrom]
  omega

/-- MySQL, three-argument form (`n` = character count; the byte-counting `LENGTH()` is dealt with by the caller) -/
theorem mysql_substr3 (s : List Char) (raw : Bool) (a b : Int) (hg : -(s.length : Int) ≤ a)
    (hmix : a < 0 → 0 ≤ b → (s.length : Int) ≤ b) :
    substr3V .mysql s (indexVal .mysql s.length a) (lenVal .mysql s.length raw a b) = .ok (.str (pySlice s (some a) (some b))) := by
  obtain ⟨p, hp⟩ : ∃ p, p = indexVal .mysql s.length a := ⟨_, rfl⟩
  obtain ⟨l, hl⟩ : ∃ l, l = lenVal .mysql s.length raw a b := ⟨_, rfl⟩
  rw [← hp, ← hl]
  simp only [lenVal, indexVal_other .mysql (by decide)] at hp hl
  simp only [substr3V]
  by_cases h1 : p = 0 ∨ l < 1
  · rw [if_pos h1]; congr 2
    apply nil_eq_pySlice; intro k hk0 hkn; unfold inPy
    cases raw <;> simp at hl <;> omega
  · rw [if_neg h1]
    by_cases h2 : p > 0
    · rw [if_pos h2]; congr 2
      rw [sliceNat_eq_win _ _ _ (by omega) (by omega)]
      apply win_eq_pySlice; intro k hk0 hkn; unfold inPy
      cases raw <;> simp at hl <;> omega
    · rw [if_neg h2]
      by_cases h3 : -p > (s.length : Int)
      · omega
      · rw [if_neg h3]; congr 2
        rw [sliceNat_eq_win _ _ _ (by omega) (by omega)]
        apply win_eq_pySlice; intro k hk0 hkn; unfold inPy
        cases raw <;> simp at hl <;> omega

theorem mysql_substr2 (s : List Char) (a : Int) (hg : -(s.length : Int) ≤ a) :
    substr2V .mysql s (indexVal .mysql s.length a) = .ok (.str (pySlice s (some a) none)) := by
  obtain ⟨p, hp⟩ : ∃ p, p = indexVal .mysql s.length a := ⟨_, rfl⟩
  rw [← hp]
  simp only [indexVal_other .mysql (by decide)] at hp
  simp only [substr2V]
  have hs : ((s.length : Nat) : Int).toNat = s.length := by omega
  by_cases h1 : p = 0
  · omega
  · rw [if_neg h1]
    by_cases h2 : p > 0
    · rw [if_pos h2]; congr 2
      rw [← hs, sliceNat_eq_win _ _ _ (by omega) (by omega)]
      apply win_eq_pySlice_none; intro k hk0 hkn; unfold inPyFrom
      omega
    · rw [if_neg h2]
      by_cases h3 : -p > (s.length : Int)
      · omega
      · rw [if_neg h3]; congr 2
        rw [← hs, sliceNat_eq_win _ _ _ (by omega) (by omega)]
        apply win_eq_pySlice_none; intro k hk0 hkn; unfold inPyFrom
        omega

theorem strVal_oracle_nil : strVal .oracle [] = .null := by simp [strVal]
theorem strVal_pg (s : List Char) : strVal .pg s = .str s := by simp [strVal]
theorem strVal_mysql (s : List Char) : strVal .mysql s = .str s := by simp [strVal]
theorem strVal_sqlite (s : List Char) : strVal .sqlite s = .str s := by simp [strVal]

/-- Oracle's substr is MySQL's with `''` read as NULL, as long as the position is not 0 -/
theorem oracle_of_mysql3 (s : List Char) (p l : Int) (hp : p ≠ 0) (r : List Char)
    (h : substr3V .mysql s p l = .ok (.str r)) : substr3V .oracle s p l = .ok (strVal .oracle r) := by
  simp only [substr3V, hp, false_or, if_false] at h ⊢
  by_cases h1 : l < 1
  · simp only [if_pos h1] at h ⊢; cases h; simp [strVal]
  · simp only [if_neg h1] at h ⊢
    by_cases h2 : p > 0
    · simp only [if_pos h2] at h ⊢; cases h; rfl
    · simp only [if_neg h2] at h ⊢
      by_cases h3 : -p > (s.length : Int)
      · simp only [if_pos h3] at h ⊢; cases h; simp [strVal]
      · simp only [if_neg h3] at h ⊢; cases h; rfl

theorem oracle_of_mysql2 (s : List Char) (p : Int) (hp : p ≠ 0) (r : List Char)
    (h : substr2V .mysql s p = .ok (.str r)) : substr2V .oracle s p = .ok (strVal .oracle r) := by
  simp only [substr2V, hp, if_false] at h ⊢
  by_cases h2 : p > 0
  · simp only [if_pos h2] at h ⊢; cases h; rfl
  · simp only [if_neg h2] at h ⊢
    by_cases h3 : -p > (s.length : Int)
    · simp only [if_pos h3] at h ⊢; cases h; simp [strVal]
    · simp only [if_neg h3] at h ⊢; cases h; rfl

theorem indexVal_ne_zero (d : Dialect) (h : d ≠ .pg) (n a : Int) : indexVal d n a ≠ 0 := by
  rw [indexVal_other d h]; omega

theorem oracle_substr3 (s : List Char) (raw : Bool) (a b : Int) (hg : -(s.length : Int) ≤ a)
    (hmix : a < 0 → 0 ≤ b → (s.length : Int) ≤ b) :
    substr3V .oracle s (indexVal .oracle s.length a) (lenVal .oracle s.length raw a b)
      = .ok (strVal .oracle (pySlice s (some a) (some b))) := by
  apply oracle_of_mysql3 _ _ _ (indexVal_ne_zero _ (by decide) _ _)
  have e1 : indexVal .oracle s.length a = indexVal .mysql s.length a := by
    rw [indexVal_other _ (by decide), indexVal_other _ (by decide)]
  have e2 : lenVal .oracle s.length raw a b = lenVal .mysql s.length raw a b := by
    unfold lenVal; rw [e1]
  rw [e1, e2]
  exact mysql_substr3 s raw a b hg hmix

theorem oracle_substr2 (s : List Char) (a : Int) (hg : -(s.length : Int) ≤ a) :
    substr2V .oracle s (indexVal .oracle s.length a) = .ok (strVal .oracle (pySlice s (some a) none)) := by
  apply oracle_of_mysql2 _ _ (indexVal_ne_zero _ (by decide) _ _)
  have e1 : indexVal .oracle s.length a = indexVal .mysql s.length a := by
    rw [indexVal_other _ (by decide), indexVal_other _ (by decide)]
  rw [e1]
  exact mysql_substr2 s a hg

/-! ### symbolic evaluation of the expressions `STRING_SLICE` builds -/

section evalLemmas
variable {d : Dialect} {env : Env} {e : Sql} {s : List Char}

theorem sign_dich (a : Int) : (a < 0 ∧ ¬ 0 ≤ a) ∨ (¬ a < 0 ∧ 0 ≤ a) := by omega

theorem eval_indexSql_const (he : eval d env e = .ok (.str s)) (a : Int) :
    eval d env (indexSql d e (.const a)) = .ok (.int (indexVal d (lengthOf d s) a)) := by
  by_cases hd : d = .pg
  · subst hd
    by_cases h0 : a < 0 <;> by_cases h1 : a < -1 <;>
      simp [indexSql, indexVal, eval, he, lengthV, arithV, bind, Except.bind, h0, h1] <;> omega
  · by_cases h0 : a < 0 <;>
      simp [indexSql, indexVal, eval, hd, h0] <;> omega

theorem eval_indexSql_expr (he : eval d env e = .ok (.str s)) {x : Sql} {a : Int} (hx : eval d env x = .ok (.int a)) :
    eval d env (indexSql d e (.expr x)) = .ok (.int (indexVal d (lengthOf d s) a)) := by
  by_cases hd : d = .pg
  · subst hd
    rcases sign_dich a with ⟨h0, h0'⟩ | ⟨h0, h0'⟩ <;>
      simp [indexSql, indexVal, eval, he, hx, lengthV, arithV, cmpV, condV, bind, Except.bind, h0, h0'] <;> omega
  · rcases sign_dich a with ⟨h0, h0'⟩ | ⟨h0, h0'⟩ <;>
      simp [indexSql, indexVal, eval, hx, arithV, cmpV, condV, bind, Except.bind, hd, h0, h0']

theorem eval_lenSql_cc (he : eval d env e = .ok (.str s)) (a b : Int) {idx : Sql}
    (hidx : eval d env idx = .ok (.int (indexVal d (lengthOf d s) a))) :
    ∃ l, lenSql e (.const a) idx (.const b) = some l ∧ eval d env l = .ok (.int (lenVal d (lengthOf d s) true a b)) := by
  rcases sign_dich a with ⟨h0, h0'⟩ | ⟨h0, h0'⟩ <;> rcases sign_dich b with ⟨h1, h1'⟩ | ⟨h1, h1'⟩ <;>
    simp [lenSql, lenVal, maxz, eval, he, hidx, lengthV, arithV, greatestV, bind, Except.bind, h0, h0', h1, h1'] <;> omega

theorem eval_lenSql_ec (he : eval d env e = .ok (.str s)) {x : Sql} {a : Int} (hx : eval d env x = .ok (.int a)) (b : Int) {idx : Sql}
    (hidx : eval d env idx = .ok (.int (indexVal d (lengthOf d s) a))) :
    ∃ l, lenSql e (.expr x) idx (.const b) = some l ∧ eval d env l = .ok (.int (lenVal d (lengthOf d s) false a b)) := by
  rcases sign_dich a with ⟨h0, h0'⟩ | ⟨h0, h0'⟩ <;> rcases sign_dich b with ⟨h1, h1'⟩ | ⟨h1, h1'⟩ <;>
    simp [lenSql, lenVal, maxz, eval, he, hx, hidx, lengthV, arithV, cmpV, condV, greatestV, bind, Except.bind, h0, h0', h1, h1'] <;> omega

theorem eval_lenSql_ce (he : eval d env e = .ok (.str s)) (a : Int) {y : Sql} {b : Int} (hy : eval d env y = .ok (.int b)) {idx : Sql}
    (hidx : eval d env idx = .ok (.int (indexVal d (lengthOf d s) a))) :
    ∃ l, lenSql e (.const a) idx (.expr y) = some l ∧ eval d env l = .ok (.int (lenVal d (lengthOf d s) false a b)) := by
  rcases sign_dich a with ⟨h0, h0'⟩ | ⟨h0, h0'⟩ <;> rcases sign_dich b with ⟨h1, h1'⟩ | ⟨h1, h1'⟩ <;>
    simp [lenSql, lenVal, maxz, eval, he, hy, hidx, lengthV, arithV, cmpV, condV, greatestV, bind, Except.bind, h0, h0', h1, h1'] <;> omega

theorem eval_lenSql_ee (he : eval d env e = .ok (.str s)) {x : Sql} {a : Int} (hx : eval d env x = .ok (.int a))
    {y : Sql} {b : Int} (hy : eval d env y = .ok (.int b)) {idx : Sql}
    (hidx : eval d env idx = .ok (.int (indexVal d (lengthOf d s) a))) :
    ∃ l, lenSql e (.expr x) idx (.expr y) = some l ∧ eval d env l = .ok (.int (lenVal d (lengthOf d s) false a b)) := by
  rcases sign_dich a with ⟨h0, h0'⟩ | ⟨h0, h0'⟩ <;> rcases sign_dich b with ⟨h1, h1'⟩ | ⟨h1, h1'⟩ <;>
    simp [lenSql, lenVal, maxz, eval, he, hx, hy, hidx, lengthV, arithV, cmpV, condV, andV, greatestV, bind, Except.bind, h0, h0', h1, h1'] <;> omega

end evalLemmas
/-! ### indexes -/

theorem pyIndexStr_eq_win (s : List Char) (i : Int) :
    pyIndexStr s i = win s (if i < 0 then i + s.length else i) ((if i < 0 then i + s.length else i) + 1) := by
  unfold pyIndexStr pyIndex
  simp only []
  generalize hk : (if i < 0 then i + (s.length : Int) else i) = k
  by_cases hr : k < 0 ∨ k ≥ s.length
  · rw [if_pos hr]; simp only []
    unfold win
    rw [sliceNat_nil]; omega
  · rw [if_neg hr]
    have hlt : k.toNat < s.length := by omega
    have : s[k.toNat]? = some s[k.toNat] := List.getElem?_eq_getElem hlt
    rw [this]; simp only []
    unfold win
    apply List.ext_getElem?; intro m
    rw [sliceNat_getElem?]
    have e1 : (k + 1).toNat - k.toNat = 1 := by omega
    rw [e1]
    cases m with
    | zero => simp [this]
    | succ m => simp

theorem index_pg (s : List Char) (i : Int) :
    substr3V .pg s (indexVal .pg s.length i) 1 = .ok (.str (pyIndexStr s i)) := by
  rw [pyIndexStr_eq_win]
  simp only [substr3V, indexVal_pg]
  rw [if_neg (by omega)]
  congr 2
  show win s _ _ = _
  apply win_congr; intro k _ _
  omega

theorem index_mysql (s : List Char) (i : Int) :
    substr3V .mysql s (indexVal .mysql s.length i) 1 = .ok (.str (pyIndexStr s i)) := by
  rw [pyIndexStr_eq_win]
  obtain ⟨p, hp⟩ : ∃ p, p = indexVal .mysql s.length i := ⟨_, rfl⟩
  rw [← hp]
  simp only [indexVal_other .mysql (by decide)] at hp
  simp only [substr3V]
  rw [if_neg (by omega)]
  by_cases h2 : p > 0
  · rw [if_pos h2]; congr 2
    rw [sliceNat_eq_win _ _ _ (by omega) (by omega)]
    apply win_congr; intro k _ _; omega
  · rw [if_neg h2]
    by_cases h3 : -p > (s.length : Int)
    · rw [if_pos h3]; congr 2
      rw [← win_zero s]
      apply win_congr; intro k _ _; omega
    · rw [if_neg h3]; congr 2
      rw [sliceNat_eq_win _ _ _ (by omega) (by omega)]
      apply win_congr; intro k _ _; omega

theorem index_oracle (s : List Char) (i : Int) :
    substr3V .oracle s (indexVal .oracle s.length i) 1 = .ok (strVal .oracle (pyIndexStr s i)) := by
  apply oracle_of_mysql3 _ _ _ (indexVal_ne_zero _ (by decide) _ _)
  have e1 : indexVal .oracle s.length i = indexVal .mysql s.length i := by
    rw [indexVal_other _ (by decide), indexVal_other _ (by decide)]
  rw [e1]; exact index_mysql s i

theorem sliceNat_int (s : List Char) (A L : Int) (a l : Nat) (ha : a = A.toNat) (hl : l = L.toNat) (hA : 0 ≤ A) (hL : 0 ≤ L) :
    sliceNat s a l = win s A (A + L) := by
  rw [ha, hl]; exact sliceNat_eq_win s A L hA hL

theorem index_sqlite (s : List Char) (i : Int) :
    substr3V .sqlite s (indexVal .sqlite s.length i) 1 = .ok (.str (pyIndexStr s i)) := by
  rw [pyIndexStr_eq_win]
  obtain ⟨p, hp⟩ : ∃ p, p = indexVal .sqlite s.length i := ⟨_, rfl⟩
  rw [← hp]
  simp only [indexVal_other .sqlite (by decide)] at hp
  simp only [substr3V, sqliteSubstr]
  congr 2
  by_cases h1 : p < 0
  · by_cases h2 : p + (s.length : Int) < 0
    · simp [h1, h2]
      rw [sliceNat_nil _ _ _ (Or.inr (by omega)), ← win_zero s]
      apply win_congr; intro k _ _; omega
    · simp [h1, h2]
      refine (sliceNat_int s (p + s.length) 1 _ _ (by omega) (by omega) (by omega) (by omega)).trans ?_
      apply win_congr; intro k _ _; omega
  · have h3 : p > 0 := by omega
    simp [h1, h3]
    refine (sliceNat_int s (p - 1) 1 _ _ (by omega) (by omega) (by omega) (by omega)).trans ?_
    apply win_congr; intro k _ _; omega

/-! ### encoding facts used by the bridge; symbolic evaluation core; `__getitem__` pinning -/

theorem getItem_enc_zero (x : Sql) : PyVal.getItem x.enc (.int 0) = .ok (.str x.tag) := by
  cases x <;> rfl

theorem getItem_enc_value (i : Int) : PyVal.getItem (.list [.str "VALUE", .int i]) (.int 1) = .ok (.int i) := rfl
theorem getItem_enc_value0 (i : Int) : PyVal.getItem (.list [.str "VALUE", .int i]) (.int 0) = .ok (.str "VALUE") := rfl

theorem tag_eq_value (x : Sql) : (x.tag == "VALUE") = x.isValue := by
  cases x <;> simp [Sql.tag, Sql.isValue]

theorem name_is_pg (d : Dialect) : (d.name == "PostgreSQL") = decide (d = .pg) := by
  cases d <;> simp [Dialect.name]

theorem isNone_enc (x : Sql) : PyVal.isNone x.enc = false := by cases x <;> rfl

/-- what the dialect's substr receives, in closed form (`raw` = both bounds constant) -/
def sliceSem (d : Dialect) (s : List Char) (raw : Bool) (i j : Option Int) : SM SVal :=
  match j with
  | none => substr2V d s (indexVal d s.length (i.getD 0))
  | some b => substr3V d s (indexVal d s.length (i.getD 0)) (lenVal d s.length raw (i.getD 0) b)

/-- symbolic evaluation of the whole AST, with no assumption on the outcome -/
theorem slice_eval (d : Dialect) (env : Env) (e : Sql) (s : List Char) (start stop : Arg) (i j : Option Int)
    (hN : lengthOf d s = s.length)
    (he : eval d env e = .ok (.str s)) (hi : Arg.denotes d env start i) (hj : Arg.denotes d env stop j) :
    eval d env (stringSliceT d e start stop) = sliceSem d s (start.isConstStart && stop.isConstStop) i j := by
  rcases start with _ | a | x <;> rcases stop with _ | b | y <;> simp only [Arg.denotes] at hi hj
  · -- omitted / omitted
    subst hi; subst hj
    have hidx := eval_indexSql_const he 0
    simp only [stringSliceT, startNorm, lenSql, eval, he, hidx, substr2Args, bind, Except.bind, hN]
    simp [sliceSem]
  · -- omitted / const
    subst hi; subst hj
    have hidx := eval_indexSql_const he 0
    obtain ⟨l, hl, hlv⟩ := eval_lenSql_cc he 0 b hidx
    simp only [stringSliceT, startNorm, hl, eval, he, hidx, hlv, substr3Args, bind, Except.bind, hN]
    simp [sliceSem, Arg.isConstStart, Arg.isConstStop]
  · -- omitted / expr
    subst hi; obtain ⟨b, hy, rfl⟩ := hj
    have hidx := eval_indexSql_const he 0
    obtain ⟨l, hl, hlv⟩ := eval_lenSql_ce he 0 hy hidx
    simp only [stringSliceT, startNorm, hl, eval, he, hidx, hlv, substr3Args, bind, Except.bind, hN]
    simp [sliceSem, Arg.isConstStart, Arg.isConstStop]
  · -- const / omitted
    subst hi; subst hj
    have hidx := eval_indexSql_const he a
    simp only [stringSliceT, startNorm, lenSql, eval, he, hidx, substr2Args, bind, Except.bind, hN]
    simp [sliceSem]
  · -- const / const
    subst hi; subst hj
    have hidx := eval_indexSql_const he a
    obtain ⟨l, hl, hlv⟩ := eval_lenSql_cc he a b hidx
    simp only [stringSliceT, startNorm, hl, eval, he, hidx, hlv, substr3Args, bind, Except.bind, hN]
    simp [sliceSem, Arg.isConstStart, Arg.isConstStop]
  · -- const / expr
    subst hi; obtain ⟨b, hy, rfl⟩ := hj
    have hidx := eval_indexSql_const he a
    obtain ⟨l, hl, hlv⟩ := eval_lenSql_ce he a hy hidx
    simp only [stringSliceT, startNorm, hl, eval, he, hidx, hlv, substr3Args, bind, Except.bind, hN]
    simp [sliceSem, Arg.isConstStart, Arg.isConstStop]
  · -- expr / omitted
    obtain ⟨a, hx, rfl⟩ := hi; subst hj
    have hidx := eval_indexSql_expr he hx
    simp only [stringSliceT, startNorm, lenSql, eval, he, hidx, substr2Args, bind, Except.bind, hN]
    simp [sliceSem]
  · -- expr / const
    obtain ⟨a, hx, rfl⟩ := hi; subst hj
    have hidx := eval_indexSql_expr he hx
    obtain ⟨l, hl, hlv⟩ := eval_lenSql_ec he hx b hidx
    simp only [stringSliceT, startNorm, hl, eval, he, hidx, hlv, substr3Args, bind, Except.bind, hN]
    simp [sliceSem, Arg.isConstStart, Arg.isConstStop]
  · -- expr / expr
    obtain ⟨a, hx, rfl⟩ := hi; obtain ⟨b, hy, rfl⟩ := hj
    have hidx := eval_indexSql_expr he hx
    obtain ⟨l, hl, hlv⟩ := eval_lenSql_ee he hx hy hidx
    simp only [stringSliceT, startNorm, hl, eval, he, hidx, hlv, substr3Args, bind, Except.bind, hN]
    simp [sliceSem, Arg.isConstStart, Arg.isConstStop]

theorem slice_core (d : Dialect) (env : Env) (e : Sql) (s : List Char) (start stop : Arg) (i j : Option Int)
    (hN : lengthOf d s = s.length)
    (he : eval d env e = .ok (.str s)) (hi : Arg.denotes d env start i) (hj : Arg.denotes d env stop j)
    (H3 : ∀ (raw : Bool) (a b : Int), (raw = true → start.isConstStart = true ∧ stop.isConstStop = true) →
          (raw = false → ¬ (start.isConstStart = true ∧ stop.isConstStop = true)) → i.getD 0 = a → j = some b →
          substr3V d s (indexVal d s.length a) (lenVal d s.length raw a b) = .ok (strVal d (pySlice s (some a) (some b))))
    (H2 : ∀ a : Int, i.getD 0 = a → j = none →
          substr2V d s (indexVal d s.length a) = .ok (strVal d (pySlice s (some a) none))) :
    eval d env (stringSliceT d e start stop) = .ok (strVal d (pySlice s i j)) := by
  rcases start with _ | a | x <;> rcases stop with _ | b | y <;> simp only [Arg.denotes] at hi hj
  · -- omitted / omitted
    subst hi; subst hj
    have hidx := eval_indexSql_const he 0
    simp only [stringSliceT, startNorm, lenSql, eval, he, hidx, substr2Args, bind, Except.bind, hN]
    rw [pySlice_none_start]; exact H2 0 rfl rfl
  · -- omitted / const
    subst hi; subst hj
    have hidx := eval_indexSql_const he 0
    obtain ⟨l, hl, hlv⟩ := eval_lenSql_cc he 0 b hidx
    simp only [stringSliceT, startNorm, hl, eval, he, hidx, hlv, substr3Args, bind, Except.bind, hN]
    rw [pySlice_none_start]; exact H3 true 0 b (fun _ => ⟨rfl, rfl⟩) (by simp) rfl rfl
  · -- omitted / expr
    subst hi; obtain ⟨b, hy, rfl⟩ := hj
    have hidx := eval_indexSql_const he 0
    obtain ⟨l, hl, hlv⟩ := eval_lenSql_ce he 0 hy hidx
    simp only [stringSliceT, startNorm, hl, eval, he, hidx, hlv, substr3Args, bind, Except.bind, hN]
    rw [pySlice_none_start]; exact H3 false 0 b (by simp) (by simp [Arg.isConstStop]) rfl rfl
  · -- const / omitted
    subst hi; subst hj
    have hidx := eval_indexSql_const he a
    simp only [stringSliceT, startNorm, lenSql, eval, he, hidx, substr2Args, bind, Except.bind, hN]
    exact H2 a rfl rfl
  · -- const / const
    subst hi; subst hj
    have hidx := eval_indexSql_const he a
    obtain ⟨l, hl, hlv⟩ := eval_lenSql_cc he a b hidx
    simp only [stringSliceT, startNorm, hl, eval, he, hidx, hlv, substr3Args, bind, Except.bind, hN]
    exact H3 true a b (fun _ => ⟨rfl, rfl⟩) (by simp) rfl rfl
  · -- const / expr
    subst hi; obtain ⟨b, hy, rfl⟩ := hj
    have hidx := eval_indexSql_const he a
    obtain ⟨l, hl, hlv⟩ := eval_lenSql_ce he a hy hidx
    simp only [stringSliceT, startNorm, hl, eval, he, hidx, hlv, substr3Args, bind, Except.bind, hN]
    exact H3 false a b (by simp) (by simp [Arg.isConstStop]) rfl rfl
  · -- expr / omitted
    obtain ⟨a, hx, rfl⟩ := hi; subst hj
    have hidx := eval_indexSql_expr he hx
    simp only [stringSliceT, startNorm, lenSql, eval, he, hidx, substr2Args, bind, Except.bind, hN]
    exact H2 a rfl rfl
  · -- expr / const
    obtain ⟨a, hx, rfl⟩ := hi; subst hj
    have hidx := eval_indexSql_expr he hx
    obtain ⟨l, hl, hlv⟩ := eval_lenSql_ec he hx b hidx
    simp only [stringSliceT, startNorm, hl, eval, he, hidx, hlv, substr3Args, bind, Except.bind, hN]
    exact H3 false a b (by simp) (by simp [Arg.isConstStart]) rfl rfl
  · -- expr / expr
    obtain ⟨a, hx, rfl⟩ := hi; obtain ⟨b, hy, rfl⟩ := hj
    have hidx := eval_indexSql_expr he hx
    obtain ⟨l, hl, hlv⟩ := eval_lenSql_ee he hx hy hidx
    simp only [stringSliceT, startNorm, hl, eval, he, hidx, hlv, substr3Args, bind, Except.bind, hN]
    exact H3 false a b (by simp) (by simp [Arg.isConstStart]) rfl rfl

theorem pySlice_whole (s : List Char) (i : Option Int) (h : i.getD 0 = 0) : pySlice s i none = s := by
  have : pySlice s i none = pySlice s (some 0) none := by
    cases i with
    | none => exact pySlice_none_start s none
    | some a => simp at h; rw [h]
  rw [this, pySlice_eq_win_none]
  unfold win adjIdx
  have : (s.length : Int).toNat - (if (0:Int) < 0 then (if 0 + (s.length : Int) < 0 then 0 else 0 + (s.length : Int))
      else (if (0:Int) ≥ s.length then (s.length : Int) else 0)).toNat = s.length := by omega
  rw [this]
  have : (if (0:Int) < 0 then (if 0 + (s.length : Int) < 0 then 0 else 0 + (s.length : Int))
      else (if (0:Int) ≥ s.length then (s.length : Int) else 0)).toNat = 0 := by omega
  rw [this]
  exact sliceNat_whole s _ (Nat.le_refl _)

theorem pin_start (start : GArg) : (paramToConst [] true start).1 = start.pin 0 := by
  cases start <;> simp [paramToConst, GArg.pin, List.lookup]

theorem pin_stop (start stop : GArg) (hk : keysConsistent start stop) (hv : ∀ k v, start = .param k v → v ≠ none) :
    (paramToConst (paramToConst [] true start).2 false stop).1 = stop.pin (-1) := by
  rcases stop with _ | b | ⟨k', v'⟩ | y
  · simp [paramToConst, GArg.pin]
  · simp [paramToConst, GArg.pin]
  · rcases start with _ | a | ⟨k, v⟩ | x
    · simp [paramToConst, GArg.pin]
    · simp [paramToConst, GArg.pin]
    · have hvn := hv k v rfl
      obtain ⟨x, rfl⟩ : ∃ x, v = some x := by cases v <;> simp_all
      by_cases hkk : k' = k
      · have := hk hkk.symm; subst hkk; subst this
        simp [paramToConst, GArg.pin, List.lookup]
      · have : (k' == k) = false := by simp [hkk]
        simp [paramToConst, GArg.pin, List.lookup, this]
    · simp [paramToConst, GArg.pin]
  · simp [paramToConst, GArg.pin]

theorem pin_toArg (g : GArg) (dflt : Int) : (g.pin dflt).toArg = g.asArg dflt := by
  cases g <;> simp [GArg.pin, GArg.toArg, GArg.asArg]

theorem pin_known (g : GArg) (dflt : Int) : knownValue dflt (g.pin dflt) = g.known dflt := by
  cases g <;> simp [GArg.pin, knownValue, GArg.known]

theorem getitemSlice_fst (e : Sql) (start stop : GArg) (hk : keysConsistent start stop)
    (hv : ∀ k v, start = .param k v → v ≠ none) :
    (getitemSlice (.expr e) start stop []).1 =
      if shortcut start stop then .whole else .node (start.asArg 0) (stop.asArg (-1)) := by
  unfold getitemSlice shortcut
  simp only [pin_start, pin_stop start stop hk hv, pin_known, pin_toArg]
  split <;> rename_i h <;> simp [h]

theorem denotes_asArg (d : Dialect) (env : Env) (g : GArg) (dflt : Int) (v : Option Int)
    (h : g.denotes d env v) : Arg.denotes d env (g.asArg dflt) v := by
  rcases g with _ | c | ⟨k, pv⟩ | x <;> simp only [GArg.denotes, GArg.asArg, Arg.denotes] at h ⊢
  · exact h
  · exact h
  · obtain ⟨rfl, hne⟩ := h
    cases v with
    | none => exact absurd rfl hne
    | some x => rfl
  · exact h

theorem known_zero_denotes (d : Dialect) (env : Env) (g : GArg) (i : Option Int)
    (h : g.denotes d env i) (hk : g.known 0 = some 0) : i.getD 0 = 0 := by
  rcases g with _ | c | ⟨k, pv⟩ | x <;> simp only [GArg.denotes, GArg.known] at h hk
  · subst h; rfl
  · subst h; simpa using hk
  · obtain ⟨rfl, _⟩ := h; simpa using hk
  · cases hk

theorem strVal_of_ne (d : Dialect) (s : List Char) (h : d = .oracle → s ≠ []) : strVal d s = .str s := by
  unfold strVal
  by_cases hd : d = .oracle
  · simp [hd, h hd]
  · simp [hd]

end PonyVerif.Model.SqlStr
