/- helper lemmas for C25: windows of a list, closed forms of the index / length expressions STRING_SLICE builds -/
import PonyVerif.Model.SqlStr
namespace PonyVerif.Model.SqlStr

theorem sliceNat_getElem? (s : List Char) (a l k : Nat) :
    (sliceNat s a l)[k]? = if k < l then s[a + k]? else none := by
  simp [sliceNat, List.getElem?_take, List.getElem?_drop]

/-- two windows are the same list when their clipped extents agree (or both are empty) -/
theorem sliceNat_congr (s : List Char) (a l a' l' : Nat)
    (h : (a = a' ∧ min (a + l) s.length = min (a' + l') s.length) ∨
         ((s.length ≤ a ∨ l = 0) ∧ (s.length ≤ a' ∨ l' = 0))) :
    sliceNat s a l = sliceNat s a' l' := by
  apply List.ext_getElem?; intro k
  simp only [sliceNat_getElem?]
  by_cases h1 : a + k < s.length <;> by_cases h2 : a' + k < s.length
  · have e1 : a = a' := by omega
    subst e1
    have : (k < l) ↔ (k < l') := by omega
    by_cases hk : k < l <;> simp_all
  · have := List.getElem?_eq_none (l := s) (i := a' + k) (by omega)
    split <;> split <;> simp_all <;> omega
  · have := List.getElem?_eq_none (l := s) (i := a + k) (by omega)
    split <;> split <;> simp_all <;> omega
  · have := List.getElem?_eq_none (l := s) (i := a' + k) (by omega)
    have := List.getElem?_eq_none (l := s) (i := a + k) (by omega)
    split <;> split <;> simp_all

theorem sliceNat_nil (s : List Char) (a l : Nat) (h : s.length ≤ a ∨ l = 0) : sliceNat s a l = [] := by
  rcases h with h | h
  · simp [sliceNat, List.drop_eq_nil_of_le h]
  · simp [sliceNat, h]

theorem sliceNat_whole (s : List Char) (l : Nat) (h : s.length ≤ l) : sliceNat s 0 l = s := by
  simp [sliceNat, List.take_of_length_le h]

end PonyVerif.Model.SqlStr
