/-
  Lemmas/RelLiveStep.lean — one user call keeps "every deleted object is clean" (hence "no live object references a
  deleted object") if it is a removing call (delete / remove / clear, with any cascade), or if it deletes nothing and the
  objects it names are alive afterwards.
-/
import PonyVerif.Lemmas.RelLive
import PonyVerif.Lemmas.RelStep
namespace PonyVerif.Model.Rel

/-- the objects named in a call: its target and the values passed -/
def Op.operands : Op → List ObjId
  | .setRef o _ v => o :: v.toList
  | .setColl o _ items => o :: items
  | .add o _ items => o :: items
  | .create _ vals => vals.flatMap fun p => match p.2 with
      | .ref v => v.toList
      | .coll l => l
  | _ => []

def Op.isRemoval : Op → Bool
  | .delete _ => true
  | .remove _ _ _ => true
  | .clear _ _ => true
  | _ => false

/-- the guard of the no-dangling theorem (decidable on the result of the call) -/
def StepOK (sch : Schema) (s : Store) (op : Op) : Prop :=
  op.isRemoval = true ∨
    ((∀ p, p < s.n → (step sch s op).alive p = s.alive p) ∧ (∀ x ∈ op.operands, (step sch s op).alive x = true) ∧
     (∀ p, p < (step sch s op).n → s.n ≤ p → (step sch s op).alive p = true))

theorem isVal_operand {e : EntId} {vals : List (Attr × Val)} {x : ObjId} (h : IsVal vals x) : x ∈ (Op.create e vals).operands := by
  obtain ⟨a, h | h⟩ := h
  · unfold lookupRef at h
    cases hf : vals.find? (fun p => p.1 == a) with
    | none => rw [hf] at h; cases h
    | some pv =>
      rw [hf] at h
      obtain ⟨a', v⟩ := pv
      have hm := List.mem_of_find?_eq_some hf
      cases v with
      | ref w =>
        simp only at h; subst h
        simp only [Op.operands, List.mem_flatMap]
        exact ⟨_, hm, by simp⟩
      | coll l => simp at h
  · unfold lookupColl at h
    cases hf : vals.find? (fun p => p.1 == a) with
    | none => rw [hf] at h; cases h
    | some pv =>
      rw [hf] at h
      obtain ⟨a', v⟩ := pv
      have hm := List.mem_of_find?_eq_some hf
      cases v with
      | ref w => simp at h
      | coll l =>
        simp only at h
        simp only [Op.operands, List.mem_flatMap]
        exact ⟨_, hm, h⟩

theorem clean_step (sch : Schema) (s : Store) (op : Op) (hI : Inv sch s) (hC : DeadClean sch s) (hok : StepOK sch s op) :
    DeadClean sch (step sch s op) := by
  have hdel := fun fuel => delete_spec (sch := sch) fuel
  unfold StepOK at hok
  have hstep : step sch s op = (stepO sch s op).store := rfl
  cases hr : run1 sch op { store := s } with
  | err e st =>
    have : step sch s op = undoAll st.trail st.store := by simp [step, stepO, hr]
    rw [this]
    exact deadClean_of_eqBelow hI.range hC (run1_err_restores hr)
  | ok st =>
    have hres : step sch s op = st.store := by simp [step, stepO, hr]
    rw [hres] at hok ⊢
    -- the additive case, from what the call may have added
    have hadd : ∀ (o : ObjId) (a : Attr) (V : ObjId → Prop), st.store.n = s.n → st.store.ent = s.ent →
        NewLinks sch s st.store o a V → o ∈ op.operands → (∀ x, V x → x ∈ op.operands) → op.isRemoval = false → DeadClean sch st.store := by
      intro o a V hn hent hnl ho hV hrem
      rcases hok with h | ⟨h1, h2, h3⟩
      · rw [hrem] at h; cases h
      · refine deadClean_additive hI.range hC (by rw [hn]; exact Nat.le_refl _) h1 (fun p _ => by rw [hent]) (fun p a b => h3 p b a) ?_
        intro p b q hh
        rcases hnl p b q hh with g | ⟨rfl, _, g⟩ | ⟨rfl, _, g⟩
        · exact Or.inl g
        · exact Or.inr ⟨h2 _ ho, h2 _ (hV _ g)⟩
        · exact Or.inr ⟨h2 _ (hV _ g), h2 _ ho⟩
    unfold run1 at hr
    simp only at hr
    cases op with
    | setRef o a v =>
      simp only at hr
      split at hr
      · cases hr
      · rename_i hok'
        obtain ⟨ho, d, hd, hdc⟩ := attrOk_none hok'
        split at hr
        · cases hr
        · split at hr
          · obtain ⟨_, _, h3, h4, h5⟩ := attrSetTop_ok (hdel _) hr hd hdc ho (fun x hx => by cases hx) hI.agree hI.range
            exact hadd o a _ h3 h4 h5 (by simp [Op.operands]) (fun x hx => by cases hx) rfl
          · split at hr
            · cases hr
            · rename_i x hv
              obtain ⟨_, _, h3, h4, h5⟩ := attrSetTop_ok (hdel _) hr hd hdc ho (fun y hy => by cases hy; exact valueOk_none hv) hI.agree hI.range
              exact hadd o a _ h3 h4 h5 (by simp [Op.operands]) (fun y hy => by cases hy; simp [Op.operands]) rfl
    | setColl o c items =>
      simp only at hr
      split at hr
      · cases hr
      · rename_i hok'
        obtain ⟨ho, d, hd, hdc⟩ := attrOk_none hok'
        split at hr
        · cases hr
        · split at hr
          · cases hr
          · rename_i hv
            obtain ⟨_, _, h3, h4, h5⟩ := setCollCore_ok (hdel _) hr hd hdc ho (valuesOk_none hv) hI.agree hI.range
            exact hadd o c _ h3 h4 h5 (by simp [Op.operands]) (fun y hy => by simp [Op.operands, hy]) rfl
    | add o c items =>
      simp only at hr
      split at hr
      · cases hr
      · rename_i hok'
        obtain ⟨ho, d, hd, hdc⟩ := attrOk_none hok'
        split at hr
        · cases hr
        · split at hr
          · cases hr
          · obtain ⟨_, _, h3, _, h4, h5⟩ := collAdd_ok hr hd hdc ho hI.agree hI.range
            exact hadd o c _ h3 h4 h5 (by simp [Op.operands]) (fun y hy => by simp [Op.operands, hy]) rfl
    | remove o c items =>
      simp only at hr
      split at hr
      · cases hr
      · rename_i hok'
        obtain ⟨ho, d, hd, hdc⟩ := attrOk_none hok'
        split at hr
        · cases hr
        · split at hr
          · cases hr
          · obtain ⟨h1, h2⟩ := collRemove_sub hr hd hdc hI.agree hI.range
            exact hC.step h1 h2
    | clear o c =>
      simp only at hr
      split at hr
      · cases hr
      · rename_i hok'
        obtain ⟨ho, d, hd, hdc⟩ := attrOk_none hok'
        obtain ⟨h1, h2⟩ := clear_sub hr hd hdc hI.agree hI.range
        exact hC.step h1 h2
    | create e vals =>
      simp only at hr
      split at hr
      · cases hr
      · rename_i hv
        obtain ⟨_, _, k3, ke, k4⟩ := create_ok hr hv hI.agree hI.range
        rcases hok with h | ⟨h1, h2, h3⟩
        · cases h
        · have hid : st.store.alive s.n = true := h3 s.n (by rw [k3]; exact Nat.lt_succ_self _) (Nat.le_refl _)
          refine deadClean_additive hI.range hC (by rw [k3]; exact Nat.le_succ _) h1 ke (fun p a b => h3 p b a) ?_
          intro p b q hh
          rcases k4 p b q hh with ⟨g, _⟩ | ⟨rfl, g⟩ | ⟨rfl, g⟩
          · exact Or.inl g
          · exact Or.inr ⟨hid, h2 _ (isVal_operand g)⟩
          · exact Or.inr ⟨h2 _ (isVal_operand g), hid⟩
    | delete o =>
      simp only at hr
      split at hr
      · rename_i ho
        obtain ⟨_, h2, _, _⟩ := hdel _ o _ st (fun _ _ => False) (fun _ => False) hr ho hI.range (D_false_iff.mpr hI.agree)
        have hN := delete_clean _ o _ st (fun _ _ => False) hr ho hI.range (D_false_iff.mpr hI.agree)
        exact hC.step h2 hN
      · cases hr

end PonyVerif.Model.Rel
