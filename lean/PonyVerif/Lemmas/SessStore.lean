/-
  Lemmas/SessStore.lean — the session invariant, one lemma per `_save_*_` statement, the queue loop, the many-to-many
  lemma and the flush theorem for Model/SessStore.lean (C09, C10).
-/
import PonyVerif.Model.SessStore
namespace PonyVerif.Model.SessStore

theorem Db.ext' {d e : Db} (h1 : ∀ k, d.rows k = e.rows k) (h2 : ∀ l, d.links l = e.links l) : d = e := by
  cases d; cases e; simp only [Db.mk.injEq]; exact ⟨funext h1, funext h2⟩

@[simp] theorem Db.setRow_rows (d : Db) (k k' : Key) (r : Option Row) :
    (d.setRow k r).rows k' = if k' = k then r else d.rows k' := rfl
@[simp] theorem Db.setRow_links (d : Db) (k : Key) (r : Option Row) : (d.setRow k r).links = d.links := rfl
@[simp] theorem Db.setLink_rows (d : Db) (l : Link) (b : Bool) : (d.setLink l b).rows = d.rows := rfl
@[simp] theorem Db.setLink_links (d : Db) (l l' : Link) (b : Bool) :
    (d.setLink l b).links l' = if l' = l then b else d.links l' := rfl
@[simp] theorem Cache.setObj_objs (c : Cache) (k k' : Key) (o : Obj) :
    (c.setObj k o).objs k' = if k' = k then some o else c.objs k' := rfl
@[simp] theorem Cache.setObj_queue (c : Cache) (k : Key) (o : Obj) : (c.setObj k o).queue = c.queue := rfl
@[simp] theorem Cache.setObj_added (c : Cache) (k : Key) (o : Obj) : (c.setObj k o).added = c.added := rfl
@[simp] theorem Cache.setObj_removed (c : Cache) (k : Key) (o : Obj) : (c.setObj k o).removed = c.removed := rfl
@[simp] theorem Cache.setObj_modified (c : Cache) (k : Key) (o : Obj) : (c.setObj k o).modified = c.modified := rfl
@[simp] theorem Cache.push_objs (c : Cache) (k : Key) : (c.push k).objs = c.objs := rfl
@[simp] theorem Cache.push_queue (c : Cache) (k : Key) : (c.push k).queue = c.queue ++ [some k] := rfl
@[simp] theorem Cache.push_added (c : Cache) (k : Key) : (c.push k).added = c.added := rfl
@[simp] theorem Cache.push_removed (c : Cache) (k : Key) : (c.push k).removed = c.removed := rfl
@[simp] theorem Cache.clearSlot_objs (c : Cache) (k : Key) : (c.clearSlot k).objs = c.objs := rfl
@[simp] theorem Cache.clearSlot_added (c : Cache) (k : Key) : (c.clearSlot k).added = c.added := rfl
@[simp] theorem Cache.clearSlot_removed (c : Cache) (k : Key) : (c.clearSlot k).removed = c.removed := rfl
@[simp] theorem Cache.clearSlot_modified (c : Cache) (k : Key) : (c.clearSlot k).modified = c.modified := rfl

theorem insertRow_eq (vals : Row) : insertRow vals = vals := by
  funext c; unfold insertRow; cases vals c <;> rfl

/-! ### the row the session stands for -/

/-- the `rows` part of `abs` -/
def absRow (w : World) (k : Key) : Option Row :=
  match w.cache.objs k with
  | none => w.txn.rows k
  | some o => match o.status with
    | .markedToDelete | .deleted | .cancelled => none
    | _ => some o.vals

theorem abs_rows (w : World) (k : Key) : (abs w).rows k = absRow w k := rfl
theorem abs_links (w : World) (l : Link) : (abs w).links l = member w l := rfl

/-- what the database holds for a cached object, by status -/
def ObjOk (txn : Db) (k : Key) (o : Obj) : Prop :=
  match o.status with
  | .loaded | .inserted | .updated => txn.rows k = some o.vals
  | .modified => ∃ row, txn.rows k = some row ∧ ∀ c, c ∉ o.wbits → row c = o.vals c
  | .created | .deleted | .cancelled => txn.rows k = none
  | .markedToDelete => True

/-- the part of the invariant that also holds in the middle of a flush, relative to the part `q` of the queue that is
    still to be processed -/
structure InvQ (w : World) (q : List (Option Key)) : Prop where
  objs : ∀ k o, w.cache.objs k = some o → ObjOk w.txn k o
  queueMem : ∀ k, some k ∈ q → ∃ o, w.cache.objs k = some o ∧ o.status.pending = true
  queueNodup : (q.filterMap id).Nodup
  pendingQueued : ∀ k o, w.cache.objs k = some o → o.status.pending = true → some k ∈ q

/-- the session invariant -/
structure Inv (w : World) : Prop where
  q : InvQ w w.cache.queue
  clean : w.cache.modified = false →
    (∀ k o, w.cache.objs k = some o → o.status.pending = false) ∧ w.cache.added = [] ∧ w.cache.removed = []
  addedFresh : ∀ l, l ∈ w.cache.added → w.txn.links l = false
  addedNodup : w.cache.added.Nodup
  removedIn : ∀ l, l ∈ w.cache.removed → w.txn.links l = true

/-- nothing is pending: the transaction view is the session's view -/
def Clean (w : World) : Prop :=
  (∀ k o, w.cache.objs k = some o → o.status.pending = false) ∧ w.cache.added = [] ∧ w.cache.removed = []

theorem abs_eq_txn_of_clean {w : World} (hi : ∀ k o, w.cache.objs k = some o → ObjOk w.txn k o) (hc : Clean w) :
    abs w = w.txn := by
  apply Db.ext'
  · intro k
    rw [abs_rows]; unfold absRow
    cases ho : w.cache.objs k with
    | none => rfl
    | some o =>
      have h1 := hi k o ho
      have h2 := hc.1 k o ho
      unfold ObjOk at h1
      cases hs : o.status <;> simp [hs, Status.pending] at h1 h2 ⊢ <;> simp [h1]
  · intro l
    rw [abs_links]; unfold member
    simp [hc.2.1, hc.2.2]

/-! ### one lemma per `_save_*_` -/

/-- INSERT: the row written by `_save_created_` is the object's current values -/
theorem save_created {w : World} {k : Key} {o : Obj} (ho : w.cache.objs k = some o) (hs : o.status = .created)
    (hrow : w.txn.rows k = none) :
    saveObj k w = .ok ({ w with txn := w.txn.setRow k (some o.vals)
                                cache := w.cache.setObj k { o with status := .inserted, wbits := [] } }, [.insert k o.vals]) := by
  unfold saveObj; simp [ho, hs, hrow, insertRow_eq]

/-- UPDATE: after `_save_updated_` the row is the object's current values, provided the unwritten columns already agreed -/
theorem updateRow_eq {row vals : Row} {cols : List Nat} (h : ∀ c, c ∉ cols → row c = vals c) :
    updateRow row cols vals = vals := by
  funext c; unfold updateRow
  by_cases hc : c ∈ cols
  · simp [hc]
  · simp [hc, h c hc]

theorem save_deleted {w : World} {k : Key} {o : Obj} (ho : w.cache.objs k = some o) (hs : o.status = .markedToDelete) :
    saveObj k w = .ok ({ w with txn := w.txn.setRow k none
                                cache := w.cache.setObj k { o with status := .deleted } }, [.delete k]) := by
  unfold saveObj; simp [ho, hs]

/-- the effect of `_save_` on a pending object, for all three statements at once: the database row of `k` becomes the
    object's abstract row, the object becomes clean, nothing else changes -/
theorem saveObj_spec {w : World} {k : Key} {q : List (Option Key)} (h : InvQ w (some k :: q)) :
    ∃ w' ws, saveObj k w = .ok (w', ws) ∧ InvQ w' q ∧ (∀ k', absRow w' k' = absRow w k') ∧
      w'.txn.links = w.txn.links ∧ w'.committed = w.committed ∧ w'.cache.queue = w.cache.queue ∧
      w'.cache.added = w.cache.added ∧ w'.cache.removed = w.cache.removed ∧ w'.cache.modified = w.cache.modified ∧
      w'.txn.rows k = absRow w k := by
  obtain ⟨o, ho, hp⟩ := h.queueMem k (by simp)
  have hok := h.objs k o ho
  have hnd : some k ∉ q := by
    have := h.queueNodup
    simp only [List.filterMap_cons, id] at this
    intro hm
    have : k ∈ q.filterMap id := by simp [List.mem_filterMap]; exact hm
    simp_all
  have hnd' : (q.filterMap id).Nodup := by
    have := h.queueNodup
    simp only [List.filterMap_cons, id] at this
    exact (List.nodup_cons.mp this).2
  unfold ObjOk at hok
  cases hs : o.status <;> simp [hs, Status.pending] at hp hok
  · -- created
    refine ⟨_, _, save_created ho hs hok, ⟨?_, ?_, hnd', ?_⟩, ?_, rfl, rfl, rfl, rfl, rfl, rfl, ?_⟩
    · intro k' o' ho'
      by_cases hk : k' = k
      · subst hk; simp at ho'; subst ho'; simp [ObjOk]
      · simp [hk] at ho'; have := h.objs k' o' ho'; unfold ObjOk at this ⊢; simpa [hk] using this
    · intro k' hk'
      have hk : k' ≠ k := by rintro rfl; exact hnd hk'
      obtain ⟨o', ho', hp'⟩ := h.queueMem k' (by simp [hk'])
      exact ⟨o', by simp [hk, ho'], hp'⟩
    · intro k' o' ho' hp'
      by_cases hk : k' = k
      · subst hk; simp at ho'; subst ho'; simp [Status.pending] at hp'
      · simp [hk] at ho'
        have := h.pendingQueued k' o' ho' hp'
        simpa [hk] using this
    · intro k'
      unfold absRow
      by_cases hk : k' = k
      · subst hk; simp [ho, hs]
      · simp [hk]
    · simp [absRow, ho, hs]
  · -- modified
    obtain ⟨row, hrow, hagree⟩ := hok
    by_cases hw : o.wbits.isEmpty
    · have hvals : row = o.vals := by
        funext c; apply hagree; simp [List.isEmpty_iff.mp hw]
      refine ⟨{ w with cache := w.cache.setObj k { o with status := .updated } }, [], ?_, ⟨?_, ?_, hnd', ?_⟩, ?_, rfl, rfl, rfl, rfl, rfl, rfl, ?_⟩
      · unfold saveObj; simp [ho, hs, hw]
      · intro k' o' ho'
        by_cases hk : k' = k
        · subst hk; simp at ho'; subst ho'; simp [ObjOk, hrow, hvals]
        · simp [hk] at ho'; exact h.objs k' o' ho'
      · intro k' hk'
        have hk : k' ≠ k := by rintro rfl; exact hnd hk'
        obtain ⟨o', ho', hp'⟩ := h.queueMem k' (by simp [hk'])
        exact ⟨o', by simp [hk, ho'], hp'⟩
      · intro k' o' ho' hp'
        by_cases hk : k' = k
        · subst hk; simp at ho'; subst ho'; simp [Status.pending] at hp'
        · simp [hk] at ho'
          have := h.pendingQueued k' o' ho' hp'
          simpa [hk] using this
      · intro k'
        unfold absRow
        by_cases hk : k' = k
        · subst hk; simp [ho, hs]
        · simp [hk]
      · simp [absRow, ho, hs, hrow, hvals]
    · refine ⟨{ w with txn := w.txn.setRow k (some (updateRow row o.wbits o.vals))
                       cache := w.cache.setObj k { o with status := .updated, wbits := [] } },
              [.update k o.wbits o.vals], ?_, ⟨?_, ?_, hnd', ?_⟩, ?_, rfl, rfl, rfl, rfl, rfl, rfl, ?_⟩
      · unfold saveObj; simp [ho, hs, hw, hrow]
      · intro k' o' ho'
        by_cases hk : k' = k
        · subst hk; simp at ho'; subst ho'; simp [ObjOk, updateRow_eq hagree]
        · simp [hk] at ho'; have := h.objs k' o' ho'; unfold ObjOk at this ⊢; simpa [hk] using this
      · intro k' hk'
        have hk : k' ≠ k := by rintro rfl; exact hnd hk'
        obtain ⟨o', ho', hp'⟩ := h.queueMem k' (by simp [hk'])
        exact ⟨o', by simp [hk, ho'], hp'⟩
      · intro k' o' ho' hp'
        by_cases hk : k' = k
        · subst hk; simp at ho'; subst ho'; simp [Status.pending] at hp'
        · simp [hk] at ho'
          have := h.pendingQueued k' o' ho' hp'
          simpa [hk] using this
      · intro k'
        unfold absRow
        by_cases hk : k' = k
        · subst hk; simp [ho, hs]
        · simp [hk]
      · simp [absRow, ho, hs, updateRow_eq hagree]
  · -- marked_to_delete
    refine ⟨_, _, save_deleted ho hs, ⟨?_, ?_, hnd', ?_⟩, ?_, rfl, rfl, rfl, rfl, rfl, rfl, ?_⟩
    · intro k' o' ho'
      by_cases hk : k' = k
      · subst hk; simp at ho'; subst ho'; simp [ObjOk]
      · simp [hk] at ho'; have := h.objs k' o' ho'; unfold ObjOk at this ⊢; simpa [hk] using this
    · intro k' hk'
      have hk : k' ≠ k := by rintro rfl; exact hnd hk'
      obtain ⟨o', ho', hp'⟩ := h.queueMem k' (by simp [hk'])
      exact ⟨o', by simp [hk, ho'], hp'⟩
    · intro k' o' ho' hp'
      by_cases hk : k' = k
      · subst hk; simp at ho'; subst ho'; simp [Status.pending] at hp'
      · simp [hk] at ho'
        have := h.pendingQueued k' o' ho' hp'
        simpa [hk] using this
    · intro k'
      unfold absRow
      by_cases hk : k' = k
      · subst hk; simp [ho, hs]
      · simp [hk]
    · simp [absRow, ho, hs]

/-- the queue loop: every pending object is written, the session's view of every row is unchanged -/
theorem saveQueue_spec : ∀ (q : List (Option Key)) (w : World), InvQ w q →
    ∃ w' ws, saveQueue q w = .ok (w', ws) ∧ InvQ w' [] ∧ (∀ k', absRow w' k' = absRow w k') ∧
      w'.txn.links = w.txn.links ∧ w'.committed = w.committed ∧ w'.cache.queue = w.cache.queue ∧
      w'.cache.added = w.cache.added ∧ w'.cache.removed = w.cache.removed ∧ w'.cache.modified = w.cache.modified
  | [], w, h => ⟨w, [], rfl, h, fun _ => rfl, rfl, rfl, rfl, rfl, rfl, rfl⟩
  | none :: q, w, h => by
    have h' : InvQ w q := ⟨h.objs, fun k hk => h.queueMem k (by simp [hk]), by simpa using h.queueNodup,
      fun k o ho hp => by simpa using h.pendingQueued k o ho hp⟩
    obtain ⟨w', ws, e, r⟩ := saveQueue_spec q w h'
    exact ⟨w', ws, by simp [saveQueue, e], r⟩
  | some k :: q, w, h => by
    obtain ⟨w1, ws1, e1, h1, a1, l1, c1, q1, ad1, rm1, m1, _⟩ := saveObj_spec h
    obtain ⟨w2, ws2, e2, h2, a2, l2, c2, q2, ad2, rm2, m2⟩ := saveQueue_spec q w1 h1
    refine ⟨w2, ws1 ++ ws2, by simp [saveQueue, e1, e2], h2, fun k' => (a2 k').trans (a1 k'), l2.trans l1, c2.trans c1,
      q2.trans q1, ad2.trans ad1, rm2.trans rm1, m2.trans m1⟩

/-- when nothing is pending, the transaction view of every row is the session's view of it -/
theorem rows_eq_absRow_of_no_pending {w : World} (h : InvQ w []) (k : Key) : w.txn.rows k = absRow w k := by
  unfold absRow
  cases ho : w.cache.objs k with
  | none => rfl
  | some o =>
    have h1 := h.objs k o ho
    have h2 : o.status.pending = false := by
      cases hp : o.status.pending
      · rfl
      · have := h.pendingQueued k o ho hp; simp at this
    unfold ObjOk at h1
    cases hs : o.status <;> simp [hs, Status.pending] at h1 h2 ⊢ <;> simp [h1]

/-- the order of the row writes is immaterial: any two enumerations of the pending objects (the queue order of the model, the
    principal-first order of `_save_principal_objects_`, ...) are both accepted and leave the same rows and link rows -/
theorem saveQueue_order_irrelevant {w : World} {q1 q2 : List (Option Key)} (h1 : InvQ w q1) (h2 : InvQ w q2) :
    ∃ w1 ws1 w2 ws2, saveQueue q1 w = .ok (w1, ws1) ∧ saveQueue q2 w = .ok (w2, ws2) ∧
      (∀ k, w1.txn.rows k = w2.txn.rows k) ∧ w1.txn.links = w2.txn.links ∧
      (∀ k o, w1.cache.objs k = some o → o.status.pending = false) ∧
      (∀ k o, w2.cache.objs k = some o → o.status.pending = false) := by
  obtain ⟨w1, ws1, e1, i1, a1, l1, _⟩ := saveQueue_spec q1 w h1
  obtain ⟨w2, ws2, e2, i2, a2, l2, _⟩ := saveQueue_spec q2 w h2
  refine ⟨w1, ws1, w2, ws2, e1, e2, ?_, l1.trans l2.symm, ?_, ?_⟩
  · intro k
    rw [rows_eq_absRow_of_no_pending i1 k, rows_eq_absRow_of_no_pending i2 k, a1 k, a2 k]
  · intro k o ho
    cases hp : o.status.pending
    · rfl
    · have := i1.pendingQueued k o ho hp; simp at this
  · intro k o ho
    cases hp : o.status.pending
    · rfl
    · have := i2.pendingQueued k o ho hp; simp at this

/-! ### the many-to-many lemma -/

/-- `add_m2m` of fresh, distinct pairs succeeds and adds exactly these link rows -/
theorem addLinks_spec : ∀ (ls : List Link) (d : Db), (∀ l, l ∈ ls → d.links l = false) → ls.Nodup →
    ∃ d', addLinks d ls = .ok d' ∧ d'.rows = d.rows ∧ ∀ l, d'.links l = (d.links l || ls.contains l)
  | [], d, _, _ => ⟨d, rfl, rfl, by simp⟩
  | l :: ls, d, hf, hn => by
    have hl : d.links l = false := hf l (by simp)
    have hn' := List.nodup_cons.mp hn
    obtain ⟨d', e, r, hl'⟩ := addLinks_spec ls (d.setLink l true)
      (fun l' hm => by
        have : l' ≠ l := by rintro rfl; exact hn'.1 hm
        simp [this, hf l' (by simp [hm])]) hn'.2
    refine ⟨d', by simp [addLinks, hl, e], by simpa using r, ?_⟩
    intro l'
    rw [hl' l']
    by_cases h : l' = l
    · subst h; simp
    · simp [h]

/-! ### the flush theorem -/

/-- under the session invariant a flush always succeeds; afterwards nothing is pending, the invariant holds, the committed
    state is untouched and the logical database is unchanged: flushing is invisible to the program -/
theorem flushIfModified_spec {w : World} (h : Inv w) :
    ∃ w' ws, flushIfModified w = .ok (w', ws) ∧ Inv w' ∧ Clean w' ∧ abs w' = abs w ∧ w'.committed = w.committed := by
  unfold flushIfModified
  by_cases hm : w.cache.modified = true
  · simp only [hm, if_true]
    -- after _calc_modified_m2m and remove_m2m
    let w1 : World := { w with cache := { w.cache with added := [], removed := [] }
                               txn := removeLinks w.txn w.cache.removed }
    have hq1 : InvQ w1 w1.cache.queue := ⟨h.q.objs, h.q.queueMem, h.q.queueNodup, h.q.pendingQueued⟩
    obtain ⟨w2, ws, e2, h2, a2, l2, c2, q2, ad2, rm2, m2⟩ := saveQueue_spec w1.cache.queue w1 hq1
    have hfresh : ∀ l, l ∈ w.cache.added → w2.txn.links l = false := by
      intro l hl; rw [l2]; simp [w1, removeLinks, h.addedFresh l hl]
    obtain ⟨d, e3, r3, l3⟩ := addLinks_spec w.cache.added w2.txn hfresh h.addedNodup
    have hclean2 : ∀ k o, w2.cache.objs k = some o → o.status.pending = false := by
      intro k o ho
      cases hp : o.status.pending
      · rfl
      · have := h2.pendingQueued k o ho hp; simp at this
    refine ⟨{ w2 with txn := d, cache := { w2.cache with queue := [], modified := false } },
      w.cache.removed.map Write.unlink ++ ws ++ w.cache.added.map Write.link, ?_, ?_, ?_, ?_, ?_⟩
    · unfold flushCore; simp only []
      have e2' : saveQueue w.cache.queue w1 = .ok (w2, ws) := e2
      rw [e2']; simp only []; rw [e3]
    · refine ⟨⟨?_, by simp, by simp, ?_⟩, ?_, ?_, ?_, ?_⟩
      · intro k o ho
        have := h2.objs k o ho
        unfold ObjOk at this ⊢; simpa [r3] using this
      · intro k o ho hp
        have := hclean2 k o ho; simp [hp] at this
      · intro _; exact ⟨hclean2, by simp [ad2, w1], by simp [rm2, w1]⟩
      · intro l hl; simp [ad2, w1] at hl
      · simp [ad2, w1]
      · intro l hl; simp [rm2, w1] at hl
    · exact ⟨hclean2, by simp [ad2, w1], by simp [rm2, w1]⟩
    · apply Db.ext'
      · intro k
        rw [abs_rows, abs_rows]
        have : absRow { w2 with txn := d, cache := { w2.cache with queue := [], modified := false } } k = absRow w2 k := by
          unfold absRow; simp [r3]
        rw [this, a2 k]; rfl
      · intro l
        rw [abs_links, abs_links]
        unfold member
        simp [ad2, rm2, w1, l3 l, l2, removeLinks]
    · simp [c2, w1]
  · simp only [Bool.not_eq_true] at hm
    simp only [hm]
    obtain ⟨hc1, hc2, hc3⟩ := h.clean hm
    exact ⟨w, [], by simp, h, ⟨hc1, hc2, hc3⟩, rfl, rfl⟩

end PonyVerif.Model.SessStore
