/- helper lemmas for C31: a reported key reads back as the raw key it came from -/
import PonyVerif.Model.Report
import PonyVerif.Lemmas.Serial
namespace PonyVerif.Model.Report
open PonyVerif.Model.Serial

theorem decodePk_reducePk (a : List String) (ha : a ≠ []) : decodePk (reducePk a) = some a := by
  unfold decodePk reducePk
  rw [String.toList_ofList, decodeChars_reduceChars _ (by simpa using ha)]
  simp [List.map_map, Function.comp_def, String.ofList_toList]

theorem unKey_collKey (raw : List String) (h : raw ≠ []) : unKey (collKey raw) = some raw := by
  unfold collKey bagCollectionKey
  by_cases hl : raw.length > 1
  · simp [hl, unKey, decodePk_reducePk raw h]
  · match raw, h, hl with
    | [c], _, _ => simp [unKey]
    | _ :: _ :: _, _, hl => simp at hl

theorem filterMap_unKey_collKey : ∀ (ks : List (List String)), (∀ k ∈ ks, k ≠ []) → (ks.map collKey).filterMap unKey = ks
  | [], _ => rfl
  | k :: ks, h => by
    simp only [List.map_cons, List.filterMap_cons, unKey_collKey k (h k List.mem_cons_self)]
    rw [filterMap_unKey_collKey ks (fun x hx => h x (List.mem_cons_of_mem _ hx))]

theorem insertBy_perm (le : α → α → Bool) (x : α) : ∀ l : List α, (insertBy le x l).Perm (x :: l)
  | [] => List.Perm.refl _
  | y :: ys => by
    unfold insertBy
    split
    · exact List.Perm.refl _
    · exact ((insertBy_perm le x ys).cons y).trans (List.Perm.swap x y ys)

theorem sortBy_perm (le : α → α → Bool) : ∀ l : List α, (sortBy le l).Perm l
  | [] => List.Perm.refl _
  | x :: xs => (insertBy_perm le x _).trans ((sortBy_perm le xs).cons x)

end PonyVerif.Model.Report
