/-
  Lemmas for the concurrent memo protocol (C22): the C05 table invariant (`InvOn`: every entry is the cold value of some
  input, stored under that input's store key) is kept by every atomic step of every thread, and every value a thread returns
  is its own cold value.
-/
import PonyVerif.Model.SharedMemo
import PonyVerif.Lemmas.Memo
namespace PonyVerif.Model.SharedMemo
open PonyVerif.Model.Memo

variable {I K V : Type} [DecidableEq K]

def ThreadOK (m : Memo I K V) (th : Thread I V) : Prop :=
  (∀ x, x ∈ th.results → x.2 = m.compute x.1) ∧
  (match th.phase, th.todo with
   | .needStore v fill, i :: _ => v = m.compute i ∧ m.cacheable i = true ∧ fill = none
   | .needFill _, _ :: _ => False
   | _, _ => True)

omit [DecidableEq K] in
theorem finish_ok (m : Memo I K V) (th : Thread I V) (i : I) (rest : List I) (v : V)
    (h : ∀ x, x ∈ th.results → x.2 = m.compute x.1) (hv : v = m.compute i) : ThreadOK m (finish th i rest v) := by
  refine ⟨?_, by simp [finish]⟩
  intro x hx
  simp only [finish, List.mem_append, List.mem_singleton] at hx
  rcases hx with hx | hx
  · exact h x hx
  · subst hx; exact hv

omit [DecidableEq K] in
theorem afterMiss_ok (m : Memo I K V) (part : I → V) (th : Thread I V) (i : I) (rest : List I)
    (h : ∀ x, x ∈ th.results → x.2 = m.compute x.1) (htodo : th.todo = i :: rest) : ThreadOK m (afterMiss m false part th i rest) := by
  unfold afterMiss
  by_cases hc : m.cacheable i = true
  · simp only [hc, if_true, Bool.false_eq_true, if_false]
    exact ⟨h, by simp [htodo, hc]⟩
  · simp only [hc]
    exact finish_ok m th i rest _ h rfl

theorem tstep_ok (m : Memo I K V) (ht : Transparent m) (t : Table K V) (th : Thread I V)
    (hi : InvOn (fun _ => True) m t) (hth : ThreadOK m th) :
    InvOn (fun _ => True) m (tstep m t th).1 ∧ ThreadOK m (tstep m t th).2.1 := by
  unfold tstep tstepG
  cases htodo : th.todo with
  | nil => exact ⟨hi, hth⟩
  | cons i rest =>
    obtain ⟨hres, hph⟩ := hth
    simp only
    cases hphase : th.phase with
    | idle =>
      simp only
      cases hg : tget (m.key i) t with
      | none => exact ⟨hi, afterMiss_ok m m.compute th i rest hres htodo⟩
      | some v =>
        simp only
        by_cases ha : m.accept i v = true
        · simp only [ha, if_true]
          refine ⟨hi, finish_ok m th i rest v hres ?_⟩
          obtain ⟨j, _, hj1, hj2, hj3⟩ := hi _ (tget_mem hg)
          simp only at hj1 hj3
          subst hj3
          exact ht i j trivial trivial hj1.symm hj2 ha
        · simp only [ha]
          by_cases hp : m.popOnReject i v = true
          · simp only [hp, if_true]
            exact ⟨hi, hres, by simp⟩
          · simp only [hp]
            exact ⟨hi, afterMiss_ok m m.compute th i rest hres htodo⟩
    | needPop => exact ⟨inv_tdel _ m _ t hi, afterMiss_ok m m.compute th i rest hres htodo⟩
    | needFill w => exact absurd hph (by simp [hphase, htodo])
    | needStore v fill =>
      have hv : v = m.compute i ∧ m.cacheable i = true ∧ fill = none := by simpa [hphase, htodo] using hph
      obtain ⟨hv1, hv2, hv3⟩ := hv
      subst hv3
      have hv : v = m.compute i ∧ m.cacheable i = true := ⟨hv1, hv2⟩
      simp only
      refine ⟨?_, finish_ok m th i rest v hres hv.1⟩
      intro kv hkv
      simp only [tset] at hkv
      rcases List.mem_cons.mp hkv with rfl | h'
      · exact ⟨i, trivial, rfl, hv.2, hv.1⟩
      · exact hi kv (tdel_subset h')

def Inv (m : Memo I K V) (s : State I K V) : Prop := InvOn (fun _ => True) m s.table ∧ ∀ t, ThreadOK m (s.th t)

theorem step_inv (m : Memo I K V) (ht : Transparent m) (s : State I K V) (t : Nat) (h : Inv m s) : Inv m (step m s t).1 := by
  obtain ⟨h1, h2⟩ := tstep_ok m ht s.table (s.th t) h.1 (h.2 t)
  refine ⟨h1, fun x => ?_⟩
  by_cases hx : x = t
  · subst hx; simpa [step] using h2
  · simpa [step, hx] using h.2 x

theorem run_inv (m : Memo I K V) (ht : Transparent m) : ∀ (sched : List Nat) (s : State I K V), Inv m s → Inv m (run m s sched).1
  | [], _, h => h
  | t :: sched, s, h => by
    simp only [run]
    exact run_inv m ht sched _ (step_inv m ht s t h)

omit [DecidableEq K] in
theorem init_inv (m : Memo I K V) (progs : List (List I)) : Inv m (State.init progs : State I K V) :=
  ⟨inv_nil _ m, fun _ => ⟨by simp [State.init], by simp [State.init]⟩⟩

theorem runG_false (m : Memo I K V) : ∀ (sched : List Nat) (s : State I K V), runG m false m.compute s sched = run m s sched
  | [], _ => rfl
  | t :: sched, s => by
    simp only [runG, run]
    have : stepG m false m.compute s t = step m s t := rfl
    rw [this, runG_false m sched]

/-- a key that contains every field the miss branch reads (C05's criterion, `keyOf_eq_of_subset`) -/
theorem fieldMemo_transparent {W : Type} (fs ds : List Field) (hsub : ∀ d ∈ ds, d ∈ fs) (F : List Val → W) :
    Transparent (fieldMemo fs ds F) := by
  intro e e' _ _ hk _ _
  simp only [fieldMemo, plain] at hk ⊢
  rw [keyOf_eq_of_subset fs ds hsub e e' hk]

end PonyVerif.Model.SharedMemo
