/-
  Lemmas/RelUndo.lean — a failing user call is undone completely: running the trail
  (`for undo_func in reversed(undo_funcs): undo_func()`) restores every row of every object that existed before the call.
  (This is the relationship part of C13; C12 uses it to carry the invariant over failing calls.)
-/
import PonyVerif.Model.Rel
namespace PonyVerif.Model.Rel

/-- the rows of the objects `< k` and the object count coincide -/
def EqBelow (k : Nat) (t s : Store) : Prop :=
  t.n = s.n ∧ ∀ o, o < k → t.alive o = s.alive o ∧ t.ent o = s.ent o ∧ (∀ a, t.ref o a = s.ref o a) ∧ (∀ a x, t.mem o a x = s.mem o a x)

/-- the undo entry (re)writes the status of `p` -/
def writesAlive : Undo → ObjId → Prop
  | .status o _, p => p = o
  | .created n, p => p = n
  | _, _ => False

/-- some entry of the trail will rewrite the status of `o` -/
def Cov (t : List Undo) (o : ObjId) : Prop := ∃ e ∈ t, writesAlive e o

theorem Cov.cons {t : List Undo} {o : ObjId} (e : Undo) (h : Cov t o) : Cov (e :: t) o := by
  obtain ⟨e', he', hw⟩ := h; exact ⟨e', List.mem_cons_of_mem _ he', hw⟩

/-- `s'` agrees with `s` on the rows below `k`, except for statuses that the trail rewrites anyway -/
def Sim (k : Nat) (t : List Undo) (s s' : Store) : Prop :=
  s'.n = s.n ∧ ∀ o, o < k → s'.ent o = s.ent o ∧ (∀ a, s'.ref o a = s.ref o a) ∧ (∀ a x, s'.mem o a x = s.mem o a x) ∧
    (¬ Cov t o → s'.alive o = s.alive o)

theorem Sim.refl (k : Nat) (t : List Undo) (s : Store) : Sim k t s s := ⟨rfl, fun _ _ => ⟨rfl, fun _ => rfl, fun _ _ => rfl, fun _ => rfl⟩⟩

/-- running the trail from (a store similar to) the current store restores the rows of the objects that existed at the start -/
def Restores (s0 : Store) (st : St) : Prop :=
  ∀ s', Sim s0.n st.trail st.store s' → EqBelow s0.n (undoAll st.trail s') s0

/-- the relation between the state before and after a piece of a call: restorability is kept, the trail only grows -/
structure Step (s0 : Store) (st st' : St) : Prop where
  restores : Restores s0 st → Restores s0 st'
  ext : ∃ pre, st'.trail = pre ++ st.trail

theorem Step.refl (s0 : Store) (st : St) : Step s0 st st := ⟨id, [], rfl⟩

theorem Step.trans {s0 : Store} {st st1 st2 : St} (h1 : Step s0 st st1) (h2 : Step s0 st1 st2) : Step s0 st st2 := by
  refine ⟨fun h => h2.restores (h1.restores h), ?_⟩
  obtain ⟨p1, e1⟩ := h1.ext
  obtain ⟨p2, e2⟩ := h2.ext
  exact ⟨p2 ++ p1, by rw [e2, e1, List.append_assoc]⟩

theorem Cov.of_ext {t t' : List Undo} {o : ObjId} (h : ∃ pre, t' = pre ++ t) (hc : Cov t o) : Cov t' o := by
  obtain ⟨pre, rfl⟩ := h
  obtain ⟨e, he, hw⟩ := hc
  exact ⟨e, List.mem_append_right _ he, hw⟩

/-- a logged step: pushing `e` and moving to store `s1` -/
theorem Step.push {s0 : Store} {st : St} {s1 : Store} {e : Undo}
    (h : ∀ s'', Sim s0.n (e :: st.trail) s1 s'' → Sim s0.n st.trail st.store (undo1 s'' e)) :
    Step s0 st ((st.setStore s1).log e) := by
  refine ⟨?_, [e], rfl⟩
  intro hR s'' hsim
  exact hR _ (h s'' hsim)

/-- an unlogged step that is invisible below `s0.n` (or only changes a status the trail rewrites) -/
theorem Step.unlogged {s0 : Store} {st : St} {s1 : Store}
    (h : ∀ s'', Sim s0.n st.trail s1 s'' → Sim s0.n st.trail st.store s'') :
    Step s0 st (st.setStore s1) := by
  refine ⟨?_, [], rfl⟩
  intro hR s'' hsim
  exact hR _ (h s'' hsim)

/-! ### the primitive steps -/

section prims
variable {s0 : Store} {st : St}

theorem step_logRef (o : ObjId) (a : Attr) : Step s0 st (st.log (.ref o a (st.store.ref o a))) := by
  have := Step.push (s0 := s0) (st := st) (s1 := st.store) (e := .ref o a (st.store.ref o a)) (by
    intro s'' ⟨hn, hrows⟩
    refine ⟨hn, fun p hp => ?_⟩
    obtain ⟨h1, h2, h3, h4⟩ := hrows p hp
    refine ⟨h1, ?_, h3, ?_⟩
    · intro b; simp only [undo1, Store.setRef]; split
      · rename_i hc; obtain ⟨rfl, rfl⟩ := hc; rfl
      · exact h2 b
    · intro hc; exact h4 (fun hc' => hc (by
        obtain ⟨e, he, hw⟩ := hc'
        rcases List.mem_cons.mp he with rfl | he
        · cases hw
        · exact ⟨e, he, hw⟩)))
  simpa [St.setStore, St.log] using this

theorem step_setRef (o : ObjId) (a : Attr) (v : Option ObjId) :
    Step s0 st ((st.setStore (st.store.setRef o a v)).log (.ref o a (st.store.ref o a))) := by
  apply Step.push
  intro s'' ⟨hn, hrows⟩
  refine ⟨hn, fun p hp => ?_⟩
  obtain ⟨h1, h2, h3, h4⟩ := hrows p hp
  refine ⟨h1, ?_, h3, ?_⟩
  · intro b; simp only [undo1, Store.setRef]; split
    · rename_i hc; obtain ⟨rfl, rfl⟩ := hc; rfl
    · rename_i hc; have := h2 b; simp only [Store.setRef, if_neg hc] at this; exact this
  · intro hc; exact h4 (fun hc' => hc (by
      obtain ⟨e, he, hw⟩ := hc'
      rcases List.mem_cons.mp he with rfl | he
      · cases hw
      · exact ⟨e, he, hw⟩))

theorem step_memAdd (o : ObjId) (c : Attr) (x : ObjId) (hm : st.store.mem o c x = false) :
    Step s0 st ((st.setStore (st.store.setMem o c x true)).log (.memDel o c x)) := by
  apply Step.push
  intro s'' ⟨hn, hrows⟩
  refine ⟨hn, fun p hp => ?_⟩
  obtain ⟨h1, h2, h3, h4⟩ := hrows p hp
  refine ⟨h1, h2, ?_, ?_⟩
  · intro b y; simp only [undo1, Store.setMem]; split
    · rename_i hc; obtain ⟨rfl, rfl, rfl⟩ := hc; exact hm.symm
    · rename_i hc; have := h3 b y; simp only [Store.setMem, if_neg hc] at this; exact this
  · intro hc; exact h4 (fun hc' => hc (by
      obtain ⟨e, he, hw⟩ := hc'
      rcases List.mem_cons.mp he with rfl | he
      · cases hw
      · exact ⟨e, he, hw⟩))

theorem step_memDel (o : ObjId) (c : Attr) (x : ObjId) (hm : st.store.mem o c x = true) :
    Step s0 st ((st.setStore (st.store.setMem o c x false)).log (.memAdd o c x)) := by
  apply Step.push
  intro s'' ⟨hn, hrows⟩
  refine ⟨hn, fun p hp => ?_⟩
  obtain ⟨h1, h2, h3, h4⟩ := hrows p hp
  refine ⟨h1, h2, ?_, ?_⟩
  · intro b y; simp only [undo1, Store.setMem]; split
    · rename_i hc; obtain ⟨rfl, rfl, rfl⟩ := hc; exact hm.symm
    · rename_i hc; have := h3 b y; simp only [Store.setMem, if_neg hc] at this; exact this
  · intro hc; exact h4 (fun hc' => hc (by
      obtain ⟨e, he, hw⟩ := hc'
      rcases List.mem_cons.mp he with rfl | he
      · cases hw
      · exact ⟨e, he, hw⟩))

theorem step_row (o : ObjId) (c : Attr) (f : ObjId → Bool) :
    Step s0 st ((st.log (.row o c (st.store.mem o c))).setStore (st.store.setRow o c f)) := by
  have := Step.push (s0 := s0) (st := st) (s1 := st.store.setRow o c f) (e := .row o c (st.store.mem o c)) (by
    intro s'' ⟨hn, hrows⟩
    refine ⟨hn, fun p hp => ?_⟩
    obtain ⟨h1, h2, h3, h4⟩ := hrows p hp
    refine ⟨h1, h2, ?_, ?_⟩
    · intro b y; simp only [undo1, Store.setRow]; split
      · rename_i hc; obtain ⟨rfl, rfl⟩ := hc; rfl
      · rename_i hc; have := h3 b y; simp only [Store.setRow, if_neg hc] at this; exact this
    · intro hc; exact h4 (fun hc' => hc (by
        obtain ⟨e, he, hw⟩ := hc'
        rcases List.mem_cons.mp he with rfl | he
        · cases hw
        · exact ⟨e, he, hw⟩)))
  simpa [St.setStore, St.log] using this

theorem step_status (o : ObjId) (hal : st.store.alive o = true) : Step s0 st (st.log (.status o true)) := by
  have := Step.push (s0 := s0) (st := st) (s1 := st.store) (e := .status o true) (by
    intro s'' ⟨hn, hrows⟩
    refine ⟨hn, fun p hp => ?_⟩
    obtain ⟨h1, h2, h3, h4⟩ := hrows p hp
    refine ⟨h1, h2, h3, ?_⟩
    intro hc
    simp only [undo1, Store.setAlive]
    split
    · rename_i hpo; rw [hpo]; exact hal.symm
    · rename_i hpo
      exact h4 (fun hc' => hc (by
        obtain ⟨e, he, hw⟩ := hc'
        rcases List.mem_cons.mp he with rfl | he
        · exact absurd hw hpo
        · exact ⟨e, he, hw⟩)))
  simpa [St.setStore, St.log] using this

/-- the status write at the end of `_delete_`: covered by the entry pushed at its start -/
theorem step_kill (o : ObjId) (hc : Cov st.trail o) : Step s0 st (st.setStore (st.store.setAlive o false)) := by
  apply Step.unlogged
  intro s'' ⟨hn, hrows⟩
  refine ⟨hn, fun p hp => ?_⟩
  obtain ⟨h1, h2, h3, h4⟩ := hrows p hp
  refine ⟨h1, h2, h3, ?_⟩
  intro hnc
  have := h4 hnc
  simp only [Store.setAlive] at this
  split at this
  · rename_i hpo; rw [hpo] at hnc; exact absurd hc hnc
  · exact this

/-- an unlogged write to a row that did not exist when the call started (the object under construction) -/
theorem step_fresh_ref (o : ObjId) (a : Attr) (v : Option ObjId) (ho : s0.n ≤ o) : Step s0 st (st.setStore (st.store.setRef o a v)) := by
  apply Step.unlogged
  intro s'' ⟨hn, hrows⟩
  refine ⟨hn, fun p hp => ?_⟩
  obtain ⟨h1, h2, h3, h4⟩ := hrows p hp
  refine ⟨h1, ?_, h3, h4⟩
  intro b
  have := h2 b
  simp only [Store.setRef] at this
  rw [if_neg (by intro ⟨hpo, _⟩; rw [hpo] at hp; exact absurd hp (Nat.not_lt.mpr ho))] at this
  exact this

end prims

/-! ### the procedures -/

section procs
variable {sch : Schema} {s0 : Store}

theorem step_bind {st : St} {r : Res} {g : St → Res} (h1 : Step s0 st r.st)
    (h2 : ∀ st1, r = .ok st1 → Step s0 st1 (g st1).st) : Step s0 st (r.bind g).st := by
  cases r with
  | ok st1 => exact h1.trans (h2 st1 rfl)
  | err e st1 => exact h1

theorem step_iter {α : Type} {f : α → St → Res} (hf : ∀ x st, Step s0 st (f x st).st) :
    ∀ (xs : List α) (st : St), Step s0 st (iter f xs st).st := by
  intro xs
  induction xs with
  | nil => intro st; exact Step.refl _ _
  | cons x xs ih => intro st; exact step_bind (hf x st) (fun st1 _ => ih st1)

theorem step_reverseAdd1 (c : Attr) (item obj : ObjId) (st : St) : Step s0 st (reverseAdd1 c item obj st).st := by
  unfold reverseAdd1
  split
  · exact Step.refl _ _
  · rename_i hm; exact step_memAdd obj c item (by simpa using hm)

theorem step_reverseRemove1 (c : Attr) (item obj : ObjId) (st : St) : Step s0 st (reverseRemove1 c item obj st).st := by
  unfold reverseRemove1
  split
  · rename_i hm; exact step_memDel obj c item hm
  · exact Step.refl _ _

theorem step_reverseAdd (c : Attr) (objs : List ObjId) (item : ObjId) (st : St) : Step s0 st (reverseAdd c objs item st).st :=
  step_iter (fun obj st => step_reverseAdd1 c item obj st) objs st

theorem step_reverseRemove (c : Attr) (objs : List ObjId) (item : ObjId) (st : St) : Step s0 st (reverseRemove c objs item st).st :=
  step_iter (fun obj st => step_reverseRemove1 c item obj st) objs st

theorem step_attrClearRev (o : ObjId) (a : Attr) (st : St) : Step s0 st (attrClearRev sch o a st).st := by
  unfold attrClearRev
  split
  · exact Step.refl _ _
  · split
    · split
      · exact Step.refl _ _
      · split
        · rename_i hnone
          have := step_logRef (s0 := s0) (st := st) o a
          rw [hnone] at this; exact this
        · rename_i u hu
          have h1 := step_setRef (s0 := s0) (st := st) o a none
          rw [hu] at h1
          simp only
          split
          · exact h1.trans (step_reverseRemove _ _ _ _)
          · exact h1
    · exact Step.refl _ _

theorem step_attrSetRev (o : ObjId) (a : Attr) (x : ObjId) (st : St) : Step s0 st (attrSetRev sch o a x st).st := by
  unfold attrSetRev
  split
  · exact Step.refl _ _
  · split
    · simp only
      split
      · exact step_logRef o a
      · have h1 := step_setRef (s0 := s0) (st := st) o a (some x)
        split
        · exact h1
        · split
          · exact h1.trans (step_reverseRemove _ _ _ _)
          · split
            · exact h1
            · split
              · exact h1
              · exact h1.trans (step_attrClearRev _ _ _)
    · exact Step.refl _ _

theorem step_rewriteRow_rev (o : ObjId) (c : Attr) (f : ObjId → Bool) (st : St) : Step s0 st (rewriteRow true o c f st) := by
  unfold rewriteRow; exact step_row o c f

/-- `Set.__set__`: restorable whenever it was called with an undo list, or failed -/
theorem step_setCollCore {del : ObjId → St → Res} (hdel : ∀ x st, Step s0 st (del x st).st) (isRev : Bool) (o : ObjId) (c : Attr)
    (items : List ObjId) (st : St) (res : Res) (hres : setCollCore sch del isRev o c items st = res)
    (hcond : isRev = true ∨ ∃ e st', res = .err e st') : Step s0 st res.st := by
  unfold setCollCore at hres
  split at hres
  · rw [← hres]; exact Step.refl _ _
  · split at hres
    · rename_i d rd _ _
      simp only at hres
      split at hres
      · rw [← hres]; exact Step.refl _ _
      · generalize hr : (if (!rd.isColl) = true then _ else _ : Res) = r at hres
        have hstep : Step s0 st r.st := by
          rw [← hr]
          split
          · apply step_bind
            · split
              · exact step_iter hdel _ _
              · exact step_iter (fun item st => step_attrClearRev item _ st) _ _
            · intro st1 _; exact step_iter (fun item st => step_attrSetRev item _ o st) _ _
          · apply step_bind (step_reverseRemove _ _ _ _)
            intro st1 _; exact step_reverseAdd _ _ _ _
        cases r with
        | err e st1 => rw [← hres]; exact hstep
        | ok st1 =>
          simp only [Res.bind] at hres
          rw [← hres]
          rcases hcond with rfl | ⟨e, st', habs⟩
          · exact hstep.trans (step_rewriteRow_rev _ _ _ _)
          · rw [← hres] at habs; cases habs
    · rw [← hres]; exact Step.refl _ _

/-- the status write at the end of `_delete_` together with its undo entry -/
theorem step_killL {st : St} (o : ObjId) (hal : st.store.alive o = true) :
    Step s0 st ((st.setStore (st.store.setAlive o false)).log (.status o true)) := by
  apply Step.push
  intro s'' ⟨hn, hrows⟩
  refine ⟨hn, fun p hp => ?_⟩
  obtain ⟨h1, h2, h3, h4⟩ := hrows p hp
  refine ⟨h1, h2, h3, ?_⟩
  intro hc
  simp only [undo1, Store.setAlive]
  split
  · rename_i hpo; rw [hpo]; exact hal.symm
  · rename_i hpo
    have h5 := h4 (fun hc' => hc (by
      obtain ⟨e, he, hw⟩ := hc'
      rcases List.mem_cons.mp he with rfl | he
      · exact absurd hw hpo
      · exact ⟨e, he, hw⟩))
    simp only [Store.setAlive, if_neg hpo] at h5
    exact h5

/-- `Entity._delete_` -/
theorem step_delete : ∀ (fuel : Nat) (o : ObjId) (st : St), Step s0 st (delete sch fuel o st).st := by
  intro fuel
  induction fuel with
  | zero => intro o st; simp only [delete]; exact Step.refl _ _
  | succ fuel ih =>
    intro o st
    simp only [delete]
    split
    · exact Step.refl _ _
    · apply step_bind
      · apply step_bind
        · apply step_iter
          intro c s
          split
          · split
            · exact Step.refl _ _
            · split
              · exact Step.refl _ _
              · split
                · exact step_iter (fun x st => ih x st) _ _
                · split
                  · exact step_setCollCore (fun x st => ih x st) true o c [] s _ rfl (Or.inl rfl)
                  · exact Step.refl _ _
          · exact Step.refl _ _
        · intro st1 _
          apply step_iter
          intro a s
          split
          · split
            · exact Step.refl _ _
            · split
              · exact Step.refl _ _
              · split
                · split
                  · exact ih _ _
                  · split
                    · split
                      · exact step_attrClearRev _ _ _
                      · exact Step.refl _ _
                    · exact Step.refl _ _
                · exact step_reverseRemove _ _ _ _
          · exact Step.refl _ _
      · intro stB _
        split
        · exact Step.refl _ _
        · rename_i hal; exact step_killL o (by simpa using hal)

theorem step_updateReverse (fuel : Nat) (d rd : Side) (o : ObjId) (a : Attr) (old v : Option ObjId) (st : St) :
    Step s0 st (updateReverse sch fuel d rd o a old v st).st := by
  unfold updateReverse
  split
  · apply step_bind
    · split
      · exact Step.refl _ _
      · split
        · exact Step.refl _ _
        · split
          · exact step_delete _ _ _
          · split
            · exact Step.refl _ _
            · exact step_attrClearRev _ _ _
    · intro st1 _
      split
      · exact Step.refl _ _
      · exact step_attrSetRev _ _ _ _
  · apply step_bind
    · split
      · exact Step.refl _ _
      · exact step_reverseRemove _ _ _ _
    · intro st1 _
      split
      · exact Step.refl _ _
      · exact step_reverseAdd _ _ _ _

theorem step_attrSetTop (fuel : Nat) (o : ObjId) (a : Attr) (v : Option ObjId) (st : St) :
    Step s0 st (attrSetTop sch fuel o a v st).st := by
  unfold attrSetTop
  split
  · exact Step.refl _ _
  · split
    · split
      · exact Step.refl _ _
      · simp only
        split
        · exact step_logRef o a
        · exact (step_setRef o a v).trans (step_updateReverse _ _ _ _ _ _ _ _)
    · exact Step.refl _ _

/-- `SetInstance.add`: its last step has no undo, but then the call has succeeded -/
theorem step_collAdd (o : ObjId) (c : Attr) (items : List ObjId) (st : St) (res : Res)
    (hres : collAdd sch o c items st = res) (hcond : ∃ e st', res = .err e st') : Step s0 st res.st := by
  unfold collAdd at hres
  split at hres
  · rw [← hres]; exact Step.refl _ _
  · split at hres
    · rename_i d rd _ _
      simp only at hres
      generalize hr : (if (!rd.isColl) = true then _ else _ : Res) = r at hres
      have hstep : Step s0 st r.st := by
        rw [← hr]
        split
        · exact step_iter (fun item st => step_attrSetRev item _ o st) _ _
        · exact step_reverseAdd _ _ _ _
      cases r with
      | err e st1 => rw [← hres]; exact hstep
      | ok st1 =>
        simp only [Res.bind] at hres
        obtain ⟨e, st', habs⟩ := hcond
        rw [← hres] at habs; cases habs
    · rw [← hres]; exact Step.refl _ _

theorem step_collRemove (fuel : Nat) (o : ObjId) (c : Attr) (items : List ObjId) (st : St) (res : Res)
    (hres : collRemove sch fuel o c items st = res) (hcond : ∃ e st', res = .err e st') : Step s0 st res.st := by
  unfold collRemove at hres
  split at hres
  · rw [← hres]; exact Step.refl _ _
  · split at hres
    · rename_i d rd _ _
      simp only at hres
      generalize hr : (if (!rd.isColl) = true then _ else _ : Res) = r at hres
      have hstep : Step s0 st r.st := by
        rw [← hr]
        split
        · split
          · exact step_iter (fun x st => step_delete _ x st) _ _
          · exact step_iter (fun item st => step_attrClearRev item _ st) _ _
        · exact step_reverseRemove _ _ _ _
      cases r with
      | err e st1 => rw [← hres]; exact hstep
      | ok st1 =>
        simp only [Res.bind] at hres
        obtain ⟨e, st', habs⟩ := hcond
        rw [← hres] at habs; cases habs
    · rw [← hres]; exact Step.refl _ _

theorem step_alloc (e : EntId) (st : St) (hn : st.store.n = s0.n) :
    Step s0 st ((st.setStore (st.store.alloc e)).log (.created st.store.n)) := by
  apply Step.push
  intro s'' ⟨hn'', hrows⟩
  refine ⟨rfl, fun p hp => ?_⟩
  obtain ⟨h1, h2, h3, h4⟩ := hrows p hp
  have hpn : p ≠ st.store.n := by rw [hn]; exact Nat.ne_of_lt hp
  refine ⟨?_, ?_, ?_, ?_⟩
  · have : (if p = st.store.n then e else st.store.ent p) = st.store.ent p := if_neg hpn
    rw [← this]; exact h1
  · intro b
    have : (if p = st.store.n then none else st.store.ref p b) = st.store.ref p b := if_neg hpn
    rw [← this]; exact h2 b
  · intro b y
    have : (if p = st.store.n then false else st.store.mem p b y) = st.store.mem p b y := if_neg hpn
    rw [← this]; exact h3 b y
  · intro hc
    have hc' : ¬ Cov (Undo.created st.store.n :: st.trail) p := by
      intro ⟨e', he', hw⟩
      rcases List.mem_cons.mp he' with rfl | he'
      · exact hpn hw
      · exact hc ⟨e', he', hw⟩
    have h5 := h4 hc'
    have e1 : (undo1 s'' (Undo.created st.store.n)).alive p = s''.alive p := by
      show (if p = st.store.n then false else s''.alive p) = s''.alive p
      exact if_neg hpn
    have e2 : (st.store.alloc e).alive p = st.store.alive p := by
      show (if p = st.store.n then true else st.store.alive p) = st.store.alive p
      exact if_neg hpn
    rw [e1, h5, e2]

theorem step_create (fuel : Nat) (e : EntId) (vals : List (Attr × Val)) (st : St) (hn : st.store.n = s0.n) :
    Step s0 st (create sch fuel e vals st).st := by
  unfold create
  simp only
  split
  · exact Step.refl _ _
  · refine (step_alloc e st hn).trans ?_
    apply step_iter
    intro a s
    split
    · split
      · exact (step_fresh_ref _ _ _ (by rw [hn]; exact Nat.le_refl _)).trans (step_updateReverse _ _ _ _ _ _ _ _)
      · exact step_setCollCore (fun x st => step_delete _ x st) true _ _ _ _ _ rfl (Or.inl rfl)
    · exact Step.refl _ _

/-- every user call that fails leaves a trail that restores the rows of all objects that existed before -/
theorem run1_err_restores {op : Op} {e : Err} {st : St} (h : run1 sch op { store := s0 } = .err e st) :
    EqBelow s0.n (undoAll st.trail st.store) s0 := by
  have hinit : Restores s0 { store := s0 } := by
    intro s' ⟨hn, hrows⟩
    refine ⟨hn, fun o ho => ?_⟩
    obtain ⟨h1, h2, h3, h4⟩ := hrows o ho
    exact ⟨h4 (by intro ⟨_, he, _⟩; cases he), h1, h2, h3⟩
  have hstep : Step s0 { store := s0 } st := by
    have key : ∀ res, run1 sch op { store := s0 } = res → (∃ e st', res = .err e st') → Step s0 { store := s0 } res.st := by
      intro res hres hcond
      unfold run1 at hres
      simp only at hres
      cases op with
      | setRef o a v =>
        simp only at hres
        split at hres
        · rw [← hres]; exact Step.refl _ _
        · split at hres
          · rw [← hres]; exact Step.refl _ _
          · split at hres
            · rw [← hres]; exact step_attrSetTop _ _ _ _ _
            · split at hres
              · rw [← hres]; exact Step.refl _ _
              · rw [← hres]; exact step_attrSetTop _ _ _ _ _
      | setColl o c items =>
        simp only at hres
        split at hres
        · rw [← hres]; exact Step.refl _ _
        · split at hres
          · rw [← hres]; exact Step.refl _ _
          · split at hres
            · rw [← hres]; exact Step.refl _ _
            · exact step_setCollCore (fun x st => step_delete _ x st) false _ _ _ _ _ hres (Or.inr hcond)
      | add o c items =>
        simp only at hres
        split at hres
        · rw [← hres]; exact Step.refl _ _
        · split at hres
          · rw [← hres]; exact Step.refl _ _
          · split at hres
            · rw [← hres]; exact Step.refl _ _
            · exact step_collAdd _ _ _ _ _ hres hcond
      | remove o c items =>
        simp only at hres
        split at hres
        · rw [← hres]; exact Step.refl _ _
        · split at hres
          · rw [← hres]; exact Step.refl _ _
          · split at hres
            · rw [← hres]; exact Step.refl _ _
            · exact step_collRemove _ _ _ _ _ _ hres hcond
      | clear o c =>
        simp only at hres
        split at hres
        · rw [← hres]; exact Step.refl _ _
        · exact step_setCollCore (fun x st => step_delete _ x st) false _ _ _ _ _ hres (Or.inr hcond)
      | create e vals =>
        simp only at hres
        split at hres
        · rw [← hres]; exact Step.refl _ _
        · rw [← hres]; exact step_create _ _ _ _ rfl
      | delete o =>
        simp only at hres
        split at hres
        · rw [← hres]; exact step_delete _ _ _
        · rw [← hres]; exact Step.refl _ _
    exact key _ h ⟨e, st, rfl⟩
  exact hstep.restores hinit st.store (Sim.refl _ _ _)

end procs
end PonyVerif.Model.Rel
