/-
  C04 — assembling the round trip by structural recursion over the expression.
-/
import PonyVerif.Lemmas.PyPrint5
namespace PonyVerif.Model.PyPrint

mutual
theorem goals_expr : (e : Expr) → Ok e → PGoal e ∧ EGoal e
  | .name s, _ => goals_name s
  | .const s, _ => goals_const s
  | .negConst s, _ => ⟨PGoal_vacuous _ (by simp [codePrio]), negConst_goals s⟩
  | .fstr ps, _ => goals_fstr ps
  | .boolOp o a b m, h => by
      simp only [Ok] at h
      exact ⟨PGoal_vacuous _ (by cases o <;> simp [codePrio]),
        boolOp_goals o a b m (goals_expr a h.1).2 (goals_expr b h.2.1).2 (goals_es m h.2.2)⟩
  | .not e, h => by
      simp only [Ok] at h
      exact ⟨PGoal_vacuous _ (by simp [codePrio]), not_goals e (goals_expr e h).2⟩
  | .compare l op r m, h => by
      simp only [Ok] at h
      exact ⟨PGoal_vacuous _ (by simp [codePrio]),
        compare_goals l op r m (goals_expr l h.1).2 (goals_expr r h.2.1).2 (goals_cmp m h.2.2)⟩
  | .bin op l r, h => by
      simp only [Ok] at h
      refine ⟨PGoal_vacuous _ (by have := op.prio_ge3; simp only [codePrio]; omega), ?_⟩
      by_cases hp : op = .pow
      · subst hp; exact pow_goals l r (goals_expr l h.1).2 (goals_expr r h.2).2
      · exact bin_goals op l r hp (goals_expr l h.1).2 (goals_expr r h.2).2
  | .unary op e, h => by
      simp only [Ok] at h
      exact ⟨PGoal_vacuous _ (by simp [codePrio]), unary_goals op e (goals_expr e h).2⟩
  | .ifExp b t o, h => by
      simp only [Ok] at h
      exact ⟨PGoal_vacuous _ (by simp [codePrio]),
        ifExp_goals b t o (goals_expr b h.1).2 (goals_expr t h.2.1).2 (goals_expr o h.2.2).2⟩
  | .lambda ps b, h => by
      simp only [Ok] at h
      exact ⟨PGoal_vacuous _ (by simp [codePrio]), lambda_goals ps b (goals_params ps h.1) (goals_expr b h.2).2⟩
  | .attr e a, h => by
      simp only [Ok] at h
      exact attr_goals e a (goals_expr e h).1 (goals_expr e h).2
  | .call f a, h => by
      simp only [Ok] at h
      exact call_goals f a (goals_expr f h.1).1 (goals_expr f h.1).2 (goals_args a h.2)
  | .subscript e i, h => by
      simp only [Ok] at h
      exact subscript_goals e i (goals_expr e h.1).1 (goals_expr e h.1).2 (goals_idx i h.2)
  | .subscriptT e .nil, h => by
      simp [Ok, Idxs.isNil] at h
  | .subscriptT e (.cons i t), h => by
      simp only [Ok, OkIdxs] at h
      exact subscriptT_goals e i t (goals_expr e h.1).1 (goals_expr e h.1).2 (goals_idx i h.2.1.1) (goals_idxs t h.2.1.2)
  | .list a, h => by
      simp only [Ok] at h
      exact list_goals a (goals_items a h)
  | .tuple .nil, _ => tuple_nil_goals
  | .tuple (.pos e t), h => by
      simp only [Ok, OkItems] at h
      exact tuple_pos_goals e t (goals_expr e h.1).2 (goals_items t h.2)
  | .tuple (.star e t), h => by
      simp only [Ok, OkItems] at h
      exact tuple_star_goals e t (goals_expr e h.1).2 h.2.1 (goals_items t h.2.2)
  | .tuple (.kw n e t), h => by simp [Ok, OkItems] at h
  | .tuple (.dstar e t), h => by simp [Ok, OkItems] at h
  | .dict k, h => by
      simp only [Ok] at h
      exact dict_goals k (goals_kvs k h)
theorem goals_es : (m : Exprs) → OkEs m → EsGoal m
  | .nil, _ => EsGoal_nil
  | .cons e t, h => by
      simp only [OkEs] at h
      exact EsGoal_cons e t (goals_expr e h.1).2 (goals_es t h.2)
theorem goals_cmp : (m : CmpTail) → OkCmp m → CmpGoal m
  | .nil, _ => CmpGoal_nil
  | .cons op e t, h => by
      simp only [OkCmp] at h
      exact CmpGoal_cons op e t (goals_expr e h.1).2 (goals_cmp t h.2)
theorem goals_args : (a : Args) → OkArgs a → ArgsGoal a
  | .nil, _ => ArgsGoal_nil
  | .pos e t, h => by
      simp only [OkArgs] at h
      exact ArgsGoal_pos e t (goals_expr e h.1).2 (goals_args t h.2)
  | .star e t, h => by
      simp only [OkArgs] at h
      exact ArgsGoal_star e t (goals_expr e h.1).2 (goals_args t h.2)
  | .kw n e t, h => by
      simp only [OkArgs] at h
      exact ArgsGoal_kw n e t (goals_expr e h.1).2 (goals_args t h.2)
  | .dstar e t, h => by
      simp only [OkArgs] at h
      exact ArgsGoal_dstar e t (goals_expr e h.1).2 (goals_args t h.2)
theorem goals_items : (a : Args) → OkItems a → ItemsGoal a
  | .nil, _ => ItemsGoal_nil
  | .pos e t, h => by
      simp only [OkItems] at h
      exact ItemsGoal_pos e t (goals_expr e h.1).2 (goals_items t h.2)
  | .star e t, h => by
      simp only [OkItems] at h
      exact ItemsGoal_star e t (goals_expr e h.1).2 h.2.1 (goals_items t h.2.2)
  | .kw n e t, h => by simp [OkItems] at h
  | .dstar e t, h => by simp [OkItems] at h
theorem goals_opt : (o : OptE) → OkOpt o → OptGoal o
  | .none, _ => OptGoal_none
  | .some e, h => by
      simp only [OkOpt] at h
      exact OptGoal_some e (goals_expr e h).2
theorem goals_idx : (i : Idx) → OkIdx i → IdxGoal i
  | .ie e, h => by
      simp only [OkIdx] at h
      exact IdxGoal_ie e (goals_expr e h).2
  | .sl a b c, h => by
      simp only [OkIdx] at h
      exact IdxGoal_sl a b c (goals_opt a h.1) (goals_opt b h.2.1) (goals_opt c h.2.2)
theorem goals_idxs : (is : Idxs) → OkIdxs is → IdxsGoal is
  | .nil, _ => IdxsGoal_nil
  | .cons i t, h => by
      simp only [OkIdxs] at h
      exact IdxsGoal_cons i t (goals_idx i h.1) (goals_idxs t h.2)
theorem goals_params : (ps : Params) → OkParams ps → ParamsGoal ps
  | .nil, _ => ParamsGoal_nil
  | .plain n t, h => by
      simp only [OkParams] at h
      exact ParamsGoal_plain n t (goals_params t h)
  | .dflt n e t, h => by
      simp only [OkParams] at h
      exact ParamsGoal_dflt n e t (goals_expr e h.1).2 (goals_params t h.2)
  | .var n t, h => by
      simp only [OkParams] at h
      exact ParamsGoal_var n t (goals_params t h)
  | .kwvar n t, h => by
      simp only [OkParams] at h
      exact ParamsGoal_kwvar n t (goals_params t h)
theorem goals_kvs : (k : KVs) → OkKVs k → KVsGoal k
  | .nil, _ => KVsGoal_nil
  | .cons k v t, h => by
      simp only [OkKVs] at h
      exact KVsGoal_cons k v t (goals_expr k h.1).2 (goals_expr v h.2.1).2 (goals_kvs t h.2.2)
end

/-- the reference parser reads back, as one whole expression, what the printer model writes -/
theorem roundtrip (e : Expr) (h : Ok e) (fuel : Nat) (hf : cost e + 20 ≤ fuel) :
    parseFuel fuel (toks e) = some (norm e) := by
  have := (goals_expr e h).2 16 [] fuel (codePrio_le e) (by omega) (by omega) trivial hf
  simp only [List.append_nil] at this
  simp [parseFuel, this]

end PonyVerif.Model.PyPrint
