/-
  Lemmas/RelSet.lean — reference assignment (`Attribute.__set__` called by the user, `update_reverse`) preserves `Agree`.
-/
import PonyVerif.Lemmas.RelOps
namespace PonyVerif.Model.Rel

section setref
variable {sch : Schema}

/-- the cell `(o, a)` whose new value may still lack its mirror -/
def Pending (o : ObjId) (a : Attr) : ObjId → Attr → Prop := fun p b => p = o ∧ b = a

/-- closing step of a one-to-one assignment: `reverse.__set__(new_val, obj, undo_funcs)` supplies the missing mirror -/
theorem setRev_closes {o x : ObjId} {a : Attr} {d rd : Side} {s2 : Store}
    (ha : sch.side a = some d) (hd : d.isColl = false) (hra : sch.side (sch.rev a) = some rd) (hrd : rd.isColl = false)
    (hD : D sch s2 (Pending o a)) (hR : Range s2) (ho : o < s2.n) (hx : x < s2.n) (hox : s2.ref o a = some x)
    (hxal : s2.alive x = true) :
    Agree sch (setRevStore sch s2 x (sch.rev a) o) ∧ Range (setRevStore sch s2 x (sch.rev a) o) ∧
      (∀ p b q, hasB sch (setRevStore sch s2 x (sch.rev a) o) p b q = true →
          hasB sch s2 p b q = true ∨ (p = x ∧ b = sch.rev a ∧ q = o)) := by
  have hrr := sch.rev_rev a
  have ha' : sch.side (sch.rev (sch.rev a)) = some d := by rw [hrr]; exact ha
  have hF := frame_setRev (sch := sch) (s := s2) x (sch.rev a) o
  have e1 := hasB_ref_eq (sch := sch) (s := s2) ha hd
  have e2 := hasB_ref_eq (sch := sch) (s := s2) hra hrd
  have hica : sch.isCollAttr a = false := by simp [Schema.isCollAttr, ha, hd]
  refine ⟨?_, ?_, ?_⟩
  rotate_left 2
  · intro p b q hh
    rw [has_setRev_o2o hra hrd ha' hd] at hh
    grind
  · intro p b q hp hal hh
    rw [hF.n] at hp; rw [hF.alive] at hal
    rw [has_setRev_o2o hra hrd ha' hd] at hh ⊢
    have a1 := hD p b q hp hal
    have a2 := hD x (sch.rev a) p hx hxal
    have a3 := hD x (sch.rev a) q hx hxal
    rw [hrr] at hh ⊢ a2 a3
    simp only [Pending] at a1 a2 a3
    grind [Schema.rev_rev, Schema.rev_inj]
  · have hsub : ∀ p b y, (setRevStore sch s2 x (sch.rev a) o).ref p b = some y → s2.ref p b = some y ∨ y = o := by
      intro p b y hy
      unfold setRevStore at hy
      split at hy
      · exact Or.inl hy
      · cases hu : s2.ref x (sch.rev a) with
        | none => simp only [hu, Store.setRef] at hy; grind
        | some u =>
          simp only [hu] at hy
          split at hy
          · simp only [Store.setRef, Store.setMem] at hy; grind
          · split at hy
            · simp only [Store.setRef] at hy; grind
            · rw [ref_clearRev] at hy; simp only [Store.setRef] at hy; grind
    refine ⟨?_, ?_⟩
    · intro p b y hp hy
      rw [hF.n] at hp ⊢
      rcases hsub p b y hy with h' | h'
      · exact hR.1 p b y hp h'
      · rw [h']; exact ho
    · intro p b y hp hy
      rw [hF.n] at hp ⊢
      exact hR.2 p b y hp (mem_setRev _ _ _ _ _ _ hy)

theorem range_setRef {s : Store} {o : ObjId} {a : Attr} {v : Option ObjId} (hR : Range s) (hv : ∀ x, v = some x → x < s.n) :
    Range (s.setRef o a v) := by
  refine ⟨?_, ?_⟩
  · intro p b y hp hy
    simp only [Store.setRef] at hp hy ⊢
    split at hy
    · exact hv y hy
    · exact hR.1 p b y hp hy
  · intro p b y hp hy
    exact hR.2 p b y hp hy

/-- one-to-one: after `o.a := v` and the treatment of the previous partner only `(o, a, v)` may lack its mirror -/
theorem updateReverse_old_o2o {fuel : Nat} {o : ObjId} {a : Attr} {v : Option ObjId} {d rd : Side} {s0 : Store} {st1 st2 : St}
    (hdel : DelSpec sch (fun x => delete sch fuel x))
    (ha : sch.side a = some d) (hd : d.isColl = false) (hra : sch.side (sch.rev a) = some rd) (hrd : rd.isColl = false)
    (hs1 : st1.store = s0.setRef o a v) (hne : s0.ref o a ≠ v)
    (ho : o < s0.n) (hoal : s0.ref o a ≠ none → s0.alive o = true) (hv : ∀ x, v = some x → x < s0.n) (hA : Agree sch s0) (hR : Range s0)
    (h : (match s0.ref o a with
          | none => Res.ok st1
          | some u =>
            if u = o ∧ sch.rev a = a then .ok st1
            else if d.cascade then delete sch fuel u st1
            else if rd.required then .err .constraintError st1
            else attrClearRev sch u (sch.rev a) st1) = .ok st2) :
    D sch st2.store (Pending o a) ∧ Range st2.store ∧ (st2.store.n = s0.n ∧ st2.store.ent = s0.ent) ∧
      (∀ x, v = some x → st2.store.alive x = true → st2.store.ref o a = some x) ∧ (v = none → st2.store.ref o a = none) ∧
      (∀ p b q, hasB sch st2.store p b q = true → hasB sch s0 p b q = true ∨ (p = o ∧ b = a ∧ v = some q)) := by
  have hrr := sch.rev_rev a
  have ha' : sch.side (sch.rev (sch.rev a)) = some d := by rw [hrr]; exact ha
  have hica : sch.isCollAttr a = false := by simp [Schema.isCollAttr, ha, hd]
  have hicra : sch.isCollAttr (sch.rev a) = false := by simp [Schema.isCollAttr, hra, hrd]
  have e1 := hasB_ref_eq (sch := sch) (s := s0) ha hd
  have e2 := hasB_ref_eq (sch := sch) (s := s0) hra hrd
  have hR1 : Range st1.store := hs1 ▸ range_setRef hR hv
  have href1 : st1.store.ref o a = v := by rw [hs1]; simp [Store.setRef]
  have hnew1 : ∀ p b q, hasB sch st1.store p b q = true → hasB sch s0 p b q = true ∨ (p = o ∧ b = a ∧ v = some q) := by
    intro p b q hh
    rw [hs1, hasB_setRef ha hd] at hh
    grind
  -- `D` right after the write, tolerating the stale reference of the previous partner `u`
  have hD1 : ∀ u, s0.ref o a = some u → D sch st1.store (fun p b => Pending o a p b ∨ p = u) := by
    intro u hu p b q hp hal hh
    rw [hs1] at hp hal hh ⊢
    simp only [Store.setRef] at hp hal
    rw [hasB_setRef ha hd] at hh ⊢
    have a1 := hA p b q hp hal
    simp only [Pending]
    grind [Schema.rev_rev, Schema.rev_inj]
  cases hu : s0.ref o a with
  | none =>
    rw [hu] at h; cases h
    refine ⟨?_, hR1, ⟨by rw [hs1]; rfl, by rw [hs1]; rfl⟩, ?_, ?_, ?_⟩
    · intro p b q hp hal hh
      rw [hs1] at hp hal hh ⊢
      simp only [Store.setRef] at hp hal
      rw [hasB_setRef ha hd] at hh ⊢
      have a1 := hA p b q hp hal
      simp only [Pending]
      grind [Schema.rev_rev, Schema.rev_inj]
    · intro x hx _; rw [href1, hx]
    · intro hx; rw [href1, hx]
    · exact hnew1
  | some u =>
    rw [hu] at h
    simp only at h
    split at h
    · -- self link under a symmetric attribute
      rename_i hself
      cases h
      refine ⟨?_, hR1, ⟨by rw [hs1]; rfl, by rw [hs1]; rfl⟩, ?_, ?_, ?_⟩
      · intro p b q hp hal hh
        rw [hs1] at hp hal hh ⊢
        simp only [Store.setRef] at hp hal
        rw [hasB_setRef ha hd] at hh ⊢
        have a1 := hA p b q hp hal
        simp only [Pending]
        grind [Schema.rev_rev, Schema.rev_inj]
      · intro x hx _; rw [href1, hx]
      · intro hx; rw [href1, hx]
      · exact hnew1
    · rename_i hself
      split at h
      · -- cascade: the previous partner is deleted
        have hu1 : u < st1.store.n := by rw [hs1]; exact hR.1 o a u ho hu
        obtain ⟨hD2, hS2, hC2, hdead⟩ := hdel u st1 st2 _ (fun w => w = u) h hu1 hR1 (hD1 u hu)
        refine ⟨?_, hS2.range hR1, ⟨by rw [hS2.n, hs1]; rfl, by rw [hS2.ent, hs1]; rfl⟩, ?_, ?_, fun p b q hh => hnew1 p b q (hS2.has hh)⟩
        · intro p b q hp hal hh
          rcases hD2 p b q hp hal hh with h' | ⟨h' | h', hb⟩
          · exact Or.inl h'
          · exact Or.inr ⟨h', hb⟩
          · rw [h', hdead] at hal; cases hal
        · intro x hx hxal
          have := hC2 o a x (by rw [href1, hx])
          have hux : u ≠ x := by intro e; apply hne; rw [hu, hx, e]
          grind
        · intro hx
          rcases hS2.ref o a with e | e
          · rw [e, href1, hx]
          · exact e
      · split at h
        · cases h
        · -- the previous partner's reference is cleared
          obtain ⟨hs2, _, _⟩ := attrClearRev_ok h
          have hF := frame_clearRev (sch := sch) (s := st1.store) u (sch.rev a)
          refine ⟨?_, ?_, ⟨by rw [hs2, hF.n, hs1]; rfl, by rw [hs2, hF.ent, hs1]; rfl⟩, ?_, ?_, ?_⟩
          rotate_left 4
          · intro p b q hh
            rw [hs2, has_clearRev_o2o hra hrd ha' hd] at hh
            exact hnew1 p b q hh.1
          · intro p b q hp hal hh
            rw [hs2] at hp hal hh ⊢
            rw [hF.n] at hp; rw [hF.alive] at hal
            rw [hs1] at hp hal
            simp only [Store.setRef] at hp hal
            rw [has_clearRev_o2o hra hrd ha' hd, hs1, hasB_setRef ha hd] at hh ⊢
            have a1 := hA p b q hp hal
            have a2 := hA o a u ho (hoal (by rw [hu]; simp))
            simp only [Pending]
            grind [Schema.rev_rev, Schema.rev_inj]
          · rw [hs2]
            refine ⟨?_, ?_⟩
            · intro p b y hp hy
              rw [hF.n] at hp ⊢
              rw [ref_clearRev] at hy
              split at hy
              · cases hy
              · exact hR1.1 p b y hp hy
            · intro p b y hp hy
              rw [hF.n] at hp ⊢
              exact hR1.2 p b y hp (mem_clearRev _ _ _ _ _ hy)
          · intro x hx _
            rw [hs2, ref_clearRev, if_neg, href1, hx]
            intro ⟨e1', e2'⟩
            apply hself
            exact ⟨e1'.symm, e2'.symm⟩
          · intro hx
            rw [hs2, ref_clearRev]
            split
            · rfl
            · rw [href1, hx]

/-- `Attribute.update_reverse` after `obj._vals_[attr] = new_val` -/
theorem updateReverse_ok {fuel : Nat} {o : ObjId} {a : Attr} {old v : Option ObjId} {d rd : Side} {s0 : Store} {st1 st' : St}
    (hdel : DelSpec sch (fun x => delete sch fuel x))
    (h : updateReverse sch fuel d rd o a old v st1 = .ok st')
    (ha : sch.side a = some d) (hd : d.isColl = false) (hra : sch.side (sch.rev a) = some rd)
    (hs1 : st1.store = s0.setRef o a v) (hold : old = s0.ref o a) (hne : s0.ref o a ≠ v)
    (ho : o < s0.n) (hoal : s0.ref o a ≠ none → s0.alive o = true) (hv : ∀ x, v = some x → x < s0.n) (hA : Agree sch s0) (hR : Range s0) :
    Agree sch st'.store ∧ Range st'.store ∧ st'.store.n = s0.n ∧ st'.store.ent = s0.ent ∧ NewLinks sch s0 st'.store o a (v = some ·) := by
  subst hold
  unfold updateReverse at h
  have hrr := sch.rev_rev a
  split at h
  · -- one-to-one
    rename_i hcoll
    have hrd : rd.isColl = false := by simpa using hcoll
    obtain ⟨st2, h1, h2⟩ := Res.bind_ok h
    obtain ⟨hD2, hR2, hn2, hvx, hvn, hnew2⟩ := updateReverse_old_o2o hdel ha hd hra hrd hs1 hne ho hoal hv hA hR h1
    cases hvv : v with
    | none =>
      rw [hvv] at h2; cases h2
      refine ⟨?_, hR2, hn2.1, hn2.2, fun p b q hh => by have := hnew2 p b q hh; rw [hvv] at this; exact this.imp id (fun h => Or.inl h)⟩
      intro p b q hp hal hh
      rcases hD2 p b q hp hal hh with h' | ⟨⟨rfl, rfl⟩, _⟩
      · exact h'
      · have := hvn hvv
        rw [hasB_ref_eq ha hd, this] at hh; simp at hh
    | some x =>
      rw [hvv] at h2
      simp only at h2
      obtain ⟨hs3, hxal, _⟩ := attrSetRev_ok h2
      have hx2 : x < st2.store.n := by rw [hn2.1]; exact hv x hvv
      have ho2 : o < st2.store.n := by rw [hn2.1]; exact ho
      obtain ⟨hA3, hR3, hnew3⟩ := setRev_closes ha hd hra hrd hD2 hR2 ho2 hx2 (hvx x hvv hxal) hxal
      rw [hs3]
      refine ⟨hA3, hR3, by rw [(frame_setRev _ _ _).n, hn2.1], by rw [(frame_setRev _ _ _).ent, hn2.2], ?_⟩
      intro p b q hh
      rcases hnew3 p b q hh with h' | ⟨rfl, rfl, rfl⟩
      · have := hnew2 p b q h'; rw [hvv] at this; exact this.imp id (fun h => Or.inl h)
      · exact Or.inr (Or.inr ⟨rfl, rfl, rfl⟩)
  · -- many-to-one
    rename_i hcoll
    have hrd : rd.isColl = true := by simpa using hcoll
    have hnea : a ≠ sch.rev a := Schema.ne_of_kinds ha hra (by simp [hd, hrd])
    obtain ⟨st2, h1, h2⟩ := Res.bind_ok h
    have e1 := hasB_ref_eq (sch := sch) (s := s0) ha hd
    have e2 := hasB_coll_eq (sch := sch) (s := s0) hra hrd
    -- the store after the treatment of the previous owner
    have hst2 : ∃ s2, st2.store = s2 ∧
        ((s0.ref o a = none ∧ s2 = s0.setRef o a v) ∨
         (∃ u, s0.ref o a = some u ∧ s0.mem u (sch.rev a) o = true ∧ s2 = (s0.setRef o a v).setMem u (sch.rev a) o false)) := by
      cases hu : s0.ref o a with
      | none => rw [hu] at h1; cases h1; exact ⟨_, rfl, Or.inl ⟨rfl, hs1⟩⟩
      | some u =>
        rw [hu] at h1
        obtain ⟨hm, hs⟩ := reverseRemove1_ok (iter_single_ok h1)
        rw [hs1] at hm hs
        exact ⟨_, rfl, Or.inr ⟨u, rfl, by simpa [Store.setRef] using hm, hs⟩⟩
    obtain ⟨s2, hs2, hcase⟩ := hst2
    have hst3 : (v = none ∧ st'.store = s2) ∨ (∃ x, v = some x ∧ s2.mem x (sch.rev a) o = false ∧ st'.store = s2.setMem x (sch.rev a) o true) := by
      cases hvv : v with
      | none => rw [hvv] at h2; cases h2; exact Or.inl ⟨rfl, hs2⟩
      | some x =>
        rw [hvv] at h2
        obtain ⟨hm, hs⟩ := reverseAdd1_ok (iter_single_ok h2)
        rw [hs2] at hm hs
        exact Or.inr ⟨x, rfl, hm, hs⟩
    refine ⟨?_, ?_, ?_, ?_, ?_⟩
    · intro p b q hp hal hh
      have a1 := hA p b q
      have a2 := hA o a
      rcases hcase with ⟨hu, rfl⟩ | ⟨u, hu, hmu, rfl⟩ <;> rcases hst3 with ⟨hvv, hs3⟩ | ⟨x, hvv, hmx, hs3⟩ <;>
        rw [hs3] at hp hal hh ⊢ <;> simp only [Store.setMem, Store.setRef] at hp hal <;>
        (try rw [hasB_setMem hra hrd] at hh ⊢) <;> (try rw [hasB_setMem hra hrd] at hh ⊢) <;>
        rw [hasB_setRef ha hd] at hh ⊢ <;> grind [Schema.rev_rev, Schema.rev_inj]
    · have hRs := hR
      rcases hcase with ⟨hu, rfl⟩ | ⟨u, hu, hmu, rfl⟩ <;> rcases hst3 with ⟨hvv, hs3⟩ | ⟨x, hvv, hmx, hs3⟩ <;>
        rw [hs3] <;> refine ⟨?_, ?_⟩ <;> intro p b y hp hy <;> simp only [Store.setMem, Store.setRef] at hp hy ⊢ <;>
        have r1 := hR.1 p b y hp <;> have r2 := hR.2 p b y hp <;> have r3 := hv y <;> grind
    · rcases hcase with ⟨hu, rfl⟩ | ⟨u, hu, hmu, rfl⟩ <;> rcases hst3 with ⟨hvv, hs3⟩ | ⟨x, hvv, hmx, hs3⟩ <;> rw [hs3] <;> rfl
    · rcases hcase with ⟨hu, rfl⟩ | ⟨u, hu, hmu, rfl⟩ <;> rcases hst3 with ⟨hvv, hs3⟩ | ⟨x, hvv, hmx, hs3⟩ <;> rw [hs3] <;> rfl
    · intro p b q hh
      rcases hcase with ⟨hu, rfl⟩ | ⟨u, hu, hmu, rfl⟩ <;> rcases hst3 with ⟨hvv, hs3⟩ | ⟨x, hvv, hmx, hs3⟩ <;>
        rw [hs3] at hh <;>
        (try rw [hasB_setMem hra hrd] at hh) <;> (try rw [hasB_setMem hra hrd] at hh) <;>
        rw [hasB_setRef ha hd] at hh <;> grind

/-- `Attribute.__set__` called by the user -/
theorem attrSetTop_ok {fuel : Nat} {o : ObjId} {a : Attr} {v : Option ObjId} {st st' : St} {d : Side}
    (hdel : DelSpec sch (fun x => delete sch fuel x))
    (h : attrSetTop sch fuel o a v st = .ok st') (ha : sch.side a = some d) (hd : d.isColl = false)
    (ho : o < st.store.n) (hv : ∀ x, v = some x → x < st.store.n) (hA : Agree sch st.store) (hR : Range st.store) :
    Agree sch st'.store ∧ Range st'.store ∧ st'.store.n = st.store.n ∧ st'.store.ent = st.store.ent ∧
      NewLinks sch st.store st'.store o a (v = some ·) := by
  unfold attrSetTop at h
  split at h
  · cases h
  · rename_i hal
    have hal' : st.store.alive o = true := by simpa using hal
    split at h
    · rename_i d' rd hd' hrd
      rw [ha] at hd'; cases hd'
      split at h
      · cases h
      · simp only at h
        split at h
        · cases h; exact ⟨hA, hR, rfl, rfl, fun _ _ _ hh => Or.inl hh⟩
        · rename_i hne
          exact updateReverse_ok hdel h ha hd hrd rfl rfl hne ho (fun _ => hal') hv hA hR
    · cases h

end setref
end PonyVerif.Model.Rel
