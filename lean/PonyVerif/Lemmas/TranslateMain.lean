/-
  The translation invariant of engine Q by structural induction on the expression (C01 / C02).
-/
import PonyVerif.Lemmas.Translate
namespace PonyVerif.Model.Q

theorem tr_ok (C : Cx) (hwt : WT C.sch C.env) (hL : LikeOK C.L C.d) : ∀ (e : Expr) (m : Monad),
    frag C.sch C.d e = true → tr C.sch C.d e = .ok m → Good C e m := by
  intro e
  induction e with
  | attr n =>
    intro m _ htr
    simp only [tr] at htr
    split at htr
    · rename_i t nl hsch
      injection htr with htr; subst htr
      refine ⟨?_, by simp [valueSorted, isAttr]⟩
      have hw := hwt.attr n t nl hsch
      refine ⟨C.env.col n, by simp [py], ?_, by simp [Cx.ev, eval, senv], ?_⟩
      · intro x hx; rw [hx] at hw; exact hw
      · intro hh hv
        rw [hv] at hw
        simp only [nn, hsch] at hh
        rcases hh with hh | hh <;> simp_all
    · cases htr
  | cInt i =>
    intro m _ htr
    simp only [tr] at htr; injection htr with htr; subst htr
    exact ⟨⟨some (.int i), by simp [py], by intro x hx; injection hx with hx; subst hx; simp [hasTy], by simp [Cx.ev, eval, litVal, encV, encS], by simp⟩,
      by simp [valueSorted]⟩
  | cStr i =>
    intro m _ htr
    simp only [tr] at htr; injection htr with htr; subst htr
    exact ⟨⟨some (.str i), by simp [py], by intro x hx; injection hx with hx; subst hx; simp [hasTy], by simp [Cx.ev, eval, litVal, encV, encS], by simp⟩,
      by simp [valueSorted]⟩
  | cBool i =>
    intro m _ htr
    simp only [tr] at htr; injection htr with htr; subst htr
    exact ⟨⟨some (.bool i), by simp [py], by intro x hx; injection hx with hx; subst hx; simp [hasTy],
        by cases h : C.d.isPg <;> simp [Cx.ev, eval, litVal, encV, encS, h, boolInt], by simp⟩,
      by simp [valueSorted]⟩
  | cNone => intro m hf _; simp [frag] at hf
  | param n =>
    intro m _ htr
    simp only [tr] at htr
    split at htr
    · rename_i t hsch
      injection htr with htr; subst htr
      exact ⟨⟨some (C.env.par n), by simp [py], by intro x hx; injection hx with hx; subst hx; exact hwt.par n t hsch,
        by simp [Cx.ev, eval, senv, encV], by simp⟩, by simp [valueSorted]⟩
    · cases htr
  | cmp op l r ihl ihr => sorry
  | inList ng x items ih => sorry
  | like k ng pat x ih => sorry
  | and l r ihl ihr => sorry
  | or l r ihl ihr => sorry
  | not x ih => sorry
  | bin op l r ihl ihr => sorry
  | neg x ih => sorry
  | abs x ih => sorry
  | len x ih => sorry
  | ite c t e ihc iht ihe => sorry

end PonyVerif.Model.Q
