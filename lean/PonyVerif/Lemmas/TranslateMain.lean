/-
  The translation invariant of engine Q by structural induction on the expression (C01 / C02).
-/
import PonyVerif.Lemmas.Translate
namespace PonyVerif.Model.Q

theorem cmpInit_vals (d : Dialect) (op : POp) (c1 : MCls) (t1 : Ty) (n1 : Bool) (s1 : Sql) (c2 : MCls) (t2 : Ty) (n2 : Bool) (s2 : Sql)
    (m : Monad) (ho : isIs op = false) (hcomp : comparable (MTy.ofTy t1) (MTy.ofTy t2) op = true)
    (h : cmpInit d op (.val c1 t1 n1 s1) (.val c2 t2 n2 s2) = .ok m) :
    m = .cmp op (coerceCmp d (MTy.ofTy t1) (MTy.ofTy t2) s1 s2).1 (coerceCmp d (MTy.ofTy t1) (MTy.ofTy t2) s1 s2).2 (n1 || n2) := by
  have hne1 : (MTy.ofTy t1 == MTy.none) = false := by cases t1 <;> rfl
  have hne2 : (MTy.ofTy t2 == MTy.none) = false := by cases t2 <;> rfl
  cases op <;> simp [isIs] at ho <;>
    simp [cmpInit, Monad.ty, hne1, hne2, hcomp, Monad.getsql, Monad.nullable] at h <;> exact h.symm

theorem tr_ok (C : Cx) (hwt : WT C.sch C.env) (hL : LikeOK C.L C.d) : ∀ (e : Expr) (m : Monad),
    frag C.sch C.d e = true → tr C.sch C.d e = .ok m → Good C e m := by
  intro e
  induction e with
  | attr n =>
    intro m _ htr
    simp only [tr] at htr
    split at htr
    · rename_i t nl hsch
      injection htr with htr; subst htr
      refine ⟨?_, by simp [valueSorted, isAttr]⟩
      have hw := hwt.attr n t nl hsch
      refine ⟨C.env.col n, by simp [py], ?_, by simp [Cx.ev, eval, senv], ?_⟩
      · intro x hx; rw [hx] at hw; exact hw
      · intro hh hv
        rw [hv] at hw
        simp only [nn, hsch] at hh
        rcases hh with hh | hh <;> simp_all
    · cases htr
  | cInt i =>
    intro m _ htr
    simp only [tr] at htr; injection htr with htr; subst htr
    exact ⟨⟨some (.int i), by simp [py], by intro x hx; injection hx with hx; subst hx; simp [hasTy], by simp [Cx.ev, eval, litVal, encV, encS], by simp⟩,
      by simp [valueSorted, isAttr]⟩
  | cStr i =>
    intro m _ htr
    simp only [tr] at htr; injection htr with htr; subst htr
    exact ⟨⟨some (.str i), by simp [py], by intro x hx; injection hx with hx; subst hx; simp [hasTy], by simp [Cx.ev, eval, litVal, encV, encS], by simp⟩,
      by simp [valueSorted, isAttr]⟩
  | cBool i =>
    intro m _ htr
    simp only [tr] at htr; injection htr with htr; subst htr
    exact ⟨⟨some (.bool i), by simp [py], by intro x hx; injection hx with hx; subst hx; simp [hasTy],
        by cases h : C.d.isPg <;> simp [Cx.ev, eval, litVal, encV, encS, h, boolInt], by simp⟩,
      by simp [valueSorted, isAttr]⟩
  | cNone => intro m hf _; simp [frag] at hf
  | param n =>
    intro m _ htr
    simp only [tr] at htr
    split at htr
    · rename_i t hsch
      injection htr with htr; subst htr
      exact ⟨⟨some (C.env.par n), by simp [py], by intro x hx; injection hx with hx; subst hx; exact hwt.par n t hsch,
        by simp [Cx.ev, eval, senv, encV], by simp⟩, by simp [valueSorted, isAttr]⟩
    · cases htr
  | cmp op l r ihl ihr =>
    intro m hf htr
    simp only [frag] at hf
    simp only [tr] at htr
    by_cases hrn : isNoneLit r = true
    · -- `l == None`, `l is None`, …
      have hr : r = .cNone := by cases r <;> simp_all [isNoneLit]
      subst hr
      simp only [isNoneLit, if_true, Bool.and_eq_true, Bool.not_eq_true'] at hf
      obtain ⟨⟨ho, hsl⟩, hfl⟩ := hf
      cases hl : tr C.sch C.d l with
      | error x => simp [hl] at htr
      | ok ml =>
        obtain ⟨c, t, n, s, rfl, _, v, hpy, hty, hev, hnn⟩ := (ihl ml hfl hl).val hsl
        simp only [hl, tr] at htr
        have hne : (MTy.ofTy t == MTy.none) = false := by cases t <;> rfl
        refine ⟨?_, ?_⟩
        · cases op <;> simp [isOrd] at ho <;>
            simp [cmpInit, Monad.ty, hne, comparable, coerceCmp, Monad.getsql, Monad.nullable] at htr <;> subst htr <;>
            simp only [MonadOK, Monad.getsql, cmpSql] <;>
            refine ⟨_, (by first | exact evc_isNull C _ _ hev | exact evc_isNotNull C _ _ hev), ?_, fun _ => ?_⟩ <;>
            simp [py, isNoneLit, hpy, PyR.asV, PyR.asK, encV_eq_null, bne, R.refl]
        · cases op <;> simp [isOrd] at ho <;>
            simp [cmpInit, Monad.ty, hne, comparable, coerceCmp] at htr <;> subst htr <;> simp [valueSorted, Monad.isCond]
    · have hrn' : isNoneLit r = false := by simpa using hrn
      by_cases hln : isNoneLit l = true
      · -- `None == r`, …
        have hl : l = .cNone := by cases l <;> simp_all [isNoneLit]
        subst hl
        simp only [hrn', Bool.false_eq_true, if_false] at hf
        simp only [isNoneLit, if_true, Bool.and_eq_true, Bool.not_eq_true'] at hf
        obtain ⟨⟨ho, hsr⟩, hfr⟩ := hf
        cases hr : tr C.sch C.d r with
        | error x => simp [hr, tr] at htr
        | ok mr =>
          obtain ⟨c, t, n, s, rfl, _, v, hpy, hty, hev, hnn⟩ := (ihr mr hfr hr).val hsr
          simp only [hr, tr] at htr
          have hne : (MTy.ofTy t == MTy.none) = false := by cases t <;> rfl
          refine ⟨?_, ?_⟩
          · cases op <;> simp [isOrd] at ho <;>
              simp [cmpInit, Monad.ty, hne, comparable, coerceCmp, Monad.getsql, Monad.nullable] at htr <;> subst htr <;>
              simp only [MonadOK, Monad.getsql, cmpSql] <;>
              refine ⟨_, (by first | exact evc_isNull C _ _ hev | exact evc_isNotNull C _ _ hev), ?_, fun _ => ?_⟩ <;>
              (simp only [py, hrn', Bool.false_eq_true, if_false]; simp [isNoneLit, hpy, PyR.asV, PyR.asK, encV_eq_null, bne, R.refl])
          · cases op <;> simp [isOrd] at ho <;>
              simp [cmpInit, Monad.ty, hne, comparable, coerceCmp] at htr <;> subst htr <;> simp [valueSorted, Monad.isCond]
      · have hln' : isNoneLit l = false := by simpa using hln
        simp only [hrn', hln', Bool.false_eq_true, if_false, Bool.and_eq_true, Bool.not_eq_true'] at hf
        obtain ⟨⟨⟨⟨⟨ho, hsl⟩, hsr⟩, hfl⟩, hfr⟩, hcl⟩ := hf
        cases hl : tr C.sch C.d l with
        | error x => simp [hl] at htr
        | ok ml =>
          cases hr : tr C.sch C.d r with
          | error x => simp [hl, hr] at htr
          | ok mr =>
            obtain ⟨c1, t1, n1, s1, rfl, _, v1, hpy1, hty1, hev1, hnn1⟩ := (ihl ml hfl hl).val hsl
            obtain ⟨c2, t2, n2, s2, rfl, _, v2, hpy2, hty2, hev2, hnn2⟩ := (ihr mr hfr hr).val hsr
            simp only [hl, hr] at htr
            rw [trTy_of_ok hl, trTy_of_ok hr] at hcl
            simp only [Monad.ty] at hcl
            have hne1 : (MTy.ofTy t1 == MTy.none) = false := by cases t1 <;> rfl
            have hne2 : (MTy.ofTy t2 == MTy.none) = false := by cases t2 <;> rfl
            have hcomp : ∀ o, comparable (MTy.ofTy t1) (MTy.ofTy t2) o = true ∨ isIs o = true := by
              intro o; cases t1 <;> cases t2 <;> cases o <;> simp_all [comparable, MTy.ofTy, sameClass, MTy.isNum, isIs]
            have hcv := fun o => cmp_vals_ok C o hev1 hev2 hty1 hty2 hcl
            have hpy : ∀ o, op.cmp? = some o → (py C.env (.cmp op l r)).asK = (match v1, v2 with
                | some a, some b => pyCmp o a b
                | _, _ => .unk) := by
              intro o ho'
              simp only [py, hrn', hln', Bool.false_eq_true, if_false, hpy1, hpy2, PyR.asV, ho']
              cases v1 <;> cases v2 <;> simp [PyR.asK]
            have hm := cmpInit_vals C.d op c1 t1 n1 s1 c2 t2 n2 s2 m ho ((hcomp op).resolve_right (by simp [ho])) htr
            subst hm
            refine ⟨?_, by simp [valueSorted, Monad.isCond]⟩
            simp only [MonadOK, Monad.getsql]
            cases op <;> simp [isIs] at ho <;> simp only [cmpSql] <;>
              exact ⟨_, hcv _, by rw [hpy _ rfl]; exact R.refl _, fun _ => by rw [hpy _ rfl]⟩
  | inList ng x items ih => sorry
  | like k ng pat x ih => sorry
  | and l r ihl ihr =>
    intro m hf htr
    simp only [frag, Bool.and_eq_true] at hf
    simp only [tr] at htr
    cases hl : tr C.sch C.d l with
    | error x => simp [hl] at htr
    | ok ml =>
      cases hr : tr C.sch C.d r with
      | error x => simp [hl, hr] at htr
      | ok mr =>
        simp only [hl, hr] at htr; injection htr with htr; subst htr
        obtain ⟨⟨s1, e1, r1, x1⟩, _⟩ := (ihl ml hf.1 hl).condOf
        obtain ⟨⟨s2, e2, r2, x2⟩, _⟩ := (ihr mr hf.2 hr).condOf
        refine ⟨?_, by simp [valueSorted, Monad.isCond]⟩
        refine ⟨K.and s1 s2, ?_, ?_, ?_⟩
        · simp only [Monad.getsql, Cx.evc, evalCond_and, evalAnd_append, evalAnd_flat]
          simp only [Cx.evc] at e1 e2; simp [e1, e2]
        · simpa [py, PyR.asK] using R.and r1 r2
        · intro hx; simp only [exact, Bool.and_eq_true] at hx
          simp [py, PyR.asK, x1 hx.1, x2 hx.2]
  | or l r ihl ihr =>
    intro m hf htr
    simp only [frag, Bool.and_eq_true] at hf
    simp only [tr] at htr
    cases hl : tr C.sch C.d l with
    | error x => simp [hl] at htr
    | ok ml =>
      cases hr : tr C.sch C.d r with
      | error x => simp [hl, hr] at htr
      | ok mr =>
        simp only [hl, hr] at htr; injection htr with htr; subst htr
        obtain ⟨⟨s1, e1, r1, x1⟩, _⟩ := (ihl ml hf.1 hl).condOf
        obtain ⟨⟨s2, e2, r2, x2⟩, _⟩ := (ihr mr hf.2 hr).condOf
        refine ⟨?_, by simp [valueSorted, Monad.isCond]⟩
        refine ⟨K.or s1 s2, ?_, ?_, ?_⟩
        · simp only [Monad.getsql, Cx.evc, evalCond_or, evalOr_append, evalOr_flat]
          simp only [Cx.evc] at e1 e2; simp [e1, e2]
        · simpa [py, PyR.asK] using R.or r1 r2
        · intro hx; simp only [exact, Bool.and_eq_true] at hx
          simp [py, PyR.asK, x1 hx.1, x2 hx.2]
  | not x ih =>
    intro m hf htr
    simp only [frag, Bool.and_eq_true] at hf
    simp only [tr] at htr
    cases hx : tr C.sch C.d x with
    | error x => simp [hx] at htr
    | ok mx =>
      simp only [hx] at htr; injection htr with htr; subst htr
      have g := ih mx hf.1 hx
      by_cases hs : valueSorted x = true
      · obtain ⟨c, t, n, s, rfl, hc, hv⟩ := g.val hs
        have hpg : C.d.isPg = true → t = .bool → c ≠ .attr → nn C.sch x = true := by
          intro h1 h2 h3
          have h4 := hf.2; simp only [hs, if_true] at h4
          have hty : trTy C.sch C.d x = .bool := by rw [trTy_of_ok hx, h2]; rfl
          have hna : isAttr x = false := by
            cases hh : isAttr x with
            | false => rfl
            | true => exact absurd (hc.2 hh) h3
          simpa [h1, hty, hna] using h4
        have hn := negate_val (cls := c) hs hv hpg
        have hsh := negate_val_shape C.d c t n s
        refine ⟨?_, by simpa [valueSorted] using hsh⟩
        rw [MonadOK_of_isCond hsh]
        exact ⟨_, hn, by simpa [py, PyR.asK] using R.refl _, fun _ => by simp [py, PyR.asK]⟩
      · have hs' : valueSorted x = false := by simpa using hs
        have hex : exact C.sch x = true := by have h4 := hf.2; simpa [hs'] using h4
        obtain ⟨g1, g2⟩ := g
        simp only [hs', Bool.false_eq_true, if_false] at g2
        obtain ⟨hn, hsh⟩ := negate_cond C mx g2
        rw [MonadOK_of_isCond g2] at g1
        obtain ⟨s1, e1, r1, x1⟩ := g1
        refine ⟨?_, by simpa [valueSorted] using hsh⟩
        rw [MonadOK_of_isCond hsh]
        refine ⟨s1.not, by rw [hn, e1]; rfl, ?_, fun _ => by simp [py, PyR.asK, x1 hex]⟩
        simpa [py, PyR.asK, x1 hex] using R.refl _
  | bin op l r ihl ihr => sorry
  | neg x ih => sorry
  | abs x ih => sorry
  | len x ih => sorry
  | ite c t e ihc iht ihe => sorry

end PonyVerif.Model.Q
