/-
  The translation invariant of engine Q by structural induction on the expression (C01 / C02).
-/
import PonyVerif.Lemmas.Translate
namespace PonyVerif.Model.Q

theorem cmpInit_vals (d : Dialect) (op : POp) (c1 : MCls) (t1 : Ty) (n1 : Bool) (s1 : Sql) (c2 : MCls) (t2 : Ty) (n2 : Bool) (s2 : Sql)
    (m : Monad) (ho : isIs op = false) (hcomp : comparable (MTy.ofTy t1) (MTy.ofTy t2) op = true)
    (h : cmpInit d op (.val c1 t1 n1 s1) (.val c2 t2 n2 s2) = .ok m) :
    m = .cmp op (coerceCmp d (MTy.ofTy t1) (MTy.ofTy t2) s1 s2).1 (coerceCmp d (MTy.ofTy t1) (MTy.ofTy t2) s1 s2).2 (n1 || n2) := by
  have hne1 : (MTy.ofTy t1 == MTy.none) = false := by cases t1 <;> rfl
  have hne2 : (MTy.ofTy t2 == MTy.none) = false := by cases t2 <;> rfl
  cases op <;> simp [isIs] at ho <;>
    simp [cmpInit, Monad.ty, hne1, hne2, hcomp, Monad.getsql, Monad.nullable] at h <;> exact h.symm

def likeK (L : LikeFn) (d : Dialect) (ng : Bool) (pat : String) (esc : Bool) : Val → Option K
  | .null => some .unk
  | .str s => some (if ng then (K.ofBool (L.run d pat esc s)).not else K.ofBool (L.run d pat esc s))
  | _ => none

theorem evc_like (C : Cx) (ng : Bool) (sql : Sql) (pat : String) (esc : Bool) :
    C.evc (.like ng sql pat esc) = (C.ev sql).bind (likeK C.L C.d ng pat esc) := by
  simp only [Cx.evc, Cx.ev, evalCond, eval]
  cases eval C.L C.d (senv C.d C.env) sql with
  | none => rfl
  | some v => cases v <;> simp [likeK]

/-- `make_numeric_binop` with `coerce_monads` -/
theorem ar_vals_ok (C : Cx) (op : ArOp) {t1 t2 : Ty} {s1 s2 : Sql} {v1 v2 : Option Scalar}
    (h1 : C.ev s1 = some (encV C.d v1)) (h2 : C.ev s2 = some (encV C.d v2))
    (ht1 : ∀ x, v1 = some x → hasTy t1 x) (ht2 : ∀ x, v2 = some x → hasTy t2 x)
    (hs1 : t1 ≠ .str) (hs2 : t2 ≠ .str) (hbb : ¬ (t1 = .bool ∧ t2 = .bool)) :
    (coerceNum C.d t1 t2 s1 s2).1 = .int ∧
    C.ev (.ar op (coerceNum C.d t1 t2 s1 s2).2.1 (coerceNum C.d t1 t2 s1 s2).2.2) = some (encV C.d (pyBin op v1 v2)) ∧
    (∀ x, pyBin op v1 v2 = some x → hasTy .int x) ∧ (v1 ≠ none → v2 ≠ none → pyBin op v1 v2 ≠ none) := by
  simp only [Cx.ev] at h1 h2
  cases t1 <;> cases t2 <;> simp at hs1 hs2 hbb <;>
  rcases v1 with _ | x <;> rcases v2 with _ | y <;> (try cases x) <;> (try cases y) <;>
  (try (have hx := ht1 _ rfl; simp [hasTy] at hx)) <;> (try (have hy := ht2 _ rfl; simp [hasTy] at hy)) <;>
  cases hd : C.d.isPg <;>
  simp [coerceNum, hd, Cx.ev, eval, h1, h2, encV, encS, arVals, pyBin, numOf, hasTy, boolInt]

theorem sameKind_enc (d : Dialect) {t : Ty} {v1 v2 : Option Scalar}
    (ht1 : ∀ x, v1 = some x → hasTy t x) (ht2 : ∀ x, v2 = some x → hasTy t x) : sameKind (encV d v1) (encV d v2) = true := by
  cases t <;> rcases v1 with _ | x <;> rcases v2 with _ | y <;> (try cases x) <;> (try cases y) <;>
  (try (have hx := ht1 _ rfl; simp [hasTy] at hx)) <;> (try (have hy := ht2 _ rfl; simp [hasTy] at hy)) <;>
  cases hd : d.isPg <;> simp [encV, encS, sameKind, hd]

theorem ev_case (C : Cx) (c t e : Sql) (k : K) (vt ve : Val) (hc : C.evc c = some k) (ht : C.ev t = some vt) (he : C.ev e = some ve)
    (hk : sameKind vt ve = true) : C.ev (.case c t e) = some (if k == .tt then vt else ve) := by
  simp only [Cx.ev, Cx.evc, evalCond] at *
  simp only [eval, hc, ht, he, hk, if_true]

theorem tr_ok (C : Cx) (hwt : WT C.sch C.env) (hL : LikeOK C.L C.d) : ∀ (e : Expr) (m : Monad),
    frag C.sch C.d e = true → tr C.sch C.d e = .ok m → Good C e m := by
  intro e
  induction e with
  | attr n =>
    intro m _ htr
    simp only [tr] at htr
    split at htr
    · rename_i t nl hsch
      injection htr with htr; subst htr
      refine ⟨?_, by simp [valueSorted, isAttr]⟩
      have hw := hwt.attr n t nl hsch
      refine ⟨C.env.col n, by simp [py], ?_, by simp [Cx.ev, eval, senv], ?_⟩
      · intro x hx; rw [hx] at hw; exact hw
      · intro hh hv
        rw [hv] at hw
        simp only [nn, hsch] at hh
        rcases hh with hh | hh <;> simp_all
    · cases htr
  | cInt i =>
    intro m _ htr
    simp only [tr] at htr; injection htr with htr; subst htr
    exact ⟨⟨some (.int i), by simp [py], by intro x hx; injection hx with hx; subst hx; simp [hasTy], by simp [Cx.ev, eval, litVal, encV, encS], by simp⟩,
      by simp [valueSorted, isAttr]⟩
  | cStr i =>
    intro m _ htr
    simp only [tr] at htr; injection htr with htr; subst htr
    exact ⟨⟨some (.str i), by simp [py], by intro x hx; injection hx with hx; subst hx; simp [hasTy], by simp [Cx.ev, eval, litVal, encV, encS], by simp⟩,
      by simp [valueSorted, isAttr]⟩
  | cBool i =>
    intro m _ htr
    simp only [tr] at htr; injection htr with htr; subst htr
    exact ⟨⟨some (.bool i), by simp [py], by intro x hx; injection hx with hx; subst hx; simp [hasTy],
        by cases h : C.d.isPg <;> simp [Cx.ev, eval, litVal, encV, encS, h, boolInt], by simp⟩,
      by simp [valueSorted, isAttr]⟩
  | cNone => intro m hf _; simp [frag] at hf
  | param n =>
    intro m _ htr
    simp only [tr] at htr
    split at htr
    · rename_i t hsch
      injection htr with htr; subst htr
      exact ⟨⟨some (C.env.par n), by simp [py], by intro x hx; injection hx with hx; subst hx; exact hwt.par n t hsch,
        by simp [Cx.ev, eval, senv, encV], by simp⟩, by simp [valueSorted, isAttr]⟩
    · cases htr
  | cmp op l r ihl ihr =>
    intro m hf htr
    simp only [frag] at hf
    simp only [tr] at htr
    by_cases hrn : isNoneLit r = true
    · -- `l == None`, `l is None`, …
      have hr : r = .cNone := by cases r <;> simp_all [isNoneLit]
      subst hr
      simp only [isNoneLit, if_true, Bool.and_eq_true, Bool.not_eq_true'] at hf
      obtain ⟨⟨ho, hsl⟩, hfl⟩ := hf
      cases hl : tr C.sch C.d l with
      | error x => simp [hl] at htr
      | ok ml =>
        obtain ⟨c, t, n, s, rfl, _, v, hpy, hty, hev, hnn⟩ := (ihl ml hfl hl).val hsl
        simp only [hl, tr] at htr
        have hne : (MTy.ofTy t == MTy.none) = false := by cases t <;> rfl
        refine ⟨?_, ?_⟩
        · cases op <;> simp [isOrd] at ho <;>
            simp [cmpInit, Monad.ty, hne, comparable, coerceCmp, Monad.getsql, Monad.nullable] at htr <;> subst htr <;>
            simp only [MonadOK, Monad.getsql, cmpSql] <;>
            refine ⟨_, (by first | exact evc_isNull C _ _ hev | exact evc_isNotNull C _ _ hev), ?_, fun _ => ?_⟩ <;>
            simp [py, isNoneLit, hpy, PyR.asV, PyR.asK, encV_eq_null, bne, R.refl]
        · cases op <;> simp [isOrd] at ho <;>
            simp [cmpInit, Monad.ty, hne, comparable, coerceCmp] at htr <;> subst htr <;> simp [valueSorted, Monad.isCond]
    · have hrn' : isNoneLit r = false := by simpa using hrn
      by_cases hln : isNoneLit l = true
      · -- `None == r`, …
        have hl : l = .cNone := by cases l <;> simp_all [isNoneLit]
        subst hl
        simp only [hrn', Bool.false_eq_true, if_false] at hf
        simp only [isNoneLit, if_true, Bool.and_eq_true, Bool.not_eq_true'] at hf
        obtain ⟨⟨ho, hsr⟩, hfr⟩ := hf
        cases hr : tr C.sch C.d r with
        | error x => simp [hr, tr] at htr
        | ok mr =>
          obtain ⟨c, t, n, s, rfl, _, v, hpy, hty, hev, hnn⟩ := (ihr mr hfr hr).val hsr
          simp only [hr, tr] at htr
          have hne : (MTy.ofTy t == MTy.none) = false := by cases t <;> rfl
          refine ⟨?_, ?_⟩
          · cases op <;> simp [isOrd] at ho <;>
              simp [cmpInit, Monad.ty, hne, comparable, coerceCmp, Monad.getsql, Monad.nullable] at htr <;> subst htr <;>
              simp only [MonadOK, Monad.getsql, cmpSql] <;>
              refine ⟨_, (by first | exact evc_isNull C _ _ hev | exact evc_isNotNull C _ _ hev), ?_, fun _ => ?_⟩ <;>
              (simp only [py, hrn', Bool.false_eq_true, if_false]; simp [isNoneLit, hpy, PyR.asV, PyR.asK, encV_eq_null, bne, R.refl])
          · cases op <;> simp [isOrd] at ho <;>
              simp [cmpInit, Monad.ty, hne, comparable, coerceCmp] at htr <;> subst htr <;> simp [valueSorted, Monad.isCond]
      · have hln' : isNoneLit l = false := by simpa using hln
        simp only [hrn', hln', Bool.false_eq_true, if_false, Bool.and_eq_true, Bool.not_eq_true'] at hf
        obtain ⟨⟨⟨⟨⟨ho, hsl⟩, hsr⟩, hfl⟩, hfr⟩, hcl⟩ := hf
        cases hl : tr C.sch C.d l with
        | error x => simp [hl] at htr
        | ok ml =>
          cases hr : tr C.sch C.d r with
          | error x => simp [hl, hr] at htr
          | ok mr =>
            obtain ⟨c1, t1, n1, s1, rfl, _, v1, hpy1, hty1, hev1, hnn1⟩ := (ihl ml hfl hl).val hsl
            obtain ⟨c2, t2, n2, s2, rfl, _, v2, hpy2, hty2, hev2, hnn2⟩ := (ihr mr hfr hr).val hsr
            simp only [hl, hr] at htr
            rw [trTy_of_ok hl, trTy_of_ok hr] at hcl
            simp only [Monad.ty] at hcl
            have hne1 : (MTy.ofTy t1 == MTy.none) = false := by cases t1 <;> rfl
            have hne2 : (MTy.ofTy t2 == MTy.none) = false := by cases t2 <;> rfl
            have hcomp : ∀ o, comparable (MTy.ofTy t1) (MTy.ofTy t2) o = true ∨ isIs o = true := by
              intro o; cases t1 <;> cases t2 <;> cases o <;> simp_all [comparable, MTy.ofTy, sameClass, MTy.isNum, isIs]
            have hcv := fun o => cmp_vals_ok C o hev1 hev2 hty1 hty2 hcl
            have hpy : ∀ o, op.cmp? = some o → (py C.env (.cmp op l r)).asK = pyCmpOpt o v1 v2 := by
              intro o ho'
              simp only [py, hrn', hln', Bool.false_eq_true, if_false, hpy1, hpy2, PyR.asV, ho']
              cases v1 <;> cases v2 <;> simp [PyR.asK, pyCmpOpt]
            have hm := cmpInit_vals C.d op c1 t1 n1 s1 c2 t2 n2 s2 m ho ((hcomp op).resolve_right (by simp [ho])) htr
            subst hm
            refine ⟨?_, by simp [valueSorted, Monad.isCond]⟩
            simp only [MonadOK, Monad.getsql]
            cases op <;> simp [isIs] at ho <;> simp only [cmpSql] <;>
              exact ⟨_, hcv _, by rw [hpy _ rfl]; exact R.refl _, fun _ => by rw [hpy _ rfl]⟩
  | inList ng x items ih =>
    intro m hf htr
    simp only [frag, Bool.and_eq_true] at hf
    obtain ⟨⟨hsx, hfx⟩, hit⟩ := hf
    simp only [tr] at htr
    cases hx : tr C.sch C.d x with
    | error _ => simp [hx] at htr
    | ok mx =>
      obtain ⟨c, t, n, s, rfl, _, v, hpy, hty, hev, hnn⟩ := (ih mx hfx hx).val hsx
      simp only [hx] at htr
      rw [trTy_of_ok hx] at hit; simp only [Monad.ty] at hit
      have hit' : ∀ it ∈ items, MTy.ofTy t = litTy it := by simpa [List.all_eq_true] using hit
      have hcomp : items.all (fun it => comparable (MTy.ofTy t) (litTy it) .eq) = true := by
        simp only [List.all_eq_true]; intro it hi; rw [← hit' it hi]; cases t <;> rfl
      simp only [Monad.ty, hcomp, if_true, Monad.getsql, Monad.nullable] at htr
      injection htr with htr; subst htr
      refine ⟨?_, by simp [valueSorted, Monad.isCond]⟩
      simp only [MonadOK, Monad.getsql]
      have hp : (py C.env (.inList ng x items)).asK = (if ng then (pyInList v items).not else pyInList v items) := by
        simp [py, hpy, PyR.asV, PyR.asK]
      exact ⟨_, inList_ok C ng hev hty items hit', by rw [hp]; exact R.refl _, fun _ => by rw [hp]⟩
  | like k ng pat x ih =>
    intro m hf htr
    simp only [frag, Bool.and_eq_true] at hf
    obtain ⟨⟨⟨hsx, hfx⟩, hng⟩, hpat⟩ := hf
    simp only [tr] at htr
    cases hx : tr C.sch C.d x with
    | error _ => simp [hx] at htr
    | ok mx =>
      obtain ⟨c, t, n, s, rfl, hca, v, hpy, hty, hev, hnn⟩ := (ih mx hfx hx).val hsx
      simp only [hx] at htr
      cases t with
      | int => simp at htr
      | bool => simp at htr
      | str =>
        simp only at htr; injection htr with htr; subst htr
        refine ⟨?_, by simp [valueSorted, Monad.isCond]⟩
        simp only [MonadOK, Monad.getsql]
        rcases v with _ | xv
        · -- missing: only for `in` / startswith / endswith (not for `not in`)
          have hngf : ng = false := by
            cases ng with
            | false => rfl
            | true => exact absurd rfl (hnn (Or.inr (by simpa using hng)))
          subst hngf
          refine ⟨.unk, ?_, ?_, fun _ => ?_⟩
          · simp [evc_like, hev, likeK]
          · simp [py, hpy, PyR.asV, PyR.asK]; exact R.refl _
          · simp [py, hpy, PyR.asV, PyR.asK]
        · obtain ⟨sv, rfl⟩ := hasTy_str (hty xv rfl)
          have hl := hL k pat sv hpat
          have hev' : C.ev s = some (.str sv) := by simpa [encV, encS] using hev
          have hp : (py C.env (.like k ng pat x)).asK = (if ng then (K.ofBool (pyLike k pat sv)).not else K.ofBool (pyLike k pat sv)) := by
            simp [py, hpy, PyR.asV, PyR.asK]
          refine ⟨_, ?_, by rw [hp]; exact R.refl _, fun _ => by rw [hp]⟩
          cases ng with
          | false => simp [evc_like, hev', likeK, hl]
          | true =>
            cases n with
            | false => simp [evc_like, hev', likeK, hl]
            | true =>
              by_cases hc : c = .attr
              · simp [hc, evc_or_pair, evc_like, hev', likeK, hl, evc_isNull C _ _ hev']
              · simp [hc, evc_like, ev_coalesce_lit C _ _ _ hev', sameKind, litVal, likeK, hl]
  | and l r ihl ihr =>
    intro m hf htr
    simp only [frag, Bool.and_eq_true] at hf
    simp only [tr] at htr
    cases hl : tr C.sch C.d l with
    | error x => simp [hl] at htr
    | ok ml =>
      cases hr : tr C.sch C.d r with
      | error x => simp [hl, hr] at htr
      | ok mr =>
        simp only [hl, hr] at htr; injection htr with htr; subst htr
        obtain ⟨⟨s1, e1, r1, x1⟩, _⟩ := (ihl ml hf.1 hl).condOf
        obtain ⟨⟨s2, e2, r2, x2⟩, _⟩ := (ihr mr hf.2 hr).condOf
        refine ⟨?_, by simp [valueSorted, Monad.isCond]⟩
        refine ⟨K.and s1 s2, ?_, ?_, ?_⟩
        · simp only [Monad.getsql, Cx.evc, evalCond_and, evalAnd_append, evalAnd_flat]
          simp only [Cx.evc] at e1 e2; simp [e1, e2]
        · simpa [py, PyR.asK] using R.and r1 r2
        · intro hx; simp only [exact, Bool.and_eq_true] at hx
          simp [py, PyR.asK, x1 hx.1, x2 hx.2]
  | or l r ihl ihr =>
    intro m hf htr
    simp only [frag, Bool.and_eq_true] at hf
    simp only [tr] at htr
    cases hl : tr C.sch C.d l with
    | error x => simp [hl] at htr
    | ok ml =>
      cases hr : tr C.sch C.d r with
      | error x => simp [hl, hr] at htr
      | ok mr =>
        simp only [hl, hr] at htr; injection htr with htr; subst htr
        obtain ⟨⟨s1, e1, r1, x1⟩, _⟩ := (ihl ml hf.1 hl).condOf
        obtain ⟨⟨s2, e2, r2, x2⟩, _⟩ := (ihr mr hf.2 hr).condOf
        refine ⟨?_, by simp [valueSorted, Monad.isCond]⟩
        refine ⟨K.or s1 s2, ?_, ?_, ?_⟩
        · simp only [Monad.getsql, Cx.evc, evalCond_or, evalOr_append, evalOr_flat]
          simp only [Cx.evc] at e1 e2; simp [e1, e2]
        · simpa [py, PyR.asK] using R.or r1 r2
        · intro hx; simp only [exact, Bool.and_eq_true] at hx
          simp [py, PyR.asK, x1 hx.1, x2 hx.2]
  | not x ih =>
    intro m hf htr
    simp only [frag, Bool.and_eq_true] at hf
    simp only [tr] at htr
    cases hx : tr C.sch C.d x with
    | error x => simp [hx] at htr
    | ok mx =>
      simp only [hx] at htr; injection htr with htr; subst htr
      have g := ih mx hf.1 hx
      by_cases hs : valueSorted x = true
      · obtain ⟨c, t, n, s, rfl, hc, hv⟩ := g.val hs
        have hn := negate_val (cls := c) hs hv
        have hsh := negate_val_shape C.d c t n s
        refine ⟨?_, by simpa [valueSorted] using hsh⟩
        rw [MonadOK_of_isCond hsh]
        exact ⟨_, hn, by simpa [py, PyR.asK] using R.refl _, fun _ => by simp [py, PyR.asK]⟩
      · have hs' : valueSorted x = false := by simpa using hs
        have hex : exact C.sch x = true := by have h4 := hf.2; simpa [hs'] using h4
        obtain ⟨g1, g2⟩ := g
        simp only [hs', Bool.false_eq_true, if_false] at g2
        obtain ⟨hn, hsh⟩ := negate_cond C mx g2
        rw [MonadOK_of_isCond g2] at g1
        obtain ⟨s1, e1, r1, x1⟩ := g1
        refine ⟨?_, by simpa [valueSorted] using hsh⟩
        rw [MonadOK_of_isCond hsh]
        refine ⟨s1.not, by rw [hn, e1]; rfl, ?_, fun _ => by simp [py, PyR.asK, x1 hex]⟩
        simpa [py, PyR.asK, x1 hex] using R.refl _
  | bin op l r ihl ihr =>
    intro m hf htr
    simp only [frag, Bool.and_eq_true] at hf
    obtain ⟨⟨⟨⟨hsl, hsr⟩, hfl⟩, hfr⟩, hbb⟩ := hf
    simp only [tr] at htr
    cases hl : tr C.sch C.d l with
    | error x => simp [hl] at htr
    | ok ml =>
      cases hr : tr C.sch C.d r with
      | error x => simp [hl, hr] at htr
      | ok mr =>
        obtain ⟨c1, t1, n1, s1, rfl, _, v1, hpy1, hty1, hev1, hnn1⟩ := (ihl ml hfl hl).val hsl
        obtain ⟨c2, t2, n2, s2, rfl, _, v2, hpy2, hty2, hev2, hnn2⟩ := (ihr mr hfr hr).val hsr
        simp only [hl, hr] at htr
        rw [trTy_of_ok hl, trTy_of_ok hr] at hbb
        simp only [Monad.ty] at hbb
        have hnnb : nn C.sch (.bin op l r) = true → v1 ≠ none ∧ v2 ≠ none := by
          intro h; simp only [nn, Bool.and_eq_true] at h; exact ⟨hnn1 (Or.inr h.1), hnn2 (Or.inr h.2)⟩
        cases t1 with
        | str =>
          cases op <;> cases t2 <;> simp at htr
          subst htr
          refine ⟨?_, by simp [valueSorted, isAttr]⟩
          refine ⟨pyBin .add v1 v2, by simp [py, hpy1, hpy2, PyR.asV], ?_, ?_, ?_⟩
          · rcases v1 with _ | x <;> rcases v2 with _ | y <;> (try cases x) <;> (try cases y) <;>
              (try (have hx := hty1 _ rfl; simp [hasTy] at hx)) <;> (try (have hy := hty2 _ rfl; simp [hasTy] at hy)) <;>
              simp [pyBin, hasTy]
          · simp only [Cx.ev] at hev1 hev2
            rcases v1 with _ | x <;> rcases v2 with _ | y <;> (try cases x) <;> (try cases y) <;>
              (try (have hx := hty1 _ rfl; simp [hasTy] at hx)) <;> (try (have hy := hty2 _ rfl; simp [hasTy] at hy)) <;>
              simp [Cx.ev, eval, hev1, hev2, encV, encS, pyBin]
          · intro h
            have hh : v1 ≠ none ∧ v2 ≠ none := by
              rcases h with h | h
              · simp only [Bool.or_eq_false_iff] at h; exact ⟨hnn1 (Or.inl h.1), hnn2 (Or.inl h.2)⟩
              · exact hnnb h
            rcases v1 with _ | x <;> rcases v2 with _ | y <;> (try cases x) <;> (try cases y) <;>
              (try (have hx := hty1 _ rfl; simp [hasTy] at hx)) <;> (try (have hy := hty2 _ rfl; simp [hasTy] at hy)) <;>
              simp_all [pyBin]
        | int =>
          cases t2 with
          | str => simp [Monad.ty, MTy.ofTy] at htr
          | int =>
            obtain ⟨a1, a2, a3, a4⟩ := ar_vals_ok C op hev1 hev2 hty1 hty2 (by simp) (by simp) (by simp)
            simp only [Monad.ty, MTy.ofTy, Monad.getsql] at htr
            injection htr with htr; subst htr
            rw [a1]
            exact ⟨⟨pyBin op v1 v2, by simp [py, hpy1, hpy2, PyR.asV], a3, a2, fun h => by
              rcases h with h | h
              · simp at h
              · exact a4 (hnnb h).1 (hnnb h).2⟩, by simp [valueSorted, isAttr]⟩
          | bool =>
            obtain ⟨a1, a2, a3, a4⟩ := ar_vals_ok C op hev1 hev2 hty1 hty2 (by simp) (by simp) (by simp)
            simp only [Monad.ty, MTy.ofTy, Monad.getsql] at htr
            injection htr with htr; subst htr
            rw [a1]
            exact ⟨⟨pyBin op v1 v2, by simp [py, hpy1, hpy2, PyR.asV], a3, a2, fun h => by
              rcases h with h | h
              · simp at h
              · exact a4 (hnnb h).1 (hnnb h).2⟩, by simp [valueSorted, isAttr]⟩
        | bool =>
          cases t2 with
          | str => simp [Monad.ty, MTy.ofTy] at htr
          | int =>
            obtain ⟨a1, a2, a3, a4⟩ := ar_vals_ok C op hev1 hev2 hty1 hty2 (by simp) (by simp) (by simp)
            simp only [Monad.ty, MTy.ofTy, Monad.getsql] at htr
            injection htr with htr; subst htr
            rw [a1]
            exact ⟨⟨pyBin op v1 v2, by simp [py, hpy1, hpy2, PyR.asV], a3, a2, fun h => by
              rcases h with h | h
              · simp at h
              · exact a4 (hnnb h).1 (hnnb h).2⟩, by simp [valueSorted, isAttr]⟩
          | bool => simp [MTy.ofTy] at hbb
  | neg x ih =>
    intro m hf htr
    simp only [frag, Bool.and_eq_true, beq_iff_eq] at hf
    obtain ⟨⟨hsx, hfx⟩, hty'⟩ := hf
    simp only [tr] at htr
    cases hx : tr C.sch C.d x with
    | error _ => simp [hx] at htr
    | ok mx =>
      obtain ⟨c, t, n, s, rfl, _, v, hpy, hty, hev, hnn⟩ := (ih mx hfx hx).val hsx
      rw [trTy_of_ok hx] at hty'
      have ht : t = .int := by cases t <;> simp_all [Monad.ty, MTy.ofTy]
      subst ht
      simp only [hx] at htr; injection htr with htr; subst htr
      refine ⟨?_, by simp [valueSorted, isAttr]⟩
      simp only [Cx.ev] at hev
      rcases v with _ | xv
      · refine ⟨none, by simp [py, hpy, PyR.asV], by simp, by simp [Cx.ev, eval, hev], fun h => ?_⟩
        exact absurd rfl (hnn (by simpa [nn] using h))
      · obtain ⟨i, rfl⟩ := hasTy_int (hty xv rfl)
        exact ⟨some (.int (-i)), by simp [py, hpy, PyR.asV, numOf], by intro x hx'; injection hx' with hx'; subst hx'; simp [hasTy],
          by simp [Cx.ev, eval, hev, encV, encS], by simp⟩
  | abs x ih =>
    intro m hf htr
    simp only [frag, Bool.and_eq_true, beq_iff_eq] at hf
    obtain ⟨⟨hsx, hfx⟩, hty'⟩ := hf
    simp only [tr] at htr
    cases hx : tr C.sch C.d x with
    | error _ => simp [hx] at htr
    | ok mx =>
      obtain ⟨c, t, n, s, rfl, _, v, hpy, hty, hev, hnn⟩ := (ih mx hfx hx).val hsx
      rw [trTy_of_ok hx] at hty'
      have ht : t = .int := by cases t <;> simp_all [Monad.ty, MTy.ofTy]
      subst ht
      simp only [hx] at htr; injection htr with htr; subst htr
      refine ⟨?_, by simp [valueSorted, isAttr]⟩
      simp only [Cx.ev] at hev
      rcases v with _ | xv
      · refine ⟨none, by simp [py, hpy, PyR.asV], by simp, by simp [Cx.ev, eval, hev], fun h => ?_⟩
        exact absurd rfl (hnn (by simpa [nn] using h))
      · obtain ⟨i, rfl⟩ := hasTy_int (hty xv rfl)
        exact ⟨some (.int (Int.ofNat i.natAbs)), by simp [py, hpy, PyR.asV, numOf], by intro x hx'; injection hx' with hx'; subst hx'; simp [hasTy],
          by simp [Cx.ev, eval, hev, encV, encS], by simp⟩
  | len x ih =>
    intro m hf htr
    simp only [frag, Bool.and_eq_true] at hf
    obtain ⟨hsx, hfx⟩ := hf
    simp only [tr] at htr
    cases hx : tr C.sch C.d x with
    | error _ => simp [hx] at htr
    | ok mx =>
      obtain ⟨c, t, n, s, rfl, _, v, hpy, hty, hev, hnn⟩ := (ih mx hfx hx).val hsx
      simp only [hx] at htr
      cases t with
      | int => simp at htr
      | bool => simp at htr
      | str =>
        simp only at htr; injection htr with htr; subst htr
        refine ⟨?_, by simp [valueSorted, isAttr]⟩
        simp only [Cx.ev] at hev
        rcases v with _ | xv
        · refine ⟨none, by simp [py, hpy, PyR.asV], by simp, by simp [Cx.ev, eval, hev], fun h => ?_⟩
          exact absurd rfl (hnn (Or.inr (by simpa [nn] using h)))
        · obtain ⟨i, rfl⟩ := hasTy_str (hty xv rfl)
          exact ⟨some (.int i.length), by simp [py, hpy, PyR.asV], by intro x hx'; injection hx' with hx'; subst hx'; simp [hasTy],
            by simp [Cx.ev, eval, hev, encV, encS], by simp⟩
  | ite c t e ihc iht ihe =>
    intro m hf htr
    simp only [frag, Bool.and_eq_true, beq_iff_eq] at hf
    obtain ⟨⟨⟨⟨⟨hfc, hft⟩, hfe⟩, hst⟩, hse⟩, htte⟩ := hf
    simp only [tr] at htr
    cases hc : tr C.sch C.d c with
    | error _ => simp [hc] at htr
    | ok mc =>
      cases ht : tr C.sch C.d t with
      | error _ => simp [hc, ht] at htr
      | ok mt =>
        cases he : tr C.sch C.d e with
        | error _ => simp [hc, ht, he] at htr
        | ok me =>
          obtain ⟨ct, tt, nt, st, rfl, _, vt, hpyt, htyt, hevt, hnnt⟩ := (iht mt hft ht).val hst
          obtain ⟨ce, te, ne, se, rfl, _, ve, hpye, htye, heve, hnne⟩ := (ihe me hfe he).val hse
          rw [trTy_of_ok ht, trTy_of_ok he] at htte
          have hte : tt = te := by cases tt <;> cases te <;> simp_all [Monad.ty, MTy.ofTy]
          subst hte
          obtain ⟨⟨k, hk, rk, _⟩, hnone⟩ := (ihc mc hfc hc).condOf
          simp only [hc, ht, he] at htr
          have hres : m = .val .expr tt ((condOf C.d mc).nullable || nt || ne) (.case (condOf C.d mc).getsql st se) := by
            cases mc with
            | val cc tc nc sc => cases tc <;> cases tt <;> simp_all [Monad.ty, MTy.ofTy, Monad.getsql, Monad.nullable]
            | noneM => exact absurd rfl hnone
            | cmp _ _ _ _ => cases tt <;> simp_all [Monad.ty, MTy.ofTy, Monad.getsql, Monad.nullable]
            | bexpr _ _ => cases tt <;> simp_all [Monad.ty, MTy.ofTy, Monad.getsql, Monad.nullable]
            | land _ _ => cases tt <;> simp_all [Monad.ty, MTy.ofTy, Monad.getsql, Monad.nullable]
            | lor _ _ => cases tt <;> simp_all [Monad.ty, MTy.ofTy, Monad.getsql, Monad.nullable]
            | lnot _ => cases tt <;> simp_all [Monad.ty, MTy.ofTy, Monad.getsql, Monad.nullable]
          subst hres
          refine ⟨?_, by simp [valueSorted, isAttr]⟩
          have hkk : (k == K.tt) = ((py C.env c).asK == K.tt) := by
            rw [Bool.eq_iff_iff]; simp only [beq_iff_eq]; exact rk.1
          refine ⟨if (py C.env c).asK == .tt then vt else ve, ?_, ?_, ?_, ?_⟩
          · simp only [py, hpyt, hpye]; split <;> rfl
          · intro x hx; split at hx
            · exact htyt x hx
            · exact htye x hx
          · rw [ev_case C _ _ _ k _ _ hk hevt heve (sameKind_enc C.d htyt htye), hkk]; split <;> rfl
          · intro h
            have hh : vt ≠ none ∧ ve ≠ none := by
              rcases h with h | h
              · simp only [Bool.or_eq_false_iff] at h; exact ⟨hnnt (Or.inl h.1.2), hnne (Or.inl h.2)⟩
              · simp only [nn, Bool.and_eq_true] at h; exact ⟨hnnt (Or.inr h.1), hnne (Or.inr h.2)⟩
            split
            · exact hh.1
            · exact hh.2

end PonyVerif.Model.Q
