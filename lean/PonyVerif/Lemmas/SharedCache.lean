/-
  Lemmas for C22 (shared translator cache): dict algebra, the pinning functions, the per-thread invariant and its
  preservation by one atomic step of the CURRENT code (`tstep cfg false`).
-/
import PonyVerif.Model.SharedCache
namespace PonyVerif.Model.SharedCache

/-! ### dict algebra -/

theorem cget_cdel_same (k : QKey) (c : Cache) : cget k (cdel k c) = none := by
  induction c with
  | nil => rfl
  | cons x c ih =>
    obtain ⟨k', v⟩ := x
    by_cases h : k' = k <;> simp [cdel, cget, h, ih]

theorem cget_cdel_other (k k' : QKey) (c : Cache) (h : k' ≠ k) : cget k' (cdel k c) = cget k' c := by
  induction c with
  | nil => rfl
  | cons x c ih =>
    obtain ⟨k'', v⟩ := x
    by_cases h1 : k'' = k
    · subst h1
      have : ¬ k'' = k' := fun e => h e.symm
      simp [cdel, cget, ih, this]
    · by_cases h2 : k'' = k'
      · subst h2; simp [cdel, cget, h1]
      · simp [cdel, cget, h1, h2, ih]

theorem cget_cset_same (k : QKey) (v : Translator) (c : Cache) : cget k (cset k v c) = some v := by
  simp [cset, cget]

theorem cget_cset_other (k k' : QKey) (v : Translator) (c : Cache) (h : k' ≠ k) :
    cget k' (cset k v c) = cget k' c := by
  have : ¬ k = k' := fun e => h e.symm
  simp [cset, cget, this, cget_cdel_other k k' c h]

/-! ### pinning -/

theorem lookup_append_none {β : Type} (q : Nat) (l : List (Nat × β)) (e : Nat × β) (h : lookup q l = none) :
    lookup q (l ++ [e]) = if e.1 = q then some e.2 else none := by
  induction l with
  | nil => obtain ⟨a, b⟩ := e; simp [lookup]
  | cons x l ih =>
    obtain ⟨a, b⟩ := x
    by_cases hx : a = q
    · simp [lookup, hx] at h
    · simp only [lookup, hx, if_false] at h
      simp [lookup, hx, ih h]

theorem lookup_isSome_keys {β γ : Type} (q : Nat) :
    ∀ (l : List (Nat × β)) (l' : List (Nat × γ)), l.map (·.1) = l'.map (·.1) →
      (lookup q l).isSome = (lookup q l').isSome
  | [], [], _ => rfl
  | [], _ :: _, h => by simp at h
  | _ :: _, [], h => by simp at h
  | (a, b) :: l, (a', b') :: l', h => by
    simp only [List.map_cons, List.cons.injEq] at h
    obtain ⟨h1, h2⟩ := h
    subst h1
    by_cases hq : a = q
    · simp [lookup, hq]
    · simp [lookup, hq, lookup_isSome_keys q l l' h2]

/-- `pinOne` only appends -/
theorem pinOne_mono {vars : Vars} {b x : Pinned} {pk : PKey × PinKind} (h : pinOne vars b pk = some x) :
    ∀ e, e ∈ b → e ∈ x := by
  intro e he
  unfold pinOne at h
  split at h
  · cases h; exact he
  · split at h
    · cases h
    · cases h; exact List.mem_append_left _ he

theorem pinAll_mono {vars : Vars} : ∀ {pins : List (PKey × PinKind)} {b x : Pinned}, pinAll vars b pins = some x →
    ∀ e, e ∈ b → e ∈ x
  | [], b, x, h => by simp [pinAll] at h; subst h; exact fun _ he => he
  | pk :: rest, b, x, h => by
    simp only [pinAll] at h
    cases h1 : pinOne vars b pk with
    | none => simp [h1] at h
    | some b' =>
      simp only [h1] at h
      intro e he
      exact pinAll_mono h e (pinOne_mono h1 e he)

/-- every entry of the pinned dict is found in `vars` with the same value (what the comparison loop establishes) -/
def Agrees (vars : Vars) (x : Pinned) : Prop := ∀ e, e ∈ x → lookup e.1 vars = some e.2

/-- every key of the pinned dict is a key of `vars` (what the `assert` needs) -/
def KeysIn (vars : Vars) (x : Pinned) : Prop := ∀ q, q ∈ x.map (·.1) → (lookup q vars).isSome = true

theorem compare_same_iff (vars : Vars) (x : Pinned) : compare vars x = .same ↔ Agrees vars x := by
  induction x with
  | nil => simp [compare, Agrees]
  | cons e x ih =>
    obtain ⟨p, v⟩ := e
    simp only [compare]
    cases hl : lookup p vars with
    | none =>
      simp only [Agrees, List.mem_cons]
      constructor
      · intro h; cases h
      · intro h; have := h (p, v) (Or.inl rfl); simp [hl] at this
    | some w =>
      by_cases hv : v = w
      · subst hv
        simp only [if_true, ih, Agrees, List.mem_cons]
        constructor
        · intro h e he
          rcases he with rfl | he
          · exact hl
          · exact h e he
        · intro h e he; exact h e (Or.inr he)
      · simp only [hv, if_false, Agrees, List.mem_cons]
        constructor
        · intro h; cases h
        · intro h
          have := h (p, v) (Or.inl rfl)
          simp only [hl, Option.some.injEq] at this
          exact absurd this.symm hv

theorem compare_no_assert (vars : Vars) (x : Pinned) (h : KeysIn vars x) : compare vars x ≠ .assertFail := by
  induction x with
  | nil => simp [compare]
  | cons e x ih =>
    obtain ⟨p, v⟩ := e
    have hp : (lookup p vars).isSome = true := h p (by simp)
    have hx : KeysIn vars x := fun q hq => h q (by simp only [List.map_cons, List.mem_cons]; exact Or.inr hq)
    simp only [compare]
    cases hl : lookup p vars with
    | none => simp [hl] at hp
    | some w =>
      by_cases hv : v = w
      · simp [hv, ih hx]
      · simp [hv]

theorem KeysIn_of_keys_eq {vars : Vars} {x y : Pinned} (h : x.map (·.1) = y.map (·.1)) (hy : KeysIn vars y) :
    KeysIn vars x := fun q hq => hy q (h ▸ hq)

/-- two runs of `pinOne` for the same parameter on bases with the same keys produce the same keys; the second one's
    keys stay inside its `vars` -/
theorem pinOne_keys {w v : Vars} {b b' x y : Pinned} {pk : PKey × PinKind}
    (hx : pinOne w b pk = some x) (hy : pinOne v b' pk = some y)
    (hb : b.map (·.1) = b'.map (·.1)) (hk : KeysIn v b') :
    x.map (·.1) = y.map (·.1) ∧ KeysIn v y := by
  have hs := lookup_isSome_keys pk.1 b b' hb
  unfold pinOne at hx hy
  cases h1 : lookup pk.1 b with
  | some z =>
    have h2 : (lookup pk.1 b').isSome = true := by rw [← hs, h1]; rfl
    cases h3 : lookup pk.1 b' with
    | none => simp [h3] at h2
    | some z' =>
      simp only [h1] at hx; simp only [h3] at hy
      cases hx; cases hy
      exact ⟨hb, hk⟩
  | none =>
    have h2 : (lookup pk.1 b').isSome = false := by rw [← hs, h1]; rfl
    cases h3 : lookup pk.1 b' with
    | some z' => simp [h3] at h2
    | none =>
      simp only [h1] at hx; simp only [h3] at hy
      cases h4 : lookup pk.1 w with
      | none => simp [h4] at hx
      | some a =>
        cases h5 : lookup pk.1 v with
        | none => simp [h5] at hy
        | some a' =>
          simp only [h4] at hx; simp only [h5] at hy
          cases hx; cases hy
          refine ⟨by simp [hb], ?_⟩
          intro q hq
          simp only [List.map_append, List.map_cons, List.map_nil, List.mem_append, List.mem_singleton] at hq
          rcases hq with hq | hq
          · exact hk q hq
          · subst hq; simp [h5]

theorem pinAll_keys {w v : Vars} : ∀ {pins : List (PKey × PinKind)} {b b' x y : Pinned},
    pinAll w b pins = some x → pinAll v b' pins = some y →
    b.map (·.1) = b'.map (·.1) → KeysIn v b' → x.map (·.1) = y.map (·.1) ∧ KeysIn v y
  | [], b, b', x, y, hx, hy, hb, hk => by
    simp [pinAll] at hx hy; subst hx; subst hy; exact ⟨hb, hk⟩
  | pk :: rest, b, b', x, y, hx, hy, hb, hk => by
    simp only [pinAll] at hx hy
    cases h1 : pinOne w b pk with
    | none => simp [h1] at hx
    | some b1 =>
      cases h2 : pinOne v b' pk with
      | none => simp [h2] at hy
      | some b2 =>
        simp only [h1] at hx; simp only [h2] at hy
        obtain ⟨hb', hk'⟩ := pinOne_keys h1 h2 hb hk
        exact pinAll_keys hx hy hb' hk'

theorem soloPins_keys (cfg : Cfg) {w v : Vars} : ∀ {k : QKey} {x y : Pinned},
    soloPins cfg k w = some x → soloPins cfg k v = some y → x.map (·.1) = y.map (·.1) ∧ KeysIn v y
  | [], x, y, hx, hy => by
    simp [soloPins] at hx hy; subst hx; subst hy
    exact ⟨rfl, fun q hq => by simp at hq⟩
  | f :: k, x, y, hx, hy => by
    simp only [soloPins] at hx hy
    cases h1 : soloPins cfg k w with
    | none => simp [h1] at hx
    | some b1 =>
      cases h2 : soloPins cfg k v with
      | none => simp [h2] at hy
      | some b2 =>
        simp only [h1] at hx; simp only [h2] at hy
        obtain ⟨hb, hk⟩ := soloPins_keys cfg h1 h2
        exact pinAll_keys hx hy hb hk

/-- if the result `x` of pinning under `w` agrees with `v`, pinning under `v` from the same base gives the same dict -/
theorem pinOne_agree {w v : Vars} {b x y : Pinned} {pk : PKey × PinKind}
    (hx : pinOne w b pk = some x) (hy : pinOne v b pk = some y) (ha : Agrees v x) : y = x := by
  unfold pinOne at hx hy
  cases h1 : lookup pk.1 b with
  | some z => simp only [h1] at hx hy; cases hx; cases hy; rfl
  | none =>
    simp only [h1] at hx hy
    cases h4 : lookup pk.1 w with
    | none => simp [h4] at hx
    | some a =>
      cases h5 : lookup pk.1 v with
      | none => simp [h5] at hy
      | some a' =>
        simp only [h4] at hx; simp only [h5] at hy
        cases hx; cases hy
        have := ha (pk.1, norm pk.2 a) (by simp)
        simp only [h5, Option.some.injEq] at this
        rw [this, norm_idem]

theorem pinAll_agree {w v : Vars} : ∀ {pins : List (PKey × PinKind)} {b x y : Pinned},
    pinAll w b pins = some x → pinAll v b pins = some y → Agrees v x → y = x
  | [], b, x, y, hx, hy, _ => by simp [pinAll] at hx hy; subst hx; subst hy; rfl
  | pk :: rest, b, x, y, hx, hy, ha => by
    simp only [pinAll] at hx hy
    cases h1 : pinOne w b pk with
    | none => simp [h1] at hx
    | some b1 =>
      cases h2 : pinOne v b pk with
      | none => simp [h2] at hy
      | some b2 =>
        simp only [h1] at hx; simp only [h2] at hy
        have hb1 : Agrees v b1 := fun e he => ha e (pinAll_mono hx e he)
        have : b2 = b1 := pinOne_agree h1 h2 hb1
        subst this
        exact pinAll_agree hx hy ha

/-- KEY LEMMA: a translator built by ANY thread for key `k` whose pinned values pass the comparison loop against my
    parameter values carries exactly the pinned values I would compute myself -/
theorem soloPins_agree (cfg : Cfg) {w v : Vars} : ∀ {k : QKey} {x y : Pinned},
    soloPins cfg k w = some x → soloPins cfg k v = some y → Agrees v x → y = x
  | [], x, y, hx, hy, _ => by simp [soloPins] at hx hy; subst hx; subst hy; rfl
  | f :: k, x, y, hx, hy, ha => by
    simp only [soloPins] at hx hy
    cases h1 : soloPins cfg k w with
    | none => simp [h1] at hx
    | some b1 =>
      cases h2 : soloPins cfg k v with
      | none => simp [h2] at hy
      | some b2 =>
        simp only [h1] at hx; simp only [h2] at hy
        have hb1 : Agrees v b1 := fun e he => ha e (pinAll_mono hx e he)
        have : b2 = b1 := soloPins_agree cfg h1 h2 hb1
        subst this
        exact pinAll_agree hx hy ha

/-! ### invariants -/

/-- a translator that may sit in the cache under key `k`: it was built for `k` from SOME thread's parameter values -/
def GoodTr (cfg : Cfg) (k : QKey) (tr : Translator) : Prop :=
  tr.key = k ∧ ∃ w, soloPins cfg k w = some tr.pinned

def CacheOK (cfg : Cfg) (c : Cache) : Prop := ∀ k tr, cget k c = some tr → GoodTr cfg k tr

/-- the translator is the one request `r` yields when its thread runs alone -/
def OwnTr (cfg : Cfg) (r : Req) (tr : Translator) : Prop :=
  tr.key = r.key ∧ soloPins cfg r.key r.vars = some tr.pinned

/-- static well-formedness of one request given the requests the thread completed before it:
    all parameters the translation pins are present in the request's `vars` (same code ⇒ same extractors), a root
    request has a one-element key, a derived request names an earlier query object of the same thread whose key is the
    tail of its key and whose parameter values it extends -/
def ReqOK (cfg : Cfg) (done : List Req) (r : Req) : Prop :=
  (∃ p, soloPins cfg r.key r.vars = some p) ∧
  match r.base with
  | none => ∃ c, r.key = [c]
  | some j => ∃ r', done[j]? = some r' ∧ (∃ f, r.key = f :: r'.key) ∧ r'.vars = r.vars

def WFReqs (cfg : Cfg) : List Req → List Req → Prop
  | _, [] => True
  | done, r :: rest => ReqOK cfg done r ∧ WFReqs cfg (done ++ [r]) rest

def PhaseOK (cfg : Cfg) : Phase → List Req → Prop
  | .got (some tr), r :: _ => GoodTr cfg r.key tr
  | .needStore tr, r :: _ => OwnTr cfg r tr
  | _, _ => True

def ThreadOK (cfg : Cfg) (th : Thread) : Prop :=
  WFReqs cfg (th.used.map (·.1)) th.todo ∧
  (∀ x, x ∈ th.used → OwnTr cfg x.1 x.2) ∧
  th.raised = [] ∧
  PhaseOK cfg th.phase th.todo

theorem build_ok (cfg : Cfg) (th : Thread) (r : Req)
    (hu : ∀ x, x ∈ th.used → OwnTr cfg x.1 x.2) (hr : ReqOK cfg (th.used.map (·.1)) r) :
    ∃ tr, build cfg th r = .ok tr ∧ OwnTr cfg r tr := by
  obtain ⟨⟨p, hp⟩, hb⟩ := hr
  unfold build
  cases hbase : r.base with
  | none =>
    simp only [hbase] at hb
    obtain ⟨c, hc⟩ := hb
    have : soloPins cfg r.key r.vars = pinAll r.vars [] (cfg.pins r.key) := by
      rw [hc]; simp [soloPins]
    have hbuild : pinAll r.vars [] (cfg.pins r.key) = some p := by rw [← this]; exact hp
    simp only [hbuild]
    exact ⟨⟨r.key, p, th.tid⟩, rfl, And.intro rfl hp⟩
  | some j =>
    simp only [hbase] at hb
    obtain ⟨r', hj, ⟨f, hf⟩, hv⟩ := hb
    rw [List.getElem?_map] at hj
    cases hj' : th.used[j]? with
    | none => simp [hj'] at hj
    | some x =>
      obtain ⟨r0, tr0⟩ := x
      simp only [hj', Option.map_some, Option.some.injEq] at hj
      subst hj
      have hown := hu (r0, tr0) (List.mem_of_getElem? hj')
      obtain ⟨_, hs⟩ := hown
      simp only at hs
      have : soloPins cfg r.key r.vars = pinAll r.vars tr0.pinned (cfg.pins r.key) := by
        rw [hf]; simp only [soloPins]; rw [← hv, hs]
      have hbuild : pinAll r.vars tr0.pinned (cfg.pins r.key) = some p := by rw [← this]; exact hp
      simp only [hj', hbuild]
      exact ⟨⟨r.key, p, th.tid⟩, rfl, And.intro rfl hp⟩

theorem mem_finish_used (th : Thread) (r : Req) (rest : List Req) (tr : Translator) (x : Req × Translator) :
    x ∈ (finish th r rest tr).used ↔ x ∈ th.used ∨ x = (r, tr) := by
  simp [finish]

theorem own_finish (cfg : Cfg) (th : Thread) (r : Req) (rest : List Req) (tr : Translator)
    (hu : ∀ x, x ∈ th.used → OwnTr cfg x.1 x.2) (hown : OwnTr cfg r tr) :
    ∀ x, x ∈ (finish th r rest tr).used → OwnTr cfg x.1 x.2 := by
  intro x hx
  rcases (mem_finish_used th r rest tr x).1 hx with hx | hx
  · exact hu x hx
  · subst hx; exact hown

theorem WFReqs_finish (cfg : Cfg) (used : List (Req × Translator)) (r : Req) (rest : List Req) (tr : Translator)
    (h : WFReqs cfg (used.map (·.1)) (r :: rest)) :
    WFReqs cfg ((used ++ [(r, tr)]).map (·.1)) rest := by
  simpa using h.2

/-- what one step of the current code guarantees -/
structure StepOK (cfg : Cfg) (c : Cache) (th : Thread) (res : Cache × Thread × Out) : Prop where
  cache : CacheOK cfg res.1
  thread : ThreadOK cfg res.2.1
  noError : res.2.2.isError = false
  tid : res.2.1.tid = th.tid
  prog : res.2.1.used.map (·.1) ++ res.2.1.todo = th.used.map (·.1) ++ th.todo

theorem afterNone_ok (cfg : Cfg) (th : Thread) (r : Req) (rest : List Req)
    (hth : ThreadOK cfg th) (htodo : th.todo = r :: rest) :
    ThreadOK cfg (afterNone cfg th r rest).1 ∧ (afterNone cfg th r rest).2 = .built ∧
    (afterNone cfg th r rest).1.tid = th.tid ∧
    (afterNone cfg th r rest).1.used.map (·.1) ++ (afterNone cfg th r rest).1.todo = th.used.map (·.1) ++ th.todo := by
  obtain ⟨hwf, hu, hr, _⟩ := hth
  rw [htodo] at hwf
  obtain ⟨tr, hb, hown⟩ := build_ok cfg th r hu hwf.1
  by_cases hc : r.cacheable
  · have e : afterNone cfg th r rest = ({ th with phase := .needStore tr }, .built) := by
      unfold afterNone; simp [hb, hc]
    rw [e]
    refine ⟨⟨?_, hu, hr, ?_⟩, rfl, rfl, rfl⟩
    · simpa [htodo] using hwf
    · simpa [htodo, PhaseOK] using hown
  · have e : afterNone cfg th r rest = (finish th r rest tr, .built) := by
      unfold afterNone; simp [hb, hc]
    rw [e]
    refine ⟨⟨?_, own_finish cfg th r rest tr hu hown, hr, ?_⟩, rfl, rfl, ?_⟩
    · exact WFReqs_finish cfg th.used r rest tr hwf
    · simp [finish, PhaseOK]
    · simp [finish, htodo]

theorem tstep_ok (cfg : Cfg) (c : Cache) (th : Thread) (hc : CacheOK cfg c) (hth : ThreadOK cfg th) :
    StepOK cfg c th (tstep cfg false c th) := by
  unfold tstep
  cases htodo : th.todo with
  | nil => exact ⟨hc, hth, rfl, rfl, by simp [htodo]⟩
  | cons r rest =>
    have hth' := hth
    obtain ⟨hwf, hu, hr, hph⟩ := hth
    simp only
    cases hphase : th.phase with
    | idle =>
      simp only
      refine ⟨hc, ⟨by simpa [htodo] using hwf, hu, hr, ?_⟩, ?_, rfl, by simp [htodo]⟩
      · cases hg : cget r.key c with
        | none => simp [PhaseOK]
        | some tr => simpa [PhaseOK] using hc r.key tr hg
      · cases cget r.key c <;> rfl
    | got o =>
      cases o with
      | none =>
        obtain ⟨h1, h2, h3, h4⟩ := afterNone_ok cfg th r rest hth' htodo
        exact ⟨hc, h1, by simp [h2, Out.isError], h3, by simpa [htodo] using h4⟩
      | some tr =>
        have hgood : GoodTr cfg r.key tr := by simpa [hphase, htodo, PhaseOK] using hph
        simp only
        by_cases hfs : r.funcStale
        · simp only [hfs, if_true]
          obtain ⟨h1, h2, h3, h4⟩ := afterNone_ok cfg th r rest hth' htodo
          exact ⟨hc, h1, by simp [h2, Out.isError], h3, by simpa [htodo] using h4⟩
        · simp only [hfs]
          rw [htodo] at hwf
          obtain ⟨p, hp⟩ := hwf.1.1
          obtain ⟨hk, w, hw⟩ := hgood
          have hkeys := soloPins_keys cfg hw hp
          have hno := compare_no_assert r.vars tr.pinned (KeysIn_of_keys_eq hkeys.1 hkeys.2)
          cases hcmp : compare r.vars tr.pinned with
          | assertFail => exact absurd hcmp hno
          | stale =>
            exact ⟨hc, ⟨by simpa [htodo] using hwf, hu, hr, by simp [PhaseOK]⟩, rfl, rfl, by simp [htodo]⟩
          | same =>
            have hag := (compare_same_iff r.vars tr.pinned).1 hcmp
            have hpe : p = tr.pinned := soloPins_agree cfg hw hp hag
            exact ⟨hc, ⟨WFReqs_finish cfg th.used r rest tr hwf,
              own_finish cfg th r rest tr hu ⟨hk, by simpa [hpe] using hp⟩, hr, by simp [finish, PhaseOK]⟩, rfl, rfl,
              by simp [finish, htodo]⟩
    | needPop =>
      simp only [Bool.false_and, Bool.false_eq_true, if_false]
      obtain ⟨h1, h2, h3, h4⟩ := afterNone_ok cfg th r rest hth' htodo
      refine ⟨?_, h1, by simp [h2, Out.isError], h3, by simpa [htodo] using h4⟩
      intro k tr hg
      by_cases hk : k = r.key
      · subst hk; simp [cget_cdel_same] at hg
      · rw [cget_cdel_other r.key k c hk] at hg; exact hc k tr hg
    | needStore tr =>
      have hown : OwnTr cfg r tr := by simpa [hphase, htodo, PhaseOK] using hph
      rw [htodo] at hwf
      refine ⟨?_, ⟨WFReqs_finish cfg th.used r rest tr hwf, own_finish cfg th r rest tr hu hown, hr,
        by simp [finish, PhaseOK]⟩, rfl, rfl, by simp [finish, htodo]⟩
      · intro k tr' hg
        by_cases hk : k = r.key
        · subst hk
          rw [cget_cset_same] at hg
          cases hg
          exact ⟨hown.1, r.vars, hown.2⟩
        · rw [cget_cset_other r.key k tr c hk] at hg; exact hc k tr' hg

end PonyVerif.Model.SharedCache
