/- helper lemmas for C31: the decoder inverts the composite-key encoder -/
import PonyVerif.Model.Serial
namespace PonyVerif.Model.Serial

/-- the two sequential `replace` passes act as one per-character substitution -/
theorem escItem_cons (c : Char) (cs : List Char) :
    escItem (c :: cs) = (if c = '*' then ['*', '*'] else if c = ',' then ['*', ','] else [c]) ++ escItem cs := by
  unfold escItem
  by_cases h1 : c = '*'
  · subst h1; simp [replStar, replComma]
  · by_cases h2 : c = ','
    · subst h2; simp [replStar, replComma]
    · simp [replStar, replComma, h1, h2]

@[simp] theorem escItem_nil : escItem [] = [] := rfl

/-- prepend a whole decoded text to the part currently being read -/
def pushAll (x : List Char) : List (List Char) → List (List Char)
  | [] => [x]
  | y :: ys => (x ++ y) :: ys

theorem pushAll_nil (l : List (List Char)) (h : l ≠ []) : pushAll [] l = l := by
  cases l with
  | nil => exact absurd rfl h
  | cons y ys => simp [pushAll]

theorem pushChar_pushAll (c : Char) (x : List Char) (l : List (List Char)) (h : l ≠ []) :
    pushChar c (pushAll x l) = pushAll (c :: x) l := by
  cases l with
  | nil => exact absurd rfl h
  | cons y ys => simp [pushAll, pushChar]

theorem decodeGo_ne_nil : ∀ (s : List Char) (e : Bool) (l), decodeGo e s = some l → l ≠ []
  | [], false, l, h => by simp [decodeGo] at h; subst h; simp
  | [], true, l, h => by simp [decodeGo] at h
  | c :: r, false, l, h => by
      simp only [decodeGo] at h
      split at h
      · exact decodeGo_ne_nil r true l h
      · split at h
        · simp only [Option.map_eq_some_iff] at h
          obtain ⟨l', _, rfl⟩ := h
          simp
        · simp only [Option.map_eq_some_iff] at h
          obtain ⟨l', _, rfl⟩ := h
          cases l' <;> simp [pushChar]
  | c :: r, true, l, h => by
      simp only [decodeGo] at h
      split at h
      · simp only [Option.map_eq_some_iff] at h
        obtain ⟨l', _, rfl⟩ := h
        cases l' <;> simp [pushChar]
      · simp at h

theorem decodeChars_some_ne_nil {s : List Char} {l} (h : decodeChars s = some l) : l ≠ [] :=
  decodeGo_ne_nil s false l h

/-- scanning an escaped part `escItem x` in front of any text `rest` reads exactly `x` -/
theorem decodeChars_escItem_append (x rest : List Char) :
    decodeChars (escItem x ++ rest) = (decodeChars rest).map (pushAll x) := by
  induction x with
  | nil =>
    simp only [escItem_nil, List.nil_append]
    cases h : decodeChars rest with
    | none => rfl
    | some l => simp [pushAll_nil l (decodeChars_some_ne_nil h)]
  | cons c cs ih =>
    rw [escItem_cons]
    unfold decodeChars at ih ⊢
    by_cases h1 : c = '*'
    · subst h1
      simp only [if_true, List.cons_append, List.nil_append, decodeGo, true_or]
      rw [ih]
      cases h : decodeGo false rest with
      | none => rfl
      | some l => simp [pushChar_pushAll _ _ l (decodeGo_ne_nil _ _ _ h)]
    · by_cases h2 : c = ','
      · subst h2
        simp only [if_neg h1, if_true, List.cons_append, List.nil_append, decodeGo, or_true]
        rw [ih]
        cases h : decodeGo false rest with
        | none => rfl
        | some l => simp [pushChar_pushAll _ _ l (decodeGo_ne_nil _ _ _ h)]
      · simp only [if_neg h1, if_neg h2, List.cons_append, List.nil_append, decodeGo]
        rw [ih]
        cases h : decodeGo false rest with
        | none => rfl
        | some l => simp [pushChar_pushAll _ _ l (decodeGo_ne_nil _ _ _ h)]

theorem decodeChars_escItem (x : List Char) : decodeChars (escItem x) = some [x] := by
  have := decodeChars_escItem_append x []
  simpa [decodeChars, decodeGo, pushAll] using this

/-- `decode ∘ encode = id` on non-empty lists of key parts (code-point level) -/
theorem decodeChars_reduceChars : ∀ (items : List (List Char)), items ≠ [] → decodeChars (reduceChars items) = some items
  | [], h => absurd rfl h
  | [x], _ => by simp [reduceChars, joinComma, decodeChars_escItem]
  | x :: y :: r, _ => by
    have ih := decodeChars_reduceChars (y :: r) (by simp)
    simp only [reduceChars, List.map_cons, joinComma] at ih ⊢
    rw [decodeChars_escItem_append]
    have hc : decodeChars (',' :: joinComma (escItem y :: List.map escItem r))
        = (decodeChars (joinComma (escItem y :: List.map escItem r))).map (fun l => [] :: l) := by
      simp [decodeChars, decodeGo]
    rw [hc, ih]
    simp [pushAll]

end PonyVerif.Model.Serial
