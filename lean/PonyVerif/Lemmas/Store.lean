/-
  Lemmas about the digit / byte codecs of Model/Store.lean (C07).
-/
import PonyVerif.Model.Store
namespace PonyVerif.Model.Store

theorem digitVal_digitChar : ∀ d, d < 10 → digitVal (digitChar d) = some d := by decide

@[simp] theorem length_padN (w n : Nat) : (padN w n).length = w := by
  induction w generalizing n with
  | zero => rfl
  | succ w ih => simp [padN, ih]

theorem foldl_parseStep_padN (w : Nat) : ∀ (n a : Nat),
    (padN w n).foldl parseStep (some a) = some (a * 10 ^ w + n % 10 ^ w) := by
  induction w with
  | zero => intro n a; simp [padN, Nat.mod_one]
  | succ w ih =>
    intro n a
    simp only [padN, List.foldl_append, ih, List.foldl_cons, List.foldl_nil, parseStep,
      digitVal_digitChar (n % 10) (Nat.mod_lt _ (by decide))]
    congr 1
    have h1 : n % 10 ^ (w + 1) = (n / 10 % 10 ^ w) * 10 + n % 10 := by
      rw [Nat.pow_succ, Nat.mul_comm (10 ^ w) 10, Nat.mod_mul, Nat.add_comm, Nat.mul_comm]
    rw [h1, Nat.pow_succ]
    simp only [Nat.add_mul, Nat.mul_assoc, Nat.add_assoc]

theorem parseNat_padN (w n : Nat) : parseNat (padN w n) = some (n % 10 ^ w) := by
  simp [parseNat, foldl_parseStep_padN]

theorem parseNat_padN_lt (w n : Nat) (h : n < 10 ^ w) : parseNat (padN w n) = some n := by
  rw [parseNat_padN, Nat.mod_eq_of_lt h]

theorem takeDigits_padN (w n : Nat) (rest : List Char) (h : n < 10 ^ w) :
    takeDigits w (padN w n ++ rest) = some (n, rest) := by
  unfold takeDigits
  have hl : ¬ (padN w n ++ rest).length < w := by simp
  rw [if_neg hl]
  have ht : (padN w n ++ rest).take w = padN w n := by
    rw [List.take_append_of_le_length (by simp)]; simp [List.take_of_length_le]
  have hd : (padN w n ++ rest).drop w = rest := by
    rw [List.drop_append_of_le_length (by simp)]; simp [List.drop_of_length_le]
  rw [ht, hd, parseNat_padN_lt w n h]

@[simp] theorem expect_cons (c : Char) (r : List Char) : expect c (c :: r) = some r := by simp [expect]

@[simp] theorem length_toBytesBE (k v : Nat) : (toBytesBE k v).length = k := by
  induction k generalizing v with
  | zero => rfl
  | succ k ih => simp [toBytesBE, ih]

theorem foldl_bytes (k : Nat) : ∀ (v a : Nat),
    (toBytesBE k v).foldl (fun acc x => acc * 256 + x) a = a * 256 ^ k + v % 256 ^ k := by
  induction k with
  | zero => intro v a; simp [toBytesBE, Nat.mod_one]
  | succ k ih =>
    intro v a
    simp only [toBytesBE, List.foldl_append, ih, List.foldl_cons, List.foldl_nil]
    have h1 : v % 256 ^ (k + 1) = (v / 256 % 256 ^ k) * 256 + v % 256 := by
      rw [Nat.pow_succ, Nat.mul_comm (256 ^ k) 256, Nat.mod_mul, Nat.add_comm, Nat.mul_comm]
    rw [h1, Nat.pow_succ]
    simp only [Nat.add_mul, Nat.mul_assoc, Nat.add_assoc]

theorem fromBytesBE_toBytesBE (k v : Nat) : fromBytesBE (toBytesBE k v) = v % 256 ^ k := by
  simp [fromBytesBE, foldl_bytes]

end PonyVerif.Model.Store
