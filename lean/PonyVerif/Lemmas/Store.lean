/-
  Lemmas about the digit / byte codecs of Model/Store.lean (C07).
-/
import PonyVerif.Model.Store
namespace PonyVerif.Model.Store

theorem digitVal_digitChar : ∀ d, d < 10 → digitVal (digitChar d) = some d := by decide

@[simp] theorem length_padN (w n : Nat) : (padN w n).length = w := by
  induction w generalizing n with
  | zero => rfl
  | succ w ih => simp [padN, ih]

theorem foldl_parseStep_padN (w : Nat) : ∀ (n a : Nat),
    (padN w n).foldl parseStep (some a) = some (a * 10 ^ w + n % 10 ^ w) := by
  induction w with
  | zero => intro n a; simp [padN, Nat.mod_one]
  | succ w ih =>
    intro n a
    simp only [padN, List.foldl_append, ih, List.foldl_cons, List.foldl_nil, parseStep,
      digitVal_digitChar (n % 10) (Nat.mod_lt _ (by decide))]
    congr 1
    have h1 : n % 10 ^ (w + 1) = (n / 10 % 10 ^ w) * 10 + n % 10 := by
      rw [Nat.pow_succ, Nat.mul_comm (10 ^ w) 10, Nat.mod_mul, Nat.add_comm, Nat.mul_comm]
    rw [h1, Nat.pow_succ]
    simp only [Nat.add_mul, Nat.mul_assoc, Nat.add_assoc]

theorem parseNat_padN (w n : Nat) : parseNat (padN w n) = some (n % 10 ^ w) := by
  simp [parseNat, foldl_parseStep_padN]

theorem parseNat_padN_lt (w n : Nat) (h : n < 10 ^ w) : parseNat (padN w n) = some n := by
  rw [parseNat_padN, Nat.mod_eq_of_lt h]

theorem takeDigits_padN (w n : Nat) (rest : List Char) (h : n < 10 ^ w) :
    takeDigits w (padN w n ++ rest) = some (n, rest) := by
  unfold takeDigits
  have hl : ¬ (padN w n ++ rest).length < w := by simp
  rw [if_neg hl]
  have ht : (padN w n ++ rest).take w = padN w n := by
    rw [List.take_append_of_le_length (by simp)]; simp [List.take_of_length_le]
  have hd : (padN w n ++ rest).drop w = rest := by
    rw [List.drop_append_of_le_length (by simp)]; simp [List.drop_of_length_le]
  rw [ht, hd, parseNat_padN_lt w n h]

@[simp] theorem expect_cons (c : Char) (r : List Char) : expect c (c :: r) = some r := by simp [expect]

@[simp] theorem length_toBytesBE (k v : Nat) : (toBytesBE k v).length = k := by
  induction k generalizing v with
  | zero => rfl
  | succ k ih => simp [toBytesBE, ih]

theorem foldl_bytes (k : Nat) : ∀ (v a : Nat),
    (toBytesBE k v).foldl (fun acc x => acc * 256 + x) a = a * 256 ^ k + v % 256 ^ k := by
  induction k with
  | zero => intro v a; simp [toBytesBE, Nat.mod_one]
  | succ k ih =>
    intro v a
    simp only [toBytesBE, List.foldl_append, ih, List.foldl_cons, List.foldl_nil]
    have h1 : v % 256 ^ (k + 1) = (v / 256 % 256 ^ k) * 256 + v % 256 := by
      rw [Nat.pow_succ, Nat.mul_comm (256 ^ k) 256, Nat.mod_mul, Nat.add_comm, Nat.mul_comm]
    rw [h1, Nat.pow_succ]
    simp only [Nat.add_mul, Nat.mul_assoc, Nat.add_assoc]

theorem fromBytesBE_toBytesBE (k v : Nat) : fromBytesBE (toBytesBE k v) = v % 256 ^ k := by
  simp [fromBytesBE, foldl_bytes]

/-! ### unpadded decimal numbers and the timedelta text -/

theorem isDigitC_digitChar (d : Nat) (h : d < 10) : isDigitC (digitChar d) = true := by
  simp [isDigitC, digitVal_digitChar d h]

theorem natDigits_all_digits (n : Nat) : ∀ c ∈ natDigits n, isDigitC c = true := by
  induction n using Nat.strongRecOn with
  | _ n ih =>
    rw [natDigits]
    split
    · intro c hc; simp at hc; subst hc; exact isDigitC_digitChar n (by omega)
    · intro c hc
      rw [List.mem_append] at hc
      rcases hc with hc | hc
      · exact ih (n / 10) (by omega) c hc
      · simp at hc; subst hc; exact isDigitC_digitChar _ (Nat.mod_lt _ (by decide))

theorem foldl_parseStep_natDigits (n : Nat) : ∀ a : Nat, (natDigits n).foldl parseStep (some a) = some (a * 10 ^ (natDigits n).length + n) := by
  induction n using Nat.strongRecOn with
  | _ n ih =>
    intro a
    rw [natDigits]
    split
    · rename_i h
      simp [parseStep, digitVal_digitChar n h]
    · rename_i h
      rw [List.foldl_append, ih (n / 10) (by omega)]
      simp only [List.foldl_cons, List.foldl_nil, parseStep, digitVal_digitChar (n % 10) (Nat.mod_lt _ (by decide)),
        List.length_append, List.length_cons, List.length_nil, Nat.pow_succ]
      congr 1
      have := Nat.div_add_mod n 10
      generalize 10 ^ (natDigits (n / 10)).length = p
      rw [Nat.add_mul, Nat.mul_assoc]
      omega

theorem parseNat_natDigits (n : Nat) : parseNat (natDigits n) = some n := by
  simp [parseNat, foldl_parseStep_natDigits]

theorem takeWhile_natDigits (n : Nat) (c : Char) (rest : List Char) (hc : isDigitC c = false) :
    (natDigits n ++ c :: rest).takeWhile isDigitC = natDigits n ∧ (natDigits n ++ c :: rest).dropWhile isDigitC = c :: rest := by
  have hall := natDigits_all_digits n
  generalize natDigits n = l at hall
  induction l with
  | nil => simp [hc]
  | cons x xs ih =>
    have hx : isDigitC x = true := hall x (by simp)
    have := ih (fun c hc => hall c (by simp [hc]))
    simp [hx, this]

theorem takeWhile_natDigits_end (n : Nat) :
    (natDigits n).takeWhile isDigitC = natDigits n ∧ (natDigits n).dropWhile isDigitC = [] := by
  have hall := natDigits_all_digits n
  generalize natDigits n = l at hall
  induction l with
  | nil => simp
  | cons x xs ih =>
    have hx : isDigitC x = true := hall x (by simp)
    have := ih (fun c hc => hall c (by simp [hc]))
    simp [hx, this]

theorem natDigits_cons (n : Nat) : ∃ x xs, natDigits n = x :: xs ∧ isDigitC x = true := by
  have hall := natDigits_all_digits n
  cases hl : natDigits n with
  | nil =>
    rw [natDigits] at hl
    split at hl <;> simp at hl
  | cons x xs => exact ⟨x, xs, rfl, hall x (by simp [hl])⟩

theorem isDigitC_colon : isDigitC ':' = false := by decide
theorem isDigitC_dot : isDigitC '.' = false := by decide
theorem isDigitC_minus : isDigitC '-' = false := by decide

theorem parseTdBody_shape (H M S us : Nat) (hus : us < 1000000) :
    parseTdBody (natDigits H ++ (':' :: (natDigits M ++ (':' :: (natDigits S ++ (if us ≠ 0 then '.' :: padN 6 us else []))))))
      = some (((H * 3600 + M * 60 + S : Nat) : Int) * 1000000 + (us : Int)) := by
  unfold parseTdBody
  obtain ⟨t1, d1⟩ := takeWhile_natDigits H ':' (natDigits M ++ (':' :: (natDigits S ++ (if us ≠ 0 then '.' :: padN 6 us else [])))) isDigitC_colon
  rw [t1, d1, parseNat_natDigits]
  simp only
  obtain ⟨t2, d2⟩ := takeWhile_natDigits M ':' (natDigits S ++ (if us ≠ 0 then '.' :: padN 6 us else [])) isDigitC_colon
  rw [t2, d2, parseNat_natDigits]
  simp only
  by_cases h0 : us = 0
  · subst h0
    simp only [ne_eq, not_true_eq_false, if_false, List.append_nil]
    obtain ⟨t3, d3⟩ := takeWhile_natDigits_end S
    rw [t3, d3, parseNat_natDigits]
    simp
  · simp only [ne_eq, h0, not_false_eq_true, if_true]
    obtain ⟨t3, d3⟩ := takeWhile_natDigits S '.' (padN 6 us) isDigitC_dot
    rw [t3, d3, parseNat_natDigits]
    simp only
    have hf : ((padN 6 us ++ zeros6).take 6) = padN 6 us := by
      rw [List.take_append_of_le_length (by simp), List.take_of_length_le (by simp)]
    rw [hf, parseNat_padN_lt 6 us (by omega)]

theorem stripNeg_natDigits (n : Nat) (rest : List Char) : stripNeg (natDigits n ++ rest) = (false, natDigits n ++ rest) := by
  obtain ⟨x, xs, hx, hd⟩ := natDigits_cons n
  rw [hx]
  have : x ≠ '-' := by intro h; subst h; simp [isDigitC_minus] at hd
  simp [stripNeg, this]

theorem stripNeg_minus (r : List Char) : stripNeg ('-' :: r) = (true, r) := by simp [stripNeg]


/-! ### numeric-literal recogniser -/

theorem padN_all_digits (w n : Nat) : ∀ c ∈ padN w n, isDigitC c = true := by
  induction w generalizing n with
  | zero => intro c hc; simp [padN] at hc
  | succ w ih =>
    intro c hc
    simp only [padN, List.mem_append, List.mem_singleton] at hc
    rcases hc with hc | hc
    · exact ih _ c hc
    · subst hc; exact isDigitC_digitChar _ (Nat.mod_lt _ (by decide))

theorem padN_succ_cons (w n : Nat) : ∃ x xs, padN (w + 1) n = x :: xs ∧ isDigitC x = true := by
  have hall := padN_all_digits (w + 1) n
  cases hl : padN (w + 1) n with
  | nil => have := length_padN (w + 1) n; rw [hl] at this; simp at this
  | cons x xs => exact ⟨x, xs, rfl, hall x (by simp [hl])⟩

theorem takeWhile_digits_append (l : List Char) (hall : ∀ c ∈ l, isDigitC c = true) (c : Char) (rest : List Char) (hc : isDigitC c = false) :
    (l ++ c :: rest).takeWhile isDigitC = l ∧ (l ++ c :: rest).dropWhile isDigitC = c :: rest := by
  induction l with
  | nil => simp [hc]
  | cons x xs ih =>
    have hx : isDigitC x = true := hall x (by simp)
    have := ih (fun c hc => hall c (by simp [hc]))
    simp [hx, this]

/-- a text that starts with at least one digit and continues with a character that is neither a digit nor `.`/`e`/`E`
    nor a space is not a numeric literal -/
theorem looksNumeric_digits_then (w n : Nat) (c : Char) (rest : List Char)
    (h1 : isDigitC c = false) (h2 : c ≠ '.') (h3 : c ≠ 'e') (h4 : c ≠ 'E') (h5 : isSpaceSql c = false) :
    looksNumeric (padN (w + 1) n ++ c :: rest) = false := by
  obtain ⟨x, xs, hx, hd⟩ := padN_succ_cons w n
  have hall := padN_all_digits (w + 1) n
  have hxs : isSpaceSql x = false := by
    cases hsp : isSpaceSql x
    · rfl
    · exfalso
      simp [isSpaceSql] at hsp
      rcases hsp with ((((rfl | rfl) | rfl) | rfl) | rfl) | rfl <;> simp [isDigitC, digitVal] at hd
  have hsign : x ≠ '+' ∧ x ≠ '-' := by
    constructor <;> (intro h; subst h; simp [isDigitC, digitVal] at hd)
  unfold looksNumeric
  have e1 : (padN (w + 1) n ++ c :: rest).dropWhile isSpaceSql = padN (w + 1) n ++ c :: rest := by
    rw [hx]; simp [hxs]
  have e2 : dropSign (padN (w + 1) n ++ c :: rest) = padN (w + 1) n ++ c :: rest := by
    rw [hx]; simp [dropSign, hsign.1, hsign.2]
  obtain ⟨t, d⟩ := takeWhile_digits_append (padN (w + 1) n) hall c rest h1
  simp only [e1, e2, t, d]
  have hne : (padN (w + 1) n).isEmpty = false := by rw [hx]; rfl
  split
  · rename_i r heq; injection heq with h _; exact absurd h h2
  · simp only [hne, Bool.false_eq_true, if_false]
    unfold expTailOk
    have : (c == 'e' || c == 'E') = false := by simp [h3, h4]
    simp [this, h5]


/-! ### int / str array and JSON string codecs -/

theorem natDigits_ne_nil (n : Nat) : natDigits n ≠ [] := by
  obtain ⟨x, xs, h, _⟩ := natDigits_cons n; rw [h]; simp

theorem parseIntTok_intText (i : Int) : parseIntTok (intText i) = some i := by
  unfold intText
  split
  · rename_i h
    have hne := natDigits_ne_nil (-i).toNat
    simp only [parseIntTok, if_true]
    cases hd : natDigits (-i).toNat with
    | nil => exact absurd hd hne
    | cons x xs =>
      rw [← hd, parseNat_natDigits]
      simp
      exact ⟨hne, by omega⟩
  · rename_i h
    obtain ⟨x, xs, hx, hdig⟩ := natDigits_cons i.toNat
    have hm : x ≠ '-' := by intro e; subst e; simp [isDigitC_minus] at hdig
    rw [hx]
    simp only [parseIntTok, hm, if_false]
    rw [← hx, parseNat_natDigits]
    simp
    omega

theorem intText_no_comma (i : Int) : ∀ c ∈ intText i, c ≠ ',' := by
  intro c hc
  unfold intText at hc
  have hd : ∀ n, ∀ c ∈ natDigits n, c ≠ ',' := by
    intro n c hc e; subst e
    have := natDigits_all_digits n _ hc
    revert this; decide
  split at hc
  · simp at hc
    rcases hc with rfl | hc
    · decide
    · exact hd _ c hc
  · exact hd _ c hc

theorem splitComma_single (t : List Char) (h : ∀ c ∈ t, c ≠ ',') : splitComma t = [t] := by
  induction t with
  | nil => rfl
  | cons c r ih =>
    have hc : c ≠ ',' := h c (by simp)
    simp [splitComma, hc, ih (fun c hc => h c (by simp [hc]))]

theorem splitComma_append (t rest : List Char) (h : ∀ c ∈ t, c ≠ ',') : splitComma (t ++ ',' :: rest) = t :: splitComma rest := by
  induction t with
  | nil => simp [splitComma]
  | cons c r ih =>
    have hc : c ≠ ',' := h c (by simp)
    simp [splitComma, hc, ih (fun c hc => h c (by simp [hc]))]

theorem splitComma_joinComma (ts : List (List Char)) (hne : ts ≠ []) (h : ∀ t ∈ ts, ∀ c ∈ t, c ≠ ',') :
    splitComma (joinComma ts) = ts := by
  induction ts with
  | nil => exact absurd rfl hne
  | cons t rest ih =>
    cases rest with
    | nil => simp [joinComma, splitComma_single t (h t (by simp))]
    | cons u us =>
      simp only [joinComma]
      rw [splitComma_append t _ (h t (by simp)), ih (by simp) (fun t ht => h t (by simp [ht]))]

theorem joinComma_intText_ne_nil (l : List Int) (h : l ≠ []) : joinComma (l.map intText) ≠ [] := by
  cases l with
  | nil => exact absurd rfl h
  | cons i r =>
    have : intText i ≠ [] := by
      unfold intText; split
      · simp
      · exact natDigits_ne_nil _
    cases r with
    | nil => simpa [joinComma] using this
    | cons j r' =>
      simp only [List.map, joinComma]
      intro e
      have := List.append_eq_nil_iff.mp e
      exact absurd this.1 (by simpa using ‹intText i ≠ []›)

theorem mapM_parseIntTok (l : List Int) : (l.map intText).mapM parseIntTok = some l := by
  induction l with
  | nil => rfl
  | cons i r ih => simp [List.mapM_cons, parseIntTok_intText, ih]

/-- int arrays: every list of integers (any length, any magnitude, either sign) survives dumps / loads -/
theorem loads_dumps_intArray (l : List Int) : loadsIntArray (dumpsIntArray l) = some l := by
  unfold dumpsIntArray loadsIntArray
  simp only [List.getLast?_append, List.getLast?_singleton, Option.some_or, List.dropLast_concat]
  cases l with
  | nil => simp [joinComma]
  | cons i r =>
    have hne := joinComma_intText_ne_nil (i :: r) (by simp)
    have he : (joinComma ((i :: r).map intText)).isEmpty = false := by
      cases h : joinComma ((i :: r).map intText) with
      | nil => exact absurd h hne
      | cons _ _ => rfl
    simp only [he, Bool.false_eq_true, if_false]
    rw [splitComma_joinComma _ (by simp) (by
      intro t ht c hc
      simp only [List.mem_map] at ht
      obtain ⟨j, _, rfl⟩ := ht
      exact intText_no_comma j c hc)]
    exact mapM_parseIntTok (i :: r)

theorem hexVal_hexDigit : ∀ k, k < 16 → hexVal (hexDigit k) = some k := by decide

theorem decodeBody_cons (c : Char) (r : List Char) : decodeBody (c :: r) =
    if c = '"' then some ([], r)
    else if c = '\\' then
      match r with
      | [] => none
      | e :: r2 =>
        if e = 'u' then
          match r2 with
          | a :: b :: c3 :: d :: r3 =>
            (match hexVal a, hexVal b, hexVal c3, hexVal d, decodeBody r3 with
             | some x1, some x2, some x3, some x4, some (t, rest) => some (Char.ofNat (((x1 * 16 + x2) * 16 + x3) * 16 + x4) :: t, rest)
             | _, _, _, _, _ => none)
          | _ => none
        else
          let lit : Option Char :=
            if e = '"' then some '"' else if e = '\\' then some '\\' else if e = '/' then some '/'
            else if e = 'n' then some '\n' else if e = 'r' then some '\r' else if e = 't' then some '\t'
            else if e = 'b' then some '\x08' else if e = 'f' then some '\x0c' else none
          match lit, decodeBody r2 with
          | some ch, some (t, rest) => some (ch :: t, rest)
          | _, _ => none
    else if c.toNat < 32 then none
    else match decodeBody r with
      | some (t, rest) => some (c :: t, rest)
      | none => none := by
  conv => lhs; rw [decodeBody.eq_def]
  rfl

theorem decodeBody_escChar (c : Char) (tail : List Char) :
    decodeBody (escChar c ++ tail) = match decodeBody tail with
      | some (t, rest) => some (c :: t, rest)
      | none => none := by
  unfold escChar
  by_cases h1 : c = '"'
  · subst h1; simp only [if_true, List.cons_append, List.nil_append]; rw [decodeBody_cons]
    simp (decide := true) only [if_true, if_false]
    cases hd : decodeBody tail <;> simp
  by_cases h2 : c = '\\'
  · subst h2; simp (decide := true) only [if_true, if_false, List.cons_append, List.nil_append]; rw [decodeBody_cons]
    simp (decide := true) only [if_true, if_false]
    cases hd : decodeBody tail <;> simp
  by_cases h3 : c = '\n'
  · subst h3; simp (decide := true) only [if_true, if_false, List.cons_append, List.nil_append]; rw [decodeBody_cons]
    simp (decide := true) only [if_true, if_false]
    cases hd : decodeBody tail <;> simp
  by_cases h4 : c = '\r'
  · subst h4; simp (decide := true) only [if_true, if_false, List.cons_append, List.nil_append]; rw [decodeBody_cons]
    simp (decide := true) only [if_true, if_false]
    cases hd : decodeBody tail <;> simp
  by_cases h5 : c = '\t'
  · subst h5; simp (decide := true) only [if_true, if_false, List.cons_append, List.nil_append]; rw [decodeBody_cons]
    simp (decide := true) only [if_true, if_false]
    cases hd : decodeBody tail <;> simp
  by_cases h6 : c = '\x08'
  · subst h6; simp (decide := true) only [if_true, if_false, List.cons_append, List.nil_append]; rw [decodeBody_cons]
    simp (decide := true) only [if_true, if_false]
    cases hd : decodeBody tail <;> simp
  by_cases h7 : c = '\x0c'
  · subst h7; simp (decide := true) only [if_true, if_false, List.cons_append, List.nil_append]; rw [decodeBody_cons]
    simp (decide := true) only [if_true, if_false]
    cases hd : decodeBody tail <;> simp
  simp only [h1, h2, h3, h4, h5, h6, h7, if_false]
  by_cases h8 : c.toNat < 32
  · simp only [h8, if_true]
    have hq : c.toNat / 16 < 16 := by omega
    have hr : c.toNat % 16 < 16 := Nat.mod_lt _ (by decide)
    have e0 : hexVal '0' = some 0 := by decide
    have hval : ((0 * 16 + 0) * 16 + c.toNat / 16) * 16 + c.toNat % 16 = c.toNat := by omega
    simp only [List.cons_append, List.nil_append]
    rw [decodeBody_cons]
    simp (decide := true) only [if_true, if_false, e0, hexVal_hexDigit _ hq, hexVal_hexDigit _ hr]
    cases decodeBody tail with
    | none => simp
    | some p =>
      simp
      have : c.toNat / 16 * 16 + c.toNat % 16 = c.toNat := by omega
      rw [this, Char.ofNat_toNat]
  · simp only [h8, if_false, List.cons_append, List.nil_append]
    rw [decodeBody_cons]
    simp [h1, h2, h8]

/-- a JSON string literal decodes to the string it was written from — for every string (every code point, including
    quotes, backslashes, NUL and the other control characters), whatever follows the closing quote -/
theorem decodeBody_escBody (s rest : List Char) : decodeBody (escBody s ++ '"' :: rest) = some (s, rest) := by
  induction s with
  | nil => simp [escBody, decodeBody_cons]
  | cons c r ih =>
    have : escBody (c :: r) ++ '"' :: rest = escChar c ++ (escBody r ++ '"' :: rest) := by
      simp [escBody, List.flatMap_cons, List.append_assoc]
    rw [this, decodeBody_escChar, ih]

theorem parseStrItems_dumps (t : List Char) (ts : List (List Char)) : ∀ fuel, ts.length < fuel →
    parseStrItems fuel (joinComma ((t :: ts).map encodeJsonStr) ++ [']']) = some (t :: ts) := by
  induction ts generalizing t with
  | nil =>
    intro fuel hf
    obtain ⟨f, rfl⟩ : ∃ f, fuel = f + 1 := ⟨fuel - 1, by omega⟩
    have e : joinComma ([t].map encodeJsonStr) ++ [']'] = '"' :: (escBody t ++ '"' :: [']']) := by
      simp [joinComma, encodeJsonStr]
    rw [e]
    simp [parseStrItems, decodeBody_escBody]
  | cons u us ih =>
    intro fuel hf
    obtain ⟨f, rfl⟩ : ∃ f, fuel = f + 1 := ⟨fuel - 1, by omega⟩
    have e : joinComma ((t :: u :: us).map encodeJsonStr) ++ [']'] =
        '"' :: (escBody t ++ '"' :: (',' :: (joinComma ((u :: us).map encodeJsonStr) ++ [']']))) := by
      simp [joinComma, encodeJsonStr]
    rw [e]
    have := ih u f (by simp at hf; omega)
    simp only [List.map_cons] at this
    simp [parseStrItems, decodeBody_escBody, this]

theorem length_joinComma_ge (l : List (List Char)) (h : ∀ t ∈ l, 2 ≤ t.length) : l.length ≤ (joinComma l).length + 1 := by
  induction l with
  | nil => simp
  | cons t r ih =>
    cases r with
    | nil => simp [joinComma]
    | cons u us =>
      have h1 := h t (by simp)
      have := ih (fun x hx => h x (by simp [hx]))
      simp only [joinComma, List.length_append, List.length_cons] at this ⊢
      omega

/-- str arrays: every list of strings (empty strings, quotes, backslashes, commas, brackets, NUL and control characters,
    any code point) survives dumps / loads -/
theorem loads_dumps_strArray (l : List (List Char)) : loadsStrArray (dumpsStrArray l) = some l := by
  cases l with
  | nil => simp [dumpsStrArray, loadsStrArray, joinComma]
  | cons t ts =>
    unfold dumpsStrArray loadsStrArray
    simp only [if_true]
    have hne : joinComma ((t :: ts).map encodeJsonStr) ++ [']'] ≠ [']'] := by
      intro e
      have hl := congrArg List.length e
      have := length_joinComma_ge ((t :: ts).map encodeJsonStr) (by
        intro x hx; simp only [List.mem_map] at hx; obtain ⟨y, _, rfl⟩ := hx; simp [encodeJsonStr])
      simp only [List.map_cons, List.length_append, List.length_cons, List.length_nil, List.length_map] at hl this
      have h2 : 2 ≤ (joinComma (encodeJsonStr t :: ts.map encodeJsonStr)).length := by
        cases ts with
        | nil => simp [joinComma, encodeJsonStr]
        | cons u us => simp [joinComma, encodeJsonStr]; omega
      omega
    rw [if_neg hne]
    apply parseStrItems_dumps
    have := length_joinComma_ge ((t :: ts).map encodeJsonStr) (by
      intro x hx; simp only [List.mem_map] at hx; obtain ⟨y, _, rfl⟩ := hx; simp [encodeJsonStr])
    simp at this ⊢
    omega


end PonyVerif.Model.Store
