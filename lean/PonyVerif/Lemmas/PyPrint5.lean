/-
  C04 — round trip of primaries (attribute, call, subscript, displays) and of the comma-separated sequences.
-/
import PonyVerif.Lemmas.PyPrint4
namespace PonyVerif.Model.PyPrint

theorem attr_goals (e : Expr) (a : String) (hP : PGoal e) (hE : EGoal e) : PGoal (.attr e a) ∧ EGoal (.attr e a) := by
  have h : PGoal (.attr e a) := by
    intro rest fuel _ _ hf
    simp only [cost] at hf
    rw [toks_attr]
    simp only [List.append_assoc, List.cons_append, List.nil_append, norm]
    obtain ⟨f1, hf1, heq⟩ := prim_parse e hP hE (.dot :: .name a :: rest) fuel (by simp) (by omega)
    obtain ⟨g, rfl⟩ : ∃ g, f1 = g + 1 := ⟨f1 - 1, by omega⟩
    exact ⟨g, by simp only [cost]; omega, by rw [heq, pPost_attr]⟩
  exact ⟨h, EGoal_of_PGoal _ (by simp [codePrio]) h⟩

theorem call_goals (fn : Expr) (a : Args) (hP : PGoal fn) (hE : EGoal fn) (ha : ArgsGoal a) :
    PGoal (.call fn a) ∧ EGoal (.call fn a) := by
  have h : PGoal (.call fn a) := by
    intro rest fuel _ _ hf
    simp only [cost] at hf
    rw [toks_call]
    simp only [List.append_assoc, List.cons_append, List.nil_append, norm]
    obtain ⟨f1, hf1, heq⟩ := prim_parse fn hP hE (.lpar :: (tArgs a ++ .rpar :: rest)) fuel (by simp) (by omega)
    obtain ⟨g, rfl⟩ : ∃ g, f1 = g + 1 := ⟨f1 - 1, by omega⟩
    exact ⟨g, by simp only [cost]; omega, by rw [heq, pPost_call g _ _ _ _ (ha rest g (by omega))]⟩
  exact ⟨h, EGoal_of_PGoal _ (by simp [codePrio]) h⟩

theorem subscript_goals (e : Expr) (i : Idx) (hP : PGoal e) (hE : EGoal e) (hi : IdxGoal i) :
    PGoal (.subscript e i) ∧ EGoal (.subscript e i) := by
  have h : PGoal (.subscript e i) := by
    intro rest fuel _ _ hf
    simp only [cost] at hf
    rw [toks_subscript]
    simp only [List.append_assoc, List.cons_append, List.nil_append, norm]
    obtain ⟨f1, hf1, heq⟩ := prim_parse e hP hE (.lbrk :: (tIdx i ++ .rbrk :: rest)) fuel (by simp) (by omega)
    obtain ⟨g, rfl⟩ : ∃ g, f1 = g + 2 := ⟨f1 - 2, by omega⟩
    refine ⟨g + 1, by simp only [cost]; omega, ?_⟩
    rw [heq, pPost_sub (g+1) _ _ _ _ (pSub_one g _ _ _ (hi .rbrk rest g (Or.inr rfl) (by omega)))]
    simp [Sub.mk]
  exact ⟨h, EGoal_of_PGoal _ (by simp [codePrio]) h⟩

theorem toks_subscriptT_cons (e : Expr) (i : Idx) (t : Idxs) :
    toks (.subscriptT e (.cons i t)) = primT e ++ .lbrk :: (tIdx i ++ .comma :: (tIdxs t ++ [.rbrk])) := by
  rw [toks_subscriptT, tIdxs_cons]
  cases t <;> simp [sepIdxs, Idxs.isNil, tIdxs_nil]

theorem subscriptT_goals (e : Expr) (i : Idx) (t : Idxs) (hP : PGoal e) (hE : EGoal e) (hi : IdxGoal i) (ht : IdxsGoal t) :
    PGoal (.subscriptT e (.cons i t)) ∧ EGoal (.subscriptT e (.cons i t)) := by
  have h : PGoal (.subscriptT e (.cons i t)) := by
    intro rest fuel _ _ hf
    simp only [cost, costIdxs] at hf
    rw [toks_subscriptT_cons]
    simp only [List.append_assoc, List.cons_append, List.nil_append, norm, normIdxs]
    obtain ⟨f1, hf1, heq⟩ := prim_parse e hP hE (.lbrk :: (tIdx i ++ .comma :: (tIdxs t ++ .rbrk :: rest))) fuel (by simp) (by omega)
    obtain ⟨g, rfl⟩ : ∃ g, f1 = g + 2 := ⟨f1 - 2, by omega⟩
    refine ⟨g + 1, by simp only [cost, costIdxs]; omega, ?_⟩
    rw [heq, pPost_sub (g+1) _ _ _ _ (pSub_many g _ _ _ _ _ (hi .comma _ g (Or.inl rfl) (by omega)) (ht rest g (by omega)))]
    simp [Sub.mk]
  exact ⟨h, EGoal_of_PGoal _ (by simp [codePrio]) h⟩

theorem list_goals (a : Args) (ha : ItemsGoal a) : PGoal (.list a) ∧ EGoal (.list a) := by
  have h : PGoal (.list a) := by
    intro rest fuel _ _ hf
    simp only [cost] at hf
    rw [toks_list]
    simp only [List.append_assoc, List.cons_append, List.nil_append, norm]
    obtain ⟨g, rfl⟩ : ∃ g, fuel = g + 1 := ⟨fuel - 1, by omega⟩
    exact ⟨g, by simp only [cost]; omega, pE_list g _ _ _ (ha .rbrk rest g (Or.inr rfl) (by omega))⟩
  exact ⟨h, EGoal_of_PGoal _ (by simp [codePrio]) h⟩

theorem dict_goals (k : KVs) (hk : KVsGoal k) : PGoal (.dict k) ∧ EGoal (.dict k) := by
  have h : PGoal (.dict k) := by
    intro rest fuel _ _ hf
    simp only [cost] at hf
    rw [toks_dict]
    simp only [List.append_assoc, List.cons_append, List.nil_append, norm]
    obtain ⟨g, rfl⟩ : ∃ g, fuel = g + 1 := ⟨fuel - 1, by omega⟩
    exact ⟨g, by simp only [cost]; omega, pE_dict g _ _ _ (hk rest g (by omega))⟩
  exact ⟨h, EGoal_of_PGoal _ (by simp [codePrio]) h⟩

theorem tuple_nil_goals : PGoal (.tuple .nil) ∧ EGoal (.tuple .nil) := by
  have h : PGoal (.tuple .nil) := by
    intro rest fuel _ _ hf
    simp only [cost, costArgs] at hf
    rw [toks_tuple]
    simp only [tArgs_nil, List.append_assoc, List.cons_append, List.nil_append, norm, normArgs]
    obtain ⟨g, rfl⟩ : ∃ g, fuel = g + 1 := ⟨fuel - 1, by omega⟩
    exact ⟨g, by simp only [cost, costArgs]; omega, pE_tuple_nil g rest⟩
  exact ⟨h, EGoal_of_PGoal _ (by simp [codePrio]) h⟩

theorem toks_tuple_pos (e : Expr) (t : Args) :
    toks (.tuple (.pos e t)) = .lpar :: (toks e ++ .comma :: (tArgs t ++ [.rpar])) := by
  rw [toks_tuple, tArgs_pos]
  cases t <;> simp [sepArgs, Args.isNil, tArgs_nil]
theorem toks_tuple_star (e : Expr) (t : Args) :
    toks (.tuple (.star e t)) = .lpar :: .bin .mult :: (toks e ++ .comma :: (tArgs t ++ [.rpar])) := by
  rw [toks_tuple, tArgs_star]
  cases t <;> simp [sepArgs, Args.isNil, tArgs_nil]

theorem tuple_pos_goals (e : Expr) (t : Args) (he : EGoal e) (ht : ItemsGoal t) :
    PGoal (.tuple (.pos e t)) ∧ EGoal (.tuple (.pos e t)) := by
  have h : PGoal (.tuple (.pos e t)) := by
    intro rest fuel _ _ hf
    simp only [cost, costArgs] at hf
    rw [toks_tuple_pos]
    simp only [List.append_assoc, List.cons_append, List.nil_append, norm, normArgs]
    obtain ⟨g, rfl⟩ : ∃ g, fuel = g + 1 := ⟨fuel - 1, by omega⟩
    refine ⟨g, by simp only [cost, costArgs]; omega, ?_⟩
    obtain ⟨t0, ts0, h1, h2, _, _⟩ := first_toks e (.comma :: (tArgs t ++ .rpar :: rest)) (by simp)
    have hc := he 16 (.comma :: (tArgs t ++ .rpar :: rest)) g (codePrio_le e) (by omega) (by omega) (by simp [Stops, contLvl]) (by omega)
    rw [h1] at hc ⊢
    exact pE_tuple_pos g t0 ts0 _ _ _ _ h2 hc (ht .rpar rest g (Or.inl rfl) (by omega))
  exact ⟨h, EGoal_of_PGoal _ (by simp [codePrio]) h⟩

theorem tuple_star_goals (e : Expr) (t : Args) (he : EGoal e) (h10 : codePrio e ≤ 10) (ht : ItemsGoal t) :
    PGoal (.tuple (.star e t)) ∧ EGoal (.tuple (.star e t)) := by
  have h : PGoal (.tuple (.star e t)) := by
    intro rest fuel _ _ hf
    simp only [cost, costArgs] at hf
    rw [toks_tuple_star]
    simp only [List.append_assoc, List.cons_append, List.nil_append, norm, normArgs]
    obtain ⟨g, rfl⟩ : ∃ g, fuel = g + 1 := ⟨fuel - 1, by omega⟩
    refine ⟨g, by simp only [cost, costArgs]; omega, ?_⟩
    have hc := he 10 (.comma :: (tArgs t ++ .rpar :: rest)) g h10 (by omega) (by omega) (by simp [Stops, contLvl]) (by omega)
    exact pE_tuple_star g _ _ _ _ _ hc (ht .rpar rest g (Or.inl rfl) (by omega))
  exact ⟨h, EGoal_of_PGoal _ (by simp [codePrio]) h⟩


/-! ### sequences -/

theorem Args.eq_nil_of_isNil {t : Args} (h : t.isNil = true) : t = .nil := by cases t <;> simp_all [Args.isNil]
theorem Idxs.eq_nil_of_isNil {t : Idxs} (h : t.isNil = true) : t = .nil := by cases t <;> simp_all [Idxs.isNil]
theorem Params.eq_nil_of_isNil {t : Params} (h : t.isNil = true) : t = .nil := by cases t <;> simp_all [Params.isNil]
theorem KVs.eq_nil_of_isNil {t : KVs} (h : t.isNil = true) : t = .nil := by cases t <;> simp_all [KVs.isNil]

theorem EsGoal_nil : EsGoal .nil := by
  intro isOr rest f hs hf
  simp only [costEs] at hf
  obtain ⟨g, rfl⟩ : ∃ g, f = g + 1 := ⟨f - 1, by omega⟩
  simp only [tEs_nil, List.nil_append, normEs]
  exact pBoolTail_stop g isOr rest hs
theorem EsGoal_cons (e : Expr) (t : Exprs) (he : EGoal e) (ht : EsGoal t) : EsGoal (.cons e t) := by
  intro isOr rest f hs hf
  simp only [costEs] at hf
  obtain ⟨g, rfl⟩ : ∃ g, f = g + 1 := ⟨f - 1, by omega⟩
  cases isOr
  · simp only [tEs_cons, List.append_assoc, List.cons_append, normEs, Bool.false_eq_true, if_false] at hs ⊢
    exact pBoolTail_and g _ _ _ _ _
      (wrap_parse e he 13 12 (tEs 13 .kAnd t ++ rest) g (by omega) (by omega) (by omega) (stops_tEs_and t rest hs) (by omega))
      (by simpa using ht false rest g (by simpa using hs) (by omega))
  · simp only [tEs_cons, List.append_assoc, List.cons_append, normEs, if_true] at hs ⊢
    exact pBoolTail_or g _ _ _ _ _
      (wrap_parse e he 14 13 (tEs 14 .kOr t ++ rest) g (by omega) (by omega) (by omega) (stops_tEs_or t rest hs) (by omega))
      (by simpa using ht true rest g (by simpa using hs) (by omega))

theorem CmpGoal_nil : CmpGoal .nil := by
  intro rest f hs hf
  simp only [costCmp] at hf
  obtain ⟨g, rfl⟩ : ∃ g, f = g + 1 := ⟨f - 1, by omega⟩
  simp only [tCmp_nil, List.nil_append, normCmp]
  exact pCmpTail_stop g rest hs
theorem CmpGoal_cons (op : CmpOp) (e : Expr) (t : CmpTail) (he : EGoal e) (ht : CmpGoal t) : CmpGoal (.cons op e t) := by
  intro rest f hs hf
  simp only [costCmp] at hf
  obtain ⟨g, rfl⟩ : ∃ g, f = g + 1 := ⟨f - 1, by omega⟩
  simp only [tCmp_cons, List.append_assoc, List.cons_append, normCmp]
  exact pCmpTail_step g op _ _ _ _ _
    (wrap_parse e he 11 10 (tCmp t ++ rest) g (by omega) (by omega) (by omega) (stops_tCmp t rest hs) (by omega))
    (ht rest g hs (by omega))

/-- an expression followed by `,` or a closer, parsed as `expression` -/
theorem expr16 (e : Expr) (he : EGoal e) (t1 : Tok) (rest : List Tok) (g : Nat) (h1 : contLvl t1 = 100) (hg : cost e + 20 ≤ g) :
    ∃ t0 ts0, toks e ++ t1 :: rest = t0 :: ts0 ∧ startTok t0 = true ∧ (∀ n, t0 = .name n → ts0.head? ≠ some .assign) ∧
      pE g 16 (t0 :: ts0) = some (norm e, t1 :: rest) := by
  obtain ⟨t0, ts0, e1, e2, _, e4⟩ := first_toks e (t1 :: rest) (by cases t1 <;> simp_all [contLvl])
  have hc := he 16 (t1 :: rest) g (codePrio_le e) (by omega) (by omega) (by simp [Stops, h1]) hg
  rw [e1] at hc
  exact ⟨t0, ts0, e1, e2, e4, hc⟩

theorem ArgsGoal_nil : ArgsGoal .nil := by
  intro rest f hf
  simp only [costArgs] at hf
  obtain ⟨g, rfl⟩ : ∃ g, f = g + 1 := ⟨f - 1, by omega⟩
  simp only [tArgs_nil, List.nil_append, normArgs]
  exact pArgs_nil g rest
theorem ArgsGoal_pos (e : Expr) (t : Args) (he : EGoal e) (ht : ArgsGoal t) : ArgsGoal (.pos e t) := by
  intro rest f hf
  simp only [costArgs] at hf
  obtain ⟨g, rfl⟩ : ∃ g, f = g + 1 := ⟨f - 1, by omega⟩
  simp only [tArgs_pos, sepArgs, normArgs]
  by_cases hn : t.isNil = true
  · have := Args.eq_nil_of_isNil hn; subst this
    simp only [Args.isNil, if_true, List.append_nil, normArgs]
    obtain ⟨t0, ts0, e1, e2, e4, hc⟩ := expr16 e he .rpar rest g rfl (by omega)
    rw [e1]; exact pArgs_pos_last g t0 ts0 rest _ e2 e4 hc
  · have hn' : t.isNil = false := by simpa using hn
    simp only [hn', Bool.false_eq_true, ↓reduceIte, List.append_assoc, List.cons_append]
    obtain ⟨t0, ts0, e1, e2, e4, hc⟩ := expr16 e he .comma (tArgs t ++ .rpar :: rest) g rfl (by omega)
    rw [e1]; exact pArgs_pos_more g t0 ts0 _ _ _ _ e2 e4 hc (ht rest g (by omega))
theorem ArgsGoal_star (e : Expr) (t : Args) (he : EGoal e) (ht : ArgsGoal t) : ArgsGoal (.star e t) := by
  intro rest f hf
  simp only [costArgs] at hf
  obtain ⟨g, rfl⟩ : ∃ g, f = g + 1 := ⟨f - 1, by omega⟩
  simp only [tArgs_star, sepArgs, normArgs, List.cons_append]
  by_cases hn : t.isNil = true
  · have := Args.eq_nil_of_isNil hn; subst this
    simp only [Args.isNil, if_true, List.append_nil, normArgs]
    obtain ⟨t0, ts0, e1, _, _, hc⟩ := expr16 e he .rpar rest g rfl (by omega)
    rw [← e1] at hc; exact pArgs_star_last g _ _ _ hc
  · have hn' : t.isNil = false := by simpa using hn
    simp only [hn', Bool.false_eq_true, ↓reduceIte, List.append_assoc, List.cons_append]
    obtain ⟨t0, ts0, e1, _, _, hc⟩ := expr16 e he .comma (tArgs t ++ .rpar :: rest) g rfl (by omega)
    rw [← e1] at hc; exact pArgs_star_more g _ _ _ _ _ hc (ht rest g (by omega))
theorem ArgsGoal_dstar (e : Expr) (t : Args) (he : EGoal e) (ht : ArgsGoal t) : ArgsGoal (.dstar e t) := by
  intro rest f hf
  simp only [costArgs] at hf
  obtain ⟨g, rfl⟩ : ∃ g, f = g + 1 := ⟨f - 1, by omega⟩
  simp only [tArgs_dstar, sepArgs, normArgs, List.cons_append]
  by_cases hn : t.isNil = true
  · have := Args.eq_nil_of_isNil hn; subst this
    simp only [Args.isNil, if_true, List.append_nil, normArgs]
    obtain ⟨t0, ts0, e1, _, _, hc⟩ := expr16 e he .rpar rest g rfl (by omega)
    rw [← e1] at hc; exact pArgs_dstar_last g _ _ _ hc
  · have hn' : t.isNil = false := by simpa using hn
    simp only [hn', Bool.false_eq_true, ↓reduceIte, List.append_assoc, List.cons_append]
    obtain ⟨t0, ts0, e1, _, _, hc⟩ := expr16 e he .comma (tArgs t ++ .rpar :: rest) g rfl (by omega)
    rw [← e1] at hc; exact pArgs_dstar_more g _ _ _ _ _ hc (ht rest g (by omega))
theorem ArgsGoal_kw (n : String) (e : Expr) (t : Args) (he : EGoal e) (ht : ArgsGoal t) : ArgsGoal (.kw n e t) := by
  intro rest f hf
  simp only [costArgs] at hf
  obtain ⟨g, rfl⟩ : ∃ g, f = g + 1 := ⟨f - 1, by omega⟩
  simp only [tArgs_kw, sepArgs, normArgs, List.cons_append]
  by_cases hn : t.isNil = true
  · have := Args.eq_nil_of_isNil hn; subst this
    simp only [Args.isNil, if_true, List.append_nil, normArgs]
    obtain ⟨t0, ts0, e1, _, _, hc⟩ := expr16 e he .rpar rest g rfl (by omega)
    rw [← e1] at hc; exact pArgs_kw_last g n _ _ _ hc
  · have hn' : t.isNil = false := by simpa using hn
    simp only [hn', Bool.false_eq_true, ↓reduceIte, List.append_assoc, List.cons_append]
    obtain ⟨t0, ts0, e1, _, _, hc⟩ := expr16 e he .comma (tArgs t ++ .rpar :: rest) g rfl (by omega)
    rw [← e1] at hc; exact pArgs_kw_more g n _ _ _ _ _ hc (ht rest g (by omega))

theorem contLvl_closer (c : Tok) (hc : c = Tok.rpar ∨ c = Tok.rbrk) : contLvl c = 100 := by
  rcases hc with rfl | rfl <;> rfl

theorem ItemsGoal_nil : ItemsGoal .nil := by
  intro c rest f _ hf
  simp only [costArgs] at hf
  obtain ⟨g, rfl⟩ : ∃ g, f = g + 1 := ⟨f - 1, by omega⟩
  simp only [tArgs_nil, List.nil_append, normArgs]
  exact pItems_nil g c rest
theorem ItemsGoal_pos (e : Expr) (t : Args) (he : EGoal e) (ht : ItemsGoal t) : ItemsGoal (.pos e t) := by
  intro c rest f hc hf
  simp only [costArgs] at hf
  obtain ⟨g, rfl⟩ : ∃ g, f = g + 1 := ⟨f - 1, by omega⟩
  simp only [tArgs_pos, sepArgs, normArgs]
  by_cases hn : t.isNil = true
  · have := Args.eq_nil_of_isNil hn; subst this
    simp only [Args.isNil, if_true, List.append_nil, normArgs]
    obtain ⟨t0, ts0, e1, e2, _, h⟩ := expr16 e he c rest g (contLvl_closer c hc) (by omega)
    rw [e1]; exact pItems_pos_last g c t0 ts0 rest _ hc e2 h
  · have hn' : t.isNil = false := by simpa using hn
    simp only [hn', Bool.false_eq_true, ↓reduceIte, List.append_assoc, List.cons_append]
    obtain ⟨t0, ts0, e1, e2, _, h⟩ := expr16 e he .comma (tArgs t ++ c :: rest) g rfl (by omega)
    rw [e1]; exact pItems_pos_more g c t0 ts0 _ _ _ _ hc e2 h (ht c rest g hc (by omega))
theorem ItemsGoal_star (e : Expr) (t : Args) (he : EGoal e) (h10 : codePrio e ≤ 10) (ht : ItemsGoal t) :
    ItemsGoal (.star e t) := by
  intro c rest f hc hf
  simp only [costArgs] at hf
  obtain ⟨g, rfl⟩ : ∃ g, f = g + 1 := ⟨f - 1, by omega⟩
  simp only [tArgs_star, sepArgs, normArgs, List.cons_append]
  by_cases hn : t.isNil = true
  · have := Args.eq_nil_of_isNil hn; subst this
    simp only [Args.isNil, if_true, List.append_nil, normArgs]
    exact pItems_star_last g c _ _ _ hc
      (he 10 (c :: rest) g h10 (by omega) (by omega) (by simp [Stops, contLvl_closer c hc]) (by omega))
  · have hn' : t.isNil = false := by simpa using hn
    simp only [hn', Bool.false_eq_true, ↓reduceIte, List.append_assoc, List.cons_append]
    exact pItems_star_more g c _ _ _ _ _ hc
      (he 10 (.comma :: (tArgs t ++ c :: rest)) g h10 (by omega) (by omega) (by simp [Stops, contLvl]) (by omega))
      (ht c rest g hc (by omega))


theorem contLvl_sliceEnd (t1 : Tok) (h : t1 = Tok.colon ∨ t1 = Tok.comma ∨ t1 = Tok.rbrk) : contLvl t1 = 100 := by
  rcases h with rfl | rfl | rfl <;> rfl

theorem OptGoal_none : OptGoal .none := by
  intro t1 rest f h1 hf
  simp only [costOpt] at hf
  obtain ⟨g, rfl⟩ : ∃ g, f = g + 1 := ⟨f - 1, by omega⟩
  simp only [tOpt_none, List.nil_append, normOpt]
  exact pOpt_none g t1 rest h1
theorem OptGoal_some (e : Expr) (he : EGoal e) : OptGoal (.some e) := by
  intro t1 rest f h1 hf
  simp only [costOpt] at hf
  obtain ⟨g, rfl⟩ : ∃ g, f = g + 1 := ⟨f - 1, by omega⟩
  simp only [tOpt_some, normOpt]
  obtain ⟨t0, ts0, e1, e2, _, h⟩ := expr16 e he t1 rest g (contLvl_sliceEnd t1 h1) (by omega)
  rw [e1]; exact pOpt_some g t0 ts0 _ _ e2 h

theorem IdxGoal_ie (e : Expr) (he : EGoal e) : IdxGoal (.ie e) := by
  intro t1 rest f h1 hf
  simp only [costIdx] at hf
  obtain ⟨g, rfl⟩ : ∃ g, f = g + 1 := ⟨f - 1, by omega⟩
  simp only [tIdx_ie, normIdx]
  have h := OptGoal_some e he t1 rest g (by rcases h1 with rfl | rfl <;> simp) (by simp only [costOpt]; omega)
  simp only [tOpt_some, normOpt] at h
  exact pIdx_ie g _ t1 rest _ h (by rcases h1 with rfl | rfl <;> simp)
theorem IdxGoal_sl (lo hi st : OptE) (hlo : OptGoal lo) (hhi : OptGoal hi) (hst : OptGoal st) : IdxGoal (.sl lo hi st) := by
  intro t1 rest f h1 hf
  simp only [costIdx] at hf
  obtain ⟨g, rfl⟩ : ∃ g, f = g + 1 := ⟨f - 1, by omega⟩
  have h1' : t1 = Tok.colon ∨ t1 = Tok.comma ∨ t1 = Tok.rbrk := by rcases h1 with rfl | rfl <;> simp
  have hne : t1 ≠ Tok.colon := by rcases h1 with rfl | rfl <;> simp
  rw [tIdx_sl]
  cases st with
  | none =>
    simp only [List.append_assoc, List.cons_append, List.append_nil, normIdx, normOpt]
    exact pIdx_sl2 g _ _ t1 rest _ _ (hlo .colon (tOpt hi ++ t1 :: rest) g (Or.inl rfl) (by omega)) (hhi t1 rest g h1' (by omega)) hne
  | some e =>
    simp only [List.append_assoc, List.cons_append, normIdx]
    have h3 := hst t1 rest g h1' (by omega)
    simp only [tOpt_some] at h3
    exact pIdx_sl3 g _ _ _ _ _ _ _ (hlo .colon (tOpt hi ++ .colon :: (toks e ++ t1 :: rest)) g (Or.inl rfl) (by omega))
      (hhi .colon (toks e ++ t1 :: rest) g (Or.inl rfl) (by omega)) h3

/-- a slice item never begins with `]` -/
theorem tIdx_first (i : Idx) (t1 : Tok) (rest : List Tok) (h1 : t1 ≠ .assign) :
    ∃ t0 ts0, tIdx i ++ t1 :: rest = t0 :: ts0 ∧ t0 ≠ .rbrk := by
  cases i with
  | ie e =>
    obtain ⟨t0, ts0, e1, e2, _, _⟩ := first_toks e (t1 :: rest) (by simpa using h1)
    exact ⟨t0, ts0, by rw [tIdx_ie, e1], by intro h; subst h; simp [startTok] at e2⟩
  | sl lo hi st =>
    rw [tIdx_sl]
    cases lo with
    | none => exact ⟨.colon, _, by simp [tOpt_none]; rfl, by simp⟩
    | some e =>
      obtain ⟨t0, ts0, e1, e2, _, _⟩ := first_toks e
        (.colon :: (tOpt hi ++ (match st with | .none => [] | .some e => .colon :: toks e) ++ t1 :: rest)) (by simp)
      exact ⟨t0, ts0, by simp only [tOpt_some, List.append_assoc, List.cons_append] at e1 ⊢; exact e1,
        by intro h; subst h; simp [startTok] at e2⟩

theorem IdxsGoal_nil : IdxsGoal .nil := by
  intro rest f hf
  simp only [costIdxs] at hf
  obtain ⟨g, rfl⟩ : ∃ g, f = g + 1 := ⟨f - 1, by omega⟩
  simp only [tIdxs_nil, List.nil_append, normIdxs]
  exact pIdxs_nil g rest
theorem IdxsGoal_cons (i : Idx) (t : Idxs) (hi : IdxGoal i) (ht : IdxsGoal t) : IdxsGoal (.cons i t) := by
  intro rest f hf
  simp only [costIdxs] at hf
  obtain ⟨g, rfl⟩ : ∃ g, f = g + 1 := ⟨f - 1, by omega⟩
  simp only [tIdxs_cons, sepIdxs, normIdxs]
  by_cases hn : t.isNil = true
  · have := Idxs.eq_nil_of_isNil hn; subst this
    simp only [Idxs.isNil, if_true, List.append_nil, normIdxs]
    obtain ⟨t0, ts0, e1, e2⟩ := tIdx_first i .rbrk rest (by simp)
    have h := hi .rbrk rest g (Or.inr rfl) (by omega)
    rw [e1] at h ⊢
    exact pIdxs_last g t0 ts0 rest _ e2 h
  · have hn' : t.isNil = false := by simpa using hn
    simp only [hn', Bool.false_eq_true, ↓reduceIte, List.append_assoc, List.cons_append]
    obtain ⟨t0, ts0, e1, e2⟩ := tIdx_first i .comma (tIdxs t ++ .rbrk :: rest) (by simp)
    have h := hi .comma (tIdxs t ++ .rbrk :: rest) g (Or.inl rfl) (by omega)
    rw [e1] at h ⊢
    exact pIdxs_more g t0 ts0 _ _ _ _ e2 h (ht rest g (by omega))

theorem ParamsGoal_nil : ParamsGoal .nil := by
  intro rest f hf
  simp only [costParams] at hf
  obtain ⟨g, rfl⟩ : ∃ g, f = g + 1 := ⟨f - 1, by omega⟩
  simp only [tParams_nil, List.nil_append, normParams]
  exact pParams_nil g rest
theorem ParamsGoal_plain (n : String) (t : Params) (ht : ParamsGoal t) : ParamsGoal (.plain n t) := by
  intro rest f hf
  simp only [costParams] at hf
  obtain ⟨g, rfl⟩ : ∃ g, f = g + 1 := ⟨f - 1, by omega⟩
  simp only [tParams_plain, sepParams, normParams, List.cons_append]
  by_cases hn : t.isNil = true
  · have := Params.eq_nil_of_isNil hn; subst this
    simp only [Params.isNil, if_true, List.nil_append, normParams]
    exact pParams_plain_last g n rest
  · have hn' : t.isNil = false := by simpa using hn
    simp only [hn', Bool.false_eq_true, ↓reduceIte, List.append_assoc, List.cons_append]
    exact pParams_plain_more g n _ _ _ (ht rest g (by omega))
theorem ParamsGoal_var (n : String) (t : Params) (ht : ParamsGoal t) : ParamsGoal (.var n t) := by
  intro rest f hf
  simp only [costParams] at hf
  obtain ⟨g, rfl⟩ : ∃ g, f = g + 1 := ⟨f - 1, by omega⟩
  simp only [tParams_var, sepParams, normParams, List.cons_append]
  by_cases hn : t.isNil = true
  · have := Params.eq_nil_of_isNil hn; subst this
    simp only [Params.isNil, if_true, List.nil_append, normParams]
    exact pParams_var_last g n rest
  · have hn' : t.isNil = false := by simpa using hn
    simp only [hn', Bool.false_eq_true, ↓reduceIte, List.append_assoc, List.cons_append]
    exact pParams_var_more g n _ _ _ (ht rest g (by omega))
theorem ParamsGoal_kwvar (n : String) (t : Params) (ht : ParamsGoal t) : ParamsGoal (.kwvar n t) := by
  intro rest f hf
  simp only [costParams] at hf
  obtain ⟨g, rfl⟩ : ∃ g, f = g + 1 := ⟨f - 1, by omega⟩
  simp only [tParams_kwvar, sepParams, normParams, List.cons_append]
  by_cases hn : t.isNil = true
  · have := Params.eq_nil_of_isNil hn; subst this
    simp only [Params.isNil, if_true, List.nil_append, normParams]
    exact pParams_kwvar_last g n rest
  · have hn' : t.isNil = false := by simpa using hn
    simp only [hn', Bool.false_eq_true, ↓reduceIte, List.append_assoc, List.cons_append]
    exact pParams_kwvar_more g n _ _ _ (ht rest g (by omega))
theorem ParamsGoal_dflt (n : String) (e : Expr) (t : Params) (he : EGoal e) (ht : ParamsGoal t) : ParamsGoal (.dflt n e t) := by
  intro rest f hf
  simp only [costParams] at hf
  obtain ⟨g, rfl⟩ : ∃ g, f = g + 1 := ⟨f - 1, by omega⟩
  simp only [tParams_dflt, sepParams, normParams, List.cons_append]
  by_cases hn : t.isNil = true
  · have := Params.eq_nil_of_isNil hn; subst this
    simp only [Params.isNil, if_true, List.append_nil, normParams]
    obtain ⟨t0, ts0, e1, _, _, hc⟩ := expr16 e he .colon rest g rfl (by omega)
    rw [← e1] at hc; exact pParams_dflt_last g n _ _ _ hc
  · have hn' : t.isNil = false := by simpa using hn
    simp only [hn', Bool.false_eq_true, ↓reduceIte, List.append_assoc, List.cons_append]
    obtain ⟨t0, ts0, e1, _, _, hc⟩ := expr16 e he .comma (tParams t ++ .colon :: rest) g rfl (by omega)
    rw [← e1] at hc; exact pParams_dflt_more g n _ _ _ _ _ hc (ht rest g (by omega))

theorem KVsGoal_nil : KVsGoal .nil := by
  intro rest f hf
  simp only [costKVs] at hf
  obtain ⟨g, rfl⟩ : ∃ g, f = g + 1 := ⟨f - 1, by omega⟩
  simp only [tKVs_nil, List.nil_append, normKVs]
  exact pKVs_nil g rest
theorem KVsGoal_cons (k v : Expr) (t : KVs) (hk : EGoal k) (hv : EGoal v) (ht : KVsGoal t) : KVsGoal (.cons k v t) := by
  intro rest f hf
  simp only [costKVs] at hf
  obtain ⟨g, rfl⟩ : ∃ g, f = g + 1 := ⟨f - 1, by omega⟩
  simp only [tKVs_cons, sepKVs, normKVs, List.append_assoc, List.cons_append]
  by_cases hn : t.isNil = true
  · have := KVs.eq_nil_of_isNil hn; subst this
    simp only [KVs.isNil, if_true, List.nil_append, normKVs]
    obtain ⟨t0, ts0, e1, e2, _, hc⟩ := expr16 k hk .colon (toks v ++ .rbrc :: rest) g rfl (by omega)
    obtain ⟨_, _, e1', _, _, hc'⟩ := expr16 v hv .rbrc rest g rfl (by omega)
    rw [← e1'] at hc'
    rw [e1]; exact pKVs_last g t0 ts0 _ _ _ _ e2 hc hc'
  · have hn' : t.isNil = false := by simpa using hn
    simp only [hn', Bool.false_eq_true, ↓reduceIte, List.append_assoc, List.cons_append]
    obtain ⟨t0, ts0, e1, e2, _, hc⟩ := expr16 k hk .colon (toks v ++ .comma :: (tKVs t ++ .rbrc :: rest)) g rfl (by omega)
    obtain ⟨_, _, e1', _, _, hc'⟩ := expr16 v hv .comma (tKVs t ++ .rbrc :: rest) g rfl (by omega)
    rw [← e1'] at hc'
    rw [e1]; exact pKVs_more g t0 ts0 _ _ _ _ _ _ e2 hc hc' (ht rest g (by omega))

end PonyVerif.Model.PyPrint
