/-
  C19: bridge lemmas — the interpretation (`Src.exec`) of each method term regenerated from the current source
  (`Gen/ConnLockSrc.lean`, harness/gen_c19.py) IS the hand-written model function of `Model/ConnLock.lean`.
  They are re-checked against the regenerated terms on every run; Props/C19.lean restates them as obligations.
-/
import PonyVerif.Gen.ConnLockSrc
import PonyVerif.Lemmas.ConnLock
namespace PonyVerif.Model.ConnLock.Src
open PonyVerif.Model.ConnLock PonyVerif.Gen

theorem bindM_getS_const (m : M α) : (bindM getS fun _ => m) = m := by
  funext s; rfl

theorem src_acquire_lock (cf : Cfg) (con : Nat) : exec cf con ConnLockSrc.acquireLock = acquireLock := by
  simp [ConnLockSrc.acquireLock, exec, prim, acquireLock]

theorem src_release_lock (cf : Cfg) (con : Nat) : exec cf con ConnLockSrc.releaseLock = releaseLock := by
  simp [ConnLockSrc.releaseLock, exec, prim]

theorem src_commit (cf : Cfg) (con : Nat) : exec cf con ConnLockSrc.sqliteCommit = provCommit cf con := by
  funext s
  simp [ConnLockSrc.sqliteCommit, exec, prim, eval, provCommit, withLockRelease, bind, bindM, getS, pure, bindM_getS_const]

theorem src_rollback (cf : Cfg) (con : Nat) : exec cf con ConnLockSrc.sqliteRollback = provRollback cf con := by
  funext s
  simp [ConnLockSrc.sqliteRollback, exec, prim, eval, provRollback, withLockRelease, bind, bindM, getS, pure, bindM_getS_const]

theorem src_drop (cf : Cfg) (con : Nat) : exec cf con ConnLockSrc.sqliteDrop = provDrop cf con := by
  funext s
  simp [ConnLockSrc.sqliteDrop, exec, prim, eval, provDrop, withLockRelease, bind, bindM, getS, pure, bindM_getS_const]

theorem src_dbapi_commit (cf : Cfg) (con : Nat) : exec cf con ConnLockSrc.dbapiCommit = baseCommit cf con := by
  funext s
  simp [ConnLockSrc.dbapiCommit, exec, prim, eval, baseCommit, bind, bindM, getS, pure, bindM_getS_const]

theorem src_dbapi_rollback (cf : Cfg) (con : Nat) : exec cf con ConnLockSrc.dbapiRollback = baseRollback cf con := by
  funext s
  simp [ConnLockSrc.dbapiRollback, exec, prim, eval, baseRollback, bind, bindM, getS, pure, bindM_getS_const]

theorem src_dbapi_drop (cf : Cfg) (con : Nat) : exec cf con ConnLockSrc.dbapiDrop = baseDrop cf con := by
  funext s
  simp [ConnLockSrc.dbapiDrop, exec, prim, eval, baseDrop, bind, bindM, getS, pure, bindM_getS_const]

theorem src_dbapi_release (cf : Cfg) (con : Nat) : exec cf con ConnLockSrc.dbapiRelease = baseRelease cf con := by
  funext s
  simp [ConnLockSrc.dbapiRelease, exec, prim, eval, baseRelease, bind, bindM, getS, pure, bindM_getS_const]

theorem src_pool_drop (cf : Cfg) (con : Nat) : exec cf con ConnLockSrc.poolDrop = poolDrop cf con := by
  funext s
  simp [ConnLockSrc.poolDrop, exec, prim, eval, poolDrop, bind, bindM, getS, pure, bindM_getS_const]

theorem src_sqlite_pool_drop (cf : Cfg) (con : Nat) : exec cf con ConnLockSrc.sqlitePoolDrop = poolDrop cf con := by
  funext s
  simp [ConnLockSrc.sqlitePoolDrop, exec, prim, eval, bind, bindM, getS, pure, bindM_getS_const]

theorem src_pool_release (cf : Cfg) (con : Nat) : exec cf con ConnLockSrc.poolRelease = poolRelease cf con := by
  funext s
  simp [ConnLockSrc.poolRelease, exec, prim, eval, poolRelease, bind, bindM, getS, pure, bindM_getS_const]

theorem src_release (cf : Cfg) (con : Nat) : exec cf con ConnLockSrc.sqliteRelease = provRelease cf con := by
  funext s
  simp only [ConnLockSrc.sqliteRelease, exec, prim, eval, provRelease, conCursor]
  by_cases h : (cf.ddl && s.cache.savedFk == some true) = true
  · simp [wrap, PonyVerif.Model.ConnLock.tryCatch, bind, bindM, getS, h, pure, ret]
  · simp [wrap, PonyVerif.Model.ConnLock.tryCatch, bind, bindM, getS, h, pure, ret]

/-- two programs with the same weakest preconditions are the same function -/
theorem eq_of_wp {m m' : M α} (h : ∀ (Q : α → St → Prop) (E : Exc → St → Prop) (s : St), wp m Q E s = wp m' Q E s) : m = m' := by
  funext s
  have := h (fun a s' => m' s = (.ok a, s')) (fun e s' => m' s = (.error e, s')) s
  have h' : wp m' (fun a s' => m' s = (.ok a, s')) (fun e s' => m' s = (.error e, s')) s := by
    unfold wp; rcases m' s with ⟨r, s'⟩; cases r <;> rfl
  rw [← this] at h'
  unfold wp at h'
  rcases hm : m s with ⟨r, s'⟩
  rw [hm] at h'
  cases r <;> simp at h' <;> exact h'.symm

set_option maxRecDepth 4096 in
set_option maxHeartbeats 1000000 in
theorem stm_wp_imm (cf : Cfg) (con : Nat) (Q : Unit → St → Prop) (E : Exc → St → Prop) (s : St)
    (h1 : s.cache.inTx = false) (h2 : s.cache.immediate = true) :
    wp (exec cf con ConnLockSrc.setTransactionMode) Q E s = wp (setTransactionMode cf con) Q E s := by
  rcases Bool.eq_false_or_eq_true s.pre with h6 | h6
  · simp [ConnLockSrc.setTransactionMode, exec, prim, eval, setTransactionMode, conCursor, h1, h2, h6]
  · rcases Bool.eq_false_or_eq_true s.lock with h7 | h7
    · simp [ConnLockSrc.setTransactionMode, exec, prim, eval, setTransactionMode, conCursor, h1, h2, h6, h7]
    · rcases Bool.eq_false_or_eq_true cf.ddl with h3 | h3 <;> rcases Bool.eq_false_or_eq_true s.fk with h4 | h4 <;>
        rcases Option.eq_none_or_eq_some s.cache.savedFk with h5 | ⟨sv, h5⟩ <;>
        simp [ConnLockSrc.setTransactionMode, exec, prim, eval, setTransactionMode, conCursor, fkAfter, dirtyAfter,
          h1, h2, h3, h4, h5, h6, h7]

set_option maxRecDepth 4096 in
set_option maxHeartbeats 1000000 in
theorem stm_wp_noimm (cf : Cfg) (con : Nat) (Q : Unit → St → Prop) (E : Exc → St → Prop) (s : St)
    (h1 : s.cache.inTx = false) (h2 : s.cache.immediate = false) :
    wp (exec cf con ConnLockSrc.setTransactionMode) Q E s = wp (setTransactionMode cf con) Q E s := by
  rcases Bool.eq_false_or_eq_true cf.ddl with h3 | h3 <;> rcases Bool.eq_false_or_eq_true s.fk with h4 | h4 <;>
    rcases Option.eq_none_or_eq_some s.cache.savedFk with h5 | ⟨sv, h5⟩ <;>
    simp [ConnLockSrc.setTransactionMode, exec, prim, eval, setTransactionMode, conCursor, fkAfter, dirtyAfter,
      h1, h2, h3, h4, h5]

theorem src_set_transaction_mode (cf : Cfg) (con : Nat) :
    exec cf con ConnLockSrc.setTransactionMode = setTransactionMode cf con := by
  apply eq_of_wp
  intro Q E s
  rcases Bool.eq_false_or_eq_true s.cache.inTx with h1 | h1
  · simp [ConnLockSrc.setTransactionMode, exec, prim, eval, setTransactionMode, conCursor, h1]
  · rcases Bool.eq_false_or_eq_true s.cache.immediate with h2 | h2
    · exact stm_wp_imm cf con Q E s h1 h2
    · exact stm_wp_noimm cf con Q E s h1 h2

end PonyVerif.Model.ConnLock.Src
