/- helper lemmas for C36 (OraPool): the recorded pid is the creator of the session pool; connect returns own connections -/
import PonyVerif.Model.OraPool
namespace PonyVerif.Model.OraPool

def Inv (q : Proc) : Prop := q.r.pid = q.r.cx.creator

theorem recConnect_inv (me s : Nat) (f : Bool) (r : Rec) (h : r.pid = r.cx.creator) :
    (recConnect me s f r).1.pid = (recConnect me s f r).1.cx.creator := by
  unfold recConnect
  split
  · split <;> simp [h]
  · split <;> simp [h]

theorem recConnect_returned (me s : Nat) (f : Bool) (r : Rec) (h : r.pid = r.cx.creator) :
    ∀ c, (recConnect me s f r).2.returned = some c → c.pool.creator = me ∧ c.pool = (recConnect me s f r).1.cx := by
  intro c
  unfold recConnect
  split
  · split
    · simp
    · intro hc; simp at hc; subst hc; simp
  · rename_i hne
    simp only [ne_eq, Decidable.not_not] at hne
    split
    · simp
    · intro hc; simp at hc; subst hc; simp [← h, hne]

theorem localStep_pid (s : Nat) (q : Proc) (a : Act) : (localStep s q a).1.pid = q.pid := by
  cases a <;> simp only [localStep] <;> (try split) <;> rfl

theorem localStep_inv (s : Nat) (q : Proc) (a : Act) (h : Inv q) : Inv (localStep s q a).1 := by
  unfold Inv at *
  cases a <;> simp only [localStep]
  · split
    · exact h
    · exact recConnect_inv _ _ _ _ h
  · split
    · exact h
    · exact recConnect_inv _ _ _ _ h
  · split <;> exact h
  · split <;> exact h
  · split <;> exact h
  · exact h

theorem localStep_returned (s : Nat) (q : Proc) (a : Act) (h : Inv q) :
    ∀ c, (localStep s q a).2.returned = some c → c.pool.creator = q.pid := by
  intro c
  cases a <;> simp only [localStep]
  · split
    · simp
    · intro hc; exact (recConnect_returned _ _ _ _ h c hc).1
  · split
    · simp
    · intro hc; exact (recConnect_returned _ _ _ _ h c hc).1
  · split <;> simp
  · split <;> simp
  · split <;> simp
  · simp

def WInv (w : World) : Prop := (∀ q ∈ w.procs, Inv q) ∧ (∀ e ∈ w.returned, e.2.pool.creator = e.1)

theorem init_inv : WInv init := by
  refine ⟨?_, by simp [init]⟩
  intro q hq; simp [init] at hq; subst hq; rfl

theorem step_inv (w : World) (e : Ev) (h : WInv w) : WInv (step w e) := by
  obtain ⟨hp, hr⟩ := h
  cases e with
  | act p a =>
    refine ⟨?_, ?_⟩
    · intro q' hq'
      simp only [step, List.mem_map] at hq'
      obtain ⟨q, hq, rfl⟩ := hq'
      by_cases hpid : q.pid = p
      · simp only [hpid, if_true]; exact localStep_inv _ _ _ (hp q hq)
      · simp only [hpid, if_false]; exact hp q hq
    · intro e he
      simp only [step, List.mem_append, List.mem_map, List.mem_filterMap] at he
      rcases he with he | ⟨c, ⟨q, hq, hc⟩, rfl⟩
      · exact hr e he
      · by_cases hpid : q.pid = p
        · simp only [hpid, if_true] at hc
          simpa [hpid] using localStep_returned _ _ _ (hp q hq) c hc
        · simp [hpid] at hc
  | fork p =>
    refine ⟨?_, by simpa [step] using hr⟩
    intro q' hq'
    simp only [step, List.mem_append, List.mem_map, List.mem_filter] at hq'
    rcases hq' with hq | ⟨q, ⟨hq, _⟩, rfl⟩
    · exact hp q' hq
    · exact hp q hq

theorem run_inv (evs : List Ev) : ∀ (w : World), WInv w → WInv (run w evs) := by
  induction evs with
  | nil => intro w h; exact h
  | cons e es ih => intro w h; exact ih (step w e) (step_inv w e h)

end PonyVerif.Model.OraPool
