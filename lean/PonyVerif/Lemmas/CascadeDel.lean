/-
  Lemmas/CascadeDel.lean — `Entity._delete_` (arbitrary recursion depth, with and without the re-entrancy guard) meets `Post`:
  only removals, both ends agree, nothing live holds a deleted object, the object is dead, whoever died is reachable over
  cascading attributes and took its cascade children along, links are removed only together with an end of theirs,
  Required references are never cleared.
-/
import PonyVerif.Lemmas.CascadeSteps
namespace PonyVerif.Model.Cascade

/-! ## Reachability over cascading attributes -/

inductive Reach (sch : Schema) (s : Store) : ObjId → ObjId → Prop
  | refl (a : ObjId) : Reach sch s a a
  | step {a p q : ObjId} : Reach sch s a p → CEdge sch s p q → Reach sch s a q

theorem Reach.trans {sch : Schema} {s : Store} {a b c : ObjId} (h1 : Reach sch s a b) (h2 : Reach sch s b c) : Reach sch s a c := by
  induction h2 with
  | refl => exact h1
  | step _ he ih => exact .step ih he

theorem Reach.mono {sch : Schema} {s s' : Store} (hs : Sub sch s s') {a x : ObjId} (h : Reach sch s' a x) : Reach sch s a x := by
  induction h with
  | refl => exact .refl _
  | step _ he ih =>
    obtain ⟨b, hb, hh⟩ := he
    exact .step ih ⟨b, hb, hs.has _ _ _ hh⟩

/-! ## Postcondition of `_delete_` -/

structure Post (sch : Schema) (P : ObjId → Prop) (o : ObjId) (s s' : Store) : Prop where
  trans : Trans sch P s s'
  agree : AgreeX sch P s'
  nodang : NoDangX sch P s'
  dead : s'.alive o = false ∨ P o
  newdead : ∀ x, s.alive x = true → s'.alive x = false → Reach sch s o x

def DelSpec (sch : Schema) (ct : ClassTable) (del : List ObjId → ObjId → Store → R) : Prop :=
  ∀ (Pl : List ObjId) (o : ObjId) (s s' : Store), del Pl o s = .ok s' → Range sch ct s →
    AgreeX sch (fun x => x ∈ Pl) s → NoDangX sch (fun x => x ∈ Pl) s → Post sch (fun x => x ∈ Pl) o s s'

/-- loop rule with the step hypothesis restricted to the elements of the list -/
theorem iterE_rule' {α : Type} {f : α → Store → R} {I : Store → Store → Prop} {G : Store → Prop} {Q : α → Store → Prop}
    (hrefl : ∀ s, I s s) (htrans : ∀ s1 s2 s3, I s1 s2 → I s2 s3 → I s1 s3)
    (hQ : ∀ x s s', I s s' → Q x s → Q x s') :
    ∀ (xs : List α), (∀ x ∈ xs, ∀ s s', G s → f x s = .ok s' → I s s' ∧ G s' ∧ Q x s') →
      ∀ (s s' : Store), G s → iterE f xs s = .ok s' → I s s' ∧ G s' ∧ ∀ x ∈ xs, Q x s' := by
  intro xs
  induction xs with
  | nil => intro _ s s' hG h; cases h; exact ⟨hrefl _, hG, by simp⟩
  | cons x xs ih =>
    intro hstep s s' hG h
    obtain ⟨s1, h1, h2⟩ := iterE_cons_ok h
    obtain ⟨hI1, hG1, hQ1⟩ := hstep x (by simp) s s1 hG h1
    obtain ⟨hI2, hG2, hQ2⟩ := ih (fun y hy => hstep y (by simp [hy])) s1 s' hG1 h2
    refine ⟨htrans _ _ _ hI1 hI2, hG2, ?_⟩
    intro y hy
    rcases List.mem_cons.mp hy with rfl | hy
    · exact hQ _ _ _ hI2 hQ1
    · exact hQ2 y hy

/-- what `Attribute.linked` guarantees (see `linked_cascWF`): an attribute with cascade_delete has no collection as its reverse -/
def CascWF (sch : Schema) : Prop :=
  ∀ a d rd, sch.side a = some d → sch.side (sch.rev a) = some rd → d.cascade = true → rd.isColl = false

section frame
variable {sch : Schema} {ct : ClassTable}

/-- state of the frame of `o` (started at `s0`) between two steps; `Q` = the in-progress set including `o` -/
structure FrameSt (sch : Schema) (Q : ObjId → Prop) (o : ObjId) (s0 s : Store) : Prop where
  trans : Trans sch Q s0 s
  agree : AgreeX sch Q s
  nodang : NoDangX sch Q s
  newdead : ∀ x, s0.alive x = true → s.alive x = false → Reach sch s0 o x

/-- attribute `b` of `o` has been dealt with: whatever `o` still holds under `b` is dead or in progress, or (no cascade) no
    longer holds `o` -/
def ProcAt (sch : Schema) (Q : ObjId → Prop) (o : ObjId) (b : Attr) (s : Store) : Prop :=
  ∀ p, hasB sch s o b p = true → s.alive p = false ∨ Q p ∨ (sch.isCascade b = false ∧ hasB sch s p (sch.rev b) o = false)

theorem ProcAt.mono {Q : ObjId → Prop} {o : ObjId} {b : Attr} {s s' : Store} (hs : Sub sch s s') (h : ProcAt sch Q o b s) :
    ProcAt sch Q o b s' := by
  intro p hp
  rcases h p (hs.has _ _ _ hp) with hd | hq | ⟨hc, hm⟩
  · exact Or.inl (hs.dead hd)
  · exact Or.inr (Or.inl hq)
  · refine Or.inr (Or.inr ⟨hc, ?_⟩)
    cases hm' : hasB sch s' p (sch.rev b) o with
    | false => rfl
    | true => rw [hs.has _ _ _ hm'] at hm; cases hm

theorem FrameSt.ofStep {Q : ObjId → Prop} {o : ObjId} {s0 s s' : Store} (hF : FrameSt sch Q o s0 s) (hS : StepOk sch Q s s') :
    FrameSt sch Q o s0 s' :=
  ⟨hF.trans.trans hS.trans, hS.agree, hS.nodang, fun x h0 h' => hF.newdead x h0 (by rw [hS.alive] at h'; exact h')⟩

/-- a nested `_delete_` of `x`, a cascade child of `o` -/
theorem FrameSt.ofPost {Q : ObjId → Prop} {o x : ObjId} {s0 s s' : Store} (hF : FrameSt sch Q o s0 s) (hP : Post sch Q x s s')
    (hx : CEdge sch s0 o x) : FrameSt sch Q o s0 s' := by
  refine ⟨hF.trans.trans hP.trans, hP.agree, hP.nodang, ?_⟩
  intro y h0 h'
  cases hy : s.alive y with
  | false => exact hF.newdead y h0 hy
  | true => exact ((Reach.refl o).step hx).trans (Reach.mono hF.trans.sub (hP.newdead y hy h'))

variable {guard : Bool} {fuel : Nat} {Pl : List ObjId}

theorem collStep_ok (ih : DelSpec sch ct (delete sch ct guard fuel)) {o : ObjId} {c : Attr} {s0 s s' : Store}
    (hR : Range sch ct s0) (hF : FrameSt sch (fun x => x ∈ o :: Pl) o s0 s)
    (h : collStep sch (fun x s => delete sch ct guard fuel (o :: Pl) x s) o c s = .ok s') :
    Sub sch s s' ∧ FrameSt sch (fun x => x ∈ o :: Pl) o s0 s' ∧
      (sch.isCollAttr c = true → ProcAt sch (fun x => x ∈ o :: Pl) o c s') := by
  have hRs : Range sch ct s := hF.trans.sub.range hR
  unfold collStep at h
  split at h
  · rename_i d rd hd hrd
    split at h
    · rename_i hnc
      cases h
      refine ⟨Sub.refl _ _, hF, ?_⟩
      intro hic
      simp [Schema.isCollAttr, hd] at hic
      simp [hic] at hnc
    · rename_i hcoll
      have hdc : d.isColl = true := by simpa using hcoll
      split at h
      · cases h
      · split at h
        · -- empty collection
          rename_i hemp
          cases h
          refine ⟨Sub.refl _ _, hF, ?_⟩
          intro _ p hp
          have hlt := hRs.lt o c p hp
          rw [hasB_coll_eq hd hdc] at hp
          have hm : p ∈ s.members o c := mem_members.mpr ⟨hlt, hp⟩
          have hnil : s.members o c = [] := by simpa using hemp
          rw [hnil] at hm; cases hm
        · split at h
          · -- cascade: delete every member
            rename_i hcasc
            have hcs : sch.isCascade c = true := by simp [Schema.isCascade, hd, hcasc]
            have hedge : ∀ x ∈ s.members o c, CEdge sch s0 o x := by
              intro x hx
              refine ⟨c, hcs, hF.trans.sub.has _ _ _ ?_⟩
              rw [hasB_coll_eq hd hdc]; exact (mem_members.mp hx).2
            obtain ⟨hI, hG, hQ⟩ := iterE_rule' (f := fun x s => delete sch ct guard fuel (o :: Pl) x s)
              (I := Sub sch) (G := FrameSt sch (fun x => x ∈ o :: Pl) o s0)
              (Q := fun x s => s.alive x = false ∨ x ∈ o :: Pl)
              (Sub.refl sch) (fun _ _ _ => Sub.trans)
              (fun x s1 s2 hs hq => hq.imp (fun hdd => hs.dead hdd) id)
              (s.members o c)
              (by
                intro x hx s1 s2 hG1 hdel
                have hP := ih (o :: Pl) x s1 s2 hdel (hG1.trans.sub.range hR) hG1.agree hG1.nodang
                exact ⟨hP.trans.sub, hG1.ofPost hP (hedge x hx), hP.dead⟩)
              s s' hF h
            refine ⟨hI, hG, ?_⟩
            intro _ p hp
            have hp0 := hI.has _ _ _ hp
            have hlt := hRs.lt o c p hp0
            rw [hasB_coll_eq hd hdc] at hp0
            rcases hQ p (mem_members.mpr ⟨hlt, hp0⟩) with hdd | hq
            · exact Or.inl hdd
            · exact Or.inr (Or.inl hq)
          · rename_i hcasc
            have hcf : d.cascade = false := by simpa using hcasc
            split at h
            · -- no cascade, reverse not required: clear the collection
              obtain ⟨hS, hempty⟩ := setCollEmpty_ok (Q := fun x => x ∈ o :: Pl) hd hdc hcf (by simp) h hRs hF.agree hF.nodang
              refine ⟨hS.trans.sub, hF.ofStep hS, ?_⟩
              intro _ p hp
              rw [hempty p] at hp; cases hp
            · cases h
  · cases h

theorem refStep_ok (hwf : CascWF sch) (ih : DelSpec sch ct (delete sch ct guard fuel)) {o : ObjId} {a : Attr} {s0 s s' : Store}
    (hR : Range sch ct s0) (hF : FrameSt sch (fun x => x ∈ o :: Pl) o s0 s)
    (h : refStep sch guard (fun x s => delete sch ct guard fuel (o :: Pl) x s) o a s = .ok s') :
    Sub sch s s' ∧ FrameSt sch (fun x => x ∈ o :: Pl) o s0 s' ∧
      (sch.isCollAttr a = false → ProcAt sch (fun x => x ∈ o :: Pl) o a s') := by
  have hRs : Range sch ct s := hF.trans.sub.range hR
  unfold refStep at h
  split at h
  · rename_i d rd hd hrd
    split at h
    · rename_i hcoll
      cases h
      refine ⟨Sub.refl _ _, hF, ?_⟩
      intro hic
      simp [Schema.isCollAttr, hd] at hic
      rw [hic] at hcoll; cases hcoll
    · rename_i hcoll
      have hdc : d.isColl = false := by simpa using hcoll
      split at h
      · -- no value
        rename_i hnone
        cases h
        refine ⟨Sub.refl _ _, hF, ?_⟩
        intro _ p hp
        rw [hasB_ref_eq hd hdc, hnone] at hp
        simp at hp
      · rename_i x hx
        -- whatever `o` holds under `a` later is `x`
        have honly : ∀ {s1 : Store}, Sub sch s s1 → ∀ p, hasB sch s1 o a p = true → p = x := by
          intro s1 hs p hp
          have := hs.has _ _ _ hp
          rw [hasB_ref_eq hd hdc, hx] at this
          have hxp : x = p := by simpa using this
          exact hxp.symm
        split at h
        · rename_i hrc
          have hrdc : rd.isColl = false := by simpa using hrc
          split at h
          · -- one-to-one, cascade
            rename_i hcasc
            have hcs : sch.isCascade a = true := by simp [Schema.isCascade, hd, hcasc]
            have hedge : CEdge sch s0 o x := ⟨a, hcs, hF.trans.sub.has _ _ _ (by rw [hasB_ref_eq hd hdc, hx]; simp)⟩
            have hP := ih (o :: Pl) x s s' h hRs hF.agree hF.nodang
            refine ⟨hP.trans.sub, hF.ofPost hP hedge, ?_⟩
            intro _ p hp
            have := honly hP.trans.sub p hp
            subst this
            rcases hP.dead with hdd | hq
            · exact Or.inl hdd
            · exact Or.inr (Or.inl hq)
          · rename_i hcasc
            have hcf : sch.isCascade a = false := by simp [Schema.isCascade, hd]; simpa using hcasc
            split at h
            · split at h
              · -- (guarded tree) the partner is already deleted
                rename_i hg
                cases h
                refine ⟨Sub.refl _ _, hF, ?_⟩
                intro _ p hp
                have := honly (Sub.refl _ _) p hp
                subst this
                simp at hg
                exact Or.inl hg.2
              · split at h
                · -- the partner points back: clear its reference
                  rename_i hback
                  obtain ⟨hS, hgone⟩ := clearRef_o2o_ok (Q := fun x => x ∈ o :: Pl) hrd hrdc
                    (by rw [sch.rev_rev]; exact hd) hdc hback (by simp) h hF.agree hF.nodang
                  refine ⟨hS.trans.sub, hF.ofStep hS, ?_⟩
                  intro _ p hp
                  have := honly hS.trans.sub p hp
                  subst this
                  exact Or.inr (Or.inr ⟨hcf, hgone⟩)
                · rename_i hback
                  cases h
                  refine ⟨Sub.refl _ _, hF, ?_⟩
                  intro _ p hp
                  have := honly (Sub.refl _ _) p hp
                  subst this
                  refine Or.inr (Or.inr ⟨hcf, ?_⟩)
                  rw [hasB_ref_eq hrd hrdc]
                  cases hr : s.ref p (sch.rev a) with
                  | none => simp
                  | some u =>
                    have : u ≠ o := fun e => hback (e ▸ hr)
                    simp [this]
            · cases h
        · -- many-to-one: leave the collection of `x`
          rename_i hrc
          have hrdc : rd.isColl = true := by simpa using hrc
          have hica : sch.isCollAttr (sch.rev (sch.rev a)) = false := by
            rw [sch.rev_rev]; simp [Schema.isCollAttr, hd, hdc]
          obtain ⟨hS, hgone⟩ := reverseRemove1_ok (Q := fun x => x ∈ o :: Pl) hrd hrdc hica (by simp) h hF.agree hF.nodang
          have hcf : sch.isCascade a = false := by
            cases hct : d.cascade with
            | false => simp [Schema.isCascade, hd, hct]
            | true => have := hwf a d rd hd hrd hct; rw [hrdc] at this; cases this
          refine ⟨hS.trans.sub, hF.ofStep hS, ?_⟩
          intro _ p hp
          have := honly hS.trans.sub p hp
          subst this
          exact Or.inr (Or.inr ⟨hcf, hgone⟩)
  · cases h

theorem memcons_eq (o : ObjId) (Pl : List ObjId) : (fun x => x ∈ o :: Pl) = (fun x => x = o ∨ x ∈ Pl) := by
  funext x; simp

theorem delete_spec (hwf : CascWF sch) (guard : Bool) : ∀ fuel, DelSpec sch ct (delete sch ct guard fuel) := by
  intro fuel
  induction fuel with
  | zero => intro Pl o s s' h; simp [delete] at h
  | succ fuel ih =>
    intro Pl o s s' h hR hA hN
    have vac : ∀ x, s.alive x = true → s.alive x = false → Reach sch s o x := fun x h0 h1 => by rw [h0] at h1; cases h1
    simp only [delete] at h
    split at h
    · -- (guarded tree) the delete of `o` is in progress further up
      rename_i hg
      cases h
      simp at hg
      exact ⟨Trans.refl _ _ _, hA, hN, Or.inr hg.2, vac⟩
    · split at h
      · rename_i hdead
        cases h
        exact ⟨Trans.refl _ _ _, hA, hN, Or.inl (by simpa using hdead), vac⟩
      · split at h
        · cases h
        · rename_i s1 h1
          split at h
          · cases h
          · rename_i s2 h2
            have hF0 : FrameSt sch (fun x => x ∈ o :: Pl) o s s := by
              refine ⟨Trans.refl _ _ _, ?_, ?_, vac⟩
              · intro p b q hp hh
                rcases hA p b q hp hh with hm | ⟨hP, hc⟩
                · exact Or.inl hm
                · exact Or.inr ⟨by simp [hP], hc⟩
              · intro p b q hp hnp hh
                exact hN p b q hp (fun hP => hnp (by simp [hP])) hh
            obtain ⟨hI1, hG1, hQ1⟩ := iterE_rule' (f := collStep sch (fun x s => delete sch ct guard fuel (o :: Pl) x s) o)
              (I := Sub sch) (G := FrameSt sch (fun x => x ∈ o :: Pl) o s)
              (Q := fun c st => sch.isCollAttr c = true → ProcAt sch (fun x => x ∈ o :: Pl) o c st)
              (Sub.refl sch) (fun _ _ _ => Sub.trans) (fun c sa sb hs hq hc => (hq hc).mono hs)
              (ct (s.ent o)) (fun c _ sa sb hG hc => collStep_ok ih hR hG hc) s s1 hF0 h1
            obtain ⟨hI2, hG2, hQ2⟩ := iterE_rule' (f := refStep sch guard (fun x s => delete sch ct guard fuel (o :: Pl) x s) o)
              (I := Sub sch) (G := FrameSt sch (fun x => x ∈ o :: Pl) o s)
              (Q := fun a st => sch.isCollAttr a = false → ProcAt sch (fun x => x ∈ o :: Pl) o a st)
              (Sub.refl sch) (fun _ _ _ => Sub.trans) (fun c sa sb hs hq hc => (hq hc).mono hs)
              (ct (s.ent o)) (fun a _ sa sb hG ha => refStep_ok hwf ih hR hG ha) s1 s2 hG1 h2
            have hR2 : Range sch ct s2 := hG2.trans.sub.range hR
            -- every attribute under which `o` still holds something has been dealt with
            have hproc : ∀ b, ProcAt sch (fun x => x ∈ o :: Pl) o b s2 := by
              intro b p hp
              have hmem : b ∈ ct (s.ent o) := by
                have := hR2.ent o b p hp
                rw [hG2.trans.sub.ent] at this
                exact this
              cases hic : sch.isCollAttr b with
              | true => exact (hQ1 b hmem hic).mono hI2 p hp
              | false => exact hQ2 b hmem hic p hp
            have hagree : ∀ st : Store, st.alive o = false → AgreeX sch (fun x => x ∈ o :: Pl) st → AgreeX sch (fun x => x ∈ Pl) st := by
              intro st hod hag p b q hp hh
              rcases hag p b q hp hh with hm | ⟨hP, hc⟩
              · exact Or.inl hm
              · rcases List.mem_cons.mp hP with rfl | hP
                · rw [hod] at hp; cases hp
                · exact Or.inr ⟨hP, hc⟩
            split at h
            · -- a nested frame of `o` (cascade cycle) already finished
              rename_i hod
              have hod' : s2.alive o = false := by simpa using hod
              cases h
              refine ⟨Trans.drop (memcons_eq o Pl ▸ hG2.trans) hod', hagree _ hod' hG2.agree, ?_, Or.inl hod', hG2.newdead⟩
              intro p b q hp hnp hh
              refine hG2.nodang p b q hp ?_ hh
              intro hP
              rcases List.mem_cons.mp hP with rfl | hP
              · rw [hod'] at hp; cases hp
              · exact hnp hP
            · rename_i hoa
              have hoa' : s2.alive o = true := by simpa using hoa
              cases h
              have hod' : (s2.setAlive o false).alive o = false := by simp [Store.setAlive]
              have halive : ∀ p, p ≠ o → (s2.setAlive o false).alive p = s2.alive p := by
                intro p hp; simp [Store.setAlive, hp]
              have hsub : Sub sch s2 (s2.setAlive o false) := by
                refine ⟨rfl, rfl, ?_, fun _ _ _ hh => hh⟩
                intro p hp
                by_cases hpo : p = o
                · subst hpo; rw [hod'] at hp; cases hp
                · rw [halive p hpo] at hp; exact hp
              have hlast : Trans sch (fun x => x ∈ o :: Pl) s2 (s2.setAlive o false) := by
                refine ⟨hsub, ?_, ?_, fun _ _ _ _ _ _ _ hh => hh⟩
                · intro p b q hs hs'
                  rw [hasB_setAlive, hs] at hs'; cases hs'
                · intro p q hpa hpd ⟨b, hb, hh⟩
                  have hpo : p = o := by
                    by_cases hpo : p = o
                    · exact hpo
                    · rw [halive p hpo, hpa] at hpd; cases hpd
                  subst hpo
                  rcases hproc b q hh with hdd | hq | ⟨hc, _⟩
                  · exact Or.inl (hsub.dead hdd)
                  · exact Or.inr hq
                  · rw [hb] at hc; cases hc
              have hag : AgreeX sch (fun x => x ∈ o :: Pl) (s2.setAlive o false) := by
                intro p b q hp hh
                have hpo : p ≠ o := fun e => by rw [e, hod'] at hp; cases hp
                rw [halive p hpo] at hp
                exact hG2.agree p b q hp hh
              refine ⟨Trans.drop (memcons_eq o Pl ▸ hG2.trans.trans hlast) hod', hagree _ hod' hag, ?_, Or.inl hod', ?_⟩
              · intro p b q hp hnp hh
                have hpo : p ≠ o := fun e => by rw [e, hod'] at hp; cases hp
                rw [halive p hpo] at hp
                have hnp' : ¬ p ∈ o :: Pl := by
                  intro hP
                  rcases List.mem_cons.mp hP with e | hP
                  · exact hpo e
                  · exact hnp hP
                have hh2 : hasB sch s2 p b q = true := hh
                by_cases hqo : q = o
                · -- a live holder of `o` outside the in-progress set: impossible, every attribute of `o` was dealt with
                  exfalso
                  subst hqo
                  rcases hG2.agree p b q hp hh2 with hm | ⟨hP, _⟩
                  · rcases hproc (sch.rev b) p hm with hdd | hq | ⟨_, hgone⟩
                    · rw [hp] at hdd; cases hdd
                    · exact hnp' hq
                    · rw [sch.rev_rev, hh2] at hgone; cases hgone
                  · exact hnp' hP
                · rw [halive q hqo]
                  exact hG2.nodang p b q hp hnp' hh2
              · intro x hx hx'
                by_cases hxo : x = o
                · subst hxo; exact Reach.refl _
                · rw [halive x hxo] at hx'
                  exact hG2.newdead x hx hx'

end frame
end PonyVerif.Model.Cascade
