/-
  Lemmas/Rel.lean — invariants of the relationship model (Model/Rel.lean) and their preservation by every procedure.
  Used by Props/C12.lean; written to be reused by C11/C13/C15.
-/
import PonyVerif.Model.Rel
namespace PonyVerif.Model.Rel

/-! ## Invariants -/

/-- both ends agree: whatever a LIVE object `p` holds under `b` holds `p` under `b.reverse`
    (for two live objects this is the `↔` of the property; one-to-one: mutual; symmetric: symmetric) -/
def Agree (sch : Schema) (s : Store) : Prop :=
  ∀ p b q, p < s.n → s.alive p = true → hasB sch s p b q = true → hasB sch s q (sch.rev b) p = true

/-- ids stored in rows of existing objects are ids of existing objects -/
def Range (s : Store) : Prop :=
  (∀ o a x, o < s.n → s.ref o a = some x → x < s.n) ∧ (∀ o a x, o < s.n → s.mem o a x = true → x < s.n)

structure Inv (sch : Schema) (s : Store) : Prop where
  range : Range s
  agree : Agree sch s

/-! ## Schema facts -/

theorem Schema.rev_rev (sch : Schema) (a : Attr) : sch.rev (sch.rev a) = a := by
  unfold Schema.rev
  cases h : sch[a.rel]? with
  | none => simp [h]
  | some r =>
    by_cases hs : r.sym
    · simp [hs, h]
    · simp [hs, h]

theorem Schema.rev_inj (sch : Schema) {a b : Attr} (h : sch.rev a = sch.rev b) : a = b := by
  have := congrArg sch.rev h
  simpa [Schema.rev_rev] using this

/-- a collection attribute and a reference attribute are different attributes -/
theorem Schema.ne_of_kinds {sch : Schema} {a b : Attr} {d e : Side} (ha : sch.side a = some d) (hb : sch.side b = some e)
    (hk : d.isColl ≠ e.isColl) : a ≠ b := by
  intro h; subst h; rw [ha] at hb; cases hb; exact hk rfl

/-! ## Primitive store updates seen through `hasB` -/

section prim
variable {sch : Schema} {s : Store}

theorem hasB_setRef {a : Attr} {d : Side} (ha : sch.side a = some d) (hd : d.isColl = false) (o : ObjId) (v : Option ObjId)
    (p : ObjId) (b : Attr) (q : ObjId) :
    hasB sch (s.setRef o a v) p b q = if p = o ∧ b = a then (v == some q) else hasB sch s p b q := by
  unfold hasB Store.setRef
  by_cases h : p = o ∧ b = a
  · obtain ⟨rfl, rfl⟩ := h; simp [ha, hd]
  · cases hb : sch.side b with
    | none => simp [h]
    | some e => simp [h]

theorem hasB_setMem {a : Attr} {d : Side} (ha : sch.side a = some d) (hd : d.isColl = true) (o x : ObjId) (v : Bool)
    (p : ObjId) (b : Attr) (q : ObjId) :
    hasB sch (s.setMem o a x v) p b q = if p = o ∧ b = a ∧ q = x then v else hasB sch s p b q := by
  unfold hasB Store.setMem
  by_cases h : p = o ∧ b = a ∧ q = x
  · obtain ⟨rfl, rfl, rfl⟩ := h; simp [ha, hd]
  · cases hb : sch.side b with
    | none => simp [h]
    | some e => simp [h]

theorem hasB_setRow {a : Attr} {d : Side} (ha : sch.side a = some d) (hd : d.isColl = true) (o : ObjId) (f : ObjId → Bool)
    (p : ObjId) (b : Attr) (q : ObjId) :
    hasB sch (s.setRow o a f) p b q = if p = o ∧ b = a then f q else hasB sch s p b q := by
  unfold hasB Store.setRow
  by_cases h : p = o ∧ b = a
  · obtain ⟨rfl, rfl⟩ := h; simp [ha, hd]
  · cases hb : sch.side b with
    | none => simp [h]
    | some e => simp [h]

@[simp] theorem hasB_setAlive (o : ObjId) (v : Bool) (p : ObjId) (b : Attr) (q : ObjId) :
    hasB sch (s.setAlive o v) p b q = hasB sch s p b q := rfl

theorem hasB_alloc (e : EntId) (p : ObjId) (b : Attr) (q : ObjId) :
    hasB sch (s.alloc e) p b q = if p = s.n then false else hasB sch s p b q := by
  unfold hasB Store.alloc
  cases hb : sch.side b with
  | none => simp
  | some d => by_cases h : p = s.n <;> simp [h]

/-- writing a reference cell of a collection attribute (never done) / vice versa is invisible -/
theorem hasB_ref_eq {a : Attr} {d : Side} (ha : sch.side a = some d) (hd : d.isColl = false) (p q : ObjId) :
    hasB sch s p a q = (s.ref p a == some q) := by simp [hasB, ha, hd]

theorem hasB_coll_eq {a : Attr} {d : Side} (ha : sch.side a = some d) (hd : d.isColl = true) (p q : ObjId) :
    hasB sch s p a q = s.mem p a q := by simp [hasB, ha, hd]

end prim

/-! ## Result monad -/

theorem Res.bind_ok {r : Res} {f : St → Res} {st' : St} (h : r.bind f = .ok st') : ∃ st1, r = .ok st1 ∧ f st1 = .ok st' := by
  cases r with
  | ok st1 => exact ⟨st1, rfl, h⟩
  | err e st1 => simp [Res.bind] at h

@[simp] theorem iter_nil {α : Type} (f : α → St → Res) (st : St) : iter f [] st = .ok st := rfl
@[simp] theorem iter_cons {α : Type} (f : α → St → Res) (x : α) (xs : List α) (st : St) :
    iter f (x :: xs) st = (f x st).bind (iter f xs) := rfl

theorem iter_cons_ok {α : Type} {f : α → St → Res} {x : α} {xs : List α} {st st' : St}
    (h : iter f (x :: xs) st = .ok st') : ∃ st1, f x st = .ok st1 ∧ iter f xs st1 = .ok st' :=
  Res.bind_ok h

theorem iter_single_ok {α : Type} {f : α → St → Res} {x : α} {st st' : St}
    (h : iter f [x] st = .ok st') : f x st = .ok st' := by
  obtain ⟨st1, h1, h2⟩ := iter_cons_ok h
  simp at h2; cases h2; exact h1

@[simp] theorem St.setStore_store (st : St) (s : Store) : (st.setStore s).store = s := rfl
@[simp] theorem St.log_store (st : St) (u : Undo) : (st.log u).store = st.store := rfl

/-! ## Exact effect of the small procedures on the store (successful runs) -/

theorem reverseAdd1_ok {c : Attr} {item obj : ObjId} {st st' : St} (h : reverseAdd1 c item obj st = .ok st') :
    st.store.mem obj c item = false ∧ st'.store = st.store.setMem obj c item true := by
  unfold reverseAdd1 at h
  split at h
  · cases h
  · cases h; simp_all

theorem reverseRemove1_ok {c : Attr} {item obj : ObjId} {st st' : St} (h : reverseRemove1 c item obj st = .ok st') :
    st.store.mem obj c item = true ∧ st'.store = st.store.setMem obj c item false := by
  unfold reverseRemove1 at h
  split at h
  · cases h; simp_all
  · cases h

/-- store after `Attribute.__set__(o, None)` as a reverse call -/
def clearRevStore (sch : Schema) (s : Store) (o : ObjId) (a : Attr) : Store :=
  match s.ref o a with
  | none => s
  | some u => if sch.isCollAttr (sch.rev a) then (s.setRef o a none).setMem u (sch.rev a) o false else s.setRef o a none

theorem attrClearRev_ok {sch : Schema} {o : ObjId} {a : Attr} {st st' : St} (h : attrClearRev sch o a st = .ok st') :
    st'.store = clearRevStore sch st.store o a ∧ st.store.alive o = true ∧
    (∃ d rd, sch.side a = some d ∧ sch.side (sch.rev a) = some rd ∧ d.required = false ∧
      (∀ u, st.store.ref o a = some u → rd.isColl = true → st.store.mem u (sch.rev a) o = true)) := by
  unfold attrClearRev at h
  split at h
  · cases h
  · rename_i hal
    split at h
    · rename_i d rd hd hrd
      split at h
      · cases h
      · rename_i hreq
        have hal' : st.store.alive o = true := by simpa using hal
        split at h
        · rename_i hnone
          cases h
          refine ⟨by simp [clearRevStore, hnone], hal', d, rd, hd, hrd, by simpa using hreq, ?_⟩
          intro u hu; simp [hnone] at hu
        · rename_i u hu
          simp only at h
          split at h
          · rename_i hcoll
            have h1 := iter_single_ok h
            obtain ⟨hm, hs⟩ := reverseRemove1_ok h1
            simp at hm hs
            refine ⟨?_, hal', d, rd, hd, hrd, by simpa using hreq, ?_⟩
            · simp [clearRevStore, hu, Schema.isCollAttr, hrd, hcoll, hs]
            · intro u' hu' _; rw [hu] at hu'; cases hu'; simpa [Store.setRef] using hm
          · rename_i hcoll
            cases h
            refine ⟨?_, hal', d, rd, hd, hrd, by simpa using hreq, ?_⟩
            · simp [clearRevStore, hu, Schema.isCollAttr, hrd, hcoll]
            · intro u' _ hc; simp [hc] at hcoll
    · cases h


/-- store after `Attribute.__set__(o, x)` as a reverse call -/
def setRevStore (sch : Schema) (s : Store) (o : ObjId) (a : Attr) (x : ObjId) : Store :=
  if s.ref o a = some x then s else
  match s.ref o a with
  | none => s.setRef o a (some x)
  | some u =>
    if sch.isCollAttr (sch.rev a) then (s.setRef o a (some x)).setMem u (sch.rev a) o false
    else if u = o ∧ sch.rev a = a then s.setRef o a (some x)
    else clearRevStore sch (s.setRef o a (some x)) u (sch.rev a)

theorem attrSetRev_ok {sch : Schema} {o : ObjId} {a : Attr} {x : ObjId} {st st' : St} (h : attrSetRev sch o a x st = .ok st') :
    st'.store = setRevStore sch st.store o a x ∧ st.store.alive o = true ∧
    (∃ d rd, sch.side a = some d ∧ sch.side (sch.rev a) = some rd ∧
      (∀ u, st.store.ref o a = some u → u ≠ x → rd.isColl = true → st.store.mem u (sch.rev a) o = true) ∧
      (∀ u, st.store.ref o a = some u → u ≠ x → rd.isColl = false → ¬ (u = o ∧ sch.rev a = a) →
          (st.store.setRef o a (some x)).alive u = true)) := by
  unfold attrSetRev at h
  split at h
  · cases h
  · rename_i hal
    have hal' : st.store.alive o = true := by simpa using hal
    split at h
    · rename_i d rd hd hrd
      simp only at h
      split at h
      · rename_i heq
        cases h
        refine ⟨by simp [setRevStore, heq], hal', d, rd, hd, hrd, ?_, ?_⟩ <;>
          (intro u hu hne; rw [heq] at hu; cases hu; exact absurd rfl hne)
      · rename_i hne
        split at h
        · rename_i hnone
          cases h
          refine ⟨by simp [setRevStore, hnone], hal', d, rd, hd, hrd, ?_, ?_⟩ <;>
            (intro u hu; rw [hnone] at hu; cases hu)
        · rename_i u hu
          have hstore : ∀ (t : Store), (if sch.isCollAttr (sch.rev a) = true then (st.store.setRef o a (some x)).setMem u (sch.rev a) o false
                else if u = o ∧ sch.rev a = a then st.store.setRef o a (some x)
                else clearRevStore sch (st.store.setRef o a (some x)) u (sch.rev a)) = t → setRevStore sch st.store o a x = t := by
            intro t ht
            unfold setRevStore
            rw [if_neg hne]
            simp only [hu]
            exact ht
          have hic : sch.isCollAttr (sch.rev a) = rd.isColl := by simp [Schema.isCollAttr, hrd]
          split at h
          · rename_i hcoll
            have h1 := iter_single_ok h
            obtain ⟨hm, hs⟩ := reverseRemove1_ok h1
            simp only [St.log_store, St.setStore_store] at hm hs
            refine ⟨?_, hal', d, rd, hd, hrd, ?_, ?_⟩
            · rw [hs]; symm; apply hstore; rw [hic, if_pos hcoll]
            · intro u' hu' _ _; rw [hu] at hu'; cases hu'; simpa [Store.setRef] using hm
            · intro u' _ _ hc; simp [hc] at hcoll
          · rename_i hcoll
            split at h
            · cases h
            · split at h
              · rename_i hself
                cases h
                refine ⟨?_, hal', d, rd, hd, hrd, ?_, ?_⟩
                · simp only [St.log_store, St.setStore_store]
                  symm; apply hstore; rw [hic, if_neg hcoll, if_pos hself]
                · intro u' _ _ hc; simp [hc] at hcoll
                · intro u' hu' _ _ hns; rw [hu] at hu'; cases hu'; exact absurd hself hns
              · rename_i hself
                obtain ⟨hs, hal2, _⟩ := attrClearRev_ok h
                simp only [St.log_store, St.setStore_store] at hs hal2
                refine ⟨?_, hal', d, rd, hd, hrd, ?_, ?_⟩
                · rw [hs]; symm; apply hstore; rw [hic, if_neg hcoll, if_neg hself]
                · intro u' _ _ hc; simp [hc] at hcoll
                · intro u' hu' _ _ _; rw [hu] at hu'; cases hu'; exact hal2
    · cases h


/-! ## The small procedures seen through `hasB` -/

section small
variable {sch : Schema} {s : Store}

/-- many-to-one: clearing `o.a` also removes `o` from the collection of its previous owner -/
theorem has_clearRev_m2o {a : Attr} {d rd : Side} (ha : sch.side a = some d) (hd : d.isColl = false)
    (hra : sch.side (sch.rev a) = some rd) (hrd : rd.isColl = true) (o p : ObjId) (b : Attr) (q : ObjId) :
    hasB sch (clearRevStore sch s o a) p b q = true ↔
      hasB sch s p b q = true ∧ ¬ (p = o ∧ b = a) ∧ ¬ (b = sch.rev a ∧ q = o ∧ s.ref o a = some p) := by
  unfold clearRevStore
  have hic : sch.isCollAttr (sch.rev a) = true := by simp [Schema.isCollAttr, hra, hrd]
  have hne : a ≠ sch.rev a := Schema.ne_of_kinds ha hra (by simp [hd, hrd])
  have e1 := hasB_ref_eq (s := s) ha hd
  cases hu : s.ref o a with
  | none => simp only []; grind
  | some u =>
    simp only [hic, if_true]
    rw [hasB_setMem hra hrd, hasB_setRef ha hd]
    grind

/-- one-to-one: clearing `o.a` touches that cell only -/
theorem has_clearRev_o2o {a : Attr} {d rd : Side} (ha : sch.side a = some d) (hd : d.isColl = false)
    (hra : sch.side (sch.rev a) = some rd) (hrd : rd.isColl = false) (o p : ObjId) (b : Attr) (q : ObjId) :
    hasB sch (clearRevStore sch s o a) p b q = true ↔ hasB sch s p b q = true ∧ ¬ (p = o ∧ b = a) := by
  unfold clearRevStore
  have hic : sch.isCollAttr (sch.rev a) = false := by simp [Schema.isCollAttr, hra, hrd]
  have e1 := hasB_ref_eq (s := s) ha hd
  cases hu : s.ref o a with
  | none => simp only []; grind
  | some u =>
    simp only [hic]
    rw [if_neg (by simp), hasB_setRef ha hd]
    grind

/-- many-to-one: `o.a := x` moves `o` out of the collection of its previous owner -/
theorem has_setRev_m2o {a : Attr} {d rd : Side} (ha : sch.side a = some d) (hd : d.isColl = false)
    (hra : sch.side (sch.rev a) = some rd) (hrd : rd.isColl = true) (o x p : ObjId) (b : Attr) (q : ObjId) :
    hasB sch (setRevStore sch s o a x) p b q = true ↔
      if p = o ∧ b = a then q = x
      else hasB sch s p b q = true ∧ ¬ (b = sch.rev a ∧ q = o ∧ s.ref o a = some p ∧ p ≠ x) := by
  unfold setRevStore
  have hic : sch.isCollAttr (sch.rev a) = true := by simp [Schema.isCollAttr, hra, hrd]
  have hne : a ≠ sch.rev a := Schema.ne_of_kinds ha hra (by simp [hd, hrd])
  have e1 := hasB_ref_eq (s := s) ha hd
  by_cases hx : s.ref o a = some x
  · rw [if_pos hx]; grind
  · rw [if_neg hx]
    cases hu : s.ref o a with
    | none => simp only []; rw [hasB_setRef ha hd]; grind
    | some u =>
      simp only [hic, if_true]
      rw [hasB_setMem hra hrd, hasB_setRef ha hd]
      grind

/-- one-to-one: `o.a := x` also clears the reverse reference of the previous partner of `o` (unless that is `o` itself
    under a symmetric attribute) -/
theorem has_setRev_o2o {a : Attr} {d rd : Side} (ha : sch.side a = some d) (hd : d.isColl = false)
    (hra : sch.side (sch.rev a) = some rd) (hrd : rd.isColl = false) (o x p : ObjId) (b : Attr) (q : ObjId) :
    hasB sch (setRevStore sch s o a x) p b q = true ↔
      if p = o ∧ b = a then q = x
      else hasB sch s p b q = true ∧ ¬ (b = sch.rev a ∧ s.ref o a = some p ∧ s.ref o a ≠ some x) := by
  unfold setRevStore
  have hic : sch.isCollAttr (sch.rev a) = false := by simp [Schema.isCollAttr, hra, hrd]
  have e1 := hasB_ref_eq (s := s) ha hd
  have hrr := sch.rev_rev a
  by_cases hx : s.ref o a = some x
  · rw [if_pos hx]; grind
  · rw [if_neg hx]
    cases hu : s.ref o a with
    | none => simp only []; rw [hasB_setRef ha hd]; grind
    | some u =>
      simp only [hic]
      rw [if_neg (by simp)]
      by_cases hself : u = o ∧ sch.rev a = a
      · rw [if_pos hself, hasB_setRef ha hd]; grind
      · rw [if_neg hself]
        have ha' : sch.side (sch.rev (sch.rev a)) = some d := by rw [hrr]; exact ha
        rw [has_clearRev_o2o hra hrd ha' hd, hasB_setRef ha hd]
        grind

end small


/-! ## Frames -/

/-- object table untouched (everything except `delete` and `create`) -/
structure Frame (s s' : Store) : Prop where
  n : s'.n = s.n
  alive : s'.alive = s.alive
  ent : s'.ent = s.ent

theorem Frame.refl (s : Store) : Frame s s := ⟨rfl, rfl, rfl⟩
theorem Frame.trans {s s1 s2 : Store} (h1 : Frame s s1) (h2 : Frame s1 s2) : Frame s s2 :=
  ⟨h2.n.trans h1.n, h2.alive.trans h1.alive, h2.ent.trans h1.ent⟩

section rawfacts
variable {sch : Schema} {s : Store}

theorem frame_clearRev (o : ObjId) (a : Attr) : Frame s (clearRevStore sch s o a) := by
  unfold clearRevStore; cases s.ref o a with
  | none => exact Frame.refl s
  | some u => simp only []; split <;> exact ⟨rfl, rfl, rfl⟩

theorem ref_clearRev (o : ObjId) (a : Attr) (p : ObjId) (b : Attr) :
    (clearRevStore sch s o a).ref p b = if p = o ∧ b = a then none else s.ref p b := by
  unfold clearRevStore
  cases hu : s.ref o a with
  | none => simp only []; split <;> simp_all
  | some u => simp only []; split <;> simp [Store.setRef, Store.setMem]

theorem mem_clearRev (o : ObjId) (a : Attr) (p : ObjId) (b : Attr) (q : ObjId)
    (h : (clearRevStore sch s o a).mem p b q = true) : s.mem p b q = true := by
  unfold clearRevStore at h
  cases hu : s.ref o a with
  | none => simpa [hu] using h
  | some u =>
    simp only [hu] at h
    split at h
    · simp only [Store.setMem, Store.setRef] at h; split at h <;> simp_all
    · simpa [Store.setRef] using h

theorem frame_setRev (o : ObjId) (a : Attr) (x : ObjId) : Frame s (setRevStore sch s o a x) := by
  unfold setRevStore
  split
  · exact Frame.refl s
  · cases s.ref o a with
    | none => exact ⟨rfl, rfl, rfl⟩
    | some u =>
      simp only []
      split
      · exact ⟨rfl, rfl, rfl⟩
      · split
        · exact ⟨rfl, rfl, rfl⟩
        · exact Frame.trans (s1 := s.setRef o a (some x)) ⟨rfl, rfl, rfl⟩ (frame_clearRev _ _)

theorem ref_setRev_m2o {a : Attr} (hic : sch.isCollAttr (sch.rev a) = true) (o x p : ObjId) (b : Attr) :
    (setRevStore sch s o a x).ref p b = if p = o ∧ b = a then some x else s.ref p b := by
  unfold setRevStore
  split
  · split <;> simp_all
  · cases hu : s.ref o a with
    | none => simp [Store.setRef]
    | some u => simp [hic, Store.setRef, Store.setMem]

theorem mem_setRev (o : ObjId) (a : Attr) (x p : ObjId) (b : Attr) (q : ObjId)
    (h : (setRevStore sch s o a x).mem p b q = true) : s.mem p b q = true := by
  unfold setRevStore at h
  split at h
  · exact h
  · cases hu : s.ref o a with
    | none => simpa [hu, Store.setRef] using h
    | some u =>
      simp only [hu] at h
      split at h
      · simp only [Store.setMem, Store.setRef] at h; split at h <;> simp_all
      · split at h
        · simpa [Store.setRef] using h
        · have := mem_clearRev _ _ _ _ _ h; simpa [Store.setRef] using this

end rawfacts

/-! ## The four loops -/

section loops
variable {sch : Schema}

/-- loop A: `for item in items: reverse.__set__(item, None, undo_funcs)` on a one-to-many collection -/
theorem iterClear_ok {rc : Attr} {d cd : Side} (hrc : sch.side rc = some d) (hd : d.isColl = false)
    (hc : sch.side (sch.rev rc) = some cd) (hcd : cd.isColl = true) :
    ∀ (items : List ObjId) (st st' : St), iter (fun i => attrClearRev sch i rc) items st = .ok st' →
      (∀ p b q, hasB sch st'.store p b q = true ↔
          hasB sch st.store p b q = true ∧ ¬ (b = rc ∧ p ∈ items) ∧ ¬ (b = sch.rev rc ∧ q ∈ items ∧ st.store.ref q rc = some p)) ∧
      (∀ p b, st'.store.ref p b = if b = rc ∧ p ∈ items then none else st.store.ref p b) ∧
      Frame st.store st'.store ∧
      (∀ p b q, st'.store.mem p b q = true → st.store.mem p b q = true) ∧
      (∀ i ∈ items, st.store.alive i = true) := by
  intro items
  induction items with
  | nil => intro st st' h; simp at h; cases h; simp [Frame.refl]
  | cons i rest ih =>
    intro st st' h
    obtain ⟨st1, h1, h2⟩ := iter_cons_ok h
    obtain ⟨hs1, hal, _⟩ := attrClearRev_ok h1
    obtain ⟨ihH, ihR, ihF, ihM, ihA⟩ := ih st1 st' h2
    have hF1 : Frame st.store st1.store := hs1 ▸ frame_clearRev i rc
    refine ⟨?_, ?_, Frame.trans hF1 ihF, ?_, ?_⟩
    · intro p b q
      rw [ihH, hs1, has_clearRev_m2o hrc hd hc hcd, ref_clearRev]
      simp only [List.mem_cons]
      grind
    · intro p b
      rw [ihR, hs1, ref_clearRev]
      simp only [List.mem_cons]
      grind
    · intro p b q hm
      exact mem_clearRev (sch := sch) i rc p b q (hs1 ▸ ihM p b q hm)
    · intro j hj
      rcases List.mem_cons.mp hj with rfl | hj
      · exact hal
      · have := ihA j hj; rw [hF1.alive] at this; exact this

/-- loop B: `for item in items: reverse.__set__(item, obj, undo_funcs)` on a one-to-many collection of `o` -/
theorem iterSet_ok {rc : Attr} {d cd : Side} (hrc : sch.side rc = some d) (hd : d.isColl = false)
    (hc : sch.side (sch.rev rc) = some cd) (hcd : cd.isColl = true) (o : ObjId) :
    ∀ (items : List ObjId) (st st' : St), iter (fun i => attrSetRev sch i rc o) items st = .ok st' →
      (∀ p b q, hasB sch st'.store p b q = true ↔
          if b = rc ∧ p ∈ items then q = o
          else hasB sch st.store p b q = true ∧
               ¬ (b = sch.rev rc ∧ q ∈ items ∧ st.store.ref q rc = some p ∧ p ≠ o)) ∧
      (∀ p b, st'.store.ref p b = if b = rc ∧ p ∈ items then some o else st.store.ref p b) ∧
      Frame st.store st'.store ∧
      (∀ p b q, st'.store.mem p b q = true → st.store.mem p b q = true) ∧
      (∀ i ∈ items, st.store.alive i = true) := by
  have hic : sch.isCollAttr (sch.rev rc) = true := by simp [Schema.isCollAttr, hc, hcd]
  intro items
  induction items with
  | nil => intro st st' h; simp at h; cases h; simp [Frame.refl]
  | cons i rest ih =>
    intro st st' h
    obtain ⟨st1, h1, h2⟩ := iter_cons_ok h
    obtain ⟨hs1, hal, _⟩ := attrSetRev_ok h1
    obtain ⟨ihH, ihR, ihF, ihM, ihA⟩ := ih st1 st' h2
    have hF1 : Frame st.store st1.store := hs1 ▸ frame_setRev i rc o
    refine ⟨?_, ?_, Frame.trans hF1 ihF, ?_, ?_⟩
    · intro p b q
      rw [ihH, hs1, has_setRev_m2o hrc hd hc hcd, ref_setRev_m2o hic]
      simp only [List.mem_cons]
      grind
    · intro p b
      rw [ihR, hs1, ref_setRev_m2o hic]
      simp only [List.mem_cons]
      grind
    · intro p b q hm
      exact mem_setRev (sch := sch) i rc o p b q (hs1 ▸ ihM p b q hm)
    · intro j hj
      rcases List.mem_cons.mp hj with rfl | hj
      · exact hal
      · have := ihA j hj; rw [hF1.alive] at this; exact this

/-- loop C: `Set.reverse_remove(attr=rc, objects=items, item=o)` -/
theorem reverseRemove_ok {rc : Attr} {d : Side} (hrc : sch.side rc = some d) (hd : d.isColl = true) (o : ObjId) :
    ∀ (items : List ObjId) (st st' : St), reverseRemove rc items o st = .ok st' →
      (∀ p b q, hasB sch st'.store p b q = true ↔ hasB sch st.store p b q = true ∧ ¬ (b = rc ∧ q = o ∧ p ∈ items)) ∧
      st'.store.ref = st.store.ref ∧
      Frame st.store st'.store ∧
      (∀ p b q, st'.store.mem p b q = true → st.store.mem p b q = true) ∧
      (∀ i ∈ items, st.store.mem i rc o = true) := by
  intro items
  induction items with
  | nil => intro st st' h; simp [reverseRemove] at h; cases h; simp [Frame.refl]
  | cons i rest ih =>
    intro st st' h
    obtain ⟨st1, h1, h2⟩ := iter_cons_ok h
    obtain ⟨hm, hs1⟩ := reverseRemove1_ok h1
    obtain ⟨ihH, ihR, ihF, ihM, ihA⟩ := ih st1 st' h2
    have hF1 : Frame st.store st1.store := hs1 ▸ ⟨rfl, rfl, rfl⟩
    refine ⟨?_, ?_, Frame.trans hF1 ihF, ?_, ?_⟩
    · intro p b q
      rw [ihH, hs1, hasB_setMem hrc hd]
      simp only [List.mem_cons]
      grind
    · rw [ihR, hs1]; rfl
    · intro p b q hm'
      have := ihM p b q hm'
      rw [hs1] at this
      simp only [Store.setMem] at this
      split at this <;> simp_all
    · intro j hj
      rcases List.mem_cons.mp hj with rfl | hj
      · exact hm
      · have := ihA j hj
        rw [hs1] at this
        simp only [Store.setMem] at this
        split at this <;> simp_all

/-- loop D: `Set.reverse_add(attr=rc, objects=items, item=o)` -/
theorem reverseAdd_ok {rc : Attr} {d : Side} (hrc : sch.side rc = some d) (hd : d.isColl = true) (o : ObjId) :
    ∀ (items : List ObjId) (st st' : St), reverseAdd rc items o st = .ok st' →
      (∀ p b q, hasB sch st'.store p b q = true ↔ hasB sch st.store p b q = true ∨ (b = rc ∧ q = o ∧ p ∈ items)) ∧
      st'.store.ref = st.store.ref ∧
      Frame st.store st'.store ∧
      (∀ p b q, st'.store.mem p b q = true → st.store.mem p b q = true ∨ (b = rc ∧ q = o ∧ p ∈ items)) ∧
      (∀ i ∈ items, st.store.mem i rc o = false) := by
  intro items
  induction items with
  | nil => intro st st' h; simp [reverseAdd] at h; cases h; simp [Frame.refl]
  | cons i rest ih =>
    intro st st' h
    obtain ⟨st1, h1, h2⟩ := iter_cons_ok h
    obtain ⟨hm, hs1⟩ := reverseAdd1_ok h1
    obtain ⟨ihH, ihR, ihF, ihM, ihA⟩ := ih st1 st' h2
    have hF1 : Frame st.store st1.store := hs1 ▸ ⟨rfl, rfl, rfl⟩
    refine ⟨?_, ?_, Frame.trans hF1 ihF, ?_, ?_⟩
    · intro p b q
      rw [ihH, hs1, hasB_setMem hrc hd]
      simp only [List.mem_cons]
      grind
    · rw [ihR, hs1]; rfl
    · intro p b q hm'
      rcases ihM p b q hm' with h' | h'
      · rw [hs1] at h'
        simp only [Store.setMem] at h'
        simp only [List.mem_cons]
        split at h' <;> grind
      · simp only [List.mem_cons]; grind
    · intro j hj
      rcases List.mem_cons.mp hj with rfl | hj
      · exact hm
      · have := ihA j hj
        rw [hs1] at this
        simp only [Store.setMem] at this
        split at this <;> simp_all

end loops


/-! ## Removal-only steps (everything `delete` does) -/

/-- `s'` arises from `s` by removals only: references are kept or cleared, collections shrink, objects die -/
structure Sub (s s' : Store) : Prop where
  n : s'.n = s.n
  ent : s'.ent = s.ent
  alive : ∀ p, s'.alive p = true → s.alive p = true
  ref : ∀ p b, s'.ref p b = s.ref p b ∨ s'.ref p b = none
  mem : ∀ p b q, s'.mem p b q = true → s.mem p b q = true

theorem Sub.refl (s : Store) : Sub s s := ⟨rfl, rfl, fun _ h => h, fun _ _ => Or.inl rfl, fun _ _ _ h => h⟩

theorem Sub.trans {s s1 s2 : Store} (h1 : Sub s s1) (h2 : Sub s1 s2) : Sub s s2 where
  n := h2.n.trans h1.n
  ent := h2.ent.trans h1.ent
  alive p h := h1.alive p (h2.alive p h)
  ref p b := by
    rcases h2.ref p b with e | e
    · rw [e]; exact h1.ref p b
    · exact Or.inr e
  mem p b q h := h1.mem p b q (h2.mem p b q h)

theorem Sub.range {s s' : Store} (h : Sub s s') (hR : Range s) : Range s' := by
  refine ⟨?_, ?_⟩
  · intro o a x ho hx
    rw [h.n] at ho ⊢
    rcases h.ref o a with e | e
    · rw [e] at hx; exact hR.1 o a x ho hx
    · rw [e] at hx; cases hx
  · intro o a x ho hx
    rw [h.n] at ho ⊢
    exact hR.2 o a x ho (h.mem o a x hx)

theorem Sub.has {sch : Schema} {s s' : Store} (h : Sub s s') {p : ObjId} {b : Attr} {q : ObjId}
    (hh : hasB sch s' p b q = true) : hasB sch s p b q = true := by
  unfold hasB at hh ⊢
  cases hb : sch.side b with
  | none => simp [hb] at hh
  | some d =>
    simp only [hb] at hh ⊢
    split at hh
    · rename_i hc; simp only [hc, if_true]; exact h.mem p b q hh
    · rename_i hc; simp only [hc]
      rcases h.ref p b with e | e
      · rw [e] at hh; simpa using hh
      · rw [e] at hh; simp at hh

theorem Frame.sub {s s' : Store} (hF : Frame s s') (hr : ∀ p b, s'.ref p b = s.ref p b ∨ s'.ref p b = none)
    (hm : ∀ p b q, s'.mem p b q = true → s.mem p b q = true) : Sub s s' :=
  ⟨hF.n, hF.ent, fun p h => by rw [hF.alive] at h; exact h, hr, hm⟩

/-- a reference is cleared only because its target died (or is being deleted: `P`) -/
def Cleared (P : ObjId → Prop) (s s' : Store) : Prop :=
  ∀ q b w, s.ref q b = some w → s'.ref q b = some w ∨ (s'.ref q b = none ∧ (s'.alive w = false ∨ P w))

theorem Cleared.refl (P : ObjId → Prop) (s : Store) : Cleared P s s := fun _ _ _ h => Or.inl h

theorem Cleared.trans {P : ObjId → Prop} {s s1 s2 : Store} (h1 : Cleared P s s1) (h2 : Cleared P s1 s2) (hs : Sub s1 s2) :
    Cleared P s s2 := by
  intro q b w hw
  rcases h1 q b w hw with e | ⟨e, hd⟩
  · exact h2 q b w e
  · right
    refine ⟨?_, ?_⟩
    · rcases hs.ref q b with e' | e'
      · rw [e', e]
      · exact e'
    · rcases hd with hd | hd
      · left
        cases hal : s2.alive w with
        | false => rfl
        | true => rw [hs.alive w hal] at hd; cases hd
      · exact Or.inr hd

theorem Cleared.mono {P Q : ObjId → Prop} {s s' : Store} (h : Cleared P s s') (hPQ : ∀ x, P x → Q x) : Cleared Q s s' := by
  intro q b w hw
  rcases h q b w hw with e | ⟨e, hd⟩
  · exact Or.inl e
  · exact Or.inr ⟨e, hd.imp id (hPQ w)⟩

/-- `Agree` while some calls are in progress: the REFERENCE cells `(p, b)` in `E` may be stale (their mirror is already gone) -/
def D (sch : Schema) (s : Store) (E : ObjId → Attr → Prop) : Prop :=
  ∀ p b q, p < s.n → s.alive p = true → hasB sch s p b q = true →
    hasB sch s q (sch.rev b) p = true ∨ (E p b ∧ sch.isCollAttr b = false)

theorem D_false_iff {sch : Schema} {s : Store} : D sch s (fun _ _ => False) ↔ Agree sch s := by
  constructor
  · intro h p b q hp hal hh
    rcases h p b q hp hal hh with h' | ⟨h', _⟩
    · exact h'
    · exact absurd h' id
  · intro h p b q hp hal hh
    exact Or.inl (h p b q hp hal hh)

theorem D.mono {sch : Schema} {s : Store} {E F : ObjId → Attr → Prop} (h : D sch s E) (hEF : ∀ x b, E x b → F x b) : D sch s F := by
  intro p b q hp hal hh
  rcases h p b q hp hal hh with h' | ⟨h', hb⟩
  · exact Or.inl h'
  · exact Or.inr ⟨hEF p b h', hb⟩

/-- what the callers need to know about `Entity._delete_` (`E`: stale cells tolerated, `P`: objects whose deletion is in progress) -/
def DelSpec (sch : Schema) (del : ObjId → St → Res) : Prop :=
  ∀ (x : ObjId) (st st' : St) (E : ObjId → Attr → Prop) (P : ObjId → Prop), del x st = .ok st' → x < st.store.n →
    Range st.store → D sch st.store E →
    D sch st'.store E ∧ Sub st.store st'.store ∧ Cleared P st.store st'.store ∧ st'.store.alive x = false

/-- the general removal step: if only half links are removed, and a half link that loses its mirror is a reference cell
    in `E`, then `D` is kept -/
theorem D.removal {sch : Schema} {s s' : Store} {E : ObjId → Attr → Prop} (hD : D sch s E) (hs : Sub s s')
    (hmir : ∀ p b q, p < s.n → s'.alive p = true → hasB sch s' p b q = true → hasB sch s q (sch.rev b) p = true →
        hasB sch s' q (sch.rev b) p = true ∨ (E p b ∧ sch.isCollAttr b = false)) : D sch s' E := by
  intro p b q hp hal hh
  rw [hs.n] at hp
  rcases hD p b q hp (hs.alive p hal) (hs.has hh) with h' | h'
  · exact hmir p b q hp hal hh h'
  · exact Or.inr h'

end PonyVerif.Model.Rel
