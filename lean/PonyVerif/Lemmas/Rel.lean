/-
  Lemmas/Rel.lean — invariants of the relationship model (Model/Rel.lean) and their preservation by every procedure.
  Used by Props/C12.lean; written to be reused by C11/C13/C15.
-/
import PonyVerif.Model.Rel
namespace PonyVerif.Model.Rel

/-! ## Invariants -/

/-- both ends agree: whatever a LIVE object `p` holds under `b` holds `p` under `b.reverse`
    (for two live objects this is the `↔` of the property; one-to-one: mutual; symmetric: symmetric) -/
def Agree (sch : Schema) (s : Store) : Prop :=
  ∀ p b q, p < s.n → s.alive p = true → hasB sch s p b q = true → hasB sch s q (sch.rev b) p = true

/-- ids stored in rows of existing objects are ids of existing objects -/
def Range (s : Store) : Prop :=
  (∀ o a x, o < s.n → s.ref o a = some x → x < s.n) ∧ (∀ o a x, o < s.n → s.mem o a x = true → x < s.n)

/-- no object is its own partner under a symmetric (self-reverse) reference attribute -/
def NoSelf (sch : Schema) (s : Store) : Prop :=
  ∀ o a, o < s.n → sch.rev a = a → s.ref o a ≠ some o

structure Inv (sch : Schema) (s : Store) : Prop where
  range : Range s
  agree : Agree sch s
  noself : NoSelf sch s

/-! ## Schema facts -/

theorem Schema.rev_rev (sch : Schema) (a : Attr) : sch.rev (sch.rev a) = a := by
  unfold Schema.rev
  cases h : sch[a.rel]? with
  | none => simp [h]
  | some r =>
    by_cases hs : r.sym
    · simp [hs, h]
    · simp [hs, h]

theorem Schema.rev_inj (sch : Schema) {a b : Attr} (h : sch.rev a = sch.rev b) : a = b := by
  have := congrArg sch.rev h
  simpa [Schema.rev_rev] using this

/-- a collection attribute and a reference attribute are different attributes -/
theorem Schema.ne_of_kinds {sch : Schema} {a b : Attr} {d e : Side} (ha : sch.side a = some d) (hb : sch.side b = some e)
    (hk : d.isColl ≠ e.isColl) : a ≠ b := by
  intro h; subst h; rw [ha] at hb; cases hb; exact hk rfl

/-! ## Primitive store updates seen through `hasB` -/

section prim
variable {sch : Schema} {s : Store}

theorem hasB_setRef {a : Attr} {d : Side} (ha : sch.side a = some d) (hd : d.isColl = false) (o : ObjId) (v : Option ObjId)
    (p : ObjId) (b : Attr) (q : ObjId) :
    hasB sch (s.setRef o a v) p b q = if p = o ∧ b = a then (v == some q) else hasB sch s p b q := by
  unfold hasB Store.setRef
  by_cases h : p = o ∧ b = a
  · obtain ⟨rfl, rfl⟩ := h; simp [ha, hd]
  · cases hb : sch.side b with
    | none => simp [h]
    | some e => simp [h]

theorem hasB_setMem {a : Attr} {d : Side} (ha : sch.side a = some d) (hd : d.isColl = true) (o x : ObjId) (v : Bool)
    (p : ObjId) (b : Attr) (q : ObjId) :
    hasB sch (s.setMem o a x v) p b q = if p = o ∧ b = a ∧ q = x then v else hasB sch s p b q := by
  unfold hasB Store.setMem
  by_cases h : p = o ∧ b = a ∧ q = x
  · obtain ⟨rfl, rfl, rfl⟩ := h; simp [ha, hd]
  · cases hb : sch.side b with
    | none => simp [h]
    | some e => simp [h]

theorem hasB_setRow {a : Attr} {d : Side} (ha : sch.side a = some d) (hd : d.isColl = true) (o : ObjId) (f : ObjId → Bool)
    (p : ObjId) (b : Attr) (q : ObjId) :
    hasB sch (s.setRow o a f) p b q = if p = o ∧ b = a then f q else hasB sch s p b q := by
  unfold hasB Store.setRow
  by_cases h : p = o ∧ b = a
  · obtain ⟨rfl, rfl⟩ := h; simp [ha, hd]
  · cases hb : sch.side b with
    | none => simp [h]
    | some e => simp [h]

@[simp] theorem hasB_setAlive (o : ObjId) (v : Bool) (p : ObjId) (b : Attr) (q : ObjId) :
    hasB sch (s.setAlive o v) p b q = hasB sch s p b q := rfl

theorem hasB_alloc (e : EntId) (p : ObjId) (b : Attr) (q : ObjId) :
    hasB sch (s.alloc e) p b q = if p = s.n then false else hasB sch s p b q := by
  unfold hasB Store.alloc
  cases hb : sch.side b with
  | none => simp
  | some d => by_cases h : p = s.n <;> simp [h]

/-- writing a reference cell of a collection attribute (never done) / vice versa is invisible -/
theorem hasB_ref_eq {a : Attr} {d : Side} (ha : sch.side a = some d) (hd : d.isColl = false) (p q : ObjId) :
    hasB sch s p a q = (s.ref p a == some q) := by simp [hasB, ha, hd]

theorem hasB_coll_eq {a : Attr} {d : Side} (ha : sch.side a = some d) (hd : d.isColl = true) (p q : ObjId) :
    hasB sch s p a q = s.mem p a q := by simp [hasB, ha, hd]

end prim

/-! ## Result monad -/

theorem Res.bind_ok {r : Res} {f : St → Res} {st' : St} (h : r.bind f = .ok st') : ∃ st1, r = .ok st1 ∧ f st1 = .ok st' := by
  cases r with
  | ok st1 => exact ⟨st1, rfl, h⟩
  | err e st1 => simp [Res.bind] at h

@[simp] theorem iter_nil {α : Type} (f : α → St → Res) (st : St) : iter f [] st = .ok st := rfl
@[simp] theorem iter_cons {α : Type} (f : α → St → Res) (x : α) (xs : List α) (st : St) :
    iter f (x :: xs) st = (f x st).bind (iter f xs) := rfl

theorem iter_cons_ok {α : Type} {f : α → St → Res} {x : α} {xs : List α} {st st' : St}
    (h : iter f (x :: xs) st = .ok st') : ∃ st1, f x st = .ok st1 ∧ iter f xs st1 = .ok st' :=
  Res.bind_ok h

theorem iter_single_ok {α : Type} {f : α → St → Res} {x : α} {st st' : St}
    (h : iter f [x] st = .ok st') : f x st = .ok st' := by
  obtain ⟨st1, h1, h2⟩ := iter_cons_ok h
  simp at h2; cases h2; exact h1

@[simp] theorem St.setStore_store (st : St) (s : Store) : (st.setStore s).store = s := rfl
@[simp] theorem St.log_store (st : St) (u : Undo) : (st.log u).store = st.store := rfl

/-! ## Exact effect of the small procedures on the store (successful runs) -/

theorem reverseAdd1_ok {c : Attr} {item obj : ObjId} {st st' : St} (h : reverseAdd1 c item obj st = .ok st') :
    st.store.mem obj c item = false ∧ st'.store = st.store.setMem obj c item true := by
  unfold reverseAdd1 at h
  split at h
  · cases h
  · cases h; simp_all

theorem reverseRemove1_ok {c : Attr} {item obj : ObjId} {st st' : St} (h : reverseRemove1 c item obj st = .ok st') :
    st.store.mem obj c item = true ∧ st'.store = st.store.setMem obj c item false := by
  unfold reverseRemove1 at h
  split at h
  · cases h; simp_all
  · cases h

/-- store after `Attribute.__set__(o, None)` as a reverse call -/
def clearRevStore (sch : Schema) (s : Store) (o : ObjId) (a : Attr) : Store :=
  match s.ref o a with
  | none => s
  | some u => if sch.isCollAttr (sch.rev a) then (s.setRef o a none).setMem u (sch.rev a) o false else s.setRef o a none

theorem attrClearRev_ok {sch : Schema} {o : ObjId} {a : Attr} {st st' : St} (h : attrClearRev sch o a st = .ok st') :
    st'.store = clearRevStore sch st.store o a ∧ st.store.alive o = true ∧
    (∃ d rd, sch.side a = some d ∧ sch.side (sch.rev a) = some rd ∧ d.required = false ∧
      (∀ u, st.store.ref o a = some u → rd.isColl = true → st.store.mem u (sch.rev a) o = true)) := by
  unfold attrClearRev at h
  split at h
  · cases h
  · rename_i hal
    split at h
    · rename_i d rd hd hrd
      split at h
      · cases h
      · rename_i hreq
        have hal' : st.store.alive o = true := by simpa using hal
        split at h
        · rename_i hnone
          cases h
          refine ⟨by simp [clearRevStore, hnone], hal', d, rd, hd, hrd, by simpa using hreq, ?_⟩
          intro u hu; simp [hnone] at hu
        · rename_i u hu
          simp only at h
          split at h
          · rename_i hcoll
            have h1 := iter_single_ok h
            obtain ⟨hm, hs⟩ := reverseRemove1_ok h1
            simp at hm hs
            refine ⟨?_, hal', d, rd, hd, hrd, by simpa using hreq, ?_⟩
            · simp [clearRevStore, hu, Schema.isCollAttr, hrd, hcoll, hs]
            · intro u' hu' _; rw [hu] at hu'; cases hu'; simpa [Store.setRef] using hm
          · rename_i hcoll
            cases h
            refine ⟨?_, hal', d, rd, hd, hrd, by simpa using hreq, ?_⟩
            · simp [clearRevStore, hu, Schema.isCollAttr, hrd, hcoll]
            · intro u' _ hc; simp [hc] at hcoll
    · cases h

end PonyVerif.Model.Rel
