/-
  Lemmas/UndoCreate.lean — a successful constructor call keeps the session well-formed.
-/
import PonyVerif.Lemmas.UndoKeys
set_option linter.unusedSimpArgs false
set_option linter.unusedVariables false
namespace PonyVerif.Model.Undo

theorem tuple_none_of_mem {l : List AttrId} {f : AttrId → Option Nat} {a : AttrId} (ha : a ∈ l) (hf : f a = none) : tuple (l.map f) = none := by
  unfold tuple
  have : (l.map f).all Option.isSome = false := by
    rw [List.all_eq_false]
    exact ⟨f a, List.mem_map.mpr ⟨a, ha, rfl⟩, by rw [hf]; simp⟩
  simp [this]

theorem tuple_nil (f : AttrId → Option Nat) : tuple (([] : List AttrId).map f) = none := by
  simp [tuple]

theorem KeyOkV.of_idx {sch : Schema} {s s1 : Store} {o : ObjId} {v : AttrId → Option Nat} (h : KeyOkV sch s o v)
    (e1 : s1.idx = s.idx) (e2 : s1.cidx = s.cidx) : KeyOkV sch s1 o v :=
  ⟨fun a x e => h.idxVal a x (e1 ▸ e), fun a u e hu => by rw [e1]; exact h.valIdx a u e hu,
   fun k vs e => h.cidxVal k vs (e2 ▸ e), fun k us e hlt => by rw [e2]; exact h.valCidx k us e hlt⟩

/-- the attribute is written by the constructor's loop (`obj._vals_[attr] = val`) -/
def wr (sch : Schema) (a : AttrId) : Bool :=
  match sch.decl a with
  | some d => d.kind != .coll
  | none => false

/-- invariant of the constructor's loop; `s` is the store before the call, `id` the object under construction, `done` the attributes handled -/
structure CInv (sch : Schema) (s : Store) (id : ObjId) (v : AttrId → Option Nat) (done : List AttrId) (cur : Store) : Prop where
  okv : IdxOkV sch cur id (fun _ => none)
  dom : IdxDom sch cur
  n : cur.n = s.n + 1
  idxSub : ∀ a x o', cur.idx a x = some o' → s.idx a x = some o'
  cidxSub : ∀ k x o', cur.cidx k x = some o' → s.cidx k x = some o'
  vals : ∀ a, sch.isKeyPart a = true → (cur.row id).val a = if (a ∈ done ∧ wr sch a = true) then v a else none

theorem CInv.of_keep {sch : Schema} {s cur cur' : Store} {id : ObjId} {v : AttrId → Option Nat} {done : List AttrId}
    (h : CInv sch s id v done cur) (hk : Keep sch cur cur') : CInv sch s id v done cur' := by
  obtain ⟨h1, h2⟩ := IdxOkV.of_keep h.okv h.dom hk
  exact ⟨h1, h2, hk.n.trans h.n, fun a x o' e => h.idxSub a x o' (hk.idxSub a x o' e), fun k x o' e => h.cidxSub k x o' (hk.cidxSub k x o' e),
    fun a ha => by rw [hk.scal id a ha]; exact h.vals a ha⟩

theorem CInv.skip {sch : Schema} {s cur : Store} {id : ObjId} {v : AttrId → Option Nat} {done : List AttrId} {a : AttrId}
    (h : CInv sch s id v done cur) (hw : wr sch a = false) : CInv sch s id v (done ++ [a]) cur := by
  refine ⟨h.okv, h.dom, h.n, h.idxSub, h.cidxSub, fun a' ha' => ?_⟩
  rw [h.vals a' ha']
  by_cases e : a' = a
  · subst e; simp [hw]
  · simp [e]

theorem CInv.fresh {sch : Schema} {s cur : Store} {id : ObjId} {v : AttrId → Option Nat} {done : List AttrId} {a : AttrId}
    (h : CInv sch s id v done cur) (hw : wr sch a = true) (hnd : a ∉ done) :
    CInv sch s id v (done ++ [a]) (cur.upd id fun r => { r with val := set1 r.val a (v a) }) := by
  refine ⟨?_, ⟨fun a' x o' e => h.dom.idx a' x o' e, fun k x o' e => h.dom.cidx k x o' e⟩, h.n, h.idxSub, h.cidxSub, ?_⟩
  · intro p hp hl
    have hl' : (cur.row p).status.isDel = false := by
      by_cases hpi : p = id
      · rw [hpi] at hl ⊢; rw [upd_row_same] at hl; exact hl
      · rw [upd_row_other _ _ _ _ hpi] at hl; exact hl
    have := h.okv p hp hl'
    by_cases hpi : p = id
    · simp only [hpi, if_true] at this ⊢; exact this.of_idx rfl rfl
    · simp only [hpi, if_false] at this ⊢
      rw [upd_row_other _ _ _ _ hpi]; exact this.of_idx rfl rfl
  · intro a' ha'
    rw [upd_row_same]
    simp only [set1]
    by_cases e : a' = a
    · subst e; simp [hw]
    · simp only [e, if_false]
      rw [h.vals a' ha']
      simp [e]

theorem cinv_step {sch : Schema} {s : Store} {id : ObjId} {v : AttrId → Option Nat} {done : List AttrId} (fuel : Nat) (items : AttrId → List ObjId)
    (a : AttrId) (st st' : St) (h : CInv sch s id v done st.store) (hnd : a ∉ done)
    (hr : createStep sch fuel id v items a st = .ok st') : CInv sch s id v (done ++ [a]) st'.store := by
  unfold createStep at hr
  split at hr
  · rename_i d hd
    split at hr
    · rename_i hc
      have hw : wr sch a = false := by simp [wr, hd, hc]
      exact (h.of_keep (keepR_setColl (fun x st => keepR_delete _ x st) true id a (items a) st st' hr)).skip hw
    · rename_i hc
      have hw : wr sch a = true := by simp [wr, hd, hc]
      have hf := h.fresh hw hnd
      dsimp only at hr
      split at hr
      · split at hr
        · exact hf.of_keep (keepR_updateReverse _ _ _ _ _ _ _ _ st' hr)
        · cases hr
      · cases hr; exact hf
  · rename_i hd
    cases hr
    exact h.skip (by simp [wr, hd])

theorem cinv_iter {sch : Schema} {s : Store} {id : ObjId} {v : AttrId → Option Nat} (fuel : Nat) (items : AttrId → List ObjId) :
    ∀ (xs done : List AttrId) (st st' : St), CInv sch s id v done st.store → xs.Nodup → (∀ a, a ∈ xs → a ∉ done) →
      iter (createStep sch fuel id v items) xs st = .ok st' → CInv sch s id v (done ++ xs) st'.store := by
  intro xs
  induction xs with
  | nil => intro done st st' h _ _ hr; simp only [iter] at hr; cases hr; simpa using h
  | cons x xs ih =>
    intro done st st' h hnd hdisj hr
    simp only [iter] at hr
    obtain ⟨st1, h1, h2⟩ := bind_eq_ok hr
    have := ih (done ++ [x]) st1 st' (cinv_step fuel items x st st1 h (hdisj x List.mem_cons_self) h1) (List.nodup_cons.mp hnd).2
      (fun a ha hmem => by
        rcases List.mem_append.mp hmem with hm | hm
        · exact hdisj a (List.mem_cons_of_mem _ ha) hm
        · simp only [List.mem_singleton] at hm; rw [hm] at ha; exact (List.nodup_cons.mp hnd).1 ha) h2
    simpa [List.append_assoc] using this

/-- the allocation establishes the loop invariant -/
theorem cinv_alloc {sch : Schema} (s : Store) (e : EntId) (pk : Option Nat) (v : AttrId → Option Nat) (hk : IdxOk sch s) (hd : IdxDom sch s) :
    CInv sch s s.n v [] (s.alloc e pk) := by
  have hidx : (s.alloc e pk).idx = s.idx := by unfold Store.alloc; cases pk <;> rfl
  have hcidx : (s.alloc e pk).cidx = s.cidx := by unfold Store.alloc; cases pk <;> rfl
  have hn : (s.alloc e pk).n = s.n + 1 := by unfold Store.alloc; cases pk <;> rfl
  have hrow : ∀ p, p ≠ s.n → (s.alloc e pk).row p = s.row p := by
    intro p hp; unfold Store.alloc; cases pk <;> simp [hp]
  have hnew : ((s.alloc e pk).row s.n).val = fun _ => none := by unfold Store.alloc; cases pk <;> simp
  refine ⟨?_, ⟨fun a x o' e' => by rw [hidx] at e'; rw [hn]; exact ⟨(hd.idx a x o' e').1, Nat.lt_succ_of_lt (hd.idx a x o' e').2⟩,
    fun k x o' e' => by rw [hcidx] at e'; rw [hn]; exact ⟨(hd.cidx k x o' e').1, Nat.lt_succ_of_lt (hd.cidx k x o' e').2⟩⟩, hn,
    fun a x o' e' => by rw [hidx] at e'; exact e', fun k x o' e' => by rw [hcidx] at e'; exact e', fun a _ => by rw [hnew]; simp⟩
  intro p hp hl
  by_cases hpi : p = s.n
  · simp only [hpi, if_true]
    refine ⟨?_, ?_, ?_, ?_⟩
    · intro a x e'; rw [hidx] at e'; exact absurd (hd.idx a x s.n e').2 (Nat.lt_irrefl _)
    · intro a u e'; cases e'
    · intro k vs e'; rw [hcidx] at e'; exact absurd (hd.cidx k vs s.n e').2 (Nat.lt_irrefl _)
    · intro k us e' _
      exfalso
      cases hl' : sch.keyAttrs k with
      | nil => rw [hl', tuple_nil] at e'; cases e'
      | cons a l => rw [tuple_none_of_mem (a := a) (by rw [hl']; exact List.mem_cons_self) rfl] at e'; cases e'
  · simp only [hpi, if_false]
    rw [hrow p hpi] at hl ⊢
    have hp' : p < s.n := by rw [hn] at hp; omega
    exact (hk p hp' hl).toV.of_idx hidx hcidx

/-- effect of the key registration at the end of the constructor -/
theorem registerKeys_spec (sch : Schema) (id : ObjId) (v : AttrId → Option Nat) (simple : List AttrId) (comps : List KeyId) (s : Store) :
    let R := registerKeys sch id v simple comps s
    R.n = s.n ∧ R.row = s.row ∧ R.toSave = s.toSave ∧
    (∀ a x, R.idx a x = if a ∈ simple ∧ v a = some x then some id else s.idx a x) ∧
    (∀ k x, R.cidx k x = if k ∈ comps ∧ tuple ((sch.keyAttrs k).map v) = some x then some id else s.cidx k x) := by
  unfold registerKeys
  dsimp only
  have hS : ∀ (l : List AttrId) (s : Store),
      let R := l.foldl (fun s a => match v a with
        | some x => { s with idx := set2 s.idx a x (some id), seen := .simple a x :: s.seen }
        | none => s) s
      R.n = s.n ∧ R.row = s.row ∧ R.toSave = s.toSave ∧ R.cidx = s.cidx ∧
      (∀ a x, R.idx a x = if a ∈ l ∧ v a = some x then some id else s.idx a x) := by
    intro l
    induction l with
    | nil => intro s; simp
    | cons b l ih =>
      intro s
      simp only [List.foldl_cons]
      obtain ⟨r1, r2, r3, r4, r5⟩ := ih (match v b with
        | some x => { s with idx := set2 s.idx b x (some id), seen := .simple b x :: s.seen }
        | none => s)
      cases hb : v b with
      | none =>
        simp only [hb] at r1 r2 r3 r4 r5 ⊢
        refine ⟨r1, r2, r3, r4, fun a x => ?_⟩
        rw [r5]
        by_cases ha : a = b
        · subst ha; simp [hb]
        · simp [ha]
      | some y =>
        simp only [hb] at r1 r2 r3 r4 r5 ⊢
        refine ⟨r1, r2, r3, r4, fun a x => ?_⟩
        rw [r5]
        simp only [set2, List.mem_cons]
        by_cases ha : a = b
        · subst ha
          by_cases hx : x = y
          · subst hx; simp [hb]
          · have : ¬ (some y = some x) := fun e => hx (Option.some.inj e).symm
            simp [hb, hx, this]
        · simp [ha]
  have hC : ∀ (l : List KeyId) (s : Store),
      let R := l.foldl (fun s k => match tuple ((sch.keyAttrs k).map v) with
        | some vs => { s with cidx := setK s.cidx k vs (some id), seen := .comp k vs :: s.seen }
        | none => s) s
      R.n = s.n ∧ R.row = s.row ∧ R.toSave = s.toSave ∧ R.idx = s.idx ∧
      (∀ k x, R.cidx k x = if k ∈ l ∧ tuple ((sch.keyAttrs k).map v) = some x then some id else s.cidx k x) := by
    intro l
    induction l with
    | nil => intro s; simp
    | cons b l ih =>
      intro s
      simp only [List.foldl_cons]
      obtain ⟨r1, r2, r3, r4, r5⟩ := ih (match tuple ((sch.keyAttrs b).map v) with
        | some vs => { s with cidx := setK s.cidx b vs (some id), seen := .comp b vs :: s.seen }
        | none => s)
      cases hb : tuple ((sch.keyAttrs b).map v) with
      | none =>
        simp only [hb] at r1 r2 r3 r4 r5 ⊢
        refine ⟨r1, r2, r3, r4, fun a x => ?_⟩
        rw [r5]
        by_cases ha : a = b
        · subst ha; simp [hb]
        · simp [ha]
      | some y =>
        simp only [hb] at r1 r2 r3 r4 r5 ⊢
        refine ⟨r1, r2, r3, r4, fun a x => ?_⟩
        rw [r5]
        simp only [setK, List.mem_cons]
        by_cases ha : a = b
        · subst ha
          by_cases hx : x = y
          · subst hx; simp [hb]
          · have : ¬ (some y = some x) := fun e => hx (Option.some.inj e).symm
            simp [hb, hx, this]
        · simp [ha]
  obtain ⟨a1, a2, a3, a4, a5⟩ := hS simple s
  obtain ⟨b1, b2, b3, b4, b5⟩ := hC comps (simple.foldl (fun s a => match v a with
        | some x => { s with idx := set2 s.idx a x (some id), seen := .simple a x :: s.seen }
        | none => s) s)
  refine ⟨b1.trans a1, b2.trans a2, b3.trans a3, fun a x => ?_, fun k x => ?_⟩
  · exact (congrFun (congrFun b4 a) x).trans (a5 a x)
  · exact (b5 k x).trans (by rw [a4])

theorem SaveOk.append' {s : Store} (h : SaveOk s) (o : ObjId) (st' : Status) (hst : st'.queued = true) (m : Bool) :
    SaveOk { (s.upd o fun r => { r with savePos := some s.toSave.length, status := st' }) with toSave := s.toSave ++ [some o], modified := m } := by
  intro q hqn
  by_cases hq : q = o
  · rw [hq]; simp only [Store.upd, if_true]
    refine ⟨fun p' hp' => ?_, fun hs => ?_⟩
    · cases hp'; simp
    · rw [hst] at hs; cases hs
  · obtain ⟨h1, h2⟩ := h q hqn
    simp only [Store.upd, hq, if_false]
    refine ⟨fun p' hp' => ?_, h2⟩
    have e1 := h1 p' hp'
    rw [List.getElem?_append_left]
    · exact e1
    · by_cases hlt : p' < s.toSave.length
      · exact hlt
      · rw [List.getElem?_eq_none (Nat.le_of_not_lt hlt)] at e1; cases e1

/-- schema well-formedness: `unique=True` is given to int attributes only (the model's convention for keys) -/
def UniqScalar (sch : Schema) : Prop := ∀ a d, sch.decl a = some d → d.unique = true → d.kind = .scalar

section top
variable {sch : Schema} {s0 : Store}

/-- `Entity.__init__`: if it succeeds and the new object is still `created`, the session stays well-formed -/
theorem okWF_create (fuel : Nat) (e : EntId) (pk : Option Nat) (vals : List (AttrId × Arg)) (st : St) (hn : st.store.n = s0.n)
    (hwf : KeysWf sch) (hus : UniqScalar sch) (hkc : ∀ a, sch.isKeyPart a = true → ∀ d, sch.decl a = some d → (d.kind != .coll) = true) (hvals : ∀ p, p ∈ vals → ∃ d, sch.decl p.1 = some d ∧ d.ent = e)
    (st' : St) (hr : create sch fuel e pk vals st = .ok st') (g : Good s0 st) (hok : IdxOk sch st.store) (hdm : IdxDom sch st.store)
    (hcreated : (st'.store.row st.store.n).status = .created) :
    SaveOk st'.store ∧ IdxOk sch st'.store ∧ IdxDom sch st'.store := by
  unfold create at hr
  dsimp only at hr
  split at hr
  · cases hr
  · split at hr
    · cases hr
    · rename_i hfS
      split at hr
      · cases hr
      · rename_i hfC
        split at hr
        · cases hr
        · rename_i hpkfree
          generalize hv : (fun a => argVal (match lookupArg vals a, sch.decl a with
            | some x, _ => x
            | none, some d => if d.kind = Kind.coll then Arg.coll [] else Arg.val none
            | none, none => Arg.val none)) = v at hr hfS hfC
          generalize hsimple : List.filter (fun a => match sch.decl a with | some d => decide (d.kind = Kind.scalar) && d.unique | none => false) (sch.attrsOf e) = simple at hr hfS
          obtain ⟨st3, hbody, htail⟩ := bind_eq_ok hr
          -- values the constructor does not get are None
          have hvnone : ∀ a, a ∉ sch.attrsOf e → v a = none := by
            intro a ha
            rw [← hv]
            have hl : lookupArg vals a = none := by
              unfold lookupArg
              cases hf : vals.find? (fun p => p.1 == a) with
              | none => rfl
              | some p =>
                exfalso
                have hp := List.mem_of_find?_eq_some hf
                have hpa : p.1 = a := by simpa using List.find?_some hf
                obtain ⟨d, hd, hde⟩ := hvals p hp
                exact ha (hpa ▸ hde ▸ mem_attrsOf sch p.1 d hd)
            simp only [hl]
            cases hd : sch.decl a with
            | none => rfl
            | some d => simp only; split <;> rfl
          -- the loop invariant after the whole loop
          have hci : CInv sch st.store st.store.n v ([] ++ sch.attrsOf e) st3.store :=
            cinv_iter fuel _ (sch.attrsOf e) [] _ st3 (cinv_alloc st.store e pk v hok hdm) (attrsOf_nodup sch e) (fun _ _ h => by cases h) hbody
          simp only [List.nil_append] at hci
          -- the save queue after the loop: from the restorability walk
          have hstep : Step s0 st (Res.ok st3).st := by
            rw [← hbody]
            refine (step_alloc e pk st hn ?_).trans (step_iter (fun a s => step_createStep _ _ _ _ a s (Nat.le_of_eq hn.symm)) _ _)
            intro p hp
            rw [hp] at hpkfree
            simp only [pkTaken, Bool.not_eq_true, Option.isSome_eq_false_iff, Option.isNone_iff_eq_none] at hpkfree
            exact hpkfree
          have hsave3 : SaveOk st3.store := (hstep.good g).save
          -- values of the new object on key parts
          have hvid : ∀ a, sch.isKeyPart a = true → (st3.store.row st.store.n).val a = v a := by
            intro a ha
            rw [hci.vals a ha]
            by_cases hmem : a ∈ sch.attrsOf e
            · have : wr sch a = true := by
                have := (List.mem_filter.mp hmem).2
                cases hd : sch.decl a with
                | none => rw [hd] at this; cases this
                | some d => simp [wr, hd, hkc a ha d hd]
              simp [hmem, this]
            · simp [hmem, hvnone a hmem]
          have hfreeS : ∀ a x, a ∈ simple → v a = some x → st.store.idx a x = none := by
            intro a x ha hx
            have := List.any_eq_false.mp (by simpa using hfS) a ha
            have this' : ¬ ((match v a with | some x => (st.store.idx a x).isSome | none => false) = true) := by rw [← hv]; exact this
            rw [hx] at this'
            simpa using this'
          have hfreeC : ∀ k x, k ∈ sch.ckeysOf e → tuple ((sch.keyAttrs k).map v) = some x → st.store.cidx k x = none := by
            intro k x hk' hx
            have := List.any_eq_false.mp (by simpa using hfC) k hk'
            rw [hx] at this
            simpa using this
          obtain ⟨r1, r2, r3, r4, r5⟩ := registerKeys_spec sch st.store.n v simple (sch.ckeysOf e) st3.store
          generalize registerKeys sch st.store.n v simple (sch.ckeysOf e) st3.store = R at htail r1 r2 r3 r4 r5
          have hst' : st' = st3.setStore ({ (R.upd st.store.n fun r => { r with savePos := some R.toSave.length }) with toSave := R.toSave ++ [some st.store.n], modified := true } : Store) := (Res.ok.inj htail).symm
          subst hst'
          generalize hSdef : ({ (R.upd st.store.n fun r => { r with savePos := some R.toSave.length }) with toSave := R.toSave ++ [some st.store.n], modified := true } : Store) = S at hcreated ⊢
          have hSn : S.n = R.n := by rw [← hSdef]; rfl
          have hSidx : S.idx = R.idx := by rw [← hSdef]; rfl
          have hScidx : S.cidx = R.cidx := by rw [← hSdef]; rfl
          have hcreated' : (S.row st.store.n).status = .created := hcreated
          have hrowS : ∀ p, (S.row p).val = (st3.store.row p).val ∧
              (S.row p).status = (st3.store.row p).status := by
            intro p
            rw [← hSdef]
            by_cases hp : p = st.store.n
            · simp [Store.upd, hp, r2]
            · simp [Store.upd, hp, r2]
          show SaveOk S ∧ IdxOk sch S ∧ IdxDom sch S
          have hstid : (st3.store.row st.store.n).status = .created := by rw [← (hrowS st.store.n).2]; exact hcreated'
          have hsimpleU : ∀ a, a ∈ simple → (match sch.decl a with | some d => d.unique | none => false) = true ∧ a ∈ sch.attrsOf e := by
            intro a ha
            rw [← hsimple] at ha
            obtain ⟨h1, h2⟩ := List.mem_filter.mp ha
            refine ⟨?_, h1⟩
            cases hd : sch.decl a with
            | none => rw [hd] at h2; cases h2
            | some d => rw [hd] at h2; simp only [Bool.and_eq_true] at h2; simpa using h2.2
          refine ⟨?_, ?_, ?_⟩
          · -- the save queue
            have hR : SaveOk R := hsave3.of_eq r3 r1 (fun q => by rw [r2]; exact ⟨rfl, rfl⟩)
            have := hR.append' st.store.n .created rfl true
            refine this.of_eq (by subst hSdef; rfl) (by subst hSdef; rfl) (fun q => ?_)
            rw [← hSdef]
            by_cases hq : q = st.store.n
            · rw [hq]; simp [Store.upd, r2, hstid]
            · simp [Store.upd, hq]
          · -- the key indexes
            intro p hp hl
            have hp3 : p < st3.store.n := by
              rw [hSn, r1] at hp; exact hp
            have hl3 : (st3.store.row p).status.isDel = false := by rw [← (hrowS p).2]; exact hl
            have hkv := hci.okv p hp3 hl3
            by_cases hpi : p = st.store.n
            · subst hpi
              simp only [if_true] at hkv
              refine ⟨?_, ?_, ?_, ?_⟩
              · intro a x ex
                have ex' : R.idx a x = some st.store.n := by rw [← hSidx]; exact ex
                rw [r4] at ex'
                rw [(hrowS st.store.n).1]
                split at ex'
                · rename_i hc; rw [hvid a (uniq_isKeyPart sch a (hsimpleU a hc.1).1)]; exact hc.2
                · exact absurd (hdm.idx a x _ (hci.idxSub a x _ ex')).2 (Nat.lt_irrefl _)
              · intro a u ev hu
                rw [(hrowS st.store.n).1, hvid a (uniq_isKeyPart sch a hu)] at ev
                rw [hSidx, r4]
                have hmem : a ∈ simple := by
                  rw [← hsimple]
                  have hin : a ∈ sch.attrsOf e := by
                    by_cases h : a ∈ sch.attrsOf e
                    · exact h
                    · rw [hvnone a h] at ev; cases ev
                  refine List.mem_filter.mpr ⟨hin, ?_⟩
                  cases hd : sch.decl a with
                  | none => rw [hd] at hu; cases hu
                  | some d => rw [hd] at hu; simp only at hu; simp [hu, hus a d hd hu]
                simp [hmem, ev]
              · intro k x ex
                have ex' : R.cidx k x = some st.store.n := by rw [← hScidx]; exact ex
                rw [r5] at ex'
                rw [(hrowS st.store.n).1, map_val_congr sch k _ v hvid]
                split at ex'
                · rename_i hc; exact hc.2
                · exact absurd (hdm.cidx k x _ (hci.cidxSub k x _ ex')).2 (Nat.lt_irrefl _)
              · intro k us ev hlt
                rw [(hrowS st.store.n).1, map_val_congr sch k _ v hvid] at ev
                rw [hScidx, r5]
                have hmem : k ∈ sch.ckeysOf e := by
                  unfold Schema.ckeysOf
                  refine List.mem_filter.mpr ⟨List.mem_range.mpr hlt, ?_⟩
                  cases hl' : sch.keyAttrs k with
                  | nil => rw [hl', tuple_nil] at ev; cases ev
                  | cons a l =>
                    have ha : a ∈ sch.keyAttrs k := by rw [hl']; exact List.mem_cons_self
                    have hin : a ∈ sch.attrsOf e := by
                      by_cases h : a ∈ sch.attrsOf e
                      · exact h
                      · rw [tuple_none_of_mem ha (hvnone a h)] at ev; cases ev
                    obtain ⟨_, h2⟩ := List.mem_filter.mp hin
                    cases hd : sch.decl a with
                    | none => rw [hd] at h2; cases h2
                    | some d =>
                      rw [hd] at h2
                      rw [hwf k a d ha hd]
                      simpa using h2
                simp [hmem, ev]
            · simp only [hpi, if_false] at hkv
              have hrow : (S.row p) = st3.store.row p := by
                rw [← hSdef]; simp [Store.upd, hpi, r2]
              refine ⟨?_, ?_, ?_, ?_⟩
              · intro a x ex
                have ex' : R.idx a x = some p := by rw [← hSidx]; exact ex
                rw [r4] at ex'
                rw [hrow]
                split at ex'
                · cases ex'; exact absurd rfl hpi
                · exact hkv.idxVal a x ex'
              · intro a u ev hu
                rw [hrow] at ev
                have e0 := hkv.valIdx a u ev hu
                rw [hSidx, r4]
                by_cases hc : a ∈ simple ∧ v a = some u
                · have := hfreeS a u hc.1 hc.2
                  rw [hci.idxSub a u p e0] at this; cases this
                · simp only [hc, if_false]; exact e0
              · intro k x ex
                have ex' : R.cidx k x = some p := by rw [← hScidx]; exact ex
                rw [r5] at ex'
                rw [hrow]
                split at ex'
                · cases ex'; exact absurd rfl hpi
                · exact hkv.cidxVal k x ex'
              · intro k us ev hlt
                rw [hrow] at ev
                have e0 := hkv.valCidx k us ev hlt
                rw [hScidx, r5]
                by_cases hc : k ∈ sch.ckeysOf e ∧ tuple ((sch.keyAttrs k).map v) = some us
                · have := hfreeC k us hc.1 hc.2
                  rw [hci.cidxSub k us p e0] at this; cases this
                · simp only [hc, if_false]; exact e0
          · refine ⟨fun a x q ex => ?_, fun k x q ex => ?_⟩
            · have ex' : R.idx a x = some q := by rw [← hSidx]; exact ex
              rw [r4] at ex'
              rw [hSn, r1]
              split at ex'
              · rename_i hc; cases ex'; exact ⟨(hsimpleU a hc.1).1, by rw [hci.n]; exact Nat.lt_succ_self _⟩
              · exact hci.dom.idx a x q ex'
            · have ex' : R.cidx k x = some q := by rw [← hScidx]; exact ex
              rw [r5] at ex'
              rw [hSn, r1]
              split at ex'
              · rename_i hc; cases ex'; exact ⟨ckeysOf_lt sch e k hc.1, by rw [hci.n]; exact Nat.lt_succ_self _⟩
              · exact hci.dom.cidx k x q ex'

/-- schemas of the kind Pony accepts under this model's conventions: the attributes of a composite key belong to the key's entity,
    `unique=True` is given to int attributes, a collection is not part of a key -/
structure SchemaWf (sch : Schema) : Prop where
  keys : KeysWf sch
  uniq : UniqScalar sch
  nocoll : ∀ a, sch.isKeyPart a = true → ∀ d, sch.decl a = some d → (d.kind != .coll) = true

/-- the object made by a successful constructor call has status `created` (immediate in Pony; in the model it would take a cascade
    that deletes the object under construction) -/
def createdOk (sch : Schema) (s : Store) : Op → Bool
  | .create e pk vals => match (stepO sch s (.create e pk vals)).err with
    | some _ => true
    | none => decide (((stepO sch s (.create e pk vals)).store.row s.n).status = .created)
  | _ => true

/-- every successful user call keeps the well-formedness facts -/
theorem call_keeps (hsw : SchemaWf sch) (op : Op) (s : Store) (st' : St) (hs : SaveOk s) (hk : IdxOk sch s) (hd : IdxDom sch s)
    (h : run1 sch op { store := s } = .ok st') (hc : createdOk sch s op = true) :
    SaveOk st'.store ∧ IdxOk sch st'.store ∧ IdxDom sch st'.store := by
  have g0 : Good s ({ store := s } : St) := ⟨hs, Nat.le_refl _, fun t ht => ht.symm⟩
  cases op with
  | create e pk vals =>
    unfold run1 at h
    simp only at h
    split at h
    · rename_i hv
      refine okWF_create _ e pk vals _ rfl hsw.keys hsw.uniq hsw.nocoll ?_ st' h g0 hk hd ?_
      · intro p hp
        have := List.all_eq_true.mp hv p hp
        cases hd' : sch.decl p.1 with
        | none => rw [hd'] at this; cases this
        | some d => rw [hd'] at this; exact ⟨d, rfl, by simpa using this⟩
      · unfold createdOk stepO at hc
        simp only at hc
        have hrun : run1 sch (.create e pk vals) { store := s } = .ok st' := by
          unfold run1; simp only [hv, if_true]; exact h
        rw [hrun] at hc
        simpa using hc
    · cases h
  | setMany o kw =>
    unfold run1 at h
    simp only at h
    split at h
    · rename_i hlt
      split at h
      · cases h
      · rename_i hnd
        split at h
        · cases h
        · rename_i hval
          refine okWF_setMany _ o kw _ hlt (by simpa using hnd) hsw.keys ?_ st' h g0 hk hd
          intro p hp
          have := List.findSome?_eq_none_iff.mp hval p hp
          cases hok : attrOk sch s o p.1 with
          | some e => rw [hok] at this; cases this
          | none =>
            unfold attrOk at hok
            rw [if_pos hlt] at hok
            cases hd' : sch.decl p.1 with
            | none => rw [hd'] at hok; cases hok
            | some d =>
              rw [hd'] at hok
              simp only at hok
              split at hok
              · rename_i he; exact ⟨d, rfl, he⟩
              · cases hok
    · cases h
  | flush ids => exact covered_call_keeps _ s st' rfl hs hk hd h
  | set o a v => exact covered_call_keeps _ s st' rfl hs hk hd h
  | add o c items => exact covered_call_keeps _ s st' rfl hs hk hd h
  | remove o c items => exact covered_call_keeps _ s st' rfl hs hk hd h
  | clear o c => exact covered_call_keeps _ s st' rfl hs hk hd h
  | delete o => exact covered_call_keeps _ s st' rfl hs hk hd h

end top
end PonyVerif.Model.Undo
