/-
  Helper lemmas for C06 (core Lean only).
-/
import PonyVerif.Model.SqlText
namespace PonyVerif.Model.SqlText

/-! ### replaceChar / sqlReplace -/

theorem replaceChar_append (c : Char) (r a b : Str) :
    replaceChar c r (a ++ b) = replaceChar c r a ++ replaceChar c r b := by
  induction a with
  | nil => rfl
  | cons d a ih => simp only [List.cons_append, replaceChar]; split <;> simp [ih]

/-- replacing a character that does not occur changes nothing -/
theorem replaceChar_of_not_mem (c : Char) (r s : Str) (h : c ∉ s) : replaceChar c r s = s := by
  induction s with
  | nil => rfl
  | cons d s ih =>
    simp only [List.mem_cons, not_or] at h
    simp [replaceChar, ih h.2, Ne.symm h.1]

/-- SQL `replace()` with a one-character pattern is the single-pass character replacement -/
theorem sqlReplace_single (c : Char) (r s : Str) : sqlReplace [c] r s = replaceChar c r s := by
  induction s with
  | nil => simp [sqlReplace, replaceChar]
  | cons d s ih =>
    rw [sqlReplace]
    by_cases h : d = c
    · subst h; simp [replaceChar, ih]
    · have h' : ¬ c = d := fun e => h e.symm
      simp [replaceChar, h, h', ih]

/-! ### Python `in` / `endswith` against the standard list notions -/

theorem containsB_iff (x s : Str) : containsB x s = true ↔ x <:+: s := by
  induction s with
  | nil => simp [containsB, List.isPrefixOf_iff_prefix]
  | cons c s ih => simp [containsB, List.infix_cons_iff, ih, List.isPrefixOf_iff_prefix]

theorem endsWithB_iff (x s : Str) : endsWithB x s = true ↔ x <:+ s := by
  induction s with
  | nil => simp [endsWithB]
  | cons c s ih => simp [endsWithB, List.suffix_cons_iff, ih]

theorem isPrefixOf_and_drop_isEmpty (x t : Str) : (x.isPrefixOf t && (t.drop x.length).isEmpty) = (x == t) := by
  induction x generalizing t with
  | nil => cases t <;> simp
  | cons c x ih =>
    cases t with
    | nil => simp
    | cons d t =>
      have := ih t
      simp only [List.isPrefixOf_cons_cons, List.length_cons, List.drop_succ_cons, Bool.and_assoc, this]
      by_cases h : c = d <;> simp [h]

/-! ### quoted tokens -/

theorem lexBody_cons_ne (q c : Char) (h : c ≠ q) (r : Str) :
    lexBody q (c :: r) = (lexBody q r).map (fun p => (c :: p.1, p.2)) := by
  cases r <;> simp [lexBody, h]
theorem lexBody_qq (q : Char) (r : Str) :
    lexBody q (q :: q :: r) = (lexBody q r).map (fun p => (q :: p.1, p.2)) := by
  simp [lexBody]
theorem lexBody_q_end (q d : Char) (h : d ≠ q) (r : Str) : lexBody q (q :: d :: r) = some ([], d :: r) := by
  simp [lexBody, h]
theorem lexBody_q_nil (q : Char) : lexBody q [q] = some ([], []) := by
  simp [lexBody]

theorem lexMySQLBody_cons_ne (c : Char) (h : c ≠ '\'') (h2 : c ≠ '\\') (r : Str) :
    lexMySQLBody (c :: r) = (lexMySQLBody r).map (fun p => (c :: p.1, p.2)) := by
  cases r <;> simp [lexMySQLBody, h, h2]
theorem lexMySQLBody_qq (r : Str) :
    lexMySQLBody ('\'' :: '\'' :: r) = (lexMySQLBody r).map (fun p => ('\'' :: p.1, p.2)) := by
  simp [lexMySQLBody]
theorem lexMySQLBody_q_end (d : Char) (h : d ≠ '\'') (r : Str) : lexMySQLBody ('\'' :: d :: r) = some ([], d :: r) := by
  simp [lexMySQLBody, h]
theorem lexMySQLBody_q_nil : lexMySQLBody ['\''] = some ([], []) := by
  simp [lexMySQLBody]
theorem lexMySQLBody_bs (d : Char) (r : Str) :
    lexMySQLBody ('\\' :: d :: r) = (lexMySQLBody r).map (fun p => (mysqlEscape d ++ p.1, p.2)) := by
  simp [lexMySQLBody]

/-- a quoted token is read back as the original value, whatever follows it (unless that starts with the quote itself) -/
theorem lexBody_quote (q : Char) (n rest : Str) (h : rest.head? ≠ some q) :
    lexBody q (replaceChar q [q, q] n ++ q :: rest) = some (n, rest) := by
  induction n with
  | nil =>
    cases rest with
    | nil => simp [replaceChar, lexBody_q_nil]
    | cons d r =>
      have : d ≠ q := by simpa using h
      simp [replaceChar, lexBody_q_end q d this]
  | cons c n ih =>
    by_cases hc : c = q
    · subst hc; simp [replaceChar, lexBody_qq, ih]
    · simp [replaceChar, hc, lexBody_cons_ne q c hc, ih]

theorem lexQuoted_quoteName (q : Char) (n rest : Str) (h : rest.head? ≠ some q) :
    lexQuoted q (quoteNameL q n ++ rest) = some (n, rest) := by
  simp [quoteNameL, lexQuoted, lexBody_quote q n rest h]

theorem lexQuoted_stdQuote (s rest : Str) (h : rest.head? ≠ some '\'') :
    lexQuoted '\'' (stdQuote s ++ rest) = some (s, rest) := by
  simp [stdQuote, lexQuoted, lexBody_quote '\'' s rest h]

/-- MySQL's lexer agrees with the standard one on text without a backslash -/
theorem lexMySQLBody_eq_aux : ∀ (n : Nat) (t : Str), t.length ≤ n → '\\' ∉ t → lexMySQLBody t = lexBody '\'' t := by
  intro n
  induction n with
  | zero => intro t ht _; cases t with
    | nil => rfl
    | cons _ _ => simp at ht
  | succ n ih =>
    intro t ht hb
    cases t with
    | nil => rfl
    | cons c r =>
      simp only [List.mem_cons, not_or] at hb
      simp only [List.length_cons] at ht
      by_cases hc : c = '\''
      · subst hc
        cases r with
        | nil => rw [lexMySQLBody_q_nil, lexBody_q_nil]
        | cons d r' =>
          by_cases hd : d = '\''
          · subst hd
            have hb' : '\\' ∉ r' := by intro m; exact hb.2 (by simp [m])
            rw [lexMySQLBody_qq, lexBody_qq, ih r' (by simp only [List.length_cons] at ht; omega) hb']
          · rw [lexMySQLBody_q_end d hd, lexBody_q_end _ d hd]
      · have h2 : c ≠ '\\' := fun e => hb.1 e.symm
        rw [lexMySQLBody_cons_ne c hc h2, lexBody_cons_ne _ c hc, ih r (by omega) hb.2]

theorem lexMySQLBody_eq (t : Str) (h : '\\' ∉ t) : lexMySQLBody t = lexBody '\'' t :=
  lexMySQLBody_eq_aux t.length t (Nat.le_refl _) h

theorem replaceChar_not_mem (b q : Char) (hb : b ≠ q) (s : Str) (h : b ∉ s) : b ∉ replaceChar q [q, q] s := by
  induction s with
  | nil => simp [replaceChar]
  | cons c s ih =>
    simp only [List.mem_cons, not_or] at h
    simp only [replaceChar]
    split
    · simp [hb, ih h.2]
    · simp [h.1, ih h.2]

/-! ### `%` expansion -/

theorem litsOnly_lits (s : Str) : litsOnly (lits s) = some s := by
  induction s with
  | nil => rfl
  | cons c s ih => simp [lits, litsOnly] at *; simp [ih]

theorem litsOnly_lits_append (s : Str) (t : List Tok) : litsOnly (lits s ++ t) = (litsOnly t).map (s ++ ·) := by
  induction s with
  | nil => simp [lits]
  | cons c s ih => simp only [lits, List.map_cons, List.cons_append, litsOnly] at *; rw [ih]; cases litsOnly t <;> simp

/-- scanning `%`-doubled (and then quote-doubled) text yields the quote-doubled text literally, and the scanner is back
    in text mode for whatever follows -/
theorem scanP_doubled (q : Char) (hq : q ≠ '%') (s rest : Str) :
    scanP .text (replaceChar q [q, q] (replaceChar '%' ['%', '%'] s) ++ rest)
      = (scanP .text rest).map (lits (replaceChar q [q, q] s) ++ ·) := by
  induction s with
  | nil => simp [replaceChar, lits]
  | cons c s ih =>
    by_cases hc : c = '%'
    · subst hc
      have hq' : ¬ '%' = q := fun e => hq e.symm
      simp [replaceChar, hq', scanP, ih, lits]
      cases scanP .text rest <;> simp
    · by_cases hcq : c = q
      · subst hcq
        simp [replaceChar, hc, scanP, ih, lits]
        cases scanP .text rest <;> simp
      · simp [replaceChar, hc, hcq, scanP, ih, lits]
        cases scanP .text rest <;> simp

theorem scanP_lit_cons (c : Char) (hc : c ≠ '%') (rest : Str) :
    scanP .text (c :: rest) = (scanP .text rest).map (Tok.lit c :: ·) := by
  simp [scanP, hc]

/-! ### LIKE -/

theorem like_nil (e : Option Char) (s : Str) : likeMatch e [] s = s.isEmpty := by
  rw [likeMatch.eq_def]

theorem like_pct (e : Option Char) (p s : Str) :
    likeMatch e ('%' :: p) s = (likeMatch e p s || match s with
      | [] => false
      | _ :: s' => likeMatch e ('%' :: p) s') := by
  rw [likeMatch.eq_def]; cases s <;> simp

theorem like_esc_nil (c : Char) (hc : c ≠ '%') (d : Char) (p : Str) : likeMatch (some c) (c :: d :: p) [] = false := by
  rw [likeMatch.eq_def]; simp [hc]

theorem like_esc_cons (c : Char) (hc : c ≠ '%') (d : Char) (p : Str) (x : Char) (s : Str) :
    likeMatch (some c) (c :: d :: p) (x :: s) = (d == x && likeMatch (some c) p s) := by
  rw [likeMatch.eq_def]; simp [hc]

theorem like_esc_end (c : Char) (hc : c ≠ '%') (s : Str) : likeMatch (some c) [c] s = false := by
  rw [likeMatch.eq_def]; simp [hc]

theorem like_plain_nil (e : Option Char) (c : Char) (h1 : c ≠ '%') (h2 : some c ≠ e) (p : Str) :
    likeMatch e (c :: p) [] = false := by
  rw [likeMatch.eq_def]; simp [h1, h2]

theorem like_plain_cons (e : Option Char) (c : Char) (h1 : c ≠ '%') (h2 : some c ≠ e) (h3 : c ≠ '_') (p : Str) (x : Char) (s : Str) :
    likeMatch e (c :: p) (x :: s) = (c == x && likeMatch e p s) := by
  rw [likeMatch.eq_def]; simp [h1, h2, h3]

theorem like_underscore_cons (e : Option Char) (h2 : some '_' ≠ e) (p : Str) (x : Char) (s : Str) :
    likeMatch e ('_' :: p) (x :: s) = likeMatch e p s := by
  rw [likeMatch.eq_def]; simp [h2]

/-- `%` alone matches everything -/
theorem like_pct_all (e : Option Char) (s : Str) : likeMatch e ['%'] s = true := by
  induction s with
  | nil => rw [like_pct, like_nil]; rfl
  | cons c s ih => rw [like_pct]; simp [ih]

/-- a pattern prefix `X` "spells" the string `x` under escape `e` when matching `X ++ p` means: `x` is a prefix of the
    subject and `p` matches what follows. -/
def Spells (e : Option Char) (X x : Str) : Prop :=
  ∀ p s, likeMatch e (X ++ p) s = (x.isPrefixOf s && likeMatch e p (s.drop x.length))

/-- the escaped form of `x` spells `x` under ESCAPE '!' -/
theorem spells_escapeLike (x : Str) : Spells (some '!') (escapeLike x) x := by
  intro p
  induction x with
  | nil => intro s; simp [escapeLike]
  | cons c x ih =>
    intro s
    by_cases hc : c = '!' ∨ c = '%' ∨ c = '_'
    · simp only [escapeLike, hc, if_true, List.cons_append]
      cases s with
      | nil => rw [like_esc_nil _ (by decide)]; simp
      | cons d s => rw [like_esc_cons _ (by decide), ih s]; simp [List.isPrefixOf_cons_cons, Bool.and_assoc]
    · have h1 : c ≠ '!' := fun h => hc (Or.inl h)
      have h2 : c ≠ '%' := fun h => hc (Or.inr (Or.inl h))
      have h3 : c ≠ '_' := fun h => hc (Or.inr (Or.inr h))
      simp only [escapeLike, hc, if_false, List.cons_append]
      cases s with
      | nil => rw [like_plain_nil _ _ h2 (by simpa using h1)]; simp
      | cons d s => rw [like_plain_cons _ _ h2 (by simpa using h1) h3, ih s]; simp [List.isPrefixOf_cons_cons, Bool.and_assoc]

/-- a string without metacharacters spells itself -/
theorem spells_plain (e : Option Char) (x : Str) (h : ∀ c ∈ x, c ≠ '%' ∧ c ≠ '_' ∧ some c ≠ e) : Spells e x x := by
  intro p
  induction x with
  | nil => intro s; simp
  | cons c x ih =>
    intro s
    have hc := h c (by simp)
    have ih' := ih (fun d hd => h d (by simp [hd]))
    simp only [List.cons_append]
    cases s with
    | nil => rw [like_plain_nil _ _ hc.1 hc.2.2]; simp
    | cons d s => rw [like_plain_cons _ _ hc.1 hc.2.2 hc.2.1, ih' s]; simp [List.isPrefixOf_cons_cons, Bool.and_assoc]

theorem like_startswith (e : Option Char) (X x : Str) (h : Spells e X x) (s : Str) :
    likeMatch e (X ++ ['%']) s = x.isPrefixOf s := by
  rw [h, like_pct_all]; simp

theorem like_contains (e : Option Char) (X x : Str) (h : Spells e X x) (s : Str) :
    likeMatch e ('%' :: (X ++ ['%'])) s = containsB x s := by
  induction s with
  | nil => rw [like_pct, like_startswith e X x h]; simp [containsB]
  | cons c s ih => rw [like_pct, like_startswith e X x h]; simp only [containsB, ih]

theorem like_exact (e : Option Char) (X x : Str) (h : Spells e X x) (s : Str) :
    likeMatch e X s = (x == s) := by
  have := h [] s
  rw [List.append_nil, like_nil] at this
  rw [this, isPrefixOf_and_drop_isEmpty]

theorem like_endswith (e : Option Char) (X x : Str) (h : Spells e X x) (s : Str) :
    likeMatch e ('%' :: X) s = endsWithB x s := by
  induction s with
  | nil => rw [like_pct, like_exact e X x h]; simp [endsWithB]
  | cons c s ih => rw [like_pct, like_exact e X x h]; simp only [endsWithB, ih]

/-- the three chained replacements are one escaping pass (the order `!` first matters) -/
theorem pyReplaceChain_eq (x : Str) : pyReplaceChain x = escapeLike x := by
  unfold pyReplaceChain
  induction x with
  | nil => rfl
  | cons c x ih =>
    by_cases h1 : c = '!'
    · subst h1
      have : replaceChar '!' ['!', '!'] ('!' :: x) = ['!', '!'] ++ replaceChar '!' ['!', '!'] x := by simp [replaceChar]
      rw [this, replaceChar_append, replaceChar_append, ih]
      simp [replaceChar, escapeLike]
    · by_cases h2 : c = '%'
      · subst h2
        have : replaceChar '!' ['!', '!'] ('%' :: x) = ['%'] ++ replaceChar '!' ['!', '!'] x := by simp [replaceChar]
        rw [this, replaceChar_append]
        have : replaceChar '%' ['!', '%'] ['%'] = ['!', '%'] := by simp [replaceChar]
        rw [this, replaceChar_append, ih]
        simp [replaceChar, escapeLike]
      · by_cases h3 : c = '_'
        · subst h3
          have : replaceChar '!' ['!', '!'] ('_' :: x) = ['_'] ++ replaceChar '!' ['!', '!'] x := by simp [replaceChar]
          rw [this, replaceChar_append]
          have : replaceChar '%' ['!', '%'] ['_'] = ['_'] := by simp [replaceChar]
          rw [this, replaceChar_append, ih]
          simp [replaceChar, escapeLike]
        · simp only [replaceChar, h1, h2, h3, if_false, escapeLike, or_self]
          rw [ih]

/-! ### parameter numbering -/

theorem lookup_snoc (ids : List (Nat × Nat)) (k' v k : Nat) :
    (ids ++ [(k', v)]).lookup k = match ids.lookup k with
      | some x => some x
      | none => if k = k' then some v else none := by
  rw [List.lookup_append]
  cases h : ids.lookup k with
  | some x => simp
  | none =>
    by_cases hk : k = k'
    · simp [List.lookup_cons, hk]
    · have hb : (k == k') = false := by simp [hk]
      simp [List.lookup_cons, hk, hb]

/-- invariant of the numbering loop: an id once given never changes; a key first met at offset `j` gets `i + j + 1` -/
theorem assignIds_lookup (occ : List Nat) (i : Nat) (ids : List (Nat × Nat)) (k : Nat) :
    (assignIds occ i ids).lookup k =
      match ids.lookup k with
      | some v => some v
      | none => if k ∈ occ then some (i + occ.idxOf k + 1) else none := by
  induction occ generalizing i ids with
  | nil => simp [assignIds]; cases ids.lookup k <;> rfl
  | cons a occ ih =>
    simp only [assignIds]
    cases ha : ids.lookup a with
    | some va =>
      simp only [ih]
      cases hk : ids.lookup k with
      | some v => rfl
      | none =>
        have hne : k ≠ a := by intro e; subst e; simp [ha] at hk
        have hb : (a == k) = false := by simp; exact fun e => hne e.symm
        simp [List.idxOf_cons, hne, hb]
        split <;> simp <;> omega
    | none =>
      simp only [ih, lookup_snoc]
      cases hk : ids.lookup k with
      | some v => rfl
      | none =>
        by_cases hka : k = a
        · subst hka; simp [List.idxOf_cons]
        · have hb : (a == k) = false := by simp; exact fun e => hka e.symm
          simp [hka, hb, List.idxOf_cons]
          split <;> simp <;> omega

theorem idOf_eq (occ : List Nat) (k : Nat) (h : k ∈ occ) : idOf occ k = occ.idxOf k + 1 := by
  simp [idOf, assignIds_lookup, h]

theorem idOf_inj (occ : List Nat) (k k' : Nat) (h : k ∈ occ) (h' : k' ∈ occ) (e : idOf occ k = idOf occ k') : k = k' := by
  rw [idOf_eq occ k h, idOf_eq occ k' h'] at e
  have e' : occ.idxOf k = occ.idxOf k' := by omega
  have l1 : occ.idxOf k < occ.length := List.idxOf_lt_length_iff.mpr h
  have l2 : occ.idxOf k' < occ.length := List.idxOf_lt_length_iff.mpr h'
  have g1 : occ[occ.idxOf k] = k := List.getElem_idxOf l1
  have g2 : occ[occ.idxOf k'] = k' := List.getElem_idxOf l2
  rw [← g1, ← g2]; simp [e']

/-- lookup in an association list all of whose entries for `a` carry `b` -/
theorem lookup_of_forall (l : List (Nat × α)) (a : Nat) (b : α)
    (hall : ∀ p ∈ l, p.1 = a → p.2 = b) (hex : ∃ p ∈ l, p.1 = a) : l.lookup a = some b := by
  induction l with
  | nil => simp at hex
  | cons p l ih =>
    obtain ⟨pk, pv⟩ := p
    by_cases hp : a = pk
    · subst hp
      have : pv = b := hall (a, pv) (by simp) rfl
      simp [List.lookup_cons, this]
    · have hp' : (a == pk) = false := by simp [hp]
      simp only [List.lookup_cons, hp']
      apply ih
      · intro q hq; exact hall q (by simp [hq])
      · obtain ⟨q, hq, hqa⟩ := hex
        simp only [List.mem_cons] at hq
        rcases hq with rfl | hq
        · exact absurd hqa.symm hp
        · exact ⟨q, hq, hqa⟩

/-! ### statement skeleton -/

theorem skeleton_out_raw (t rest : Str) (h : ∀ c ∈ t, isQuote c = false) :
    skeleton .out (t ++ rest) = (skeleton .out rest).map (t.map Skel.ch ++ ·) := by
  induction t with
  | nil => simp
  | cons c t ih =>
    have hc : isQuote c = false := h c (by simp)
    have ih' := ih (fun d hd => h d (by simp [hd]))
    simp only [List.cons_append, skeleton, hc, ih', List.map_cons]
    cases skeleton .out rest <;> simp

/-- from inside a token opened by `q`, the doubled body followed by the closing `q` leaves the lexer in `endq q` -/
theorem skeleton_inq_body (q : Char) (n rest : Str) :
    skeleton (.inq q) (replaceChar q [q, q] n ++ q :: rest) = skeleton (.endq q) rest := by
  induction n with
  | nil => simp [replaceChar, skeleton]
  | cons c n ih =>
    by_cases hc : c = q
    · subst hc; simp [replaceChar, skeleton, ih]
    · simp [replaceChar, skeleton, hc, ih]

theorem skeleton_out_quoted (q : Char) (hq : isQuote q = true) (n rest : Str) :
    skeleton .out (quoteNameL q n ++ rest) = skeleton (.endq q) rest := by
  simp [quoteNameL, skeleton, hq, skeleton_inq_body]

theorem skeleton_endq_quoted (p q : Char) (hq : isQuote q = true) (hpq : q ≠ p) (n rest : Str) :
    skeleton (.endq p) (quoteNameL q n ++ rest) = (skeleton (.endq q) rest).map (Skel.quoted p :: ·) := by
  simp [quoteNameL, skeleton, hq, hpq, skeleton_inq_body]

theorem skeleton_endq_raw (p : Char) (hp : isQuote p = true) (c : Char) (t rest : Str) (h : ∀ d ∈ c :: t, isQuote d = false) :
    skeleton (.endq p) (c :: t ++ rest) = (skeleton .out rest).map (fun r => Skel.quoted p :: (c :: t).map Skel.ch ++ r) := by
  have hc : isQuote c = false := h c (by simp)
  have hcp : c ≠ p := by intro e; rw [e, hp] at hc; exact absurd hc (by simp)
  have ht := skeleton_out_raw t rest (fun d hd => h d (by simp [hd]))
  simp only [List.cons_append, skeleton, hcp, hc, if_false, ht]
  cases skeleton .out rest <;> simp

def stateOf : Option Char → QState
  | none => .out
  | some q => .endq q

def pending : Option Char → List Skel
  | none => []
  | some q => [Skel.quoted q]

theorem stdQuote_eq_quoteName (s : Str) : stdQuote s = quoteNameL '\'' s := rfl

/-- the skeleton of a well-formed piece sequence is the sequence of piece skeletons, from either lexer state -/
theorem skeleton_pieces (ps : List Piece) (prev : Option Char) (hprev : ∀ q, prev = some q → isQuote q = true)
    (h : WFPieces prev ps) :
    skeleton (stateOf prev) (renderPieces ps) = some (pending prev ++ skelPieces ps) := by
  induction ps generalizing prev with
  | nil => cases prev <;> simp [renderPieces, skelPieces, stateOf, pending, skeleton]
  | cons p ps ih =>
    cases p with
    | raw t =>
      obtain ⟨ht, hr⟩ := h
      cases t with
      | nil =>
        simp only [if_true] at hr
        simpa [renderPieces, Piece.render, skelPieces, Piece.skel] using ih prev hprev hr
      | cons c t =>
        have hr' : WFPieces none ps := by simpa using hr
        have ih' := ih none (by simp) hr'
        simp only [stateOf, pending, List.nil_append] at ih'
        cases prev with
        | none =>
          simp only [renderPieces, Piece.render, stateOf, pending, skelPieces, Piece.skel, List.nil_append]
          rw [skeleton_out_raw (c :: t) _ ht, ih']; simp
        | some q =>
          simp only [renderPieces, Piece.render, stateOf, pending, skelPieces, Piece.skel]
          rw [skeleton_endq_raw q (hprev q rfl) c t _ ht, ih']; simp
    | lit s =>
      obtain ⟨hne, hr⟩ := h
      have ih' := ih (some '\'') (by intro q hq; cases hq; decide) hr
      simp only [stateOf, pending] at ih'
      cases prev with
      | none =>
        simp only [renderPieces, Piece.render, stateOf, pending, skelPieces, Piece.skel, List.nil_append, stdQuote_eq_quoteName]
        rw [skeleton_out_quoted _ (by decide), ih']
      | some q =>
        have hq : '\'' ≠ q := fun e => hne (by rw [e])
        simp only [renderPieces, Piece.render, stateOf, pending, skelPieces, Piece.skel, stdQuote_eq_quoteName]
        rw [skeleton_endq_quoted q _ (by decide) hq, ih']; simp
    | ident q n =>
      obtain ⟨hq, hne, hr⟩ := h
      have ih' := ih (some q) (by intro q' hq'; cases hq'; exact hq) hr
      simp only [stateOf, pending] at ih'
      cases prev with
      | none =>
        simp only [renderPieces, Piece.render, stateOf, pending, skelPieces, Piece.skel, List.nil_append]
        rw [skeleton_out_quoted _ hq, ih']
      | some p =>
        have hpq : q ≠ p := fun e => hne (by rw [e])
        simp only [renderPieces, Piece.render, stateOf, pending, skelPieces, Piece.skel]
        rw [skeleton_endq_quoted p _ hq hpq, ih']; simp

theorem WFPieces_shape (ps : List Piece) (prev : Option Char) : WFPieces prev (ps.map Piece.shape) ↔ WFPieces prev ps := by
  induction ps generalizing prev with
  | nil => simp [WFPieces]
  | cons p ps ih => cases p <;> simp [WFPieces, Piece.shape, ih]

theorem skelPieces_shape (ps : List Piece) : skelPieces (ps.map Piece.shape) = skelPieces ps := by
  induction ps with
  | nil => rfl
  | cons p ps ih => cases p <;> simp [skelPieces, Piece.shape, Piece.skel, ih]

/-! ### decimal numbers -/

theorem digitChar_spec : ∀ k, k < 10 → isDig (digitChar k) = true ∧ digitVal (digitChar k) = k := by decide

theorem natDigits_lt (n : Nat) (h : n < 10) : natDigits n = [digitChar n] := by
  rw [natDigits]; simp [h]
theorem natDigits_ge (n : Nat) (h : ¬ n < 10) : natDigits n = natDigits (n / 10) ++ [digitChar (n % 10)] := by
  rw [natDigits]; simp [h]

theorem natDigits_isDig (n : Nat) : ∀ c ∈ natDigits n, isDig c = true := by
  induction n using Nat.strongRecOn with
  | _ n ih =>
    by_cases h : n < 10
    · rw [natDigits_lt n h]; intro c hc; simp at hc; subst hc; exact (digitChar_spec n h).1
    · rw [natDigits_ge n h]; intro c hc
      simp only [List.mem_append, List.mem_singleton] at hc
      rcases hc with hc | hc
      · exact ih (n / 10) (by omega) c hc
      · subst hc; exact (digitChar_spec (n % 10) (by omega)).1

theorem natDigits_ne_nil (n : Nat) : natDigits n ≠ [] := by
  by_cases h : n < 10
  · rw [natDigits_lt n h]; simp
  · rw [natDigits_ge n h]; simp

def accum (a : Nat) (ds : Str) : Nat := ds.foldl (fun a c => a * 10 + digitVal c) a

theorem accum_append (a : Nat) (x y : Str) : accum a (x ++ y) = accum (accum a x) y := by
  simp [accum, List.foldl_append]

theorem accum_natDigits (n : Nat) : accum 0 (natDigits n) = n := by
  induction n using Nat.strongRecOn with
  | _ n ih =>
    by_cases h : n < 10
    · rw [natDigits_lt n h]; simp [accum, (digitChar_spec n h).2]
    · rw [natDigits_ge n h, accum_append, ih (n / 10) (by omega)]
      simp [accum, (digitChar_spec (n % 10) (by omega)).2]; omega

theorem accum_zeros (k : Nat) : accum 0 (List.replicate k '0') = 0 := by
  induction k with
  | zero => rfl
  | succ k ih =>
    rw [List.replicate_succ']
    rw [accum_append, ih]; decide

theorem accum_pad (k n : Nat) : accum 0 (pad k n) = n := by
  rw [pad, accum_append, accum_zeros, accum_natDigits]

theorem digitsVal_eq (ds : Str) : digitsVal ds = accum 0 ds := rfl

theorem pad_isDig (k n : Nat) : ∀ c ∈ pad k n, isDig c = true := by
  intro c hc
  simp only [pad, List.mem_append, List.mem_replicate] at hc
  rcases hc with ⟨_, rfl⟩ | hc
  · decide
  · exact natDigits_isDig n c hc

theorem pad_ne_nil (k n : Nat) : pad k n ≠ [] := by
  simp [pad, natDigits_ne_nil]

theorem pad_zero (n : Nat) : pad 0 n = natDigits n := by simp [pad]

theorem spanDigits_run (ds rest : Str) (hd : ∀ c ∈ ds, isDig c = true) (hr : ∀ c, rest.head? = some c → isDig c = false) :
    spanDigits (ds ++ rest) = (ds, rest) := by
  induction ds with
  | nil =>
    cases rest with
    | nil => rfl
    | cons c r => simp [spanDigits, hr c (by simp)]
  | cons c ds ih =>
    have hc := hd c (by simp)
    simp [spanDigits, hc, ih (fun d hd' => hd d (by simp [hd']))]

theorem lexNat_natDigits (n : Nat) (rest : Str) (hr : ∀ c, rest.head? = some c → isDig c = false) :
    lexNat (natDigits n ++ rest) = some (n, rest) := by
  simp [lexNat, spanDigits_run _ _ (natDigits_isDig n) hr, natDigits_ne_nil, digitsVal_eq, accum_natDigits]

theorem natDigits_head_ne_minus (n : Nat) : ∃ c r, natDigits n = c :: r ∧ c ≠ '-' ∧ isDig c = true := by
  cases h : natDigits n with
  | nil => exact absurd h (natDigits_ne_nil n)
  | cons c r =>
    have hc : isDig c = true := natDigits_isDig n c (by simp [h])
    refine ⟨c, r, rfl, ?_, hc⟩
    intro e; subst e; exact absurd hc (by decide)

/-! ### fields -/

theorem fields_run (ds : Str) (hne : ds ≠ []) (hd : ∀ c ∈ ds, isDig c = true) (cur : Option Nat) (rest : Str) :
    fields cur (ds ++ rest) = fields (some (accum (cur.getD 0) ds)) rest := by
  induction ds generalizing cur with
  | nil => exact absurd rfl hne
  | cons c ds ih =>
    have hc := hd c (by simp)
    cases ds with
    | nil => simp [fields, hc, accum]
    | cons d ds' =>
      have := ih (by simp) (fun x hx => hd x (by simp [hx])) (some (cur.getD 0 * 10 + digitVal c))
      simp only [List.cons_append, fields, hc, if_true] at this ⊢
      rw [this]; simp [accum]

theorem fields_pad_sep (k n : Nat) (c : Char) (hc : isDig c = false) (rest : Str) :
    fields none (pad k n ++ c :: rest) = n :: fields none rest := by
  rw [fields_run _ (pad_ne_nil k n) (pad_isDig k n)]
  simp [accum_pad, fields, hc]

theorem fields_pad_end (k n : Nat) : fields none (pad k n) = [n] := by
  have := fields_run _ (pad_ne_nil k n) (pad_isDig k n) none []
  rw [List.append_nil] at this
  rw [this]; simp [accum_pad, fields]

/-! ### ISO dates and times read back -/

theorem nd_minus : isDig '-' = false := by decide
theorem nd_colon : isDig ':' = false := by decide
theorem nd_space : isDig ' ' = false := by decide
theorem nd_dot : isDig '.' = false := by decide

theorem fields_dateStr_sep (x : PDate) (c : Char) (hc : isDig c = false) (rest : Str) :
    fields none (dateStr x ++ c :: rest) = x.y :: x.m :: x.d :: fields none rest := by
  simp only [dateStr, List.append_assoc, List.cons_append]
  rw [fields_pad_sep _ _ _ nd_minus, fields_pad_sep _ _ _ nd_minus, fields_pad_sep _ _ _ hc]

theorem parseDate_dateStr (x : PDate) : parseDate (dateStr x) = some x := by
  simp only [parseDate, dateStr, List.append_assoc, List.cons_append]
  rw [fields_pad_sep _ _ _ nd_minus, fields_pad_sep _ _ _ nd_minus, fields_pad_end]

theorem fields_hmsStr_sep (t : PTime) (c : Char) (hc : isDig c = false) (rest : Str) :
    fields none (hmsStr t ++ c :: rest) = t.h :: t.mi :: t.s :: fields none rest := by
  simp only [hmsStr, List.append_assoc, List.cons_append]
  rw [fields_pad_sep _ _ _ nd_colon, fields_pad_sep _ _ _ nd_colon, fields_pad_sep _ _ _ hc]

theorem fields_hmsStr_end (t : PTime) : fields none (hmsStr t) = [t.h, t.mi, t.s] := by
  simp only [hmsStr, List.append_assoc, List.cons_append]
  rw [fields_pad_sep _ _ _ nd_colon, fields_pad_sep _ _ _ nd_colon, fields_pad_end]

theorem parseTime_isoTime (t : PTime) : parseTime (isoTime t) = some t := by
  by_cases h : t.us = 0
  · simp only [parseTime, isoTime, h, if_true, fields_hmsStr_end]
    cases t; simp_all
  · simp only [parseTime, isoTime, h, if_false]
    rw [fields_hmsStr_sep _ _ nd_dot, fields_pad_end]

theorem parseTimestamp_timestampStr (x : PDate) (t : PTime) : parseTimestamp (timestampStr x t) = some (x, t) := by
  simp only [parseTimestamp, timestampStr, List.append_assoc, List.cons_append]
  rw [fields_dateStr_sep _ _ nd_space, fields_hmsStr_sep _ _ nd_dot, fields_pad_end]

/-! ### intervals -/

theorem fields_natDigits_sep (n : Nat) (c : Char) (hc : isDig c = false) (rest : Str) :
    fields none (natDigits n ++ c :: rest) = n :: fields none rest := by
  rw [← pad_zero, fields_pad_sep _ _ _ hc]

theorem fields_natDigits_end (n : Nat) : fields none (natDigits n) = [n] := by
  rw [← pad_zero, fields_pad_end]

theorem intervalVal_hmsBody (T U : Nat) : intervalVal (hmsBody T U) = some (T * 1000000 + U) := by
  by_cases hU : U = 0
  · subst hU
    simp only [intervalVal, hmsBody, ne_eq, not_true_eq_false, if_false, List.append_assoc, List.cons_append]
    rw [fields_natDigits_sep _ _ nd_colon, fields_natDigits_sep _ _ nd_colon, fields_natDigits_end]
    simp; omega
  · simp only [intervalVal, hmsBody, ne_eq, hU, not_false_eq_true, if_true, List.append_assoc, List.cons_append]
    rw [fields_natDigits_sep _ _ nd_colon, fields_natDigits_sep _ _ nd_colon, fields_natDigits_sep _ _ nd_dot, fields_pad_end]
    simp; omega

theorem hmsBody_head (T U : Nat) : ∃ c r, hmsBody T U = c :: r ∧ c ≠ '-' := by
  obtain ⟨c, r, h, hne, _⟩ := natDigits_head_ne_minus (T / 60 / 60)
  by_cases hU : U = 0
  · exact ⟨c, r ++ ':' :: (natDigits (T / 60 % 60) ++ ':' :: natDigits (T % 60)), by simp [hmsBody, hU, h], hne⟩
  · exact ⟨c, r ++ ':' :: (natDigits (T / 60 % 60) ++ ':' :: (natDigits (T % 60) ++ '.' :: pad 6 U)), by simp [hmsBody, hU, h], hne⟩

theorem parseInterval_timedelta2str (td : PDelta) (hs : td.secs < 86400) (hu : td.us < 1000000) :
    parseInterval (timedelta2str td) = some td.micros := by
  by_cases hneg : td.days < 0
  · by_cases hU : td.us = 0
    · simp only [timedelta2str, hneg, if_true, hU, ne_eq, not_true_eq_false, if_false, parseInterval, intervalVal_hmsBody, Option.map_some]
      simp only [PDelta.micros, hU]; congr 1; omega
    · simp only [timedelta2str, hneg, if_true, hU, ne_eq, not_false_eq_true, parseInterval, intervalVal_hmsBody, Option.map_some]
      simp only [PDelta.micros]; congr 1; omega
  · obtain ⟨c, r, h, hne⟩ := hmsBody_head (td.days * 86400 + (td.secs : Int)).natAbs td.us
    have hv := intervalVal_hmsBody (td.days * 86400 + (td.secs : Int)).natAbs td.us
    simp only [timedelta2str, hneg, if_false]
    rw [h] at hv ⊢
    simp only [parseInterval, hne, if_false, hv, Option.map_some]
    simp only [PDelta.micros]; congr 1; omega


/-! ### safe characters of rendered numbers / intervals; `%` scanning of keyword text -/

theorem isDig_safe (c : Char) (h : isDig c = true) : isQuote c = false ∧ c ≠ '%' ∧ c ≠ '\\' := by
  refine ⟨?_, ?_, ?_⟩
  · by_cases h1 : c = '\''
    · subst h1; exact absurd h (by decide)
    · by_cases h2 : c = '\x22'
      · subst h2; exact absurd h (by decide)
      · by_cases h3 : c = '`'
        · subst h3; exact absurd h (by decide)
        · simp [isQuote, h1, h2, h3]
  · intro e; subst e; exact absurd h (by decide)
  · intro e; subst e; exact absurd h (by decide)

theorem intStr_safe (i : Int) : ∀ c ∈ intStr i, isQuote c = false ∧ c ≠ '%' ∧ c ≠ '\\' := by
  intro c hc
  unfold intStr at hc
  split at hc
  · simp only [List.mem_cons] at hc
    rcases hc with rfl | hc
    · decide
    · exact isDig_safe c (natDigits_isDig _ c hc)
  · exact isDig_safe c (natDigits_isDig _ c hc)

theorem hmsBody_chars (T U : Nat) : ∀ c ∈ hmsBody T U, isDig c = true ∨ c = ':' ∨ c = '.' := by
  intro c hc
  by_cases hU : U = 0
  · simp only [hmsBody, hU, ne_eq, not_true_eq_false, if_false, List.mem_append, List.mem_cons] at hc
    rcases hc with (hc | rfl | hc) | rfl | hc
    · exact Or.inl (natDigits_isDig _ c hc)
    · exact Or.inr (Or.inl rfl)
    · exact Or.inl (natDigits_isDig _ c hc)
    · exact Or.inr (Or.inl rfl)
    · exact Or.inl (natDigits_isDig _ c hc)
  · simp only [hmsBody, hU, ne_eq, not_false_eq_true, if_true, List.mem_append, List.mem_cons] at hc
    rcases hc with ((hc | rfl | hc) | rfl | hc) | rfl | hc
    · exact Or.inl (natDigits_isDig _ c hc)
    · exact Or.inr (Or.inl rfl)
    · exact Or.inl (natDigits_isDig _ c hc)
    · exact Or.inr (Or.inl rfl)
    · exact Or.inl (natDigits_isDig _ c hc)
    · exact Or.inr (Or.inr rfl)
    · exact Or.inl (pad_isDig _ _ c hc)

theorem timedelta2str_safe (td : PDelta) : ∀ c ∈ timedelta2str td, c ≠ '\'' ∧ c ≠ '%' ∧ c ≠ '\\' := by
  have key : ∀ T U, ∀ c ∈ hmsBody T U, c ≠ '\'' ∧ c ≠ '%' ∧ c ≠ '\\' := by
    intro T U c hc
    rcases hmsBody_chars T U c hc with h | rfl | rfl
    · have := isDig_safe c h
      refine ⟨?_, this.2.1, this.2.2⟩
      intro e; subst e; exact absurd this.1 (by decide)
    · decide
    · decide
  intro c hc
  unfold timedelta2str at hc
  simp only at hc
  split at hc
  · split at hc
    · simp only [List.mem_cons] at hc
      rcases hc with rfl | hc
      · decide
      · exact key _ _ c hc
    · simp only [List.mem_cons] at hc
      rcases hc with rfl | hc
      · decide
      · exact key _ _ c hc
  · exact key _ _ c hc

theorem lits_append (a b : Str) : lits (a ++ b) = lits a ++ lits b := by simp [lits]

/-- text without `%` passes the `%` scanner unchanged and leaves it in text mode -/
theorem scanP_noPercent (t rest : Str) (h : '%' ∉ t) :
    scanP .text (t ++ rest) = (scanP .text rest).map (lits t ++ ·) := by
  induction t with
  | nil => simp [lits]
  | cons c t ih =>
    simp only [List.mem_cons, not_or] at h
    have hc : c ≠ '%' := fun e => h.1 e.symm
    simp only [List.cons_append, scanP_lit_cons c hc, ih h.2]
    cases scanP .text rest <;> simp [lits]

/-! ### make_param cache -/

theorem makeParams_eq [BEq κ] [LawfulBEq κ] (occ cache : List (κ × γ))
    (hocc : ∀ a ∈ occ, ∀ b ∈ occ, a.1 = b.1 → a.2 = b.2)
    (hcache : ∀ a ∈ cache, ∀ b ∈ occ, a.1 = b.1 → a.2 = b.2) :
    makeParams cache occ = occ.map (·.2) := by
  induction occ generalizing cache with
  | nil => rfl
  | cons o r ih =>
    obtain ⟨k, c⟩ := o
    simp only [makeParams, List.map_cons]
    have hr : ∀ a ∈ r, ∀ b ∈ r, a.1 = b.1 → a.2 = b.2 := fun a ha b hb => hocc a (by simp [ha]) b (by simp [hb])
    cases hl : cache.lookup k with
    | some c' =>
      have hmem : (k, c') ∈ cache := by
        clear ih hcache
        induction cache with
        | nil => simp at hl
        | cons p cache ih2 =>
          obtain ⟨pk, pv⟩ := p
          by_cases hk : k = pk
          · subst hk; simp [List.lookup_cons] at hl; subst hl; simp
          · have hb : (k == pk) = false := by simp [hk]
            simp only [List.lookup_cons, hb] at hl
            exact List.mem_cons_of_mem _ (ih2 hl)
      have hc : c' = c := hcache (k, c') hmem (k, c) (by simp) rfl
      simp only [hc]
      rw [ih cache hr (fun a ha b hb => hcache a ha b (by simp [hb]))]
    | none =>
      simp only []
      rw [ih (cache ++ [(k, c)]) hr]
      intro a ha b hb hab
      simp only [List.mem_append, List.mem_singleton] at ha
      rcases ha with ha | rfl
      · exact hcache a ha b (by simp [hb]) hab
      · exact hocc (k, c) (by simp) b (by simp [hb]) hab

theorem keyComponent_inj (a b : PathItem) (h : keyComponent a = keyComponent b) : a = b := by
  cases a <;> cases b <;> simp_all [keyComponent]

theorem pathKey_inj (a b : List PathItem) (h : pathKey a = pathKey b) : a = b := by
  induction a generalizing b with
  | nil => cases b <;> simp_all [pathKey]
  | cons x a ih =>
    cases b with
    | nil => simp [pathKey] at h
    | cons y b =>
      simp only [pathKey, List.map_cons, List.cons.injEq] at h
      rw [keyComponent_inj x y h.1, ih b (by simpa [pathKey] using h.2)]

/-! ### hexadecimal blobs -/

theorem unhex_hex (n : Nat) (h : n < 16) : unhexDigit (hexDigit n) = some n := by
  revert n; decide

theorem hexDigit_ne_quote (n : Nat) : hexDigit n ≠ '\'' := by
  by_cases h : n < 16
  · revert n; decide
  · have : 16 ≤ n := by omega
    obtain ⟨m, rfl⟩ : ∃ m, n = 16 + m := ⟨n - 16, by omega⟩
    simp [hexDigit, List.getD]

theorem hexDigit_ne_percent (n : Nat) : hexDigit n ≠ '%' := by
  by_cases h : n < 16
  · revert n; decide
  · have : 16 ≤ n := by omega
    obtain ⟨m, rfl⟩ : ∃ m, n = 16 + m := ⟨n - 16, by omega⟩
    simp [hexDigit, List.getD]

theorem hexlify_no_percent (b : List Nat) : '%' ∉ hexlify b := by
  induction b with
  | nil => simp [hexlify]
  | cons x b ih =>
    simp only [hexlify, List.mem_cons, not_or]
    exact ⟨fun e => hexDigit_ne_percent _ e.symm, fun e => hexDigit_ne_percent _ e.symm, ih⟩

/-- text without `%` is sent unchanged under every paramstyle -/
theorem expandPercent_noPercent (style : Style) (t : Str) (h : '%' ∉ t) : expandPercent style t = some t := by
  by_cases hp : style.percent = true
  · have := scanP_noPercent t [] h
    simp only [List.append_nil, scanP, Option.map_some] at this
    simp [expandPercent, hp, this, litsOnly_lits]
  · have hp' : style.percent = false := by simpa using hp
    simp [expandPercent, hp']

theorem intStr_head (i : Int) : ∃ c r, intStr i = c :: r ∧ c ≠ 'n' ∧ c ≠ '\'' ∧ c ≠ 'X' := by
  obtain ⟨c, r, h, _, hd⟩ := natDigits_head_ne_minus i.natAbs
  unfold intStr
  split
  · exact ⟨'-', _, rfl, by decide, by decide, by decide⟩
  · refine ⟨c, r, h, ?_, ?_, ?_⟩ <;> (intro e; subst e; exact absurd hd (by decide))

theorem unhexlify_hexlify (b : List Nat) (h : ∀ x ∈ b, x < 256) : unhexlify (hexlify b) = some b := by
  induction b with
  | nil => rfl
  | cons x b ih =>
    have hx : x < 256 := h x (by simp)
    have ih' := ih (fun y hy => h y (by simp [hy]))
    simp only [hexlify, unhexlify, unhex_hex (x / 16) (by omega), unhex_hex (x % 16) (by omega), ih']
    congr 2; omega

end PonyVerif.Model.SqlText
