/-
  Lemmas/KeyIndexStep.lean — every call of Model/KeyIndex.lean keeps `Inv` (successful or failing), with the one
  exception stated in `Props/C11.lean` (a `_db_set_` that stops with TransactionIntegrityError after it already moved
  an index entry).  Core Lean only.
-/
import PonyVerif.Lemmas.KeyIndexInv
namespace PonyVerif.Model.KeyIndex

theorem setRbits_fields (ob : Obj) (l : List Nat) :
    (setRbits ob l).pk = ob.pk ∧ (setRbits ob l).status = ob.status ∧ (setRbits ob l).vals = ob.vals ∧ (setRbits ob l).cls = ob.cls := by
  unfold setRbits; split <;> exact ⟨rfl, rfl, rfl, rfl⟩

theorem setRbits_same (sch : Schema) (ob : Obj) (l : List Nat) : ObjSame sch (setRbits ob l) ob := by
  obtain ⟨h1, h2, h3, _⟩ := setRbits_fields ob l
  exact ⟨h1, by rw [h2], by rw [h2], fun i => by rw [h3]⟩

/-! ## create -/

theorem keyTaken_false {sch : Schema} {s : Sess} {vf : Nat → Slot} (h : keyTaken sch s vf = false) :
    ∀ i v, kv sch vf i = some v → (s.ixs i).get v = none := by
  intro i v hk
  have hi : i ∈ allKeys sch := by
    rw [mem_allKeys]; apply Nat.lt_of_not_le; intro hge
    rw [kv_none_of_ge sch _ i hge] at hk; cases hk
  unfold keyTaken at h
  rw [List.any_eq_false] at h
  have := h i hi
  simp only [hk, Bool.not_eq_true, Option.isSome_eq_false_iff, Option.isNone_iff_eq_none] at this
  exact this

theorem pkTaken_false {s : Sess} {pk : Option KeyVal} (h : pkTaken s pk = false) : ∀ k, pk = some k → s.pkIx.get k = none := by
  intro k e; subst e
  simpa [pkTaken] using h

theorem create_eq_keyTaken {sch : Schema} {s : Sess} {c : Nat} {pk : Option KeyVal} {vals : List (Option Int)} {lf : Bool}
    (h : keyTaken sch s (fun a => Slot.val ((vals[a]?).join)) = true) :
    create sch s c pk vals lf = (s, { err := some .cacheIndex }) := by
  simp [create, h]

theorem create_eq_pkTaken {sch : Schema} {s : Sess} {c : Nat} {pk : Option KeyVal} {vals : List (Option Int)} {lf : Bool}
    (h1 : keyTaken sch s (fun a => Slot.val ((vals[a]?).join)) = false) (h2 : pkTaken s pk = true) :
    create sch s c pk vals lf = (s, { err := some .cacheIndex }) := by
  simp [create, h1, h2]

theorem create_eq_late {sch : Schema} {s : Sess} {c : Nat} {pk : Option KeyVal} {vals : List (Option Int)}
    (h1 : keyTaken sch s (fun a => Slot.val ((vals[a]?).join)) = false) (h2 : pkTaken s pk = false) :
    create sch s c pk vals true = ({ s with pkIx := undoIdmap (s.pkIx.setOpt pk s.n) pk s.n }, { err := some .constraint }) := by
  simp [create, h1, h2]

theorem create_eq_ok {sch : Schema} {s : Sess} {c : Nat} {pk : Option KeyVal} {vals : List (Option Int)}
    (h1 : keyTaken sch s (fun a => Slot.val ((vals[a]?).join)) = false) (h2 : pkTaken s pk = false) :
    create sch s c pk vals false =
      ({ n := s.n + 1,
         obj := setObj s.obj s.n { cls := c, status := .created, pk := pk, vals := fun a => Slot.val ((vals[a]?).join),
                                   dbvals := fun _ => .notLoaded, rbits := fun _ => false, wbits := fun _ => false, isNew := true, isSeed := false },
         pkIx := (s.pkIx.setOpt pk s.n).setOpt pk s.n,
         ixs := fun i => (s.ixs i).setOpt (kv sch (fun a => Slot.val ((vals[a]?).join)) i) s.n,
         queue := s.queue ++ [s.n] }, { yield := some s.n }) := by
  simp [create, h1, h2]

theorem create_inv {sch : Schema} {s : Sess} (hI : Inv sch s) (c : Nat) (pk : Option KeyVal) (vals : List (Option Int)) (lf : Bool) :
    Inv sch (create sch s c pk vals lf).1 := by
  cases hkt : keyTaken sch s (fun a => Slot.val ((vals[a]?).join)) with
  | true => rw [create_eq_keyTaken hkt]; exact hI
  | false =>
  cases hpt : pkTaken s pk with
  | true => rw [create_eq_pkTaken hkt hpt]; exact hI
  | false =>
      have hpknone := pkTaken_false hpt
      have hfresh := keyTaken_false hkt
      cases lf with
      | true =>
        -- the constructor failed late: the identity map's undo closure took the entry out again
        rw [create_eq_late hkt hpt]
        apply inv_congr _ hI
        refine ⟨rfl, ?_, IxEq.refl _, fun _ _ => ObjSame.refl _ _⟩
        intro k
        cases pk with
        | none => rfl
        | some k0 =>
          simp only [undoIdmap, Index.setOpt, Index.get_set, if_true]
          rw [Index.get_erase, Index.get_set]
          by_cases e : k = k0
          · subst e; simp [hpknone k rfl]
          · simp [e]
      | false =>
        rw [create_eq_ok hkt hpt]
        constructor
        · intro k x hg
          simp only [Index.get_setOpt] at hg
          by_cases e : pk = some k
          · simp only [e, if_true, Option.some.injEq] at hg
            subst hg
            exact ⟨Nat.lt_succ_self _, by simpa using e, by simp [Status.holdsPk]⟩
          · simp only [e, if_false] at hg
            obtain ⟨h1, h2, h3⟩ := hI.pk_sound k x hg
            have hx : x ≠ s.n := Nat.ne_of_lt h1
            exact ⟨Nat.lt_succ_of_lt h1, by simpa [setObj_other _ _ _ _ hx] using h2, by simpa [setObj_other _ _ _ _ hx] using h3⟩
        · intro x k hx hp hs
          simp only [Index.get_setOpt]
          by_cases e : x = s.n
          · subst e
            simp only [setObj_same] at hp
            simp [hp]
          · have hx' : x < s.n := Nat.lt_of_le_of_ne (Nat.le_of_lt_succ hx) e
            simp only [setObj_other _ _ _ _ e] at hp hs
            have hold := hI.pk_complete x k hx' hp hs
            have : pk ≠ some k := fun e2 => by rw [hpknone k e2] at hold; cases hold
            simp [this, hold]
        · intro i v x hg
          simp only [Index.get_setOpt] at hg
          by_cases e : kv sch (fun a => Slot.val ((vals[a]?).join)) i = some v
          · simp only [e, if_true, Option.some.injEq] at hg
            subst hg
            exact ⟨Nat.lt_succ_self _, by simp [Status.isDel], by simpa using e⟩
          · simp only [e, if_false] at hg
            obtain ⟨h1, h2, h3⟩ := hI.key_sound i v x hg
            have hx : x ≠ s.n := Nat.ne_of_lt h1
            exact ⟨Nat.lt_succ_of_lt h1, by simpa [setObj_other _ _ _ _ hx] using h2, by simpa [setObj_other _ _ _ _ hx] using h3⟩
        · intro i x v hx hl hk
          simp only [Index.get_setOpt]
          by_cases e : x = s.n
          · subst e
            simp only [setObj_same] at hk
            simp [hk]
          · have hx' : x < s.n := Nat.lt_of_le_of_ne (Nat.le_of_lt_succ hx) e
            simp only [setObj_other _ _ _ _ e] at hl hk
            have hold := hI.key_complete i x v hx' hl hk
            have : kv sch (fun a => Slot.val ((vals[a]?).join)) i ≠ some v := fun e2 => by rw [hfresh i v e2] at hold; cases hold
            simp [this, hold]

/-- a successful constructor call returns the object the primary-key index now holds for its key -/
theorem create_yield {sch : Schema} {s : Sess} (c : Nat) (pk : Option KeyVal) (vals : List (Option Int)) (lf : Bool) (x : ObjId)
    (h : (create sch s c pk vals lf).2.yield = some x) :
    x = s.n ∧ ((create sch s c pk vals lf).1.obj x).pk = pk ∧ ∀ k, pk = some k → (create sch s c pk vals lf).1.pkIx.get k = some x := by
  cases hkt : keyTaken sch s (fun a => Slot.val ((vals[a]?).join)) with
  | true => rw [create_eq_keyTaken hkt] at h; cases h
  | false =>
  cases hpt : pkTaken s pk with
  | true => rw [create_eq_pkTaken hkt hpt] at h; cases h
  | false =>
    cases lf with
    | true => rw [create_eq_late hkt hpt] at h; cases h
    | false =>
      rw [create_eq_ok hkt hpt] at h ⊢
      simp only [Option.some.injEq] at h
      subst h
      refine ⟨rfl, by simp, ?_⟩
      intro k e; subst e
      simp [Index.get_setOpt]

/-! ## the identity map for loaded rows -/

theorem idmapLoaded_inv {sch : Schema} {s s1 : Sess} {c : Nat} {pk : KeyVal} {o : ObjId} (hI : Inv sch s)
    (h : idmapLoaded sch s c pk = .ok (s1, o)) :
    Inv sch s1 ∧ o < s1.n ∧ (s1.obj o).pk = some pk ∧ (s1.obj o).status.holdsPk = true ∧ s1.pkIx.get pk = some o ∧ s.n ≤ s1.n := by
  unfold idmapLoaded at h
  cases hg : s.pkIx.get pk with
  | some x =>
    simp only [hg] at h
    obtain ⟨h1, h2, h3⟩ := hI.pk_sound pk x hg
    split at h
    · cases h; exact ⟨hI, h1, h2, h3, hg, Nat.le_refl _⟩
    · split at h
      · cases h; exact ⟨hI, h1, h2, h3, hg, Nat.le_refl _⟩
      · split at h
        · cases h
        · split at h
          · cases h
          · cases h
            refine ⟨inv_congr (sameKeys_setObj s _ _ s.queue ⟨rfl, rfl, rfl, fun _ => rfl⟩) hI, h1, by simpa using h2, by simpa using h3, hg, Nat.le_refl _⟩
  | none =>
    simp only [hg] at h
    cases h
    refine ⟨?_, Nat.lt_succ_self _, by simp, by simp [Status.holdsPk], by simp [Index.get_set], Nat.le_succ _⟩
    constructor
    · intro k x hx
      simp only [Index.get_set] at hx
      by_cases e : k = pk
      · subst e
        simp only [if_true, Option.some.injEq] at hx
        subst hx
        exact ⟨Nat.lt_succ_self _, by simp, by simp [Status.holdsPk]⟩
      · simp only [e, if_false] at hx
        obtain ⟨h1, h2, h3⟩ := hI.pk_sound k x hx
        have hne : x ≠ s.n := Nat.ne_of_lt h1
        exact ⟨Nat.lt_succ_of_lt h1, by simpa [setObj_other _ _ _ _ hne] using h2, by simpa [setObj_other _ _ _ _ hne] using h3⟩
    · intro x k hx hp hs
      simp only [Index.get_set]
      by_cases e : x = s.n
      · subst e
        simp only [setObj_same, Option.some.injEq] at hp
        simp [hp]
      · have hx' : x < s.n := Nat.lt_of_le_of_ne (Nat.le_of_lt_succ hx) e
        simp only [setObj_other _ _ _ _ e] at hp hs
        have hold := hI.pk_complete x k hx' hp hs
        have : k ≠ pk := fun e2 => by rw [e2, hg] at hold; cases hold
        simp [this, hold]
    · intro i v x hx
      obtain ⟨h1, h2, h3⟩ := hI.key_sound i v x hx
      have hne : x ≠ s.n := Nat.ne_of_lt h1
      exact ⟨Nat.lt_succ_of_lt h1, by simpa [setObj_other _ _ _ _ hne] using h2, by simpa [setObj_other _ _ _ _ hne] using h3⟩
    · intro i x v hx hl hk
      by_cases e : x = s.n
      · subst e
        simp only [setObj_same] at hk
        rw [kv_notLoaded] at hk; cases hk
      · have hx' : x < s.n := Nat.lt_of_le_of_ne (Nat.le_of_lt_succ hx) e
        simp only [setObj_other _ _ _ _ e] at hl hk
        exact hI.key_complete i x v hx' hl hk

theorem idmapLoaded_err {sch : Schema} {s : Sess} {c : Nat} {pk : KeyVal} {e : Err}
    (_ : idmapLoaded sch s c pk = .error e) : True := trivial

/-! ## `_db_set_` -/

theorem dbSet_inv {sch : Schema} {s : Sess} (hI : Inv sch s) {o : ObjId} (ho : o < s.n) (hlive : (s.obj o).status.isDel = false)
    (rowv : Nat → Slot) (u : Bool) (hne : (dbSet sch s o rowv u).2 ≠ some .integrity) :
    Inv sch (dbSet sch s o rowv u).1 ∧ (dbSet sch s o rowv u).1.n = s.n ∧ (dbSet sch s o rowv u).1.pkIx = s.pkIx ∧
      ((dbSet sch s o rowv u).1.obj o).pk = (s.obj o).pk ∧ ((dbSet sch s o rowv u).1.obj o).status = (s.obj o).status := by
  unfold dbSet at hne ⊢
  simp only at hne ⊢
  cases hf : (List.range sch.nattrs).find? (fun a => dbEff sch (s.obj o) rowv u a && (s.obj o).rbits a) with
  | some a0 =>
    simp only
    refine ⟨inv_congr (sameKeys_setObj s o _ s.queue ⟨rfl, rfl, rfl, fun _ => rfl⟩) hI, (by first | rfl | trivial), (by first | rfl | trivial), by simp [dbObjStop], by simp [dbObjStop]⟩
  | none =>
    simp only [hf] at hne ⊢
    cases hok : (updKeysGo o (kv sch (s.obj o).vals) (kv sch (dbNewVals sch (s.obj o) rowv u)) (allKeys sch) ⟨s.ixs, [], true⟩).ok with
    | false => simp [hok] at hne
    | true =>
      simp only [if_true]
      refine ⟨?_, (by first | rfl | trivial), (by first | rfl | trivial), by simp [dbObjDb], by simp [dbObjDb]⟩
      exact inv_updKeys hI ho { dbObjDb sch (s.obj o) rowv u with vals := dbNewVals sch (s.obj o) rowv u } hlive rfl
        (by simpa [dbObjDb] using hlive) s.queue hok

/-! ## load / seed -/

theorem seed_inv {sch : Schema} {s : Sess} (hI : Inv sch s) (c : Nat) (pk : KeyVal) : Inv sch (seed sch s c pk).1 := by
  unfold seed
  cases h : idmapLoaded sch s c pk with
  | error e => exact hI
  | ok p => obtain ⟨s1, o⟩ := p; exact (idmapLoaded_inv hI h).1

theorem seed_yield {sch : Schema} {s : Sess} (hI : Inv sch s) (c : Nat) (pk : KeyVal) (x : ObjId)
    (h : (seed sch s c pk).2.yield = some x) : ((seed sch s c pk).1.obj x).pk = some pk ∧ (seed sch s c pk).1.pkIx.get pk = some x := by
  unfold seed at h ⊢
  cases hm : idmapLoaded sch s c pk with
  | error e => simp [hm] at h
  | ok p =>
    obtain ⟨s1, o⟩ := p
    simp only [hm, Option.some.injEq] at h ⊢
    subst h
    obtain ⟨_, _, h3, _, h5, _⟩ := idmapLoaded_inv hI hm
    exact ⟨h3, h5⟩

theorem load_inv {sch : Schema} {s : Sess} (hI : Inv sch s) (row : Row) (used : List Nat) (u : Bool)
    (hne : (load sch s row used u).2.err ≠ some .integrity) : Inv sch (load sch s row used u).1 := by
  unfold load at hne ⊢
  cases hm : idmapLoaded sch s row.cls row.pk with
  | error e => exact hI
  | ok p =>
    obtain ⟨s1, o⟩ := p
    obtain ⟨hI1, ho, _, _, _, _⟩ := idmapLoaded_inv hI hm
    simp only [hm] at hne ⊢
    cases hdel : (s1.obj o).status.isDel with
    | true => simp only [if_true]; exact hI1
    | false =>
      simp only [hdel, Bool.false_eq_true, if_false] at hne ⊢
      by_cases hc : (s1.obj o).status = .created
      · simp only [hc, if_true]; exact hI1
      · simp only [hc, if_false] at hne ⊢
        cases hd : dbSet sch s1 o (fun a => (row.vals[a]?).getD Slot.notLoaded) u with
        | mk s2 e =>
          simp only [hd] at hne ⊢
          cases e with
          | some e =>
            simp only at hne ⊢
            have hne' : (dbSet sch s1 o (fun a => (row.vals[a]?).getD Slot.notLoaded) u).2 ≠ some .integrity := by
              rw [hd]; intro h2; simp only [Option.some.injEq] at h2; subst h2; exact hne rfl
            have := (dbSet_inv hI1 ho hdel _ u hne').1
            rw [hd] at this; exact this
          | none =>
            simp only
            have hne' : (dbSet sch s1 o (fun a => (row.vals[a]?).getD Slot.notLoaded) u).2 ≠ some .integrity := by rw [hd]; simp
            have h2 := dbSet_inv hI1 ho hdel _ u hne'
            rw [hd] at h2
            exact inv_congr (sameKeys_setObj s2 o _ s2.queue (setRbits_same sch _ _)) h2.1

/-- a row that was loaded (or unpickled) yields the object the primary-key index holds for the row's primary key -/
theorem load_yield {sch : Schema} {s : Sess} (hI : Inv sch s) (row : Row) (used : List Nat) (u : Bool) (x : ObjId)
    (h : (load sch s row used u).2.yield = some x) :
    ((load sch s row used u).1.obj x).pk = some row.pk ∧ (load sch s row used u).1.pkIx.get row.pk = some x := by
  unfold load at h ⊢
  cases hm : idmapLoaded sch s row.cls row.pk with
  | error e => simp [hm] at h
  | ok p =>
    obtain ⟨s1, o⟩ := p
    obtain ⟨hI1, ho, h3, _, h5, _⟩ := idmapLoaded_inv hI hm
    simp only [hm] at h ⊢
    cases hdel : (s1.obj o).status.isDel with
    | true =>
      simp only [hdel, if_true] at h ⊢
      cases u with
      | true => simp only [if_true, Option.some.injEq] at h; subst h; exact ⟨h3, h5⟩
      | false => simp at h
    | false =>
      simp only [hdel, Bool.false_eq_true, if_false] at h ⊢
      by_cases hc : (s1.obj o).status = .created
      · simp [hc] at h
      · simp only [hc, if_false] at h ⊢
        cases hd : dbSet sch s1 o (fun a => (row.vals[a]?).getD Slot.notLoaded) u with
        | mk s2 e =>
          simp only [hd] at h ⊢
          cases e with
          | some e => simp at h
          | none =>
            simp only [Option.some.injEq] at h ⊢
            subst h
            have hne' : (dbSet sch s1 o (fun a => (row.vals[a]?).getD Slot.notLoaded) u).2 ≠ some .integrity := by rw [hd]; simp
            obtain ⟨_, _, hpkix, hpk, _⟩ := dbSet_inv hI1 ho hdel _ u hne'
            rw [hd] at hpkix hpk
            simp only at hpkix hpk
            refine ⟨?_, by rw [hpkix]; exact h5⟩
            simp only [setObj_same, (setRbits_fields _ _).1, hpk, h3]

/-! ## assignment -/

theorem chObj_fields (ob : Obj) (ch : List (Nat × Option Int)) (h : ob.status.isDel = false) :
    (chObj ob ch).pk = ob.pk ∧ (chObj ob ch).status.isDel = false ∧ (chObj ob ch).vals = chVals ob ch := by
  unfold chObj; split
  · exact ⟨rfl, h, rfl⟩
  · exact ⟨rfl, rfl, rfl⟩

theorem setAttrs_inv {sch : Schema} {s : Sess} (hI : Inv sch s) (o : ObjId) (ch : List (Nat × Option Int)) :
    Inv sch (setAttrs sch s o ch).1 := by
  unfold setAttrs
  simp only
  by_cases ho : o ≥ s.n
  · simp only [ho, if_true]; exact hI
  · simp only [ho, if_false]
    have ho' : o < s.n := Nat.lt_of_not_le ho
    cases hdel : (s.obj o).status.isDel with
    | true => simp only [if_true]; exact hI
    | false =>
      simp only [Bool.false_eq_true, if_false]
      obtain ⟨f1, f2, f3⟩ := chObj_fields (s.obj o) ch hdel
      cases hok : (updKeysGo o (kv sch (s.obj o).vals) (kv sch (chVals (s.obj o) ch)) (allKeys sch) ⟨s.ixs, [], true⟩).ok with
      | true =>
        simp only [if_true]
        have hok' : (updKeysGo o (kv sch (s.obj o).vals) (kv sch (chObj (s.obj o) ch).vals) (allKeys sch) ⟨s.ixs, [], true⟩).ok = true := by
          rw [f3]; exact hok
        have := inv_updKeys hI ho' (chObj (s.obj o) ch) hdel f1 f2
          (if (s.obj o).isNew || decide ((s.obj o).status = .modified) then s.queue else s.queue ++ [o]) hok'
        rw [f3] at this
        exact this
      | false =>
        -- CacheIndexError: the undo list is run
        simp only [Bool.false_eq_true, if_false]
        apply inv_congr _ hI
        exact ⟨rfl, fun _ => rfl, undo_restores hI ho' hdel _, fun _ _ => ObjSame.refl _ _⟩

/-- a refused assignment changes nothing the invariant (or any key lookup) can see -/
theorem setAttrs_err_same {sch : Schema} {s : Sess} (hI : Inv sch s) (o : ObjId) (ch : List (Nat × Option Int))
    (h : (setAttrs sch s o ch).2.err ≠ none) : SameKeys sch s (setAttrs sch s o ch).1 ∧ (setAttrs sch s o ch).1.obj = s.obj := by
  unfold setAttrs at h ⊢
  simp only at h ⊢
  by_cases ho : o ≥ s.n
  · simp only [ho, if_true]; exact ⟨SameKeys.refl _ _, (by first | rfl | trivial)⟩
  · simp only [ho, if_false] at h ⊢
    have ho' : o < s.n := Nat.lt_of_not_le ho
    cases hdel : (s.obj o).status.isDel with
    | true => simp only [if_true]; exact ⟨SameKeys.refl _ _, (by first | rfl | trivial)⟩
    | false =>
      simp only [hdel, Bool.false_eq_true, if_false] at h ⊢
      cases hok : (updKeysGo o (kv sch (s.obj o).vals) (kv sch (chVals (s.obj o) ch)) (allKeys sch) ⟨s.ixs, [], true⟩).ok with
      | true => simp [hok] at h
      | false =>
        simp only [Bool.false_eq_true, if_false]
        exact ⟨⟨rfl, fun _ => rfl, undo_restores hI ho' hdel _, fun _ _ => ObjSame.refl _ _⟩, (by first | rfl | trivial)⟩

/-! ## read, find, proxy: only read bits move -/

theorem read_inv {sch : Schema} {s : Sess} (hI : Inv sch s) (o : ObjId) (a : Nat) : Inv sch (read s o a).1 := by
  unfold read
  simp only
  split
  · exact hI
  · split
    · exact hI
    · split
      · exact hI
      · exact inv_congr (sameKeys_setObj s o _ s.queue (setRbits_same sch _ _)) hI

theorem findCheck_fields (ob : Obj) (kw : List (Nat × Int)) :
    (findCheck ob kw).1.pk = ob.pk ∧ (findCheck ob kw).1.status = ob.status ∧ (findCheck ob kw).1.vals = ob.vals := by
  induction kw generalizing ob with
  | nil => exact ⟨rfl, rfl, rfl⟩
  | cons p r ih =>
    obtain ⟨a, v⟩ := p
    unfold findCheck
    split
    · exact ⟨rfl, rfl, rfl⟩
    · split
      · exact ⟨rfl, rfl, rfl⟩
      · obtain ⟨f1, f2, f3, _⟩ := setRbits_fields ob [a]
        split
        · exact ⟨f1, f2, f3⟩
        · obtain ⟨g1, g2, g3⟩ := ih (setRbits ob [a])
          exact ⟨g1.trans f1, g2.trans f2, g3.trans f3⟩

theorem findCheck_same (sch : Schema) (ob : Obj) (kw : List (Nat × Int)) : ObjSame sch (findCheck ob kw).1 ob := by
  obtain ⟨h1, h2, h3⟩ := findCheck_fields ob kw
  exact ⟨h1, by rw [h2], by rw [h2], fun i => by rw [h3]⟩

theorem objSame_trans {sch : Schema} {a b c : Obj} (h1 : ObjSame sch a b) (h2 : ObjSame sch b c) : ObjSame sch a c :=
  ⟨h1.1.trans h2.1, h1.2.1.trans h2.2.1, h1.2.2.1.trans h2.2.2.1, fun i => (h1.2.2.2 i).trans (h2.2.2.2 i)⟩

theorem find_same {sch : Schema} (s : Sess) (c : Nat) (pk : Option KeyVal) (kw : List (Nat × Int)) :
    SameKeys sch s (find sch s c pk kw).1 := by
  unfold find
  split
  · exact SameKeys.refl _ _
  · rename_i o _
    simp only
    split
    · exact SameKeys.refl _ _
    · split
      · exact SameKeys.refl _ _
      · split
        · exact SameKeys.refl _ _
        · split
          · rename_i ob' e hc
            have := findCheck_same sch (s.obj o) kw
            rw [hc] at this
            exact sameKeys_setObj s o _ s.queue this
          · rename_i ob' hc
            have := findCheck_same sch (s.obj o) kw
            rw [hc] at this
            exact sameKeys_setObj s o _ s.queue (objSame_trans (setRbits_same sch _ _) this)

theorem findVia_same {sch : Schema} (s : Sess) (c : Nat) (pk : KeyVal) (via : ObjId) (kw : List (Nat × Int)) :
    SameKeys sch s (findVia sch s c pk via kw).1 := by
  unfold findVia
  split
  · exact SameKeys.refl _ _
  · simp only
    split
    · exact SameKeys.refl _ _
    · split
      · exact SameKeys.refl _ _
      · split
        · exact SameKeys.refl _ _
        · split
          · exact SameKeys.refl _ _
          · split
            · rename_i ob' e hc
              have := findCheck_same sch (s.obj via) kw
              rw [hc] at this
              exact sameKeys_setObj s via _ s.queue this
            · rename_i ob' hc
              have := findCheck_same sch (s.obj via) kw
              rw [hc] at this
              exact sameKeys_setObj s via _ s.queue (objSame_trans (setRbits_same sch _ _) this)

theorem proxy_state (s : Sess) (o : ObjId) : (proxy s o).1 = s := by
  unfold proxy
  split
  · rfl
  · split
    · rfl
    · split <;> rfl

theorem markRead_same {sch : Schema} (s : Sess) (os : List ObjId) (attrs : List Nat) : SameKeys sch s (markRead s os attrs).1 := by
  refine ⟨rfl, fun _ => rfl, IxEq.refl _, ?_⟩
  intro o _
  simp only [markRead]
  split
  · exact setRbits_same sch _ _
  · exact ObjSame.refl _ _

/-! ## delete and the three `_save_*_` -/

theorem delete_inv {sch : Schema} {s : Sess} (hI : Inv sch s) (o : ObjId) : Inv sch (delete sch s o).1 := by
  unfold delete
  simp only
  split
  · exact hI
  · rename_i ho
    have ho : o < s.n := Nat.lt_of_not_le ho
    split
    · exact hI
    · rename_i hdel
      have hlive : (s.obj o).status.isDel = false := by simpa using hdel
      -- the key part is the same for both branches
      have hks : ∀ (st : Status), st.isDel = true → ∀ i v x,
          ((s.ixs i).eraseOpt (kv sch (s.obj o).vals i)).get v = some x →
          x < s.n ∧ (setObj s.obj o { s.obj o with status := st } x).status.isDel = false ∧
            kv sch (setObj s.obj o { s.obj o with status := st } x).vals i = some v := by
        intro st _ i v x hg
        rw [Index.get_eraseOpt] at hg
        by_cases e : kv sch (s.obj o).vals i = some v
        · simp [e] at hg
        · simp only [e, if_false] at hg
          obtain ⟨h1, h2, h3⟩ := hI.key_sound i v x hg
          have hx : x ≠ o := fun e2 => e (e2 ▸ h3)
          exact ⟨h1, by simpa [setObj_other _ _ _ _ hx] using h2, by simpa [setObj_other _ _ _ _ hx] using h3⟩
      have hkc : ∀ (st : Status), st.isDel = true → ∀ i x v, x < s.n →
          (setObj s.obj o { s.obj o with status := st } x).status.isDel = false →
          kv sch (setObj s.obj o { s.obj o with status := st } x).vals i = some v →
          ((s.ixs i).eraseOpt (kv sch (s.obj o).vals i)).get v = some x := by
        intro st hst i x v hx hl hk
        have hxo : x ≠ o := by
          intro e; subst e; simp only [setObj_same] at hl; rw [hst] at hl; cases hl
        simp only [setObj_other _ _ _ _ hxo] at hl hk
        have hold := hI.key_complete i x v hx hl hk
        rw [Index.get_eraseOpt]
        have : kv sch (s.obj o).vals i ≠ some v := by
          intro e
          have := hI.key_complete i o v ho hlive e
          rw [hold] at this; exact hxo (Option.some.inj this)
        simp [this, hold]
      split
      · rename_i hcr
        constructor
        · intro k x hg
          simp only [Index.get_eraseOpt] at hg
          by_cases e : (s.obj o).pk = some k
          · simp [e] at hg
          · simp only [e, if_false] at hg
            obtain ⟨h1, h2, h3⟩ := hI.pk_sound k x hg
            have hx : x ≠ o := fun e2 => e (e2 ▸ h2)
            exact ⟨h1, by simpa [setObj_other _ _ _ _ hx] using h2, by simpa [setObj_other _ _ _ _ hx] using h3⟩
        · intro x k hx hp hs
          have hxo : x ≠ o := by
            intro e; subst e; simp [Status.holdsPk] at hs
          simp only [setObj_other _ _ _ _ hxo] at hp hs
          have hold := hI.pk_complete x k hx hp hs
          simp only [Index.get_eraseOpt]
          have : (s.obj o).pk ≠ some k := by
            intro e
            have := hI.pk_complete o k ho e (holdsPk_of_not_isDel hlive)
            rw [hold] at this; exact hxo (Option.some.inj this)
          simp [this, hold]
        · exact hks .cancelled rfl
        · exact hkc .cancelled rfl
      · constructor
        · intro k x hg
          obtain ⟨h1, h2, h3⟩ := hI.pk_sound k x hg
          by_cases e : x = o
          · subst e; exact ⟨h1, by simpa using h2, by simp [Status.holdsPk]⟩
          · exact ⟨h1, by simpa [setObj_other _ _ _ _ e] using h2, by simpa [setObj_other _ _ _ _ e] using h3⟩
        · intro x k hx hp hs
          by_cases e : x = o
          · subst e
            simp only [setObj_same] at hp
            exact hI.pk_complete x k ho hp (holdsPk_of_not_isDel hlive)
          · simp only [setObj_other _ _ _ _ e] at hp hs
            exact hI.pk_complete x k hx hp hs
        · exact hks .markedToDelete rfl
        · exact hkc .markedToDelete rfl

/-! ## a cascading delete that is refused after its nested deletes ran -/

/-- the same session up to the representation of the index maps (and the queue) -/
structure StEq (s s' : Sess) : Prop where
  n : s'.n = s.n
  obj : s'.obj = s.obj
  pk : ∀ k, s'.pkIx.get k = s.pkIx.get k
  ix : IxEq s'.ixs s.ixs

theorem StEq.refl (s : Sess) : StEq s s := ⟨rfl, rfl, fun _ => rfl, IxEq.refl _⟩
theorem StEq.trans {a b c : Sess} (h1 : StEq a b) (h2 : StEq b c) : StEq a c :=
  ⟨h2.n.trans h1.n, h2.obj.trans h1.obj, fun k => (h2.pk k).trans (h1.pk k), IxEq.trans h2.ix h1.ix⟩
theorem StEq.sameKeys {sch : Schema} {s s' : Sess} (h : StEq s s') : SameKeys sch s s' :=
  ⟨h.n, h.pk, h.ix, fun o _ => by rw [h.obj]; exact ObjSame.refl _ _⟩

theorem undoDelete_congr {sch : Schema} {s s' : Sess} (h : StEq s s') (r : DelRec) :
    StEq (undoDelete sch s r) (undoDelete sch s' r) := by
  unfold undoDelete
  split
  · exact h
  · refine ⟨h.n, by simp only [h.obj], ?_, ?_⟩
    · intro k; simp only [Index.get_setOpt, h.pk]
    · intro i k; simp only [Index.get_setOpt, h.ix i k]

theorem setObj_setObj_self (f : ObjId → Obj) (o : ObjId) (x : Obj) : setObj (setObj f o x) o (f o) = f := by
  funext a
  simp only [setObj]
  by_cases e : a = o
  · subst e; simp
  · simp [e]

theorem delete_n (sch : Schema) (s : Sess) (o : ObjId) : (delete sch s o).1.n = s.n := by
  unfold delete
  simp only
  split
  · rfl
  · split
    · rfl
    · split <;> rfl

/-- one nested `_delete_` followed by its `undo_func` gives back the session: the object record, its primary-key entry
    (popped for a `created` object) and every key entry -/
theorem undoDelete_delete {sch : Schema} {s : Sess} (hI : Inv sch s) (c : ObjId) :
    StEq s (undoDelete sch (delete sch s c).1 (delRec s c)) := by
  unfold undoDelete delRec delete
  simp only
  by_cases hc : c ≥ s.n
  · simp only [hc, decide_true, Bool.true_or, if_true]; exact StEq.refl _
  · have hc' : c < s.n := Nat.lt_of_not_le hc
    simp only [hc, decide_false, Bool.false_or, if_false]
    cases hdel : (s.obj c).status.isDel with
    | true => simp only [if_true]; exact StEq.refl _
    | false =>
      simp only [Bool.false_eq_true, if_false]
      have hkeys : ∀ i k, (((s.ixs i).eraseOpt (kv sch (s.obj c).vals i)).setOpt (kv sch (s.obj c).vals i) c).get k = (s.ixs i).get k := by
        intro i k
        rw [Index.get_setOpt, Index.get_eraseOpt]
        by_cases e : kv sch (s.obj c).vals i = some k
        · simp [e, hI.key_complete i c k hc' hdel e]
        · simp [e]
      by_cases hcr : (s.obj c).status = .created
      · simp only [hcr, if_true]
        refine ⟨rfl, setObj_setObj_self _ _ _, ?_, hkeys⟩
        intro k
        rw [Index.get_setOpt, Index.get_eraseOpt]
        by_cases e : (s.obj c).pk = some k
        · simp [e, hI.pk_complete c k hc' e (holdsPk_of_not_isDel hdel)]
        · simp [e]
      · simp only [hcr, if_false]
        exact ⟨rfl, setObj_setObj_self _ _ _, fun _ => rfl, hkeys⟩

/-- the refused cascade as a whole restores the session, whatever objects it had reached -/
theorem cascadeGo_eq {sch : Schema} {s : Sess} (hI : Inv sch s) (cs : List ObjId) : StEq s (cascadeGo sch s cs) := by
  induction cs generalizing s with
  | nil => exact StEq.refl _
  | cons c cs ih =>
    unfold cascadeGo
    have h1 := ih (delete_inv hI c)
    exact StEq.trans (undoDelete_delete hI c) (undoDelete_congr h1 (delRec s c))

theorem undoDelete_n (sch : Schema) (s : Sess) (r : DelRec) : (undoDelete sch s r).n = s.n := by
  unfold undoDelete; split <;> rfl

theorem cascadeGo_n (sch : Schema) (s : Sess) (cs : List ObjId) : (cascadeGo sch s cs).n = s.n := by
  induction cs generalizing s with
  | nil => rfl
  | cons c cs ih => unfold cascadeGo; rw [undoDelete_n, ih, delete_n]

theorem saveCreated_inv {sch : Schema} {s : Sess} (hI : Inv sch s) (o : ObjId) (newId : Option Int) :
    Inv sch (saveCreated s o newId).1 := by
  unfold saveCreated
  simp only
  split
  · exact hI
  · rename_i ho
    have ho : o < s.n := Nat.lt_of_not_le ho
    split
    · exact hI
    · rename_i hst
      have hst : (s.obj o).status = .created := by simpa using hst
      have hkey : ∀ a, (if (s.obj o).vals a = Slot.val none then Slot.notLoaded else (s.obj o).vals a).key = ((s.obj o).vals a).key := by
        intro a; split
        · rename_i e; rw [e]; rfl
        · rfl
      split
      · rename_i k hpk
        apply inv_congr (sameKeys_setObj s o _ _ _) hI
        exact ⟨hpk.symm ▸ rfl, by simp [hst, Status.holdsPk], by simp [hst, Status.isDel], fun i => kv_congr hkey i⟩
      · rename_i hpk
        split
        · exact hI
        · rename_i id
          split
          · rename_i o2 hg
            -- an index entry for an object without a primary key contradicts soundness when o2 = o
            split
            · rename_i e
              subst e
              have := (hI.pk_sound _ _ hg).2.1
              rw [hpk] at this; cases this
            · exact hI
          · rename_i hg
            constructor
            · intro k x hx
              simp only [Index.get_set] at hx
              by_cases e : k = [id]
              · subst e
                simp only [if_true, Option.some.injEq] at hx
                subst hx
                exact ⟨ho, by simp, by simp [Status.holdsPk]⟩
              · simp only [e, if_false] at hx
                obtain ⟨h1, h2, h3⟩ := hI.pk_sound k x hx
                have hxo : x ≠ o := fun e2 => by rw [e2, hpk] at h2; cases h2
                exact ⟨h1, by simpa [setObj_other _ _ _ _ hxo] using h2, by simpa [setObj_other _ _ _ _ hxo] using h3⟩
            · intro x k hx hp hs
              simp only [Index.get_set]
              by_cases e : x = o
              · subst e
                simp only [setObj_same, Option.some.injEq] at hp
                simp [hp]
              · simp only [setObj_other _ _ _ _ e] at hp hs
                have hold := hI.pk_complete x k hx hp hs
                have : k ≠ [id] := fun e2 => by rw [e2, hg] at hold; cases hold
                simp [this, hold]
            · intro i v x hx
              obtain ⟨h1, h2, h3⟩ := hI.key_sound i v x hx
              by_cases e : x = o
              · subst e
                refine ⟨h1, by simp [Status.isDel], ?_⟩
                simp only [setObj_same]
                rw [kv_congr hkey i]; exact h3
              · exact ⟨h1, by simpa [setObj_other _ _ _ _ e] using h2, by simpa [setObj_other _ _ _ _ e] using h3⟩
            · intro i x v hx hl hk
              by_cases e : x = o
              · subst e
                simp only [setObj_same] at hk
                rw [kv_congr hkey i] at hk
                exact hI.key_complete i x v ho (by simp [hst, Status.isDel]) hk
              · simp only [setObj_other _ _ _ _ e] at hl hk
                exact hI.key_complete i x v hx hl hk

theorem saveUpdated_inv {sch : Schema} {s : Sess} (hI : Inv sch s) (o : ObjId) : Inv sch (saveUpdated s o).1 := by
  unfold saveUpdated
  simp only
  split
  · exact hI
  · split
    · exact hI
    · rename_i hst
      have hst : (s.obj o).status = .modified := by simpa using hst
      apply inv_congr (sameKeys_setObj s o _ _ _) hI
      exact ⟨rfl, by simp [hst, Status.holdsPk], by simp [hst, Status.isDel], fun _ => rfl⟩

theorem saveDeleted_inv {sch : Schema} {s : Sess} (hI : Inv sch s) (o : ObjId) : Inv sch (saveDeleted s o).1 := by
  unfold saveDeleted
  simp only
  split
  · exact hI
  · rename_i ho
    have ho : o < s.n := Nat.lt_of_not_le ho
    split
    · exact hI
    · rename_i hst
      have hst : (s.obj o).status = .markedToDelete := by simpa using hst
      constructor
      · intro k x hg
        simp only [Index.get_eraseOpt] at hg
        by_cases e : (s.obj o).pk = some k
        · simp [e] at hg
        · simp only [e, if_false] at hg
          obtain ⟨h1, h2, h3⟩ := hI.pk_sound k x hg
          have hx : x ≠ o := fun e2 => e (e2 ▸ h2)
          exact ⟨h1, by simpa [setObj_other _ _ _ _ hx] using h2, by simpa [setObj_other _ _ _ _ hx] using h3⟩
      · intro x k hx hp hs
        have hxo : x ≠ o := by
          intro e; subst e; simp [Status.holdsPk] at hs
        simp only [setObj_other _ _ _ _ hxo] at hp hs
        have hold := hI.pk_complete x k hx hp hs
        simp only [Index.get_eraseOpt]
        have : (s.obj o).pk ≠ some k := by
          intro e
          have := hI.pk_complete o k ho e (by simp [hst, Status.holdsPk])
          rw [hold] at this; exact hxo (Option.some.inj this)
        simp [this, hold]
      · intro i v x hx
        obtain ⟨h1, h2, h3⟩ := hI.key_sound i v x hx
        have hxo : x ≠ o := fun e => by rw [e, hst] at h2; simp [Status.isDel] at h2
        exact ⟨h1, by simpa [setObj_other _ _ _ _ hxo] using h2, by simpa [setObj_other _ _ _ _ hxo] using h3⟩
      · intro i x v hx hl hk
        have hxo : x ≠ o := by
          intro e; subst e; simp [Status.isDel] at hl
        simp only [setObj_other _ _ _ _ hxo] at hl hk
        exact hI.key_complete i x v hx hl hk

theorem inv_n_saveCreated (s : Sess) (o : ObjId) (newId : Option Int) : (saveCreated s o newId).1.n = s.n := by
  unfold saveCreated
  simp only
  split
  · rfl
  · split
    · rfl
    · split
      · rfl
      · split
        · rfl
        · split
          · split <;> rfl
          · rfl

/-! ## the step function as a whole -/

/-- the one failing call that can leave a half-updated index behind: a `load` (`_db_set_`) refused with
    TransactionIntegrityError (it has no undo list) -/
def loadConflict (sch : Schema) (s : Sess) : Op → Bool
  | .load row used u => (load sch s row used u).2.err == some .integrity
  | _ => false

theorem step_inv {sch : Schema} {s : Sess} (hI : Inv sch s) (op : Op) (hg : loadConflict sch s op = false) :
    Inv sch (step sch s op) := by
  unfold step stepR
  cases op with
  | create c pk vals lf => exact create_inv hI c pk vals lf
  | seed c pk => exact seed_inv hI c pk
  | load row used u =>
    apply load_inv hI row used u
    simpa [loadConflict] using hg
  | setAttrs o ch => exact setAttrs_inv hI o ch
  | read o a => exact read_inv hI o a
  | delete o => exact delete_inv hI o
  | saveCreated o id => exact saveCreated_inv hI o id
  | saveUpdated o => exact saveUpdated_inv hI o
  | saveDeleted o => exact saveDeleted_inv hI o
  | find c pk kw => exact inv_congr (find_same s c pk kw) hI
  | proxy o => simp only [proxy_state]; exact hI
  | markRead os attrs => exact inv_congr (markRead_same s os attrs) hI
  | cascadeFail cs => exact inv_congr (cascadeGo_eq hI cs).sameKeys hI
  | findVia c pk via kw => exact inv_congr (findVia_same s c pk via kw) hI

theorem dbSet_n (sch : Schema) (s : Sess) (o : ObjId) (rowv : Nat → Slot) (u : Bool) : (dbSet sch s o rowv u).1.n = s.n := by
  unfold dbSet
  simp only
  split
  · rfl
  · split <;> rfl

theorem idmapLoaded_n {sch : Schema} {s s1 : Sess} {c : Nat} {pk : KeyVal} {o : ObjId}
    (h : idmapLoaded sch s c pk = .ok (s1, o)) : s.n ≤ s1.n := by
  unfold idmapLoaded at h
  cases hg : s.pkIx.get pk with
  | some x =>
    simp only [hg] at h
    split at h
    · cases h; exact Nat.le_refl _
    · split at h
      · cases h; exact Nat.le_refl _
      · split at h
        · cases h
        · split at h
          · cases h
          · cases h; exact Nat.le_refl _
  | none =>
    simp only [hg] at h
    cases h
    exact Nat.le_succ _

theorem load_n (sch : Schema) (s : Sess) (row : Row) (used : List Nat) (u : Bool) : s.n ≤ (load sch s row used u).1.n := by
  unfold load
  cases hm : idmapLoaded sch s row.cls row.pk with
  | error e => exact Nat.le_refl _
  | ok p =>
    obtain ⟨s1, o⟩ := p
    have h1 := idmapLoaded_n hm
    simp only
    split
    · exact h1
    · split
      · exact h1
      · have := dbSet_n sch s1 o (fun a => (row.vals[a]?).getD Slot.notLoaded) u
        split
        · rename_i s2 e hd; rw [hd] at this; simp only at this ⊢; omega
        · rename_i s2 hd; rw [hd] at this; simp only at this ⊢; omega

/-- objects are never forgotten: the numbering only grows -/
theorem step_n_le (sch : Schema) (s : Sess) (op : Op) : s.n ≤ (step sch s op).n := by
  unfold step stepR
  cases op with
  | create c pk vals lf =>
    simp only
    cases hkt : keyTaken sch s (fun a => Slot.val ((vals[a]?).join)) with
    | true => rw [create_eq_keyTaken hkt]; exact Nat.le_refl _
    | false =>
    cases hpt : pkTaken s pk with
    | true => rw [create_eq_pkTaken hkt hpt]; exact Nat.le_refl _
    | false =>
      cases lf with
      | true => rw [create_eq_late hkt hpt]; exact Nat.le_refl _
      | false => rw [create_eq_ok hkt hpt]; exact Nat.le_succ _
  | seed c pk =>
    simp only [seed]
    cases hm : idmapLoaded sch s c pk with
    | error e => exact Nat.le_refl _
    | ok p => obtain ⟨s1, o⟩ := p; exact idmapLoaded_n hm
  | load row used u => exact load_n sch s row used u
  | setAttrs o ch => simp only [setAttrs]; split; exact Nat.le_refl _; split; exact Nat.le_refl _; split <;> exact Nat.le_refl _
  | read o a => simp only [read]; split; exact Nat.le_refl _; split; exact Nat.le_refl _; split <;> exact Nat.le_refl _
  | delete o => simp only [delete]; split; exact Nat.le_refl _; split; exact Nat.le_refl _; split <;> exact Nat.le_refl _
  | saveCreated o id => exact Nat.le_of_eq ((inv_n_saveCreated s o id).symm)
  | saveUpdated o => simp only [saveUpdated]; split; exact Nat.le_refl _; split <;> exact Nat.le_refl _
  | saveDeleted o => simp only [saveDeleted]; split; exact Nat.le_refl _; split <;> exact Nat.le_refl _
  | find c pk kw => exact Nat.le_of_eq (find_same (sch := sch) s c pk kw).n.symm
  | proxy o => simp only [proxy_state]; exact Nat.le_refl _
  | markRead os attrs => exact Nat.le_refl _
  | cascadeFail cs => exact Nat.le_of_eq (cascadeGo_n sch s cs).symm
  | findVia c pk via kw => exact Nat.le_of_eq (findVia_same (sch := sch) s c pk via kw).n.symm

/-! ## the class of a looked-up object -/

theorem findCheck_cls (ob : Obj) (kw : List (Nat × Int)) : (findCheck ob kw).1.cls = ob.cls := by
  induction kw generalizing ob with
  | nil => rfl
  | cons p r ih =>
    obtain ⟨a, v⟩ := p
    unfold findCheck
    split
    · rfl
    · split
      · rfl
      · split
        · exact (setRbits_fields ob [a]).2.2.2
        · exact (ih (setRbits ob [a])).trans (setRbits_fields ob [a]).2.2.2

/-- a cache lookup through entity `c` never yields an object of a class that is not `c` or one of its subclasses -/
theorem find_yield_class (sch : Schema) (s : Sess) (c : Nat) (pk : Option KeyVal) (kw : List (Nat × Int)) (x : ObjId)
    (hh : sch.parent.length > 1) (h : (find sch s c pk kw).2.yield = some x) :
    sch.isSub ((find sch s c pk kw).1.obj x).cls c = true := by
  unfold find at h ⊢
  split at h
  · cases h
  · rename_i o hc
    simp only at h ⊢
    have hgt : decide (sch.parent.length > 1) = true := by simpa using hh
    simp only [hgt, Bool.true_and] at h ⊢
    split at h
    · cases h
    · rename_i hseed
      split at h
      · cases h
      · rename_i hsub
        split at h
        · cases h
        · rename_i hst
          split at h
          · cases h
          · rename_i ob' hck
            simp only [Option.some.injEq] at h
            subst h
            simp only [hseed, hsub, hst, if_false, Bool.false_eq_true, hck, setObj_same]
            rw [(setRbits_fields _ _).2.2.2]
            have := findCheck_cls (s.obj o) kw
            rw [hck] at this
            simp only at this
            rw [this]
            simpa using hsub
/-! ## histories -/

/-- no row load of the history is refused with TransactionIntegrityError (decidable; a row the database hands out
    conflicts with the session only when the session is stale: a concurrent writer changed rows it had read) -/
def noLoadConflict (sch : Schema) (s : Sess) : List Op → Bool
  | [] => true
  | op :: ops => !loadConflict sch s op && noLoadConflict sch (step sch s op) ops

theorem run_append (sch : Schema) (s : Sess) (a b : List Op) : run sch s (a ++ b) = run sch (run sch s a) b := by
  induction a generalizing s with
  | nil => rfl
  | cons op a ih => exact ih _

theorem run_n_le (sch : Schema) (s : Sess) (ops : List Op) : s.n ≤ (run sch s ops).n := by
  induction ops generalizing s with
  | nil => exact Nat.le_refl _
  | cons op ops ih => exact Nat.le_trans (step_n_le sch s op) (ih _)

theorem noLoadConflict_append (sch : Schema) (s : Sess) (a b : List Op) :
    noLoadConflict sch s (a ++ b) = (noLoadConflict sch s a && noLoadConflict sch (run sch s a) b) := by
  induction a generalizing s with
  | nil => simp [noLoadConflict, run]
  | cons op a ih => simp only [List.cons_append, noLoadConflict, run, ih, Bool.and_assoc]

/-! ## every returned object is an object of the session -/

theorem findCand_lt {sch : Schema} {s : Sess} (hI : Inv sch s) {pk : Option KeyVal} {kw : List (Nat × Int)} {o : ObjId}
    (h : findCand sch s pk kw = some o) : o < s.n := by
  unfold findCand at h
  cases hb : pk.bind s.pkIx.get with
  | some o' =>
    simp only [hb, Option.some.injEq] at h
    subst h
    cases pk with
    | none => simp at hb
    | some k => exact (hI.pk_sound k _ (by simpa using hb)).1
  | none =>
    simp only [hb] at h
    obtain ⟨i, _, hi⟩ := List.exists_of_findSome?_eq_some h
    cases hk : kv sch (kwVals kw) i with
    | none => rw [hk] at hi; cases hi
    | some v =>
      rw [hk] at hi
      exact (hI.key_sound i v o hi).1

theorem yield_lt {sch : Schema} {s : Sess} (hI : Inv sch s) (op : Op) (x : ObjId)
    (h : (stepR sch s op).2.yield = some x) : x < (step sch s op).n := by
  unfold step
  unfold stepR at h ⊢
  cases op with
  | create c pk vals lf =>
    simp only at h ⊢
    have hx := (create_yield c pk vals lf x h).1
    cases hkt : keyTaken sch s (fun a => Slot.val ((vals[a]?).join)) with
    | true => rw [create_eq_keyTaken hkt] at h; cases h
    | false =>
    cases hpt : pkTaken s pk with
    | true => rw [create_eq_pkTaken hkt hpt] at h; cases h
    | false =>
      cases lf with
      | true => rw [create_eq_late hkt hpt] at h; cases h
      | false => rw [create_eq_ok hkt hpt]; subst hx; exact Nat.lt_succ_self _
  | seed c pk =>
    simp only [seed] at h ⊢
    cases hm : idmapLoaded sch s c pk with
    | error e => simp [hm] at h
    | ok p =>
      obtain ⟨s1, o⟩ := p
      simp only [hm, Option.some.injEq] at h ⊢
      subst h
      exact (idmapLoaded_inv hI hm).2.1
  | load row used u =>
    simp only at h ⊢
    unfold load at h ⊢
    cases hm : idmapLoaded sch s row.cls row.pk with
    | error e => simp [hm] at h
    | ok p =>
      obtain ⟨s1, o⟩ := p
      have ho := (idmapLoaded_inv hI hm).2.1
      simp only [hm] at h ⊢
      cases hdel : (s1.obj o).status.isDel with
      | true =>
        simp only [hdel, if_true] at h ⊢
        cases u with
        | true => simp only [if_true, Option.some.injEq] at h; subst h; exact ho
        | false => simp at h
      | false =>
        simp only [hdel, Bool.false_eq_true, if_false] at h ⊢
        by_cases hc : (s1.obj o).status = .created
        · simp [hc] at h
        · simp only [hc, if_false] at h ⊢
          have hn := dbSet_n sch s1 o (fun a => (row.vals[a]?).getD Slot.notLoaded) u
          cases hd : dbSet sch s1 o (fun a => (row.vals[a]?).getD Slot.notLoaded) u with
          | mk s2 e =>
            rw [hd] at hn
            simp only [hd] at h ⊢
            cases e with
            | some e => simp at h
            | none =>
              simp only [Option.some.injEq] at h ⊢
              subst h
              have hn' : s2.n = s1.n := hn
              show o < s2.n
              rw [hn']; exact ho
  | setAttrs o ch =>
    simp only [setAttrs] at h
    split at h
    · cases h
    · split at h
      · cases h
      · split at h <;> cases h
  | read o a =>
    simp only [read] at h
    split at h
    · cases h
    · split at h
      · cases h
      · split at h <;> cases h
  | delete o =>
    simp only [delete] at h
    split at h
    · cases h
    · split at h
      · cases h
      · split at h <;> cases h
  | saveCreated o id =>
    simp only [saveCreated] at h
    split at h
    · cases h
    · split at h
      · cases h
      · split at h
        · cases h
        · split at h
          · cases h
          · split at h
            · split at h <;> cases h
            · cases h
  | saveUpdated o =>
    simp only [saveUpdated] at h
    split at h
    · cases h
    · split at h <;> cases h
  | saveDeleted o =>
    simp only [saveDeleted] at h
    split at h
    · cases h
    · split at h <;> cases h
  | find c pk kw =>
    simp only at h ⊢
    rw [(find_same (sch := sch) s c pk kw).n]
    unfold find at h
    split at h
    · cases h
    · rename_i o hc
      have ho := findCand_lt hI hc
      simp only at h
      split at h
      · cases h
      · split at h
        · cases h
        · split at h
          · cases h
          · split at h
            · cases h
            · simp only [Option.some.injEq] at h; subst h; exact ho
  | proxy o =>
    simp only at h ⊢
    rw [proxy_state]
    unfold proxy at h
    split at h
    · cases h
    · split at h
      · cases h
      · rename_i k hk
        split at h
        · rename_i o' hg
          simp only [Option.some.injEq] at h; subst h
          exact (hI.pk_sound k _ hg).1
        · cases h
  | markRead os attrs => simp [markRead] at h
  | cascadeFail cs => simp [cascadeFail] at h
  | findVia c pk via kw =>
    simp only at h ⊢
    rw [(findVia_same (sch := sch) s c pk via kw).n]
    unfold findVia at h
    split at h
    · cases h
    · rename_i hv
      simp only at h
      split at h
      · cases h
      · split at h
        · cases h
        · split at h
          · cases h
          · split at h
            · cases h
            · split at h
              · cases h
              · simp only [Option.some.injEq] at h; subst h; exact Nat.lt_of_not_le hv

end PonyVerif.Model.KeyIndex
