/-
  Lemmas/RelOps.lean — the user-level calls (`add`, `remove`, collection assignment / `clear`, reference assignment)
  preserve `Agree` and `Range`, given what `DelSpec` says about `Entity._delete_` (proved in Lemmas/RelDelete.lean).
-/
import PonyVerif.Lemmas.Rel
namespace PonyVerif.Model.Rel

theorem mem_filter_range {n : Nat} {f : Nat → Bool} {x : Nat} : x ∈ (List.range n).filter f ↔ x < n ∧ f x = true := by
  simp [List.mem_filter, List.mem_range]

/-- every half link of `s'` was one of `s`, or is a new one between `o` (attribute `a`) and a value in `V` -/
def NewLinks (sch : Schema) (s s' : Store) (o : ObjId) (a : Attr) (V : ObjId → Prop) : Prop :=
  ∀ p b q, hasB sch s' p b q = true →
    hasB sch s p b q = true ∨ (p = o ∧ b = a ∧ V q) ∨ (q = o ∧ b = sch.rev a ∧ V p)

section ops
variable {sch : Schema}

/-- a loop of cascade deletes -/
theorem iterDel_ok {del : ObjId → St → Res} (hdel : DelSpec sch del) (E : ObjId → Attr → Prop) (P : ObjId → Prop) :
    ∀ (items : List ObjId) (st st' : St), iter del items st = .ok st' → (∀ x ∈ items, x < st.store.n) →
      Range st.store → D sch st.store E →
      D sch st'.store E ∧ Sub st.store st'.store ∧ Cleared P st.store st'.store ∧ (∀ x ∈ items, st'.store.alive x = false) := by
  intro items
  induction items with
  | nil =>
    intro st st' h _ _ hD; simp at h; cases h
    exact ⟨hD, Sub.refl _, Cleared.refl _ _, by simp⟩
  | cons i rest ih =>
    intro st st' h hlt hR hD
    obtain ⟨st1, h1, h2⟩ := iter_cons_ok h
    obtain ⟨hD1, hS1, hC1, hdead⟩ := hdel i st st1 E P h1 (hlt i (by simp)) hR hD
    obtain ⟨hD2, hS2, hC2, hdead2⟩ := ih st1 st' h2 (by intro x hx; rw [hS1.n]; exact hlt x (by simp [hx])) (hS1.range hR) hD1
    refine ⟨hD2, hS1.trans hS2, hC1.trans hC2 hS2, ?_⟩
    intro x hx
    rcases List.mem_cons.mp hx with rfl | hx
    · cases hal : st'.store.alive x with
      | false => rfl
      | true => rw [hS2.alive x hal] at hdead; cases hdead
    · exact hdead2 x hx

/-- `SetInstance.add` -/
theorem collAdd_ok {o : ObjId} {c : Attr} {items : List ObjId} {st st' : St} {cd : Side}
    (h : collAdd sch o c items st = .ok st') (hc : sch.side c = some cd) (hcd : cd.isColl = true)
    (ho : o < st.store.n) (hA : Agree sch st.store) (hR : Range st.store) :
    Agree sch st'.store ∧ Range st'.store ∧ st'.store.n = st.store.n ∧ st'.store.alive = st.store.alive ∧
      st'.store.ent = st.store.ent ∧ NewLinks sch st.store st'.store o c (· ∈ items) := by
  unfold collAdd at h
  split at h
  · cases h
  · rename_i hal
    have hal' : st.store.alive o = true := by simpa using hal
    split at h
    · rename_i d rd hd hrd
      rw [hc] at hd; cases hd
      simp only at h
      obtain ⟨st1, h1, h2⟩ := Res.bind_ok h
      cases h2
      have hrr := sch.rev_rev c
      have hc' : sch.side (sch.rev (sch.rev c)) = some cd := by rw [hrr]; exact hc
      have hnew : ∀ x, x ∈ (List.range st.store.n).filter (fun x => items.contains x && !st.store.mem o c x) ↔
          x < st.store.n ∧ x ∈ items ∧ st.store.mem o c x = false := by
        intro x; rw [mem_filter_range]; simp
      generalize (List.range st.store.n).filter (fun x => items.contains x && !st.store.mem o c x) = new at *
      have e2 := hasB_coll_eq (sch := sch) (s := st.store) hc hcd
      have e3 := hasB_coll_eq (sch := sch) (s := st1.store) hc hcd
      split at h1
      · -- one-to-many
        rename_i hcoll
        have hrd' : rd.isColl = false := by simpa using hcoll
        obtain ⟨hH, hRf, hF, hM, hAl⟩ := iterSet_ok hrd hrd' hc' hcd o _ _ _ h1
        have hne : c ≠ sch.rev c := Schema.ne_of_kinds hc hrd (by simp [hcd, hrd'])
        have e1 := hasB_ref_eq (sch := sch) (s := st.store) hrd hrd'
        refine ⟨?_, ?_, ?_, by simp only [St.setStore_store, Store.setRow]; exact hF.alive, by simp only [St.setStore_store, Store.setRow]; exact hF.ent, ?_⟩
        · intro p b q hp hal2 hh
          simp only [St.setStore_store, Store.setRow] at hp hal2
          rw [hF.n] at hp; rw [hF.alive] at hal2
          simp only [St.setStore_store] at hh ⊢
          rw [hasB_setRow hc hcd] at hh ⊢
          have a1 := hA p b q hp hal2
          have a2 := hH p b q
          have a3 := hH q (sch.rev b) p
          have a4 := hH o c q
          have a5 := hH o c p
          have a6 := hnew q
          have a7 := hnew p
          rw [hrr] at a2 a3 a4 a5
          grind [Schema.rev_rev, Schema.rev_inj]
        · refine ⟨?_, ?_⟩
          · intro p b x hp hx
            simp only [St.setStore_store, Store.setRow] at hp hx ⊢
            rw [hF.n] at hp ⊢
            rw [hRf] at hx
            have := hR.1 p b x hp
            grind
          · intro p b x hp hx
            simp only [St.setStore_store, Store.setRow] at hp hx ⊢
            rw [hF.n] at hp ⊢
            have r1 := hR.2 p b x hp
            have r2 := hM p b x
            have r3 := hnew x
            grind
        · simp only [St.setStore_store, Store.setRow]; exact hF.n
        · intro p b q hh
          simp only [St.setStore_store] at hh
          rw [hasB_setRow hc hcd] at hh
          have a2 := hH p b q
          have a4 := hH o c q
          have a6 := hnew q
          have a7 := hnew p
          rw [hrr] at a2 a4
          grind [Schema.rev_rev, Schema.rev_inj]
      · -- many-to-many
        rename_i hcoll
        have hrd' : rd.isColl = true := by simpa using hcoll
        obtain ⟨hH, hRf, hF, hM, hAs⟩ := reverseAdd_ok hrd hrd' o _ _ _ h1
        have e1 := hasB_coll_eq (sch := sch) (s := st.store) hrd hrd'
        refine ⟨?_, ?_, ?_, by simp only [St.setStore_store, Store.setRow]; exact hF.alive, by simp only [St.setStore_store, Store.setRow]; exact hF.ent, ?_⟩
        · intro p b q hp hal2 hh
          simp only [St.setStore_store, Store.setRow] at hp hal2
          rw [hF.n] at hp; rw [hF.alive] at hal2
          simp only [St.setStore_store] at hh ⊢
          rw [hasB_setRow hc hcd] at hh ⊢
          have a1 := hA p b q hp hal2
          have a2 := hH p b q
          have a3 := hH q (sch.rev b) p
          have a4 := hH o c q
          have a5 := hH o c p
          have a6 := hnew q
          have a7 := hnew p
          have a8 := hA o c q ho hal'
          grind [Schema.rev_rev, Schema.rev_inj]
        · refine ⟨?_, ?_⟩
          · intro p b x hp hx
            simp only [St.setStore_store, Store.setRow] at hp hx ⊢
            rw [hF.n] at hp ⊢
            rw [hRf] at hx
            exact hR.1 p b x hp hx
          · intro p b x hp hx
            simp only [St.setStore_store, Store.setRow] at hp hx ⊢
            rw [hF.n] at hp ⊢
            have r1 := hR.2 p b x hp
            have r2 := hM p b x
            have r3 := hnew x
            grind
        · simp only [St.setStore_store, Store.setRow]; exact hF.n
        · intro p b q hh
          simp only [St.setStore_store] at hh
          rw [hasB_setRow hc hcd] at hh
          have a2 := hH p b q
          have a4 := hH o c q
          have a6 := hnew q
          have a7 := hnew p
          grind [Schema.rev_rev, Schema.rev_inj]
    · cases h

/-- `SetInstance.remove` -/
theorem collRemove_ok {fuel : Nat} {o : ObjId} {c : Attr} {items : List ObjId} {st st' : St} {cd : Side}
    (hdel : DelSpec sch (fun x => delete sch fuel x))
    (h : collRemove sch fuel o c items st = .ok st') (hc : sch.side c = some cd) (hcd : cd.isColl = true)
    (ho : o < st.store.n) (hA : Agree sch st.store) (hR : Range st.store) :
    Agree sch st'.store ∧ Range st'.store ∧ st'.store.n = st.store.n := by
  unfold collRemove at h
  split at h
  · cases h
  · rename_i hal
    have hal' : st.store.alive o = true := by simpa using hal
    split at h
    · rename_i d rd hd hrd
      rw [hc] at hd; cases hd
      simp only at h
      obtain ⟨st1, h1, h2⟩ := Res.bind_ok h
      cases h2
      have hrr := sch.rev_rev c
      have hc' : sch.side (sch.rev (sch.rev c)) = some cd := by rw [hrr]; exact hc
      have hold : ∀ x, x ∈ (List.range st.store.n).filter (fun x => items.contains x && st.store.mem o c x) ↔
          x < st.store.n ∧ x ∈ items ∧ st.store.mem o c x = true := by
        intro x; rw [mem_filter_range]; simp
      generalize (List.range st.store.n).filter (fun x => items.contains x && st.store.mem o c x) = old at *
      have e2 := hasB_coll_eq (sch := sch) (s := st.store) hc hcd
      have e3 := hasB_coll_eq (sch := sch) (s := st1.store) hc hcd
      split at h1
      · rename_i hcoll
        have hrd' : rd.isColl = false := by simpa using hcoll
        have hne : c ≠ sch.rev c := Schema.ne_of_kinds hc hrd (by simp [hcd, hrd'])
        split at h1
        · -- one-to-many, cascade: the removed items are deleted
          obtain ⟨hD1, hS1, _, hdead⟩ := iterDel_ok hdel (fun _ _ => False) (fun _ => False) _ _ _ h1
            (fun x hx => ((hold x).mp hx).1) hR (D_false_iff.mpr hA)
          have hA1 := D_false_iff.mp hD1
          refine ⟨?_, ?_, ?_⟩
          · intro p b q hp hal2 hh
            simp only [St.setStore_store, Store.setRow] at hp hal2
            simp only [St.setStore_store] at hh ⊢
            rw [hasB_setRow hc hcd] at hh ⊢
            have a1 := hA1 p b q hp hal2
            have a2 := hdead p
            have a3 := hdead q
            grind [Schema.rev_rev, Schema.rev_inj]
          · have hR1 := hS1.range hR
            refine ⟨?_, ?_⟩
            · intro p b x hp hx
              simp only [St.setStore_store, Store.setRow] at hp hx ⊢
              exact hR1.1 p b x hp hx
            · intro p b x hp hx
              simp only [St.setStore_store, Store.setRow] at hp hx ⊢
              have r1 := hR1.2 p b x hp
              grind
          · simp only [St.setStore_store, Store.setRow]; exact hS1.n
        · -- one-to-many, no cascade
          obtain ⟨hH, hRf, hF, hM, hAl⟩ := iterClear_ok hrd hrd' hc' hcd _ _ _ h1
          have e1 := hasB_ref_eq (sch := sch) (s := st.store) hrd hrd'
          refine ⟨?_, ?_, ?_⟩
          · intro p b q hp hal2 hh
            simp only [St.setStore_store, Store.setRow] at hp hal2
            rw [hF.n] at hp; rw [hF.alive] at hal2
            simp only [St.setStore_store] at hh ⊢
            rw [hasB_setRow hc hcd] at hh ⊢
            have a1 := hA p b q hp hal2
            have a2 := hH p b q
            have a3 := hH q (sch.rev b) p
            have a4 := hH o c q
            have a5 := hH o c p
            have a6 := hold q
            have a7 := hold p
            have a8 := hA o c q ho hal'
            rw [hrr] at a2 a3 a4 a5
            grind [Schema.rev_rev, Schema.rev_inj]
          · refine ⟨?_, ?_⟩
            · intro p b x hp hx
              simp only [St.setStore_store, Store.setRow] at hp hx ⊢
              rw [hF.n] at hp ⊢
              rw [hRf] at hx
              have := hR.1 p b x hp
              grind
            · intro p b x hp hx
              simp only [St.setStore_store, Store.setRow] at hp hx ⊢
              rw [hF.n] at hp ⊢
              have r1 := hR.2 p b x hp
              have r2 := hM p b x
              grind
          · simp only [St.setStore_store, Store.setRow]; exact hF.n
      · -- many-to-many
        rename_i hcoll
        have hrd' : rd.isColl = true := by simpa using hcoll
        obtain ⟨hH, hRf, hF, hM, hAs⟩ := reverseRemove_ok hrd hrd' o _ _ _ h1
        refine ⟨?_, ?_, ?_⟩
        · intro p b q hp hal2 hh
          simp only [St.setStore_store, Store.setRow] at hp hal2
          rw [hF.n] at hp; rw [hF.alive] at hal2
          simp only [St.setStore_store] at hh ⊢
          rw [hasB_setRow hc hcd] at hh ⊢
          have a1 := hA p b q hp hal2
          have a2 := hH p b q
          have a3 := hH q (sch.rev b) p
          have a4 := hH o c q
          have a5 := hH o c p
          have a6 := hold q
          have a7 := hold p
          have a8 := hA o c q ho hal'
          have a9 := hR.2 p b q hp
          grind [Schema.rev_rev, Schema.rev_inj]
        · refine ⟨?_, ?_⟩
          · intro p b x hp hx
            simp only [St.setStore_store, Store.setRow] at hp hx ⊢
            rw [hF.n] at hp ⊢
            rw [hRf] at hx
            exact hR.1 p b x hp hx
          · intro p b x hp hx
            simp only [St.setStore_store, Store.setRow] at hp hx ⊢
            rw [hF.n] at hp ⊢
            have r1 := hR.2 p b x hp
            have r2 := hM p b x
            grind
        · simp only [St.setStore_store, Store.setRow]; exact hF.n
    · cases h

@[simp] theorem rewriteRow_store (isRev : Bool) (o : ObjId) (c : Attr) (f : ObjId → Bool) (st : St) :
    (rewriteRow isRev o c f st).store = st.store.setRow o c f := by
  unfold rewriteRow; cases isRev <;> rfl

theorem finalRow_false (items : List ObjId) (s : Store) : finalRow false items s = fun x => items.contains x := by
  funext x; simp [finalRow]

theorem finalRow_true (items : List ObjId) (s : Store) : finalRow true items s = fun x => items.contains x && s.alive x := by
  funext x; simp [finalRow]

/-- `Set.__set__` (collection assignment, `clear`, and the collection attributes of a constructor call) -/
theorem setCollCore_ok {del : ObjId → St → Res} {isRev : Bool} {o : ObjId} {c : Attr} {items : List ObjId} {st st' : St} {cd : Side}
    (hdel : DelSpec sch del)
    (h : setCollCore sch del isRev o c items st = .ok st') (hc : sch.side c = some cd) (hcd : cd.isColl = true)
    (ho : o < st.store.n) (hitems : ∀ x ∈ items, x < st.store.n) (hA : Agree sch st.store) (hR : Range st.store) :
    Agree sch st'.store ∧ Range st'.store ∧ st'.store.n = st.store.n ∧ st'.store.ent = st.store.ent ∧
      NewLinks sch st.store st'.store o c (· ∈ items) := by
  unfold setCollCore at h
  split at h
  · cases h
  · rename_i hal
    have hal' : st.store.alive o = true := by simpa using hal
    split at h
    · rename_i d rd hd hrd
      rw [hc] at hd; cases hd
      simp only at h
      split at h
      · cases h; exact ⟨hA, hR, rfl, rfl, fun p b q hh => Or.inl hh⟩
      · obtain ⟨st2, h12, h2⟩ := Res.bind_ok h
        cases h2
        have hrr := sch.rev_rev c
        have hc' : sch.side (sch.rev (sch.rev c)) = some cd := by rw [hrr]; exact hc
        have hadd : ∀ x, x ∈ (List.range st.store.n).filter (fun x => items.contains x && !st.store.mem o c x) ↔
            x < st.store.n ∧ x ∈ items ∧ st.store.mem o c x = false := by
          intro x; rw [mem_filter_range]; simp
        have hrem : ∀ x, x ∈ (List.range st.store.n).filter (fun x => st.store.mem o c x && !items.contains x) ↔
            x < st.store.n ∧ st.store.mem o c x = true ∧ x ∉ items := by
          intro x; rw [mem_filter_range]; simp
        generalize (List.range st.store.n).filter (fun x => items.contains x && !st.store.mem o c x) = toAdd at *
        generalize (List.range st.store.n).filter (fun x => st.store.mem o c x && !items.contains x) = toRemove at *
        have e2 := hasB_coll_eq (sch := sch) (s := st.store) hc hcd
        have hcont : ∀ x, items.contains x = true ↔ x ∈ items := fun x => by simp
        simp only [rewriteRow_store]
        clear h
        rename_i hnoteq
        clear hnoteq
        split at h12
        · rename_i hcoll
          have hrd' : rd.isColl = false := by simpa using hcoll
          have hne : c ≠ sch.rev c := Schema.ne_of_kinds hc hrd (by simp [hcd, hrd'])
          obtain ⟨st1, h1, h2⟩ := Res.bind_ok h12
          obtain ⟨hH2, hRf2, hF2, hM2, hAl2⟩ := iterSet_ok hrd hrd' hc' hcd o _ _ _ h2
          split at h1
          · -- one-to-many, cascade
            rename_i hcasc
            have hfr : finalRow (!rd.isColl && cd.cascade) items st2.store = fun x => items.contains x && st1.store.alive x := by
              rw [hrd', hcasc]; simp only [Bool.not_false, Bool.and_self]; rw [finalRow_true, hF2.alive]
            rw [hfr]
            obtain ⟨hD1, hS1, hC1, hdead⟩ := iterDel_ok hdel (fun _ _ => False) (fun _ => False) _ _ _ h1
              (fun x hx => ((hrem x).mp hx).1) hR (D_false_iff.mpr hA)
            have hA1 := D_false_iff.mp hD1
            have hR1 := hS1.range hR
            have e1 := hasB_ref_eq (sch := sch) (s := st1.store) hrd hrd'
            have e0 := hasB_ref_eq (sch := sch) (s := st.store) hrd hrd'
            have e3 := hasB_coll_eq (sch := sch) (s := st1.store) hc hcd
            refine ⟨?_, ?_, ?_, ?_, ?_⟩
            · intro p b q hp hal2 hh
              simp only [Store.setRow] at hp hal2
              rw [hF2.n, hS1.n] at hp; rw [hF2.alive] at hal2
              rw [hasB_setRow hc hcd] at hh ⊢
              have hp1 : p < st1.store.n := by rw [hS1.n]; exact hp
              have a1 := hA1 p b q hp1 hal2
              have a2 := hH2 p b q
              have a3 := hH2 q (sch.rev b) p
              have a4 := hadd q
              have a5 := hadd p
              have a6 := hrem p
              have a7 := hdead p
              have a8 := hA o c q ho hal'
              have a9 := hC1 q (sch.rev c) o
              have a10 := hS1.mem o c p
              have a11 := hR.2 o c p ho
              have a12 := hS1.alive o
              have a13 := hitems q
              have c1 := hcont q
              have c2 := hcont p
              rw [hrr] at a2 a3
              clear h12 h1 h2
              grind [Schema.rev_rev, Schema.rev_inj]
            · refine ⟨?_, ?_⟩
              · intro p b x hp hx
                simp only [Store.setRow] at hp hx ⊢
                rw [hF2.n] at hp ⊢
                rw [hRf2] at hx
                have := hR1.1 p b x hp
                have := hS1.n
                grind
              · intro p b x hp hx
                simp only [Store.setRow] at hp hx ⊢
                rw [hF2.n] at hp ⊢
                have r1 := hR1.2 p b x hp
                have r2 := hM2 p b x
                have r3 := hitems x
                have := hS1.n
                grind
            · simp only [Store.setRow]; rw [hF2.n, hS1.n]
            · simp only [Store.setRow]; rw [hF2.ent, hS1.ent]
            · intro p b q hh
              rw [hasB_setRow hc hcd] at hh
              have a2 := hH2 p b q
              have a3 := hS1.has (sch := sch) (p := p) (b := b) (q := q)
              have a4 := hadd p
              have c1 := hcont q
              rw [hrr] at a2
              clear h12 h1 h2
              grind [Schema.rev_rev, Schema.rev_inj]
          · -- one-to-many, no cascade
            rename_i hcasc
            have hfr : finalRow (!rd.isColl && cd.cascade) items st2.store = fun x => items.contains x := by
              have : cd.cascade = false := by simpa using hcasc
              rw [this]; simp only [Bool.and_false]; exact finalRow_false _ _
            rw [hfr]
            obtain ⟨hH1, hRf1, hF1, hM1, hAl1⟩ := iterClear_ok hrd hrd' hc' hcd _ _ _ h1
            have e0 := hasB_ref_eq (sch := sch) (s := st.store) hrd hrd'
            refine ⟨?_, ?_, ?_, ?_, ?_⟩
            · intro p b q hp hal2 hh
              simp only [Store.setRow] at hp hal2
              rw [hF2.n, hF1.n] at hp; rw [hF2.alive, hF1.alive] at hal2
              rw [hasB_setRow hc hcd] at hh ⊢
              have a1 := hA p b q hp hal2
              have a2 := hH2 p b q
              have a3 := hH2 q (sch.rev b) p
              have b2 := hH1 p b q
              have b3 := hH1 q (sch.rev b) p
              have a4 := hadd q
              have a5 := hadd p
              have a6 := hrem p
              have a7 := hrem q
              have a8 := hA o c q ho hal'
              have a9 := hRf1 q (sch.rev c)
              have a10 := hRf1 p (sch.rev c)
              have a11 := hR.2 p b q hp
              have a13 := hitems q
              have c1 := hcont q
              have c2 := hcont p
              rw [hrr] at a2 a3 b2 b3
              clear h12 h1 h2
              grind [Schema.rev_rev, Schema.rev_inj]
            · refine ⟨?_, ?_⟩
              · intro p b x hp hx
                simp only [Store.setRow] at hp hx ⊢
                rw [hF2.n, hF1.n] at hp ⊢
                rw [hRf2, hRf1] at hx
                have := hR.1 p b x hp
                grind
              · intro p b x hp hx
                simp only [Store.setRow] at hp hx ⊢
                rw [hF2.n, hF1.n] at hp ⊢
                have r1 := hR.2 p b x hp
                have r2 := hM2 p b x
                have r3 := hM1 p b x
                have r4 := hitems x
                grind
            · simp only [Store.setRow]; rw [hF2.n, hF1.n]
            · simp only [Store.setRow]; rw [hF2.ent, hF1.ent]
            · intro p b q hh
              rw [hasB_setRow hc hcd] at hh
              have a2 := hH2 p b q
              have b2 := hH1 p b q
              have a4 := hadd p
              have c1 := hcont q
              rw [hrr] at a2 b2
              clear h12 h1 h2
              grind [Schema.rev_rev, Schema.rev_inj]
        · -- many-to-many
          rename_i hcoll
          have hrd' : rd.isColl = true := by simpa using hcoll
          have hfr : finalRow (!rd.isColl && cd.cascade) items st2.store = fun x => items.contains x := by
            rw [hrd']; simp only [Bool.not_true, Bool.false_and]; exact finalRow_false _ _
          rw [hfr]
          obtain ⟨st1, h1, h2⟩ := Res.bind_ok h12
          obtain ⟨hH1, hRf1, hF1, hM1, hAs1⟩ := reverseRemove_ok hrd hrd' o _ _ _ h1
          obtain ⟨hH2, hRf2, hF2, hM2, hAs2⟩ := reverseAdd_ok hrd hrd' o _ _ _ h2
          refine ⟨?_, ?_, ?_, ?_, ?_⟩
          · intro p b q hp hal2 hh
            simp only [Store.setRow] at hp hal2
            rw [hF2.n, hF1.n] at hp; rw [hF2.alive, hF1.alive] at hal2
            rw [hasB_setRow hc hcd] at hh ⊢
            have a1 := hA p b q hp hal2
            have a2 := hH2 p b q
            have a3 := hH2 q (sch.rev b) p
            have b2 := hH1 p b q
            have b3 := hH1 q (sch.rev b) p
            have a4 := hadd q
            have a5 := hadd p
            have a6 := hrem p
            have a7 := hrem q
            have a8 := hA o c q ho hal'
            have a11 := hR.2 p b q hp
            have a13 := hitems q
            have c1 := hcont q
            have c2 := hcont p
            clear h12 h1 h2
            grind [Schema.rev_rev, Schema.rev_inj]
          · refine ⟨?_, ?_⟩
            · intro p b x hp hx
              simp only [Store.setRow] at hp hx ⊢
              rw [hF2.n, hF1.n] at hp ⊢
              rw [hRf2, hRf1] at hx
              exact hR.1 p b x hp hx
            · intro p b x hp hx
              simp only [Store.setRow] at hp hx ⊢
              rw [hF2.n, hF1.n] at hp ⊢
              have r1 := hR.2 p b x hp
              have r2 := hM2 p b x
              have r3 := hM1 p b x
              have r4 := hitems x
              grind
          · simp only [Store.setRow]; rw [hF2.n, hF1.n]
          · simp only [Store.setRow]; rw [hF2.ent, hF1.ent]
          · intro p b q hh
            rw [hasB_setRow hc hcd] at hh
            have a2 := hH2 p b q
            have b2 := hH1 p b q
            have a4 := hadd p
            have c1 := hcont q
            clear h12 h1 h2
            grind [Schema.rev_rev, Schema.rev_inj]
    · cases h

end ops
end PonyVerif.Model.Rel
