/-
  Lemmas/RelOps.lean — the user-level calls (`add`, `remove`, collection assignment / `clear`, reference assignment)
  preserve `Agree` and `Range`, given what `DelSpec` says about `Entity._delete_` (proved in Lemmas/RelDelete.lean).
-/
import PonyVerif.Lemmas.Rel
namespace PonyVerif.Model.Rel

theorem mem_filter_range {n : Nat} {f : Nat → Bool} {x : Nat} : x ∈ (List.range n).filter f ↔ x < n ∧ f x = true := by
  simp [List.mem_filter, List.mem_range]

section ops
variable {sch : Schema}

/-- a loop of cascade deletes -/
theorem iterDel_ok {del : ObjId → St → Res} (hdel : DelSpec sch del) (E : ObjId → Attr → Prop) (P : ObjId → Prop) :
    ∀ (items : List ObjId) (st st' : St), iter del items st = .ok st' → (∀ x ∈ items, x < st.store.n) →
      Range st.store → D sch st.store E →
      D sch st'.store E ∧ Sub st.store st'.store ∧ Cleared P st.store st'.store ∧ (∀ x ∈ items, st'.store.alive x = false) := by
  intro items
  induction items with
  | nil =>
    intro st st' h _ _ hD; simp at h; cases h
    exact ⟨hD, Sub.refl _, Cleared.refl _ _, by simp⟩
  | cons i rest ih =>
    intro st st' h hlt hR hD
    obtain ⟨st1, h1, h2⟩ := iter_cons_ok h
    obtain ⟨hD1, hS1, hC1, hdead⟩ := hdel i st st1 E P h1 (hlt i (by simp)) hR hD
    obtain ⟨hD2, hS2, hC2, hdead2⟩ := ih st1 st' h2 (by intro x hx; rw [hS1.n]; exact hlt x (by simp [hx])) (hS1.range hR) hD1
    refine ⟨hD2, hS1.trans hS2, hC1.trans hC2 hS2, ?_⟩
    intro x hx
    rcases List.mem_cons.mp hx with rfl | hx
    · cases hal : st'.store.alive x with
      | false => rfl
      | true => rw [hS2.alive x hal] at hdead; cases hdead
    · exact hdead2 x hx

/-- `SetInstance.add` -/
theorem collAdd_ok {o : ObjId} {c : Attr} {items : List ObjId} {st st' : St} {cd : Side}
    (h : collAdd sch o c items st = .ok st') (hc : sch.side c = some cd) (hcd : cd.isColl = true)
    (ho : o < st.store.n) (hA : Agree sch st.store) (hR : Range st.store) :
    Agree sch st'.store ∧ Range st'.store ∧ st'.store.n = st.store.n := by
  unfold collAdd at h
  split at h
  · cases h
  · rename_i hal
    have hal' : st.store.alive o = true := by simpa using hal
    split at h
    · rename_i d rd hd hrd
      rw [hc] at hd; cases hd
      simp only at h
      obtain ⟨st1, h1, h2⟩ := Res.bind_ok h
      cases h2
      have hrr := sch.rev_rev c
      have hc' : sch.side (sch.rev (sch.rev c)) = some cd := by rw [hrr]; exact hc
      have hnew : ∀ x, x ∈ (List.range st.store.n).filter (fun x => items.contains x && !st.store.mem o c x) ↔
          x < st.store.n ∧ x ∈ items ∧ st.store.mem o c x = false := by
        intro x; rw [mem_filter_range]; simp
      generalize (List.range st.store.n).filter (fun x => items.contains x && !st.store.mem o c x) = new at *
      have e2 := hasB_coll_eq (sch := sch) (s := st.store) hc hcd
      have e3 := hasB_coll_eq (sch := sch) (s := st1.store) hc hcd
      split at h1
      · -- one-to-many
        rename_i hcoll
        have hrd' : rd.isColl = false := by simpa using hcoll
        obtain ⟨hH, hRf, hF, hM, hAl⟩ := iterSet_ok hrd hrd' hc' hcd o _ _ _ h1
        have hne : c ≠ sch.rev c := Schema.ne_of_kinds hc hrd (by simp [hcd, hrd'])
        have e1 := hasB_ref_eq (sch := sch) (s := st.store) hrd hrd'
        refine ⟨?_, ?_, ?_⟩
        · intro p b q hp hal2 hh
          simp only [St.setStore_store, Store.setRow] at hp hal2
          rw [hF.n] at hp; rw [hF.alive] at hal2
          simp only [St.setStore_store] at hh ⊢
          rw [hasB_setRow hc hcd] at hh ⊢
          have a1 := hA p b q hp hal2
          have a2 := hH p b q
          have a3 := hH q (sch.rev b) p
          have a4 := hH o c q
          have a5 := hH o c p
          have a6 := hnew q
          have a7 := hnew p
          rw [hrr] at a2 a3 a4 a5
          grind [Schema.rev_rev, Schema.rev_inj]
        · refine ⟨?_, ?_⟩
          · intro p b x hp hx
            simp only [St.setStore_store, Store.setRow] at hp hx ⊢
            rw [hF.n] at hp ⊢
            rw [hRf] at hx
            have := hR.1 p b x hp
            grind
          · intro p b x hp hx
            simp only [St.setStore_store, Store.setRow] at hp hx ⊢
            rw [hF.n] at hp ⊢
            have r1 := hR.2 p b x hp
            have r2 := hM p b x
            have r3 := hnew x
            grind
        · simp only [St.setStore_store, Store.setRow]; exact hF.n
      · -- many-to-many
        rename_i hcoll
        have hrd' : rd.isColl = true := by simpa using hcoll
        obtain ⟨hH, hRf, hF, hM, hAs⟩ := reverseAdd_ok hrd hrd' o _ _ _ h1
        have e1 := hasB_coll_eq (sch := sch) (s := st.store) hrd hrd'
        refine ⟨?_, ?_, ?_⟩
        · intro p b q hp hal2 hh
          simp only [St.setStore_store, Store.setRow] at hp hal2
          rw [hF.n] at hp; rw [hF.alive] at hal2
          simp only [St.setStore_store] at hh ⊢
          rw [hasB_setRow hc hcd] at hh ⊢
          have a1 := hA p b q hp hal2
          have a2 := hH p b q
          have a3 := hH q (sch.rev b) p
          have a4 := hH o c q
          have a5 := hH o c p
          have a6 := hnew q
          have a7 := hnew p
          have a8 := hA o c q ho hal'
          grind [Schema.rev_rev, Schema.rev_inj]
        · refine ⟨?_, ?_⟩
          · intro p b x hp hx
            simp only [St.setStore_store, Store.setRow] at hp hx ⊢
            rw [hF.n] at hp ⊢
            rw [hRf] at hx
            exact hR.1 p b x hp hx
          · intro p b x hp hx
            simp only [St.setStore_store, Store.setRow] at hp hx ⊢
            rw [hF.n] at hp ⊢
            have r1 := hR.2 p b x hp
            have r2 := hM p b x
            have r3 := hnew x
            grind
        · simp only [St.setStore_store, Store.setRow]; exact hF.n
    · cases h

end ops
end PonyVerif.Model.Rel
