/-
  Lemmas for the many-to-many read set (C21, Model/CollRead.lean): with the three guards present, every piece of the loading
  code keeps every fully loaded collection of either side fully loaded with the same items (`FullFrozen`), for an arbitrary
  committed link table.
-/
import PonyVerif.Model.CollRead
namespace PonyVerif.Model.CollRead

def FullFrozen (s s' : Sess) : Prop :=
  ∀ side o sd, s.sets side o = some sd → sd.full = true → ∃ sd', s'.sets side o = some sd' ∧ sd'.full = true ∧ sd'.items = sd.items

theorem FullFrozen.refl (s : Sess) : FullFrozen s s := fun _ _ sd h hf => ⟨sd, h, hf, rfl⟩

theorem FullFrozen.trans {s1 s2 s3 : Sess} (h12 : FullFrozen s1 s2) (h23 : FullFrozen s2 s3) : FullFrozen s1 s3 := by
  intro side o sd h hf
  obtain ⟨sd2, h2, hf2, hi2⟩ := h12 side o sd h hf
  obtain ⟨sd3, h3, hf3, hi3⟩ := h23 side o sd2 h2 hf2
  exact ⟨sd3, h3, hf3, hi3.trans hi2⟩

theorem setS_same (s : Sess) (side : Bool) (o : Nat) (sd : SetData) : (setS s side o sd).sets side o = some sd := by
  simp [setS]

theorem setS_other (s : Sess) (side side' : Bool) (o o' : Nat) (sd : SetData) (h : ¬ (side' = side ∧ o' = o)) :
    (setS s side o sd).sets side' o' = s.sets side' o' := by
  simp [setS, h]

/-- writing a SetData that keeps what a fully loaded predecessor had -/
theorem FullFrozen.setS_keep (s : Sess) (side : Bool) (o : Nat) (sd : SetData)
    (h : ∀ sd0, s.sets side o = some sd0 → sd0.full = true → sd.full = true ∧ sd.items = sd0.items) :
    FullFrozen s (setS s side o sd) := by
  intro side' o' sd0 h0 hf
  by_cases hk : side' = side ∧ o' = o
  · obtain ⟨rfl, rfl⟩ := hk
    obtain ⟨h1, h2⟩ := h sd0 h0 hf
    exact ⟨sd, setS_same s side' o' sd, h1, h2⟩
  · exact ⟨sd0, by rw [setS_other s side side' o o' sd hk]; exact h0, hf, rfl⟩

theorem reverseAdd_full (g : Guards) (hg : g.addChecks = true) (s : Sess) (side : Bool) (o x : Nat) :
    FullFrozen s (reverseAdd g s side o x).1 := by
  unfold reverseAdd
  split
  · rename_i hk
    exact FullFrozen.setS_keep s _ x _ (fun sd0 h => by rw [hk] at h; cases h)
  · rename_i sd hk
    by_cases hf : sd.full = true
    · simp only [hf, hg, Bool.and_self, if_true]; exact FullFrozen.refl s
    · have hff : sd.full = false := by simpa using hf
      simp only [hff, Bool.false_and, Bool.false_eq_true, if_false]
      exact FullFrozen.setS_keep s _ x _ (fun sd0 h hf0 => by rw [hk] at h; cases h; rw [hff] at hf0; cases hf0)

theorem reverseAddAll_full (g : Guards) (hg : g.addChecks = true) (side : Bool) (o : Nat) :
    ∀ (l : List Nat) (s : Sess), FullFrozen s (reverseAddAll g side o s l).1
  | [], s => FullFrozen.refl s
  | x :: rest, s => by
    unfold reverseAddAll
    have h1 := reverseAdd_full g hg s side o x
    split
    next s1 e heq => rw [heq] at h1; exact h1
    next s1 heq => rw [heq] at h1; exact h1.trans (reverseAddAll_full g hg side o rest s1)

/-- the per-object merge: safe when the appeared-guard is on, or when the object's collection is not fully loaded -/
theorem mergeOne_full (g : Guards) (hg : g.addChecks = true) (check : Bool) (s : Sess) (side : Bool) (o : Nat) (dbItems : List Nat)
    (hc : check = true ∨ ∀ sd0, s.sets side o = some sd0 → sd0.full = false) :
    FullFrozen s (mergeOne g check s side o dbItems).1 := by
  unfold mergeOne
  simp only
  split
  · exact FullFrozen.refl s
  · split
    · exact FullFrozen.refl s
    · rename_i hnew
      refine FullFrozen.trans ?_ (reverseAddAll_full g hg side o _ _)
      apply FullFrozen.setS_keep
      intro sd0 h0 hf0
      simp only [h0, Option.getD_some] at hnew ⊢
      refine ⟨hf0, ?_⟩
      rcases hc with hc | hc
      · -- guard on: a fully loaded collection gets here only with nothing new
        have : (List.filter (fun x => !sd0.items.contains x) dbItems).eraseDups.isEmpty = true := by
          simp only [hc, hf0, Bool.true_and, Bool.and_true, Bool.not_eq_true'] at hnew
          simpa using hnew
        rw [List.isEmpty_iff.1 this, List.append_nil]
      · have := hc sd0 h0
        rw [hf0] at this; cases this

theorem markFull_full (side : Bool) : ∀ (l : List Nat) (s : Sess), FullFrozen s (markFull s side l)
  | [], s => FullFrozen.refl s
  | o :: rest, s => by
    unfold markFull
    simp only
    refine FullFrozen.trans ?_ (markFull_full side rest _)
    apply FullFrozen.setS_keep
    intro sd0 h0 _
    simp [h0]

/-- after `markFull` the listed collections are fully loaded -/
theorem markFull_spec (side : Bool) : ∀ (l : List Nat) (s : Sess) (o : Nat), o ∈ l →
    ∃ sd, (markFull s side l).sets side o = some sd ∧ sd.full = true
  | [], _, _, h => by cases h
  | x :: rest, s, o, h => by
    unfold markFull
    simp only
    by_cases hin : o ∈ rest
    · exact markFull_spec side rest _ o hin
    · have hx : o = x := by rcases List.mem_cons.1 h with h | h; exact h; exact absurd h hin
      subst hx
      obtain ⟨sd', h1, h2, _⟩ := markFull_full side rest (setS s side o ⟨((s.sets side o).getD ⟨[], false, none⟩).items, true,
        some ((s.sets side o).getD ⟨[], false, none⟩).items.length⟩) side o _ (setS_same _ _ _ _) rfl
      exact ⟨sd', h1, h2⟩

theorem loadColl_full (g : Guards) (hg : g.addChecks = true) (hl : g.loadSkipsFull = true) (s : Sess) (db : Db) (side : Bool) (o : Nat) :
    FullFrozen s (loadColl g s db side o).1 := by
  unfold loadColl
  simp only
  by_cases hf : ((s.sets side o).getD ⟨[], false, none⟩).full = true
  · simp only [hf, hl, Bool.and_self, if_true]; exact FullFrozen.refl s
  · have hff : ((s.sets side o).getD ⟨[], false, none⟩).full = false := by simpa using hf
    simp only [hff, Bool.false_and, Bool.false_eq_true, if_false]
    have h0 : FullFrozen s (setS s side o ((s.sets side o).getD ⟨[], false, none⟩)) := by
      apply FullFrozen.setS_keep
      intro sd0 h0 hf0
      simp only [h0, Option.getD_some] at hff
      rw [hff] at hf0; cases hf0
    have h1 := mergeOne_full g hg false (setS s side o ((s.sets side o).getD ⟨[], false, none⟩)) side o (linked db side o)
      (Or.inr (fun sd0 h => by rw [setS_same] at h; cases h; exact hff))
    split
    next s1 e heq => rw [heq] at h1; exact h0.trans h1
    next s1 heq => rw [heq] at h1; exact (h0.trans h1).trans (markFull_full side [o] s1)

/-- a successful load leaves the collection fully loaded; a fully loaded one is returned as it is -/
theorem loadColl_spec (g : Guards) (hl : g.loadSkipsFull = true) (s : Sess) (db : Db) (side : Bool) (o : Nat) :
    ((loadColl g s db side o).2 = none → ∃ sd, (loadColl g s db side o).1.sets side o = some sd ∧ sd.full = true) ∧
    (∀ sd, s.sets side o = some sd → sd.full = true → loadColl g s db side o = (s, none)) := by
  unfold loadColl
  simp only
  refine ⟨?_, fun sd hk hf => by simp [hk, hf, hl]⟩
  by_cases hf : ((s.sets side o).getD ⟨[], false, none⟩).full = true
  · simp only [hf, hl, Bool.and_self, if_true]
    intro _
    cases hk : s.sets side o with
    | none => simp [hk] at hf
    | some sd => exact ⟨sd, rfl, by simpa [hk] using hf⟩
  · have hff : ((s.sets side o).getD ⟨[], false, none⟩).full = false := by simpa using hf
    simp only [hff, Bool.false_and, Bool.false_eq_true, if_false]
    split
    · intro h; simp at h
    · intro _; exact markFull_spec side [o] _ o (by simp)

theorem mergeAll_full (g : Guards) (hg : g.addChecks = true) (hp : g.prefetchChecks = true) (db : Db) (side : Bool) :
    ∀ (l : List Nat) (s : Sess), FullFrozen s (mergeAll g db side s l).1
  | [], s => FullFrozen.refl s
  | o :: rest, s => by
    unfold mergeAll
    have h1 := mergeOne_full g hg g.prefetchChecks s side o (linked db side o) (Or.inl hp)
    split
    next s1 e heq => rw [heq] at h1; exact h1
    next s1 heq => rw [heq] at h1; exact h1.trans (mergeAll_full g hg hp db side rest s1)

theorem prefetch_full (g : Guards) (hg : g.addChecks = true) (hp : g.prefetchChecks = true) (s : Sess) (db : Db) (side : Bool)
    (objs : List Nat) : FullFrozen s (prefetch g s db side objs).1 := by
  unfold prefetch
  simp only
  have h1 := mergeAll_full g hg hp db side (if objs.length > 1 then objs.filter (fun o => !(linked db side o).isEmpty) else objs) s
  split
  next s1 e heq => rw [heq] at h1; exact h1
  next s1 heq => rw [heq] at h1; exact h1.trans (markFull_full side objs s1)

def AllGuards (g : Guards) : Prop := g.addChecks = true ∧ g.prefetchChecks = true ∧ g.loadSkipsFull = true

theorem exec_full (g : Guards) (hg : AllGuards g) (s : Sess) (db : Db) (op : Op) : FullFrozen s (exec g s db op).1 := by
  obtain ⟨h1, h2, h3⟩ := hg
  cases op with
  | load side o =>
    simp only [exec]
    have h := loadColl_full g h1 h3 s db side o
    split
    next s1 e heq => rw [heq] at h; exact h
    next s1 heq => rw [heq] at h; exact h
  | iter side o =>
    simp only [exec]
    have h := loadColl_full g h1 h3 s db side o
    split
    next s1 e heq => rw [heq] at h; exact h
    next s1 heq => rw [heq] at h; exact h
  | len side o =>
    simp only [exec]
    have h := loadColl_full g h1 h3 s db side o
    split
    next s1 e heq => rw [heq] at h; exact h
    next s1 heq => rw [heq] at h; exact h
  | prefetch side objs =>
    simp only [exec]
    have h := prefetch_full g h1 h2 s db side objs
    split
    next s1 e heq => rw [heq] at h; exact h
    next s1 heq => rw [heq] at h; exact h

theorem run_full (g : Guards) (hg : AllGuards g) : ∀ (tr : List (Db × Op)) (s : Sess), FullFrozen s (runS g s tr)
  | [], s => FullFrozen.refl s
  | (db, op) :: rest, s => by
    have h1 := exec_full g hg s db op
    have h2 := run_full g hg rest (exec g s db op).1
    simp only [runS, run] at h2 ⊢
    exact h1.trans h2

end PonyVerif.Model.CollRead
