/-
  Lemmas/RelCreate.lean — `Entity.__init__` (relationship part) preserves `Agree` and `Range`.
-/
import PonyVerif.Lemmas.RelSet
import PonyVerif.Lemmas.RelDelete
namespace PonyVerif.Model.Rel

theorem allAttrs_nodup (sch : Schema) : sch.allAttrs.Nodup := by
  unfold Schema.allAttrs
  generalize sch.length = n
  induction n with
  | zero => simp
  | succ n ih =>
    rw [List.range_succ, List.flatMap_append, List.nodup_append]
    refine ⟨ih, by simp, ?_⟩
    intro a ha b hb
    simp only [List.mem_flatMap, List.mem_range] at ha
    obtain ⟨i, hi, hai⟩ := ha
    simp at hai hb
    rcases hai with rfl | rfl <;> rcases hb with rfl | rfl <;> simp <;> omega

theorem attrsOf_nodup (sch : Schema) (e : EntId) : (sch.attrsOf e).Nodup :=
  List.Nodup.sublist List.filter_sublist (allAttrs_nodup sch)

theorem Store.setRef_self {s : Store} {o : ObjId} {a : Attr} {v : Option ObjId} (h : s.ref o a = v) : s.setRef o a v = s := by
  cases s with
  | mk n ent alive ref mem =>
    simp only [Store.setRef, Store.mk.injEq, true_and, and_true]
    funext o' a'
    split
    · rename_i hc; obtain ⟨rfl, rfl⟩ := hc; exact h.symm
    · rfl

section create
variable {sch : Schema}

theorem hasB_lt {s : Store} (hR : Range s) {p : ObjId} {b : Attr} {q : ObjId} (hp : p < s.n) (h : hasB sch s p b q = true) : q < s.n := by
  unfold hasB at h
  cases hb : sch.side b with
  | none => simp [hb] at h
  | some d =>
    simp only [hb] at h
    split at h
    · exact hR.2 p b q hp h
    · exact hR.1 p b q hp (by simpa using h)

@[simp] theorem Store.alloc_n (s : Store) (e : EntId) : (s.alloc e).n = s.n + 1 := rfl

theorem agree_alloc {s : Store} (e : EntId) (hA : Agree sch s) (hR : Range s) : Agree sch (s.alloc e) ∧ Range (s.alloc e) := by
  refine ⟨?_, ?_, ?_⟩
  · intro p b q hp hal hh
    rw [hasB_alloc] at hh ⊢
    rw [Store.alloc_n] at hp
    split at hh
    · cases hh
    · rename_i hpn
      have hp' : p < s.n := Nat.lt_of_le_of_ne (Nat.le_of_lt_succ hp) hpn
      have hal' : s.alive p = true := by
        have h2 : (if p = s.n then true else s.alive p) = true := hal
        rw [if_neg hpn] at h2; exact h2
      have hq := hasB_lt hR hp' hh
      rw [if_neg (Nat.ne_of_lt hq)]
      exact hA p b q hp' hal' hh
  · intro p b x hp hx
    rw [Store.alloc_n] at hp ⊢
    have hx' : (if p = s.n then none else s.ref p b) = some x := hx
    split at hx'
    · cases hx'
    · rename_i hpn
      exact Nat.lt_succ_of_lt (hR.1 p b x (Nat.lt_of_le_of_ne (Nat.le_of_lt_succ hp) hpn) hx')
  · intro p b x hp hx
    rw [Store.alloc_n] at hp ⊢
    have hx' : (if p = s.n then false else s.mem p b x) = true := hx
    split at hx'
    · cases hx'
    · rename_i hpn
      exact Nat.lt_succ_of_lt (hR.2 p b x (Nat.lt_of_le_of_ne (Nat.le_of_lt_succ hp) hpn) hx')

theorem valsOk_mem {s : Store} {e : EntId} : ∀ {vals : List (Attr × Val)}, valsOk sch s e vals = none →
    ∀ a v, (a, v) ∈ vals → match v with
      | .ref (some x) => x < s.n
      | .coll l => ∀ x ∈ l, x < s.n
      | _ => True := by
  intro vals
  induction vals with
  | nil => intro _ a v h; cases h
  | cons pv rest ih =>
    intro hok a v hmem
    obtain ⟨a', v'⟩ := pv
    unfold valsOk at hok
    split at hok
    · cases hok
    · split at hok
      · cases hok
      · simp only at hok
        split at hok
        · cases hok
        · rename_i hr
          rcases List.mem_cons.mp hmem with heq | hmem'
          · cases heq
            cases v with
            | ref w =>
              cases w with
              | none => trivial
              | some y =>
                simp only at hr ⊢
                split at hr
                · cases hr
                · split at hr
                  · assumption
                  · cases hr
            | coll l =>
              simp only at hr ⊢
              split at hr
              · split at hr
                · rename_i hall
                  simp only [List.all_eq_true, decide_eq_true_eq] at hall
                  exact hall
                · cases hr
              · cases hr
          · exact ih hok a v hmem'

theorem lookupRef_lt {s : Store} {e : EntId} {vals : List (Attr × Val)} (hok : valsOk sch s e vals = none)
    (a : Attr) (x : ObjId) (h : lookupRef vals a = some x) : x < s.n := by
  unfold lookupRef at h
  cases hf : vals.find? (fun p => p.1 == a) with
  | none => rw [hf] at h; cases h
  | some pv =>
    rw [hf] at h
    obtain ⟨a', v⟩ := pv
    have hm := List.mem_of_find?_eq_some hf
    cases v with
    | ref w =>
      simp only at h
      subst h
      exact valsOk_mem hok a' _ hm
    | coll l => simp at h

theorem lookupColl_lt {s : Store} {e : EntId} {vals : List (Attr × Val)} (hok : valsOk sch s e vals = none)
    (a : Attr) (x : ObjId) (h : x ∈ lookupColl vals a) : x < s.n := by
  unfold lookupColl at h
  cases hf : vals.find? (fun p => p.1 == a) with
  | none => rw [hf] at h; cases h
  | some pv =>
    rw [hf] at h
    obtain ⟨a', v⟩ := pv
    have hm := List.mem_of_find?_eq_some hf
    cases v with
    | ref w => simp at h
    | coll l =>
      simp only at h
      exact valsOk_mem hok a' _ hm x h

/-- `x` is one of the objects passed to the constructor call -/
def IsVal (vals : List (Attr × Val)) (x : ObjId) : Prop := ∃ a, lookupRef vals a = some x ∨ x ∈ lookupColl vals a

/-- `Entity.__init__` -/
theorem create_ok {fuel : Nat} {e : EntId} {vals : List (Attr × Val)} {st st' : St}
    (h : create sch fuel e vals st = .ok st') (hvals : valsOk sch st.store e vals = none)
    (hA : Agree sch st.store) (hR : Range st.store) :
    Agree sch st'.store ∧ Range st'.store ∧ st'.store.n = st.store.n + 1 ∧
      (∀ p, p < st.store.n → st'.store.ent p = st.store.ent p) ∧
      (∀ p b q, hasB sch st'.store p b q = true → hasB sch st.store p b q = true ∧ p ≠ st.store.n ∨
        (p = st.store.n ∧ IsVal vals q) ∨ (q = st.store.n ∧ IsVal vals p)) := by
  unfold create at h
  simp only at h
  split at h
  · cases h
  · have hdel := delete_spec (sch := sch) fuel
    obtain ⟨hA1, hR1⟩ := agree_alloc (sch := sch) e hA hR
    -- loop over the attributes, generalised over the remaining list
    have key : ∀ (rest : List Attr) (s1 s2 : St), rest.Nodup → (∀ a ∈ rest, a ∈ sch.attrsOf e) →
        Agree sch s1.store → Range s1.store → s1.store.n = st.store.n + 1 →
        (∀ a ∈ rest, ∀ y, hasB sch s1.store st.store.n a y = false) →
        iter (fun (a : Attr) (st1 : St) =>
          match sch.side a, sch.side (sch.rev a) with
          | some d, some rd =>
            if !d.isColl then
              updateReverse sch fuel d rd st.store.n a none (lookupRef vals a) (st1.setStore (st1.store.setRef st.store.n a (lookupRef vals a)))
            else setCollCore sch (fun x => delete sch fuel x) true st.store.n a (lookupColl vals a) st1
          | _, _ => .err .noSuchAttr st1) rest s1 = .ok s2 →
        Agree sch s2.store ∧ Range s2.store ∧ s2.store.n = st.store.n + 1 ∧ s2.store.ent = s1.store.ent ∧
          (∀ p b q, hasB sch s2.store p b q = true → hasB sch s1.store p b q = true ∨
            (p = st.store.n ∧ IsVal vals q) ∨ (q = st.store.n ∧ IsVal vals p)) := by
      intro rest
      induction rest with
      | nil => intro s1 s2 _ _ hA' hR' hn _ hi; simp at hi; cases hi; exact ⟨hA', hR', hn, rfl, fun _ _ _ h => Or.inl h⟩
      | cons a rest ih =>
        intro s1 s2 hnd hsub hA' hR' hn hfresh hi
        obtain ⟨s1', hstep, hrest⟩ := iter_cons_ok hi
        have hnd' := (List.nodup_cons.mp hnd)
        have hid : st.store.n < s1.store.n := by rw [hn]; exact Nat.lt_succ_self _
        -- one attribute
        have hone : Agree sch s1'.store ∧ Range s1'.store ∧ s1'.store.n = s1.store.n ∧ s1'.store.ent = s1.store.ent ∧
            (∀ p b q, hasB sch s1'.store p b q = true → hasB sch s1.store p b q = true ∨
              (p = st.store.n ∧ b = a ∧ q < st.store.n ∧ IsVal vals q) ∨ (q = st.store.n ∧ b = sch.rev a ∧ p < st.store.n ∧ IsVal vals p)) := by
          split at hstep
          · rename_i d rd hd hrd
            split at hstep
            · rename_i hcoll
              have hcoll' : d.isColl = false := by simpa using hcoll
              have hcell : s1.store.ref st.store.n a = none := by
                cases hc : s1.store.ref st.store.n a with
                | none => rfl
                | some y =>
                  have := hfresh a (by simp) y
                  rw [hasB_ref_eq hd hcoll', hc] at this
                  simp at this
              cases hv : lookupRef vals a with
              | none =>
                rw [hv] at hstep
                have hs : s1.setStore (s1.store.setRef st.store.n a none) = s1 := by
                  cases s1; simp only [St.setStore]; congr; exact Store.setRef_self hcell
                rw [hs] at hstep
                have : s1' = s1 := by
                  unfold updateReverse at hstep
                  split at hstep <;> simp [Res.bind] at hstep <;> exact hstep.symm
                rw [this]
                exact ⟨hA', hR', rfl, rfl, fun p b q hh => Or.inl hh⟩
              | some x =>
                rw [hv] at hstep
                have hx := lookupRef_lt hvals a x hv
                obtain ⟨g1, g2, g3, ge, g4⟩ := updateReverse_ok (s0 := s1.store) hdel hstep hd hcoll' hrd rfl hcell.symm
                  (by rw [hcell]; simp) hid (fun hc => absurd hcell hc) (fun y hy => by cases hy; rw [hn]; exact Nat.lt_succ_of_lt hx) hA' hR'
                refine ⟨g1, g2, g3, ge, ?_⟩
                intro p b q hh
                rcases g4 p b q hh with h' | ⟨h1, h2, h3⟩ | ⟨h1, h2, h3⟩
                · exact Or.inl h'
                · cases h3; exact Or.inr (Or.inl ⟨h1, h2, hx, a, Or.inl hv⟩)
                · cases h3; exact Or.inr (Or.inr ⟨h1, h2, hx, a, Or.inl hv⟩)
            · rename_i hcoll
              have hcoll' : d.isColl = true := by simpa using hcoll
              have hit := lookupColl_lt hvals a
              obtain ⟨g1, g2, g3, ge, g4⟩ := setCollCore_ok hdel hstep hd hcoll' hid (fun y hy => by rw [hn]; exact Nat.lt_succ_of_lt (hit y hy)) hA' hR'
              refine ⟨g1, g2, g3, ge, ?_⟩
              intro p b q hh
              rcases g4 p b q hh with h' | ⟨h1, h2, h3⟩ | ⟨h1, h2, h3⟩
              · exact Or.inl h'
              · exact Or.inr (Or.inl ⟨h1, h2, hit q h3, a, Or.inr h3⟩)
              · exact Or.inr (Or.inr ⟨h1, h2, hit p h3, a, Or.inr h3⟩)
          · cases hstep
        obtain ⟨g1, g2, g3, ge, g4⟩ := hone
        have hfresh' : ∀ a' ∈ rest, ∀ y, hasB sch s1'.store st.store.n a' y = false := by
          intro a' ha' y
          cases hh : hasB sch s1'.store st.store.n a' y with
          | false => rfl
          | true =>
            rcases g4 _ _ _ hh with h' | ⟨_, h2, _⟩ | ⟨h1, _, h3, _⟩
            · rw [hfresh a' (by simp [ha']) y] at h'; cases h'
            · rw [h2] at ha'; exact absurd ha' hnd'.1
            · exact absurd h3 (Nat.lt_irrefl _)
        obtain ⟨r1, r2, r3, re, r4⟩ := ih s1' s2 hnd'.2 (fun a' ha' => hsub a' (by simp [ha'])) g1 g2 (by rw [g3, hn]) hfresh' hrest
        refine ⟨r1, r2, r3, re.trans ge, ?_⟩
        intro p b q hh
        rcases r4 p b q hh with h' | h' | h'
        · rcases g4 p b q h' with h'' | ⟨h1, _, _, h4⟩ | ⟨h1, _, _, h4⟩
          · exact Or.inl h''
          · exact Or.inr (Or.inl ⟨h1, h4⟩)
          · exact Or.inr (Or.inr ⟨h1, h4⟩)
        · exact Or.inr (Or.inl h')
        · exact Or.inr (Or.inr h')
    obtain ⟨k1, k2, k3, ke, k4⟩ := key _ _ st' (attrsOf_nodup sch e) (fun a ha => ha) hA1 hR1 (by simp [Store.alloc]) (by
      intro a _ y
      simp only [St.log_store, St.setStore_store]
      rw [hasB_alloc]; simp) h
    refine ⟨k1, k2, k3, ?_, ?_⟩
    · intro p hp
      rw [ke]
      show (if p = st.store.n then e else st.store.ent p) = st.store.ent p
      exact if_neg (Nat.ne_of_lt hp)
    intro p b q hh
    rcases k4 p b q hh with h' | h' | h'
    · simp only [St.log_store, St.setStore_store] at h'
      rw [hasB_alloc] at h'
      split at h'
      · cases h'
      · rename_i hpn; exact Or.inl ⟨h', hpn⟩
    · exact Or.inr (Or.inl h')
    · exact Or.inr (Or.inr h')

end create
end PonyVerif.Model.Rel
