/-
  C34 — helper lemmas about `Model/Perm.lean`: closed forms of the loops, the cache invariant.
-/
import PonyVerif.Model.Perm
namespace PonyVerif.Model.Perm

/-! ### closed forms of the loops -/

def grantsEntity (ug : List String) (e : Nat) (r : Rule) : Bool := subset r.groups ug && !r.exclE.contains e
def grantsAttr (ug : List String) (e a : Nat) (r : Rule) : Bool :=
  subset r.groups ug && !r.exclE.contains e && !r.exclA.contains a
def grantsObj (ug ur ol : List String) (e : Nat) (r : Rule) : Bool :=
  !r.exclE.contains e && subset r.groups ug && subset r.roles ur && subset r.labels ol

theorem entityLoop_eq (ug : List String) (e : Nat) (rs : List Rule) :
    entityLoop ug e rs = rs.any (grantsEntity ug e) := by
  induction rs with
  | nil => rfl
  | cons r rs ih =>
    simp only [entityLoop, List.any_cons, grantsEntity, ih]
    cases h : (subset r.groups ug && !r.exclE.contains e) <;> simp

theorem reverseLoop_eq (ug : List String) (re ra : Nat) (rs : List Rule) :
    reverseLoop ug re ra rs = rs.any (grantsAttr ug re ra) := by
  induction rs with
  | nil => rfl
  | cons r rs ih =>
    simp only [reverseLoop, List.any_cons, grantsAttr, ih]
    cases h : (subset r.groups ug && !r.exclE.contains re && !r.exclA.contains ra) <;> simp

theorem objLoop_eq (ug ur ol : List String) (e : Nat) (rs : List Rule) :
    objLoop ug ur ol e rs = rs.any (grantsObj ug ur ol e) := by
  induction rs with
  | nil => rfl
  | cons r rs ih =>
    simp only [objLoop, List.any_cons, grantsObj, ih]
    cases h1 : r.exclE.contains e <;> cases h2 : subset r.groups ug <;> cases h3 : subset r.roles ur <;>
      cases h4 : subset r.labels ol <;> simp

/-- what the reverse side contributes: some rule of the reverse entity grants the reverse attribute -/
def reverseGrant (ug : List String) (reverse : Option (Nat × Nat)) (revRules : List Rule) : Bool :=
  match reverse with
  | none => false
  | some (ra, re) => revRules.any (grantsAttr ug re ra)

/-- the attribute loop: a forward rule grants the attribute, or there is at least one forward rule (whatever it says)
    and the reverse side grants the reverse attribute -/
theorem attrLoop_eq (ug : List String) (e a : Nat) (reverse : Option (Nat × Nat)) (rr rs : List Rule) :
    attrLoop ug e a reverse rr rs = (rs.any (grantsAttr ug e a) || (!rs.isEmpty && reverseGrant ug reverse rr)) := by
  induction rs with
  | nil => simp [attrLoop]
  | cons r rs ih =>
    cases hd : grantsAttr ug e a r
    · have hd' : (subset r.groups ug && !r.exclE.contains e && !r.exclA.contains a) = false := hd
      simp only [attrLoop, List.any_cons, List.isEmpty_cons, Bool.not_false, Bool.true_and, hd, hd',
        Bool.false_eq_true, if_false, Bool.false_or]
      cases reverse with
      | none => simp [ih, reverseGrant]
      | some p =>
        obtain ⟨ra, re⟩ := p
        simp only [ih, reverseGrant, reverseLoop_eq]
        cases hrr : rr with
        | nil => simp
        | cons r0 rr0 =>
          simp only [List.isEmpty_cons, Bool.false_eq_true, if_false]
          cases hg : (r0 :: rr0).any (grantsAttr ug re ra)
          · simp
          · simp
    · have hd' : (subset r.groups ug && !r.exclE.contains e && !r.exclA.contains a) = true := hd
      simp only [attrLoop, List.any_cons, hd, hd', if_true, Bool.true_or]

/-! ### the cache: every binding ever written has a key of the form `.perm _` -/

def CacheInv (c : Cache) : Prop := ∀ kv ∈ c, ∃ p, kv.1.2.2 = CKey.perm p

theorem cacheInv_nil : CacheInv [] := by intro kv h; cases h

theorem cache_miss (c : Cache) (h : CacheInv c) (u : User) (p : String) (x : Target) :
    c.get (u, p, .x x) = none := by
  unfold Cache.get
  rw [List.lookup_eq_none_iff]
  intro kv hkv
  obtain ⟨q, hq⟩ := h kv hkv
  obtain ⟨⟨ku, kp, kk⟩, v⟩ := kv
  simp only at hq
  subst hq
  simp

theorem cacheInv_set (c : Cache) (h : CacheInv c) (u : User) (p q : String) (v : Bool) :
    CacheInv (c.set (u, p, .perm q) v) := by
  intro kv hkv
  unfold Cache.set at hkv
  rcases List.mem_cons.mp hkv with rfl | h'
  · exact ⟨q, rfl⟩
  · exact h kv h'

/-- the answer of `has_perm` on a cold cache, without the cache plumbing -/
def hasPerm0 (env : Env) (user : User) (perm : String) (x : Target) : Bool :=
  if x.hidden then false
  else
    let ar := accessRules env.rules x.entityOf perm
    if ar.isEmpty then false else evalRules env user perm x ar

theorem hasPermC_of_inv (env : Env) (c : Cache) (h : CacheInv c) (u : User) (p : String) (x : Target) :
    (hasPermC env c u p x).1 = hasPerm0 env u p x ∧ CacheInv (hasPermC env c u p x).2 := by
  unfold hasPermC hasPerm0
  simp only [cache_miss c h]
  cases x.hidden
  · simp only [Bool.false_eq_true, if_false]
    cases hempty : (accessRules env.rules x.entityOf p).isEmpty
    · simp only [Bool.false_eq_true, if_false]
      exact ⟨trivial, cacheInv_set c h u p p _⟩
    · simp only [if_true]
      exact ⟨trivial, h⟩
  · simp only [if_true]
    exact ⟨trivial, h⟩

theorem hasPerm_eq (env : Env) (u : User) (p : String) (x : Target) : hasPerm env u p x = hasPerm0 env u p x :=
  (hasPermC_of_inv env [] cacheInv_nil u p x).1

theorem hasPermC_fst (env : Env) (c : Cache) (h : CacheInv c) (u : User) (p : String) (x : Target) :
    (hasPermC env c u p x).1 = hasPerm env u p x := by
  rw [hasPerm_eq]; exact (hasPermC_of_inv env c h u p x).1

theorem hasPermC_inv (env : Env) (c : Cache) (h : CacheInv c) (u : User) (p : String) (x : Target) :
    CacheInv (hasPermC env c u p x).2 := (hasPermC_of_inv env c h u p x).2

theorem canViewC_of_inv (env : Env) (c : Cache) (h : CacheInv c) (u : User) (x : Target) :
    (canViewC env c u x).1 = (hasPerm env u "view" x || hasPerm env u "edit" x) ∧ CacheInv (canViewC env c u x).2 := by
  unfold canViewC
  have h1 := hasPermC_fst env c h u "view" x
  have i1 := hasPermC_inv env c h u "view" x
  generalize hasPermC env c u "view" x = r1 at h1 i1
  obtain ⟨b, c1⟩ := r1
  simp only at h1 i1 ⊢
  cases b
  · have h2 := hasPermC_fst env c1 i1 u "edit" x
    have i2 := hasPermC_inv env c1 i1 u "edit" x
    simp only [Bool.false_eq_true, if_false]
    exact ⟨by rw [h2, ← h1]; simp, i2⟩
  · simp only [if_true]
    exact ⟨by rw [← h1]; simp, i1⟩

theorem canView_eq (env : Env) (u : User) (x : Target) :
    canView env u x = (hasPerm env u "view" x || hasPerm env u "edit" x) :=
  (canViewC_of_inv env [] cacheInv_nil u x).1

theorem canViewC_fst (env : Env) (c : Cache) (h : CacheInv c) (u : User) (x : Target) :
    (canViewC env c u x).1 = canView env u x := by
  rw [canView_eq]; exact (canViewC_of_inv env c h u x).1

theorem canViewC_inv (env : Env) (c : Cache) (h : CacheInv c) (u : User) (x : Target) :
    CacheInv (canViewC env c u x).2 := (canViewC_of_inv env c h u x).2

/-! ### the thread-local caches: within one session they hold what the getters answer in THAT session -/

private theorem lookup_mem' {α β : Type} [BEq α] [LawfulBEq α] (k : α) (v : β) (l : List (α × β)) (h : l.lookup k = some v) :
    (k, v) ∈ l := by
  induction l with
  | nil => simp [List.lookup] at h
  | cons p r ih =>
    obtain ⟨a, b⟩ := p
    simp only [List.lookup] at h
    cases hab : (k == a)
    · simp only [hab] at h; exact List.mem_cons_of_mem _ (ih h)
    · simp only [hab, Option.some.injEq] at h
      have : k = a := eq_of_beq hab
      subst this; subst h; exact List.mem_cons_self

def LInv (env : Env) (l : Local) : Prop :=
  (∀ kv ∈ l.groups, kv.2 = "anybody" :: env.groupsOf kv.1) ∧
  (∀ kv ∈ l.roles, kv.2 = (if env.userObj kv.1.1 = some kv.1.2 then ["self"] else []) ++ env.rolesOf kv.1.1 kv.1.2)

theorem lInv_empty (env : Env) (l : Local) (hg : l.groups = []) (hr : l.roles = []) : LInv env l := by
  constructor
  · intro kv h; rw [hg] at h; cases h
  · intro kv h; rw [hr] at h; cases h

theorem getUserGroupsL_inv (env : Env) (l : Local) (h : LInv env l) (u : User) :
    (getUserGroupsL env l u).1 = getUserGroups env u ∧ LInv env (getUserGroupsL env l u).2 := by
  cases u with
  | none => exact ⟨rfl, h⟩
  | some u =>
    cases hl : List.lookup u l.groups with
    | some r =>
      have := h.1 _ (lookup_mem' u r l.groups hl)
      simp only [getUserGroupsL, hl]
      exact ⟨this, h⟩
    | none =>
      simp only [getUserGroupsL, hl]
      refine ⟨rfl, ?_, h.2⟩
      intro kv hkv
      rcases List.mem_cons.mp hkv with rfl | h'
      · rfl
      · exact h.1 kv h'

theorem getUserRolesL_inv (env : Env) (l : Local) (h : LInv env l) (u : User) (o : Obj) :
    (getUserRolesL env l u o).1 = getUserRoles env u o ∧ LInv env (getUserRolesL env l u o).2 := by
  cases u with
  | none => exact ⟨rfl, h⟩
  | some u =>
    cases hl : List.lookup (u, o) l.roles with
    | some r =>
      have := h.2 _ (lookup_mem' (u, o) r l.roles hl)
      simp only [getUserRolesL, hl]
      exact ⟨this, h⟩
    | none =>
      simp only [getUserRolesL, hl]
      refine ⟨rfl, h.1, ?_⟩
      intro kv hkv
      rcases List.mem_cons.mp hkv with rfl | h'
      · rfl
      · exact h.2 kv h'

def LabInv (env : Env) (lc : List (Obj × List String)) : Prop := ∀ kv ∈ lc, kv.2 = env.labelsOf kv.1

theorem getObjectLabelsL_inv (env : Env) (lc : List (Obj × List String)) (h : LabInv env lc) (o : Obj) :
    (getObjectLabelsL env lc o).1 = getObjectLabels env o ∧ LabInv env (getObjectLabelsL env lc o).2 := by
  cases hl : List.lookup o lc with
  | some r =>
    have := h _ (lookup_mem' o r lc hl)
    simp only [getObjectLabelsL, hl]
    exact ⟨this, h⟩
  | none =>
    simp only [getObjectLabelsL, hl]
    refine ⟨rfl, ?_⟩
    intro kv hkv
    rcases List.mem_cons.mp hkv with rfl | h'
    · rfl
    · exact h kv h'

theorem hasPermS_inv (env : Env) (s : Sess) (hc : CacheInv s.perm) (hl : LInv env s.loc) (hb : LabInv env s.labels)
    (u : User) (p : String) (x : Target) :
    (hasPermS env s u p x).1 = hasPerm env u p x ∧ CacheInv (hasPermS env s u p x).2.perm ∧
      LInv env (hasPermS env s u p x).2.loc ∧ LabInv env (hasPermS env s u p x).2.labels := by
  rw [hasPerm_eq]
  unfold hasPermS hasPerm0
  simp only [cache_miss s.perm hc]
  cases x.hidden
  · simp only [Bool.false_eq_true, if_false]
    cases hempty : (accessRules env.rules x.entityOf p).isEmpty
    · simp only [Bool.false_eq_true, if_false]
      obtain ⟨g1, g2⟩ := getUserGroupsL_inv env s.loc hl u
      generalize getUserGroupsL env s.loc u = gr at g1 g2
      obtain ⟨ug, l1⟩ := gr
      simp only at g1 g2
      subst g1
      cases x with
      | entity e => exact ⟨rfl, cacheInv_set _ hc u p p _, g2, hb⟩
      | attr a => exact ⟨rfl, cacheInv_set _ hc u p p _, g2, hb⟩
      | obj o =>
        dsimp only
        obtain ⟨r1, r2⟩ := getUserRolesL_inv env l1 g2 u o
        generalize getUserRolesL env l1 u o = rr at r1 r2
        obtain ⟨ur, l2⟩ := rr
        simp only at r1 r2
        subst r1
        obtain ⟨b1, b2⟩ := getObjectLabelsL_inv env s.labels hb o
        generalize getObjectLabelsL env s.labels o = lr at b1 b2
        obtain ⟨ol, lab2⟩ := lr
        simp only at b1 b2
        subst b1
        exact ⟨rfl, cacheInv_set _ hc u p p _, r2, b2⟩
    · simp only [if_true]
      exact ⟨trivial, hc, hl, hb⟩
  · simp only [if_true]
    exact ⟨trivial, hc, hl, hb⟩

theorem runSessionCalls_inv (env : Env) (calls : List (User × String × Target)) :
    ∀ s : Sess, CacheInv s.perm → LInv env s.loc → LabInv env s.labels →
      (runSessionCalls env s calls).1 = calls.map (fun q => hasPerm env q.1 q.2.1 q.2.2) := by
  induction calls with
  | nil => intro s _ _ _; rfl
  | cons q rest ih =>
    intro s hc hl hb
    obtain ⟨u, p, x⟩ := q
    obtain ⟨h1, h2, h3, h4⟩ := hasPermS_inv env s hc hl hb u p x
    simp only [runSessionCalls, List.map_cons]
    rw [ih _ h2 h3 h4, h1]

/-! ### `subset`, `contains` as propositions -/

theorem subset_iff (a b : List String) : subset a b = true ↔ ∀ x ∈ a, x ∈ b := by
  simp [subset, List.all_eq_true]

end PonyVerif.Model.Perm
