/-
  C20 — invariants of the optimistic-concurrency model (PonyVerif/Model/Occ.lean), preserved by every step.
-/
import PonyVerif.Model.Occ
namespace PonyVerif.Model.Occ

/-! ### per-object invariant -/

/-- what links the ghost observation to the fields Pony keeps -/
def ObjInv (cfg : Cfg) (os : ObjSt) : Prop :=
  ∀ a, (os.wbits a = false → os.vals a = os.dbvals a)
     ∧ (os.wbits a = true → os.vals a ≠ none ∧ os.written a = true)
     ∧ (os.rbits a = true → os.dbvals a ≠ none ∧ cfg.volatile a = false)
     ∧ (∀ v, os.obs a = some v → cfg.volatile a = false ∧ os.rbits a = true ∧ os.dbvals a = some v)
     ∧ (os.written a = true → os.present = true)

theorem ObjInv_absent (cfg : Cfg) : ObjInv cfg ObjSt.absent := by
  intro a; simp [ObjSt.absent]

theorem ObjInv_new (cfg : Cfg) : ObjInv cfg ObjSt.new := by
  intro a; simp [ObjSt.new]

theorem ObjInv_read (cfg : Cfg) (os : ObjSt) (a : Attr) (v : Val) (hv : os.vals a = some v) (h : ObjInv cfg os) :
    ObjInv cfg (os.read cfg a) := by
  intro b
  have hb := h b
  unfold ObjSt.read
  by_cases hc : (!cfg.volatile a && !os.wbits a) = true
  · simp only [hc, if_true]
    simp only [Bool.and_eq_true, Bool.not_eq_true'] at hc
    by_cases hab : b = a
    · subst hab
      have h1 := hb.1 hc.2
      simp [hv] at h1
      refine ⟨hb.1, hb.2.1, ?_, ?_, hb.2.2.2.2⟩
      · intro _; simp [← h1, hc.1]
      · intro w hw; simp [hv] at hw; subst hw; simp [← h1, hc.1]
    · simp only [upd_other _ _ _ _ hab]; exact hb
  · simp only [hc]; exact hb

theorem ObjInv_write (cfg : Cfg) (os : ObjSt) (a : Attr) (v : Val) (hp : os.present = true) (h : ObjInv cfg os) :
    ObjInv cfg (os.write a v) := by
  intro b
  have hb := h b
  unfold ObjSt.write
  by_cases hab : b = a
  · subst hab
    simp only [upd_same]
    refine ⟨by simp, by simp, hb.2.2.1, hb.2.2.2.1, fun _ => hp⟩
  · simp only [upd_other _ _ _ _ hab]; exact hb

theorem any_false_of_mem {l : List Attr} {p : Attr → Bool} (h : l.any p = false) {a : Attr} (ha : a ∈ l) : p a = false := by
  cases hp : p a with
  | false => rfl
  | true => have : l.any p = true := List.any_eq_true.mpr ⟨a, ha, hp⟩; simp [h] at this

theorem ObjInv_dbSet (cfg : Cfg) (os os' : ObjSt) (row : Attr → Val) (as : List Attr)
    (hs : os.dbSet row as = some os') (h : ObjInv cfg os) : ObjInv cfg os' := by
  unfold ObjSt.dbSet at hs
  by_cases hany : (changed os row as).any os.rbits = true
  · simp [hany] at hs
  · simp only [hany] at hs
    simp only [Bool.not_eq_true] at hany
    have hs' := Option.some.inj hs
    subst hs'
    intro b
    have hb := h b
    by_cases hm : (changed os row as).contains b = true
    · have hmem : b ∈ changed os row as := by simpa using hm
      have hr : os.rbits b = false := any_false_of_mem hany hmem
      simp only [hm, if_true, Bool.true_and]
      refine ⟨?_, ?_, ?_, ?_, hb.2.2.2.2⟩
      · intro hw; simp [hw]
      · intro hw; simp only [hw, Bool.not_true]; exact hb.2.1 hw
      · intro hr'; simp [hr] at hr'
      · intro v hv; have := (hb.2.2.2.1 v hv).2.1; simp [hr] at this
    · simp only [hm]; simpa using hb

theorem dbSet_written (os os' : ObjSt) (row : Attr → Val) (as : List Attr) (hs : os.dbSet row as = some os') :
    os'.written = os.written ∧ os'.present = os.present ∧ os'.wbits = os.wbits ∧ os'.rbits = os.rbits ∧ os'.obs = os.obs := by
  unfold ObjSt.dbSet at hs
  by_cases hany : (changed os row as).any os.rbits = true
  · simp [hany] at hs
  · simp only [hany] at hs
    have hs' := Option.some.inj hs
    subst hs'; simp

theorem ObjInv_afterSave (cfg : Cfg) (os : ObjSt) (h : ObjInv cfg os) : ObjInv cfg (os.afterSave cfg) := by
  intro a
  have ha := h a
  obtain ⟨h1, h2, h3, h4, h5⟩ := ha
  unfold ObjSt.afterSave
  simp only
  refine ⟨?_, by simp, ?_, ?_, h5⟩
  · intro _
    cases hv : os.vals a with
    | none =>
      cases hw : os.wbits a with
      | false => have := h1 hw; simp [hv] at this; simp [← this]
      | true => exact absurd hv (h2 hw).1
    | some v =>
      cases hvol : cfg.volatile a with
      | true => simp
      | false =>
        cases hw : os.wbits a with
        | false => have := h1 hw; simp [hv] at this; simp [← this]
        | true => simp
  · intro hr
    cases hrb : os.rbits a with
    | true =>
      have := h3 hrb
      refine ⟨?_, this.2⟩
      cases hv : os.vals a with
      | none => simpa using this.1
      | some v =>
        simp only [this.2]
        cases hw : os.wbits a <;> simp [this.1]
    | false =>
      simp only [hrb, Bool.false_or, Bool.and_eq_true, Bool.not_eq_true'] at hr
      have hvn := (h2 hr.1).1
      refine ⟨?_, hr.2⟩
      cases hv : os.vals a with
      | none => exact absurd hv hvn
      | some v => simp [hr.1, hr.2]
  · intro v hv
    by_cases hc : (os.wbits a && !cfg.volatile a) = true
    · simp only [hc, if_true] at hv
      simp only [Bool.and_eq_true, Bool.not_eq_true'] at hc
      refine ⟨hc.2, by simp [hc.1, hc.2], ?_⟩
      simp [hv, hc.1, hc.2]
    · simp only [hc] at hv
      have := h4 v hv
      refine ⟨this.1, by simp [this.2.1], ?_⟩
      cases hvv : os.vals a with
      | none => simpa using this.2.2
      | some w =>
        simp only [this.1]
        cases hw : os.wbits a with
        | false => simpa using this.2.2
        | true => simp [hw, this.1] at hc

/-! ### pending writes -/

theorem lookupPend_append (l1 l2 : List (Obj × Attr × Val)) (o : Obj) (a : Attr) :
    lookupPend (l1 ++ l2) o a = match lookupPend l1 o a with | some v => some v | none => lookupPend l2 o a := by
  induction l1 with
  | nil => simp [lookupPend]
  | cons e r ih =>
    obtain ⟨o', a', v⟩ := e
    simp only [List.cons_append, lookupPend]
    by_cases hc : o' = o ∧ a' = a
    · simp [hc]
    · simp [hc, ih]

theorem lookupPend_newPend (o : Obj) (os : ObjSt) (wa : List Attr) (o' : Obj) (a : Attr)
    (h : lookupPend (newPend o os wa) o' a ≠ none) : o' = o ∧ a ∈ wa := by
  induction wa with
  | nil => simp [newPend, lookupPend] at h
  | cons b r ih =>
    unfold newPend at h ih
    simp only [List.filterMap_cons] at h
    cases hv : os.vals b with
    | none => simp only [hv, Option.map_none] at h; have := ih h; exact ⟨this.1, List.mem_cons_of_mem _ this.2⟩
    | some v =>
      simp only [hv, Option.map_some, lookupPend] at h
      by_cases hc : o = o' ∧ b = a
      · exact ⟨hc.1.symm, by simp [hc.2]⟩
      · simp only [hc, if_false] at h; have := ih h; exact ⟨this.1, List.mem_cons_of_mem _ this.2⟩

/-! ### session and global invariants -/

def SessInv (cfg : Cfg) (ss : Sess) : Prop :=
  (∀ o, ObjInv cfg (ss.objs o))
  ∧ (ss.inTxn = false → ss.pend = [])
  ∧ (∀ o a, lookupPend ss.pend o a ≠ none → (ss.objs o).written a = true)

def Inv (cfg : Cfg) (σ : State) : Prop :=
  (∀ s, SessInv cfg (σ.sess s)) ∧ (∀ s, (σ.sess s).inTxn = true ↔ σ.lock = some s)

theorem SessInv_fresh (cfg : Cfg) (s : Sid) : SessInv cfg (Sess.fresh cfg s) := by
  refine ⟨fun o => ObjInv_absent cfg, fun _ => rfl, ?_⟩
  intro o a h; simp [Sess.fresh, lookupPend] at h

theorem Inv_init (cfg : Cfg) (store : Obj → Attr → Val) : Inv cfg (State.init cfg store) := by
  refine ⟨fun s => SessInv_fresh cfg s, fun s => ?_⟩
  simp [State.init, Sess.fresh]

/-- replacing the cache of `s` by one with the same transaction flag -/
theorem Inv_withSess (cfg : Cfg) (σ : State) (s : Sid) (ss : Sess) (h : Inv cfg σ) (hs : SessInv cfg ss)
    (ht : ss.inTxn = (σ.sess s).inTxn) : Inv cfg (σ.withSess s ss) := by
  refine ⟨fun t => ?_, fun t => ?_⟩
  · by_cases hts : t = s
    · subst hts; simpa [State.withSess] using hs
    · simpa [State.withSess, upd_other _ _ _ _ hts] using h.1 t
  · by_cases hts : t = s
    · subst hts; simpa [State.withSess, ht] using h.2 t
    · simpa [State.withSess, upd_other _ _ _ _ hts] using h.2 t

theorem Inv_setImmediate (cfg : Cfg) (σ : State) (s : Sid) (h : Inv cfg σ) : Inv cfg (setImmediate σ s) := by
  refine Inv_withSess cfg σ s _ h ?_ ?_
  · exact h.1 s
  · rfl

theorem Inv_prepFlush (cfg : Cfg) (σ : State) (s : Sid) (h : Inv cfg σ) : Inv cfg (prepFlush σ s) := by
  refine Inv_withSess cfg σ s _ h ?_ ?_
  · exact h.1 s
  · rfl

theorem Inv_addQ (cfg : Cfg) (σ : State) (s : Sid) (a : Attr) (v : Val) (fu : Bool) (l : List Obj) (h : Inv cfg σ) :
    Inv cfg (addQ σ s a v fu l) := by
  refine Inv_withSess cfg σ s _ h ?_ ?_
  · exact h.1 s
  · rfl

theorem Inv_storeQ (cfg : Cfg) (σ : State) (s : Sid) (a : Attr) (v : Val) (fu : Bool) (l : List Obj) (h : Inv cfg σ) :
    Inv cfg (storeQ σ s a v fu l) := by
  unfold storeQ; split
  · exact h
  · exact Inv_addQ cfg σ s a v fu l h

theorem storeQ_facts (σ : State) (s : Sid) (a : Attr) (v : Val) (fu : Bool) (l : List Obj) :
    (storeQ σ s a v fu l).store = σ.store ∧ ((storeQ σ s a v fu l).sess s).objs = (σ.sess s).objs := by
  unfold storeQ; split
  · exact ⟨rfl, rfl⟩
  · simp [addQ, State.withSess]

theorem Inv_wake (cfg : Cfg) (σ : State) (s : Sid) (h : Inv cfg σ) : Inv cfg (wake σ s) := by
  refine Inv_withSess cfg σ s _ h ?_ ?_
  · exact h.1 s
  · rfl

theorem Inv_ensureTxn (cfg : Cfg) (σ : State) (s : Sid) (h : Inv cfg σ) : Inv cfg (ensureTxn σ s).1 := by
  unfold ensureTxn
  simp only
  by_cases hc : ((σ.sess s).immediate && !(σ.sess s).inTxn) = true
  · simp only [hc, if_true]
    by_cases hp : (σ.preLock.isSome && σ.preLock != some s) = true
    · simp only [hp, if_true]; exact h
    · simp only [hp]
      cases hl : σ.lock with
      | some t => exact ⟨h.1, by simpa [hl] using h.2⟩
      | none =>
        simp only
        refine ⟨fun t => ?_, fun t => ?_⟩
        · by_cases hts : t = s
          · subst hts
            have := h.1 t
            show SessInv cfg (upd σ.sess t _ t)
            rw [upd_same]
            exact ⟨this.1, by simp, this.2.2⟩
          · show SessInv cfg (upd σ.sess s _ t)
            rw [upd_other _ _ _ _ hts]; exact h.1 t
        · by_cases hts : t = s
          · subst hts
            show (upd σ.sess t _ t).inTxn = true ↔ some t = some t
            rw [upd_same]; simp
          · have := h.2 t
            simp only [hl] at this
            show (upd σ.sess s _ t).inTxn = true ↔ some s = some t
            rw [upd_other _ _ _ _ hts]
            constructor
            · intro ht; have := this.mp ht; simp at this
            · intro ht; have := Option.some.inj ht; exact absurd this.symm hts
  · simp only [hc]; exact h

theorem ensureTxn_sess (σ : State) (s : Sid) :
    ((ensureTxn σ s).1.sess s).objs = (σ.sess s).objs ∧ ((ensureTxn σ s).1.sess s).pend = (σ.sess s).pend
    ∧ ((ensureTxn σ s).1.sess s).forUpd = (σ.sess s).forUpd ∧ ((ensureTxn σ s).1.sess s).toSave = (σ.sess s).toSave
    ∧ (ensureTxn σ s).1.store = σ.store := by
  unfold ensureTxn
  simp only
  by_cases hc : ((σ.sess s).immediate && !(σ.sess s).inTxn) = true
  · simp only [hc, if_true]
    by_cases hp : (σ.preLock.isSome && σ.preLock != some s) = true
    · simp [hp]
    · simp only [hp]
      cases hl : σ.lock <;> simp
  · simp [hc]

theorem ensureTxn_inTxn (σ : State) (s : Sid) (hi : (σ.sess s).immediate = true) (hb : (ensureTxn σ s).2 = true) :
    ((ensureTxn σ s).1.sess s).inTxn = true := by
  unfold ensureTxn at hb ⊢
  simp only at hb ⊢
  cases ht : (σ.sess s).inTxn with
  | true => simp [ht]
  | false =>
    simp only [hi, ht, Bool.not_false, Bool.and_self, if_true] at hb ⊢
    by_cases hp : (σ.preLock.isSome && σ.preLock != some s) = true
    · simp [hp] at hb
    · simp only [hp] at hb ⊢
      cases hl : σ.lock with
      | some t => simp [hl] at hb
      | none => simp

theorem Inv_failSess (cfg : Cfg) (σ : State) (s : Sid) (h : Inv cfg σ) : Inv cfg (failSess cfg σ s) := by
  unfold failSess
  refine ⟨fun t => ?_, fun t => ?_⟩
  · by_cases hts : t = s
    · subst hts; simpa using SessInv_fresh cfg t
    · simpa [upd_other _ _ _ _ hts] using h.1 t
  · simp only
    by_cases hts : t = s
    · subst hts
      simp only [upd_same]
      cases hi : (σ.sess t).inTxn with
      | true => simp [Sess.fresh]
      | false =>
        have := h.2 t
        simp only [hi] at this
        simp only [Sess.fresh]
        constructor
        · intro hf; simp at hf
        · intro hl; have := this.mpr (by simpa using hl); simp at this
    · simp only [upd_other _ _ _ _ hts]
      cases hi : (σ.sess s).inTxn with
      | true =>
        have hls := (h.2 s).mp hi
        simp only [if_true]
        constructor
        · intro ht; have := (h.2 t).mp ht; rw [hls] at this; exact absurd (Option.some.inj this).symm hts
        · intro hn; simp at hn
      | false => simpa using h.2 t

theorem Inv_commitTxn (cfg : Cfg) (σ : State) (s : Sid) (h : Inv cfg σ) : Inv cfg (commitTxn σ s) := by
  unfold commitTxn
  simp only
  have hs := h.1 s
  have hss : SessInv cfg { σ.sess s with inTxn := false, pend := [], forUpd := fun _ => false, immediate := true, qcache := [] } := by
    refine ⟨hs.1, fun _ => rfl, ?_⟩
    intro o a hl; simp [lookupPend] at hl
  cases hi : (σ.sess s).inTxn with
  | false =>
    simp only [Bool.false_eq_true, if_false]
    exact Inv_withSess cfg σ s _ h hss (by simp [hi])
  | true =>
    simp only [if_true]
    have hls := (h.2 s).mp hi
    refine ⟨fun t => ?_, fun t => ?_⟩
    · by_cases hts : t = s
      · subst hts; simpa [State.withSess] using hss
      · simpa [State.withSess, upd_other _ _ _ _ hts] using h.1 t
    · by_cases hts : t = s
      · subst hts; simp [State.withSess]
      · simp only [State.withSess, upd_other _ _ _ _ hts]
        constructor
        · intro ht; have := (h.2 t).mp ht; rw [hls] at this; exact absurd (Option.some.inj this).symm hts
        · intro hn; simp at hn

theorem Inv_saveHead (cfg : Cfg) (σ : State) (s : Sid) (o : Obj) (rest : List Obj) (done : Res) (h : Inv cfg σ) :
    Inv cfg (saveHead cfg σ s o rest done).1 := by
  unfold saveHead
  simp only
  by_cases hw : (wAttrs cfg ((σ.sess s).objs o)).isEmpty = true
  · simp only [hw, if_true]
    refine Inv_withSess cfg σ s _ h ?_ (by rfl)
    have hs := h.1 s
    refine ⟨fun o' => ?_, hs.2.1, ?_⟩
    · by_cases ho : o' = o
      · subst ho; simpa using ObjInv_afterSave cfg _ (hs.1 o')
      · simpa [upd_other _ _ _ _ ho] using hs.1 o'
    · intro o' a hl
      have := hs.2.2 o' a hl
      by_cases ho : o' = o
      · subst ho; simpa [ObjSt.afterSave] using this
      · simpa [upd_other _ _ _ _ ho] using this
  · simp only [hw]
    have h1 : Inv cfg (ensureTxn (prepFlush σ s) s).1 := Inv_ensureTxn cfg _ s (Inv_prepFlush cfg σ s h)
    by_cases hb : (ensureTxn (prepFlush σ s) s).2 = true
    · simp only [hb, Bool.not_true, Bool.false_eq_true, if_false]
      generalize critCols cfg s (((ensureTxn (prepFlush σ s) s).1.sess s).forUpd o) ((σ.sess s).objs o) = cols
      by_cases hk : keyMissing ((σ.sess s).objs o) cols (wAttrs cfg ((σ.sess s).objs o)) = true
      · simp only [hk, if_true]; exact Inv_failSess cfg _ s h1
      · simp only [hk]
        by_cases hall : whereOk (ensureTxn (prepFlush σ s) s).1 s o ((σ.sess s).objs o) cols = true
        · simp only [hall, if_true]
          -- applied
          have himm : ((prepFlush σ s).sess s).immediate = true := by simp [prepFlush, State.withSess]
          have hin := ensureTxn_inTxn (prepFlush σ s) s himm hb
          have he := ensureTxn_sess (prepFlush σ s) s
          refine Inv_withSess cfg _ s _ h1 ?_ (by simp [hin])
          have hs := h1.1 s
          have hobjs : (σ.sess s).objs = ((ensureTxn (prepFlush σ s) s).1.sess s).objs := by
            rw [he.1]; simp [prepFlush, State.withSess]
          refine ⟨fun o' => ?_, by simp [hin], ?_⟩
          · by_cases ho : o' = o
            · subst ho
              simp only [upd_same]
              have := hs.1 o'
              rw [← hobjs] at this
              exact ObjInv_afterSave cfg _ this
            · simpa [upd_other _ _ _ _ ho] using hs.1 o'
          · intro o' a hl
            simp only [lookupPend_append] at hl
            have hwr : ∀ a, ((σ.sess s).objs o).wbits a = true → ((σ.sess s).objs o).written a = true := by
              intro a ha
              have := (hs.1 o a).2.1
              rw [← hobjs] at this
              exact (this ha).2
            cases hnp : lookupPend (newPend o ((σ.sess s).objs o) (wAttrs cfg ((σ.sess s).objs o))) o' a with
            | some v =>
              have := lookupPend_newPend o _ _ o' a (by rw [hnp]; simp)
              obtain ⟨rfl, hm⟩ := this
              simp only [upd_same]
              have hwa : ((σ.sess s).objs o').wbits a = true := by
                have := List.mem_filter.mp hm
                exact this.2
              simpa [ObjSt.afterSave] using hwr a hwa
            | none =>
              simp only [hnp] at hl
              have := hs.2.2 o' a hl
              by_cases ho : o' = o
              · subst ho
                simp only [upd_same]
                rw [← hobjs] at this
                simpa [ObjSt.afterSave] using this
              · simpa [upd_other _ _ _ _ ho] using this
        · simp only [hall]; exact Inv_failSess cfg _ s h1
    · simp only [hb]; simpa using h1

theorem Inv_query (cfg : Cfg) (σ : State) (s : Sid) (imm : Bool) (k : State → State × Out)
    (hk : ∀ σ1, Inv cfg σ1 → Inv cfg (k σ1).1) (h : Inv cfg σ) : Inv cfg (query cfg σ s imm k).1 := by
  unfold query
  split
  · exact Inv_saveHead cfg σ s _ _ _ h
  · simp only
    have h0 : Inv cfg (setImmIf σ s imm) := by
      cases imm
      · simpa [setImmIf] using h
      · simpa [setImmIf] using Inv_setImmediate cfg σ s h
    have h1 := Inv_ensureTxn cfg _ s h0
    by_cases hb : (ensureTxn (setImmIf σ s imm) s).2 = true
    · simp only [hb, Bool.not_true, Bool.false_eq_true, if_false]; exact hk _ h1
    · simp only [hb]; simpa using h1

theorem Inv_fetchRow (cfg : Cfg) (σ σ2 : State) (s : Sid) (o : Obj) (as : List Attr) (fu : Bool)
    (hf : fetchRow σ s o as fu = some σ2) (h : Inv cfg σ) : Inv cfg σ2 := by
  unfold fetchRow at hf
  simp only at hf
  split at hf
  · simp at hf
  · rename_i os2 hds
    have hf' := Option.some.inj hf
    subst hf'
    refine Inv_withSess cfg σ s _ h ?_ (by rfl)
    have hs := h.1 s
    have hw := dbSet_written _ _ _ _ hds
    refine ⟨fun o' => ?_, hs.2.1, ?_⟩
    · by_cases ho : o' = o
      · subst ho
        simp only [upd_same]
        apply ObjInv_dbSet cfg _ _ _ _ hds
        split
        · exact hs.1 o'
        · exact ObjInv_new cfg
      · simpa [upd_other _ _ _ _ ho] using hs.1 o'
    · intro o' a hl
      have hwr := hs.2.2 o' a hl
      by_cases ho : o' = o
      · subst ho
        simp only [upd_same, hw.1]
        have hp := (hs.1 o' a).2.2.2.2 hwr
        simp [hp, hwr]
      · simpa [upd_other _ _ _ _ ho] using hwr

theorem Inv_getAttr (cfg : Cfg) (σ : State) (s : Sid) (o : Obj) (a : Attr) (f : Val → Val) (h : Inv cfg σ) :
    Inv cfg (getAttr cfg σ s o a f).1 := by
  unfold getAttr
  simp only
  split
  · exact Inv_failSess cfg σ s h
  · rename_i v hv
    refine Inv_withSess cfg σ s _ h ?_ (by rfl)
    have hs := h.1 s
    refine ⟨fun o' => ?_, hs.2.1, ?_⟩
    · by_cases ho : o' = o
      · subst ho; simpa using ObjInv_read cfg _ a v hv (hs.1 o')
      · simpa [upd_other _ _ _ _ ho] using hs.1 o'
    · intro o' b hl
      have := hs.2.2 o' b hl
      by_cases ho : o' = o
      · subst ho
        simp only [upd_same]
        unfold ObjSt.read; split <;> simpa using this
      · simpa [upd_other _ _ _ _ ho] using this

theorem Inv_loadAttr (cfg : Cfg) (s : Sid) (o : Obj) (a : Attr) (f : Val → Val) (σ1 : State) (h : Inv cfg σ1) :
    Inv cfg (loadAttr cfg s o a f σ1).1 := by
  unfold loadAttr
  split
  · exact Inv_failSess cfg σ1 s h
  · rename_i σ2 hf
    exact Inv_getAttr cfg σ2 s o a f (Inv_fetchRow cfg σ1 σ2 s o _ false hf h)

theorem Inv_findInDb (cfg : Cfg) (s : Sid) (o : Obj) (a : Attr) (v : Val) (σ1 : State) (h : Inv cfg σ1) :
    Inv cfg (findInDb cfg s o a v σ1).1 := by
  unfold findInDb
  split
  · split
    · exact Inv_failSess cfg σ1 s h
    · rename_i σ2 hf
      have h2 := Inv_fetchRow cfg σ1 σ2 s o _ false hf h
      split
      · exact Inv_getAttr cfg σ2 s o a _ h2
      · exact h2
  · exact h

theorem Inv_markOne (cfg : Cfg) (σ : State) (s : Sid) (o : Obj) (a : Attr) (h : Inv cfg σ) : Inv cfg (markOne cfg σ s o a) := by
  unfold markOne
  simp only
  split
  · rename_i hv
    obtain ⟨v, hv'⟩ := Option.isSome_iff_exists.mp hv
    refine Inv_withSess cfg σ s _ h ?_ (by rfl)
    have hs := h.1 s
    refine ⟨fun o' => ?_, hs.2.1, ?_⟩
    · by_cases ho : o' = o
      · subst ho; simpa using ObjInv_read cfg _ a v hv' (hs.1 o')
      · simpa [upd_other _ _ _ _ ho] using hs.1 o'
    · intro o' b hl
      have := hs.2.2 o' b hl
      by_cases ho : o' = o
      · subst ho
        simp only [upd_same]
        unfold ObjSt.read; split <;> simpa using this
      · simpa [upd_other _ _ _ _ ho] using this
  · exact h

theorem Inv_markRows (cfg : Cfg) (s : Sid) (a : Attr) (l : List Obj) : ∀ σ, Inv cfg σ → Inv cfg (markRows cfg s a l σ) := by
  induction l with
  | nil => intro σ h; exact h
  | cons o r ih => intro σ h; exact ih _ (Inv_markOne cfg σ s o a h)

theorem Inv_fetchRows (cfg : Cfg) (s : Sid) (as : List Attr) (fu : Bool) (l : List Obj) :
    ∀ σ σ2, fetchRows s as fu l σ = some σ2 → Inv cfg σ → Inv cfg σ2 := by
  induction l with
  | nil => intro σ σ2 hf h; simp [fetchRows] at hf; subst hf; exact h
  | cons o r ih =>
    intro σ σ2 hf h
    simp only [fetchRows] at hf
    split at hf
    · simp at hf
    · rename_i σ' hf1
      exact ih σ' σ2 hf (Inv_fetchRow cfg σ σ' s o as fu hf1 h)

theorem Inv_selectInDb (cfg : Cfg) (s : Sid) (a : Attr) (v : Val) (fu : Bool) (σ1 : State) (h : Inv cfg σ1) :
    Inv cfg (selectInDb cfg s a v fu σ1).1 := by
  unfold selectInDb
  split
  · exact h
  · simp only
    split
    · exact Inv_failSess cfg σ1 s h
    · rename_i σ2 hf
      exact Inv_storeQ cfg _ s a v fu _ (Inv_markRows cfg s a _ σ2 (Inv_fetchRows cfg s _ fu _ σ1 σ2 hf h))

theorem Inv_step (cfg : Cfg) (σ : State) (s : Sid) (act : Action) (h : Inv cfg σ) : Inv cfg (step cfg σ s act).1 := by
  cases act with
  | get o fu =>
    simp only [step]
    have hw := Inv_wake cfg σ s h
    split
    · exact hw
    · apply Inv_query cfg _ s fu _ _ hw
      intro σ1 h1
      split
      · exact Inv_failSess cfg σ1 s h1
      · rename_i σ2 hf; exact Inv_fetchRow cfg σ1 σ2 s o _ fu hf h1
  | fetch o as =>
    simp only [step]
    apply Inv_query cfg _ s false _ _ (Inv_wake cfg σ s h)
    intro σ1 h1
    split
    · exact Inv_failSess cfg σ1 s h1
    · rename_i σ2 hf; exact Inv_fetchRow cfg σ1 σ2 s o _ false hf h1
  | read o a =>
    simp only [step]
    split
    · exact h
    · split
      · exact Inv_getAttr cfg σ s o a _ h
      · exact Inv_query cfg _ s false _ (Inv_loadAttr cfg s o a _) h
  | find o a v =>
    simp only [step]
    have hw := Inv_wake cfg σ s h
    split
    · split
      · exact Inv_getAttr cfg _ s o a _ hw
      · exact Inv_query cfg _ s false _ (Inv_loadAttr cfg s o a _) hw
    · exact Inv_query cfg _ s false _ (Inv_findInDb cfg s o a v) hw
  | select a v fu =>
    simp only [step]
    exact Inv_query cfg _ s fu _ (Inv_selectInDb cfg s a v fu) (Inv_wake cfg σ s h)
  | write o a v =>
    simp only [step]
    split
    · exact h
    · rename_i hp
      simp only [Bool.not_eq_true, Bool.not_eq_false'] at hp
      have hp' : ((σ.sess s).objs o).present = true := by simpa using hp
      refine Inv_withSess cfg σ s _ h ?_ (by rfl)
      have hs := h.1 s
      refine ⟨fun o' => ?_, hs.2.1, ?_⟩
      · by_cases ho : o' = o
        · subst ho; simpa using ObjInv_write cfg _ a v hp' (hs.1 o')
        · simpa [upd_other _ _ _ _ ho] using hs.1 o'
      · intro o' b hl
        have := hs.2.2 o' b hl
        by_cases ho : o' = o
        · subst ho
          simp only [upd_same, ObjSt.write]
          by_cases hb : b = a
          · subst hb; simp
          · simpa [upd_other _ _ _ _ hb] using this
        · simpa [upd_other _ _ _ _ ho] using this
  | flush =>
    simp only [step]
    split
    · exact h
    · exact Inv_saveHead cfg σ s _ _ _ h
  | commit =>
    simp only [step]
    split
    · exact Inv_saveHead cfg σ s _ _ _ h
    · split
      · exact Inv_commitTxn cfg σ s h
      · exact h
  | close =>
    simp only [step]
    split
    · exact Inv_saveHead cfg σ s _ _ _ h
    · have hc := Inv_commitTxn cfg σ s h
      apply Inv_withSess cfg _ s _ hc (SessInv_fresh cfg s)
      simp [commitTxn, State.withSess, Sess.fresh]
  | rollback =>
    simp only [step]
    exact Inv_failSess cfg σ s h

theorem Inv_run (cfg : Cfg) (sched : List (Sid × Action)) (σ : State) (h : Inv cfg σ) : Inv cfg (run cfg σ sched) := by
  induction sched generalizing σ with
  | nil => exact h
  | cons e r ih =>
    obtain ⟨s, a⟩ := e
    simp only [run]
    exact ih _ (Inv_step cfg σ s a h)

/-! ### what an applied / refused UPDATE means -/

theorem setImmediate_sess (σ : State) (s : Sid) :
    ((setImmediate σ s).sess s).objs = (σ.sess s).objs ∧ ((setImmediate σ s).sess s).pend = (σ.sess s).pend
    ∧ ((setImmediate σ s).sess s).forUpd = (σ.sess s).forUpd ∧ ((setImmediate σ s).sess s).toSave = (σ.sess s).toSave
    ∧ (setImmediate σ s).store = σ.store := by
  simp [setImmediate, State.withSess]

theorem prepFlush_sess (σ : State) (s : Sid) :
    ((prepFlush σ s).sess s).objs = (σ.sess s).objs ∧ ((prepFlush σ s).sess s).pend = (σ.sess s).pend
    ∧ ((prepFlush σ s).sess s).forUpd = (σ.sess s).forUpd ∧ ((prepFlush σ s).sess s).toSave = (σ.sess s).toSave
    ∧ (prepFlush σ s).store = σ.store := by
  simp [prepFlush, State.withSess]

theorem setImmIf_sess (σ : State) (s : Sid) (imm : Bool) :
    ((setImmIf σ s imm).sess s).objs = (σ.sess s).objs ∧ ((setImmIf σ s imm).sess s).pend = (σ.sess s).pend
    ∧ ((setImmIf σ s imm).sess s).forUpd = (σ.sess s).forUpd ∧ ((setImmIf σ s imm).sess s).toSave = (σ.sess s).toSave
    ∧ (setImmIf σ s imm).store = σ.store := by
  cases imm <;> simp [setImmIf, setImmediate, State.withSess]

theorem wake_sess (σ : State) (s : Sid) :
    ((wake σ s).sess s).objs = (σ.sess s).objs ∧ ((wake σ s).sess s).pend = (σ.sess s).pend
    ∧ ((wake σ s).sess s).forUpd = (σ.sess s).forUpd ∧ ((wake σ s).sess s).toSave = (σ.sess s).toSave
    ∧ (wake σ s).store = σ.store := by
  simp [wake, State.withSess]

theorem view_congr (σ σ' : State) (s : Sid) (o : Obj) (a : Attr) (hp : (σ'.sess s).pend = (σ.sess s).pend)
    (hs : σ'.store = σ.store) : view σ' s o a = view σ s o a := by
  simp [view, hp, hs]

theorem view_prep (σ : State) (s : Sid) (o : Obj) (a : Attr) :
    view (ensureTxn (prepFlush σ s) s).1 s o a = view σ s o a := by
  have he := ensureTxn_sess (prepFlush σ s) s
  have hi := prepFlush_sess σ s
  exact view_congr _ _ s o a (by rw [he.2.1, hi.2.1]) (by rw [he.2.2.2.2, hi.2.2.2.2])

/-- the WHERE clause Pony generated was true of the row its connection saw -/
def WhereHeld (cfg : Cfg) (σ : State) (s : Sid) (o : Obj) : Prop :=
  ∀ a, a ∈ cfg.attrs → cfg.sessOpt s = true → (σ.sess s).forUpd o = false →
    ((σ.sess s).objs o).rbits a = true → cfg.attrOpt a = true → ((σ.sess s).objs o).dbvals a = some (view σ s o a)

theorem forUpd_prep (σ : State) (s : Sid) : ((ensureTxn (prepFlush σ s) s).1.sess s).forUpd = (σ.sess s).forUpd := by
  rw [(ensureTxn_sess _ s).2.2.1, (prepFlush_sess σ s).2.2.1]

theorem store_prep (σ : State) (s : Sid) : (ensureTxn (prepFlush σ s) s).1.store = σ.store := by
  rw [(ensureTxn_sess _ s).2.2.2.2, (prepFlush_sess σ s).2.2.2.2]

theorem saveHead_applied (cfg : Cfg) (σ : State) (s : Sid) (o' : Obj) (rest : List Obj) (done : Res) (o : Obj)
    (h : (saveHead cfg σ s o' rest done).2.upd = some o) : o' = o ∧ WhereHeld cfg σ s o := by
  unfold saveHead at h
  simp only at h
  by_cases hw : (wAttrs cfg ((σ.sess s).objs o')).isEmpty = true
  · simp [hw] at h
  · simp only [hw] at h
    by_cases hb : (ensureTxn (prepFlush σ s) s).2 = true
    · simp only [hb, Bool.not_true, Bool.false_eq_true, if_false] at h
      rw [forUpd_prep] at h
      by_cases hk : keyMissing ((σ.sess s).objs o') (critCols cfg s ((σ.sess s).forUpd o') ((σ.sess s).objs o'))
          (wAttrs cfg ((σ.sess s).objs o')) = true
      · simp [hk] at h
      · simp only [hk] at h
        by_cases hall : whereOk (ensureTxn (prepFlush σ s) s).1 s o' ((σ.sess s).objs o')
            (critCols cfg s ((σ.sess s).forUpd o') ((σ.sess s).objs o')) = true
        · simp only [hall, if_true] at h
          have ho : o' = o := Option.some.inj h
          subst ho
          refine ⟨rfl, ?_⟩
          intro a ha hopt hf hr hao
          simp only [whereOk, critCols, hopt, hf, Bool.not_false, Bool.and_self, if_true] at hall
          have hm : a ∈ optCols cfg ((σ.sess s).objs o') := by
            unfold optCols; exact List.mem_filter.mpr ⟨ha, by simp [hr, hao]⟩
          have := List.all_eq_true.mp hall a hm
          rw [view_prep] at this
          simpa using this
        · simp only [hall] at h; simp at h
    · simp [hb] at h

theorem saveHead_store (cfg : Cfg) (σ : State) (s : Sid) (o : Obj) (rest : List Obj) (done : Res) :
    (saveHead cfg σ s o rest done).1.store = σ.store := by
  have hst := store_prep σ s
  unfold saveHead
  simp only
  by_cases hw : (wAttrs cfg ((σ.sess s).objs o)).isEmpty = true
  · simp only [hw, if_true]; rfl
  · simp only [hw]
    by_cases hb : (ensureTxn (prepFlush σ s) s).2 = true
    · simp only [hb, Bool.not_true, Bool.false_eq_true, if_false]
      generalize critCols cfg s (((ensureTxn (prepFlush σ s) s).1.sess s).forUpd o) ((σ.sess s).objs o) = cols
      by_cases hk : keyMissing ((σ.sess s).objs o) cols (wAttrs cfg ((σ.sess s).objs o)) = true
      · simp only [hk, if_true]; simpa [failSess] using hst
      · simp only [hk]
        by_cases hall : whereOk (ensureTxn (prepFlush σ s) s).1 s o ((σ.sess s).objs o) cols = true
        · simp only [hall, if_true]; simpa [State.withSess] using hst
        · simp only [hall]; simpa [failSess] using hst
    · simp only [hb]; simpa using hst

theorem failSess_sess (cfg : Cfg) (σ : State) (s : Sid) : (failSess cfg σ s).sess s = Sess.fresh cfg s := by
  simp [failSess]

/-- when a step of `saveHead` raises, the session is gone (rolled back) -/
theorem saveHead_failed (cfg : Cfg) (σ : State) (s : Sid) (o : Obj) (rest : List Obj) (done : Res)
    (hd : done.failed = false) (h : (saveHead cfg σ s o rest done).2.res.failed = true) :
    (saveHead cfg σ s o rest done).1.sess s = Sess.fresh cfg s ∧ (saveHead cfg σ s o rest done).2.upd = none := by
  unfold saveHead at h ⊢
  simp only at h ⊢
  by_cases hw : (wAttrs cfg ((σ.sess s).objs o)).isEmpty = true
  · simp [hw, hd] at h
  · simp only [hw] at h ⊢
    by_cases hb : (ensureTxn (prepFlush σ s) s).2 = true
    · simp only [hb, Bool.not_true, Bool.false_eq_true, if_false] at h ⊢
      generalize critCols cfg s (((ensureTxn (prepFlush σ s) s).1.sess s).forUpd o) ((σ.sess s).objs o) = cols at h ⊢
      by_cases hk : keyMissing ((σ.sess s).objs o) cols (wAttrs cfg ((σ.sess s).objs o)) = true
      · simp only [hk, if_true]; exact ⟨failSess_sess cfg _ s, trivial⟩
      · simp only [hk] at h ⊢
        by_cases hall : whereOk (ensureTxn (prepFlush σ s) s).1 s o ((σ.sess s).objs o) cols = true
        · simp [hall, hd] at h
        · simp only [hall, Bool.false_eq_true, if_false]; exact ⟨failSess_sess cfg _ s, trivial⟩
    · simp [hb, Res.failed] at h

theorem keyMissing_false (cfg : Cfg) (os : ObjSt) (s : Sid) (locked : Bool) (hO : ObjInv cfg os) :
    keyMissing os (critCols cfg s locked os) (wAttrs cfg os) = false := by
  unfold keyMissing
  rw [Bool.or_eq_false_iff]
  constructor
  · rw [List.any_eq_false]
    intro a ha
    unfold critCols at ha
    split at ha
    · have := (List.mem_filter.mp ha).2
      simp only [Bool.and_eq_true] at this
      have := ((hO a).2.2.1 this.1).1
      cases hv : os.dbvals a <;> simp_all
    · simp at ha
  · rw [List.any_eq_false]
    intro a ha
    have := (List.mem_filter.mp ha).2
    have := ((hO a).2.1 this).1
    cases hv : os.vals a <;> simp_all

theorem saveHead_no_keyError (cfg : Cfg) (σ : State) (s : Sid) (o : Obj) (rest : List Obj) (done : Res)
    (hi : Inv cfg σ) (hd : done ≠ .keyError) : (saveHead cfg σ s o rest done).2.res ≠ .keyError := by
  have hO := (hi.1 s).1 o
  unfold saveHead
  simp only
  by_cases hw : (wAttrs cfg ((σ.sess s).objs o)).isEmpty = true
  · simp only [hw, if_true]; exact hd
  · simp only [hw]
    by_cases hb : (ensureTxn (prepFlush σ s) s).2 = true
    · simp only [hb, Bool.not_true, Bool.false_eq_true, if_false]
      simp only [keyMissing_false cfg _ s _ hO, Bool.false_eq_true, if_false]
      by_cases hall : whereOk (ensureTxn (prepFlush σ s) s).1 s o ((σ.sess s).objs o)
          (critCols cfg s (((ensureTxn (prepFlush σ s) s).1.sess s).forUpd o) ((σ.sess s).objs o)) = true
      · simp only [hall, if_true]; exact hd
      · simp only [hall]; simp
    · simp [hb]

/-- the refusal: a read attribute whose row value differs from `_dbvals_` makes the UPDATE match no row -/
theorem saveHead_refused (cfg : Cfg) (σ : State) (s : Sid) (o : Obj) (rest : List Obj) (done : Res) (a : Attr) (v : Val)
    (hi : Inv cfg σ) (hopt : cfg.sessOpt s = true) (hfu : (σ.sess s).forUpd o = false) (ha : a ∈ cfg.attrs)
    (hao : cfg.attrOpt a = true) (hr : ((σ.sess s).objs o).rbits a = true) (hdv : ((σ.sess s).objs o).dbvals a = some v)
    (hne : view σ s o a ≠ v) (hw : wAttrs cfg ((σ.sess s).objs o) ≠ []) :
    ((saveHead cfg σ s o rest done).2.res = .blocked ∨ (saveHead cfg σ s o rest done).2.res = .optimisticCheckError)
    ∧ (saveHead cfg σ s o rest done).2.upd = none := by
  have hO := (hi.1 s).1 o
  unfold saveHead
  simp only
  have hwe : (wAttrs cfg ((σ.sess s).objs o)).isEmpty = false := by
    cases hl : wAttrs cfg ((σ.sess s).objs o) with
    | nil => exact absurd hl hw
    | cons _ _ => rfl
  simp only [hwe, Bool.false_eq_true, if_false]
  by_cases hb : (ensureTxn (prepFlush σ s) s).2 = true
  · simp only [hb, Bool.not_true, Bool.false_eq_true, if_false]
    simp only [keyMissing_false cfg _ s _ hO, Bool.false_eq_true, if_false]
    have hall : whereOk (ensureTxn (prepFlush σ s) s).1 s o ((σ.sess s).objs o)
        (critCols cfg s (((ensureTxn (prepFlush σ s) s).1.sess s).forUpd o) ((σ.sess s).objs o)) = false := by
      rw [forUpd_prep]
      simp only [whereOk, critCols, hopt, hfu, Bool.not_false, Bool.and_self, if_true]
      rw [List.all_eq_false]
      refine ⟨a, ?_, ?_⟩
      · unfold optCols; exact List.mem_filter.mpr ⟨ha, by simp [hr, hao]⟩
      · rw [view_prep, hdv]
        simp only [beq_iff_eq, Option.some.injEq]
        exact fun h => hne h.symm
    simp [hall]
  · simp [hb]

/-! ### step-level consequences -/

theorem WhereHeld_wake (cfg : Cfg) (σ : State) (s : Sid) (o : Obj) (h : WhereHeld cfg (wake σ s) s o) : WhereHeld cfg σ s o := by
  have hw := wake_sess σ s
  intro a ha hopt hf hr hao
  have := h a ha hopt (by rw [hw.2.2.1]; exact hf) (by rw [hw.1]; exact hr) hao
  rw [hw.1, view_congr σ (wake σ s) s o a hw.2.1 hw.2.2.2.2] at this
  exact this

theorem query_applied (cfg : Cfg) (σ : State) (s : Sid) (imm : Bool) (k : State → State × Out) (o : Obj)
    (hk : ∀ σ1, (k σ1).2.upd = none) (h : (query cfg σ s imm k).2.upd = some o) :
    (∃ rest, (σ.sess s).toSave = o :: rest) ∧ WhereHeld cfg σ s o := by
  unfold query at h
  split at h
  · rename_i o' rest hts
    have := saveHead_applied cfg σ s o' rest .flushing o h
    exact ⟨⟨rest, by rw [hts, this.1]⟩, this.2⟩
  · simp only at h
    split at h
    · simp at h
    · rw [hk] at h; simp at h

theorem fetchK_upd (cfg : Cfg) (s : Sid) (o : Obj) (as : List Attr) (fu : Bool) (σ1 : State) :
    (match fetchRow σ1 s o as fu with
      | none => (failSess cfg σ1 s, (⟨.unrepeatableRead, none⟩ : Out))
      | some σ2 => (σ2, okOut)).2.upd = none := by
  split <;> rfl

theorem getAttr_facts (cfg : Cfg) (σ : State) (s : Sid) (o : Obj) (a : Attr) (f : Val → Val) :
    (getAttr cfg σ s o a f).2.upd = none ∧ (getAttr cfg σ s o a f).1.store = σ.store
    ∧ ((getAttr cfg σ s o a f).2.res.failed = true → (getAttr cfg σ s o a f).1.sess s = Sess.fresh cfg s) := by
  unfold getAttr
  simp only
  split
  · exact ⟨rfl, rfl, fun _ => by simp [failSess]⟩
  · exact ⟨rfl, rfl, fun h => by simp [Res.failed] at h⟩

theorem fetchRow_store' (σ σ2 : State) (s : Sid) (o : Obj) (as : List Attr) (fu : Bool)
    (h : fetchRow σ s o as fu = some σ2) : σ2.store = σ.store := by
  unfold fetchRow at h
  simp only at h
  split at h
  · simp at h
  · have := Option.some.inj h; subst this; rfl

theorem loadAttr_facts (cfg : Cfg) (s : Sid) (o : Obj) (a : Attr) (f : Val → Val) (σ1 : State) :
    (loadAttr cfg s o a f σ1).2.upd = none ∧ (loadAttr cfg s o a f σ1).1.store = σ1.store
    ∧ ((loadAttr cfg s o a f σ1).2.res.failed = true → (loadAttr cfg s o a f σ1).1.sess s = Sess.fresh cfg s) := by
  unfold loadAttr
  split
  · exact ⟨rfl, rfl, fun _ => by simp [failSess]⟩
  · rename_i σ2 hf
    have hg := getAttr_facts cfg σ2 s o a f
    exact ⟨hg.1, hg.2.1.trans (fetchRow_store' σ1 σ2 s o _ false hf), hg.2.2⟩

theorem findInDb_facts (cfg : Cfg) (s : Sid) (o : Obj) (a : Attr) (v : Val) (σ1 : State) :
    (findInDb cfg s o a v σ1).2.upd = none ∧ (findInDb cfg s o a v σ1).1.store = σ1.store
    ∧ ((findInDb cfg s o a v σ1).2.res.failed = true → (findInDb cfg s o a v σ1).1.sess s = Sess.fresh cfg s) := by
  unfold findInDb
  split
  · split
    · exact ⟨rfl, rfl, fun _ => by simp [failSess]⟩
    · rename_i σ2 hf
      have hst := fetchRow_store' σ1 σ2 s o _ false hf
      split
      · have hg := getAttr_facts cfg σ2 s o a (fun _ => 1)
        exact ⟨hg.1, hg.2.1.trans hst, hg.2.2⟩
      · exact ⟨rfl, hst, fun h => by simp [Res.failed] at h⟩
  · exact ⟨rfl, rfl, fun h => by simp [Res.failed] at h⟩

theorem markOne_store (cfg : Cfg) (σ : State) (s : Sid) (o : Obj) (a : Attr) : (markOne cfg σ s o a).store = σ.store := by
  unfold markOne; simp only; split <;> rfl

theorem markRows_store (cfg : Cfg) (s : Sid) (a : Attr) (l : List Obj) : ∀ σ, (markRows cfg s a l σ).store = σ.store := by
  induction l with
  | nil => intro σ; rfl
  | cons o r ih => intro σ; exact (ih _).trans (markOne_store cfg σ s o a)

theorem fetchRows_store (s : Sid) (as : List Attr) (fu : Bool) (l : List Obj) :
    ∀ σ σ2, fetchRows s as fu l σ = some σ2 → σ2.store = σ.store := by
  induction l with
  | nil => intro σ σ2 hf; simp [fetchRows] at hf; subst hf; rfl
  | cons o r ih =>
    intro σ σ2 hf
    simp only [fetchRows] at hf
    split at hf
    · simp at hf
    · rename_i σ' hf1
      exact (ih σ' σ2 hf).trans (fetchRow_store' σ σ' s o as fu hf1)

theorem selectInDb_facts (cfg : Cfg) (s : Sid) (a : Attr) (v : Val) (fu : Bool) (σ1 : State) :
    (selectInDb cfg s a v fu σ1).2.upd = none ∧ (selectInDb cfg s a v fu σ1).1.store = σ1.store
    ∧ ((selectInDb cfg s a v fu σ1).2.res.failed = true → (selectInDb cfg s a v fu σ1).1.sess s = Sess.fresh cfg s) := by
  unfold selectInDb
  split
  · exact ⟨rfl, rfl, fun h => by simp [Res.failed] at h⟩
  · simp only
    split
    · exact ⟨rfl, rfl, fun _ => by simp [failSess]⟩
    · rename_i σ2 hf
      refine ⟨rfl, ?_, fun h => by simp [Res.failed] at h⟩
      exact ((storeQ_facts _ s a v fu _).1.trans (markRows_store cfg s a _ σ2)).trans (fetchRows_store s _ fu _ σ1 σ2 hf)

theorem step_applied (cfg : Cfg) (σ : State) (s : Sid) (act : Action) (o : Obj)
    (h : (step cfg σ s act).2.upd = some o) : (∃ rest, (σ.sess s).toSave = o :: rest) ∧ WhereHeld cfg σ s o := by
  cases act with
  | get o' fu =>
    simp only [step] at h
    split at h
    · simp [okOut] at h
    · have := query_applied cfg (wake σ s) s fu _ o (fetchK_upd cfg s o' _ fu) h
      exact ⟨by simpa [(wake_sess σ s).2.2.2.1] using this.1, WhereHeld_wake cfg σ s o this.2⟩
  | fetch o' as =>
    simp only [step] at h
    have := query_applied cfg (wake σ s) s false _ o (fetchK_upd cfg s o' _ false) h
    exact ⟨by simpa [(wake_sess σ s).2.2.2.1] using this.1, WhereHeld_wake cfg σ s o this.2⟩
  | read o' a =>
    simp only [step] at h
    split at h
    · simp at h
    · split at h
      · rw [(getAttr_facts cfg σ s o' a _).1] at h; simp at h
      · exact query_applied cfg σ s false _ o (fun σ1 => (loadAttr_facts cfg s o' a _ σ1).1) h
  | find o' a v =>
    simp only [step] at h
    have hwk : ∀ k, (∀ σ1, (k σ1).2.upd = none) → (query cfg (wake σ s) s false k).2.upd = some o →
        (∃ rest, (σ.sess s).toSave = o :: rest) ∧ WhereHeld cfg σ s o := by
      intro k hk hq
      have := query_applied cfg (wake σ s) s false k o hk hq
      exact ⟨by simpa [(wake_sess σ s).2.2.2.1] using this.1, WhereHeld_wake cfg σ s o this.2⟩
    split at h
    · split at h
      · rw [(getAttr_facts cfg _ s o' a _).1] at h; simp at h
      · exact hwk _ (fun σ1 => (loadAttr_facts cfg s o' a _ σ1).1) h
    · exact hwk _ (fun σ1 => (findInDb_facts cfg s o' a v σ1).1) h
  | select a v fu =>
    simp only [step] at h
    have := query_applied cfg (wake σ s) s fu _ o (fun σ1 => (selectInDb_facts cfg s a v fu σ1).1) h
    exact ⟨by simpa [(wake_sess σ s).2.2.2.1] using this.1, WhereHeld_wake cfg σ s o this.2⟩
  | write o' a v =>
    simp only [step] at h
    split at h <;> simp [okOut] at h
  | flush =>
    simp only [step] at h
    split at h
    · simp [okOut] at h
    · rename_i o' rest hts
      have := saveHead_applied cfg σ s o' rest _ o h
      exact ⟨⟨rest, by rw [hts, this.1]⟩, this.2⟩
  | commit =>
    simp only [step] at h
    split at h
    · rename_i o' rest hts
      have := saveHead_applied cfg σ s o' rest _ o h
      exact ⟨⟨rest, by rw [hts, this.1]⟩, this.2⟩
    · split at h <;> simp [okOut] at h
  | close =>
    simp only [step] at h
    split at h
    · rename_i o' rest hts
      have := saveHead_applied cfg σ s o' rest _ o h
      exact ⟨⟨rest, by rw [hts, this.1]⟩, this.2⟩
    · simp [okOut] at h
  | rollback => simp [step, okOut] at h

theorem fetchRow_store (σ σ2 : State) (s : Sid) (o : Obj) (as : List Attr) (fu : Bool)
    (h : fetchRow σ s o as fu = some σ2) : σ2.store = σ.store := by
  unfold fetchRow at h
  simp only at h
  split at h
  · simp at h
  · have := Option.some.inj h; subst this; rfl

theorem failSess_store (cfg : Cfg) (σ : State) (s : Sid) : (failSess cfg σ s).store = σ.store := rfl

theorem query_store (cfg : Cfg) (σ : State) (s : Sid) (imm : Bool) (k : State → State × Out)
    (hk : ∀ σ1, (k σ1).1.store = σ1.store) : (query cfg σ s imm k).1.store = σ.store := by
  unfold query
  split
  · exact saveHead_store cfg σ s _ _ _
  · simp only
    have he : (ensureTxn (setImmIf σ s imm) s).1.store = σ.store := by
      rw [(ensureTxn_sess _ s).2.2.2.2]
      exact (setImmIf_sess σ s imm).2.2.2.2
    split
    · exact he
    · rw [hk, he]

theorem fetchK_store (cfg : Cfg) (s : Sid) (o : Obj) (as : List Attr) (fu : Bool) (σ1 : State) :
    (match fetchRow σ1 s o as fu with
      | none => (failSess cfg σ1 s, (⟨.unrepeatableRead, none⟩ : Out))
      | some σ2 => (σ2, okOut)).1.store = σ1.store := by
  split
  · rfl
  · rename_i σ2 hf; exact fetchRow_store σ1 σ2 s o as fu hf

/-- committed rows change only in the COMMIT step of a session whose flush is complete, and then to what that session saw -/
theorem step_store (cfg : Cfg) (σ : State) (s : Sid) (act : Action) :
    (step cfg σ s act).1.store = σ.store ∨
    ((σ.sess s).toSave = [] ∧ (σ.sess s).inTxn = true ∧ (step cfg σ s act).2.res = .ok none ∧
      (step cfg σ s act).1.store = fun o a => view σ s o a) := by
  cases act with
  | get o fu =>
    left
    simp only [step]
    split
    · exact (wake_sess σ s).2.2.2.2
    · exact (query_store cfg _ s fu _ (fetchK_store cfg s o _ fu)).trans (wake_sess σ s).2.2.2.2
  | fetch o as =>
    left
    simp only [step]
    exact (query_store cfg _ s false _ (fetchK_store cfg s o _ false)).trans (wake_sess σ s).2.2.2.2
  | read o a =>
    left
    simp only [step]
    split
    · rfl
    · split
      · exact (getAttr_facts cfg σ s o a _).2.1
      · exact query_store cfg σ s false _ (fun σ1 => (loadAttr_facts cfg s o a _ σ1).2.1)
  | find o a v =>
    left
    simp only [step]
    have hw := (wake_sess σ s).2.2.2.2
    split
    · split
      · exact (getAttr_facts cfg _ s o a _).2.1.trans hw
      · exact (query_store cfg _ s false _ (fun σ1 => (loadAttr_facts cfg s o a _ σ1).2.1)).trans hw
    · exact (query_store cfg _ s false _ (fun σ1 => (findInDb_facts cfg s o a v σ1).2.1)).trans hw
  | select a v fu =>
    left
    simp only [step]
    exact (query_store cfg _ s fu _ (fun σ1 => (selectInDb_facts cfg s a v fu σ1).2.1)).trans (wake_sess σ s).2.2.2.2
  | write o a v =>
    left
    simp only [step]
    split <;> rfl
  | flush =>
    left
    simp only [step]
    split
    · rfl
    · exact saveHead_store cfg σ s _ _ _
  | commit =>
    simp only [step]
    split
    · left; exact saveHead_store cfg σ s _ _ _
    · rename_i hts
      split
      · cases hi : (σ.sess s).inTxn with
        | false => left; simp [commitTxn, hi, State.withSess]
        | true => right; exact ⟨hts, rfl, rfl, by simp [commitTxn, hi, State.withSess]⟩
      · left; rfl
  | close =>
    simp only [step]
    split
    · left; exact saveHead_store cfg σ s _ _ _
    · rename_i hts
      cases hi : (σ.sess s).inTxn with
      | false => left; simp [commitTxn, hi, State.withSess]
      | true => right; exact ⟨hts, rfl, rfl, by simp [commitTxn, hi, State.withSess]⟩
  | rollback => left; rfl

theorem query_failed (cfg : Cfg) (σ : State) (s : Sid) (imm : Bool) (k : State → State × Out)
    (hk : ∀ σ1, (k σ1).2.res.failed = true → (k σ1).1.sess s = Sess.fresh cfg s)
    (h : (query cfg σ s imm k).2.res.failed = true) : (query cfg σ s imm k).1.sess s = Sess.fresh cfg s := by
  unfold query at h ⊢
  split
  · rename_i o rest hts
    simp only [hts] at h
    exact (saveHead_failed cfg σ s o rest .flushing rfl h).1
  · rename_i hts
    simp only [hts] at h ⊢
    split
    · rename_i hb; simp [hb, Res.failed] at h
    · rename_i hb
      simp only [hb] at h
      exact hk _ h

theorem fetchK_failed (cfg : Cfg) (s : Sid) (o : Obj) (as : List Attr) (fu : Bool) (σ1 : State)
    (_h : (match fetchRow σ1 s o as fu with
      | none => (failSess cfg σ1 s, (⟨.unrepeatableRead, none⟩ : Out))
      | some σ2 => (σ2, okOut)).2.res.failed = true) :
    (match fetchRow σ1 s o as fu with
      | none => (failSess cfg σ1 s, (⟨.unrepeatableRead, none⟩ : Out))
      | some σ2 => (σ2, okOut)).1.sess s = Sess.fresh cfg s := by
  split at _h
  · exact failSess_sess cfg σ1 s
  · simp [okOut, Res.failed] at _h

/-- an optimistic-check / repeatable-read error ends the session: its cache is discarded (rollback) -/
theorem step_failed (cfg : Cfg) (σ : State) (s : Sid) (act : Action) (h : (step cfg σ s act).2.res.failed = true) :
    (step cfg σ s act).1.sess s = Sess.fresh cfg s := by
  cases act with
  | get o fu =>
    simp only [step] at h ⊢
    split
    · rename_i hc; simp [hc, okOut, Res.failed] at h
    · rename_i hc
      simp only [hc] at h
      exact query_failed cfg _ s fu _ (fetchK_failed cfg s o _ fu) h
  | fetch o as =>
    simp only [step] at h ⊢
    exact query_failed cfg _ s false _ (fetchK_failed cfg s o _ false) h
  | read o a =>
    simp only [step] at h ⊢
    split
    · rename_i hc; simp [hc, Res.failed] at h
    · rename_i hc
      simp only [hc] at h
      split
      · rename_i hv
        simp only [hv, if_true] at h
        exact (getAttr_facts cfg σ s o a _).2.2 h
      · rename_i hv
        simp only [hv] at h
        exact query_failed cfg σ s false _ (fun σ1 => (loadAttr_facts cfg s o a _ σ1).2.2) h
  | find o a v =>
    simp only [step] at h ⊢
    split
    · rename_i hc
      simp only [hc, if_true] at h
      split
      · rename_i hv
        simp only [hv, if_true] at h
        exact (getAttr_facts cfg _ s o a _).2.2 h
      · rename_i hv
        simp only [hv] at h
        exact query_failed cfg _ s false _ (fun σ1 => (loadAttr_facts cfg s o a _ σ1).2.2) h
    · rename_i hc
      simp only [hc] at h
      exact query_failed cfg _ s false _ (fun σ1 => (findInDb_facts cfg s o a v σ1).2.2) h
  | select a v fu =>
    simp only [step] at h ⊢
    exact query_failed cfg _ s fu _ (fun σ1 => (selectInDb_facts cfg s a v fu σ1).2.2) h
  | write o a v =>
    simp only [step] at h
    split at h <;> simp [okOut, Res.failed] at h
  | flush =>
    simp only [step] at h ⊢
    split
    · rename_i hts; simp [hts, okOut, Res.failed] at h
    · rename_i o rest hts
      simp only [hts] at h
      refine (saveHead_failed cfg σ s o rest _ ?_ h).1
      split <;> rfl
  | commit =>
    simp only [step] at h ⊢
    split
    · rename_i o rest hts
      simp only [hts] at h
      exact (saveHead_failed cfg σ s o rest _ rfl h).1
    · rename_i hts
      simp only [hts] at h
      split at h <;> simp [okOut, Res.failed] at h
  | close =>
    simp only [step] at h ⊢
    split
    · rename_i o rest hts
      simp only [hts] at h
      exact (saveHead_failed cfg σ s o rest _ rfl h).1
    · rename_i hts
      simp [hts, okOut, Res.failed] at h
  | rollback => simp [step, okOut, Res.failed] at h

/-! ### the ghost observation is the value the application received -/

theorem saveHead_res (cfg : Cfg) (σ : State) (s : Sid) (o : Obj) (rest : List Obj) (done : Res) :
    (saveHead cfg σ s o rest done).2.res = done ∨ (saveHead cfg σ s o rest done).2.res = .blocked
    ∨ (saveHead cfg σ s o rest done).2.res = .keyError ∨ (saveHead cfg σ s o rest done).2.res = .optimisticCheckError := by
  unfold saveHead
  simp only
  by_cases hw : (wAttrs cfg ((σ.sess s).objs o)).isEmpty = true
  · simp [hw]
  · simp only [hw]
    by_cases hb : (ensureTxn (prepFlush σ s) s).2 = true
    · simp only [hb, Bool.not_true, Bool.false_eq_true, if_false]
      generalize critCols cfg s (((ensureTxn (prepFlush σ s) s).1.sess s).forUpd o) ((σ.sess s).objs o) = cols
      by_cases hk : keyMissing ((σ.sess s).objs o) cols (wAttrs cfg ((σ.sess s).objs o)) = true
      · simp [hk]
      · simp only [hk]
        by_cases hall : whereOk (ensureTxn (prepFlush σ s) s).1 s o ((σ.sess s).objs o) cols = true
        · simp [hall]
        · simp [hall]
    · simp [hb]

theorem query_ok (cfg : Cfg) (σ : State) (s : Sid) (imm : Bool) (k : State → State × Out) (w : Option Val)
    (h : (query cfg σ s imm k).2.res = .ok w) : query cfg σ s imm k = k (ensureTxn (setImmIf σ s imm) s).1 := by
  unfold query at h ⊢
  split
  · rename_i o rest hts
    simp only [hts] at h
    rcases saveHead_res cfg σ s o rest .flushing with h1 | h1 | h1 | h1 <;> rw [h1] at h <;> simp at h
  · rename_i hts
    simp only [hts] at h ⊢
    split
    · rename_i hb; simp [hb] at h
    · rfl

theorem getAttr_obs (cfg : Cfg) (σ : State) (s : Sid) (o : Obj) (a : Attr) (f : Val → Val) (v : Val)
    (h : (getAttr cfg σ s o a f).2.res = .ok (some v)) (hw : ((σ.sess s).objs o).wbits a = false)
    (hvol : cfg.volatile a = false) :
    ∃ x, f x = v ∧ (((getAttr cfg σ s o a f).1.sess s).objs o).obs a = some x := by
  unfold getAttr at h ⊢
  simp only at h ⊢
  split
  · rename_i hv; simp [hv] at h
  · rename_i x hv
    simp only [hv] at h
    refine ⟨x, by simpa using h, ?_⟩
    simp [State.withSess, ObjSt.read, hw, hvol, hv]

theorem fetchRow_wbits (σ σ2 : State) (s : Sid) (o : Obj) (as : List Attr) (fu : Bool) (a : Attr)
    (h : fetchRow σ s o as fu = some σ2) (hw : ((σ.sess s).objs o).wbits a = false) :
    ((σ2.sess s).objs o).wbits a = false := by
  unfold fetchRow at h
  simp only at h
  split at h
  · simp at h
  · rename_i os2 hds
    have := Option.some.inj h; subst this
    have hwb := (dbSet_written _ _ _ _ hds).2.2.1
    simp only [State.withSess, upd_same, hwb]
    split
    · exact hw
    · rfl

theorem loadAttr_obs (cfg : Cfg) (s : Sid) (o : Obj) (a : Attr) (f : Val → Val) (σ1 : State) (v : Val)
    (h : (loadAttr cfg s o a f σ1).2.res = .ok (some v)) (hw : ((σ1.sess s).objs o).wbits a = false)
    (hvol : cfg.volatile a = false) :
    ∃ x, f x = v ∧ (((loadAttr cfg s o a f σ1).1.sess s).objs o).obs a = some x := by
  unfold loadAttr at h ⊢
  split
  · rename_i hf; simp [hf] at h
  · rename_i σ2 hf
    simp only [hf] at h
    exact getAttr_obs cfg σ2 s o a f v h (fetchRow_wbits σ1 σ2 s o _ false a hf hw) hvol

/-- `obj.a` returned `v` while the session had no unflushed assignment to `a`: `v` is recorded as the observation -/
theorem read_obs (cfg : Cfg) (σ : State) (s : Sid) (o : Obj) (a : Attr) (v : Val)
    (h : (step cfg σ s (.read o a)).2.res = .ok (some v)) (hw : ((σ.sess s).objs o).wbits a = false)
    (hvol : cfg.volatile a = false) : (((step cfg σ s (.read o a)).1.sess s).objs o).obs a = some v := by
  simp only [step] at h ⊢
  split
  · rename_i hc; simp [hc] at h
  · rename_i hc
    simp only [hc] at h
    split
    · rename_i hv
      simp only [hv, if_true] at h
      obtain ⟨x, hx, hobs⟩ := getAttr_obs cfg σ s o a id v h hw hvol
      simpa [← hx] using hobs
    · rename_i hv
      simp only [hv] at h
      have hq := query_ok cfg σ s false _ _ h
      rw [hq] at h ⊢
      have hobjs : (((ensureTxn (setImmIf σ s false) s).1.sess s).objs o).wbits a = false := by
        rw [(ensureTxn_sess _ s).1, (setImmIf_sess σ s false).1]; exact hw
      obtain ⟨x, hx, hobs⟩ := loadAttr_obs cfg s o a id _ v h hobjs hvol
      simpa [← hx] using hobs

theorem getAttr_obs' (cfg : Cfg) (σ : State) (s : Sid) (o : Obj) (a : Attr) (f : Val → Val) (w : Val)
    (h : (getAttr cfg σ s o a f).2.res = .ok (some w)) (hw : ((σ.sess s).objs o).wbits a = false)
    (hvol : cfg.volatile a = false) :
    ∃ x, ((σ.sess s).objs o).vals a = some x ∧ f x = w ∧ (((getAttr cfg σ s o a f).1.sess s).objs o).obs a = some x := by
  unfold getAttr at h ⊢
  simp only at h ⊢
  split
  · rename_i hv; simp [hv] at h
  · rename_i x hv
    simp only [hv] at h
    refine ⟨x, hv, by simpa using h, ?_⟩
    simp [State.withSess, ObjSt.read, hw, hvol, hv]

/-- a row fetched into a NEW instance: every listed attribute gets the value the connection saw -/
theorem fetchRow_new (σ σ2 : State) (s : Sid) (o : Obj) (as : List Attr) (fu : Bool) (a : Attr)
    (h : fetchRow σ s o as fu = some σ2) (hp : ((σ.sess s).objs o).present = false) :
    ((σ2.sess s).objs o).wbits a = false ∧
    (a ∈ as → ((σ2.sess s).objs o).vals a = some (view σ s o a)) := by
  unfold fetchRow at h
  simp only [hp, Bool.false_eq_true, if_false] at h
  split at h
  · simp at h
  · rename_i os2 hds
    have := Option.some.inj h; subst this
    unfold ObjSt.dbSet at hds
    by_cases hany : (changed ObjSt.new (view σ s o) as).any ObjSt.new.rbits = true
    · simp [hany] at hds
    · simp only [hany] at hds
      have := Option.some.inj hds; subst this
      simp only [State.withSess, upd_same]
      refine ⟨rfl, fun ha => ?_⟩
      have hm : a ∈ changed ObjSt.new (view σ s o) as := by
        unfold changed; exact List.mem_filter.mpr ⟨ha, by simp [ObjSt.new]⟩
      have hc : (changed ObjSt.new (view σ s o) as).contains a = true := by simpa using hm
      simp only [hc]
      simp [ObjSt.new]

/-- `E.get(id=o, a=v)` found the object while the session held no unflushed assignment to `a`: the application has
    learnt `o.a = v`, and `v` is the recorded observation -/
theorem find_obs (cfg : Cfg) (σ : State) (s : Sid) (o : Obj) (a : Attr) (v : Val)
    (h : (step cfg σ s (.find o a v)).2.res = .ok (some 1)) (hw : ((σ.sess s).objs o).wbits a = false)
    (hvol : cfg.volatile a = false) (ha : a ∈ cfg.attrs) :
    (((step cfg σ s (.find o a v)).1.sess s).objs o).obs a = some v := by
  have hwk := wake_sess σ s
  have hw' : (((wake σ s).sess s).objs o).wbits a = false := by rw [hwk.1]; exact hw
  simp only [step] at h ⊢
  split
  · rename_i hc
    simp only [hc, if_true] at h
    split
    · rename_i hv
      simp only [hv, if_true] at h
      obtain ⟨x, _, hx, hobs⟩ := getAttr_obs' cfg _ s o a _ 1 h hw' hvol
      by_cases hxv : x = v
      · rw [hobs, hxv]
      · simp [hxv] at hx
    · rename_i hv
      simp only [hv] at h
      have hq := query_ok cfg _ s false _ _ h
      rw [hq] at h ⊢
      have hobjs : (((ensureTxn (setImmIf (wake σ s) s false) s).1.sess s).objs o).wbits a = false := by
        rw [(ensureTxn_sess _ s).1, (setImmIf_sess _ s false).1]; exact hw'
      obtain ⟨x, hx, hobs⟩ := loadAttr_obs cfg s o a _ _ 1 h hobjs hvol
      by_cases hxv : x = v
      · rw [hobs, hxv]
      · simp [hxv] at hx
  · rename_i hc
    simp only [hc] at h
    have hq := query_ok cfg _ s false _ _ h
    rw [hq] at h ⊢
    generalize hσ1 : (ensureTxn (setImmIf (wake σ s) s false) s).1 = σ1 at h ⊢
    have hp1 : ((σ1.sess s).objs o).present = false := by
      rw [← hσ1, (ensureTxn_sess _ s).1, (setImmIf_sess _ s false).1]
      simpa using hc
    unfold findInDb at h ⊢
    by_cases hview : view σ1 s o a = v
    · simp only [hview, if_true] at h ⊢
      split
      · rename_i hf; simp [hf] at h
      · rename_i σ2 hf
        simp only [hf] at h
        have hn := fetchRow_new σ1 σ2 s o _ false a hf hp1
        have hmem : a ∈ selAttrs cfg a := List.mem_filter.mpr ⟨ha, by simp⟩
        have hval := hn.2 hmem
        simp only [hval, Option.isSome_some, if_true] at h ⊢
        obtain ⟨x, hx, _, hobs⟩ := getAttr_obs' cfg σ2 s o a _ 1 h hn.1 hvol
        rw [hobs, ← hx, hval, hview]
    · simp [hview] at h

/-! ### objects returned by a query with a criterion on `a`: the criterion value is the recorded observation -/

theorem dbSet_val (os os' : ObjSt) (row : Attr → Val) (as : List Attr) (a : Attr)
    (h : os.dbSet row as = some os') (ha : a ∈ as) (hw : os.wbits a = false) (hv : os.vals a = os.dbvals a) :
    os'.vals a = some (row a) ∧ os'.wbits a = false := by
  unfold ObjSt.dbSet at h
  by_cases hany : (changed os row as).any os.rbits = true
  · simp [hany] at h
  · simp only [hany] at h
    have := Option.some.inj h; subst this
    refine ⟨?_, hw⟩
    by_cases hc : (changed os row as).contains a = true
    · simp only [hc, hw, Bool.not_false, Bool.and_self, if_true]
    · simp only [hc, Bool.false_and, Bool.false_eq_true, if_false]
      have hnm : a ∉ changed os row as := by simpa using hc
      have : ¬ ((os.dbvals a != some (row a)) = true) := fun hne => hnm (List.mem_filter.mpr ⟨ha, hne⟩)
      rw [hv]; simpa using this

theorem fetchRow_frame (σ σ' : State) (s : Sid) (o' : Obj) (as : List Attr) (fu : Bool)
    (h : fetchRow σ s o' as fu = some σ') :
    (σ'.sess s).pend = (σ.sess s).pend ∧ σ'.store = σ.store ∧ ∀ o, o ≠ o' → (σ'.sess s).objs o = (σ.sess s).objs o := by
  unfold fetchRow at h
  simp only at h
  split at h
  · simp at h
  · have := Option.some.inj h; subst this
    refine ⟨by simp [State.withSess], rfl, fun o ho => by simp [State.withSess, upd_other _ _ _ _ ho]⟩

theorem fetchRow_val (cfg : Cfg) (σ σ' : State) (s : Sid) (o : Obj) (as : List Attr) (fu : Bool) (a : Attr)
    (h : fetchRow σ s o as fu = some σ') (hi : Inv cfg σ) (ha : a ∈ as) (hw : ((σ.sess s).objs o).wbits a = false) :
    ((σ'.sess s).objs o).vals a = some (view σ s o a) ∧ ((σ'.sess s).objs o).wbits a = false := by
  have hV := ((hi.1 s).1 o a).1 hw
  unfold fetchRow at h
  simp only at h
  split at h
  · simp at h
  · rename_i os2 hds
    have := Option.some.inj h; subst this
    simp only [State.withSess, upd_same]
    refine dbSet_val _ os2 _ as a hds ha ?_ ?_
    · split
      · exact hw
      · rfl
    · split
      · exact hV
      · rfl

theorem fetchRows_val (cfg : Cfg) (s : Sid) (as : List Attr) (fu : Bool) (o : Obj) (a : Attr) (v : Val) (ha : a ∈ as) (l : List Obj) :
    ∀ σ σ2, fetchRows s as fu l σ = some σ2 → Inv cfg σ → ((σ.sess s).objs o).wbits a = false → view σ s o a = v →
      (o ∈ l ∨ ((σ.sess s).objs o).vals a = some v) →
      ((σ2.sess s).objs o).vals a = some v ∧ ((σ2.sess s).objs o).wbits a = false := by
  induction l with
  | nil =>
    intro σ σ2 hf _ hw _ hor
    simp [fetchRows] at hf; subst hf
    rcases hor with h | h
    · simp at h
    · exact ⟨h, hw⟩
  | cons o' r ih =>
    intro σ σ2 hf hi hw hview hor
    simp only [fetchRows] at hf
    split at hf
    · simp at hf
    · rename_i σ' hf1
      have hfr := fetchRow_frame σ σ' s o' as fu hf1
      have hi' := Inv_fetchRow cfg σ σ' s o' as fu hf1 hi
      have hview' : view σ' s o a = v := by rw [view_congr σ σ' s o a hfr.1 hfr.2.1]; exact hview
      by_cases ho : o' = o
      · subst ho
        have hv := fetchRow_val cfg σ σ' s o' as fu a hf1 hi ha hw
        exact ih σ' σ2 hf hi' hv.2 hview' (Or.inr (by rw [hv.1, hview]))
      · have hsame := hfr.2.2 o (fun h => ho h.symm)
        refine ih σ' σ2 hf hi' (by rw [hsame]; exact hw) hview' ?_
        rcases hor with h | h
        · rcases List.mem_cons.mp h with h | h
          · exact absurd h.symm ho
          · exact Or.inl h
        · exact Or.inr (by rw [hsame]; exact h)

theorem markOne_obs (cfg : Cfg) (σ : State) (s : Sid) (o o' : Obj) (a : Attr) (v : Val) (hvol : cfg.volatile a = false)
    (hv : ((σ.sess s).objs o).vals a = some v) (hw : ((σ.sess s).objs o).wbits a = false) :
    ((((markOne cfg σ s o' a).sess s).objs o).vals a = some v ∧ (((markOne cfg σ s o' a).sess s).objs o).wbits a = false)
    ∧ ((o' = o ∨ ((σ.sess s).objs o).obs a = some v) → (((markOne cfg σ s o' a).sess s).objs o).obs a = some v) := by
  unfold markOne
  simp only
  by_cases ho : o' = o
  · subst ho
    simp [hv, State.withSess, ObjSt.read, hw, hvol]
  · have hne : o ≠ o' := fun h => ho h.symm
    split
    · simp only [State.withSess, upd_same, upd_other _ _ _ _ hne]
      exact ⟨⟨hv, hw⟩, fun h => h.resolve_left ho⟩
    · exact ⟨⟨hv, hw⟩, fun h => h.resolve_left ho⟩

theorem markRows_obs (cfg : Cfg) (s : Sid) (o : Obj) (a : Attr) (v : Val) (hvol : cfg.volatile a = false) (l : List Obj) :
    ∀ σ, ((σ.sess s).objs o).vals a = some v → ((σ.sess s).objs o).wbits a = false →
      (o ∈ l ∨ ((σ.sess s).objs o).obs a = some v) → (((markRows cfg s a l σ).sess s).objs o).obs a = some v := by
  induction l with
  | nil =>
    intro σ _ _ hor
    rcases hor with h | h
    · simp at h
    · exact h
  | cons o' r ih =>
    intro σ hv hw hor
    have hm := markOne_obs cfg σ s o o' a v hvol hv hw
    refine ih _ hm.1.1 hm.1.2 ?_
    rcases hor with h | h
    · rcases List.mem_cons.mp h with h | h
      · exact Or.inr (hm.2 (Or.inl h.symm))
      · exact Or.inl h
    · exact Or.inr (hm.2 (Or.inr h))

theorem ensureTxn_qcache (σ : State) (s : Sid) : ((ensureTxn σ s).1.sess s).qcache = (σ.sess s).qcache := by
  unfold ensureTxn
  simp only
  by_cases hc : ((σ.sess s).immediate && !(σ.sess s).inTxn) = true
  · simp only [hc, if_true]
    by_cases hp : (σ.preLock.isSome && σ.preLock != some s) = true
    · simp [hp]
    · simp only [hp]
      cases hl : σ.lock <;> simp
  · simp [hc]

theorem prep_qcache (σ : State) (s : Sid) (fu : Bool) :
    ((ensureTxn (setImmIf (wake σ s) s fu) s).1.sess s).qcache = (σ.sess s).qcache := by
  rw [ensureTxn_qcache]
  cases fu <;> simp [setImmIf, setImmediate, wake, State.withSess]

/-- every object a criterion query returns (each row the connection sees with `a = v`) gets `v` recorded as the observation
    of `a`, provided the session holds no unflushed assignment to it -/
theorem select_obs (cfg : Cfg) (σ : State) (s : Sid) (a : Attr) (v : Val) (fu : Bool) (m : Option Val) (o : Obj)
    (hi : Inv cfg σ) (h : (step cfg σ s (.select a v fu)).2.res = .ok m) (ho : o ∈ cfg.objs) (hview : view σ s o a = v)
    (hw : ((σ.sess s).objs o).wbits a = false) (hvol : cfg.volatile a = false) (ha : a ∈ cfg.attrs)
    (hmiss : cachedQ (σ.sess s) a v fu = none) :
    (((step cfg σ s (.select a v fu)).1.sess s).objs o).obs a = some v := by
  simp only [step] at h ⊢
  have hq := query_ok cfg _ s fu _ _ h
  rw [hq] at h ⊢
  generalize hσ1 : (ensureTxn (setImmIf (wake σ s) s fu) s).1 = σ1 at h ⊢
  have hi1 : Inv cfg σ1 := by
    rw [← hσ1]
    refine Inv_ensureTxn cfg _ s ?_
    cases fu
    · simpa [setImmIf] using Inv_wake cfg σ s hi
    · simpa [setImmIf] using Inv_setImmediate cfg _ s (Inv_wake cfg σ s hi)
  have he := ensureTxn_sess (setImmIf (wake σ s) s fu) s
  have hs := setImmIf_sess (wake σ s) s fu
  have hk := wake_sess σ s
  have hobjs : (σ1.sess s).objs = (σ.sess s).objs := by rw [← hσ1, he.1, hs.1, hk.1]
  have hview1 : view σ1 s o a = v := by
    rw [view_congr σ σ1 s o a (by rw [← hσ1, he.2.1, hs.2.1, hk.2.1]) (by rw [← hσ1, he.2.2.2.2, hs.2.2.2.2, hk.2.2.2.2])]
    exact hview
  have hw1 : ((σ1.sess s).objs o).wbits a = false := by rw [hobjs]; exact hw
  have hmiss1 : cachedQ (σ1.sess s) a v fu = none := by
    unfold cachedQ at hmiss ⊢; rw [← hσ1, prep_qcache]; exact hmiss
  unfold selectInDb at h ⊢
  simp only [hmiss1] at h ⊢
  split
  · rename_i hf; simp [hf] at h
  · rename_i σ2 hf
    have hmem : o ∈ cfg.objs.filter (fun o => view σ1 s o a == v) := List.mem_filter.mpr ⟨ho, by simp [hview1]⟩
    have hsel : a ∈ selAttrs cfg a := List.mem_filter.mpr ⟨ha, by simp⟩
    have h2 := fetchRows_val cfg s _ fu o a v hsel _ σ1 σ2 hf hi1 hw1 hview1 (Or.inl hmem)
    have := markRows_obs cfg s o a v hvol _ σ2 h2.1 h2.2 (Or.inl hmem)
    rw [(storeQ_facts _ s a v fu _).2]; exact this

/-- a keyword lookup `E.get(id=o, a=v)` / `E.exists(id=o, a=v)` answered from the identity map reads `a` from the cached
    object whether or not the criterion matches: the cached value is the recorded observation, and the answer is the comparison -/
theorem find_cached_obs (cfg : Cfg) (σ : State) (s : Sid) (o : Obj) (a : Attr) (v x r : Val)
    (hp : ((σ.sess s).objs o).present = true) (hx : ((σ.sess s).objs o).vals a = some x)
    (h : (step cfg σ s (.find o a v)).2.res = .ok (some r)) (hw : ((σ.sess s).objs o).wbits a = false)
    (hvol : cfg.volatile a = false) :
    (((step cfg σ s (.find o a v)).1.sess s).objs o).obs a = some x ∧ r = (if x = v then 1 else 0) := by
  have hwk := wake_sess σ s
  have hw' : (((wake σ s).sess s).objs o).wbits a = false := by rw [hwk.1]; exact hw
  have hx' : (((wake σ s).sess s).objs o).vals a = some x := by rw [hwk.1]; exact hx
  have hp' : (((wake σ s).sess s).objs o).present = true := by rw [hwk.1]; exact hp
  simp only [step, hp', if_true, hx', Option.isSome_some] at h ⊢
  obtain ⟨y, hy, hf, hobs⟩ := getAttr_obs' cfg _ s o a _ r h hw' hvol
  rw [hx'] at hy
  have := Option.some.inj hy
  subst this
  exact ⟨hobs, hf.symm⟩

end PonyVerif.Model.Occ
