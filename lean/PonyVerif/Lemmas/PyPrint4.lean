/-
  C04 — the round trip: the reference parser reads back what the printer model writes.
-/
import PonyVerif.Lemmas.PyPrint3
namespace PonyVerif.Model.PyPrint

/- what the theorem asks of an expression: a starred element of a list / tuple display is a `bitwise_or` (CPython
    rejects `[*a or b]`, which the printer would write for `[*(a or b)]`), displays hold no keyword items, and a tuple
    subscript is not empty -/
mutual
def Ok : Expr → Prop
  | .name _ => True | .const _ => True | .negConst _ => True | .fstr _ => True
  | .boolOp _ a b m => Ok a ∧ Ok b ∧ OkEs m
  | .not e => Ok e
  | .compare l _ r m => Ok l ∧ Ok r ∧ OkCmp m
  | .bin _ l r => Ok l ∧ Ok r
  | .unary _ e => Ok e
  | .ifExp a b c => Ok a ∧ Ok b ∧ Ok c
  | .lambda ps b => OkParams ps ∧ Ok b
  | .attr e _ => Ok e
  | .call f a => Ok f ∧ OkArgs a
  | .subscript e i => Ok e ∧ OkIdx i
  | .subscriptT e is => Ok e ∧ OkIdxs is ∧ is.isNil = false
  | .list a => OkItems a
  | .tuple a => OkItems a
  | .dict k => OkKVs k
def OkEs : Exprs → Prop
  | .nil => True
  | .cons e t => Ok e ∧ OkEs t
def OkCmp : CmpTail → Prop
  | .nil => True
  | .cons _ e t => Ok e ∧ OkCmp t
def OkArgs : Args → Prop
  | .nil => True
  | .pos e t => Ok e ∧ OkArgs t
  | .star e t => Ok e ∧ OkArgs t
  | .kw _ e t => Ok e ∧ OkArgs t
  | .dstar e t => Ok e ∧ OkArgs t
def OkItems : Args → Prop
  | .nil => True
  | .pos e t => Ok e ∧ OkItems t
  | .star e t => Ok e ∧ codePrio e ≤ 10 ∧ OkItems t
  | .kw _ _ _ => False
  | .dstar _ _ => False
def OkOpt : OptE → Prop
  | .none => True
  | .some e => Ok e
def OkIdx : Idx → Prop
  | .ie e => Ok e
  | .sl a b c => OkOpt a ∧ OkOpt b ∧ OkOpt c
def OkIdxs : Idxs → Prop
  | .nil => True
  | .cons i t => OkIdx i ∧ OkIdxs t
def OkParams : Params → Prop
  | .nil => True
  | .plain _ t => OkParams t
  | .dflt _ e t => Ok e ∧ OkParams t
  | .var _ t => OkParams t
  | .kwvar _ t => OkParams t
def OkKVs : KVs → Prop
  | .nil => True
  | .cons k v t => Ok k ∧ Ok v ∧ OkKVs t
end

theorem BinOp.prio_ge3 (op : BinOp) : 3 ≤ op.prio := by cases op <;> simp [BinOp.prio]
theorem BinOp.prio_ge5 (op : BinOp) (h : op ≠ .pow) : 5 ≤ op.prio := by cases op <;> simp_all [BinOp.prio]

theorem PGoal_vacuous (e : Expr) (h : 2 < codePrio e) : PGoal e := by
  intro rest fuel h2; omega

theorem atom_goals (e e' : Expr) (t : Tok) (ht : toks e = [t]) (hn : norm e = e') (hc : cost e = 40) (hp : codePrio e ≤ 2)
    (hpe : ∀ f r, pE (f+1) 2 (t :: r) = pPost f e' r) : PGoal e ∧ EGoal e := by
  have hP : PGoal e := by
    intro rest fuel _ _ hf
    obtain ⟨g, rfl⟩ : ∃ g, fuel = g + 1 := ⟨fuel - 1, by omega⟩
    exact ⟨g, by omega, by rw [ht, hn]; exact hpe g rest⟩
  exact ⟨hP, EGoal_of_PGoal e hp hP⟩

theorem goals_name (s : String) : PGoal (.name s) ∧ EGoal (.name s) :=
  atom_goals _ _ (.name s) (toks_name s) (by simp [norm]) (by simp [cost]) (by simp [codePrio]) (fun f r => pE_name f s r)
theorem goals_const (s : String) : PGoal (.const s) ∧ EGoal (.const s) :=
  atom_goals _ _ (.const s) (toks_const s) (by simp [norm]) (by simp [cost]) (by simp [codePrio]) (fun f r => pE_const f s r)

/-- a left-associative binary operator of level 5 … 10 -/
theorem bin_goals (op : BinOp) (l r : Expr) (hop : op ≠ .pow) (hl : EGoal l) (hr : EGoal r) : EGoal (.bin op l r) := by
  have h5 := op.prio_ge5 hop
  have h10 := op.prio_le
  apply EGoal_of_base _ op.prio (by omega) (by simp [codePrio]) (Or.inr (by simp [codePrio])) (by omega)
  intro rest fuel hs hf
  simp only [cost] at hf
  obtain ⟨g, rfl⟩ : ∃ g, fuel = g + 3 := ⟨fuel - 3, by omega⟩
  rw [toks_bin]
  simp only [List.append_assoc, List.cons_append, norm]
  have h1 := wrap_parse l hl op.prio (op.prio - 1) (.bin op :: (wrapT op.prio r ++ rest)) (g+2) (by omega) (by omega)
    (by omega) (by simp [Stops, contLvl]; omega) (by omega)
  rw [pE_binlvl (g+2) op.prio _ _ _ h5 h10 h1]
  have h2 := wrap_parse r hr op.prio (op.prio - 1) rest (g+1) (by omega) (by omega) (by omega) (hs.mono (by omega)) (by omega)
  rw [pBin_step (g+1) op.prio _ _ op _ _ rfl h2]
  exact pBin_stop g op.prio _ rest hs


theorem goals_fstr (ps : FParts) : PGoal (.fstr ps) ∧ EGoal (.fstr ps) := by
  refine atom_goals _ _ (.const _) (by simp [toks, prE]; rfl) (by simp [norm, prE]) (by simp [cost]) (by simp [codePrio])
    (fun f r => pE_const f _ r)

theorem pow_goals (l r : Expr) (hl : EGoal l) (hr : EGoal r) : EGoal (.bin .pow l r) := by
  apply EGoal_of_base _ 3 (by omega) (by simp [codePrio, BinOp.prio]) (Or.inr (by simp [codePrio, BinOp.prio])) (by omega)
  intro rest fuel hs hf
  simp only [cost] at hf
  obtain ⟨g, rfl⟩ : ∃ g, fuel = g + 1 := ⟨fuel - 1, by omega⟩
  rw [toks_bin]
  simp only [List.append_assoc, List.cons_append, norm, BinOp.prio]
  have h1 := wrap_parse l hl 3 2 (.bin .pow :: (wrapT 3 r ++ rest)) g (by omega) (by omega)
    (by omega) (by simp [Stops, contLvl, BinOp.prio]) (by omega)
  have h2 := wrap_parse r hr 3 4 rest g (by omega) (by omega) (by omega) hs.up_3_4 (by omega)
  exact pE_pow g _ _ _ _ _ h1 h2

theorem unary_goals (op : UnOp) (e : Expr) (he : EGoal e) : EGoal (.unary op e) := by
  apply EGoal_of_base _ 4 (by omega) (by simp [codePrio]) (Or.inr (by simp [codePrio])) (by omega)
  intro rest fuel hs hf
  simp only [cost] at hf
  obtain ⟨g, rfl⟩ : ∃ g, fuel = g + 1 := ⟨fuel - 1, by omega⟩
  rw [toks_unary]
  simp only [List.cons_append, norm]
  have h1 := wrap_parse e he 4 4 rest g (by omega) (by omega) (by omega) hs (by omega)
  cases op
  · exact pE_neg g _ _ _ h1
  · exact pE_pos g _ _ _ h1

theorem negConst_goals (s : String) : EGoal (.negConst s) := by
  apply EGoal_of_base _ 4 (by omega) (by simp [codePrio]) (Or.inr (by simp [codePrio])) (by omega)
  intro rest fuel hs hf
  simp only [cost] at hf
  obtain ⟨g, rfl⟩ : ∃ g, fuel = g + 1 := ⟨fuel - 1, by omega⟩
  rw [toks_negConst]
  simp only [List.cons_append, List.nil_append, norm]
  have h1 := (goals_const s).2 4 rest g (by simp [codePrio]) (by omega) (by omega) hs (by simp [cost]; omega)
  rw [toks_const] at h1
  exact pE_neg g _ _ _ (by simpa [norm] using h1)

theorem not_goals (e : Expr) (he : EGoal e) : EGoal (.not e) := by
  apply EGoal_of_base _ 12 (by omega) (by simp [codePrio]) (Or.inr (by simp [codePrio])) (by omega)
  intro rest fuel hs hf
  simp only [cost] at hf
  obtain ⟨g, rfl⟩ : ∃ g, fuel = g + 1 := ⟨fuel - 1, by omega⟩
  rw [toks_not]
  simp only [List.cons_append, norm]
  exact pE_not g _ _ _ (wrap_parse e he 12 12 rest g (by omega) (by omega) (by omega) hs (by omega))

def EsGoal (m : Exprs) : Prop :=
  ∀ (isOr : Bool) rest f, Stops (if isOr then 14 else 13) rest → costEs m ≤ f →
    pBoolTail f isOr (tEs (if isOr then 14 else 13) (if isOr then .kOr else .kAnd) m ++ rest) = some (normEs m, rest)
def CmpGoal (m : CmpTail) : Prop :=
  ∀ rest f, Stops 11 rest → costCmp m ≤ f → pCmpTail f (tCmp m ++ rest) = some (normCmp m, rest)
def ArgsGoal (a : Args) : Prop :=
  ∀ rest f, costArgs a ≤ f → pArgs f (tArgs a ++ .rpar :: rest) = some (normArgs a, rest)
def ItemsGoal (a : Args) : Prop :=
  ∀ c rest f, (c = Tok.rpar ∨ c = Tok.rbrk) → costArgs a ≤ f → pItems f c (tArgs a ++ c :: rest) = some (normArgs a, rest)
def OptGoal (o : OptE) : Prop :=
  ∀ t1 rest f, (t1 = Tok.colon ∨ t1 = Tok.comma ∨ t1 = Tok.rbrk) → costOpt o ≤ f →
    pOpt f (tOpt o ++ t1 :: rest) = some (normOpt o, t1 :: rest)
def IdxGoal (i : Idx) : Prop :=
  ∀ t1 rest f, (t1 = Tok.comma ∨ t1 = Tok.rbrk) → costIdx i ≤ f → pIdx f (tIdx i ++ t1 :: rest) = some (normIdx i, t1 :: rest)
def IdxsGoal (is : Idxs) : Prop :=
  ∀ rest f, costIdxs is ≤ f → pIdxs f (tIdxs is ++ .rbrk :: rest) = some (normIdxs is, rest)
def ParamsGoal (ps : Params) : Prop :=
  ∀ rest f, costParams ps ≤ f → pParams f (tParams ps ++ .colon :: rest) = some (normParams ps, rest)
def KVsGoal (k : KVs) : Prop :=
  ∀ rest f, costKVs k ≤ f → pKVs f (tKVs k ++ .rbrc :: rest) = some (normKVs k, rest)

theorem stops_tCmp (m : CmpTail) (rest : List Tok) (h : Stops 11 rest) : Stops 10 (tCmp m ++ rest) := by
  cases m with
  | nil => simpa [tCmp_nil] using h.mono (by omega)
  | cons op e t => simp [tCmp_cons, Stops, contLvl]
theorem stops_tEs_or (m : Exprs) (rest : List Tok) (h : Stops 14 rest) : Stops 13 (tEs 14 .kOr m ++ rest) := by
  cases m with
  | nil => simpa [tEs_nil] using h.mono (by omega)
  | cons e t => simp [tEs_cons, Stops, contLvl]
theorem stops_tEs_and (m : Exprs) (rest : List Tok) (h : Stops 13 rest) : Stops 12 (tEs 13 .kAnd m ++ rest) := by
  cases m with
  | nil => simpa [tEs_nil] using h.mono (by omega)
  | cons e t => simp [tEs_cons, Stops, contLvl]

theorem compare_goals (l : Expr) (op : CmpOp) (r : Expr) (m : CmpTail) (hl : EGoal l) (hr : EGoal r) (hm : CmpGoal m) :
    EGoal (.compare l op r m) := by
  apply EGoal_of_base _ 11 (by omega) (by simp [codePrio]) (Or.inr (by simp [codePrio])) (by omega)
  intro rest fuel hs hf
  simp only [cost] at hf
  obtain ⟨g, rfl⟩ : ∃ g, fuel = g + 1 := ⟨fuel - 1, by omega⟩
  rw [toks_compare]
  simp only [List.append_assoc, List.cons_append, norm]
  have h1 := wrap_parse l hl 11 10 (.cmp op :: (wrapT 11 r ++ (tCmp m ++ rest))) g (by omega) (by omega)
    (by omega) (by simp [Stops, contLvl]) (by omega)
  have h2 := wrap_parse r hr 11 10 (tCmp m ++ rest) g (by omega) (by omega) (by omega) (stops_tCmp m rest hs) (by omega)
  exact pE_cmp g _ _ _ _ _ _ _ _ h1 h2 (hm rest g hs (by omega))

theorem boolOp_goals (o : Bool) (a b : Expr) (m : Exprs) (ha : EGoal a) (hb : EGoal b) (hm : EsGoal m) :
    EGoal (.boolOp o a b m) := by
  cases o
  · apply EGoal_of_base _ 13 (by omega) (by simp [codePrio]) (Or.inr (by simp [codePrio])) (by omega)
    intro rest fuel hs hf
    simp only [cost] at hf
    obtain ⟨g, rfl⟩ : ∃ g, fuel = g + 1 := ⟨fuel - 1, by omega⟩
    rw [toks_boolOp]
    simp only [List.append_assoc, List.cons_append, norm, Bool.false_eq_true, if_false]
    have h1 := wrap_parse a ha 13 12 (.kAnd :: (wrapT 13 b ++ (tEs 13 .kAnd m ++ rest))) g (by omega) (by omega)
      (by omega) (by simp [Stops, contLvl]) (by omega)
    have h2 := wrap_parse b hb 13 12 (tEs 13 .kAnd m ++ rest) g (by omega) (by omega) (by omega) (stops_tEs_and m rest hs) (by omega)
    exact pE_and g _ _ _ _ _ _ _ h1 h2 (by simpa using hm false rest g (by simpa using hs) (by omega))
  · apply EGoal_of_base _ 14 (by omega) (by simp [codePrio]) (Or.inr (by simp [codePrio])) (by omega)
    intro rest fuel hs hf
    simp only [cost] at hf
    obtain ⟨g, rfl⟩ : ∃ g, fuel = g + 1 := ⟨fuel - 1, by omega⟩
    rw [toks_boolOp]
    simp only [List.append_assoc, List.cons_append, norm, if_true]
    have h1 := wrap_parse a ha 14 13 (.kOr :: (wrapT 14 b ++ (tEs 14 .kOr m ++ rest))) g (by omega) (by omega)
      (by omega) (by simp [Stops, contLvl]) (by omega)
    have h2 := wrap_parse b hb 14 13 (tEs 14 .kOr m ++ rest) g (by omega) (by omega) (by omega) (stops_tEs_or m rest hs) (by omega)
    exact pE_or g _ _ _ _ _ _ _ h1 h2 (by simpa using hm true rest g (by simpa using hs) (by omega))

theorem ifExp_goals (b t o : Expr) (hb : EGoal b) (ht : EGoal t) (ho : EGoal o) : EGoal (.ifExp b t o) := by
  apply EGoal_of_base _ 15 (by omega) (by simp [codePrio]) (Or.inr (by simp [codePrio])) (by omega)
  intro rest fuel hs hf
  simp only [cost] at hf
  obtain ⟨g, rfl⟩ : ∃ g, fuel = g + 1 := ⟨fuel - 1, by omega⟩
  rw [toks_ifExp]
  simp only [List.append_assoc, List.cons_append, norm]
  have h1 := wrap_parse b hb 15 14 (.kIf :: (wrapT 15 t ++ .kElse :: (wrapT 15 o ++ rest))) g (by omega) (by omega)
    (by omega) (by simp [Stops, contLvl]) (by omega)
  have h2 := wrap_parse t ht 15 14 (.kElse :: (wrapT 15 o ++ rest)) g (by omega) (by omega) (by omega)
    (by simp [Stops, contLvl]) (by omega)
  have h3 := wrap_parse o ho 15 16 rest g (by omega) (by omega) (by omega) hs.up_15_16 (by omega)
  exact pE_ifExp g _ _ _ _ _ _ _ h1 h2 h3

theorem lambda_goals (ps : Params) (b : Expr) (hps : ParamsGoal ps) (hb : EGoal b) : EGoal (.lambda ps b) := by
  apply EGoal_of_base _ 16 (by omega) (by simp [codePrio]) (Or.inr (by simp [codePrio])) (by omega)
  intro rest fuel hs hf
  simp only [cost] at hf
  obtain ⟨g, rfl⟩ : ∃ g, fuel = g + 1 := ⟨fuel - 1, by omega⟩
  rw [toks_lambda]
  simp only [List.append_assoc, List.cons_append, norm]
  exact pE_lambda g _ _ _ _ _ (hps (wrapT 16 b ++ rest) g (by omega))
    (wrap_parse b hb 16 16 rest g (by omega) (by omega) (by omega) hs (by omega))

end PonyVerif.Model.PyPrint
