/-
  C04 — the round trip: the reference parser reads back what the printer model writes.
-/
import PonyVerif.Lemmas.PyPrint3
namespace PonyVerif.Model.PyPrint

/-- what the theorem asks of an expression: a starred element of a list / tuple display is a `bitwise_or` (CPython
    rejects `[*a or b]`, which the printer would write for `[*(a or b)]`), displays hold no keyword items, and a tuple
    subscript is not empty -/
mutual
def Ok : Expr → Prop
  | .name _ => True | .const _ => True | .negConst _ => True | .fstr _ => True
  | .boolOp _ a b m => Ok a ∧ Ok b ∧ OkEs m
  | .not e => Ok e
  | .compare l _ r m => Ok l ∧ Ok r ∧ OkCmp m
  | .bin _ l r => Ok l ∧ Ok r
  | .unary _ e => Ok e
  | .ifExp a b c => Ok a ∧ Ok b ∧ Ok c
  | .lambda ps b => OkParams ps ∧ Ok b
  | .attr e _ => Ok e
  | .call f a => Ok f ∧ OkArgs a
  | .subscript e i => Ok e ∧ OkIdx i
  | .subscriptT e is => Ok e ∧ OkIdxs is ∧ is.isNil = false
  | .list a => OkItems a
  | .tuple a => OkItems a
  | .dict k => OkKVs k
def OkEs : Exprs → Prop
  | .nil => True
  | .cons e t => Ok e ∧ OkEs t
def OkCmp : CmpTail → Prop
  | .nil => True
  | .cons _ e t => Ok e ∧ OkCmp t
def OkArgs : Args → Prop
  | .nil => True
  | .pos e t => Ok e ∧ OkArgs t
  | .star e t => Ok e ∧ OkArgs t
  | .kw _ e t => Ok e ∧ OkArgs t
  | .dstar e t => Ok e ∧ OkArgs t
def OkItems : Args → Prop
  | .nil => True
  | .pos e t => Ok e ∧ OkItems t
  | .star e t => Ok e ∧ codePrio e ≤ 10 ∧ OkItems t
  | .kw _ _ _ => False
  | .dstar _ _ => False
def OkOpt : OptE → Prop
  | .none => True
  | .some e => Ok e
def OkIdx : Idx → Prop
  | .ie e => Ok e
  | .sl a b c => OkOpt a ∧ OkOpt b ∧ OkOpt c
def OkIdxs : Idxs → Prop
  | .nil => True
  | .cons i t => OkIdx i ∧ OkIdxs t
def OkParams : Params → Prop
  | .nil => True
  | .plain _ t => OkParams t
  | .dflt _ e t => Ok e ∧ OkParams t
  | .var _ t => OkParams t
  | .kwvar _ t => OkParams t
def OkKVs : KVs → Prop
  | .nil => True
  | .cons k v t => Ok k ∧ Ok v ∧ OkKVs t
end

theorem BinOp.prio_ge3 (op : BinOp) : 3 ≤ op.prio := by cases op <;> simp [BinOp.prio]
theorem BinOp.prio_ge5 (op : BinOp) (h : op ≠ .pow) : 5 ≤ op.prio := by cases op <;> simp_all [BinOp.prio]

theorem PGoal_vacuous (e : Expr) (h : 2 < codePrio e) : PGoal e := by
  intro rest fuel h2; omega

theorem atom_goals (e : Expr) (t : Tok) (ht : toks e = [t]) (hn : norm e = e) (hc : cost e = 40) (hp : codePrio e ≤ 2)
    (hpe : ∀ f r, pE (f+1) 2 (t :: r) = pPost f e r) : PGoal e ∧ EGoal e := by
  have hP : PGoal e := by
    intro rest fuel _ _ hf
    obtain ⟨g, rfl⟩ : ∃ g, fuel = g + 1 := ⟨fuel - 1, by omega⟩
    exact ⟨g, by omega, by rw [ht, hn]; exact hpe g rest⟩
  exact ⟨hP, EGoal_of_PGoal e hp hP⟩

theorem goals_name (s : String) : PGoal (.name s) ∧ EGoal (.name s) :=
  atom_goals _ (.name s) (toks_name s) (by simp [norm]) (by simp [cost]) (by simp [codePrio]) (fun f r => pE_name f s r)
theorem goals_const (s : String) : PGoal (.const s) ∧ EGoal (.const s) :=
  atom_goals _ (.const s) (toks_const s) (by simp [norm]) (by simp [cost]) (by simp [codePrio]) (fun f r => pE_const f s r)

/-- a left-associative binary operator of level 5 … 10 -/
theorem bin_goals (op : BinOp) (l r : Expr) (hop : op ≠ .pow) (hl : EGoal l) (hr : EGoal r) : EGoal (.bin op l r) := by
  have h5 := op.prio_ge5 hop
  have h10 := op.prio_le
  apply EGoal_of_base _ op.prio (by omega) (by simp [codePrio]) (Or.inr (by simp [codePrio])) (by omega)
  intro rest fuel hs hf
  simp only [cost] at hf
  obtain ⟨g, rfl⟩ : ∃ g, fuel = g + 3 := ⟨fuel - 3, by omega⟩
  rw [toks_bin]
  simp only [List.append_assoc, List.cons_append, norm]
  have h1 := wrap_parse l hl op.prio (op.prio - 1) (.bin op :: (wrapT op.prio r ++ rest)) (g+2) (by omega) (by omega)
    (by omega) (by simp [Stops, contLvl]; omega) (by omega)
  rw [pE_binlvl (g+2) op.prio _ _ _ h5 h10 h1]
  have h2 := wrap_parse r hr op.prio (op.prio - 1) rest (g+1) (by omega) (by omega) (by omega) (hs.mono (by omega)) (by omega)
  rw [pBin_step (g+1) op.prio _ _ op _ _ rfl h2]
  exact pBin_stop g op.prio _ rest hs

end PonyVerif.Model.PyPrint
