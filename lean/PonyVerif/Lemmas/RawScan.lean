/-
  C30 — bounds of the scanner model: every piece of `parse_expr` consumes at least one and at most all of the
  characters it is given.
-/
import PonyVerif.Model.RawScan
namespace PonyVerif.Model.RawSql

theorem spanLen_le (p : Char → Bool) (s : List Char) : spanLen p s ≤ s.length := by
  induction s with
  | nil => simp [spanLen]
  | cons c r ih => simp only [spanLen]; split <;> simp <;> omega

theorem identLen_le (s : List Char) (n : Nat) (h : identLen s = some n) : 1 ≤ n ∧ n ≤ s.length := by
  cases s with
  | nil => simp [identLen] at h
  | cons c r =>
    simp only [identLen] at h
    split at h
    · have := spanLen_le isWord r
      simp only [Option.some.injEq] at h
      simp only [List.length_cons]; omega
    · cases h

private theorem map_add {x : Option Nat} {k n : Nat} (h : x.map (· + k) = some n) : ∃ m, x = some m ∧ n = m + k := by
  cases x with
  | none => simp at h
  | some m => exact ⟨m, rfl, by simpa using h.symm⟩

theorem startsTriple_len (q : Char) (s : List Char) (h : startsTriple q s = true) : 3 ≤ s.length := by
  match s with
  | [] => simp [startsTriple] at h
  | [_] => simp [startsTriple] at h
  | [_, _] => simp [startsTriple] at h
  | _ :: _ :: _ :: _ => simp

theorem tripleBody_le (q : Char) (s : List Char) : ∀ (esc : Bool) (n : Nat), tripleBody q esc s = some n → 1 ≤ n ∧ n ≤ s.length := by
  induction s with
  | nil => intro esc n h; cases esc <;> simp [tripleBody] at h
  | cons c r ih =>
    intro esc n h
    cases esc with
    | true =>
      simp only [tripleBody] at h
      split at h
      · cases h
      · obtain ⟨m, hm, rfl⟩ := map_add h
        have := ih false m hm
        simp only [List.length_cons]; omega
    | false =>
      simp only [tripleBody] at h
      split at h
      · rename_i hs
        have := startsTriple_len q (c :: r) hs
        simp only [Option.some.injEq] at h
        omega
      · split at h
        · obtain ⟨m, hm, rfl⟩ := map_add h
          have := ih true m hm
          simp only [List.length_cons]; omega
        · obtain ⟨m, hm, rfl⟩ := map_add h
          have := ih false m hm
          simp only [List.length_cons]; omega

theorem singleBody_le (q : Char) (s : List Char) : ∀ (esc : Bool) (n : Nat), singleBody q esc s = some n → 1 ≤ n ∧ n ≤ s.length := by
  induction s with
  | nil => intro esc n h; cases esc <;> simp [singleBody] at h
  | cons c r ih =>
    intro esc n h
    cases esc with
    | true =>
      simp only [singleBody] at h
      split at h
      · cases h
      · obtain ⟨m, hm, rfl⟩ := map_add h
        have := ih false m hm
        simp only [List.length_cons]; omega
    | false =>
      simp only [singleBody] at h
      split at h
      · simp only [Option.some.injEq] at h
        simp only [List.length_cons]; omega
      · split at h
        · obtain ⟨m, hm, rfl⟩ := map_add h
          have := ih true m hm
          simp only [List.length_cons]; omega
        · obtain ⟨m, hm, rfl⟩ := map_add h
          have := ih false m hm
          simp only [List.length_cons]; omega

theorem stringLen_le (s : List Char) (n : Nat) (h : stringLen s = some n) : 1 ≤ n ∧ n ≤ s.length := by
  cases s with
  | nil => simp [stringLen] at h
  | cons q r =>
    simp only [stringLen] at h
    split at h
    · by_cases hs : startsTriple q (q :: r) = true
      · simp only [hs, if_true] at h
        cases ht : tripleBody q false (List.drop 2 r) with
        | some m =>
          simp only [ht, Option.map_some, Option.some.injEq] at h
          have := tripleBody_le q _ false m ht
          have h3 := startsTriple_len q (q :: r) hs
          simp only [List.length_drop, List.length_cons] at this h3 ⊢
          omega
        | none =>
          simp only [ht, Option.map_none] at h
          obtain ⟨m, hm, rfl⟩ := map_add h
          have := singleBody_le q r false m hm
          simp only [List.length_cons]; omega
      · simp only [hs, Bool.false_eq_true, if_false] at h
        obtain ⟨m, hm, rfl⟩ := map_add h
        have := singleBody_le q r false m hm
        simp only [List.length_cons]; omega
    · cases h

theorem nextTok_le (s : List Char) : ∀ (n : Nat) (x : Option Char), nextTok s = some (n, x) → 1 ≤ n ∧ n ≤ s.length := by
  induction s with
  | nil => intro n x h; simp [nextTok] at h
  | cons c r ih =>
    intro n x h
    simp only [nextTok] at h
    split at h
    · simp only [Option.some.injEq, Prod.mk.injEq] at h
      simp only [List.length_cons]; omega
    · split at h
      · rename_i m hm
        simp only [Option.some.injEq, Prod.mk.injEq] at h
        have := stringLen_le (c :: r) m hm
        omega
      · cases hn : nextTok r with
        | none => simp [hn] at h
        | some p =>
          obtain ⟨m, y⟩ := p
          simp only [hn, Option.map_some, Option.some.injEq, Prod.mk.injEq] at h
          have := ih m y hn
          simp only [List.length_cons]; omega

theorem closeBracket_le (opn cls : Char) (fuel : Nat) :
    ∀ (k : Nat) (s : List Char) (n : Nat), closeBracket opn cls fuel k s = some n → 1 ≤ n ∧ n ≤ s.length := by
  induction fuel with
  | zero => intro k s n h; simp [closeBracket] at h
  | succ f ih =>
    intro k s n h
    simp only [closeBracket] at h
    cases hn : nextTok s with
    | none => simp [hn] at h
    | some p =>
      obtain ⟨m, x⟩ := p
      have hb := nextTok_le s m x hn
      simp only [hn] at h
      have step : ∀ k', (closeBracket opn cls f k' (List.drop m s)).map (· + m) = some n → 1 ≤ n ∧ n ≤ s.length := by
        intro k' h'
        obtain ⟨j, hj, rfl⟩ := map_add h'
        have := ih k' _ j hj
        simp only [List.length_drop] at this
        omega
      split at h
      · exact step _ h
      · split at h
        · split at h
          · simp only [Option.some.injEq] at h; omega
          · exact step _ h
        · exact step _ h

theorem exprTail_le (fuel : Nat) : ∀ (s : List Char) (n : Nat), exprTail fuel s = some n → n ≤ s.length := by
  induction fuel with
  | zero => intro s n h; simp only [exprTail, Option.some.injEq] at h; omega
  | succ f ih =>
    intro s n h
    simp only [exprTail] at h
    have hws := spanLen_le isSpace s
    cases hd : List.drop (spanLen isSpace s) s with
    | nil => simp only [hd, Option.some.injEq] at h; omega
    | cons c r =>
      have hlen : s.length = spanLen isSpace s + (r.length + 1) := by
        have := congrArg List.length hd
        simp only [List.length_drop, List.length_cons] at this
        omega
      simp only [hd] at h
      split at h
      · simp only [Option.some.injEq] at h; omega
      · split at h
        · cases hi : identLen (List.drop (spanLen isSpace r) r) with
          | none => simp only [hi, Option.some.injEq] at h; omega
          | some m =>
            simp only [hi] at h
            obtain ⟨j, hj, rfl⟩ := map_add h
            have h1 := identLen_le _ m hi
            have h2 := ih _ j hj
            have h3 := spanLen_le isSpace r
            simp only [List.length_drop] at h1 h2
            omega
        · split at h
          · cases hc : closeBracket '(' ')' (r.length + 1) 1 r with
            | none => simp [hc] at h
            | some m =>
              simp only [hc] at h
              obtain ⟨j, hj, rfl⟩ := map_add h
              have h1 := closeBracket_le _ _ _ _ _ m hc
              have h2 := ih _ j hj
              simp only [List.length_drop] at h2
              omega
          · split at h
            · cases hc : closeBracket '[' ']' (r.length + 1) 1 r with
              | none => simp [hc] at h
              | some m =>
                simp only [hc] at h
                obtain ⟨j, hj, rfl⟩ := map_add h
                have h1 := closeBracket_le _ _ _ _ _ m hc
                have h2 := ih _ j hj
                simp only [List.length_drop] at h2
                omega
            · simp only [Option.some.injEq] at h; omega

/-- `parse_expr` returns a non-empty prefix of what it is given, starting with an identifier character or `(` -/
theorem parseExpr_le (s : List Char) (n : Nat) (h : parseExpr s = some n) :
    1 ≤ n ∧ n ≤ s.length ∧ ∃ c r, s = c :: r ∧ (isIdStart c = true ∨ c = '(') := by
  cases s with
  | nil => simp [parseExpr] at h
  | cons c r =>
    simp only [parseExpr] at h
    split at h
    · rename_i hc
      obtain ⟨j, hj, rfl⟩ := map_add h
      have h1 := exprTail_le _ _ j hj
      have h2 := spanLen_le isWord r
      simp only [List.length_drop, List.length_cons] at h1 ⊢
      exact ⟨by omega, by omega, c, r, rfl, Or.inl hc⟩
    · split at h
      · rename_i hc
        have h1 := exprTail_le _ _ n h
        refine ⟨?_, h1, c, r, rfl, Or.inr hc⟩
        -- the loop sees the `(` again and must close it: at least the two brackets are consumed
        subst hc
        simp only [exprTail, List.length_cons] at h
        have hsp : spanLen isSpace ('(' :: r) = 0 := by simp [spanLen, isSpace]
        simp only [hsp, List.drop_zero] at h
        simp only [show ('(' = ';') = False by decide, show ('(' = '.') = False by decide, if_false, if_true] at h
        cases hcb : closeBracket '(' ')' (r.length + 1) 1 r with
        | none => simp [hcb] at h
        | some m =>
          simp only [hcb] at h
          obtain ⟨j, _, rfl⟩ := map_add h
          omega
      · cases h

end PonyVerif.Model.RawSql
