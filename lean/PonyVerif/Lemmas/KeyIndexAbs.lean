/-
  Lemmas/KeyIndexAbs.lean — `Inv_idx` (C11) stated over an ABSTRACT view of a session, so that other session models can
  import it: any index family `ix : ι → κ → Option ObjId` (one map per key `i : ι`, tuples of type `κ`), any notion of
  "this object currently has tuple `v` under key `i`" (`key i o = some v`), any liveness predicate.

  * `Exact` is the invariant (sound + complete = every index is EXACTLY {current tuple ↦ the live object holding it});
  * `Exact.update / insert / remove / congr` are the four ways a session changes (an object's key values change and the
    indexes are rewritten as `update_simple_index` / `update_composite_index` do; a new object is registered; an object
    stops being live and its entries are popped; the representation changes) — each needs only a POINTWISE description of
    the new index (`ix' i k = …`), which is what `updKey_get` gives for the association lists of Model/KeyIndex.lean and
    what `set1` / `set2` / `setK` give for function-valued indexes;
  * `inv_iff_exact` instantiates it for Model/KeyIndex.lean (both the primary-key index and the key indexes).
  Core Lean only; no dependence on any concrete store.
-/
import PonyVerif.Lemmas.KeyIndexInv
namespace PonyVerif.Model.KeyIndex.Abs

/-- the index family maps exactly the current tuples of the live objects `0 .. n-1` -/
structure Exact {ι κ : Type} (n : Nat) (live : Nat → Bool) (key : ι → Nat → Option κ) (ix : ι → κ → Option Nat) : Prop where
  sound : ∀ i v o, ix i v = some o → o < n ∧ live o = true ∧ key i o = some v
  complete : ∀ i o v, o < n → live o = true → key i o = some v → ix i v = some o

set_option linter.unusedSectionVars false
variable {ι κ : Type} [DecidableEq κ] {n : Nat} {live : Nat → Bool} {key : ι → Nat → Option κ} {ix : ι → κ → Option Nat}

theorem Exact.empty (key : ι → Nat → Option κ) (live : Nat → Bool) : Exact 0 live key (fun _ _ => none) :=
  ⟨fun _ _ _ h => (by cases h), fun _ _ _ h => absurd h (Nat.not_lt_zero _)⟩

/-- one object per key value -/
theorem Exact.inj (h : Exact n live key ix) (i : ι) (v : κ) (o₁ o₂ : Nat) (h₁ : o₁ < n) (h₂ : o₂ < n)
    (l₁ : live o₁ = true) (l₂ : live o₂ = true) (k₁ : key i o₁ = some v) (k₂ : key i o₂ = some v) : o₁ = o₂ := by
  have a := h.complete i o₁ v h₁ l₁ k₁
  have b := h.complete i o₂ v h₂ l₂ k₂
  rw [a] at b; exact Option.some.inj b

/-- the per-object form (entries that name `o` carry `o`'s tuple; `o`'s tuples are indexed to `o`) and the domain form -/
theorem Exact.perObject (h : Exact n live key ix) (o : Nat) (ho : o < n) (hl : live o = true) :
    (∀ i v, ix i v = some o → key i o = some v) ∧ (∀ i v, key i o = some v → ix i v = some o) :=
  ⟨fun i v e => (h.sound i v o e).2.2, fun i v e => h.complete i o v ho hl e⟩

theorem Exact.dom (h : Exact n live key ix) (i : ι) (v : κ) (o : Nat) (e : ix i v = some o) : o < n := (h.sound i v o e).1

/-- the same session in another representation -/
theorem Exact.congr (h : Exact n live key ix) {live' : Nat → Bool} {key' : ι → Nat → Option κ} {ix' : ι → κ → Option Nat}
    (hl : ∀ o, o < n → live' o = live o) (hk : ∀ i o, o < n → key' i o = key i o) (hi : ∀ i k, ix' i k = ix i k) :
    Exact n live' key' ix' := by
  constructor
  · intro i v o e
    rw [hi] at e
    obtain ⟨a, b, c⟩ := h.sound i v o e
    exact ⟨a, (hl o a).trans b, (hk i o a).trans c⟩
  · intro i o v ho l k
    rw [hi]
    exact h.complete i o v ho ((hl o ho).symm.trans l) ((hk i o ho).symm.trans k)

/-- a live object `o` gets new key tuples (`Attribute.__set__`, `Entity.set`, `_db_set_`): every index loses the old tuple
    of `o` and gains the new one; `hfree`: the new tuple was not held by ANOTHER object (`setdefault` returned `obj` or
    inserted) — otherwise the call raises CacheIndexError and is undone -/
theorem Exact.update (h : Exact n live key ix) (o : Nat) (ho : o < n) (hlo : live o = true)
    {live' : Nat → Bool} {key' : ι → Nat → Option κ} {ix' : ι → κ → Option Nat}
    (hl' : live' o = true) (hl : ∀ x, x ≠ o → live' x = live x) (hk : ∀ i x, x ≠ o → key' i x = key i x)
    (hix : ∀ i k, ix' i k = if key' i o = some k then some o else if key i o = some k then none else ix i k)
    (hfree : ∀ i v x, key' i o = some v → ix i v = some x → x = o) : Exact n live' key' ix' := by
  constructor
  · intro i v x e
    rw [hix] at e
    by_cases hn : key' i o = some v
    · simp only [hn, if_true, Option.some.injEq] at e
      subst e; exact ⟨ho, hl', hn⟩
    · simp only [hn, if_false] at e
      by_cases hp : key i o = some v
      · simp [hp] at e
      · simp only [hp, if_false] at e
        obtain ⟨a, b, c⟩ := h.sound i v x e
        have hx : x ≠ o := fun e2 => hp (e2 ▸ c)
        exact ⟨a, (hl x hx).trans b, (hk i x hx).trans c⟩
  · intro i x v hx l k
    rw [hix]
    by_cases e : x = o
    · subst e; simp [k]
    · have hold := h.complete i x v hx ((hl x e).symm.trans l) ((hk i x e).symm.trans k)
      have hn : key' i o ≠ some v := fun e2 => e (hfree i v x e2 hold)
      have hp : key i o ≠ some v := fun e2 => by
        have := h.complete i o v ho hlo e2
        rw [hold] at this; exact e (Option.some.inj this)
      simp [hn, hp, hold]

/-- a new object `n` is registered (`Entity.__init__`, a row loaded for the first time); `hfree`: none of its tuples was
    indexed (the constructor's `if val in cache_indexes[attr]: throw`) -/
theorem Exact.insert (h : Exact n live key ix) {live' : Nat → Bool} {key' : ι → Nat → Option κ} {ix' : ι → κ → Option Nat}
    (hl : ∀ x, x < n → live' x = live x) (hk : ∀ i x, x < n → key' i x = key i x)
    (hix : ∀ i k, ix' i k = if live' n = true ∧ key' i n = some k then some n else ix i k)
    (hfree : ∀ i v, live' n = true → key' i n = some v → ix i v = none) : Exact (n + 1) live' key' ix' := by
  constructor
  · intro i v x e
    rw [hix] at e
    by_cases hn : live' n = true ∧ key' i n = some v
    · simp only [hn, and_self, if_true, Option.some.injEq] at e
      subst e; exact ⟨Nat.lt_succ_self _, hn.1, hn.2⟩
    · simp only [hn, if_false] at e
      obtain ⟨a, b, c⟩ := h.sound i v x e
      exact ⟨Nat.lt_succ_of_lt a, (hl x a).trans b, (hk i x a).trans c⟩
  · intro i x v hx l k
    rw [hix]
    by_cases e : x = n
    · subst e; simp [l, k]
    · have hx' : x < n := Nat.lt_of_le_of_ne (Nat.le_of_lt_succ hx) e
      have hold := h.complete i x v hx' ((hl x hx').symm.trans l) ((hk i x hx').symm.trans k)
      have : ¬ (live' n = true ∧ key' i n = some v) := fun ⟨a, b⟩ => by rw [hfree i v a b] at hold; cases hold
      simp [this, hold]

/-- object `o` stops being live (`Entity._delete_`) and its entries are popped -/
theorem Exact.remove (h : Exact n live key ix) (o : Nat) (ho : o < n) (hlo : live o = true)
    {live' : Nat → Bool} {ix' : ι → κ → Option Nat}
    (hl' : live' o = false) (hl : ∀ x, x ≠ o → live' x = live x)
    (hix : ∀ i k, ix' i k = if key i o = some k then none else ix i k) : Exact n live' key ix' := by
  constructor
  · intro i v x e
    rw [hix] at e
    by_cases hp : key i o = some v
    · simp [hp] at e
    · simp only [hp, if_false] at e
      obtain ⟨a, b, c⟩ := h.sound i v x e
      have hx : x ≠ o := fun e2 => hp (e2 ▸ c)
      exact ⟨a, (hl x hx).trans b, c⟩
  · intro i x v hx l k
    rw [hix]
    have hxo : x ≠ o := fun e => by rw [e, hl'] at l; cases l
    have hold := h.complete i x v hx ((hl x hxo).symm.trans l) k
    have hp : key i o ≠ some v := fun e2 => by
      have := h.complete i o v ho hlo e2
      rw [hold] at this; exact hxo (Option.some.inj this)
    simp [hp, hold]

/-! ### the instance for Model/KeyIndex.lean -/

/-- `Inv` of Lemmas/KeyIndexInv.lean is `Exact` for the key indexes (live = not deleted) together with `Exact` for the
    primary-key index (one key, live = still holds its primary key) -/
theorem inv_iff_exact (sch : Schema) (s : Sess) :
    Inv sch s ↔
      Exact s.n (fun o => !(s.obj o).status.isDel) (fun i o => kv sch (s.obj o).vals i) (fun i v => (s.ixs i).get v) ∧
      Exact (ι := Unit) s.n (fun o => (s.obj o).status.holdsPk) (fun _ o => (s.obj o).pk) (fun _ k => s.pkIx.get k) := by
  constructor
  · intro h
    refine ⟨⟨?_, ?_⟩, ⟨?_, ?_⟩⟩
    · intro i v o e
      obtain ⟨a, b, c⟩ := h.key_sound i v o e
      exact ⟨a, by simp [b], c⟩
    · intro i o v ho l k
      exact h.key_complete i o v ho (by simpa using l) k
    · intro _ k o e; exact ⟨(h.pk_sound k o e).1, (h.pk_sound k o e).2.2, (h.pk_sound k o e).2.1⟩
    · intro _ o k ho l p; exact h.pk_complete o k ho p l
  · rintro ⟨h1, h2⟩
    refine ⟨fun k o e => ⟨(h2.sound () k o e).1, (h2.sound () k o e).2.2, (h2.sound () k o e).2.1⟩, fun o k ho p l => h2.complete () o k ho l p, ?_, ?_⟩
    · intro i v o e
      obtain ⟨a, b, c⟩ := h1.sound i v o e
      exact ⟨a, by simpa using b, c⟩
    · intro i o v ho l k
      exact h1.complete i o v ho (by simp [l]) k

end PonyVerif.Model.KeyIndex.Abs
