/-
  Lemmas/KeyIndexInv.lean — the invariant `Inv` of the session key indexes and its preservation by every call of
  Model/KeyIndex.lean (C11).  Core Lean only.
-/
import PonyVerif.Lemmas.KeyIndex
namespace PonyVerif.Model.KeyIndex

/-! ## 1. the invariant -/

/-- `Inv_idx`:
  * the primary-key index is sound (every entry names an object of the session that has this primary key and still
    holds it: not cancelled, not flushed-deleted) and complete (every such object is found under its key);
    together: a partial injection onto the objects that hold a primary key;
  * every unique / composite index maps exactly the CURRENT tuples of the non-deleted objects (tuples with a None /
    not-loaded part are exempt). -/
structure Inv (sch : Schema) (s : Sess) : Prop where
  pk_sound : ∀ k o, s.pkIx.get k = some o → o < s.n ∧ (s.obj o).pk = some k ∧ (s.obj o).status.holdsPk = true
  pk_complete : ∀ o k, o < s.n → (s.obj o).pk = some k → (s.obj o).status.holdsPk = true → s.pkIx.get k = some o
  key_sound : ∀ i v o, (s.ixs i).get v = some o → o < s.n ∧ (s.obj o).status.isDel = false ∧ kv sch (s.obj o).vals i = some v
  key_complete : ∀ i o v, o < s.n → (s.obj o).status.isDel = false → kv sch (s.obj o).vals i = some v → (s.ixs i).get v = some o

theorem Inv.empty (sch : Schema) : Inv sch Sess.empty :=
  ⟨fun _ _ h => by simp [Sess.empty] at h, fun _ _ h => absurd h (Nat.not_lt_zero _),
   fun _ _ _ h => by simp [Sess.empty] at h, fun _ _ _ h => absurd h (Nat.not_lt_zero _)⟩

theorem holdsPk_of_not_isDel {st : Status} (h : st.isDel = false) : st.holdsPk = true := by
  cases st <;> simp_all [Status.isDel, Status.holdsPk]

/-- the part of an object the invariant looks at -/
def ObjSame (sch : Schema) (a b : Obj) : Prop :=
  a.pk = b.pk ∧ a.status.holdsPk = b.status.holdsPk ∧ a.status.isDel = b.status.isDel ∧ ∀ i, kv sch a.vals i = kv sch b.vals i

theorem ObjSame.refl (sch : Schema) (a : Obj) : ObjSame sch a a := ⟨rfl, rfl, rfl, fun _ => rfl⟩

/-- two sessions the invariant cannot tell apart -/
structure SameKeys (sch : Schema) (s s' : Sess) : Prop where
  n : s'.n = s.n
  pk : ∀ k, s'.pkIx.get k = s.pkIx.get k
  ix : IxEq s'.ixs s.ixs
  obj : ∀ o, o < s.n → ObjSame sch (s'.obj o) (s.obj o)

theorem SameKeys.refl (sch : Schema) (s : Sess) : SameKeys sch s s := ⟨rfl, fun _ => rfl, IxEq.refl _, fun _ _ => ObjSame.refl _ _⟩

theorem inv_congr {sch : Schema} {s s' : Sess} (h : SameKeys sch s s') (hI : Inv sch s) : Inv sch s' := by
  constructor
  · intro k o hg
    rw [h.pk] at hg
    obtain ⟨h1, h2, h3⟩ := hI.pk_sound k o hg
    obtain ⟨e1, e2, _, _⟩ := h.obj o h1
    exact ⟨h.n ▸ h1, e1 ▸ h2, e2 ▸ h3⟩
  · intro o k ho hp hs
    rw [h.n] at ho
    obtain ⟨e1, e2, _, _⟩ := h.obj o ho
    rw [h.pk]
    exact hI.pk_complete o k ho (e1 ▸ hp) (e2 ▸ hs)
  · intro i v o hg
    rw [h.ix] at hg
    obtain ⟨h1, h2, h3⟩ := hI.key_sound i v o hg
    obtain ⟨_, _, e3, e4⟩ := h.obj o h1
    exact ⟨h.n ▸ h1, e3 ▸ h2, (e4 i) ▸ h3⟩
  · intro i o v ho hl hk
    rw [h.n] at ho
    obtain ⟨_, _, e3, e4⟩ := h.obj o ho
    rw [h.ix]
    exact hI.key_complete i o v ho (e3 ▸ hl) ((e4 i) ▸ hk)

/-- changing one object in a way the invariant does not see (and anything in the queue) -/
theorem sameKeys_setObj {sch : Schema} (s : Sess) (o : ObjId) (ob' : Obj) (q : List ObjId)
    (h : ObjSame sch ob' (s.obj o)) : SameKeys sch s { s with obj := setObj s.obj o ob', queue := q } := by
  refine ⟨rfl, fun _ => rfl, IxEq.refl _, ?_⟩
  intro o' _
  by_cases e : o' = o
  · subst e; simpa using h
  · simp only [setObj_other _ _ _ _ e]; exact ObjSame.refl _ _

/-! ## 2. key tuples -/

theorem keyval_congr {vals vals' : Nat → Slot} (h : ∀ a, (vals a).key = (vals' a).key) (key : List Nat) :
    keyval vals key = keyval vals' key := by
  induction key with
  | nil => rfl
  | cons a r ih => simp only [keyval, h a, ih]

theorem kv_congr {sch : Schema} {vals vals' : Nat → Slot} (h : ∀ a, (vals a).key = (vals' a).key) (i : Nat) :
    kv sch vals i = kv sch vals' i := by
  unfold kv
  cases sch.keys[i]? with
  | none => rfl
  | some key => cases key with
    | nil => rfl
    | cons a r => exact keyval_congr h _

theorem kv_notLoaded (sch : Schema) (i : Nat) : kv sch (fun _ => Slot.notLoaded) i = none := by
  unfold kv
  cases sch.keys[i]? with
  | none => rfl
  | some key => cases key with
    | nil => rfl
    | cons a r => simp [keyval, Slot.key]

theorem kv_none_of_ge (sch : Schema) (vals : Nat → Slot) (i : Nat) (h : sch.keys.length ≤ i) : kv sch vals i = none := by
  unfold kv
  rw [List.getElem?_eq_none h]

theorem mem_allKeys (sch : Schema) (i : Nat) : i ∈ allKeys sch ↔ i < sch.keys.length := by simp [allKeys]
theorem allKeys_nodup (sch : Schema) : (allKeys sch).Nodup := List.nodup_range

/-! ## 3. the key loop keeps the invariant -/

theorem updKeysGo_each (o : ObjId) (prev new : Nat → Option KeyVal) (ks : List Nat) (hnd : ks.Nodup) (r : KRes)
    (hok : (updKeysGo o prev new ks r).ok = true) : ∀ i, i ∈ ks → updKey (r.ixs i) o (prev i) (new i) ≠ none := by
  induction ks generalizing r with
  | nil => intro i hi; cases hi
  | cons j ks ih =>
    have hj : j ∉ ks := (List.nodup_cons.mp hnd).1
    have hnd' : ks.Nodup := (List.nodup_cons.mp hnd).2
    unfold updKeysGo at hok
    cases hu : updKey (r.ixs j) o (prev j) (new j) with
    | none => simp [hu] at hok
    | some ix' =>
      simp only [hu] at hok
      intro i hi
      rcases List.mem_cons.mp hi with e | hi'
      · subst e; rw [hu]; simp
      · have hij : i ≠ j := fun e => hj (e ▸ hi')
        have := ih hnd' _ hok i hi'
        simpa [setIx_other _ _ _ _ hij] using this

/-- object `o` (live) gets new values `vals'`; the loop over all keys succeeded: the invariant holds for the new state.
    Serves `Attribute.__set__` / `Entity.set` and `_db_set_`. -/
theorem inv_updKeys {sch : Schema} {s : Sess} (hI : Inv sch s) {o : ObjId} (ho : o < s.n) (ob' : Obj)
    (hlive : (s.obj o).status.isDel = false) (hpk : ob'.pk = (s.obj o).pk) (hst : ob'.status.isDel = false) (q : List ObjId)
    (hok : (updKeysGo o (kv sch (s.obj o).vals) (kv sch ob'.vals) (allKeys sch) ⟨s.ixs, [], true⟩).ok = true) :
    Inv sch { s with obj := setObj s.obj o ob',
                     ixs := (updKeysGo o (kv sch (s.obj o).vals) (kv sch ob'.vals) (allKeys sch) ⟨s.ixs, [], true⟩).ixs, queue := q } := by
  have hprev : ∀ i, i ∈ allKeys sch → ∀ pv, kv sch (s.obj o).vals i = some pv → (s.ixs i).get pv = some o :=
    fun i _ pv h => hI.key_complete i o pv ho hlive h
  have hget := updKeysGo_get o (kv sch (s.obj o).vals) (kv sch ob'.vals) (allKeys sch) (allKeys_nodup sch) ⟨s.ixs, [], true⟩ hprev hok
  have heach := updKeysGo_each o (kv sch (s.obj o).vals) (kv sch ob'.vals) (allKeys sch) (allKeys_nodup sch) ⟨s.ixs, [], true⟩ hok
  -- uniform description of the new indexes (for undeclared keys both tuples are none)
  have hget' : ∀ i k, ((updKeysGo o (kv sch (s.obj o).vals) (kv sch ob'.vals) (allKeys sch) ⟨s.ixs, [], true⟩).ixs i).get k =
      if kv sch ob'.vals i = some k then some o else if kv sch (s.obj o).vals i = some k then none else (s.ixs i).get k := by
    intro i k
    rw [hget i k]
    by_cases hi : i ∈ allKeys sch
    · simp [hi]
    · have hge : sch.keys.length ≤ i := Nat.le_of_not_lt (fun h => hi ((mem_allKeys sch i).mpr h))
      simp [hi, kv_none_of_ge sch _ i hge]
  constructor
  · intro k x hg
    obtain ⟨h1, h2, h3⟩ := hI.pk_sound k x hg
    refine ⟨h1, ?_, ?_⟩
    · by_cases e : x = o
      · subst e; simpa [hpk] using h2
      · simpa [setObj_other _ _ _ _ e] using h2
    · by_cases e : x = o
      · subst e; simpa using holdsPk_of_not_isDel hst
      · simpa [setObj_other _ _ _ _ e] using h3
  · intro x k hx hp hs
    by_cases e : x = o
    · subst e
      simp only [setObj_same] at hp hs
      exact hI.pk_complete x k ho (hpk ▸ hp) (holdsPk_of_not_isDel hlive)
    · simp only [setObj_other _ _ _ _ e] at hp hs
      exact hI.pk_complete x k hx hp hs
  · intro i v x hg
    simp only at hg
    rw [hget' i v] at hg
    by_cases hn : kv sch ob'.vals i = some v
    · simp only [hn, if_true, Option.some.injEq] at hg
      subst hg
      exact ⟨ho, by simpa using hst, by simpa using hn⟩
    · simp only [hn, if_false] at hg
      by_cases hp : kv sch (s.obj o).vals i = some v
      · simp [hp] at hg
      · simp only [hp, if_false] at hg
        obtain ⟨h1, h2, h3⟩ := hI.key_sound i v x hg
        have e : x ≠ o := fun e => hp (e ▸ h3)
        exact ⟨h1, by simpa [setObj_other _ _ _ _ e] using h2, by simpa [setObj_other _ _ _ _ e] using h3⟩
  · intro i x v hx hl hk
    simp only
    rw [hget' i v]
    by_cases e : x = o
    · subst e
      simp only [setObj_same] at hk
      simp [hk]
    · simp only [setObj_other _ _ _ _ e] at hl hk
      have hold := hI.key_complete i x v hx hl hk
      have hp : kv sch (s.obj o).vals i ≠ some v := by
        intro hp
        have := hI.key_complete i o v ho hlive hp
        rw [hold] at this
        exact e (Option.some.inj this)
      have hn : kv sch ob'.vals i ≠ some v := by
        intro hn
        have hi : i ∈ allKeys sch := by
          rw [mem_allKeys]
          apply Nat.lt_of_not_le
          intro hge
          rw [kv_none_of_ge sch _ i hge] at hn
          cases hn
        apply heach i hi
        rw [updKey_none]
        exact ⟨fun hpn => hp (hpn ▸ hn), v, x, hn, hold, e⟩
      simp [hn, hp, hold]

/-- a stopped loop followed by the undo of its trail gives back indexes the invariant cannot tell from the old ones -/
theorem undo_restores {sch : Schema} {s : Sess} (hI : Inv sch s) {o : ObjId} (ho : o < s.n)
    (hlive : (s.obj o).status.isDel = false) (new : Nat → Option KeyVal) :
    IxEq (undoKeys o (updKeysGo o (kv sch (s.obj o).vals) new (allKeys sch) ⟨s.ixs, [], true⟩).trail
                     (updKeysGo o (kv sch (s.obj o).vals) new (allKeys sch) ⟨s.ixs, [], true⟩).ixs) s.ixs := by
  apply updKeysGo_undo o _ new (allKeys sch) (allKeys_nodup sch) ⟨s.ixs, [], true⟩ ⟨s.ixs, [], true⟩
  · intro i _; simp [trailIdx]
  · intro i _ pv h; exact hI.key_complete i o pv ho hlive h
  · intro i _ nv _ hg; exact (hI.key_sound i nv o hg).2.2
  · exact IxEq.refl _

end PonyVerif.Model.KeyIndex
