/-
  Lemmas for engine Q (C01 / C02): three-valued logic, the SQL evaluator, and the monad methods of Model/Translate.lean.
-/
import PonyVerif.Model.Translate
namespace PonyVerif.Model.Q

/-! ### three-valued logic -/

@[simp] theorem K.not_not (k : K) : k.not.not = k := by cases k <;> rfl
@[simp] theorem K.and_tt (k : K) : K.and k .tt = k := by cases k <;> rfl
@[simp] theorem K.tt_and (k : K) : K.and .tt k = k := by cases k <;> rfl
@[simp] theorem K.or_ff (k : K) : K.or k .ff = k := by cases k <;> rfl
@[simp] theorem K.ff_or (k : K) : K.or .ff k = k := by cases k <;> rfl
theorem K.and_assoc (a b c : K) : K.and (K.and a b) c = K.and a (K.and b c) := by cases a <;> cases b <;> cases c <;> rfl
theorem K.or_assoc (a b c : K) : K.or (K.or a b) c = K.or a (K.or b c) := by cases a <;> cases b <;> cases c <;> rfl
@[simp] theorem K.not_ofBool (b : Bool) : (K.ofBool b).not = K.ofBool (!b) := by cases b <;> rfl
@[simp] theorem K.ofBool_eq_tt (b : Bool) : (K.ofBool b = .tt) = (b = true) := by cases b <;> simp [K.ofBool]
@[simp] theorem K.ofBool_eq_ff (b : Bool) : (K.ofBool b = .ff) = (b = false) := by cases b <;> simp [K.ofBool]
@[simp] theorem K.ofBool_ne_unk (b : Bool) : (K.ofBool b = .unk) = False := by cases b <;> simp [K.ofBool]

theorem foldl_and_init (ks : List K) (a : K) : ks.foldl K.and a = K.and a (ks.foldl K.and .tt) := by
  induction ks generalizing a with
  | nil => simp
  | cons k ks ih => simp only [List.foldl_cons]; rw [ih, ih (K.and .tt k)]; simp [K.and_assoc]

theorem foldl_or_init (ks : List K) (a : K) : ks.foldl K.or a = K.or a (ks.foldl K.or .ff) := by
  induction ks generalizing a with
  | nil => simp
  | cons k ks ih => simp only [List.foldl_cons]; rw [ih, ih (K.or .ff k)]; simp [K.or_assoc]

theorem foldl_and_append (xs ys : List K) : (xs ++ ys).foldl K.and .tt = K.and (xs.foldl K.and .tt) (ys.foldl K.and .tt) := by
  rw [List.foldl_append, foldl_and_init]

theorem foldl_or_append (xs ys : List K) : (xs ++ ys).foldl K.or .ff = K.or (xs.foldl K.or .ff) (ys.foldl K.or .ff) := by
  rw [List.foldl_append, foldl_or_init]

/-- the SQL outcome `s` refines the Python outcome `p`: they select the same rows, SQL false means Python false; SQL may be
    unknown where Python's truth test of a missing value says false -/
def R (s p : K) : Prop := (s = .tt ↔ p = .tt) ∧ (s = .ff → p = .ff)

theorem R.refl (k : K) : R k k := ⟨Iff.rfl, id⟩
theorem R.and {s1 p1 s2 p2 : K} (h1 : R s1 p1) (h2 : R s2 p2) : R (K.and s1 s2) (K.and p1 p2) := by
  obtain ⟨a1, b1⟩ := h1; obtain ⟨a2, b2⟩ := h2
  cases s1 <;> cases s2 <;> cases p1 <;> cases p2 <;> simp_all [R, K.and]
theorem R.or {s1 p1 s2 p2 : K} (h1 : R s1 p1) (h2 : R s2 p2) : R (K.or s1 s2) (K.or p1 p2) := by
  obtain ⟨a1, b1⟩ := h1; obtain ⟨a2, b2⟩ := h2
  cases s1 <;> cases s2 <;> cases p1 <;> cases p2 <;> simp_all [R, K.or]

/-! ### evaluator -/

@[simp] theorem toCond_ofCond (d : Dialect) (k : K) : toCond d (ofCond d k) = some k := by
  cases k <;> cases h : d.isPg <;> simp [toCond, ofCond, h, K.ofBool]

theorem evalCond_cmp (L : LikeFn) (d : Dialect) (env : SEnv) (op : CmpOp) (a b : Sql) :
    evalCond L d env (.cmp op a b) =
      match eval L d env a, eval L d env b with
      | some va, some vb => cmpVals op va vb
      | _, _ => none := by
  simp only [evalCond, eval]
  cases eval L d env a <;> cases eval L d env b <;> simp
  rename_i va vb
  cases cmpVals op va vb <;> simp

end PonyVerif.Model.Q
