/-
  Lemmas for engine Q (C01 / C02): three-valued logic, the SQL evaluator, and the monad methods of Model/Translate.lean.
-/
import PonyVerif.Model.Translate
namespace PonyVerif.Model.Q

/-! ### three-valued logic -/

@[simp] theorem K.not_not (k : K) : k.not.not = k := by cases k <;> rfl
@[simp] theorem K.and_tt (k : K) : K.and k .tt = k := by cases k <;> rfl
@[simp] theorem K.tt_and (k : K) : K.and .tt k = k := by cases k <;> rfl
@[simp] theorem K.or_ff (k : K) : K.or k .ff = k := by cases k <;> rfl
@[simp] theorem K.ff_or (k : K) : K.or .ff k = k := by cases k <;> rfl
theorem K.and_assoc (a b c : K) : K.and (K.and a b) c = K.and a (K.and b c) := by cases a <;> cases b <;> cases c <;> rfl
theorem K.or_assoc (a b c : K) : K.or (K.or a b) c = K.or a (K.or b c) := by cases a <;> cases b <;> cases c <;> rfl
@[simp] theorem K.not_ofBool (b : Bool) : (K.ofBool b).not = K.ofBool (!b) := by cases b <;> rfl
@[simp] theorem K.ofBool_eq_tt (b : Bool) : (K.ofBool b = .tt) = (b = true) := by cases b <;> simp [K.ofBool]
@[simp] theorem K.ofBool_eq_ff (b : Bool) : (K.ofBool b = .ff) = (b = false) := by cases b <;> simp [K.ofBool]
@[simp] theorem K.ofBool_ne_unk (b : Bool) : (K.ofBool b = .unk) = False := by cases b <;> simp [K.ofBool]

theorem foldl_and_init (ks : List K) (a : K) : ks.foldl K.and a = K.and a (ks.foldl K.and .tt) := by
  induction ks generalizing a with
  | nil => simp
  | cons k ks ih => simp only [List.foldl_cons]; rw [ih, ih (K.and .tt k)]; simp [K.and_assoc]

theorem foldl_or_init (ks : List K) (a : K) : ks.foldl K.or a = K.or a (ks.foldl K.or .ff) := by
  induction ks generalizing a with
  | nil => simp
  | cons k ks ih => simp only [List.foldl_cons]; rw [ih, ih (K.or .ff k)]; simp [K.or_assoc]

theorem foldl_and_append (xs ys : List K) : (xs ++ ys).foldl K.and .tt = K.and (xs.foldl K.and .tt) (ys.foldl K.and .tt) := by
  rw [List.foldl_append, foldl_and_init]

theorem foldl_or_append (xs ys : List K) : (xs ++ ys).foldl K.or .ff = K.or (xs.foldl K.or .ff) (ys.foldl K.or .ff) := by
  rw [List.foldl_append, foldl_or_init]

/-- the SQL outcome `s` refines the Python outcome `p`: they select the same rows, SQL false means Python false; SQL may be
    unknown where Python's truth test of a missing value says false -/
def R (s p : K) : Prop := (s = .tt ↔ p = .tt) ∧ (s = .ff → p = .ff)

theorem R.refl (k : K) : R k k := ⟨Iff.rfl, id⟩
theorem R.and {s1 p1 s2 p2 : K} (h1 : R s1 p1) (h2 : R s2 p2) : R (K.and s1 s2) (K.and p1 p2) := by
  obtain ⟨a1, b1⟩ := h1; obtain ⟨a2, b2⟩ := h2
  cases s1 <;> cases s2 <;> cases p1 <;> cases p2 <;> simp_all [R, K.and]
theorem R.or {s1 p1 s2 p2 : K} (h1 : R s1 p1) (h2 : R s2 p2) : R (K.or s1 s2) (K.or p1 p2) := by
  obtain ⟨a1, b1⟩ := h1; obtain ⟨a2, b2⟩ := h2
  cases s1 <;> cases s2 <;> cases p1 <;> cases p2 <;> simp_all [R, K.or]

/-! ### evaluator -/

@[simp] theorem toCond_ofCond (d : Dialect) (k : K) : toCond d (ofCond d k) = some k := by
  cases k <;> cases h : d.isPg <;> simp [toCond, ofCond, h, K.ofBool]

theorem evalCond_cmp (L : LikeFn) (d : Dialect) (env : SEnv) (op : CmpOp) (a b : Sql) :
    evalCond L d env (.cmp op a b) =
      match eval L d env a, eval L d env b with
      | some va, some vb => cmpVals op va vb
      | _, _ => none := by
  simp only [evalCond, eval]
  cases eval L d env a <;> cases eval L d env b <;> simp
  rename_i va vb
  cases cmpVals op va vb <;> simp


theorem evalCond_not (L : LikeFn) (d : Dialect) (env : SEnv) (a : Sql) :
    evalCond L d env (.not a) = (evalCond L d env a).map K.not := by
  simp only [evalCond, eval]
  cases (eval L d env a).bind (toCond d) <;> simp

def evalAnd (L : LikeFn) (d : Dialect) (env : SEnv) (xs : SqlList) : Option K := (evalAll L d env xs).map (fun ks => ks.foldl K.and .tt)
def evalOr (L : LikeFn) (d : Dialect) (env : SEnv) (xs : SqlList) : Option K := (evalAll L d env xs).map (fun ks => ks.foldl K.or .ff)

theorem evalCond_and (L : LikeFn) (d : Dialect) (env : SEnv) (xs : SqlList) : evalCond L d env (.and xs) = evalAnd L d env xs := by
  simp only [evalCond, eval, evalAnd]; cases evalAll L d env xs <;> simp
theorem evalCond_or (L : LikeFn) (d : Dialect) (env : SEnv) (xs : SqlList) : evalCond L d env (.or xs) = evalOr L d env xs := by
  simp only [evalCond, eval, evalOr]; cases evalAll L d env xs <;> simp

theorem evalAll_cons (L : LikeFn) (d : Dialect) (env : SEnv) (h : Sql) (t : SqlList) :
    evalAll L d env (.cons h t) = match evalCond L d env h, evalAll L d env t with
      | some k, some ks => some (k :: ks)
      | _, _ => none := by
  simp only [evalAll, evalCond]
  cases (eval L d env h).bind (toCond d) <;> cases evalAll L d env t <;> rfl

theorem evalAll_append (L : LikeFn) (d : Dialect) (env : SEnv) (ys : SqlList) : (xs : SqlList) →
    evalAll L d env (xs.append ys) = match evalAll L d env xs, evalAll L d env ys with
      | some a, some b => some (a ++ b)
      | _, _ => none
  | .nil => by simp [SqlList.append, evalAll]; cases evalAll L d env ys <;> simp
  | .cons h t => by
    have ih := evalAll_append L d env ys t
    simp only [SqlList.append, evalAll_cons, ih]
    cases evalCond L d env h <;> cases evalAll L d env t <;> cases evalAll L d env ys <;> simp

theorem evalAnd_append (L : LikeFn) (d : Dialect) (env : SEnv) (xs ys : SqlList) :
    evalAnd L d env (xs.append ys) = match evalAnd L d env xs, evalAnd L d env ys with
      | some a, some b => some (K.and a b)
      | _, _ => none := by
  simp only [evalAnd, evalAll_append]
  cases evalAll L d env xs <;> cases evalAll L d env ys <;> simp
  rw [foldl_and_init]

theorem evalOr_append (L : LikeFn) (d : Dialect) (env : SEnv) (xs ys : SqlList) :
    evalOr L d env (xs.append ys) = match evalOr L d env xs, evalOr L d env ys with
      | some a, some b => some (K.or a b)
      | _, _ => none := by
  simp only [evalOr, evalAll_append]
  cases evalAll L d env xs <;> cases evalAll L d env ys <;> simp
  rw [foldl_or_init]

theorem evalAnd_single (L : LikeFn) (d : Dialect) (env : SEnv) (x : Sql) : evalAnd L d env (.cons x .nil) = evalCond L d env x := by
  simp only [evalAnd, evalAll_cons]; cases evalCond L d env x <;> simp [evalAll]
theorem evalOr_single (L : LikeFn) (d : Dialect) (env : SEnv) (x : Sql) : evalOr L d env (.cons x .nil) = evalCond L d env x := by
  simp only [evalOr, evalAll_cons]; cases evalCond L d env x <;> simp [evalAll]

theorem evalOr_pair (L : LikeFn) (d : Dialect) (env : SEnv) (x y : Sql) :
    evalOr L d env (.cons x (.cons y .nil)) = match evalCond L d env x, evalCond L d env y with
      | some a, some b => some (K.or a b)
      | _, _ => none := by
  simp only [evalOr, evalAll_cons]; cases evalCond L d env x <;> cases evalCond L d env y <;> simp [evalAll]

/-! ### encoding of Python values -/

@[simp] theorem encV_none (d : Dialect) : encV d none = .null := rfl
theorem encS_ne_null (d : Dialect) (x : Scalar) : encS d x ≠ .null := by
  cases x <;> simp [encS]; split <;> simp
theorem encV_eq_null (d : Dialect) (v : Option Scalar) : (encV d v == .null) = (v == none) := by
  cases v with
  | none => rfl
  | some x => simp [encV]; exact encS_ne_null d x

def hasTy : Ty → Scalar → Prop
  | .int, .int _ => True
  | .bool, .bool _ => True
  | .str, .str _ => True
  | _, _ => False

/-- the row and the parameters carry values of the declared types; only nullable attributes may be missing -/
structure WT (sch : Schema) (env : PEnv) : Prop where
  attr : ∀ n t nl, sch.attr n = some (t, nl) → (match env.col n with
    | none => nl = true
    | some v => hasTy t v)
  par : ∀ n t, sch.par n = some t → hasTy t (env.par n)

/-- the backend's LIKE agrees with Python's `in` / `startswith` / `endswith` on the patterns `_like` builds for constants
    (proved for the matcher of Model/SqlText.lean in C06_like_const, C06_like_const_backslash_partial) -/
def LikeOK (L : LikeFn) (d : Dialect) : Prop :=
  ∀ k pat s, okPat d pat = true → L.run d (likePattern k pat) (likeEsc pat) s = pyLike k pat s

structure Cx where
  sch : Schema
  d : Dialect
  L : LikeFn
  env : PEnv

abbrev Cx.ev (C : Cx) (s : Sql) : Option Val := eval C.L C.d (senv C.d C.env) s
abbrev Cx.evc (C : Cx) (s : Sql) : Option K := evalCond C.L C.d (senv C.d C.env) s

/-- invariant of a value monad for expression `e` -/
def ValOK (C : Cx) (e : Expr) (ty : Ty) (nl : Bool) (sql : Sql) : Prop :=
  ∃ v, py C.env e = .val v ∧ (∀ x, v = some x → hasTy ty x) ∧ C.ev sql = some (encV C.d v) ∧
    ((nl = false ∨ nn C.sch e = true) → v ≠ none)

/-- invariant of a condition for expression `e` -/
def CondOK (C : Cx) (e : Expr) (sql : Sql) : Prop :=
  ∃ s, C.evc sql = some s ∧ R s (py C.env e).asK ∧ (exact C.sch e = true → s = (py C.env e).asK)

def MonadOK (C : Cx) (e : Expr) : Monad → Prop
  | .val _ ty nl sql => ValOK C e ty nl sql
  | .noneM => False
  | m => CondOK C e m.getsql


/-! ### values used as conditions -/

theorem exact_of_valueSorted (sch : Schema) (e : Expr) (h : valueSorted e = true) : exact sch e = nn sch e := by
  cases e <;> simp_all [valueSorted, exact]

theorem evc_of_ev (C : Cx) (sql : Sql) (v : Val) (h : C.ev sql = some v) : C.evc sql = toCond C.d v := by
  simp only [Cx.evc, evalCond]; simp only [Cx.ev] at h; rw [h]; rfl

theorem toCond_encS_bool (d : Dialect) (b : Bool) : toCond d (encS d (.bool b)) = some (K.ofBool b) := by
  cases h : d.isPg <;> cases b <;> simp [encS, toCond, h, boolInt, K.ofBool]

/-- a bool-typed value monad used directly as a condition -/
theorem ValOK.cond_bool {C : Cx} {e : Expr} {nl : Bool} {sql : Sql} (hs : valueSorted e = true)
    (h : ValOK C e .bool nl sql) : CondOK C e sql := by
  obtain ⟨v, hpy, hty, hev, hnn⟩ := h
  rw [CondOK, hpy, evc_of_ev C sql _ hev, exact_of_valueSorted _ _ hs]
  cases v with
  | none => exact ⟨.unk, rfl, ⟨by simp [PyR.asK], by simp⟩, fun hn => absurd rfl (hnn (Or.inr hn))⟩
  | some x =>
    cases x with
    | bool b => exact ⟨K.ofBool b, by simp [encV, toCond_encS_bool], by simpa [PyR.asK, truthS] using R.refl _, fun _ => by simp [PyR.asK, truthS]⟩
    | int i => exact absurd (hty _ rfl) (by simp [hasTy])
    | str s => exact absurd (hty _ rfl) (by simp [hasTy])

theorem ev_value (C : Cx) (l : Lit) : C.ev (.value l) = some (litVal C.d l) := by simp [Cx.ev, eval]

/-- `NumericMixin.nonzero` on an int monad -/
theorem ValOK.nonzero_int {C : Cx} {e : Expr} {nl : Bool} {sql : Sql} (hs : valueSorted e = true)
    (h : ValOK C e .int nl sql) : CondOK C e (.cmp .ne sql (.value (.int 0))) := by
  obtain ⟨v, hpy, hty, hev, hnn⟩ := h
  simp only [Cx.ev] at hev
  rw [CondOK, hpy, Cx.evc, evalCond_cmp, hev, exact_of_valueSorted _ _ hs]
  simp only [eval, litVal]
  cases v with
  | none => exact ⟨.unk, rfl, ⟨by simp [PyR.asK], by simp⟩, fun hn => absurd rfl (hnn (Or.inr hn))⟩
  | some x =>
    cases x with
    | int i => exact ⟨K.ofBool (i != 0), by simp [encV, encS, cmpVals, cmpInt], by simpa [PyR.asK, truthS] using R.refl _, fun _ => by simp [PyR.asK, truthS]⟩
    | bool b => exact absurd (hty _ rfl) (by simp [hasTy])
    | str s => exact absurd (hty _ rfl) (by simp [hasTy])

/-- `StringMixin.nonzero` -/
theorem ValOK.nonzero_str {C : Cx} {e : Expr} {nl : Bool} {sql : Sql} (hs : valueSorted e = true)
    (h : ValOK C e .str nl sql) : CondOK C e (.cmp .ne sql (.value (.str ""))) := by
  obtain ⟨v, hpy, hty, hev, hnn⟩ := h
  simp only [Cx.ev] at hev
  rw [CondOK, hpy, Cx.evc, evalCond_cmp, hev, exact_of_valueSorted _ _ hs]
  simp only [eval, litVal]
  cases v with
  | none => exact ⟨.unk, rfl, ⟨by simp [PyR.asK], by simp⟩, fun hn => absurd rfl (hnn (Or.inr hn))⟩
  | some x =>
    cases x with
    | str t => exact ⟨K.ofBool (t != ""), by simp [encV, encS, cmpVals, cmpStr], by simpa [PyR.asK, truthS] using R.refl _, fun _ => by simp [PyR.asK, truthS]⟩
    | bool b => exact absurd (hty _ rfl) (by simp [hasTy])
    | int i => exact absurd (hty _ rfl) (by simp [hasTy])

/-- `if monad.type is not bool: monad = monad.nonzero()` keeps the invariant -/
theorem condOf_ok {C : Cx} {e : Expr} {m : Monad} (hm : MonadOK C e m) (hs : ∀ c t n s, m = .val c t n s → valueSorted e = true) :
    CondOK C e (condOf C.d m).getsql := by
  cases m with
  | val c t n s =>
    have hv := hs c t n s rfl
    cases t with
    | bool => simpa [condOf, Monad.ty, MTy.ofTy, Monad.getsql] using ValOK.cond_bool hv hm
    | int => simpa [condOf, Monad.ty, MTy.ofTy, nonzero, Monad.getsql] using ValOK.nonzero_int hv hm
    | str => simpa [condOf, Monad.ty, MTy.ofTy, nonzero, Monad.getsql] using ValOK.nonzero_str hv hm
  | noneM => exact absurd hm (by simp [MonadOK])
  | cmp op l r n => simpa [condOf, Monad.ty, MonadOK] using hm
  | bexpr s n => simpa [condOf, Monad.ty, MonadOK] using hm
  | land ops n => simpa [condOf, Monad.ty, MonadOK] using hm
  | lor ops n => simpa [condOf, Monad.ty, MonadOK] using hm
  | lnot m' => simpa [condOf, Monad.ty, MonadOK] using hm

theorem condOf_ty (d : Dialect) (m : Monad) (h : m ≠ .noneM) : (condOf d m).ty = .bool := by
  cases m with
  | val c t n s => cases t <;> simp [condOf, Monad.ty, MTy.ofTy, nonzero]
  | noneM => exact absurd rfl h
  | _ => simp [condOf, Monad.ty]

theorem evalAnd_flat (C : Cx) (m : Monad) : evalAnd C.L C.d (senv C.d C.env) (flatAnd m) = C.evc m.getsql := by
  cases m <;> simp [flatAnd, Monad.getsql, evalAnd_single, Cx.evc, evalCond_and]

theorem evalOr_flat (C : Cx) (m : Monad) : evalOr C.L C.d (senv C.d C.env) (flatOr m) = C.evc m.getsql := by
  cases m <;> simp [flatOr, Monad.getsql, evalOr_single, Cx.evc, evalCond_or]


@[simp] theorem Val.int_beq_null (i : Int) : (Val.int i == Val.null) = false := by simp
@[simp] theorem Val.str_beq_null (i : String) : (Val.str i == Val.null) = false := by simp
@[simp] theorem Val.bool_beq_null (i : Bool) : (Val.bool i == Val.null) = false := by simp
@[simp] theorem Val.int_bne_null (i : Int) : (Val.int i != Val.null) = true := by simp
@[simp] theorem Val.str_bne_null (i : String) : (Val.str i != Val.null) = true := by simp
@[simp] theorem Val.bool_bne_null (i : Bool) : (Val.bool i != Val.null) = true := by simp
@[simp] theorem toCond_null (d : Dialect) : toCond d .null = some .unk := rfl
@[simp] theorem K.not_unk : K.unk.not = .unk := rfl
@[simp] theorem K.not_tt : K.tt.not = .ff := rfl
@[simp] theorem K.not_ff : K.ff.not = .tt := rfl
@[simp] theorem K.ofBool_false : K.ofBool false = .ff := rfl
@[simp] theorem K.ofBool_true : K.ofBool true = .tt := rfl
@[simp] theorem not_bne' {α} [BEq α] (a b : α) : (!(a != b)) = (a == b) := by simp [bne]

/-! ### negation of a value: `NumericMixin.negate`, `StringMixin.negate` -/

theorem evc_cmp_lit (C : Cx) (op : CmpOp) (sql : Sql) (l : Lit) (va : Val) (h : C.ev sql = some va) :
    C.evc (.cmp op sql (.value l)) = cmpVals op va (litVal C.d l) := by
  simp only [Cx.ev] at h; simp only [Cx.evc, evalCond_cmp, h, eval]

theorem evc_isNull (C : Cx) (sql : Sql) (va : Val) (h : C.ev sql = some va) :
    C.evc (.isNull sql) = some (K.ofBool (va == .null)) := by
  simp only [Cx.ev] at h; simp only [Cx.evc, evalCond, eval, h, Option.bind_some, toCond_ofCond]

theorem evc_isNotNull (C : Cx) (sql : Sql) (va : Val) (h : C.ev sql = some va) :
    C.evc (.isNotNull sql) = some (K.ofBool (va != .null)) := by
  simp only [Cx.ev] at h; simp only [Cx.evc, evalCond, eval, h, Option.bind_some, toCond_ofCond]

theorem evc_or_pair (C : Cx) (x y : Sql) :
    C.evc (.or (.cons x (.cons y .nil))) = match C.evc x, C.evc y with
      | some a, some b => some (K.or a b)
      | _, _ => none := by
  simp only [Cx.evc, evalCond_or, evalOr_pair]

theorem ev_coalesce_lit (C : Cx) (sql : Sql) (l : Lit) (va : Val) (h : C.ev sql = some va) :
    C.ev (.coalesce sql (.value l)) = if sameKind va (litVal C.d l) then some (if va == .null then litVal C.d l else va) else none := by
  simp only [Cx.ev] at h; simp only [Cx.ev, eval, h]

theorem evc_not (C : Cx) (a : Sql) : C.evc (.not a) = (C.evc a).map K.not := evalCond_not _ _ _ _

theorem negate_val {C : Cx} {e : Expr} {cls : MCls} {ty : Ty} {nl : Bool} {sql : Sql} (hs : valueSorted e = true)
    (h : ValOK C e ty nl sql) :
    C.evc (negate C.d (.val cls ty nl sql)).getsql = some (py C.env e).asK.not := by
  obtain ⟨v, hpy, hty, hev, hnn⟩ := h
  rw [hpy]
  cases v with
  | none =>
    -- the value is missing: the monad is flagged nullable and the expression may be missing
    have hnl : nl = true := by cases nl <;> simp_all
    have hn : nn C.sch e = false := by cases hh : nn C.sch e <;> simp_all
    subst hnl
    have hev' : C.ev sql = some .null := hev
    cases ty with
    | int =>
      by_cases hc : cls = .attr
      · simp [negate, hc, Monad.getsql, evc_or_pair, evc_cmp_lit C _ _ _ _ hev', evc_isNull C _ _ hev', cmpVals, PyR.asK, K.or, K.ofBool, K.not]
      · simp [negate, hc, Monad.getsql, PyR.asK, K.not]
        rw [evc_cmp_lit C .eq _ (.int 0) (.int 0) (by rw [ev_coalesce_lit C _ _ _ hev']; simp [sameKind, litVal])]
        simp [cmpVals, litVal, cmpInt, K.ofBool]
    | str =>
      by_cases hc : cls = .attr
      · simp [negate, hc, Monad.getsql, evc_or_pair, evc_cmp_lit C _ _ _ _ hev', evc_isNull C _ _ hev', cmpVals, PyR.asK, K.or, K.ofBool, K.not]
      · simp [negate, hc, Monad.getsql, PyR.asK, K.not]
        rw [evc_cmp_lit C .eq _ (.str "") (.str "") (by rw [ev_coalesce_lit C _ _ _ hev']; simp [sameKind, litVal])]
        simp [cmpVals, litVal, cmpStr, K.ofBool]
    | bool =>
      cases hd : C.d.isPg with
      | false =>
        by_cases hc : cls = .attr
        · simp [negate, hd, hc, Monad.getsql, evc_or_pair, evc_cmp_lit C _ _ _ _ hev', evc_isNull C _ _ hev', cmpVals, PyR.asK, K.or, K.ofBool, K.not]
        · simp [negate, hd, hc, Monad.getsql, PyR.asK, K.not]
          rw [evc_cmp_lit C .eq _ (.int 0) (.int 0) (by rw [ev_coalesce_lit C _ _ _ hev']; simp [sameKind, litVal])]
          simp [cmpVals, litVal, cmpInt, K.ofBool]
      | true =>
        by_cases hc : cls = .attr
        · simp [negate, hd, hc, Monad.getsql, evc_or_pair, evc_not, evc_of_ev C _ _ hev', evc_isNull C _ _ hev', toCond, PyR.asK, K.or, K.ofBool, K.not]
        · simp [negate, hd, hc, Monad.getsql, PyR.asK, K.not]
          rw [evc_not, evc_of_ev C _ (.bool false) (by rw [ev_coalesce_lit C _ _ _ hev']; simp [sameKind, litVal, hd])]
          simp [toCond, hd]
  | some x =>
    have hev' : C.ev sql = some (encS C.d x) := hev
    have hne : encS C.d x ≠ .null := encS_ne_null _ _
    cases ty with
    | int =>
      cases x with
      | int i =>
        have e1 : C.evc (.cmp .eq sql (.value (.int 0))) = some (K.ofBool (i == 0)) := by
          rw [evc_cmp_lit C _ _ _ _ hev']; simp [encS, litVal, cmpVals, cmpInt]
        cases nl with
        | false => simp [negate, Monad.getsql, e1, PyR.asK, truthS]
        | true =>
          by_cases hc : cls = .attr
          · simp [negate, hc, Monad.getsql, evc_or_pair, e1, evc_isNull C _ _ hev', encS, PyR.asK, truthS]
          · simp [negate, hc, Monad.getsql, PyR.asK, truthS]
            rw [evc_cmp_lit C .eq _ (.int 0) (.int i) (by rw [ev_coalesce_lit C _ _ _ hev']; simp [sameKind, litVal, encS])]
            simp [cmpVals, litVal, cmpInt]
      | bool b => exact absurd (hty _ rfl) (by simp [hasTy])
      | str t => exact absurd (hty _ rfl) (by simp [hasTy])
    | str =>
      cases x with
      | str t =>
        have e1 : C.evc (.cmp .eq sql (.value (.str ""))) = some (K.ofBool (t == "")) := by
          rw [evc_cmp_lit C _ _ _ _ hev']; simp [encS, litVal, cmpVals, cmpStr]
        cases nl with
        | false => simp [negate, Monad.getsql, e1, PyR.asK, truthS]
        | true =>
          by_cases hc : cls = .attr
          · simp [negate, hc, Monad.getsql, evc_or_pair, e1, evc_isNull C _ _ hev', encS, PyR.asK, truthS]
          · simp [negate, hc, Monad.getsql, PyR.asK, truthS]
            rw [evc_cmp_lit C .eq _ (.str "") (.str t) (by rw [ev_coalesce_lit C _ _ _ hev']; simp [sameKind, litVal, encS])]
            simp [cmpVals, litVal, cmpStr]
      | bool b => exact absurd (hty _ rfl) (by simp [hasTy])
      | int i => exact absurd (hty _ rfl) (by simp [hasTy])
    | bool =>
      cases x with
      | bool b =>
        cases hd : C.d.isPg with
        | false =>
          have hev2 : C.ev sql = some (.int (boolInt b)) := by simpa [encS, hd] using hev'
          have e1 : C.evc (.cmp .eq sql (.value (.int 0))) = some (K.ofBool (!b)) := by
            rw [evc_cmp_lit C _ _ _ _ hev2]; cases b <;> simp [litVal, cmpVals, cmpInt, boolInt]
          cases nl with
          | false => simp [negate, hd, Monad.getsql, e1, PyR.asK, truthS]
          | true =>
            by_cases hc : cls = .attr
            · simp [negate, hd, hc, Monad.getsql, evc_or_pair, e1, evc_isNull C _ _ hev2, PyR.asK, truthS]
            · simp [negate, hd, hc, Monad.getsql, PyR.asK, truthS]
              rw [evc_cmp_lit C .eq _ (.int 0) (.int (boolInt b)) (by rw [ev_coalesce_lit C _ _ _ hev2]; simp [sameKind, litVal])]
              cases b <;> simp [cmpVals, litVal, cmpInt, boolInt]
        | true =>
          have hev2 : C.ev sql = some (.bool b) := by simpa [encS, hd] using hev'
          have e1 : C.evc (.not sql) = some (K.ofBool (!b)) := by
            rw [evc_not, evc_of_ev C _ _ hev2]; simp [toCond, hd]
          cases nl with
          | false => simp [negate, hd, Monad.getsql, e1, PyR.asK, truthS]
          | true =>
            by_cases hc : cls = .attr
            · simp [negate, hd, hc, Monad.getsql, evc_or_pair, e1, evc_isNull C _ _ hev2, PyR.asK, truthS]
            · simp [negate, hd, hc, Monad.getsql, PyR.asK, truthS]
              rw [evc_not, evc_of_ev C _ (.bool b) (by rw [ev_coalesce_lit C _ _ _ hev2]; simp [sameKind, litVal, hd])]
              simp [toCond, hd]
      | int i => exact absurd (hty _ rfl) (by simp [hasTy])
      | str t => exact absurd (hty _ rfl) (by simp [hasTy])


/-! ### negation of a condition: `CmpMonad.negate`, `BoolExprMonad.negate`, `NotMonad` -/

def CmpOp.negate : CmpOp → CmpOp
  | .eq => .ne | .ne => .eq | .lt => .ge | .ge => .lt | .le => .gt | .gt => .le

theorem cmpInt_negate (o : CmpOp) (a b : Int) : cmpInt o.negate a b = !cmpInt o a b := by
  cases o <;> simp [CmpOp.negate, cmpInt, bne] <;> (rw [Bool.eq_iff_iff]; simp; try omega)

theorem cmpStr_negate (o : CmpOp) (a b : String) : cmpStr o.negate a b = !cmpStr o a b := by
  cases o <;> simp [CmpOp.negate, cmpStr, bne]

theorem cmpVals_negate (o : CmpOp) (a b : Val) : cmpVals o.negate a b = (cmpVals o a b).map K.not := by
  cases a <;> cases b <;> simp [cmpVals, cmpInt_negate, cmpStr_negate]

theorem evc_cmp_negate (C : Cx) (o : CmpOp) (l r : Sql) : C.evc (.cmp o.negate l r) = (C.evc (.cmp o l r)).map K.not := by
  simp only [Cx.evc, evalCond_cmp]
  cases eval C.L C.d (senv C.d C.env) l <;> cases eval C.L C.d (senv C.d C.env) r <;> simp [cmpVals_negate]

theorem evc_isNotNull_eq (C : Cx) (l : Sql) : C.evc (.isNotNull l) = (C.evc (.isNull l)).map K.not := by
  simp only [Cx.evc, evalCond, eval]
  cases eval C.L C.d (senv C.d C.env) l <;> simp [bne]

theorem evc_isNull_eq (C : Cx) (l : Sql) : C.evc (.isNull l) = (C.evc (.isNotNull l)).map K.not := by
  simp only [Cx.evc, evalCond, eval]
  cases eval C.L C.d (senv C.d C.env) l <;> simp [bne]

theorem evc_cmpSql_negate (C : Cx) (op : POp) (l r : Sql) :
    C.evc (cmpSql op.negate l r) = (C.evc (cmpSql op l r)).map K.not := by
  cases op
  · exact evc_cmp_negate C .eq l r
  · exact evc_cmp_negate C .ne l r
  · exact evc_cmp_negate C .lt l r
  · exact evc_cmp_negate C .le l r
  · exact evc_cmp_negate C .gt l r
  · exact evc_cmp_negate C .ge l r
  · exact evc_isNotNull_eq C l
  · exact evc_isNull_eq C l

theorem evc_inList_negate (C : Cx) (ng : Bool) (a : Sql) (items : SqlList) :
    C.evc (.inList (!ng) a items) = (C.evc (.inList ng a items)).map K.not := by
  simp only [Cx.evc, evalCond, eval]
  cases eval C.L C.d (senv C.d C.env) a <;> simp
  cases evalVals C.L C.d (senv C.d C.env) items <;> simp
  rename_i va vs
  cases List.mapM (cmpVals CmpOp.eq va) vs <;> simp
  cases ng <;> simp

theorem evc_like_negate (C : Cx) (ng : Bool) (a : Sql) (p : String) (e : Bool) :
    C.evc (.like (!ng) a p e) = (C.evc (.like ng a p e)).map K.not := by
  simp only [Cx.evc, evalCond, eval]
  cases h : eval C.L C.d (senv C.d C.env) a with
  | none => simp
  | some v => cases v <;> simp <;> cases ng <;> simp

/-- monads of conditions (everything but value monads and `NoneMonad`) -/
def Monad.isCond : Monad → Bool
  | .val _ _ _ _ => false
  | .noneM => false
  | .lnot m => m.isCond
  | _ => true

theorem negate_cond (C : Cx) (m : Monad) (hm : m.isCond = true) :
    C.evc (negate C.d m).getsql = (C.evc m.getsql).map K.not ∧ (negate C.d m).isCond = true := by
  cases m with
  | val c t n s => simp [Monad.isCond] at hm
  | noneM => simp [Monad.isCond] at hm
  | cmp op l r n => exact ⟨by simpa [negate, Monad.getsql] using evc_cmpSql_negate C op l r, rfl⟩
  | bexpr s n =>
    cases s <;> simp [negate, Monad.getsql, evc_not, Monad.isCond]
    · exact evc_isNotNull_eq C _
    · exact evc_isNull_eq C _
    · exact evc_inList_negate C _ _ _
    · exact evc_like_negate C _ _ _ _
  | land ops n => simp [negate, Monad.getsql, evc_not, Monad.isCond]
  | lor ops n => simp [negate, Monad.getsql, evc_not, Monad.isCond]
  | lnot m' =>
    simp only [Monad.isCond] at hm
    simp [negate, Monad.getsql, evc_not, hm]
    cases C.evc m'.getsql <;> simp


/-! ### comparisons: `CmpMonad.__init__` with `coerce_monads` -/

theorem hasTy_int {x : Scalar} (h : hasTy .int x) : ∃ i, x = .int i := by cases x <;> simp_all [hasTy]
theorem hasTy_bool {x : Scalar} (h : hasTy .bool x) : ∃ i, x = .bool i := by cases x <;> simp_all [hasTy]
theorem hasTy_str {x : Scalar} (h : hasTy .str x) : ∃ i, x = .str i := by cases x <;> simp_all [hasTy]

/-- values of a given type: missing, or a scalar of that type -/
theorem typed_cases {t : Ty} {v : Option Scalar} (h : ∀ x, v = some x → hasTy t x) :
    v = none ∨ (match t with
      | .int => ∃ i, v = some (.int i)
      | .bool => ∃ b, v = some (.bool b)
      | .str => ∃ s, v = some (.str s)) := by
  cases v with
  | none => exact Or.inl rfl
  | some x =>
    right
    cases t
    · obtain ⟨i, hi⟩ := hasTy_int (h x rfl); exact ⟨i, by rw [hi]⟩
    · obtain ⟨i, hi⟩ := hasTy_bool (h x rfl); exact ⟨i, by rw [hi]⟩
    · obtain ⟨i, hi⟩ := hasTy_str (h x rfl); exact ⟨i, by rw [hi]⟩

theorem evc_cmp_of (C : Cx) (o : CmpOp) (s1 s2 : Sql) (a b : Val) (h1 : C.ev s1 = some a) (h2 : C.ev s2 = some b) :
    C.evc (.cmp o s1 s2) = cmpVals o a b := by
  simp only [Cx.ev] at h1 h2; simp only [Cx.evc, evalCond_cmp, h1, h2]

def cmpOpt (o : CmpOp) : Option Val → Option Val → Option K
  | some x, some y => cmpVals o x y
  | _, _ => none

theorem evc_cmp_opt (C : Cx) (o : CmpOp) (s1 s2 : Sql) : C.evc (.cmp o s1 s2) = cmpOpt o (C.ev s1) (C.ev s2) := by
  simp only [Cx.evc, Cx.ev, evalCond_cmp, cmpOpt]

def toIntV : Val → Option Val
  | .null => some .null
  | .int i => some (.int i)
  | .bool b => some (.int (boolInt b))
  | .str _ => none

theorem ev_toInt (C : Cx) (s : Sql) : C.ev (.toInt s) = (C.ev s).bind toIntV := by
  simp only [Cx.ev, eval]
  cases eval C.L C.d (senv C.d C.env) s with
  | none => rfl
  | some a => cases a <;> rfl

theorem ev_toInt_of (C : Cx) (s : Sql) (a : Val) (h : C.ev s = some a) :
    C.ev (.toInt s) = match a with
      | .null => some .null
      | .int i => some (.int i)
      | .bool b => some (.int (boolInt b))
      | .str _ => none := by
  simp only [Cx.ev] at h; simp only [Cx.ev, eval, h]; cases a <;> rfl

theorem coerceCmp_nopg (d : Dialect) (h : d.isPg = false) (t1 t2 : MTy) (s1 s2 : Sql) : coerceCmp d t1 t2 s1 s2 = (s1, s2) := by
  simp [coerceCmp, h]
theorem coerceCmp_ii (d : Dialect) (s1 s2 : Sql) : coerceCmp d .int .int s1 s2 = (s1, s2) := by simp [coerceCmp]
theorem coerceCmp_bb (d : Dialect) (s1 s2 : Sql) : coerceCmp d .bool .bool s1 s2 = (s1, s2) := by simp [coerceCmp]
theorem coerceCmp_ss (d : Dialect) (s1 s2 : Sql) : coerceCmp d .str .str s1 s2 = (s1, s2) := by simp [coerceCmp]
theorem coerceCmp_ib (d : Dialect) (h : d.isPg = true) (s1 s2 : Sql) : coerceCmp d .int .bool s1 s2 = (s1, .toInt s2) := by
  simp [coerceCmp, h]
theorem coerceCmp_bi (d : Dialect) (h : d.isPg = true) (s1 s2 : Sql) : coerceCmp d .bool .int s1 s2 = (.toInt s1, s2) := by
  simp [coerceCmp, h]

def pyCmpOpt (o : CmpOp) : Option Scalar → Option Scalar → K
  | some a, some b => pyCmp o a b
  | _, _ => .unk

theorem cmp_vals_ok (C : Cx) (o : CmpOp) {t1 t2 : Ty} {s1 s2 : Sql} {v1 v2 : Option Scalar}
    (h1 : C.ev s1 = some (encV C.d v1)) (h2 : C.ev s2 = some (encV C.d v2))
    (ht1 : ∀ x, v1 = some x → hasTy t1 x) (ht2 : ∀ x, v2 = some x → hasTy t2 x)
    (hc : sameClass (MTy.ofTy t1) (MTy.ofTy t2) = true) :
    C.evc (.cmp o (coerceCmp C.d (MTy.ofTy t1) (MTy.ofTy t2) s1 s2).1 (coerceCmp C.d (MTy.ofTy t1) (MTy.ofTy t2) s1 s2).2) =
      some (pyCmpOpt o v1 v2) := by
  cases t1 <;> cases t2 <;> simp [sameClass, MTy.ofTy, MTy.isNum] at hc <;>
  rcases v1 with _ | x <;> rcases v2 with _ | y <;> (try cases x) <;> (try cases y) <;>
  (try (have hx := ht1 _ rfl; simp [hasTy] at hx)) <;> (try (have hy := ht2 _ rfl; simp [hasTy] at hy)) <;>
  cases hd : C.d.isPg <;>
  simp (disch := exact hd) only [MTy.ofTy, coerceCmp_nopg, coerceCmp_ii, coerceCmp_bb, coerceCmp_ss, coerceCmp_ib, coerceCmp_bi] <;>
  simp [evc_cmp_opt, ev_toInt, h1, h2, cmpOpt, toIntV, encV, encS, hd, cmpVals, pyCmp, pyCmpOpt, boolInt]


/-! ### `x in (c1, …)`: `ListMonad.contains` -/

theorem evalVals_lits (L : LikeFn) (d : Dialect) (env : SEnv) : (items : List Lit) →
    evalVals L d env (litsSql items) = some (items.map (litVal d))
  | [] => by simp [litsSql, evalVals]
  | it :: rest => by simp [litsSql, evalVals, eval, evalVals_lits L d env rest]

def pyItem (v : Option Scalar) (it : Lit) : K :=
  match v, litScalar it with
  | some x, some y => pyCmp .eq x y
  | _, _ => .unk

theorem cmp_item (d : Dialect) {t : Ty} {v : Option Scalar} (ht : ∀ x, v = some x → hasTy t x) (it : Lit)
    (h : MTy.ofTy t = litTy it) : cmpVals .eq (encV d v) (litVal d it) = some (pyItem v it) := by
  cases t <;> cases it <;> simp [MTy.ofTy, litTy] at h <;>
  rcases v with _ | x <;> (try cases x) <;> (try (have hx := ht _ rfl; simp [hasTy] at hx)) <;>
  cases hd : d.isPg <;>
  simp [encV, encS, litVal, hd, cmpVals, pyItem, litScalar, pyCmp, boolInt]
  all_goals (rename_i a b; cases a <;> cases b <;> simp [boolInt, cmpInt])

theorem mapM_items (d : Dialect) {t : Ty} {v : Option Scalar} (ht : ∀ x, v = some x → hasTy t x) : (items : List Lit) →
    (∀ it ∈ items, MTy.ofTy t = litTy it) →
    (items.map (litVal d)).mapM (cmpVals .eq (encV d v)) = some (items.map (pyItem v))
  | [], _ => by simp
  | it :: rest, h => by
    have h1 := cmp_item d ht it (h it (by simp))
    have h2 := mapM_items d ht rest (fun i hi => h i (by simp [hi]))
    simp [List.mapM_cons, h1, h2]

theorem inList_ok (C : Cx) (ng : Bool) {t : Ty} {sx : Sql} {v : Option Scalar}
    (h : C.ev sx = some (encV C.d v)) (ht : ∀ x, v = some x → hasTy t x) (items : List Lit)
    (hit : ∀ it ∈ items, MTy.ofTy t = litTy it) :
    C.evc (.inList ng sx (litsSql items)) = some (if ng then (pyInList v items).not else pyInList v items) := by
  simp only [Cx.ev] at h
  simp only [Cx.evc, evalCond, eval, h, evalVals_lits, mapM_items C.d ht items hit]
  cases ng <;> simp [pyInList] <;> rfl


/-! ### the translation invariant -/

/-- what is known about the monad of an expression of the fragment -/
def Good (C : Cx) (e : Expr) (m : Monad) : Prop :=
  MonadOK C e m ∧
    (if valueSorted e then ∃ c t n s, m = .val c t n s ∧ (c = .attr ↔ isAttr e = true) else m.isCond = true)

theorem Good.val {C : Cx} {e : Expr} {m : Monad} (h : Good C e m) (hs : valueSorted e = true) :
    ∃ c t n s, m = .val c t n s ∧ (c = .attr ↔ isAttr e = true) ∧ ValOK C e t n s := by
  obtain ⟨h1, h2⟩ := h
  simp only [hs, if_true] at h2
  obtain ⟨c, t, n, s, rfl, hc⟩ := h2
  exact ⟨c, t, n, s, rfl, hc, h1⟩

theorem Good.condOf {C : Cx} {e : Expr} {m : Monad} (h : Good C e m) : CondOK C e (condOf C.d m).getsql ∧ m ≠ .noneM := by
  obtain ⟨h1, h2⟩ := h
  refine ⟨condOf_ok h1 ?_, ?_⟩
  · intro c t n s hm
    by_cases hs : valueSorted e = true
    · exact hs
    · simp only [hs] at h2; subst hm; simp [Monad.isCond] at h2
  · intro hm; subst hm; simp [MonadOK] at h1

theorem MonadOK_of_isCond {C : Cx} {e : Expr} {m : Monad} (h : m.isCond = true) : MonadOK C e m = CondOK C e m.getsql := by
  cases m <;> simp_all [Monad.isCond, MonadOK]

theorem negate_val_shape (d : Dialect) (c : MCls) (t : Ty) (n : Bool) (s : Sql) : (negate d (.val c t n s)).isCond = true := by
  cases t <;> simp [negate, Monad.isCond]
  split <;> simp [Monad.isCond]

theorem trTy_of_ok {sch : Schema} {d : Dialect} {e : Expr} {m : Monad} (h : tr sch d e = .ok m) : trTy sch d e = m.ty := by
  simp [trTy, h]

end PonyVerif.Model.Q
