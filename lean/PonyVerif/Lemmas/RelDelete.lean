/-
  Lemmas/RelDelete.lean — `Entity._delete_` (with cascade, arbitrary recursion depth) satisfies `DelSpec`:
  it only removes, keeps `D` (both ends agree, up to the stale reference cells of the objects whose deletion is in
  progress), clears a reference only when its target is deleted, and leaves the object dead.
-/
import PonyVerif.Lemmas.RelOps
namespace PonyVerif.Model.Rel

theorem iter_inv {α : Type} (f : α → St → Res) (I : St → Prop)
    (hstep : ∀ x st st', I st → f x st = .ok st' → I st') :
    ∀ (xs : List α) (st st' : St), I st → iter f xs st = .ok st' → I st' := by
  intro xs
  induction xs with
  | nil => intro st st' hI h; simp at h; cases h; exact hI
  | cons x xs ih =>
    intro st st' hI h
    obtain ⟨st1, h1, h2⟩ := iter_cons_ok h
    exact ih st1 st' (hstep x st st1 hI h1) h2

section del
variable {sch : Schema}

/-- invariant of one `_delete_` frame for object `o` relative to the store `s0` at its start -/
structure FrameInv (sch : Schema) (E : ObjId → Attr → Prop) (P : ObjId → Prop) (s0 s : Store) : Prop where
  d : D sch s E
  sub : Sub s0 s
  cleared : Cleared P s0 s

theorem FrameInv.step {E : ObjId → Attr → Prop} {P : ObjId → Prop} {s0 s s' : Store} (h : FrameInv sch E P s0 s)
    (hd : D sch s' E) (hs : Sub s s') (hc : Cleared P s s') : FrameInv sch E P s0 s' :=
  ⟨hd, h.sub.trans hs, h.cleared.trans hc hs⟩

/-- `Set.__set__(obj, (), undo_funcs)` inside `_delete_` (no cascade): removes every link of the collection on both sides -/
theorem setCollNil_ok {del : ObjId → St → Res} {o : ObjId} {c : Attr} {st st' : St} {cd : Side}
    {E : ObjId → Attr → Prop} {P : ObjId → Prop}
    (h : setCollCore sch del true o c [] st = .ok st') (hc : sch.side c = some cd) (hcd : cd.isColl = true)
    (hcasc : cd.cascade = false) (ho : o < st.store.n) (hR : Range st.store) (hD : D sch st.store E) (hP : P o) :
    D sch st'.store E ∧ Sub st.store st'.store ∧ Cleared P st.store st'.store ∧
      st'.store.alive = st.store.alive ∧ (∀ q, hasB sch st'.store o c q = false) := by
  unfold setCollCore at h
  split at h
  · cases h
  · rename_i hal
    have hal' : st.store.alive o = true := by simpa using hal
    split at h
    · rename_i d rd hd hrd
      rw [hc] at hd; cases hd
      simp only at h
      split at h
      · rename_i hall
        cases h
        refine ⟨hD, Sub.refl _, Cleared.refl _ _, rfl, ?_⟩
        intro q
        rw [hasB_coll_eq hc hcd]
        cases hm : st.store.mem o c q with
        | false => rfl
        | true =>
          have hq := hR.2 o c q ho hm
          simp only [List.all_eq_true, List.mem_range] at hall
          have := hall q hq
          simp [hm] at this
      · obtain ⟨st2, h12, h2⟩ := Res.bind_ok h
        cases h2
        have hrr := sch.rev_rev c
        have hc' : sch.side (sch.rev (sch.rev c)) = some cd := by rw [hrr]; exact hc
        have hicc : sch.isCollAttr c = true := by simp [Schema.isCollAttr, hc, hcd]
        have hadd : (List.range st.store.n).filter (fun x => ([] : List ObjId).contains x && !st.store.mem o c x) = [] := by
          simp
        have hrem : ∀ x, x ∈ (List.range st.store.n).filter (fun x => st.store.mem o c x && !([] : List ObjId).contains x) ↔
            x < st.store.n ∧ st.store.mem o c x = true := by
          intro x; rw [mem_filter_range]; simp
        rw [hadd] at h12
        generalize (List.range st.store.n).filter (fun x => st.store.mem o c x && !([] : List ObjId).contains x) = toRemove at *
        have e2 := hasB_coll_eq (sch := sch) (s := st.store) hc hcd
        simp only [rewriteRow_store]
        have hfr : finalRow (!rd.isColl && cd.cascade) [] st2.store = fun _ => false := by
          funext x; simp [finalRow]
        rw [hfr]
        clear h
        rename_i hnoteq
        clear hnoteq
        split at h12
        · -- one-to-many
          rename_i hcoll
          have hrd' : rd.isColl = false := by simpa using hcoll
          have hne : c ≠ sch.rev c := Schema.ne_of_kinds hc hrd (by simp [hcd, hrd'])
          obtain ⟨st1, h1, h2⟩ := Res.bind_ok h12
          have e21 : st2 = st1 := by simp at h2; exact h2.symm
          rw [e21]
          rw [hcasc] at h1
          simp only [Bool.false_eq_true, if_false] at h1
          obtain ⟨hH1, hRf1, hF1, hM1, hAl1⟩ := iterClear_ok hrd hrd' hc' hcd _ _ _ h1
          have e0 := hasB_ref_eq (sch := sch) (s := st.store) hrd hrd'
          have hsub : Sub st.store (st1.store.setRow o c fun _ => false) := by
            refine ⟨by simp only [Store.setRow]; exact hF1.n, by simp only [Store.setRow]; exact hF1.ent, ?_, ?_, ?_⟩
            · intro p hp; simp only [Store.setRow] at hp; rw [hF1.alive] at hp; exact hp
            · intro p b; simp only [Store.setRow]; rw [hRf1]; split <;> simp
            · intro p b q hm
              simp only [Store.setRow] at hm
              split at hm
              · cases hm
              · exact hM1 p b q hm
          refine ⟨?_, hsub, ?_, by simp only [Store.setRow]; exact hF1.alive, fun q => by rw [hasB_setRow hc hcd]; simp⟩
          · apply hD.removal hsub
            intro p b q hp hal2 hh hmir
            left
            simp only [Store.setRow] at hal2
            rw [hF1.alive] at hal2
            rw [hasB_setRow hc hcd] at hh ⊢
            have b2 := hH1 p b q
            have b3 := hH1 q (sch.rev b) p
            have a6 := hrem p
            have a7 := hrem q
            have a11 := hR.2 q (sch.rev b) p
            have a12 := hR.1 q (sch.rev b) p
            rw [hrr] at b2 b3
            clear h12 h1 h2 e21
            grind [Schema.rev_rev, Schema.rev_inj]
          · intro q b w hw
            simp only [Store.setRow]
            rw [hRf1]
            split
            · rename_i hcond
              right
              refine ⟨rfl, Or.inr ?_⟩
              obtain ⟨rfl, hq⟩ := hcond
              have hq' := (hrem q).mp hq
              have := hD o c q ho hal' (by rw [e2]; exact hq'.2)
              rw [hicc] at this
              rcases this with h' | ⟨_, h'⟩
              · rw [e0, hw] at h'
                have : w = o := by simpa using h'
                rw [this]; exact hP
              · cases h'
            · exact Or.inl hw
        · -- many-to-many
          rename_i hcoll
          have hrd' : rd.isColl = true := by simpa using hcoll
          obtain ⟨st1, h1, h2⟩ := Res.bind_ok h12
          have e21 : st2 = st1 := by simp [reverseAdd] at h2; exact h2.symm
          rw [e21]
          obtain ⟨hH1, hRf1, hF1, hM1, hAs1⟩ := reverseRemove_ok hrd hrd' o _ _ _ h1
          have hsub : Sub st.store (st1.store.setRow o c fun _ => false) := by
            refine ⟨by simp only [Store.setRow]; exact hF1.n, by simp only [Store.setRow]; exact hF1.ent, ?_, ?_, ?_⟩
            · intro p hp; simp only [Store.setRow] at hp; rw [hF1.alive] at hp; exact hp
            · intro p b; simp only [Store.setRow]; rw [hRf1]; exact Or.inl rfl
            · intro p b q hm
              simp only [Store.setRow] at hm
              split at hm
              · cases hm
              · exact hM1 p b q hm
          refine ⟨?_, hsub, ?_, by simp only [Store.setRow]; exact hF1.alive, fun q => by rw [hasB_setRow hc hcd]; simp⟩
          · apply hD.removal hsub
            intro p b q hp hal2 hh hmir
            left
            simp only [Store.setRow] at hal2
            rw [hF1.alive] at hal2
            rw [hasB_setRow hc hcd] at hh ⊢
            have b2 := hH1 p b q
            have b3 := hH1 q (sch.rev b) p
            have a6 := hrem p
            have a7 := hrem q
            have a11 := hR.2 q (sch.rev b) p
            clear h12 h1 h2 e21
            grind [Schema.rev_rev, Schema.rev_inj]
          · intro q b w hw
            simp only [Store.setRow]
            rw [hRf1]
            exact Or.inl hw
    · cases h

/-- one-to-one branch of `_delete_`: the partner's reference to the dying object is cleared -/
theorem delClear_ok {o x : ObjId} {a : Attr} {d rd : Side} {s : Store} {E : ObjId → Attr → Prop} {P : ObjId → Prop}
    (ha : sch.side a = some d) (hd : d.isColl = false) (hra : sch.side (sch.rev a) = some rd) (hrd : rd.isColl = false)
    (hx : s.ref x (sch.rev a) = some o) (hD : D sch s E) (hE : E o a) (hP : P o) :
    D sch (s.setRef x (sch.rev a) none) E ∧ Sub s (s.setRef x (sch.rev a) none) ∧ Cleared P s (s.setRef x (sch.rev a) none) := by
  have hrr := sch.rev_rev a
  have hica : sch.isCollAttr a = false := by simp [Schema.isCollAttr, ha, hd]
  have e2 := hasB_ref_eq (sch := sch) (s := s) hra hrd
  have hsub : Sub s (s.setRef x (sch.rev a) none) := by
    refine ⟨rfl, rfl, fun _ h => h, ?_, fun _ _ _ h => h⟩
    intro p b; simp only [Store.setRef]; split <;> simp
  refine ⟨?_, hsub, ?_⟩
  · apply hD.removal hsub
    intro p b q hp hal hh hmir
    rw [hasB_setRef hra hrd] at hh ⊢
    grind [Schema.rev_rev, Schema.rev_inj]
  · intro q b w hw
    simp only [Store.setRef]
    split
    · rename_i hc
      obtain ⟨rfl, rfl⟩ := hc
      rw [hx] at hw; cases hw
      exact Or.inr ⟨rfl, Or.inr hP⟩
    · exact Or.inl hw

/-- many-to-one branch of `_delete_`: the dying object leaves the collection of its owner -/
theorem delRemove_ok {o x : ObjId} {a : Attr} {d rd : Side} {s : Store} {E : ObjId → Attr → Prop} {P : ObjId → Prop}
    (ha : sch.side a = some d) (hd : d.isColl = false) (hra : sch.side (sch.rev a) = some rd) (hrd : rd.isColl = true)
    (hD : D sch s E) (hE : E o a) :
    D sch (s.setMem x (sch.rev a) o false) E ∧ Sub s (s.setMem x (sch.rev a) o false) ∧ Cleared P s (s.setMem x (sch.rev a) o false) := by
  have hrr := sch.rev_rev a
  have hica : sch.isCollAttr a = false := by simp [Schema.isCollAttr, ha, hd]
  have hsub : Sub s (s.setMem x (sch.rev a) o false) := by
    refine ⟨rfl, rfl, fun _ h => h, fun _ _ => Or.inl rfl, ?_⟩
    intro p b q hm; simp only [Store.setMem] at hm; split at hm
    · cases hm
    · exact hm
  refine ⟨?_, hsub, ?_⟩
  · apply hD.removal hsub
    intro p b q hp hal hh hmir
    rw [hasB_setMem hra hrd] at hh ⊢
    grind [Schema.rev_rev, Schema.rev_inj]
  · intro q b w hw; exact Or.inl hw

theorem delete_spec : ∀ fuel, DelSpec sch (fun x => delete sch fuel x) := by
  intro fuel
  induction fuel with
  | zero => intro x st st' E P h; simp [delete] at h
  | succ fuel ih =>
    intro o st st' E P h ho hR hD
    simp only [delete] at h
    split at h
    · rename_i hal
      cases h
      exact ⟨hD, Sub.refl _, Cleared.refl _ _, by simpa using hal⟩
    · obtain ⟨stB, hAB, hfin⟩ := Res.bind_ok h
      obtain ⟨stA, hA1, hB1⟩ := Res.bind_ok hAB
      have hI0 : FrameInv sch (fun p b => E p b ∨ p = o) (fun w => P w ∨ w = o) st.store st.store :=
        ⟨hD.mono (fun _ _ h => Or.inl h), Sub.refl _, Cleared.refl _ _⟩
      -- the collection attributes
      have hIA := iter_inv _ (fun s => FrameInv sch (fun p b => E p b ∨ p = o) (fun w => P w ∨ w = o) st.store s.store)
        (by
          intro c s s' hI hf
          have ho' : o < s.store.n := by rw [hI.sub.n]; exact ho
          have hR' := hI.sub.range hR
          split at hf
          · rename_i d rd hd hrd
            split at hf
            · cases hf; exact hI
            · rename_i hcoll
              have hcoll' : d.isColl = true := by simpa using hcoll
              split at hf
              · cases hf; exact hI
              · split at hf
                · obtain ⟨h1, h2, h3, _⟩ := iterDel_ok ih _ (fun w => P w ∨ w = o) _ _ _ hf
                    (by intro x hx; exact (mem_filter_range.mp hx).1) hR' hI.d
                  exact hI.step h1 h2 h3
                · rename_i hcasc
                  split at hf
                  · obtain ⟨h1, h2, h3, _, _⟩ := setCollNil_ok (P := fun w => P w ∨ w = o) hf hd hcoll' (by simpa using hcasc) ho' hR' hI.d (Or.inr rfl)
                    exact hI.step h1 h2 h3
                  · cases hf
          · cases hf) _ _ _ hI0 hA1
      -- the reference attributes
      have hIB := iter_inv _ (fun s => FrameInv sch (fun p b => E p b ∨ p = o) (fun w => P w ∨ w = o) st.store s.store)
        (by
          intro a s s' hI hf
          have ho' : o < s.store.n := by rw [hI.sub.n]; exact ho
          have hR' := hI.sub.range hR
          split at hf
          · rename_i d rd hd hrd
            split at hf
            · cases hf; exact hI
            · rename_i hcoll
              have hcoll' : d.isColl = false := by simpa using hcoll
              split at hf
              · cases hf; exact hI
              · rename_i x hx
                split at hf
                · rename_i hrc
                  have hrc' : rd.isColl = false := by simpa using hrc
                  split at hf
                  · obtain ⟨h1, h2, h3, _⟩ := ih x s s' _ (fun w => P w ∨ w = o) hf (hR'.1 o a x ho' hx) hR' hI.d
                    exact hI.step h1 h2 h3
                  · split at hf
                    · split at hf
                      · rename_i hxo
                        obtain ⟨hs', _, _⟩ := attrClearRev_ok hf
                        have hst : s'.store = s.store.setRef x (sch.rev a) none := by
                          rw [hs']; unfold clearRevStore; rw [hxo]
                          have : sch.isCollAttr (sch.rev (sch.rev a)) = false := by
                            rw [sch.rev_rev]; simp [Schema.isCollAttr, hd, hcoll']
                          simp [this]
                        obtain ⟨h1, h2, h3⟩ := delClear_ok (P := fun w => P w ∨ w = o) hd hcoll' hrd hrc' hxo hI.d (Or.inr rfl) (Or.inr rfl)
                        rw [← hst] at h1 h2 h3
                        exact hI.step h1 h2 h3
                      · cases hf; exact hI
                    · cases hf
                · rename_i hrc
                  have hrc' : rd.isColl = true := by simpa using hrc
                  obtain ⟨_, hst⟩ := reverseRemove1_ok (iter_single_ok hf)
                  obtain ⟨h1, h2, h3⟩ := delRemove_ok (x := x) (P := fun w => P w ∨ w = o) hd hcoll' hrd hrc' hI.d (Or.inr rfl)
                  rw [← hst] at h1 h2 h3
                  exact hI.step h1 h2 h3
          · cases hf) _ _ _ hIA hB1
      -- the object dies (or a nested frame of the same object has already finished)
      have hfinal : st'.store = stB.store.setAlive o false := by
        split at hfin
        · rename_i hdead
          have e := Res.ok.inj hfin
          rw [← e]
          have hdead' : stB.store.alive o = false := by simpa using hdead
          generalize stB.store = sB at hdead' ⊢
          cases sB with
          | mk n ent alive ref mem =>
            simp only [Store.setAlive, Store.mk.injEq, true_and, and_true]
            funext p
            split
            · rename_i hpo; rw [hpo]; exact hdead'
            · rfl
        · have e := Res.ok.inj hfin
          rw [← e]; rfl
      rw [hfinal]
      refine ⟨?_, ?_, ?_, ?_⟩
      · intro p b q hp hal hh
        simp only [Store.setAlive] at hp hal
        simp only [hasB_setAlive] at hh ⊢
        split at hal
        · cases hal
        · rename_i hpo
          rcases hIB.d p b q hp hal hh with h' | ⟨h' | h', hb⟩
          · exact Or.inl h'
          · exact Or.inr ⟨h', hb⟩
          · exact absurd h' hpo
      · have := hIB.sub
        refine ⟨this.n, this.ent, ?_, this.ref, this.mem⟩
        intro p hp
        simp only [Store.setAlive] at hp
        split at hp
        · cases hp
        · exact this.alive p hp
      · intro q b w hw
        simp only [Store.setAlive]
        rcases hIB.cleared q b w hw with h' | ⟨h', hdead | hP | rfl⟩
        · exact Or.inl h'
        · refine Or.inr ⟨h', Or.inl ?_⟩
          split
          · rfl
          · exact hdead
        · exact Or.inr ⟨h', Or.inr hP⟩
        · exact Or.inr ⟨h', Or.inl (by simp)⟩
      · simp [Store.setAlive]

end del
end PonyVerif.Model.Rel
