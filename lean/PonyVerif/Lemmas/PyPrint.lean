/-
  C04 — lemmas about the printer model and the reference parser (Model/PyPrint.lean).
-/
import PonyVerif.Model.PyPrint
namespace PonyVerif.Model.PyPrint

/-! ### `strip` -/

@[simp] theorem strip_nil : strip [] = [] := rfl
@[simp] theorem strip_t (k : Tok) (r : List Piece) : strip (.t k :: r) = k :: strip r := rfl
@[simp] theorem strip_sp (r : List Piece) : strip (.sp :: r) = strip r := rfl
@[simp] theorem strip_append (a b : List Piece) : strip (a ++ b) = strip a ++ strip b := by
  induction a with
  | nil => rfl
  | cons p t ih => cases p <;> simp [ih]
theorem strip_ite (c : Prop) [Decidable c] (a b : List Piece) : strip (if c then a else b) = if c then strip a else strip b := by
  split <;> rfl
@[simp] theorem strip_parens (ps : List Piece) : strip (parens ps) = .lpar :: (strip ps ++ [.rpar]) := by
  simp [parens]

/-! ### token-level view of the printer -/

/-- the decorator rule on tokens -/
def wrapT (p : Nat) (c : Expr) : List Tok := if codePrio c ≥ p then .lpar :: (toks c ++ [.rpar]) else toks c
/-- `primary_src` on tokens -/
def primT (c : Expr) : List Tok := if codePrio c > 2 then .lpar :: (toks c ++ [.rpar]) else toks c

def tEs (p : Nat) (k : Tok) (es : Exprs) : List Tok := strip (prEs p k es)
def tCmp (t : CmpTail) : List Tok := strip (prCmp t)
def tArgs (a : Args) : List Tok := strip (prArgs a)
def tOpt (o : OptE) : List Tok := strip (prOpt o)
def tIdx (i : Idx) : List Tok := strip (prIdx i)
def tIdxs (i : Idxs) : List Tok := strip (prIdxs i)
def tParams (p : Params) : List Tok := strip (prParams p)
def tKVs (k : KVs) : List Tok := strip (prKVs k)

theorem strip_wrap (p : Nat) (c : Expr) :
    strip (if codePrio c ≥ p then parens (prE c) else prE c) = wrapT p c := by
  unfold wrapT toks; split <;> simp
theorem strip_prim (c : Expr) :
    strip (if codePrio c > 2 then parens (prE c) else prE c) = primT c := by
  unfold primT toks; split <;> simp

theorem toks_name (s : String) : toks (.name s) = [.name s] := by simp [toks, prE]
theorem toks_const (s : String) : toks (.const s) = [.const s] := by simp [toks, prE]
theorem toks_negConst (s : String) : toks (.negConst s) = [.bin .sub, .const s] := by simp [toks, prE]
theorem toks_boolOp (o : Bool) (a b : Expr) (m : Exprs) :
    toks (.boolOp o a b m) =
      wrapT (if o then 14 else 13) a ++ (if o then Tok.kOr else Tok.kAnd) :: (wrapT (if o then 14 else 13) b ++
        tEs (if o then 14 else 13) (if o then Tok.kOr else Tok.kAnd) m) := by
  simp [toks, prE, strip_wrap, tEs]
theorem toks_not (e : Expr) : toks (.not e) = .kNot :: wrapT 12 e := by simp [toks, prE, strip_wrap]
theorem toks_compare (l : Expr) (op : CmpOp) (r : Expr) (m : CmpTail) :
    toks (.compare l op r m) = wrapT 11 l ++ .cmp op :: (wrapT 11 r ++ tCmp m) := by
  simp [toks, prE, strip_wrap, tCmp]
theorem toks_bin (op : BinOp) (l r : Expr) :
    toks (.bin op l r) = wrapT op.prio l ++ .bin op :: wrapT op.prio r := by
  simp [toks, prE, strip_wrap]
theorem toks_unary (op : UnOp) (e : Expr) : toks (.unary op e) = op.tok :: wrapT 4 e := by
  simp [toks, prE, strip_wrap]
theorem toks_ifExp (b t o : Expr) :
    toks (.ifExp b t o) = wrapT 15 b ++ .kIf :: (wrapT 15 t ++ .kElse :: wrapT 15 o) := by
  simp [toks, prE, strip_wrap]
theorem toks_lambda (ps : Params) (b : Expr) :
    toks (.lambda ps b) = .kLambda :: (tParams ps ++ .colon :: wrapT 16 b) := by
  simp [toks, prE, strip_wrap, tParams]
theorem toks_attr (e : Expr) (a : String) : toks (.attr e a) = primT e ++ [.dot, .name a] := by
  simp [toks, prE, strip_prim]
theorem toks_call (f : Expr) (a : Args) : toks (.call f a) = primT f ++ .lpar :: (tArgs a ++ [.rpar]) := by
  simp [toks, prE, strip_prim, tArgs]
theorem toks_subscript (e : Expr) (i : Idx) : toks (.subscript e i) = primT e ++ .lbrk :: (tIdx i ++ [.rbrk]) := by
  simp [toks, prE, strip_prim, tIdx]
theorem toks_list (a : Args) : toks (.list a) = .lbrk :: (tArgs a ++ [.rbrk]) := by
  simp [toks, prE, tArgs]
theorem toks_dict (k : KVs) : toks (.dict k) = .lbrc :: (tKVs k ++ [.rbrc]) := by
  simp [toks, prE, tKVs]


/-- separator + rest of a comma-joined sequence -/
def Args.isNil : Args → Bool | .nil => true | _ => false
def Idxs.isNil : Idxs → Bool | .nil => true | _ => false
def Params.isNil : Params → Bool | .nil => true | _ => false
def KVs.isNil : KVs → Bool | .nil => true | _ => false

theorem toks_subscriptT (e : Expr) (is : Idxs) :
    toks (.subscriptT e is) = primT e ++ .lbrk :: (tIdxs is ++
      ((match is with | .cons _ .nil => [Tok.comma] | _ => []) ++ [.rbrk])) := by
  simp only [toks, prE, strip_append, strip_prim, tIdxs]
  cases is with
  | nil => simp
  | cons i t => cases t <;> simp
theorem toks_tuple (a : Args) :
    toks (.tuple a) = .lpar :: (tArgs a ++
      ((match a with | .pos _ .nil => [Tok.comma] | .star _ .nil => [Tok.comma] | _ => []) ++ [.rpar])) := by
  simp only [toks, prE, strip_append, tArgs]
  cases a with
  | nil => simp
  | pos e t => cases t <;> simp
  | star e t => cases t <;> simp
  | kw n e t => simp
  | dstar e t => simp

theorem tEs_nil (p : Nat) (k : Tok) : tEs p k .nil = [] := by simp [tEs, prEs]
theorem tEs_cons (p : Nat) (k : Tok) (e : Expr) (t : Exprs) : tEs p k (.cons e t) = k :: (wrapT p e ++ tEs p k t) := by
  simp [tEs, prEs, strip_wrap]
theorem tCmp_nil : tCmp .nil = [] := by simp [tCmp, prCmp]
theorem tCmp_cons (op : CmpOp) (e : Expr) (t : CmpTail) : tCmp (.cons op e t) = .cmp op :: (wrapT 11 e ++ tCmp t) := by
  simp [tCmp, prCmp, strip_wrap]

def sepArgs (t : Args) : List Tok := if t.isNil then [] else .comma :: tArgs t
theorem tArgs_nil : tArgs .nil = [] := by simp [tArgs, prArgs]
theorem tArgs_pos (e : Expr) (t : Args) : tArgs (.pos e t) = toks e ++ sepArgs t := by
  cases t <;> simp [tArgs, prArgs, toks, sepArgs, Args.isNil]
theorem tArgs_star (e : Expr) (t : Args) : tArgs (.star e t) = .bin .mult :: (toks e ++ sepArgs t) := by
  cases t <;> simp [tArgs, prArgs, toks, sepArgs, Args.isNil]
theorem tArgs_kw (n : String) (e : Expr) (t : Args) : tArgs (.kw n e t) = .name n :: .assign :: (toks e ++ sepArgs t) := by
  cases t <;> simp [tArgs, prArgs, toks, sepArgs, Args.isNil]
theorem tArgs_dstar (e : Expr) (t : Args) : tArgs (.dstar e t) = .bin .pow :: (toks e ++ sepArgs t) := by
  cases t <;> simp [tArgs, prArgs, toks, sepArgs, Args.isNil]

theorem tOpt_none : tOpt .none = [] := by simp [tOpt, prOpt]
theorem tOpt_some (e : Expr) : tOpt (.some e) = toks e := by simp [tOpt, prOpt, toks]
theorem tIdx_ie (e : Expr) : tIdx (.ie e) = toks e := by simp [tIdx, prIdx, toks]
theorem tIdx_sl (lo hi st : OptE) :
    tIdx (.sl lo hi st) = tOpt lo ++ .colon :: (tOpt hi ++ (match st with | .none => [] | .some e => .colon :: toks e)) := by
  cases st <;> simp [tIdx, prIdx, tOpt, toks]
def sepIdxs (t : Idxs) : List Tok := if t.isNil then [] else .comma :: tIdxs t
theorem tIdxs_nil : tIdxs .nil = [] := by simp [tIdxs, prIdxs]
theorem tIdxs_cons (i : Idx) (t : Idxs) : tIdxs (.cons i t) = tIdx i ++ sepIdxs t := by
  cases t <;> simp [tIdxs, prIdxs, tIdx, sepIdxs, Idxs.isNil]
def sepParams (t : Params) : List Tok := if t.isNil then [] else .comma :: tParams t
theorem tParams_nil : tParams .nil = [] := by simp [tParams, prParams]
theorem tParams_plain (n : String) (t : Params) : tParams (.plain n t) = .name n :: sepParams t := by
  cases t <;> simp [tParams, prParams, sepParams, Params.isNil]
theorem tParams_dflt (n : String) (e : Expr) (t : Params) : tParams (.dflt n e t) = .name n :: .assign :: (toks e ++ sepParams t) := by
  cases t <;> simp [tParams, prParams, sepParams, Params.isNil, toks]
theorem tParams_var (n : String) (t : Params) : tParams (.var n t) = .bin .mult :: .name n :: sepParams t := by
  cases t <;> simp [tParams, prParams, sepParams, Params.isNil]
theorem tParams_kwvar (n : String) (t : Params) : tParams (.kwvar n t) = .bin .pow :: .name n :: sepParams t := by
  cases t <;> simp [tParams, prParams, sepParams, Params.isNil]
def sepKVs (t : KVs) : List Tok := if t.isNil then [] else .comma :: tKVs t
theorem tKVs_nil : tKVs .nil = [] := by simp [tKVs, prKVs]
theorem tKVs_cons (k v : Expr) (t : KVs) : tKVs (.cons k v t) = toks k ++ .colon :: (toks v ++ sepKVs t) := by
  cases t <;> simp [tKVs, prKVs, sepKVs, KVs.isNil, toks]

/-! ### the first token of a printed expression -/

/-- tokens an expression can start with -/
def startTok : Tok → Bool
  | .name _ | .const _ | .lpar | .lbrk | .lbrc | .kLambda | .kNot | .bin .sub | .bin .add => true
  | _ => false
/-- the grammar level at which a token is a prefix operator -/
def prefixLvl : Tok → Nat
  | .kLambda => 16 | .kNot => 12 | .bin .sub => 4 | .bin .add => 4 | _ => 0

/-- shape of a printed expression followed by anything: it begins with a start token whose prefix level fits the
    priority the code assigns; after a leading name there is no `=` -/
def FirstTok (q : Nat) (ts : List Tok) : Prop :=
  ∃ t ts', ts = t :: ts' ∧ startTok t = true ∧ prefixLvl t ≤ q ∧ (∀ n, t = .name n → ts'.head? ≠ some .assign)

theorem FirstTok.mono {p q : Nat} {ts : List Tok} (h : FirstTok p ts) (hpq : p ≤ q) : FirstTok q ts := by
  obtain ⟨t, ts', h1, h2, h3, h4⟩ := h
  exact ⟨t, ts', h1, h2, Nat.le_trans h3 hpq, h4⟩

theorem firstTok_lpar (q : Nat) (ts : List Tok) : FirstTok q (.lpar :: ts) :=
  ⟨.lpar, ts, rfl, rfl, by simp [prefixLvl], by simp⟩

theorem firstTok_wrap (p q : Nat) (c : Expr) (rest' : List Tok)
    (ih : ∀ rest, rest.head? ≠ some .assign → FirstTok (codePrio c) (toks c ++ rest)) (hq : p ≤ q + 1)
    (hr : rest'.head? ≠ some .assign) : FirstTok q (wrapT p c ++ rest') := by
  unfold wrapT
  split
  · exact firstTok_lpar _ _
  · exact (ih rest' hr).mono (by omega)

theorem firstTok_prim (q : Nat) (c : Expr) (rest' : List Tok)
    (ih : ∀ rest, rest.head? ≠ some .assign → FirstTok (codePrio c) (toks c ++ rest)) (hq : 2 ≤ q)
    (hr : rest'.head? ≠ some .assign) : FirstTok q (primT c ++ rest') := by
  unfold primT
  split
  · exact firstTok_lpar _ _
  · exact (ih rest' hr).mono (by omega)

theorem first_toks : (e : Expr) → (rest : List Tok) → rest.head? ≠ some .assign → FirstTok (codePrio e) (toks e ++ rest)
  | .name s, rest, hr => ⟨.name s, rest, by simp [toks_name], rfl, by simp [prefixLvl], fun _ _ => hr⟩
  | .const s, rest, _ => ⟨.const s, rest, by simp [toks_const], rfl, by simp [prefixLvl], by simp⟩
  | .negConst s, rest, _ => ⟨.bin .sub, .const s :: rest, by simp [toks_negConst], rfl, by simp [prefixLvl, codePrio], by simp⟩
  | .boolOp o a b m, rest, _ => by
      rw [toks_boolOp, List.append_assoc]
      apply firstTok_wrap _ _ _ _ (first_toks a) _ (by cases o <;> simp)
      cases o <;> simp [codePrio]
  | .not e, rest, _ => ⟨.kNot, wrapT 12 e ++ rest, by simp [toks_not], rfl, by simp [prefixLvl, codePrio], by simp⟩
  | .compare l op r m, rest, _ => by
      rw [toks_compare, List.append_assoc]
      exact firstTok_wrap _ _ _ _ (first_toks l) (by simp [codePrio]) (by simp)
  | .bin op l r, rest, _ => by
      rw [toks_bin, List.append_assoc]
      exact firstTok_wrap _ _ _ _ (first_toks l) (by simp [codePrio]) (by simp)
  | .unary op e, rest, _ => by
      rw [toks_unary]
      cases op
      · exact ⟨.bin .sub, _, rfl, rfl, by simp [prefixLvl, codePrio], by simp [UnOp.tok]⟩
      · exact ⟨.bin .add, _, rfl, rfl, by simp [prefixLvl, codePrio], by simp [UnOp.tok]⟩
  | .ifExp b t o, rest, _ => by
      rw [toks_ifExp, List.append_assoc]
      exact firstTok_wrap _ _ _ _ (first_toks b) (by simp [codePrio]) (by simp)
  | .lambda ps b, rest, _ => ⟨.kLambda, _, by simp [toks_lambda]; rfl, rfl, by simp [prefixLvl, codePrio], by simp⟩
  | .attr e a, rest, _ => by
      rw [toks_attr, List.append_assoc]
      exact firstTok_prim _ _ _ (first_toks e) (by simp [codePrio]) (by simp)
  | .call f a, rest, _ => by
      rw [toks_call, List.append_assoc]
      exact firstTok_prim _ _ _ (first_toks f) (by simp [codePrio]) (by simp)
  | .subscript e i, rest, _ => by
      rw [toks_subscript, List.append_assoc]
      exact firstTok_prim _ _ _ (first_toks e) (by simp [codePrio]) (by simp)
  | .subscriptT e i, rest, _ => by
      rw [toks_subscriptT, List.append_assoc]
      exact firstTok_prim _ _ _ (first_toks e) (by simp [codePrio]) (by simp)
  | .list a, rest, _ => ⟨.lbrk, _, by simp [toks_list]; rfl, rfl, by simp [prefixLvl], by simp⟩
  | .tuple a, rest, _ => ⟨.lpar, _, by simp [toks_tuple]; rfl, rfl, by simp [prefixLvl], by simp⟩
  | .dict k, rest, _ => ⟨.lbrc, _, by simp [toks_dict]; rfl, rfl, by simp [prefixLvl], by simp⟩
  | .fstr ps, rest, _ => ⟨.const _, rest, by simp [toks, prE]; rfl, rfl, by simp [prefixLvl], by simp⟩


/-! ### one-step facts about the parser -/

/-- level at which a token continues an expression that stands to its left (0: `=` is never a continuation; 100: none) -/
def contLvl : Tok → Nat
  | .dot => 2 | .lpar => 2 | .lbrk => 2
  | .bin op => op.prio
  | .cmp _ => 11 | .kAnd => 13 | .kOr => 14 | .kIf => 15
  | .assign => 0
  | _ => 100

/-- nothing of level ≤ `lvl` continues the expression: the next token is not a trailer / operator of those levels -/
def Stops (lvl : Nat) : List Tok → Prop
  | [] => True
  | t :: _ => lvl < contLvl t

theorem Stops.mono {l m : Nat} {ts : List Tok} (h : Stops m ts) (hl : l ≤ m) : Stops l ts := by
  cases ts with
  | nil => trivial
  | cons t r => exact Nat.lt_of_le_of_lt hl h
theorem Stops.noAssign {l : Nat} {ts : List Tok} (h : Stops l ts) : ts.head? ≠ some .assign := by
  cases ts with
  | nil => simp
  | cons t r => intro h'; simp at h'; subst h'; simp [Stops, contLvl] at h
theorem BinOp.prio_ne_4 (op : BinOp) : op.prio ≠ 4 := by cases op <;> simp [BinOp.prio]
theorem BinOp.prio_le (op : BinOp) : op.prio ≤ 10 := by cases op <;> simp [BinOp.prio]
theorem Stops.up_3_4 {ts : List Tok} (h : Stops 3 ts) : Stops 4 ts := by
  cases ts with
  | nil => trivial
  | cons t r =>
    cases t <;> simp_all [Stops, contLvl]
    rename_i op; have := op.prio_ne_4; omega
theorem Stops.up_15_16 {ts : List Tok} (h : Stops 15 ts) : Stops 16 ts := by
  cases ts with
  | nil => trivial
  | cons t r =>
    cases t <;> simp_all [Stops, contLvl]
    rename_i op; have := op.prio_le; omega

theorem pE_zero (lvl : Nat) (ts : List Tok) : pE 0 lvl ts = none := by rw [pE.eq_def]

theorem pPost_stop (f : Nat) (left : Expr) (ts : List Tok) (h : Stops 2 ts) : pPost (f+1) left ts = some (left, ts) := by
  rw [pPost.eq_def]
  cases ts with
  | nil => simp
  | cons t r => cases t <;> simp_all [Stops, contLvl]
theorem pPost_attr (f : Nat) (left : Expr) (a : String) (r : List Tok) :
    pPost (f+1) left (.dot :: .name a :: r) = pPost f (.attr left a) r := by
  rw [pPost.eq_def]
theorem pPost_call (f : Nat) (left : Expr) (r r1 : List Tok) (args : Args) (h : pArgs f r = some (args, r1)) :
    pPost (f+1) left (.lpar :: r) = pPost f (.call left args) r1 := by
  rw [pPost.eq_def]; simp [h]
theorem pPost_sub (f : Nat) (left : Expr) (r r1 : List Tok) (s : Sub) (h : pSub f r = some (s, r1)) :
    pPost (f+1) left (.lbrk :: r) = pPost f (s.mk left) r1 := by
  rw [pPost.eq_def]; simp [h]

theorem pBin_stop (f lvl : Nat) (left : Expr) (ts : List Tok) (h : Stops lvl ts) : pBin (f+1) lvl left ts = some (left, ts) := by
  rw [pBin.eq_def]
  cases ts with
  | nil => simp
  | cons t r =>
    cases t <;> simp_all [Stops, contLvl]
    omega
theorem pBin_step (f lvl : Nat) (left rhs : Expr) (op : BinOp) (r r1 : List Tok) (hop : op.prio = lvl)
    (h : pE f (lvl - 1) r = some (rhs, r1)) : pBin (f+1) lvl left (.bin op :: r) = pBin f lvl (.bin op left rhs) r1 := by
  rw [pBin.eq_def]; simp [hop, h]

theorem pE_name (f : Nat) (s : String) (r : List Tok) : pE (f+1) 2 (.name s :: r) = pPost f (.name s) r := by
  rw [pE.eq_def]; simp
theorem pE_const (f : Nat) (s : String) (r : List Tok) : pE (f+1) 2 (.const s :: r) = pPost f (.const s) r := by
  rw [pE.eq_def]; simp
theorem pE_tuple_nil (f : Nat) (r : List Tok) : pE (f+1) 2 (.lpar :: .rpar :: r) = pPost f (.tuple .nil) r := by
  rw [pE.eq_def]; simp
theorem pE_list (f : Nat) (r r1 : List Tok) (es : Args) (h : pItems f .rbrk r = some (es, r1)) :
    pE (f+1) 2 (.lbrk :: r) = pPost f (.list es) r1 := by
  rw [pE.eq_def]; simp [h]
theorem pE_dict (f : Nat) (r r1 : List Tok) (k : KVs) (h : pKVs f r = some (k, r1)) :
    pE (f+1) 2 (.lbrc :: r) = pPost f (.dict k) r1 := by
  rw [pE.eq_def]; simp [h]
theorem pE_tuple_star (f : Nat) (r r1 r2 : List Tok) (e : Expr) (more : Args) (h : pE f 10 r = some (e, .comma :: r1))
    (h2 : pItems f .rpar r1 = some (more, r2)) : pE (f+1) 2 (.lpar :: .bin .mult :: r) = pPost f (.tuple (.star e more)) r2 := by
  rw [pE.eq_def]; simp [h, h2]
theorem pE_paren (f : Nat) (t0 : Tok) (ts' r1 : List Tok) (e : Expr) (ht : startTok t0 = true)
    (h : pE f 16 (t0 :: ts') = some (e, .rpar :: r1)) : pE (f+1) 2 (.lpar :: t0 :: ts') = pPost f e r1 := by
  rw [pE.eq_def]
  cases t0 <;> simp [startTok] at ht <;> simp [h]
  rename_i op; cases op <;> simp at ht <;> simp [h]
theorem pE_tuple_pos (f : Nat) (t0 : Tok) (ts' r1 r2 : List Tok) (e : Expr) (more : Args) (ht : startTok t0 = true)
    (h : pE f 16 (t0 :: ts') = some (e, .comma :: r1)) (h2 : pItems f .rpar r1 = some (more, r2)) :
    pE (f+1) 2 (.lpar :: t0 :: ts') = pPost f (.tuple (.pos e more)) r2 := by
  rw [pE.eq_def]
  cases t0 <;> simp [startTok] at ht <;> simp [h, h2]
  rename_i op; cases op <;> simp at ht <;> simp [h, h2]

theorem pE_pow (f : Nat) (ts r1 r2 : List Tok) (a b : Expr) (h : pE f 2 ts = some (a, .bin .pow :: r1))
    (h2 : pE f 4 r1 = some (b, r2)) : pE (f+1) 3 ts = some (.bin .pow a b, r2) := by
  rw [pE.eq_def]; simp [h, h2]
theorem pE_neg (f : Nat) (r r1 : List Tok) (e : Expr) (h : pE f 4 r = some (e, r1)) :
    pE (f+1) 4 (.bin .sub :: r) = some (.unary .neg e, r1) := by
  rw [pE.eq_def]; simp [h]
theorem pE_pos (f : Nat) (r r1 : List Tok) (e : Expr) (h : pE f 4 r = some (e, r1)) :
    pE (f+1) 4 (.bin .add :: r) = some (.unary .pos e, r1) := by
  rw [pE.eq_def]; simp [h]
theorem pE_binlvl (f lvl : Nat) (ts r : List Tok) (a : Expr) (h5 : 5 ≤ lvl) (h10 : lvl ≤ 10)
    (h : pE f (lvl - 1) ts = some (a, r)) : pE (f+1) lvl ts = pBin f lvl a r := by
  rw [pE.eq_def]
  have h1 : ¬ lvl ≥ 16 := by omega
  have h2 : lvl ≠ 15 := by omega
  have h3 : lvl ≠ 14 := by omega
  have h4 : lvl ≠ 13 := by omega
  have h6 : lvl ≠ 12 := by omega
  have h7 : lvl ≠ 11 := by omega
  simp [h1, h2, h3, h4, h6, h7, h5, h]
theorem pE_cmp (f : Nat) (ts r1 r2 r3 : List Tok) (a b : Expr) (op : CmpOp) (more : CmpTail)
    (h : pE f 10 ts = some (a, .cmp op :: r1)) (h2 : pE f 10 r1 = some (b, r2)) (h3 : pCmpTail f r2 = some (more, r3)) :
    pE (f+1) 11 ts = some (.compare a op b more, r3) := by
  rw [pE.eq_def]; simp [h, h2, h3]
theorem pE_not (f : Nat) (r r1 : List Tok) (e : Expr) (h : pE f 12 r = some (e, r1)) :
    pE (f+1) 12 (.kNot :: r) = some (.not e, r1) := by
  rw [pE.eq_def]; simp [h]
theorem pE_and (f : Nat) (ts r1 r2 r3 : List Tok) (a b : Expr) (more : Exprs)
    (h : pE f 12 ts = some (a, .kAnd :: r1)) (h2 : pE f 12 r1 = some (b, r2)) (h3 : pBoolTail f false r2 = some (more, r3)) :
    pE (f+1) 13 ts = some (.boolOp false a b more, r3) := by
  rw [pE.eq_def]; simp [h, h2, h3]
theorem pE_or (f : Nat) (ts r1 r2 r3 : List Tok) (a b : Expr) (more : Exprs)
    (h : pE f 13 ts = some (a, .kOr :: r1)) (h2 : pE f 13 r1 = some (b, r2)) (h3 : pBoolTail f true r2 = some (more, r3)) :
    pE (f+1) 14 ts = some (.boolOp true a b more, r3) := by
  rw [pE.eq_def]; simp [h, h2, h3]
theorem pE_ifExp (f : Nat) (ts r1 r2 r3 : List Tok) (a c b : Expr)
    (h : pE f 14 ts = some (a, .kIf :: r1)) (h2 : pE f 14 r1 = some (c, .kElse :: r2)) (h3 : pE f 16 r2 = some (b, r3)) :
    pE (f+1) 15 ts = some (.ifExp a c b, r3) := by
  rw [pE.eq_def]; simp [h, h2, h3]
theorem pE_lambda (f : Nat) (r r1 r2 : List Tok) (ps : Params) (b : Expr)
    (h : pParams f r = some (ps, r1)) (h2 : pE f 16 r1 = some (b, r2)) :
    pE (f+1) 16 (.kLambda :: r) = some (.lambda ps b, r2) := by
  rw [pE.eq_def]; simp [h, h2]

end PonyVerif.Model.PyPrint
